module verif/harness

go 1.16

require github.com/opsidian/parsley v0.0.0

replace github.com/opsidian/parsley => /tmp/repo_c05_m3
