package main

import (
	"bytes"
	"strconv"
	"strings"

	"github.com/opsidian/parsley/parsley"
	"github.com/opsidian/parsley/text"
)

func init() { subcommands["c09"] = c09 }

// the fixed expressions and callbacks; mirrored by hand in coq/Reader.v
// (rx_astar_b, rx_digits, rx_not_b, rx_wordb, sm_aplus_b, cb_line, cb_ax, cb_space)
var c09Exprs = []string{`a*b`, `[0-9]+`, `[^b]+`, `\b`}

const c09SubExpr = `(a+)(b)?`

var c09Callbacks = []func(b []byte) ([]byte, int){
	func(b []byte) ([]byte, int) { // the bytes before the first LF
		n := bytes.IndexByte(b, '\n')
		if n < 0 {
			n = len(b)
		}
		if n == 0 {
			return nil, 0
		}
		return b[:n], n
	},
	func(b []byte) ([]byte, int) { // "a" or "ab" consumed, value "X"
		if len(b) > 0 && b[0] == 'a' {
			if len(b) > 1 && b[1] == 'b' {
				return []byte("X"), 2
			}
			return []byte("X"), 1
		}
		return nil, 0
	},
	func(b []byte) ([]byte, int) { // one space consumed, nil value
		if len(b) > 0 && b[0] == ' ' {
			return nil, 1
		}
		return nil, 0
	},
}

// numbers of one position; neg is set when a negative number turns up (the model has naturals)
type c09row struct {
	n   []int
	neg bool
}

func (r *c09row) add(xs ...int) {
	for _, x := range xs {
		if x < 0 {
			r.neg = true
		}
		r.n = append(r.n, x)
	}
}

func (r *c09row) pb(p parsley.Pos, ok bool) {
	if int(p) < 0 {
		r.neg = true
	}
	b := 0
	if ok {
		b = 1
	}
	r.add(2*int(p) + b)
}

func (r *c09row) bytes(b []byte) {
	if b == nil {
		r.add(0)
		return
	}
	r.add(1 + len(b))
	for _, c := range b {
		r.add(int(c))
	}
}

func (r *c09row) String() string {
	if r.neg {
		return OT("Negative")
	}
	var sb strings.Builder
	sb.WriteString("(OS [")
	for i, x := range r.n {
		if i > 0 {
			sb.WriteString("; ")
		}
		sb.WriteString(strconv.Itoa(x))
	}
	sb.WriteString("])")
	return sb.String()
}

func c09WsKind(err parsley.Error) int {
	switch err.Error() {
	case "whitespaces are not allowed":
		return 0
	case "was expecting a new line":
		return 1
	case "new line is not allowed":
		return 2
	}
	return 9
}

// C09 raw off runes strs words
func c09(t *Term) string {
	raw := t.Args[0].Bytes()
	off := t.Args[1].Int()
	runes := t.Args[2].Ints()
	var strs, words []string
	for _, s := range t.Args[3].List() {
		strs = append(strs, string(s.Bytes()))
	}
	for _, s := range t.Args[4].List() {
		words = append(words, string(s.Bytes()))
	}
	f := loadFile("f", raw, variantOf(raw, off))
	var r *text.Reader
	if (len(raw)+off)%2 == 0 {
		// the reader may exist before the file is placed (FileSet.AddFile assigns the base offset
		// later, as in the library's own JSON benchmark): both orders must behave the same
		r = text.NewReader(f)
		f.SetOffset(off)
	} else {
		f.SetOffset(off)
		r = text.NewReader(f)
	}
	first := c09Pass(f, r, off, runes, strs, words)
	// a reader has no memory: after many other expressions were used on it (and on a second reader of the same
	// file) every primitive must still answer the same
	r2 := text.NewReader(f)
	for i := 0; i < 70; i++ {
		e := "z{" + strconv.Itoa(i+1) + "}|q" + strconv.Itoa(i)
		for _, rd := range []*text.Reader{r, r2} {
			func() {
				defer func() { _ = recover() }()
				rd.ReadRegexp(parsley.Pos(off+i%(f.Len()+1)), e)
				rd.ReadRegexpSubmatch(parsley.Pos(off), "("+e+")")
			}()
		}
	}
	if second := c09Pass(f, r, off, runes, strs, words); second != first {
		return OT("SecondPassDiffers", first, second)
	}
	return first
}

func c09Pass(f *text.File, r *text.Reader, off int, runes []int, strs, words []string) string {
	var rows []string
	for c := 0; c <= f.Len(); c++ {
		if n := f.Len(); !(n <= 2000 || c < 60 || n < c+60 || (c < 12296 && (c%4096 < 6 || c%4096 >= 4090)) ||
			c%65536 < 8 || c%65536 >= 65528) {
			continue // of a big file: the first and last 60 positions, those around the first multiples of 4096 and
			// around every multiple of 65536 (keep_position of coq/Reader.v)
		}
		pos := parsley.Pos(off + c)
		cur := c
		rows = append(rows, guard(func() string {
			row := &c09row{}
			for _, ch := range runes {
				row.pb(r.ReadRune(pos, rune(ch)))
			}
			for _, s := range strs {
				row.pb(r.MatchString(pos, s))
			}
			for _, w := range words {
				row.pb(r.MatchWord(pos, w))
			}
			for _, e := range c09Exprs {
				p, b := r.ReadRegexp(pos, e)
				row.add(int(p))
				row.bytes(b)
			}
			{
				p, gs := r.ReadRegexpSubmatch(pos, c09SubExpr)
				row.add(int(p))
				if gs == nil {
					row.add(0)
				} else {
					row.add(1 + len(gs))
					for _, g := range gs {
						row.bytes(g)
					}
				}
			}
			for _, cb := range c09Callbacks {
				p, b := r.Readf(pos, cb)
				row.add(int(p))
				row.bytes(b)
			}
			eof := 0
			if r.IsEOF(pos) {
				eof = 1
			}
			row.add(r.Remaining(pos), eof, int(r.Pos(cur)))
			for _, m := range []text.WsMode{text.WsNone, text.WsSpaces, text.WsSpacesNl, text.WsSpacesForceNl} {
				p, err := r.SkipWhitespaces(pos, m)
				row.add(int(p))
				if err == nil {
					row.add(0)
				} else {
					row.add(1+c09WsKind(err), int(err.Pos()))
				}
			}
			return row.String()
		}))
	}
	return OL(rows...)
}
