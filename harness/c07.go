package main

// c07: property C07 "a returned result is never modified afterwards", observed on the real code.
//
// The grammar of the case (a pexpr term of coq/Grammar.v) is built from the real combinators with a
// RECORDER around EVERY sub-parser (every pexpr node, references and rule bodies included).  At each return
// the recorder keeps the returned parsley.Node interface value — for an ast.NodeList the slice header as
// received — together with its rendering at that moment (token, value, positions, children recursively,
// list elements in order).  At the end of the parse every recorded value is rendered again and compared.
//
// The one sanctioned update: text.RightTrim moves the reader position of the node(s) its operand has just
// returned to it (that IS RightTrim: "updates the reader position").  Values recorded DURING a RightTrim
// call are therefore (1) checked against their at-return rendering at the moment the operand returns,
// (2) allowed to differ after the RightTrim returns only in the reader position of their top-level
// node(s) (children, tokens, values, start positions, list length must be unchanged), and the moved rendering
// becomes what is compared from then on.  Values recorded BEFORE the RightTrim call began (they can only
// reach it through the result cache) get no such allowance: that is known finding K1.
//
// Memoize: every answer of every Memoize is kept per (memo, position).  An answer given without running
// the body must be the answer of the last body run for that key (same object, same rendering, same
// curtailing set, same error) unless it is a curtailment (nil, one curtailing parser, no error).  After the
// parse every (memo, position) is asked again with the left-recursion context of its last call: the answer
// must be the last answer and the body must not run.

import (
	"fmt"
	"reflect"
	"sort"
	"strings"

	"github.com/opsidian/parsley/ast"
	"github.com/opsidian/parsley/ast/interpreter"
	"github.com/opsidian/parsley/combinator"
	"github.com/opsidian/parsley/data"
	"github.com/opsidian/parsley/parser"
	"github.com/opsidian/parsley/parsley"
	"github.com/opsidian/parsley/text"
	"github.com/opsidian/parsley/text/terminal"
)

func init() {
	subcommands["c07"] = c07Cmd
}

// ---------------------------------------------------------------- rendering

func c07Value(n parsley.Node) string {
	if n == nil {
		return OT("Nil")
	}
	if nl, ok := n.(ast.NodeList); ok {
		items := make([]string, len(nl))
		for i, x := range nl {
			items[i] = renderNode(x)
		}
		return OT("L", items...)
	}
	return OT("S", renderNode(n))
}

// the rendering with the reader position of the top-level node(s) masked
func c07MaskedNode(n parsley.Node) string {
	switch v := n.(type) {
	case ast.EmptyNode:
		return "E_" // an EmptyNode is its position: SetReaderPos replaces the value
	case parser.EndNode:
		return renderNode(n)
	case *ast.NonTerminalNode:
		var cs []string
		for _, c := range v.Children() {
			cs = append(cs, renderNode(c))
		}
		return fmt.Sprintf("N %s %d [%s]", v.Token(), v.Pos(), strings.Join(cs, ";"))
	case parsley.LiteralNode:
		return fmt.Sprintf("T %q %v %d", v.Token(), v.Value(), v.Pos())
	}
	return renderNode(n)
}

func c07Masked(n parsley.Node) string {
	if n == nil {
		return "Nil"
	}
	if nl, ok := n.(ast.NodeList); ok {
		items := make([]string, len(nl))
		for i, x := range nl {
			items[i] = c07MaskedNode(x)
		}
		return "L[" + strings.Join(items, ";") + "]"
	}
	return "S " + c07MaskedNode(n)
}

// the hash of coq/EngineH.v (hmix, ser_node, ser_value)
const c07Mod = 2147483647

func hmix(h, x uint64) uint64 { return (h*1000003 + x + 1) & c07Mod }

func serNode(n parsley.Node, h uint64) uint64 {
	switch v := n.(type) {
	case ast.EmptyNode:
		return hmix(hmix(h, 2), uint64(v.Pos()))
	case parser.EndNode:
		return hmix(hmix(h, 3), uint64(v.Pos()))
	case *ast.NonTerminalNode:
		h = hmix(hmix(hmix(hmix(h, 4), uint64(tokCode(v.Token()))), uint64(v.Pos())), uint64(v.ReaderPos()))
		cs := v.Children()
		h = hmix(h, uint64(len(cs)))
		for _, c := range cs {
			h = serNode(c, h)
		}
		return hmix(h, 5)
	case parsley.LiteralNode:
		h = hmix(h, 1)
		for _, b := range []byte(v.Token()) {
			h = hmix(h, uint64(b))
		}
		if r, ok := v.Value().(rune); ok {
			h = hmix(hmix(h, 1), uint64(r))
		} else {
			h = hmix(h, 2)
		}
		return hmix(hmix(h, uint64(v.Pos())), uint64(v.ReaderPos()))
	}
	return hmix(h, 999)
}

func serValue(n parsley.Node, h uint64) uint64 {
	if n == nil {
		return hmix(hmix(h, 8), 0)
	}
	if nl, ok := n.(ast.NodeList); ok {
		h = hmix(hmix(h, 7), uint64(len(nl)))
		for _, x := range nl {
			h = serNode(x, h)
		}
		return h
	}
	return serNode(n, hmix(hmix(h, 9), 1))
}

// identity of two results: the same object (for a NodeList the same header: array, len, cap)
func sameObject(a, b parsley.Node) bool {
	if a == nil || b == nil {
		return a == nil && b == nil
	}
	la, oka := a.(ast.NodeList)
	lb, okb := b.(ast.NodeList)
	if oka || okb {
		if !(oka && okb) || len(la) != len(lb) || cap(la) != cap(lb) {
			return false
		}
		return reflect.ValueOf(la).Pointer() == reflect.ValueOf(lb).Pointer()
	}
	ta, tb := reflect.TypeOf(a), reflect.TypeOf(b)
	if ta != tb || !ta.Comparable() {
		return false
	}
	return a == b
}

func renderSet(s data.IntSet) string {
	var xs []int
	s.Each(func(v int) { xs = append(xs, v) })
	sort.Ints(xs)
	return fmt.Sprint(xs)
}

func renderErrText(e parsley.Error) string {
	if e == nil {
		return "-"
	}
	return fmt.Sprintf("%d:%s", e.Pos(), renderCause(e))
}

// ---------------------------------------------------------------- state of one run

type c07Rec struct {
	val     parsley.Node
	orig    string // rendering at return
	base    string // rendering it must still have (orig, or moved by the RightTrim it was returned under)
	masked  string
	changed bool
}

type c07Answer struct {
	rec    int // index of the record of this answer
	node   parsley.Node
	cp     string
	err    string
	lrc    data.IntMap
	pos    parsley.Pos
	parser parsley.Parser
}

type c07State struct {
	recs        []*c07Rec
	digest      uint64
	recording   bool
	trimStarts  []int
	lastStore   map[[2]int]*c07Answer
	lastCall    map[[2]int]*c07Answer
	keys        [][2]int
	served      int
	servedDiff  int
	reaskDiff   int
	reaskBody   int
	bodyRuns    int
	trimmedCase bool
}

const c07Limit = 4000

type c07Budget struct{}

func (st *c07State) record(n parsley.Node) int {
	if len(st.recs) >= c07Limit {
		panic(c07Budget{})
	}
	r := &c07Rec{val: n, orig: c07Value(n), masked: c07Masked(n)}
	r.base = r.orig
	st.recs = append(st.recs, r)
	if !st.trimmedCase {
		st.digest = serValue(n, st.digest)
	}
	return len(st.recs) - 1
}

// the value must still read as recorded
func (st *c07State) verify(i int) {
	r := st.recs[i]
	if !r.changed && c07Value(r.val) != r.base {
		r.changed = true
	}
}

// after the RightTrim under which the value was returned: only the reader position of the top-level node(s) may differ
func (st *c07State) rebase(i int) {
	r := st.recs[i]
	if r.changed {
		return
	}
	if c07Masked(r.val) != r.masked {
		r.changed = true
		return
	}
	r.base = c07Value(r.val)
}

// does the answer equal the earlier one (same object, reads as that one reads now, same curtailing set and error)?
func (st *c07State) sameAnswer(a *c07Answer, n parsley.Node, cp data.IntSet, err parsley.Error) bool {
	return sameObject(a.node, n) && c07Value(n) == st.recs[a.rec].base && !st.recs[a.rec].changed &&
		a.cp == renderSet(cp) && a.err == renderErrText(err)
}

// ---------------------------------------------------------------- the probes

type c07Recorder struct {
	p  parsley.Parser
	st **c07State
}

func (r *c07Recorder) Parse(ctx *parsley.Context, l data.IntMap, pos parsley.Pos) (parsley.Node, data.IntSet, parsley.Error) {
	n, cp, err := r.p.Parse(ctx, l, pos)
	st := *r.st
	if st.recording {
		st.record(n)
	}
	return n, cp, err
}

type c07Body struct {
	p  parsley.Parser
	st **c07State
}

func (b *c07Body) Parse(ctx *parsley.Context, l data.IntMap, pos parsley.Pos) (parsley.Node, data.IntSet, parsley.Error) {
	(*b.st).bodyRuns++
	return b.p.Parse(ctx, l, pos)
}

// the recorder of a Memoize: also keeps the answers per (memo, position)
type c07Memo struct {
	idx   int
	inner parsley.Parser
	st    **c07State
}

func (m *c07Memo) Parse(ctx *parsley.Context, l data.IntMap, pos parsley.Pos) (parsley.Node, data.IntSet, parsley.Error) {
	st := *m.st
	before := st.bodyRuns
	n, cp, err := m.inner.Parse(ctx, l, pos)
	if !st.recording {
		return n, cp, err
	}
	rec := st.record(n)
	k := [2]int{m.idx, int(pos)}
	a := &c07Answer{rec: rec, node: n, cp: renderSet(cp), err: renderErrText(err), lrc: l, pos: pos, parser: m.inner}
	if _, seen := st.lastCall[k]; !seen {
		st.keys = append(st.keys, k)
	}
	if st.bodyRuns == before {
		st.served++
		curtailed := n == nil && err == nil && cp.Len() == 1
		if prev, ok := st.lastStore[k]; ok {
			if !st.sameAnswer(prev, n, cp, err) && !curtailed {
				st.servedDiff++
			}
		} else if !curtailed {
			st.servedDiff++ // served from the cache although no body ever ran for this key
		}
	} else {
		st.lastStore[k] = a
	}
	st.lastCall[k] = a
	return n, cp, err
}

// around text.RightTrim: the values recorded during the call may be moved by it
type c07TrimOuter struct {
	inner parsley.Parser
	st    **c07State
}

func (t *c07TrimOuter) Parse(ctx *parsley.Context, l data.IntMap, pos parsley.Pos) (parsley.Node, data.IntSet, parsley.Error) {
	st := *t.st
	if !st.recording {
		return t.inner.Parse(ctx, l, pos)
	}
	start := len(st.recs)
	st.trimStarts = append(st.trimStarts, start)
	n, cp, err := t.inner.Parse(ctx, l, pos)
	st.trimStarts = st.trimStarts[:len(st.trimStarts)-1]
	for i := start; i < len(st.recs); i++ {
		st.rebase(i)
	}
	return n, cp, err
}

// the operand of text.RightTrim: when it returns, everything recorded during the call must still read as recorded
type c07TrimOperand struct {
	p  parsley.Parser
	st **c07State
}

func (t *c07TrimOperand) Parse(ctx *parsley.Context, l data.IntMap, pos parsley.Pos) (parsley.Node, data.IntSet, parsley.Error) {
	n, cp, err := t.p.Parse(ctx, l, pos)
	st := *t.st
	if st.recording && len(st.trimStarts) > 0 {
		for i := st.trimStarts[len(st.trimStarts)-1]; i < len(st.recs); i++ {
			st.verify(i)
		}
	}
	return n, cp, err
}

// ---------------------------------------------------------------- grammar builder (every node recorded)

type c07Builder struct {
	rules []parser.Func
	st    **c07State
}

func (b *c07Builder) rec(p parsley.Parser) parsley.Parser { return &c07Recorder{p, b.st} }

func (b *c07Builder) list(t *Term) []parsley.Parser {
	var ps []parsley.Parser
	for _, x := range t.List() {
		ps = append(ps, b.build(x))
	}
	return ps
}

func (b *c07Builder) build(t *Term) parsley.Parser {
	switch t.Head {
	case "PTerm":
		lit := t.Args[0]
		if lit.Head != "TRune" {
			panic("bad terminal " + lit.Head)
		}
		return b.rec(terminal.Rune(rune(lit.Args[0].Int())))
	case "PEmpty":
		return b.rec(parser.Empty())
	case "PEnd":
		return b.rec(parser.End())
	case "PRef":
		return b.rec(&b.rules[t.Args[0].Int()])
	case "PMemo":
		body := b.build(t.Args[1])
		return &c07Memo{t.Args[0].Int(), combinator.Memoize(&c07Body{body, b.st}), b.st}
	case "PAny":
		return b.rec(combinator.Any(b.list(t.Args[0])...))
	case "PChoice":
		return b.rec(combinator.Choice(b.list(t.Args[0])...))
	case "POpt":
		return b.rec(combinator.Optional(b.build(t.Args[0])))
	case "PSeq":
		ps := b.list(t.Args[4])
		var s *combinator.Sequence
		k := t.Args[0]
		switch k.Head {
		case "SeqOf":
			s = combinator.SeqOf(ps...)
		case "SeqTry":
			s = combinator.SeqTry(ps...)
		case "SeqFirstOrAll":
			s = combinator.SeqFirstOrAll(ps...)
		case "SMany":
			if k.Args[0].Bool() {
				s = combinator.Many(ps[0])
			} else {
				s = combinator.Many1(ps[0])
			}
		case "SSepBy":
			if k.Args[0].Bool() {
				s = combinator.SepBy(ps[0], ps[1])
			} else {
				s = combinator.SepBy1(ps[0], ps[1])
			}
		default:
			panic("bad seqkind " + k.Head)
		}
		ip := t.Args[1]
		switch ip.Head {
		case "INone":
		case "ISelect":
			s = s.Bind(interpreter.Select(ip.Args[0].Int()))
		case "IArray":
			s = s.Bind(interpreter.Array())
		case "IObject":
			s = s.Bind(interpreter.Object())
		case "INil":
			s = s.Bind(interpreter.Nil())
		default:
			panic("bad interp " + ip.Head)
		}
		if t.Args[2].Bool() {
			s = s.HandleResult(combinator.ReturnSingle())
		}
		if t.Args[3].Head == "Some" {
			s = s.Name(string(t.Args[3].Args[0].Bytes()))
		}
		return b.rec(s)
	case "PName":
		return b.rec(parser.ReturnError(b.build(t.Args[1]), parsley.NotFoundError(string(t.Args[0].Bytes()))))
	case "PLeftTrim":
		return b.rec(text.LeftTrim(b.build(t.Args[1]), wsMode(t.Args[0])))
	case "PRightTrim":
		operand := &c07TrimOperand{b.build(t.Args[1]), b.st}
		return b.rec(&c07TrimOuter{text.RightTrim(operand, wsMode(t.Args[0])), b.st})
	case "PSuppress":
		return b.rec(combinator.SuppressError(b.build(t.Args[0])))
	case "PSingle":
		return b.rec(combinator.Single(b.build(t.Args[0])))
	}
	panic("bad pexpr " + t.Head)
}

func app(head string, args ...*Term) *Term { return &Term{Kind: KApp, Head: head, Args: args} }

// combinator.Sentence as a pexpr: PSeq SeqOf (ISelect 0) false None [root; PEnd]
func sentenceTerm(root *Term) *Term {
	return app("PSeq", app("SeqOf"), app("ISelect", &Term{Kind: KNum, Num: 0}), app("false"), app("None"),
		&Term{Kind: KList, Args: []*Term{root, app("PEnd")}})
}

// ---------------------------------------------------------------- one run

func c07Run(e *engEnv, root *Term, full, trimmed bool) (out string) {
	defer func() {
		if r := recover(); r != nil {
			if _, ok := r.(c07Budget); ok {
				out = "budget"
			} else {
				out = OPanic
			}
		}
	}()
	return func() string {
		st := &c07State{recording: true, lastStore: map[[2]int]*c07Answer{}, lastCall: map[[2]int]*c07Answer{}, trimmedCase: trimmed}
		stp := &st
		b := &c07Builder{st: stp}
		b.rules = make([]parser.Func, len(e.rules))
		for i, rt := range e.rules {
			b.rules[i] = parser.Func(b.build(rt).Parse)
		}
		rootParser := b.build(root)
		r := text.NewReader(e.file)
		ctx := parsley.NewContext(e.fs, r)
		n, _, _ := rootParser.Parse(ctx, data.EmptyIntMap, r.Pos(0))
		rootRendering := OT("-")
		if trimmed {
			rootRendering = c07Value(n)
		}

		// ask every Memoize again where it was asked, with the context of its last call there
		st.recording = false
		for _, k := range st.keys {
			a := st.lastCall[k]
			before := st.bodyRuns
			n2, cp2, err2 := a.parser.Parse(ctx, a.lrc, a.pos)
			if st.bodyRuns != before {
				st.reaskBody++
			}
			if !st.sameAnswer(a, n2, cp2, err2) {
				st.reaskDiff++
			}
		}

		changed := 0
		var details []string
		for i := range st.recs {
			st.verify(i)
			if st.recs[i].changed {
				changed++
				if len(details) < 3 {
					details = append(details, OL(ON(i), st.recs[i].orig, c07Value(st.recs[i].val)))
				}
			}
		}
		var all []string
		if full && !trimmed {
			for _, rc := range st.recs {
				all = append(all, rc.orig)
			}
		}
		return OT("R", ON(len(st.recs)), ON(changed), OL(details...),
			ON(st.served), ON(st.servedDiff),
			ON(len(st.keys)), ON(st.reaskDiff), ON(st.reaskBody),
			ON(int(st.digest)), OL(all...), rootRendering)
	}()
}

// Eng rules root data offset flags   (flags bit 0: print every at-return rendering; bit 1: RightTrim above Memoize)
func c07Cmd(t *Term) string {
	e := newEngEnv(t)
	flags := t.Args[4].Int()
	full, trimmed := flags&1 == 1, flags&2 == 2
	r1 := c07Run(e, e.root, full, trimmed)
	if r1 == "budget" {
		return OT("Timeout")
	}
	r2 := c07Run(e, sentenceTerm(e.root), full, trimmed)
	if r2 == "budget" {
		return OT("Timeout")
	}
	return OT("C07", r1, r2)
}
