package main

// eng: builds real parsley combinators from a pexpr term (coq/Grammar.v), places
// probes inside every Memoize (activations) and around every terminal (failed
// attempts) and renders what happened as the observation EngineHarness.v expects.

import (
	"bytes"
	"fmt"
	"os"
	"sort"
	"strings"
	"time"

	"github.com/opsidian/parsley/ast"
	"github.com/opsidian/parsley/ast/interpreter"
	"github.com/opsidian/parsley/combinator"
	"github.com/opsidian/parsley/data"
	"github.com/opsidian/parsley/parser"
	"github.com/opsidian/parsley/parsley"
	"github.com/opsidian/parsley/text"
	"github.com/opsidian/parsley/text/terminal"
)

func init() {
	// Memoize draws its cache key from a process-wide counter that only grows: half of the driver processes
	// start with the counter beyond 16 bits (a long-running program that built many grammars)
	if os.Getenv("VERIF_MEMO_BURN") != "" {
		for i := 0; i < 70000; i++ {
			combinator.Memoize(parser.Empty())
		}
	}
	subcommands["eng"] = engCmd
	subcommands["c12"] = c12Cmd
	subcommands["c17"] = c17Cmd
}

// the same case with the file alone (base offset 1) and at the case's offset
func c12Cmd(t *Term) string {
	alone := *t
	alone.Args = append([]*Term{}, t.Args...)
	alone.Args[3] = &Term{Kind: KNum, Num: 1}
	return OT("C12", engCmd(&alone), engCmd(t))
}

type engStats struct {
	active map[[2]int]int
	bodies []int
	fails  []string
	evals  []int // user interpreters (IUser id) in the order they ran
}

type bodyProbe struct {
	idx int
	p   parsley.Parser
	st  **engStats
}

func (b *bodyProbe) Parse(ctx *parsley.Context, l data.IntMap, pos parsley.Pos) (parsley.Node, data.IntSet, parsley.Error) {
	st := *b.st
	k := [2]int{b.idx, int(pos)}
	st.active[k]++
	st.bodies = append(st.bodies, b.idx, int(pos), st.active[k])
	defer func() { st.active[k]-- }()
	return b.p.Parse(ctx, l, pos)
}

type failProbe struct {
	p  parsley.Parser
	st **engStats
}

var engKeywords = [3]string{"kw0", "kw1", "kw2"}

var (
	warming   bool
	warmUntil time.Time
)

func (f *failProbe) Parse(ctx *parsley.Context, l data.IntMap, pos parsley.Pos) (parsley.Node, data.IntSet, parsley.Error) {
	if warming && time.Now().After(warmUntil) {
		panic("warm-up cut short")
	}
	// the context's public setters may be used while a parse runs (a keyword terminal that registers its word when
	// it is tried): that is bookkeeping of the context and leaves results, errors, cache and counts alone
	ctx.RegisterKeywords(engKeywords[int(pos)%3])
	n, cp, err := f.p.Parse(ctx, l, pos)
	if n == nil && err != nil {
		st := *f.st
		st.fails = append(st.fails, OL(ON(int(pos)), renderCause(err)))
	}
	return n, cp, err
}

type sentenceProbe struct {
	p  parsley.Parser
	st **engStats
}

func (f *sentenceProbe) Parse(ctx *parsley.Context, l data.IntMap, pos parsley.Pos) (parsley.Node, data.IntSet, parsley.Error) {
	n, cp, err := f.p.Parse(ctx, l, pos)
	st := *f.st
	var alts []parsley.Node
	if nl, ok := n.(ast.NodeList); ok {
		alts = nl
	} else if n != nil {
		alts = []parsley.Node{n}
	}
	for _, a := range alts {
		if ctx.Reader().IsEOF(a.ReaderPos()) {
			break
		}
		st.fails = append(st.fails, OL(ON(int(a.ReaderPos())), OT("End")))
	}
	return n, cp, err
}

type engBuilder struct {
	rules []parser.Func
	st    **engStats
	memo  bool
}

func wsMode(t *Term) text.WsMode {
	switch t.Head {
	case "WsNone":
		return text.WsNone
	case "WsSpaces":
		return text.WsSpaces
	case "WsSpacesNl":
		return text.WsSpacesNl
	case "WsSpacesForceNl":
		return text.WsSpacesForceNl
	}
	panic("bad wsmode " + t.Head)
}

func (b *engBuilder) list(t *Term) []parsley.Parser {
	var ps []parsley.Parser
	for _, x := range t.List() {
		ps = append(ps, b.build(x))
	}
	return ps
}

func (b *engBuilder) build(t *Term) parsley.Parser {
	switch t.Head {
	case "PTerm":
		lit := t.Args[0]
		switch lit.Head {
		case "TRune":
			return &failProbe{terminal.Rune(rune(lit.Args[0].Int())), b.st}
		case "TLit":
			return &failProbe{buildLiteral(lit.Args[0]), b.st}
		}
		panic("bad terminal " + lit.Head)
	case "PEmpty":
		return parser.Empty()
	case "PEnd":
		return &failProbe{parser.End(), b.st}
	case "PRef":
		return &b.rules[t.Args[0].Int()]
	case "PMemo":
		body := b.build(t.Args[1])
		if !b.memo {
			return body
		}
		return combinator.Memoize(&bodyProbe{t.Args[0].Int(), body, b.st})
	case "PAny":
		return combinator.Any(b.list(t.Args[0])...)
	case "PChoice":
		return combinator.Choice(b.list(t.Args[0])...)
	case "POpt":
		return combinator.Optional(b.build(t.Args[0]))
	case "PSeq":
		ps := b.list(t.Args[4])
		var s *combinator.Sequence
		k := t.Args[0]
		switch k.Head {
		case "SeqOf":
			s = combinator.SeqOf(ps...)
		case "SeqTry":
			s = combinator.SeqTry(ps...)
		case "SeqFirstOrAll":
			s = combinator.SeqFirstOrAll(ps...)
		case "SMany":
			if k.Args[0].Bool() {
				s = combinator.Many(ps[0])
			} else {
				s = combinator.Many1(ps[0])
			}
		case "SSepBy":
			if k.Args[0].Bool() {
				s = combinator.SepBy(ps[0], ps[1])
			} else {
				s = combinator.SepBy1(ps[0], ps[1])
			}
		default:
			panic("bad seqkind " + k.Head)
		}
		ip := t.Args[1]
		switch ip.Head {
		case "INone":
		case "ISelect":
			s = s.Bind(interpreter.Select(ip.Args[0].Int()))
		case "IArray":
			s = s.Bind(interpreter.Array())
		case "IObject":
			s = s.Bind(interpreter.Object())
		case "INil":
			s = s.Bind(interpreter.Nil())
		case "IUser":
			s = s.Bind(userInterp(ip.Args[0].Int(), b.st))
		default:
			panic("bad interp " + ip.Head)
		}
		if t.Args[2].Bool() {
			s = s.HandleResult(combinator.ReturnSingle())
		}
		if t.Args[3].Head == "Some" {
			s = s.Name(string(t.Args[3].Args[0].Bytes()))
		}
		return s
	case "PName":
		return parser.ReturnError(b.build(t.Args[1]), parsley.NotFoundError(string(t.Args[0].Bytes())))
	case "PLeftTrim":
		return text.LeftTrim(b.build(t.Args[1]), wsMode(t.Args[0]))
	case "PRightTrim":
		return text.RightTrim(b.build(t.Args[1]), wsMode(t.Args[0]))
	case "PSuppress":
		return combinator.SuppressError(b.build(t.Args[0]))
	case "PSingle":
		return combinator.Single(b.build(t.Args[0]))
	}
	panic("bad pexpr " + t.Head)
}

// the real terminal parsers of text/terminal for a Literals.literal term
func buildLiteral(l *Term) parsley.Parser {
	switch l.Head {
	case "LInteger":
		return terminal.Integer(nil)
	case "LFloat":
		return terminal.Float(nil)
	case "LString":
		return terminal.String(nil, l.Args[0].Bool())
	case "LChar":
		return terminal.Char(nil)
	case "LBool":
		return terminal.Bool(nil, string(l.Args[0].Bytes()), string(l.Args[1].Bytes()))
	case "LNil":
		return terminal.Nil(nil, string(l.Args[0].Bytes()))
	case "LWord":
		w := string(l.Args[0].Bytes())
		return terminal.Word(nil, w, w)
	case "LOp":
		return terminal.Op(string(l.Args[0].Bytes()))
	case "LRune":
		return terminal.Rune(rune(l.Args[0].Int()))
	case "LDuration":
		return terminal.TimeDuration(nil)
	}
	panic("bad literal " + l.Head)
}

// the file of the case being run (normalised bytes, base offset): a float64 / time.Duration value is
// rendered by its lexeme, the bytes pos..readerPos of the file
var engData []byte
var engOffset int

func lexeme(pos, readerPos parsley.Pos) string {
	lo, hi := int(pos)-engOffset, int(readerPos)-engOffset
	if lo < 0 || hi > len(engData) || lo > hi {
		return OT("bad-span")
	}
	return OT("lex", OStr(string(engData[lo:hi])))
}

func renderValue(v interface{}, pos, readerPos parsley.Pos) string {
	switch x := v.(type) {
	case float64:
		return lexeme(pos, readerPos)
	case time.Duration:
		return lexeme(pos, readerPos)
	case rune:
		return OT("r", ON(int(x)))
	case int64:
		return OT("i", OZ(x))
	case string:
		return OT("s", OStr(x))
	case bool:
		return OT("b", OB(x))
	case nil:
		return OT("n")
	}
	return OT("unknown-value", OStr(fmt.Sprintf("%T", v)))
}

func tokCode(t string) int {
	switch t {
	case "SEQ":
		return 0
	case "MANY":
		return 1
	case "SEP_BY":
		return 2
	}
	return 99
}

func ONs(ns ...int) string {
	b := make([]string, len(ns))
	for i, n := range ns {
		if n < 0 {
			return OT("Negative")
		}
		b[i] = fmt.Sprint(n)
	}
	return "(OS [" + strings.Join(b, "; ") + "])"
}

func renderNode(n parsley.Node) string {
	switch v := n.(type) {
	case ast.EmptyNode:
		return OT("E", ON(int(v.Pos())))
	case parser.EndNode:
		return OT("F", ON(int(v.Pos())))
	case *ast.NonTerminalNode:
		var cs []string
		for _, c := range v.Children() {
			cs = append(cs, renderNode(c))
		}
		return OT("N", ONs(tokCode(v.Token()), int(v.Pos()), int(v.ReaderPos())), OL(cs...))
	case ast.NodeList:
		return OT("nested-list")
	case parsley.LiteralNode:
		if r, ok := v.Value().(rune); ok && v.Token() == string(r) && r < 128 {
			return OT("r", ONs(int(r), int(v.Pos()), int(v.ReaderPos())))
		}
		return OT("T", OStr(v.Token()), renderValue(v.Value(), v.Pos(), v.ReaderPos()), ONs(int(v.Pos()), int(v.ReaderPos())))
	}
	return OT("unknown-node", OStr(fmt.Sprintf("%T", n)))
}

func renderResult(n parsley.Node) []string {
	if n == nil {
		return nil
	}
	if nl, ok := n.(ast.NodeList); ok {
		var out []string
		for _, x := range nl {
			out = append(out, renderNode(x))
		}
		return out
	}
	return []string{renderNode(n)}
}

func renderCause(err parsley.Error) string {
	if nf, ok := err.Cause().(parsley.NotFoundError); ok {
		return OT("NF", OStr(string(nf)))
	}
	if parsley.IsWhitespaceError(err) {
		switch err.Error() {
		case "whitespaces are not allowed":
			return OT("WS", ON(0))
		case "was expecting a new line":
			return OT("WS", ON(1))
		case "new line is not allowed":
			return OT("WS", ON(2))
		}
	}
	if err.Error() == "was expecting the end of input" {
		return OT("End")
	}
	return OT("O", OStr(err.Error()))
}

func renderErr(err parsley.Error) string {
	if err == nil {
		return ONone
	}
	return OSome(OL(ON(int(err.Pos())), renderCause(err)))
}

// level 2: error, calls, bodies, fails; 1: error, calls, fails; 0: error, calls
func renderCtx(ctx *parsley.Context, st *engStats, level int) []string {
	out := []string{renderErr(ctx.Error()), ON(ctx.CallCount())}
	if level == 2 {
		out = append(out, ONs(st.bodies...))
	}
	if level >= 1 {
		out = append(out, OL(st.fails...))
	}
	return out
}

type engEnv struct {
	file  *text.File
	fs    *parsley.FileSet
	rules []*Term
	root  *Term
	early *text.Reader

	rawBytes []byte
	offset   int
	warmLeft int
}

func (e *engEnv) fresh(memo bool) (*parsley.Context, *engStats, parsley.Parser, *text.Reader) {
	st := &engStats{active: map[[2]int]int{}}
	stp := &st
	b := &engBuilder{st: stp, memo: memo}
	b.rules = make([]parser.Func, len(e.rules))
	for i, rt := range e.rules {
		b.rules[i] = parser.Func(b.build(rt).Parse)
	}
	root := b.build(e.root)
	if memo && e.warmLeft > 0 && os.Getenv("VERIF_NOWARM") == "" {
		e.warmLeft-- // the first two memoised graphs of a case (raw and Sentence)
		e.warm(root, stp)
	}
	r := e.early
	if r == nil {
		r = text.NewReader(e.file)
	}
	ctx := parsley.NewContext(e.fs, r)
	return ctx, st, root, r
}

// the graph parses other inputs first (own file, file set, reader and context each; the probes log into a
// throw-away record): nothing of that may show in the observed run
func (e *engEnv) warm(root parsley.Parser, stp **engStats) {
	saved := *stp
	defer func() {
		_ = recover()
		*stp = saved
	}()
	defer func() { warming = false }()
	for _, w := range warmInputs(e.rawBytes)[:2] {
		*stp = &engStats{active: map[[2]int]int{}}
		f, fs := warmFile(w, e.offset)
		func() {
			defer func() { _ = recover() }()
			// a warm-up is cut short after 4 ms (the probes look at the clock): the longer inputs can cost an
			// ambiguous grammar far more than the observed one
			warming, warmUntil = true, time.Now().Add(4*time.Millisecond)
			ctx := parsley.NewContext(fs, text.NewReader(f))
			_, _, _ = root.Parse(ctx, data.EmptyIntMap, f.Pos(0))
		}()
	}
}

func (e *engEnv) raw(memo bool) string {
	return guard(func() string {
		ctx, st, root, r := e.fresh(memo)
		n, _, err := root.Parse(ctx, data.EmptyIntMap, r.Pos(0))
		return OT("Raw", append([]string{OL(renderResult(n)...), renderErr(err)}, renderCtx(ctx, st, 2)...)...)
	})
}

func (e *engEnv) top(sentence bool) string {
	return guard(func() string {
		ctx, st, root, _ := e.fresh(true)
		if sentence {
			// Sentence's own End() cannot be wrapped: its failed attempts are derived from the
			// root's results (End is tried at the end of each alternative, in order, up to the
			// first one that reaches the end of input)
			root = combinator.Sentence(&sentenceProbe{root, &st})
		}
		n, err := parsley.Parse(ctx, root)
		var first string
		switch {
		case n != nil && err != nil:
			first = OT("Both")
		case n == nil && err == nil:
			first = OT("Neither")
		case err != nil:
			// the parsley.Error behind the text is not reachable; the text carries file:line:column
			first = OT("Err", OStr(err.Error()))
		default:
			first = OT("Node", renderResult(n)...)
		}
		level := 0
		if sentence {
			level = 1
		}
		return OT("Top", append([]string{first}, renderCtx(ctx, st, level)...)...)
	})
}

func newEngEnv(t *Term) *engEnv {
	raw := t.Args[2].Bytes()
	offset := t.Args[3].Int()
	f := loadFile("f", raw, variantOf(raw, offset)) // NewFile, ReadFile from disk, placed once or twice
	// a reader may be created before its file is placed in a file set (FileSet.AddFile assigns the base
	// offset afterwards, as in the library's own JSON benchmark): every second case does so
	var early *text.Reader
	if (len(raw)+offset)%2 == 0 {
		early = text.NewReader(f)
	}
	var fs *parsley.FileSet
	if offset <= 1 {
		fs = parsley.NewFileSet(f)
	} else {
		filler := make([]byte, offset-2)
		for i := range filler {
			filler[i] = 'a'
		}
		fs = parsley.NewFileSet(text.NewFile("x", filler), f)
	}
	if offset > 1 {
		// a look-up in the preceding file first: translation must not depend on the history of look-ups
		_ = fs.Position(parsley.Pos(1)).String()
	}
	engData = bytes.Replace(raw, []byte("\r\n"), []byte("\n"), -1) // what NewFile keeps
	engOffset = int(f.Pos(0))
	return &engEnv{file: f, fs: fs, rules: t.Args[0].List(), root: t.Args[1], early: early, rawBytes: raw, offset: offset, warmLeft: 2}
}

// Eng rules root data offset flags
func engCmd(t *Term) string {
	e := newEngEnv(t)
	parts := []string{e.raw(true), e.top(true), e.top(false)}
	if t.Args[4].Int()&1 == 1 {
		parts = append(parts, e.raw(false))
	}
	if t.Args[4].Int()&4 == 4 {
		parts = append(parts, OT("Ev", e.eval(true), e.eval(false)))
	}
	return OT("Eng", parts...)
}

// ---- C04, flags bit 2: parsley.Evaluate ----

// the user interpreter IUser id: evaluates all children in order with parsley.EvaluateNode, returns the first
// error, else the slice of their values; records that it ran (engStats.evals)
func userInterp(id int, st **engStats) ast.InterpreterFunc {
	return ast.InterpreterFunc(func(userCtx interface{}, node parsley.NonTerminalNode) (interface{}, parsley.Error) {
		(*st).evals = append((*st).evals, id)
		vals := make([]interface{}, 0, len(node.Children()))
		for _, c := range node.Children() {
			v, err := parsley.EvaluateNode(userCtx, c)
			if err != nil {
				return nil, err
			}
			vals = append(vals, v)
		}
		return vals, nil
	})
}

// an evaluated value: literals as node values are rendered (float64 / time.Duration have no lexeme here),
// nil = n, []interface{} = L, map[string]interface{} = M sorted by key
func renderEvValue(v interface{}) string {
	switch x := v.(type) {
	case []interface{}:
		out := make([]string, len(x))
		for i, y := range x {
			out[i] = renderEvValue(y)
		}
		return OT("L", out...)
	case map[string]interface{}:
		keys := make([]string, 0, len(x))
		for k := range x {
			keys = append(keys, k)
		}
		sort.Strings(keys)
		out := make([]string, len(keys))
		for i, k := range keys {
			out[i] = OL(OStr(k), renderEvValue(x[k]))
		}
		return OT("M", out...)
	case float64:
		return OT("fl")
	case time.Duration:
		return OT("du")
	}
	return renderValue(v, 0, 0)
}

// parsley.Evaluate with the Sentence root / the bare root: Val value | PErr | EErr text; a panic = OPanic
func (e *engEnv) eval(sentence bool) string {
	return guard(func() string {
		ctx, _, root, _ := e.fresh(true)
		if sentence {
			root = combinator.Sentence(root)
		}
		v, err := parsley.Evaluate(ctx, root)
		if err != nil {
			if strings.HasPrefix(err.Error(), "failed to parse the input: ") {
				return OT("PErr")
			}
			return OT("EErr", OStr(err.Error()))
		}
		return OT("Val", renderEvValue(v))
	})
}

// C17 k n small big: Context.CallCount of parsley.Parse(Sentence(root)) for both cases; the small one twice
func c17Cmd(t *Term) string {
	calls := func(c *Term) string {
		return guard(func() string {
			e := newEngEnv(c)
			ctx, _, root, _ := e.fresh(true)
			n, err := parsley.Parse(ctx, combinator.Sentence(root))
			if n == nil || err != nil {
				return ONone
			}
			return OSome(ON(ctx.CallCount()))
		})
	}
	return OT("C17", calls(t.Args[2]), calls(t.Args[3]), calls(t.Args[2]))
}
