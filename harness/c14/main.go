// race_workload: the concurrent workload of property C14, built with `go build -race`
// (CGO_ENABLED=1) against the working tree of the repository by lib/c14.py.
//
// One set of parser graphs is built ONCE and then used by N goroutines at the same time, each with
// its own FileSet, File, Reader and Context, on success and failure inputs: first from a cold start
// (nothing has been parsed with the graphs yet), then, after every run has been executed alone, for the
// time budget; other goroutines construct parsers concurrently (and parse with what they built).  Every
// result (value or node rendering, error text, call count) is compared with the result of the same run
// executed alone.  The race detector reports to stderr and makes the exit status 66.
//
// Before that, the construction validation phase (see constructionPhase) checks that parsers constructed by
// many goroutines at the same moment behave like the same parsers constructed sequentially.
//
// stdout: one JSON object {"runs":..,"mismatches":..,"first_mismatch":..,"jobs":..,"samples":[..]}.
package main

import (
	"encoding/json"
	"flag"
	"fmt"
	"math/rand"
	"os"
	"runtime"
	"strings"
	"sync"
	"sync/atomic"
	"time"

	"github.com/opsidian/parsley/ast"
	"github.com/opsidian/parsley/combinator"
	"github.com/opsidian/parsley/data"
	pjson "github.com/opsidian/parsley/examples/json/json"
	"github.com/opsidian/parsley/parser"
	"github.com/opsidian/parsley/parsley"
	"github.com/opsidian/parsley/text"
	"github.com/opsidian/parsley/text/terminal"
)

type grammar struct {
	name   string
	p      parsley.Parser
	eval   bool // Evaluate (true) or Parse + node rendering (false)
	inputs []string
}

type job struct {
	g      int
	input  string
	static bool // enable static checking
}

func arithInterpreter(sign int64) ast.InterpreterFunc {
	return func(userCtx interface{}, node parsley.NonTerminalNode) (interface{}, parsley.Error) {
		ch := node.Children()
		a, err := parsley.EvaluateNode(userCtx, ch[0])
		if err != nil {
			return nil, err
		}
		b, err := parsley.EvaluateNode(userCtx, ch[2])
		if err != nil {
			return nil, err
		}
		return a.(int64) + sign*b.(int64), nil
	}
}

// expr -> expr '+' term | expr '-' term | term   (directly left-recursive, memoized)
func leftRecursive() parsley.Parser {
	var expr parser.Func
	term := combinator.Memoize(terminal.Integer("int"))
	add := combinator.SeqOf(&expr, text.LeftTrim(terminal.Rune('+'), text.WsSpaces), text.LeftTrim(term, text.WsSpaces)).Bind(arithInterpreter(1))
	sub := combinator.SeqOf(&expr, text.LeftTrim(terminal.Rune('-'), text.WsSpaces), text.LeftTrim(term, text.WsSpaces)).Bind(arithInterpreter(-1))
	expr = combinator.Memoize(combinator.Any(add, sub, term))
	return combinator.Sentence(text.Trim(&expr))
}

// S -> S S a | S a | a?  style ambiguous, indirectly left-recursive grammar through Optional
func ambiguous() parsley.Parser {
	var s parser.Func
	a := terminal.Rune('a')
	b := terminal.Rune('b')
	opt := combinator.Optional(b)
	s = combinator.Memoize(combinator.Any(
		combinator.SeqOf(opt, &s, a),
		combinator.SeqOf(&s, &s),
		a,
	))
	return combinator.Sentence(&s)
}

func tokens() parsley.Parser {
	kw := combinator.Choice(
		terminal.Word("kw", "foo", 1),
		terminal.Word("kw", "bar", 2),
		terminal.Op("=="),
		terminal.Op("="),
		terminal.Integer("int"),
		terminal.Bool("bool", "yes", "no"),
	).Name("token")
	item := combinator.SeqTry(text.LeftTrim(kw, text.WsSpacesNl), text.LeftTrim(combinator.Optional(terminal.Rune(';')), text.WsSpaces))
	list := combinator.SepBy1(
		combinator.Single(combinator.Many1(item).Name("items")),
		text.LeftTrim(terminal.Rune(','), text.WsSpacesNl),
	)
	tail := combinator.SuppressError(combinator.SeqFirstOrAll(text.LeftTrim(terminal.Rune('!'), text.WsSpaces), text.LeftTrim(terminal.Rune('?'), text.WsNone)))
	return combinator.Sentence(text.Trim(combinator.SeqOf(list, combinator.Optional(tail)).Token("DOC")))
}

func literal(name string) parsley.Parser {
	var p parsley.Parser
	switch name {
	case "string":
		p = terminal.String("string", true)
	case "float":
		p = terminal.Float("float")
	case "integer":
		p = terminal.Integer("integer")
	case "bool":
		p = terminal.Bool("bool", "true", "false")
	case "nil":
		p = terminal.Nil("nil", "null")
	case "char":
		p = terminal.Char("char")
	case "duration":
		p = terminal.TimeDuration("duration")
	case "word":
		p = terminal.Word("word", "hello", 42)
	case "op":
		p = terminal.Op("<=")
	case "regexp":
		p = terminal.Regexp("re", "RE", "an identifier", "[a-z]+([0-9]*)", 1)
	case "rune":
		p = terminal.Rune('é')
	case "empty":
		p = parser.Empty()
	}
	return combinator.Sentence(text.Trim(p))
}

var literalInputs = map[string][]string{
	"string":   {`"abc"`, "`raw\nline`", `"esc\n\t\"x\" é"`, `"unterminated`, `'x'`, `"a\qb"`, ``, `"é` + "\n" + `x"`},
	"float":    {"1.5", "-0.25e3", "1", ".5", "1.", "abc", "1.5x"},
	"integer":  {"0", "-12", "+7", "0x1f", "017", "9223372036854775808", "12a", "a"},
	"bool":     {"true", "false", "truex", "tru", ""},
	"nil":      {"null", "nullx", "nul", "  null  "},
	"char":     {"'a'", `'\n'`, "'é'", "''", "'ab'", "'a", "x"},
	"duration": {"1h30m", "5s", "1.5ms", "-2h", "5", "5 s", "s"},
	"word":     {"hello", "hello ", "hellox", "hell", "Hello"},
	"op":       {"<=", "<", "<==", "=<"},
	"regexp":   {"abc123", "abc", "123", "ABC", "x1 y"},
	"rune":     {"é", "e", "éé", ""},
	"empty":    {"", " ", "x"},
}

var literalNames = []string{"string", "float", "integer", "bool", "nil", "char", "duration", "word", "op", "regexp", "rune", "empty"}

var jsonInputs = []string{
	`{"a": [1, 2.5, "x", null, true, false], "b": {"c": {}, "d": []}}`,
	`[]`, `{}`, `"s"`, `12`, `null`, ` [ 1 , 2 ] `,
	`[1, [2, [3, [4, [5, [6, [7]]]]]]]`,
	`{"k1": 1, "k2": "v", "k3": [ {"x": 1.5e2}, {"y": [true]} ]}`,
	"{\n  \"multi\": [\n    1,\n    2\n  ]\n}",
	// failures
	`{"a": }`, `[1, 2`, `[1 2]`, `{"a" 1}`, `tru`, `{"a": 1,}`, `[1,, 2]`, `"abc`, `{"a": [1, {"b": nul}]}`, `[1, 2] x`, ``, `{1: 2}`,
	"[1,\n 2,\n x]",
}

var leftRecInputs = []string{"1", "1+2", "1 + 2 - 3", "10 - 4 + 5 - 1 + 100", "1+2+3+4+5+6+7+8+9+10+11+12",
	"1 +", "+ 1", "1 + + 2", "1 2", "", "a", "1 - x", "1+2+3+4+5+6+7+", "9223372036854775808 + 1"}

var ambiguousInputs = []string{"a", "aa", "aaa", "aaaa", "aaaaaa", "ba", "baa", "aba", "abaa", "b", "", "ab", "aab", "bb", "aaaaab", "c"}

var tokenInputs = []string{"foo", "foo bar", "foo; bar;", "foo == 12 , bar = yes", "foo\n bar ,\n no", "foo !?", "foo !", "foo , bar ; 7 !?",
	"", ",", "foo ,", "foo baz", "foo ! ?", "fooo", "foo ;; bar", "== == =", "foo\n\n, bar\n"}

func buildGrammars() []grammar {
	gs := []grammar{
		{name: "json", p: combinator.Sentence(text.Trim(pjson.NewParser())), eval: true, inputs: jsonInputs},
		{name: "leftrec", p: leftRecursive(), eval: true, inputs: leftRecInputs},
		{name: "ambiguous", p: ambiguous(), eval: false, inputs: ambiguousInputs},
		{name: "tokens", p: tokens(), eval: false, inputs: tokenInputs},
	}
	for _, n := range literalNames {
		gs = append(gs, grammar{name: "literal-" + n, p: literal(n), eval: true, inputs: literalInputs[n]})
	}
	return gs
}

func runOne(g *grammar, input string, static bool) (out string) {
	defer func() {
		if r := recover(); r != nil {
			out = fmt.Sprintf("panic: %v", r)
		}
	}()
	f := text.NewFile("in", []byte(input))
	fs := parsley.NewFileSet(f)
	ctx := parsley.NewContext(fs, text.NewReader(f))
	if static {
		ctx.EnableStaticCheck()
	}
	if g.eval {
		v, err := parsley.Evaluate(ctx, g.p)
		if err != nil {
			return fmt.Sprintf("error: %v | calls=%d", err, ctx.CallCount())
		}
		return fmt.Sprintf("value: %#v | calls=%d", v, ctx.CallCount())
	}
	n, err := parsley.Parse(ctx, g.p)
	if err != nil {
		return fmt.Sprintf("error: %v | calls=%d", err, ctx.CallCount())
	}
	return fmt.Sprintf("node: %v @%d..%d | calls=%d", n, n.Pos(), n.ReaderPos(), ctx.CallCount())
}

func selected(only, name string) bool {
	if only == "" {
		return true
	}
	for _, p := range strings.Split(only, ",") {
		if p != "" && strings.HasPrefix(name, p) {
			return true
		}
	}
	return false
}

// ---------------------------------------------------------------------------------------------------
// Validation of concurrently CONSTRUCTED parsers.  The rules of one grammar are built by several
// goroutines at the same moment (spin barrier before every construction), each rule a memoized terminal
// that recognises its own character (or its own word); the rules are then combined into one Choice / Any
// and every rule's own input is parsed in one context.  Every rule must recognise exactly its own input,
// exactly as the same grammar constructed sequentially does.  Two memoized parsers that were given the
// same parser index share result-cache keys: the later alternative answers from the earlier one's cache
// entry and rejects its own input.  (The race detector cannot see this: every access is atomic.)

type barrier struct {
	parties, arrived, generation int32
}

func (b *barrier) wait() {
	g := atomic.LoadInt32(&b.generation)
	if atomic.AddInt32(&b.arrived, 1) == b.parties {
		atomic.StoreInt32(&b.arrived, 0)
		atomic.AddInt32(&b.generation, 1)
		return
	}
	for spins := 1; atomic.LoadInt32(&b.generation) == g; spins++ {
		if spins%100 == 0 {
			runtime.Gosched()
		}
	}
}

const firstRune = 0x4E00

func ruleInput(n int, words bool) string {
	if words {
		return fmt.Sprintf("w%dx", n)
	}
	return string(rune(firstRune + n))
}

func buildRule(n int, words bool) parsley.Parser {
	if words {
		return combinator.Memoize(terminal.Word("word", ruleInput(n, true), n))
	}
	return combinator.Memoize(terminal.Rune(rune(firstRune + n)))
}

func ruleExpected(n int, words bool) string {
	if words {
		return fmt.Sprintf("value: %#v", n)
	}
	return fmt.Sprintf("value: %#v", rune(firstRune+n))
}

func evalRule(g parsley.Parser, input string) string {
	f := text.NewFile("in", []byte(input))
	ctx := parsley.NewContext(parsley.NewFileSet(f), text.NewReader(f))
	v, err := parsley.Evaluate(ctx, g)
	if err != nil {
		return fmt.Sprintf("error: %v", err)
	}
	return fmt.Sprintf("value: %#v", v)
}

// collidesWith: the earlier rules m < n whose cache entry rule n answers from: in ONE context rule m is tried on
// rule n's input (fails, result cached under m's parser index), then rule n on the same input
func collidesWith(rules []parsley.Parser, n int, words bool) []int {
	var res []int
	in := ruleInput(n, words)
	for m := 0; m < len(rules); m++ {
		if m == n {
			continue
		}
		f := text.NewFile("in", []byte(in))
		ctx := parsley.NewContext(parsley.NewFileSet(f), text.NewReader(f))
		pos := ctx.Reader().Pos(0)
		rules[m].Parse(ctx, data.EmptyIntMap, pos)
		node, _, _ := rules[n].Parse(ctx, data.EmptyIntMap, pos)
		if node == nil {
			res = append(res, m)
		}
	}
	return res
}

type constructionResult struct {
	Rounds   int      `json:"rounds"`
	Rules    int      `json:"rules_checked"`
	Failures int      `json:"failures"`
	Report   []string `json:"report,omitempty"`
}

func constructionPhase(builders, perBuilder int, seconds float64, minRounds int) constructionResult {
	var res constructionResult
	deadline := time.Now().Add(time.Duration(seconds * float64(time.Second)))
	for round := 0; round < minRounds || time.Now().Before(deadline); round++ {
		words := round%2 == 1
		useAny := round%4 >= 2
		total := builders * perBuilder
		rules := make([]parsley.Parser, total)
		b := &barrier{parties: int32(builders)}
		var wg sync.WaitGroup
		for w := 0; w < builders; w++ {
			wg.Add(1)
			go func(w int) {
				defer wg.Done()
				for k := 0; k < perBuilder; k++ {
					n := w*perBuilder + k
					b.wait()
					rules[n] = buildRule(n, words)
				}
			}(w)
		}
		wg.Wait()
		// the same grammar constructed sequentially, by this goroutine alone
		seq := make([]parsley.Parser, total)
		for n := range seq {
			seq[n] = buildRule(n, words)
		}
		combine := func(rs []parsley.Parser) parsley.Parser {
			if useAny {
				return combinator.Sentence(combinator.Any(rs...))
			}
			return combinator.Sentence(combinator.Choice(rs...))
		}
		conc, ref := combine(rules), combine(seq)
		res.Rounds++
		for n := 0; n < total; n++ {
			in := ruleInput(n, words)
			want := evalRule(ref, in)
			got := evalRule(conc, in)
			res.Rules++
			if want != ruleExpected(n, words) {
				res.Failures++
				if len(res.Report) < 6 {
					res.Report = append(res.Report, fmt.Sprintf("round %d: SEQUENTIALLY constructed grammar: rule %d on %q gives %s, expected %s", round, n, in, want, ruleExpected(n, words)))
				}
			}
			if got != want {
				res.Failures++
				if len(res.Report) < 6 {
					res.Report = append(res.Report, fmt.Sprintf("round %d (%d builders x %d memoized %s rules, combined by %s): rule %d on its own input %q gives %s; the same grammar constructed sequentially gives %s; rule %d answers from the result-cache entries of rule(s) %v (same parser index)",
						round, builders, perBuilder, map[bool]string{false: "Rune", true: "Word"}[words], map[bool]string{false: "Choice", true: "Any"}[useAny], n, in, got, want, n, collidesWith(rules, n, words)))
				}
			}
		}
		if res.Failures > 0 {
			break
		}
	}
	return res
}

// ---------------------------------------------------------------------------------------------------
// Deep nesting, held: K goroutines parse an input nested d deep with the SHARED graph and are all paused at the
// innermost token (the leaf of the grammar is user code that waits on a gate found in the run's own user context);
// while all of them are in the middle of their parse, one more run (shallow input, own context) is executed
// completely and must give exactly what it gives alone; then the paused runs are released and must give their solo
// results too.  A resource that is accounted per parser graph instead of per parse (a recursion-depth counter on the
// shared Sequence, a shared budget, ...) makes the extra run fail or change only because the others are deep at the
// same time.  All accesses may be atomic, so the race detector has nothing to say; the schedule here is forced.
type gate struct {
	once    sync.Once
	reached *sync.WaitGroup
	release chan struct{}
}

func nestedGrammar() parsley.Parser {
	var nested parser.Func
	x := terminal.Rune('x')
	leaf := parser.Func(func(ctx *parsley.Context, leftRecCtx data.IntMap, pos parsley.Pos) (parsley.Node, data.IntSet, parsley.Error) {
		node, cp, err := x.Parse(ctx, leftRecCtx, pos)
		if g, ok := ctx.UserContext().(*gate); ok && g != nil && node != nil {
			g.once.Do(func() {
				g.reached.Done()
				<-g.release
			})
		}
		return node, cp, err
	})
	nested = combinator.Choice(combinator.SeqOf(terminal.Rune('('), &nested, terminal.Rune(')')), leaf)
	return combinator.Sentence(&nested)
}

func runNested(p parsley.Parser, depth int, g *gate) (out string) {
	defer func() {
		if r := recover(); r != nil {
			out = fmt.Sprintf("panic: %v", r)
		}
	}()
	input := strings.Repeat("(", depth) + "x" + strings.Repeat(")", depth)
	f := text.NewFile("in", []byte(input))
	ctx := parsley.NewContext(parsley.NewFileSet(f), text.NewReader(f))
	if g != nil {
		ctx.SetUserContext(g)
	}
	n, err := parsley.Parse(ctx, p)
	if err != nil {
		return fmt.Sprintf("error: %v | calls=%d", err, ctx.CallCount())
	}
	return fmt.Sprintf("node @%d..%d | calls=%d", n.Pos(), n.ReaderPos(), ctx.CallCount())
}

func deepPhase(held, depth int) (runs int, report []string) {
	p := nestedGrammar()
	const shallow = 20
	soloDeep := runNested(p, depth, nil)
	soloShallow := runNested(p, shallow, nil)
	var reached, done sync.WaitGroup
	release := make(chan struct{})
	res := make([]string, held)
	for w := 0; w < held; w++ {
		reached.Add(1)
		done.Add(1)
		go func(w int) {
			defer done.Done()
			g := &gate{reached: &reached, release: release}
			res[w] = runNested(p, depth, g)
			g.once.Do(func() { reached.Done() }) // a run that never got to its leaf must not block the phase
		}(w)
	}
	reached.Wait()
	got := runNested(p, shallow, nil) // executed completely while the others are held in the middle of their parse
	close(release)
	done.Wait()
	runs = held + 1
	if got != soloShallow {
		report = append(report, fmt.Sprintf("%d goroutines are in the middle of parsing an input nested %d deep with the shared graph (paused at the innermost token); a further run on an input nested %d deep (own file, reader, context) gives %s; executed alone the same run gives %s", held, depth, shallow, got, soloShallow))
	}
	for w, r := range res {
		if r != soloDeep && len(report) < 3 {
			report = append(report, fmt.Sprintf("%d goroutines parse an input nested %d deep with the shared graph at the same time; goroutine %d gets %s; executed alone the same run gives %s", held, depth, w, r, soloDeep))
		}
	}
	return runs, report
}

// ---------------------------------------------------------------------------------------------------
// Shared file set: the files of a "project" are registered in ONE parsley.FileSet; N goroutines parse one file each
// (own text.File, own Reader, own Context — the context refers to the shared file set) at the same moment, every second
// file does not parse, so Parse goes through FileSet.ErrorWithPosition -> FileSet.Position -> File.Position.  Every
// result (error text with file:line:col) must equal the result of the same run executed alone with a file set of its
// own kind; anything FileSet.Position remembers between lookups is shared mutable state between the runs.
func projectFiles(n int) ([]*text.File, *parsley.FileSet) {
	files := make([]*text.File, n)
	pf := make([]parsley.File, n)
	for i := range files {
		prefix := strings.Repeat("\n", i%5) + strings.Repeat(" ", i%7)
		body := fmt.Sprintf(`{"file": %d, "k": [1, 2, 3]}`, i)
		if i%2 == 1 {
			body = fmt.Sprintf(`{"file": %d, "k": [1, 2 x]}`, i)
		}
		files[i] = text.NewFile(fmt.Sprintf("file%d.json", i), []byte(prefix+body))
		pf[i] = files[i]
	}
	return files, parsley.NewFileSet(pf...)
}

func runInFileSet(g *grammar, fs *parsley.FileSet, f *text.File) (out string) {
	defer func() {
		if r := recover(); r != nil {
			out = fmt.Sprintf("panic: %v", r)
		}
	}()
	ctx := parsley.NewContext(fs, text.NewReader(f))
	v, err := parsley.Evaluate(ctx, g.p)
	if err != nil {
		return fmt.Sprintf("error: %v | calls=%d", err, ctx.CallCount())
	}
	return fmt.Sprintf("value: %#v | calls=%d", v, ctx.CallCount())
}

func fileSetPhase(g *grammar, n, rounds int) (runs int, report []string) {
	soloFiles, soloSet := projectFiles(n)
	want := make([]string, n)
	for i := n - 1; i >= 0; i-- { // alone, one after the other
		want[i] = runInFileSet(g, soloSet, soloFiles[i])
	}
	files, set := projectFiles(n)
	b := &barrier{parties: int32(n)}
	got := make([][]string, n)
	var wg sync.WaitGroup
	for w := 0; w < n; w++ {
		wg.Add(1)
		go func(w int) {
			defer wg.Done()
			for r := 0; r < rounds; r++ {
				if r%25 == 0 {
					b.wait()
				}
				if res := runInFileSet(g, set, files[w]); res != want[w] && len(got[w]) < 2 {
					got[w] = append(got[w], fmt.Sprintf("round %d: %s", r, res))
				}
			}
		}(w)
	}
	wg.Wait()
	runs = n * rounds
	for w := range got {
		for _, m := range got[w] {
			if len(report) < 4 {
				report = append(report, fmt.Sprintf("%d goroutines share one FileSet holding %d files, each parses its own file (own File, Reader, Context), every second file fails: %s gives in %s; executed alone the same run gives %s", n, n, files[w].Position(0).String(), m, want[w]))
			}
		}
	}
	return runs, report
}

type mismatch struct {
	Grammar, Input, Solo, Concurrent, Role string
}

func main() {
	goroutines := flag.Int("goroutines", 8, "parse goroutines sharing the graphs")
	constructors := flag.Int("constructors", 2, "goroutines constructing parsers concurrently")
	seconds := flag.Float64("seconds", 5, "time budget of the concurrent phase")
	maxRounds := flag.Int("rounds", 1<<30, "maximal number of rounds per goroutine")
	seed := flag.Int64("seed", 1, "seed")
	dump := flag.Bool("dump", false, "print the solo results and exit")
	only := flag.String("grammars", "", "comma separated grammar name prefixes to use (default all)")
	cseconds := flag.Float64("construct-seconds", 3, "time budget of the construction validation phase (0 = skip)")
	deepDepth := flag.Int("deep", 300, "nesting depth of the held deep-nesting phase (0 = skip)")
	deepG := flag.Int("deep-goroutines", 64, "goroutines held in the middle of their parse in the deep-nesting phase")
	fsRounds := flag.Int("fileset-rounds", 150, "rounds of the shared-file-set phase (0 = skip)")
	cbuilders := flag.Int("builders", 16, "goroutines constructing rules at the same moment in the construction validation phase")
	flag.Parse()

	if runtime.GOMAXPROCS(0) < 4 {
		runtime.GOMAXPROCS(4) // overlapping constructions need real parallelism
	}
	var cres constructionResult
	if *cseconds > 0 && !*dump {
		cres = constructionPhase(*cbuilders, 8, *cseconds, 4)
		if cres.Failures > 0 {
			out, _ := json.Marshal(map[string]interface{}{"construction": cres, "runs": cres.Rules, "mismatches": 0})
			fmt.Println(string(out))
			os.Exit(5)
		}
	}

	shared := buildGrammars()
	var jobs []job
	for gi, g := range shared {
		if !selected(*only, g.name) {
			continue
		}
		for k, in := range g.inputs {
			jobs = append(jobs, job{gi, in, k%3 == 0})
		}
	}
	// phase 0, cold start: the goroutines use the freshly built graphs before anything has been parsed
	// with them (lazily initialised state would be initialised concurrently here); results are kept and
	// compared with the solo results below
	cold := make([][]string, *goroutines)
	if !*dump {
		var cwg sync.WaitGroup
		cstart := make(chan struct{})
		for w := 0; w < *goroutines; w++ {
			cold[w] = make([]string, len(jobs))
			cwg.Add(1)
			go func(w int) {
				defer cwg.Done()
				rng := rand.New(rand.NewSource(*seed*31 + int64(w)))
				<-cstart
				for _, i := range rng.Perm(len(jobs)) {
					cold[w][i] = runOne(&shared[jobs[i].g], jobs[i].input, jobs[i].static)
				}
			}(w)
		}
		close(cstart)
		cwg.Wait()
	}
	// solo results: each run executed alone, no other goroutine running
	solo := make([]string, len(jobs))
	var runs, mism int64
	var first atomic.Value
	report := func(role string, j job, name string, got, want string) {
		if atomic.AddInt64(&mism, 1) == 1 {
			first.Store(mismatch{name, j.input, want, got, role})
		}
	}
	for i, j := range jobs {
		solo[i] = runOne(&shared[j.g], j.input, j.static)
		if again := runOne(&shared[j.g], j.input, j.static); again != solo[i] {
			report("solo run repeated (not deterministic even alone)", j, shared[j.g].name, again, solo[i])
		}
	}
	for w := range cold {
		for i, j := range jobs {
			if cold[w] != nil && cold[w][i] != "" {
				runs++
				if cold[w][i] != solo[i] {
					report("cold-start parse", j, shared[j.g].name, cold[w][i], solo[i])
				}
			}
		}
	}
	if *dump {
		for i, j := range jobs {
			fmt.Printf("%s %q static=%v => %s\n", shared[j.g].name, j.input, j.static, solo[i])
		}
		return
	}
	distinct := map[string]bool{}
	nontrivial := 0
	for i, j := range jobs {
		key := shared[j.g].name + "\x00" + j.input
		if !distinct[key] {
			distinct[key] = true
			if len(j.input) > 0 {
				nontrivial++
			}
		}
		_ = i
	}

	if *deepDepth > 0 {
		n, rep := deepPhase(*deepG, *deepDepth)
		runs += int64(n)
		for _, m := range rep {
			if atomic.AddInt64(&mism, 1) == 1 {
				first.Store(mismatch{"nested (held deep-nesting phase)", fmt.Sprintf("'(' x d  x  ')' x d, d = %d and 20", *deepDepth), "", m, "deep-nesting parse"})
			}
		}
		if len(rep) > 0 {
			out, _ := json.Marshal(map[string]interface{}{"runs": runs, "mismatches": mism, "first_mismatch": first.Load(), "deep_nesting_report": rep, "construction": cres})
			fmt.Println(string(out))
			os.Exit(4)
		}
	}
	if *fsRounds > 0 {
		n, rep := fileSetPhase(&grammar{name: "json", p: combinator.Sentence(text.Trim(pjson.NewParser())), eval: true}, 16, *fsRounds)
		runs += int64(n)
		for _, m := range rep {
			if atomic.AddInt64(&mism, 1) == 1 {
				first.Store(mismatch{"json (shared FileSet phase)", "16 files in one parsley.FileSet, odd files do not parse", "", m, "parse with a shared FileSet"})
			}
		}
		if len(rep) > 0 {
			out, _ := json.Marshal(map[string]interface{}{"runs": runs, "mismatches": mism, "first_mismatch": first.Load(), "shared_fileset_report": rep, "construction": cres})
			fmt.Println(string(out))
			os.Exit(4)
		}
	}
	var wg sync.WaitGroup
	start := make(chan struct{})
	deadline := time.Now().Add(time.Duration(*seconds * float64(time.Second)))
	for w := 0; w < *goroutines; w++ {
		wg.Add(1)
		go func(w int) {
			defer wg.Done()
			rng := rand.New(rand.NewSource(*seed*1000 + int64(w)))
			<-start
			for r := 0; r < *maxRounds && time.Now().Before(deadline); r++ {
				for _, i := range rng.Perm(len(jobs)) {
					j := jobs[i]
					got := runOne(&shared[j.g], j.input, j.static)
					atomic.AddInt64(&runs, 1)
					if got != solo[i] {
						report("parse", j, shared[j.g].name, got, solo[i])
					}
				}
			}
		}(w)
	}
	for w := 0; w < *constructors; w++ {
		wg.Add(1)
		go func(w int) {
			defer wg.Done()
			rng := rand.New(rand.NewSource(*seed*7777 + int64(w)))
			<-start
			for r := 0; r < *maxRounds && time.Now().Before(deadline); r++ {
				own := buildGrammars() // concurrent construction (Memoize draws parser indices atomically)
				for n := 0; n < 40; n++ {
					i := rng.Intn(len(jobs))
					j := jobs[i]
					got := runOne(&own[j.g], j.input, j.static)
					atomic.AddInt64(&runs, 1)
					if got != solo[i] {
						report("construct+parse", j, own[j.g].name, got, solo[i])
					}
				}
			}
		}(w)
	}
	close(start)
	wg.Wait()

	res := map[string]interface{}{
		"runs": runs + int64(cres.Rules), "mismatches": mism, "jobs": len(jobs), "grammars": len(shared),
		"distinct_nontrivial": nontrivial, "goroutines": *goroutines, "constructors": *constructors,
		"construction": cres,
	}
	if m, ok := first.Load().(mismatch); ok {
		res["first_mismatch"] = m
	}
	var samples []string
	if len(jobs) == 0 {
		fmt.Fprintln(os.Stderr, "no jobs selected")
		os.Exit(2)
	}
	for _, i := range []int{0, len(jobs) / 4, len(jobs) / 2, len(jobs) - 1} {
		samples = append(samples, fmt.Sprintf("%s %q => %s", shared[jobs[i].g].name, jobs[i].input, solo[i]))
	}
	res["samples"] = samples
	out, _ := json.Marshal(res)
	fmt.Println(string(out))
	if mism > 0 {
		os.Exit(4)
	}
}
