package main

// C13 — tree passes: parsley.Walk, parsley.StaticCheck, parsley.Transform, parsley.EvaluateNode
// on REAL ast nodes built from a tree description, with recording interpreters.
//
// case (coq/Tree.v, type c13_case):
//   CWalk t [ids]                 callback returns true at these node ids
//   CCheck t [(id, cbeh); ...]    CBRet (Some 3) | CBRet None | CBFail e | CBSum (default)
//   CTransform t [(id, tbeh)...]  TBRepl tree | TBSame (default) | TBFail e
//   CEval t [(id, ebeh); ...]     EBChildren (default) | EBRet v | EBFail e
// tree:  TLeaf id schema value | TEmpty id | TNonTerm id pos interp [children] | TList id [alternatives]
// interp: INone | IRec k chk trf | ISelect i | INil | IArray | IObject
// value: VNil | VInt n | VStr [bytes] | VList [values] | VMap [(key, value); ...]
// err:   EUser pos code | ENoValue pos

import (
	"errors"
	"fmt"
	"sort"
	"strconv"
	"strings"

	"github.com/opsidian/parsley/ast"
	"github.com/opsidian/parsley/ast/interpreter"
	"github.com/opsidian/parsley/parsley"
)

func init() { subcommands["c13"] = c13 }

type c13env struct {
	listIDs  map[int]int // id of the first element -> id of the alternative list
	beh      map[int]*Term
	pairLog  []string // (interpreter, node) pairs of Eval / TransformNode calls
	checkLog []string
	bad      bool
}

// ---- identification of real nodes (public API only: token, position, dynamic type) ----

func (e *c13env) nodeID(n parsley.Node) int {
	switch v := n.(type) {
	case *ast.TerminalNode:
		return tokenID(v.Token())
	case *ast.NonTerminalNode:
		return tokenID(v.Token())
	case ast.EmptyNode:
		return int(v.Pos())
	case ast.NodeList:
		if len(v) == 0 {
			return -1
		}
		if id, ok := e.listIDs[e.nodeID(v[0])]; ok {
			return id
		}
		return -2
	}
	return -3
}

func tokenID(tok string) int {
	if !strings.HasPrefix(tok, "n") {
		return -4
	}
	id, err := strconv.Atoi(tok[1:])
	if err != nil {
		return -4
	}
	return id
}

// ---- building ----

func goValue(t *Term) interface{} {
	switch t.Head {
	case "VNil":
		return nil
	case "VInt":
		return t.Args[0].Int()
	case "VStr":
		return string(t.Args[0].Bytes())
	case "VList":
		res := []interface{}{}
		for _, x := range t.Args[0].List() {
			res = append(res, goValue(x))
		}
		return res
	case "VMap":
		res := map[string]interface{}{}
		for _, kv := range t.Args[0].List() {
			res[string(kv.Args[0].Bytes())] = goValue(kv.Args[1])
		}
		return res
	}
	panic("bad value " + t.Head)
}

func goSchema(t *Term) interface{} {
	if t.Head == "Some" {
		return t.Args[0].Int()
	}
	return nil
}

func goErr(t *Term) parsley.Error {
	switch t.Head {
	case "EUser":
		return parsley.NewError(parsley.Pos(t.Args[0].Int()), fmt.Errorf("E%d", t.Args[1].Int()))
	case "ENoValue":
		return parsley.NewError(parsley.Pos(t.Args[0].Int()), parsley.ErrNoValue)
	}
	panic("bad err " + t.Head)
}

func (e *c13env) interp(t *Term) parsley.Interpreter {
	switch t.Head {
	case "INone":
		return nil
	case "IRec":
		b := recBase{env: e, k: t.Args[0].Int()}
		chk, trf := t.Args[1].Bool(), t.Args[2].Bool()
		switch {
		case chk && trf:
			return recECT{b}
		case chk:
			return recEC{b}
		case trf:
			return recET{b}
		}
		return recE{b}
	case "ISelect":
		return interpreter.Select(t.Args[0].Int())
	case "INil":
		return interpreter.Nil()
	case "IArray":
		return interpreter.Array()
	case "IObject":
		return interpreter.Object()
	}
	panic("bad interp " + t.Head)
}

func (e *c13env) build(t *Term) parsley.Node {
	switch t.Head {
	case "TLeaf":
		id := t.Args[0].Int()
		return ast.NewTerminalNode(goSchema(t.Args[1]), "n"+strconv.Itoa(id), goValue(t.Args[2]), parsley.Pos(id), parsley.Pos(id+1))
	case "TEmpty":
		return ast.EmptyNode(t.Args[0].Int())
	case "TNonTerm":
		id, pos := t.Args[0].Int(), t.Args[1].Int()
		var cs []parsley.Node
		for _, c := range t.Args[3].List() {
			cs = append(cs, e.build(c))
		}
		ip := e.interp(t.Args[2])
		if len(cs) == 0 {
			return ast.NewEmptyNonTerminalNode("n"+strconv.Itoa(id), parsley.Pos(pos), ip)
		}
		n := ast.NewNonTerminalNode("n"+strconv.Itoa(id), cs, ip)
		if int(n.Pos()) != pos {
			e.bad = true
		}
		return n
	case "TList":
		nl := ast.NodeList{}
		for _, c := range t.Args[1].List() {
			nl = append(nl, e.build(c))
		}
		if len(nl) > 0 {
			e.listIDs[e.nodeID(nl[0])] = t.Args[0].Int()
		}
		return nl
	}
	panic("bad tree " + t.Head)
}

// ---- recording interpreters: four capability sets ----

type recBase struct {
	env *c13env
	k   int
}

func (r recBase) Eval(userCtx interface{}, node parsley.NonTerminalNode) (interface{}, parsley.Error) {
	id := r.env.nodeID(node)
	r.env.pairLog = append(r.env.pairLog, OL(ON(r.k), ON(id)))
	if b, ok := r.env.beh[id]; ok {
		switch b.Head {
		case "EBRet":
			return goValue(b.Args[0]), nil
		case "EBFail":
			return nil, goErr(b.Args[0])
		}
	}
	res := []interface{}{}
	for _, c := range node.Children() {
		v, err := parsley.EvaluateNode(userCtx, c)
		if err != nil {
			return nil, err
		}
		res = append(res, v)
	}
	return res, nil
}

func (r recBase) staticCheck(userCtx interface{}, node parsley.NonTerminalNode) (interface{}, parsley.Error) {
	id := r.env.nodeID(node)
	var view []string
	for _, c := range node.Children() {
		view = append(view, r.env.schemasPre(c)...)
	}
	r.env.checkLog = append(r.env.checkLog, OL(ON(r.k), ON(id), OL(view...)))
	if b, ok := r.env.beh[id]; ok {
		switch b.Head {
		case "CBRet":
			return goSchema(b.Args[0]), nil
		case "CBFail":
			// a schema returned together with an error must not be stored
			return 999, goErr(b.Args[0])
		}
	}
	sum := 1
	for _, c := range node.Children() {
		if x, ok := c.Schema().(int); ok {
			sum += x
		}
	}
	return sum, nil
}

func (r recBase) transformNode(userCtx interface{}, node parsley.Node) (parsley.Node, parsley.Error) {
	id := r.env.nodeID(node)
	r.env.pairLog = append(r.env.pairLog, OL(ON(r.k), ON(id)))
	if b, ok := r.env.beh[id]; ok {
		switch b.Head {
		case "TBRepl":
			return r.env.build(b.Args[0]), nil
		case "TBFail":
			return nil, goErr(b.Args[0])
		}
	}
	return node, nil
}

type recE struct{ recBase }
type recEC struct{ recBase }
type recET struct{ recBase }
type recECT struct{ recBase }

func (r recEC) StaticCheck(c interface{}, n parsley.NonTerminalNode) (interface{}, parsley.Error) {
	return r.staticCheck(c, n)
}
func (r recECT) StaticCheck(c interface{}, n parsley.NonTerminalNode) (interface{}, parsley.Error) {
	return r.staticCheck(c, n)
}
func (r recET) TransformNode(c interface{}, n parsley.Node) (parsley.Node, parsley.Error) {
	return r.transformNode(c, n)
}
func (r recECT) TransformNode(c interface{}, n parsley.Node) (parsley.Node, parsley.Error) {
	return r.transformNode(c, n)
}

// ---- printing ----

func c13Schema(x interface{}) string {
	switch v := x.(type) {
	case nil:
		return ONone
	case int:
		return OSome(ON(v))
	}
	return OT("Other")
}

func c13Err(e parsley.Error) string {
	if errors.Is(e.Cause(), parsley.ErrNoValue) {
		return OT("NoValue", ON(int(e.Pos())))
	}
	msg := e.Error()
	if strings.HasPrefix(msg, "E") {
		if c, err := strconv.Atoi(msg[1:]); err == nil {
			return OT("User", ON(int(e.Pos())), ON(c))
		}
	}
	return OT("Other", OStr(msg))
}

func c13Value(x interface{}) string {
	switch v := x.(type) {
	case nil:
		return OT("Nil")
	case int:
		return OT("Int", ON(v))
	case string:
		return OT("Str", OStr(v))
	case []interface{}:
		var items []string
		for _, y := range v {
			items = append(items, c13Value(y))
		}
		return OT("List", OL(items...))
	case map[string]interface{}:
		keys := make([]string, 0, len(v))
		for k := range v {
			keys = append(keys, k)
		}
		sort.Strings(keys)
		var items []string
		for _, k := range keys {
			items = append(items, OL(OStr(k), c13Value(v[k])))
		}
		return OT("Map", OL(items...))
	}
	return OT("Other")
}

// Schema() of a node and all its descendants, pre-order; alternative lists are entered but not listed
func (e *c13env) schemasPre(n parsley.Node) []string {
	switch v := n.(type) {
	case *ast.NonTerminalNode:
		res := []string{OL(ON(e.nodeID(v)), c13Schema(v.Schema()))}
		for _, c := range v.Children() {
			res = append(res, e.schemasPre(c)...)
		}
		return res
	case ast.NodeList:
		var res []string
		for _, c := range v {
			res = append(res, e.schemasPre(c)...)
		}
		return res
	case nil:
		return []string{OT("NilNode")}
	}
	return []string{OL(ON(e.nodeID(n)), c13Schema(n.Schema()))}
}

func (e *c13env) tree(n parsley.Node) string {
	switch v := n.(type) {
	case *ast.TerminalNode:
		return OT("T", ON(e.nodeID(v)), c13Schema(v.Schema()), c13Value(v.Value()))
	case ast.EmptyNode:
		return OT("E", ON(int(v.Pos())))
	case *ast.NonTerminalNode:
		var cs []string
		for _, c := range v.Children() {
			cs = append(cs, e.tree(c))
		}
		return OT("N", ON(e.nodeID(v)), ON(int(v.Pos())), OL(cs...))
	case ast.NodeList:
		var cs []string
		for _, c := range v {
			cs = append(cs, e.tree(c))
		}
		return OT("A", OL(cs...))
	case nil:
		return OT("NilNode")
	}
	return OT("Other")
}

// ---- the passes ----

func c13(t *Term) string {
	e := &c13env{listIDs: map[int]int{}, beh: map[int]*Term{}}
	root := e.build(t.Args[0])
	if t.Head != "CWalk" {
		for _, b := range t.Args[1].List() {
			e.beh[b.Args[0].Int()] = b.Args[1]
		}
	}
	if e.bad {
		return OT("BadCase")
	}
	switch t.Head {
	case "CWalk":
		stops := map[int]bool{}
		for _, id := range t.Args[1].Ints() {
			stops[id] = true
		}
		var log []string
		res := guard(func() string {
			return OB(parsley.Walk(root, func(n parsley.Node) bool {
				id := e.nodeID(n)
				log = append(log, ON(id))
				return stops[id]
			}))
		})
		return OT("Walk", OL(log...), res)
	case "CCheck":
		res := guard(func() string {
			if err := parsley.StaticCheck(nil, root); err != nil {
				return OSome(c13Err(err))
			}
			return ONone
		})
		return OT("Check", OL(e.checkLog...), res, OL(e.schemasPre(root)...))
	case "CTransform":
		node, err := parsley.Transform(nil, root)
		if err != nil {
			return OT("Transform", OL(e.pairLog...), OT("Err", c13Err(err)))
		}
		return OT("Transform", OL(e.pairLog...), OT("Node", e.tree(node)))
	case "CEval":
		res := guard(func() string {
			v, err := parsley.EvaluateNode(nil, root)
			if err != nil {
				return OT("Err", c13Err(err))
			}
			return OT("Val", c13Value(v))
		})
		return OT("Eval", OL(e.pairLog...), res)
	}
	panic("bad case " + t.Head)
}
