package main

// A reader for the subset of Coq term syntax used by case files (numbers,
// strings, lists, tuples, constructor applications) and a printer for
// observations (type obs of coq/Obs.v).

import (
	"fmt"
	"strconv"
	"strings"
)

const (
	KNum = iota
	KStr
	KList
	KTuple
	KApp
)

type Term struct {
	Kind int
	Num  int64
	Str  string
	Head string
	Args []*Term
}

type termParser struct {
	s string
	i int
}

func ParseTerm(s string) *Term {
	p := &termParser{s: s}
	t := p.term()
	p.ws()
	if p.i != len(p.s) {
		panic(fmt.Sprintf("trailing input at %d in %q", p.i, s))
	}
	return t
}

func (p *termParser) ws() {
	for p.i < len(p.s) && (p.s[p.i] == ' ' || p.s[p.i] == '\t') {
		p.i++
	}
}

func isIdent(c byte) bool {
	return c == '_' || c == '\'' || c >= 'a' && c <= 'z' || c >= 'A' && c <= 'Z' || c >= '0' && c <= '9'
}

// term := atom | ident atom*
func (p *termParser) term() *Term {
	p.ws()
	if p.i < len(p.s) && (p.s[p.i] >= 'a' && p.s[p.i] <= 'z' || p.s[p.i] >= 'A' && p.s[p.i] <= 'Z' || p.s[p.i] == '_') {
		j := p.i
		for j < len(p.s) && isIdent(p.s[j]) {
			j++
		}
		t := &Term{Kind: KApp, Head: p.s[p.i:j]}
		p.i = j
		for {
			p.ws()
			if p.i >= len(p.s) {
				break
			}
			c := p.s[p.i]
			if c == ';' || c == ']' || c == ')' || c == ',' {
				break
			}
			t.Args = append(t.Args, p.atom())
		}
		return t
	}
	return p.atom()
}

func (p *termParser) atom() *Term {
	p.ws()
	if p.i >= len(p.s) {
		panic("unexpected end of term")
	}
	c := p.s[p.i]
	switch {
	case c >= '0' && c <= '9' || c == '-':
		j := p.i + 1
		for j < len(p.s) && p.s[j] >= '0' && p.s[j] <= '9' {
			j++
		}
		n, err := strconv.ParseInt(p.s[p.i:j], 10, 64)
		if err != nil {
			panic(err)
		}
		p.i = j
		return &Term{Kind: KNum, Num: n}
	case c == '"':
		j := p.i + 1
		var sb strings.Builder
		for {
			if j >= len(p.s) {
				panic("unterminated string")
			}
			if p.s[j] == '"' {
				if j+1 < len(p.s) && p.s[j+1] == '"' {
					sb.WriteByte('"')
					j += 2
					continue
				}
				break
			}
			sb.WriteByte(p.s[j])
			j++
		}
		p.i = j + 1
		return &Term{Kind: KStr, Str: sb.String()}
	case c == '[':
		p.i++
		t := &Term{Kind: KList}
		p.ws()
		if p.i < len(p.s) && p.s[p.i] == ']' {
			p.i++
			return t
		}
		for {
			t.Args = append(t.Args, p.term())
			p.ws()
			if p.i >= len(p.s) {
				panic("unterminated list")
			}
			if p.s[p.i] == ';' {
				p.i++
				continue
			}
			if p.s[p.i] == ']' {
				p.i++
				return t
			}
			panic(fmt.Sprintf("bad list at %d", p.i))
		}
	case c == '(':
		p.i++
		first := p.term()
		p.ws()
		if p.i < len(p.s) && p.s[p.i] == ')' {
			p.i++
			return first
		}
		t := &Term{Kind: KTuple, Args: []*Term{first}}
		for p.i < len(p.s) && p.s[p.i] == ',' {
			p.i++
			t.Args = append(t.Args, p.term())
			p.ws()
		}
		if p.i >= len(p.s) || p.s[p.i] != ')' {
			panic(fmt.Sprintf("bad tuple at %d", p.i))
		}
		p.i++
		return t
	default:
		// a nullary constructor used as an argument
		if isIdent(c) {
			j := p.i
			for j < len(p.s) && isIdent(p.s[j]) {
				j++
			}
			t := &Term{Kind: KApp, Head: p.s[p.i:j]}
			p.i = j
			return t
		}
	}
	panic(fmt.Sprintf("bad term at %d in %q", p.i, p.s))
}

// accessors ------------------------------------------------------------

func (t *Term) Int() int {
	if t.Kind != KNum {
		panic("number expected")
	}
	return int(t.Num)
}

func (t *Term) Bool() bool {
	if t.Kind != KApp || (t.Head != "true" && t.Head != "false") {
		panic("bool expected")
	}
	return t.Head == "true"
}

func (t *Term) List() []*Term {
	if t.Kind == KApp && t.Head == "big_bytes" && len(t.Args) == 5 {
		return bigBytes(t)
	}
	if t.Kind != KList {
		panic("list expected")
	}
	return t.Args
}

// big_bytes n pat lf0 lfstep crs of coq/Base.v
func bigBytes(t *Term) []*Term {
	n, pat, lf0, step, crs := t.Args[0].Int(), t.Args[1].Ints(), t.Args[2].Int(), t.Args[3].Int(), t.Args[4].Ints()
	cr := map[int]bool{}
	for _, j := range crs {
		cr[j] = true
	}
	out := make([]*Term, n)
	for i := 0; i < n; i++ {
		b := 0
		switch {
		case cr[i]:
			b = 13
		case cr[i-1]:
			b = 10
		case i >= lf0 && (i-lf0)%step == 0:
			b = 10
		default:
			b = pat[i%len(pat)]
		}
		out[i] = &Term{Kind: KNum, Num: int64(b)}
	}
	return out
}

// Bytes reads a list of numbers as a byte string
func (t *Term) Bytes() []byte {
	l := t.List()
	b := make([]byte, len(l))
	for i, x := range l {
		b[i] = byte(x.Int())
	}
	return b
}

func (t *Term) Ints() []int {
	l := t.List()
	b := make([]int, len(l))
	for i, x := range l {
		b[i] = x.Int()
	}
	return b
}

// observation printers -------------------------------------------------

func ON(n int) string {
	if n < 0 {
		// a negative number where the model has a natural number can never agree
		return fmt.Sprintf("(OT \"Negative\" [OZ (%d)])", n)
	}
	return fmt.Sprintf("(ON %d)", n)
}

func OZ(n int64) string { return fmt.Sprintf("(OZ (%d))", n) }

func OB(b bool) string {
	if b {
		return "(OB true)"
	}
	return "(OB false)"
}

func OS(b []byte) string {
	var sb strings.Builder
	sb.WriteString("(OS [")
	for i, c := range b {
		if i > 0 {
			sb.WriteString("; ")
		}
		sb.WriteString(strconv.Itoa(int(c)))
	}
	sb.WriteString("])")
	return sb.String()
}

func OStr(s string) string { return OS([]byte(s)) }

func OL(items ...string) string { return "(OL [" + strings.Join(items, "; ") + "])" }

func OT(tag string, items ...string) string {
	return "(OT \"" + tag + "\" [" + strings.Join(items, "; ") + "])"
}

var (
	ONone  = OT("None")
	OPanic = OT("Panic")
)

func OSome(s string) string { return OT("Some", s) }
