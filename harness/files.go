package main

// Files the way a user can legitimately obtain and place them, besides text.NewFile + one AddFile:
//   - read from disk with text.ReadFile (a scratch directory that is the driver's working directory, so that the
//     file name recorded by ReadFile is the plain name of the case);
//   - placed in a throw-away file set first and in the real one afterwards (AddFile assigns the base offset again;
//     the last placement is the one that counts).
// Both must behave exactly like text.NewFile(name, raw) placed once; the model knows only that.

import (
	"os"
	"path/filepath"
	"strings"

	"github.com/opsidian/parsley/parsley"
	"github.com/opsidian/parsley/text"
)

var scratchDir string

func initScratch() {
	base := os.Getenv("VERIF_SCRATCH")
	if base != "" {
		_ = os.MkdirAll(base, 0o755)
	}
	d, err := os.MkdirTemp(base, "drv")
	if err != nil {
		return
	}
	if os.Chdir(d) == nil {
		scratchDir = d
	}
}

func doneScratch() {
	if scratchDir != "" {
		_ = os.Chdir("/")
		_ = os.RemoveAll(scratchDir)
	}
}

func diskName(name string) bool {
	return scratchDir != "" && name != "" && name != "." && name != ".." && len(name) < 100 &&
		!strings.ContainsAny(name, "/\x00") && filepath.Base(name) == name
}

// text.ReadFile(name) of a file holding raw; nil when that is not possible (then the caller uses NewFile)
func diskFile(name string, raw []byte) *text.File {
	if !diskName(name) {
		return nil
	}
	if os.WriteFile(filepath.Join(scratchDir, name), raw, 0o644) != nil {
		return nil
	}
	f, err := text.ReadFile(name)
	_ = os.Remove(filepath.Join(scratchDir, name))
	if err != nil {
		panic("text.ReadFile failed on a readable file: " + err.Error())
	}
	return f
}

// variant 0: text.NewFile; 1: read from disk; 2: NewFile, placed in a throw-away set first; 3: both
func loadFile(name string, raw []byte, variant int) *text.File {
	var f *text.File
	if variant&1 == 1 {
		f = diskFile(name, raw)
	}
	if f == nil {
		// the file owns its content: the caller's buffer is reused for something else straight away
		buf := append([]byte(nil), raw...)
		f = text.NewFile(name, buf)
		for i := range buf {
			buf[i] = '#'
		}
	}
	if variant&2 == 2 {
		_ = parsley.NewFileSet(text.NewFile("earlier", []byte("0123456\n89")), f)
	}
	return f
}

func variantOf(raw []byte, salt int) int {
	h := salt*31 + len(raw)
	for _, b := range raw {
		h = h*131 + int(b)
		h &= 0xffffff
	}
	return h % 4
}

// Inputs for warming a parser graph up before the observed run: a grammar value is built once and used for any
// number of inputs, so whatever earlier inputs it has seen must leave no trace.  The variants keep the tokens of
// the case at (partly) the same positions with other whitespace behind them.
func warmInputs(raw []byte) [][]byte {
	var spaced, tripled []byte
	for _, b := range raw {
		spaced = append(spaced, b, ' ')
		if b == ' ' {
			tripled = append(tripled, ' ', ' ', ' ')
		} else {
			tripled = append(tripled, b)
		}
	}
	tripled = append(tripled, ' ', ' ')
	doubled := append(append([]byte(nil), raw...), raw...)
	return [][]byte{tripled, spaced, doubled}
}

// a file with the given content at the same base offset as the observed one
func warmFile(raw []byte, offset int) (*text.File, *parsley.FileSet) {
	f := text.NewFile("w", raw)
	if offset <= 1 {
		return f, parsley.NewFileSet(f)
	}
	filler := make([]byte, offset-2)
	for i := range filler {
		filler[i] = 'a'
	}
	return f, parsley.NewFileSet(text.NewFile("x", filler), f)
}
