package main

// c05: the classic left-recursive arithmetic grammar built with the real combinators,
// evaluated by parsley.Evaluate; next to it the answer of a direct reference evaluator
// written here (a second, independent implementation cross-checking coq/ArithSpec.v).

import (
	"bytes"
	"math"
	"strconv"

	"github.com/opsidian/parsley/ast"
	"github.com/opsidian/parsley/ast/interpreter"
	"github.com/opsidian/parsley/combinator"
	"github.com/opsidian/parsley/data"
	"github.com/opsidian/parsley/parser"
	"github.com/opsidian/parsley/parsley"
	"github.com/opsidian/parsley/text"
	"github.com/opsidian/parsley/text/terminal"
)

func init() { subcommands["c05"] = c05Cmd }

// the interpreter of a binary node: children 0 and 2 evaluated in that order, the operator of
// child 1 applied with Go int64 arithmetic; division by zero is an error at the operator
var c05Binop = ast.InterpreterFunc(func(userCtx interface{}, node parsley.NonTerminalNode) (interface{}, parsley.Error) {
	nodes := node.Children()
	l, err := parsley.EvaluateNode(userCtx, nodes[0])
	if err != nil {
		return nil, err
	}
	r, err := parsley.EvaluateNode(userCtx, nodes[2])
	if err != nil {
		return nil, err
	}
	op, err := parsley.EvaluateNode(userCtx, nodes[1])
	if err != nil {
		return nil, err
	}
	a, b := l.(int64), r.(int64)
	switch op.(rune) {
	case '+':
		return a + b, nil
	case '-':
		return a - b, nil
	case '*':
		return a * b, nil
	case '/':
		if b == 0 {
			return nil, parsley.NewErrorf(nodes[1].Pos(), "division by zero")
		}
		if a == math.MinInt64 && b == -1 {
			return a, nil // what Go's a / b gives at run time (wrap-around), without relying on it
		}
		return a / b, nil
	}
	panic("unknown operator")
})

// c05probe sits inside both Memoize wrappers and bounds the nesting depth and the number of body
// executions of one run, so that a change that makes the recursion unbounded or the work
// exponential ends the case at once (observation "BudgetExceeded", which no oracle accepts)
// instead of exhausting the stack or the time budget.  On the unchanged library both stay below
// (len+3)^2 (nesting: about 2*sum over the parenthesis levels of the remaining length); the
// budget is 2*(len+3)^2+1000 for the depth and 8*(len+3)^2+1000 for the count.
type c05budget struct{ depth, calls, maxDepth, maxCalls int }

type c05BudgetExceeded struct{}

type c05probe struct {
	p parsley.Parser
	b *c05budget
}

func (b *c05probe) Parse(ctx *parsley.Context, l data.IntMap, pos parsley.Pos) (parsley.Node, data.IntSet, parsley.Error) {
	b.b.depth++
	b.b.calls++
	if b.b.depth > b.b.maxDepth || b.b.calls > b.b.maxCalls {
		panic(c05BudgetExceeded{})
	}
	defer func() { b.b.depth-- }()
	return b.p.Parse(ctx, l, pos)
}

// THE grammar of C05, as the text of the Coq term Arith.arith_rules / Arith.arith_root (coq/Arith.v;
// coq/ArithSpec.v documents its language).  The corpus case C05Grammar carries the same text: the
// driver compares it with this constant and the Coq side with Arith.v, so the two cannot drift apart.
//
//	expr   = Memoize(Any(SeqOf(&expr, addop, &term).Bind(binop), &term))                 rule 0, IUser 1 = binop
//	term   = Memoize(Any(SeqOf(&term, mulop, factor).Bind(binop), factor))               rule 1
//	factor = Any(tok(Integer), SeqOf(tok('('), &expr, tok(')')).Bind(Select(1)))
//	addop  = Any(tok('+'), tok('-'))   mulop = Any(tok('*'), tok('/'))   tok(p) = LeftTrim(p, WsSpacesNl)
//	root   = Sentence(RightTrim(&expr, WsSpacesNl))
const c05GrammarText = "C05Grammar " +
	"[PMemo 1 (PAny [PSeq SeqOf (IUser 1) false None [PRef 0; PAny [PLeftTrim WsSpacesNl (PTerm (TRune 43)); PLeftTrim WsSpacesNl (PTerm (TRune 45))]; PRef 1]; PRef 1]); " +
	"PMemo 2 (PAny [PSeq SeqOf (IUser 1) false None [PRef 1; PAny [PLeftTrim WsSpacesNl (PTerm (TRune 42)); PLeftTrim WsSpacesNl (PTerm (TRune 47))]; " +
	"PAny [PLeftTrim WsSpacesNl (PTerm (TLit LInteger)); PSeq SeqOf (ISelect 1) false None [PLeftTrim WsSpacesNl (PTerm (TRune 40)); PRef 0; PLeftTrim WsSpacesNl (PTerm (TRune 41))]]]; " +
	"PAny [PLeftTrim WsSpacesNl (PTerm (TLit LInteger)); PSeq SeqOf (ISelect 1) false None [PLeftTrim WsSpacesNl (PTerm (TRune 40)); PRef 0; PLeftTrim WsSpacesNl (PTerm (TRune 41))]]])] " +
	"(PRightTrim WsSpacesNl (PRef 0))"

var c05GrammarTerm = ParseTerm(c05GrammarText)

// builds the real combinators from the pexpr subset the grammar uses
type c05builder struct {
	rules  []parser.Func
	budget *c05budget
}

func (b *c05builder) list(t *Term) []parsley.Parser {
	var ps []parsley.Parser
	for _, x := range t.List() {
		ps = append(ps, b.build(x))
	}
	return ps
}

func (b *c05builder) build(t *Term) parsley.Parser {
	switch t.Head {
	case "PTerm":
		lit := t.Args[0]
		switch lit.Head {
		case "TRune":
			return terminal.Rune(rune(lit.Args[0].Int()))
		case "TLit":
			return buildLiteral(lit.Args[0])
		}
	case "PRef":
		return &b.rules[t.Args[0].Int()]
	case "PMemo":
		return combinator.Memoize(&c05probe{b.build(t.Args[1]), b.budget})
	case "PAny":
		return combinator.Any(b.list(t.Args[0])...)
	case "PSeq":
		if t.Args[0].Head != "SeqOf" || t.Args[2].Bool() || t.Args[3].Head != "None" {
			break
		}
		s := combinator.SeqOf(b.list(t.Args[4])...)
		ip := t.Args[1]
		switch {
		case ip.Head == "ISelect":
			return s.Bind(interpreter.Select(ip.Args[0].Int()))
		case ip.Head == "IUser" && ip.Args[0].Int() == 1:
			return s.Bind(c05Binop)
		}
	case "PLeftTrim":
		return text.LeftTrim(b.build(t.Args[1]), wsMode(t.Args[0]))
	case "PRightTrim":
		return text.RightTrim(b.build(t.Args[1]), wsMode(t.Args[0]))
	}
	panic("c05: pexpr outside the subset of the arithmetic grammar: " + t.Head)
}

func c05Grammar(budget *c05budget) parsley.Parser {
	rules := c05GrammarTerm.Args[0].List()
	b := &c05builder{rules: make([]parser.Func, len(rules)), budget: budget}
	for i, rt := range rules {
		b.rules[i] = parser.Func(b.build(rt).Parse)
	}
	return combinator.Sentence(b.build(c05GrammarTerm.Args[1]))
}

func c05TermEqual(a, b *Term) bool {
	if a.Kind != b.Kind || a.Num != b.Num || a.Str != b.Str || a.Head != b.Head || len(a.Args) != len(b.Args) {
		return false
	}
	for i := range a.Args {
		if !c05TermEqual(a.Args[i], b.Args[i]) {
			return false
		}
	}
	return true
}

func c05guard(f func() string) (out string) {
	defer func() {
		if r := recover(); r != nil {
			if _, ok := r.(c05BudgetExceeded); ok {
				out = OT("BudgetExceeded")
			} else {
				out = OPanic
			}
		}
	}()
	return f()
}

// C05 [bytes] offset   |   C05Grammar rules root
func c05Cmd(t *Term) string {
	if t.Head == "C05Grammar" {
		return OT("Grammar", OB(c05TermEqual(t, c05GrammarTerm)))
	}
	raw := t.Args[0].Bytes()
	offset := t.Args[1].Int()
	n := len(raw) + 3
	budget := &c05budget{maxDepth: 2*n*n + 1000, maxCalls: 8*n*n + 1000}
	impl := c05guard(func() string {
		f := loadFile("f", raw, variantOf(raw, 0))
		r := text.NewReader(f)
		var fs *parsley.FileSet
		if offset <= 1 {
			fs = parsley.NewFileSet(f)
		} else {
			filler := make([]byte, offset-2)
			for i := range filler {
				filler[i] = 'a'
			}
			fs = parsley.NewFileSet(text.NewFile("x", filler), f)
		}
		ctx := parsley.NewContext(fs, r)
		g := c05Grammar(budget)
		// one grammar value serves any number of inputs: it evaluates three other texts first
		for _, w := range warmInputs(raw) {
			wf, wfs := warmFile(w, offset)
			func() {
				defer func() { _ = recover() }()
				_, _ = parsley.Evaluate(parsley.NewContext(wfs, text.NewReader(wf)), g)
			}()
			budget.depth, budget.calls = 0, 0
		}
		v, err := parsley.Evaluate(ctx, g)
		if err != nil {
			return OT("Err", OStr(err.Error()))
		}
		if i, ok := v.(int64); ok {
			return OT("Val", OZ(i))
		}
		return OT("NotInt64")
	})
	base := offset
	if base <= 1 {
		base = 1
	}
	return OT("C05", impl, guard(func() string { return c05Reference(raw, base) }))
}

// ---------------------------------------------------------------------------------------
// The reference: a scannerless recursive-descent evaluator straight on the bytes
// (expr = term {(+|-) term}, term = factor {(*|/) factor}, factor = INT | '(' expr ')').

type c05ref struct {
	s   []byte
	i   int
	bad bool // ill-formed
}

type c05val struct {
	v    int64
	div0 int // index of the offending '/' + 1, 0 = no error
}

func (p *c05ref) ws() {
	for p.i < len(p.s) && (p.s[p.i] == ' ' || p.s[p.i] == '\t' || p.s[p.i] == '\n' || p.s[p.i] == '\f') {
		p.i++
	}
}

func c05apply(op byte, at int, a, b c05val) c05val {
	if a.div0 != 0 {
		return a
	}
	if b.div0 != 0 {
		return b
	}
	switch op {
	case '+':
		return c05val{v: a.v + b.v}
	case '-':
		return c05val{v: a.v - b.v}
	case '*':
		return c05val{v: a.v * b.v}
	}
	if b.v == 0 {
		return c05val{div0: at + 1}
	}
	if a.v == math.MinInt64 && b.v == -1 {
		return a
	}
	return c05val{v: a.v / b.v}
}

func c05Digit(c byte, lo, hi byte) bool { return c >= lo && c <= hi }

func c05Hex(c byte) bool {
	return c05Digit(c, '0', '9') || c05Digit(c, 'a', 'f') || c05Digit(c, 'A', 'F')
}

// the Integer literal at p.i: sign? ([1-9][0-9]* | 0[xX]hex+ | 0[0-7]*), not followed by '.', in range
func (p *c05ref) integer() c05val {
	j := p.i
	if j < len(p.s) && (p.s[j] == '+' || p.s[j] == '-') {
		j++
	}
	switch {
	case j < len(p.s) && c05Digit(p.s[j], '1', '9'):
		for j < len(p.s) && c05Digit(p.s[j], '0', '9') {
			j++
		}
	case j < len(p.s) && p.s[j] == '0':
		if j+2 < len(p.s) && (p.s[j+1] == 'x' || p.s[j+1] == 'X') && c05Hex(p.s[j+2]) {
			j += 2
			for j < len(p.s) && c05Hex(p.s[j]) {
				j++
			}
		} else {
			j++
			for j < len(p.s) && c05Digit(p.s[j], '0', '7') {
				j++
			}
		}
	default:
		p.bad = true
		return c05val{}
	}
	if j < len(p.s) && p.s[j] == '.' {
		p.bad = true
		return c05val{}
	}
	v, err := strconv.ParseInt(string(p.s[p.i:j]), 0, 64)
	if err != nil {
		p.bad = true
		return c05val{}
	}
	p.i = j
	return c05val{v: v}
}

func (p *c05ref) factor() c05val {
	p.ws()
	if p.i < len(p.s) && p.s[p.i] == '(' {
		p.i++
		v := p.expr()
		if p.bad {
			return v
		}
		p.ws()
		if p.i < len(p.s) && p.s[p.i] == ')' {
			p.i++
			return v
		}
		p.bad = true
		return v
	}
	return p.integer()
}

func (p *c05ref) term() c05val {
	v := p.factor()
	for !p.bad {
		p.ws()
		if p.i < len(p.s) && (p.s[p.i] == '*' || p.s[p.i] == '/') {
			op, at := p.s[p.i], p.i
			p.i++
			v = c05apply(op, at, v, p.factor())
		} else {
			break
		}
	}
	return v
}

func (p *c05ref) expr() c05val {
	v := p.term()
	for !p.bad {
		p.ws()
		if p.i < len(p.s) && (p.s[p.i] == '+' || p.s[p.i] == '-') {
			op, at := p.s[p.i], p.i
			p.i++
			v = c05apply(op, at, v, p.term())
		} else {
			break
		}
	}
	return v
}

func c05Reference(raw []byte, base int) string {
	p := &c05ref{s: bytes.Replace(raw, []byte("\r\n"), []byte("\n"), -1)}
	v := p.expr()
	if !p.bad {
		p.ws()
		if p.i != len(p.s) {
			p.bad = true
		}
	}
	switch {
	case p.bad:
		return OT("Reject")
	case v.div0 != 0:
		return OT("Div0", ON(base+v.div0-1))
	}
	return OT("Val", OZ(v.v))
}
