package main

// C16 — the example JSON parser against encoding/json.
//
//   case:        C16 [bytes]
//   observation: OT "C16" [parsley; encoding/json; OL conversions; built]
//     built = the result of the parser BUILT FROM THE GRAMMAR TERM of coq/Json.v (c16Grammar below, the text Coq
//             prints for (json_rules, json_root); lib/c16.py checks that it is that text) with harness/eng.go's
//             builder, rendered like the parsley part: it must equal the parsley part (json.NewParser()).
//     parsley / encoding/json = OT "Val" [value] | OT "Err" [OS text] | OT "Panic" []
//     value = OT "Null" [] | OT "Bool" [OB b] | OT "Str" [OS bytes] | OT "Arr" [values] |
//             OT "Obj" [OT "KV" [OS key; value] ... sorted by key]
//             parsley numbers:       OT "Int" [OZ int64] | OT "Float" [ON Float64bits; OS 'g' text]
//             encoding/json numbers: OT "Number" [OS lexeme; Some (OZ Int64()) | None; Some (ON bits of Float64()) | None]
//     conversions = Go's own strconv.ParseFloat on every lexeme of the Float expression that starts
//             where a value can start (start of input or after whitespace, '[', ',' or ':'):
//             OT "CF" [OS lexeme; Some (ON bits) | None]   (None = ParseFloat returned an error)
//
// parsley side: parsley.Evaluate(ctx, combinator.Sentence(text.Trim(json.NewParser()))) exactly as
// examples/json/json.go does; encoding/json side: Decoder.UseNumber, one value, then end of input.

import (
	"bytes"
	encjson "encoding/json"
	"fmt"
	"io"
	"math"
	"regexp"
	"sort"
	"strconv"

	"github.com/opsidian/parsley/combinator"
	"github.com/opsidian/parsley/examples/json/json"
	"github.com/opsidian/parsley/parser"
	"github.com/opsidian/parsley/parsley"
	"github.com/opsidian/parsley/text"
)

func init() { subcommands["c16"] = c16 }

// (json_rules, json_root) of coq/Json.v, as printed by Coq
const c16Grammar = `([PName [118; 97; 108; 117; 101] (PChoice [PTerm (TLit (LString false)); PTerm (TLit LFloat); PTerm (TLit LInteger); PSeq SeqOf (ISelect 1) false None [PTerm (TRune 91); PSeq (SSepBy true) IArray false None [PLeftTrim WsSpacesNl (PRef 0); PLeftTrim WsSpaces (PTerm (TRune 44))]; PLeftTrim WsSpacesNl (PTerm (TRune 93))]; PSeq SeqOf (ISelect 1) false None [PTerm (TRune 123); PSeq (SSepBy true) IObject false None [PLeftTrim WsSpacesNl (PSeq SeqOf INone false None [PTerm (TLit (LString false)); PLeftTrim WsSpaces (PTerm (TRune 58)); PLeftTrim WsSpacesNl (PRef 0)]); PLeftTrim WsSpaces (PTerm (TRune 44))]; PLeftTrim WsSpacesNl (PTerm (TRune 125))]; PTerm (TLit (LBool [116; 114; 117; 101] [102; 97; 108; 115; 101])); PTerm (TLit (LNil [110; 117; 108; 108]))])], PSeq SeqOf (ISelect 0) false None [PRightTrim WsSpacesNl (PLeftTrim WsSpacesNl (PRef 0)); PEnd])`

var c16GrammarTerm = ParseTerm(c16Grammar)

// the parser built from the grammar term (fresh for every document, like json.NewParser())
func c16Built() parsley.Parser {
	st := &engStats{active: map[[2]int]int{}}
	b := &engBuilder{st: &st, memo: true}
	rules := c16GrammarTerm.Args[0].List()
	b.rules = make([]parser.Func, len(rules))
	for i, rt := range rules {
		b.rules[i] = parser.Func(b.build(rt).Parse)
	}
	return b.build(c16GrammarTerm.Args[1])
}

var c16FloatRe = regexp.MustCompile(`^(?:[-+]?[0-9]*\.[0-9]+(?:[eE][-+]?[0-9]+)?)`)

func onU64(n uint64) string { return fmt.Sprintf("(ON %d)", n) }

func c16Value(v interface{}, enc bool) string {
	switch x := v.(type) {
	case nil:
		return OT("Null")
	case bool:
		return OT("Bool", OB(x))
	case int64:
		return OT("Int", OZ(x))
	case float64:
		return OT("Float", onU64(math.Float64bits(x)), OStr(strconv.FormatFloat(x, 'g', -1, 64)))
	case encjson.Number:
		iv, fv := ONone, ONone
		if i, err := x.Int64(); err == nil {
			iv = OSome(OZ(i))
		}
		if f, err := x.Float64(); err == nil {
			fv = OSome(onU64(math.Float64bits(f)))
		}
		return OT("Number", OStr(string(x)), iv, fv)
	case string:
		return OT("Str", OStr(x))
	case []interface{}:
		items := make([]string, len(x))
		for i, e := range x {
			items[i] = c16Value(e, enc)
		}
		return OT("Arr", items...)
	case map[string]interface{}:
		keys := make([]string, 0, len(x))
		for k := range x {
			keys = append(keys, k)
		}
		sort.Strings(keys)
		items := make([]string, len(keys))
		for i, k := range keys {
			items[i] = OT("KV", OStr(k), c16Value(x[k], enc))
		}
		return OT("Obj", items...)
	default:
		return OT("Other", OStr(fmt.Sprintf("%T", v)))
	}
}

func c16Parsley(data []byte, mk func() parsley.Parser) (out string) {
	defer func() {
		if r := recover(); r != nil {
			out = OPanic
		}
	}()
	// the file owns its content: the buffer it was made from is reused by the caller straight away (a scanner's
	// buffer, say) and the document is evaluated afterwards
	buf := append([]byte(nil), data...)
	f := text.NewFile("doc.json", buf)
	for i := range buf {
		buf[i] = '#'
	}
	fs := parsley.NewFileSet(f)
	// one parser value for all the evaluations of this document, after it has evaluated other documents
	p := mk()
	for _, w := range warmInputs(data) {
		wf, wfs := warmFile(w, 1)
		func() {
			defer func() { _ = recover() }()
			_, _ = parsley.Evaluate(parsley.NewContext(wfs, text.NewReader(wf)), p)
		}()
	}
	eval := func(fs *parsley.FileSet, r parsley.Reader) string {
		ctx := parsley.NewContext(fs, r)
		res, err := parsley.Evaluate(ctx, p)
		if err != nil {
			return OT("Err", OStr(err.Error()))
		}
		return OT("Val", c16Value(res, false))
	}
	first := eval(fs, text.NewReader(f))
	// evaluating the same file again (fresh context and reader) must give the same answer:
	// parsing must not damage the loaded document
	if second := eval(fs, text.NewReader(f)); second != first {
		return OT("SecondEvaluationDiffers", first, second)
	}
	// the value of a document does not depend on where it sits: the same bytes loaded as a later file of a
	// set that already holds another document, with the reader created before the file is registered
	f2 := loadFile("doc.json", data, 1+len(data)%2*2) // read from disk; every second one placed elsewhere first
	r2 := text.NewReader(f2)
	fs2 := parsley.NewFileSet(text.NewFile("other.json", []byte(`{"a": [1, 2.5, "x"]}`)))
	fs2.AddFile(f2)
	if third := eval(fs2, r2); third != first {
		return OT("EvaluationInALaterFileDiffers", first, third)
	}
	return first
}

func c16Enc(data []byte) (out string) {
	defer func() {
		if r := recover(); r != nil {
			out = OPanic
		}
	}()
	dec := encjson.NewDecoder(bytes.NewReader(data))
	dec.UseNumber()
	var v interface{}
	if err := dec.Decode(&v); err != nil {
		return OT("Err", OStr(err.Error()))
	}
	var extra interface{}
	if err := dec.Decode(&extra); err != io.EOF {
		if err == nil {
			return OT("Err", OStr("trailing value"))
		}
		return OT("Err", OStr("trailing input: "+err.Error()))
	}
	return OT("Val", c16Value(v, true))
}

func c16Convs(raw []byte) string {
	data := bytes.Replace(raw, []byte("\r\n"), []byte("\n"), -1)
	seen := map[string]bool{}
	var items []string
	for i := range data {
		if i > 0 {
			switch data[i-1] {
			case ' ', '\t', '\n', '\f', '[', ',', ':':
			default:
				continue
			}
		}
		m := c16FloatRe.Find(data[i:])
		if m == nil || seen[string(m)] {
			continue
		}
		seen[string(m)] = true
		r := ONone
		if f, err := strconv.ParseFloat(string(m), 64); err == nil {
			r = OSome(onU64(math.Float64bits(f)))
		}
		items = append(items, OT("CF", OS(m), r))
	}
	return OL(items...)
}

// C16 [bytes]
func c16(t *Term) string {
	data := t.Args[0].Bytes()
	example := func() parsley.Parser { return combinator.Sentence(text.Trim(json.NewParser())) }
	return OT("C16", c16Parsley(data, example), c16Enc(data), c16Convs(data), c16Parsley(data, c16Built))
}
