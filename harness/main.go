package main

// impl_driver <subcommand>: reads one case per line on stdin (Coq term
// syntax), runs the real parsley code built from /repo's working tree and
// prints one observation per line (a term of type obs, coq/Obs.v).

import (
	"bufio"
	"fmt"
	"os"
	"runtime/debug"
)

var subcommands = map[string]func(*Term) string{}

func runCase(f func(*Term) string, line string) (out string) {
	defer func() {
		if r := recover(); r != nil {
			if os.Getenv("VERIF_DEBUG") != "" {
				fmt.Fprintf(os.Stderr, "panic: %v\n%s\n", r, debug.Stack())
			}
			out = OPanic
		}
	}()
	return f(ParseTerm(line))
}

func main() {
	debug.SetMaxStack(256 << 20)
	if len(os.Args) < 2 {
		fmt.Fprintln(os.Stderr, "usage: impl_driver <subcommand>")
		os.Exit(2)
	}
	f, ok := subcommands[os.Args[1]]
	if !ok {
		fmt.Fprintln(os.Stderr, "unknown subcommand", os.Args[1])
		os.Exit(2)
	}
	initScratch()
	defer doneScratch()
	sc := bufio.NewScanner(os.Stdin)
	sc.Buffer(make([]byte, 1<<20), 1<<28)
	w := bufio.NewWriter(os.Stdout)
	for sc.Scan() {
		w.WriteString(runCase(f, sc.Text()))
		w.WriteByte('\n')
		w.Flush()
	}
}
