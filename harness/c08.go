package main

// C08 — the built-in literal parsers of text/terminal.
//
//   c08    : case  C08 <literal> <raw bytes> <offset> <conv table>
//            runs the real parser at EVERY position of the file and prints, per position,
//            OL [rx; result]:
//              rx      Go's regexp on the bytes from the position on, for the parser's own
//                      expression (None for parsers without one, and at end of input)
//              result  OT "Panic" [] | OT "N" [token; pos; readerPos; value; ref] |
//                      OT "E" [error pos; is-not-found] | OT "Both" [] | OT "Neither" []
//              ref     Go's own conversion of the node's bytes file[pos..readerPos]
//                      (strconv.ParseInt / ParseFloat / time.ParseDuration / UnquoteChar)
//   c08ref : same input, prints the conversion table (lexeme -> ParseFloat / ParseDuration)
//            for every lexeme Go's regexp finds at any position; lib/c08.py pastes it into
//            the case so that the Coq model can take Go's answers as its conv parameters.

import (
	"bytes"
	"fmt"
	"math"
	"regexp"
	"strconv"
	"strings"
	"time"
	"unicode/utf8"

	"github.com/opsidian/parsley/data"
	"github.com/opsidian/parsley/parsley"
	"github.com/opsidian/parsley/text"
	"github.com/opsidian/parsley/text/terminal"
)

func init() {
	subcommands["c08"] = c08
	subcommands["c08ref"] = c08ref
}

// the expressions of text/terminal (string constants inside the parser functions, copied)
const (
	c08IntExpr   = "[-+]?(?:[1-9][0-9]*|0[xX][0-9a-fA-F]+|0[0-7]*)"
	c08FloatExpr = "[-+]?[0-9]*\\.[0-9]+(?:[eE][-+]?[0-9]+)?"
	c08CharExpr  = `\\[abfnrtv']|\\x[0-9a-fA-F]{2,2}|\\u[0-9a-fA-F]{4,4}|\\U[0-9a-fA-F]{8,8}|[^']`
	c08DurExpr   = "[-+]?(?:[0-9]+(?:\\.[0-9]+)?(?:ns|us|µs|μs|ms|s|m|h))+"
	c08BqExpr    = "[^`]+"
)

// c08Regex renders a term of type Regex.regex as a Go expression
func c08Regex(t *Term) string {
	switch t.Head {
	case "REps":
		return "(?:)"
	case "RClass":
		var sb strings.Builder
		sb.WriteString("[")
		if t.Args[0].Bool() {
			sb.WriteString("^")
		}
		for _, r := range t.Args[1].List() {
			fmt.Fprintf(&sb, `\x{%x}-\x{%x}`, r.Args[0].Int(), r.Args[1].Int())
		}
		sb.WriteString("]")
		return sb.String()
	case "RCat":
		return "(?:" + c08Regex(t.Args[0]) + c08Regex(t.Args[1]) + ")"
	case "RAlt":
		return "(?:" + c08Regex(t.Args[0]) + "|" + c08Regex(t.Args[1]) + ")"
	case "RStar":
		return "(?:" + c08Regex(t.Args[0]) + ")*"
	case "RPlus":
		return "(?:" + c08Regex(t.Args[0]) + ")+"
	case "ROpt":
		return "(?:" + c08Regex(t.Args[0]) + ")?"
	case "RRep":
		n := t.Args[0].Int()
		return fmt.Sprintf("(?:%s){%d,%d}", c08Regex(t.Args[1]), n, n)
	case "RGroup":
		return "(" + c08Regex(t.Args[0]) + ")"
	}
	panic("bad regex term " + t.Head)
}

type c08lit struct {
	kind   string
	expr   string // the parser's expression, "" if none
	build  func() parsley.Parser
	quoted bool
}

func c08Literal(t *Term) *c08lit {
	l := &c08lit{kind: t.Head}
	switch t.Head {
	case "LInteger":
		l.expr = c08IntExpr
		l.build = func() parsley.Parser { return terminal.Integer("schema") }
	case "LFloat":
		l.expr = c08FloatExpr
		l.build = func() parsley.Parser { return terminal.Float("schema") }
	case "LString":
		bq := t.Args[0].Bool()
		if bq {
			l.expr = c08BqExpr
		}
		l.build = func() parsley.Parser { return terminal.String("schema", bq) }
	case "LChar":
		l.expr = c08CharExpr
		l.build = func() parsley.Parser { return terminal.Char("schema") }
	case "LBool":
		ts, fs := string(t.Args[0].Bytes()), string(t.Args[1].Bytes())
		l.build = func() parsley.Parser { return terminal.Bool("schema", ts, fs) }
	case "LNil":
		s := string(t.Args[0].Bytes())
		l.build = func() parsley.Parser { return terminal.Nil("schema", s) }
	case "LWord":
		s := string(t.Args[0].Bytes())
		l.build = func() parsley.Parser { return terminal.Word("schema", s, s) }
	case "LOp":
		s := string(t.Args[0].Bytes())
		l.build = func() parsley.Parser { return terminal.Op(s) }
	case "LRune":
		ch := rune(t.Args[0].Int())
		l.build = func() parsley.Parser { return terminal.Rune(ch) }
	case "LDuration":
		l.expr = c08DurExpr
		l.build = func() parsley.Parser { return terminal.TimeDuration("schema") }
	case "LRegexp":
		l.expr = c08Regex(t.Args[0])
		g := t.Args[1].Int()
		expr := l.expr
		l.build = func() parsley.Parser { return terminal.Regexp("schema", "RX", "rx", expr, g) }
	default:
		panic("bad literal " + t.Head)
	}
	return l
}

func c08ON64(n uint64) string { return fmt.Sprintf("(ON %d)", n) }

func c08Value(v interface{}) string {
	switch x := v.(type) {
	case nil:
		return OT("Nil")
	case int64:
		return OZ(x)
	case float64:
		return c08ON64(math.Float64bits(x))
	case string:
		return OStr(x)
	case rune:
		return ON(int(x))
	case bool:
		return OB(x)
	case time.Duration:
		return OZ(int64(x))
	}
	return OT("UnknownValue", OStr(fmt.Sprintf("%T", v)))
}

func c08Strip(lex []byte) string {
	if len(lex) < 2 {
		return ""
	}
	return string(lex[1 : len(lex)-1])
}

// the item-wise reference decoder of a double-quoted body: Go's escape syntax, each escape a
// code point appended in UTF-8, an undecodable byte kept; nil, false if the body is not a
// sequence of items
func c08StringRef(body string) ([]byte, bool) {
	res := []byte{}
	for body != "" {
		if body[0] == '\r' || body[0] == '\n' {
			return nil, false
		}
		ch, _, tail, err := strconv.UnquoteChar(body, '"')
		if err != nil {
			return nil, false
		}
		if ch == utf8.RuneError && len(body)-len(tail) == 1 {
			res = append(res, body[0])
		} else {
			res = append(res, string(ch)...)
		}
		body = tail
	}
	return res, true
}

func c08Ref(kind string, lex []byte) string {
	switch kind {
	case "LInteger":
		if v, err := strconv.ParseInt(string(lex), 0, 64); err == nil {
			return OSome(OZ(v))
		}
		return ONone
	case "LFloat":
		if v, err := strconv.ParseFloat(string(lex), 64); err == nil {
			return OSome(c08ON64(math.Float64bits(v)))
		}
		return ONone
	case "LDuration":
		if v, err := time.ParseDuration(string(lex)); err == nil {
			return OSome(OZ(int64(v)))
		}
		return ONone
	case "LChar":
		v, _, tail, err := strconv.UnquoteChar(c08Strip(lex), '\'')
		if err == nil && tail == "" {
			return OSome(ON(int(v)))
		}
		return ONone
	case "LString":
		if len(lex) == 0 {
			return ONone
		}
		if lex[0] == '"' {
			if v, ok := c08StringRef(c08Strip(lex)); ok {
				return OSome(OS(v))
			}
			return ONone
		}
		return OSome(OStr(c08Strip(lex)))
	}
	return OT("NoRef")
}

func c08Setup(t *Term) (*c08lit, []byte, int) {
	lit := c08Literal(t.Args[0])
	raw := t.Args[1].Bytes()
	off := t.Args[2].Int()
	return lit, raw, off
}

func c08(t *Term) string {
	lit, raw, off := c08Setup(t)
	f := loadFile("f", raw, variantOf(raw, 0))
	var early *text.Reader
	if (len(raw)+off)%2 == 0 {
		early = text.NewReader(f) // a reader created before the file is placed must follow its base offset
	}
	fs := parsley.NewFileSet(f) // sets the offset to 1 ...
	f.SetOffset(off)            // ... so the offset under test is set afterwards
	if early == nil {
		early = text.NewReader(f)
	}
	ctx := parsley.NewContext(fs, early)
	norm := bytes.Replace(raw, []byte("\r\n"), []byte("\n"), -1) // what NewFile keeps
	var rx *regexp.Regexp
	if lit.expr != "" {
		rx = regexp.MustCompile("^(?:" + lit.expr + ")")
	}
	var p parsley.Parser
	built := guard(func() string { p = lit.build(); return "" }) != OPanic
	rows := make([]string, 0, len(norm)+1)
	for cur := 0; cur <= len(norm); cur++ {
		pos := parsley.Pos(off + cur)
		rxo := ONone
		if rx != nil && cur < len(norm) {
			if idx := rx.FindIndex(norm[cur:]); idx != nil {
				rxo = OSome(ON(idx[1]))
			}
		}
		res := OPanic
		if built {
			res = guard(func() string {
				node, _, err := p.Parse(ctx, data.EmptyIntMap, pos)
				switch {
				case node != nil && err != nil:
					return OT("Both")
				case node == nil && err == nil:
					return OT("Neither")
				case node != nil:
					ref := OT("BadSpan")
					lo, hi := int(node.Pos())-off, int(node.ReaderPos())-off
					if 0 <= lo && lo <= hi && hi <= len(norm) {
						ref = c08Ref(lit.kind, norm[lo:hi])
					}
					val := OT("NotALiteralNode")
					if ln, ok := node.(parsley.LiteralNode); ok {
						val = c08Value(ln.Value())
					}
					return OT("N", OStr(node.Token()), ON(int(node.Pos())), ON(int(node.ReaderPos())), val, ref)
				default:
					return OT("E", ON(int(err.Pos())), OB(parsley.IsNotFoundError(err)))
				}
			})
		}
		rows = append(rows, OL(rxo, res))
	}
	return OL(rows...)
}

// c08ref prints the conversion table as a Coq term of type Literals.conv_table:
// [(lexeme, Some (negative, hi, lo)); (lexeme, None); ...] with magnitude = hi * 2^32 + lo
func c08ref(t *Term) string {
	lit, raw, _ := c08Setup(t)
	norm := bytes.Replace(raw, []byte("\r\n"), []byte("\n"), -1)
	var conv func(s string) (bool, uint64, bool)
	switch lit.kind {
	case "LFloat":
		conv = func(s string) (bool, uint64, bool) {
			v, err := strconv.ParseFloat(s, 64)
			return false, math.Float64bits(v), err == nil
		}
	case "LDuration":
		conv = func(s string) (bool, uint64, bool) {
			v, err := time.ParseDuration(s)
			if v < 0 {
				return true, uint64(-int64(v)), err == nil // -MinInt64 wraps to 2^63 as uint64
			}
			return false, uint64(v), err == nil
		}
	default:
		return "[]"
	}
	rx := regexp.MustCompile("^(?:" + lit.expr + ")")
	seen := map[string]bool{}
	var items []string
	for cur := 0; cur < len(norm); cur++ {
		m := rx.Find(norm[cur:])
		if m == nil || seen[string(m)] {
			continue
		}
		seen[string(m)] = true
		var sb strings.Builder
		sb.WriteString("([")
		for i, c := range m {
			if i > 0 {
				sb.WriteString("; ")
			}
			sb.WriteString(strconv.Itoa(int(c)))
		}
		sb.WriteString("], ")
		if neg, mag, ok := conv(string(m)); ok {
			fmt.Fprintf(&sb, "Some (%v, %d, %d))", neg, mag>>32, mag&0xffffffff)
		} else {
			sb.WriteString("None)")
		}
		items = append(items, sb.String())
	}
	return "[" + strings.Join(items, "; ") + "]"
}
