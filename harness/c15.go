package main

import (
	"sort"

	"github.com/opsidian/parsley/data"
)

func init() { subcommands["c15"] = c15 }

// zint reads a signed literal written as `z n`, `z (-n)` or a bare number
func zint(t *Term) int {
	if t.Kind == KApp && t.Head == "z" && len(t.Args) == 1 {
		return t.Args[0].Int()
	}
	return t.Int()
}

func zints(t *Term) []int {
	l := t.List()
	out := make([]int, len(l))
	for i, x := range l {
		out[i] = zint(x)
	}
	return out
}

func ozs(xs []int) string {
	items := make([]string, len(xs))
	for i, x := range xs {
		items[i] = OZ(int64(x))
	}
	return OL(items...)
}

func opairs(m data.IntMap) string {
	type kv struct{ k, v int }
	var kvs []kv
	m.Each(func(k, v int) { kvs = append(kvs, kv{k, v}) })
	sort.Slice(kvs, func(i, j int) bool { return kvs[i].k < kvs[j].k })
	items := make([]string, len(kvs))
	for i, p := range kvs {
		items[i] = OL(OZ(int64(p.k)), OZ(int64(p.v)))
	}
	return OL(items...)
}

func sortedKeys(m data.IntMap) []int {
	ks := m.Keys()
	sort.Ints(ks)
	return ks
}

func eachSet(s data.IntSet) []int {
	out := []int{}
	s.Each(func(v int) { out = append(out, v) })
	return out
}

// every value iterated once (inside another iteration's callback)
func nestedEach(vals []interface{}) {
	for _, v := range vals {
		switch x := v.(type) {
		case data.IntSet:
			x.Each(func(int) {})
		case data.IntMap:
			x.Each(func(int, int) {})
			_ = x.Keys()
		}
	}
}

func sameInts(a, b []int) bool {
	if len(a) != len(b) {
		return false
	}
	for i := range a {
		if a[i] != b[i] {
			return false
		}
	}
	return true
}

// readValue re-reads one value through the public API only
func readValue(v interface{}, probes []int) string {
	switch x := v.(type) {
	case data.IntSet:
		return OL(ON(x.Len()), ozs(eachSet(x)))
	case data.IntMap:
		gets := make([]int, len(probes))
		for i, k := range probes {
			gets[i] = x.Get(k)
		}
		return OL(opairs(x), ozs(sortedKeys(x)), ozs(gets))
	}
	panic("unknown value kind")
}

// C15 [probes] [ops]: a history; values 0 and 1 are data.EmptyIntSet and data.EmptyIntMap.
// After every step ALL values produced so far are read back and each read is compared with the
// read of the same value after the previous step; a step's observation is (result, reads of the
// new values, [(index, read)] of the older values whose read changed).
func c15(t *Term) string {
	probes := zints(t.Args[0])
	// The two package-level values are re-created the way package initialisation creates them, so that a
	// case never inherits damage done by an earlier case of the same process (a replay of one case then
	// behaves exactly like that case in a batch).  Within the case they are values 0 and 1 and are
	// re-read after every step like every other value.
	data.EmptyIntSet = data.NewIntSet()
	data.EmptyIntMap = data.NewIntMap(nil)
	vals := []interface{}{data.EmptyIntSet, data.EmptyIntMap}
	readAll := func() []string {
		reads := make([]string, len(vals))
		for i, v := range vals {
			reads[i] = readValue(v, probes)
		}
		return reads
	}
	prev := readAll()
	initial := OL(prev...)
	var steps []string
	for _, o := range t.Args[1].List() {
		o := o
		step := guard(func() string {
			res := OL()
			set := func(i int) data.IntSet { return vals[o.Args[i].Int()].(data.IntSet) }
			mp := func(i int) data.IntMap { return vals[o.Args[i].Int()].(data.IntMap) }
			switch o.Head {
			case "OpNewSet":
				// the caller's slice stays the caller's: it is not reordered by the constructor, and the caller goes
				// on using it (here: overwrites it) without touching the set
				xs := zints(o.Args[0])
				before := append([]int(nil), xs...)
				s := data.NewIntSet(xs...)
				for i := range xs {
					if xs[i] != before[i] {
						res = OT("CallerSliceModified")
					}
					xs[i] = -7 - i
				}
				vals = append(vals, s)
			case "OpInsert":
				vals = append(vals, set(0).Insert(zint(o.Args[1])))
			case "OpUnion":
				vals = append(vals, set(0).Union(set(1)))
			case "OpLen":
				res = OZ(int64(set(0).Len()))
			case "OpEachS":
				// iterations may nest: inside the callback every other value is iterated as well
				var got []int
				set(0).Each(func(v int) {
					got = append(got, v)
					nestedEach(vals)
				})
				if again := eachSet(set(0)); !sameInts(got, again) {
					res = OT("NestedIterationDiffers", ozs(got), ozs(again))
				} else {
					res = ozs(again)
				}
			case "OpNewMapNil":
				vals = append(vals, data.NewIntMap(nil))
			case "OpNewMap":
				m := map[int]int{} // always a fresh map: NewIntMap keeps the map it is given
				for _, kv := range o.Args[0].List() {
					m[zint(kv.Args[0])] = zint(kv.Args[1])
				}
				vals = append(vals, data.NewIntMap(m))
			case "OpInc":
				vals = append(vals, mp(0).Inc(zint(o.Args[1])))
			case "OpFilter":
				vals = append(vals, mp(0).Filter(set(1)))
			case "OpGet":
				res = OZ(int64(mp(0).Get(zint(o.Args[1]))))
			case "OpKeys":
				res = ozs(sortedKeys(mp(0)))
			case "OpEachM":
				plain := opairs(mp(0))
				type kv struct{ k, v int }
				var kvs []kv
				mp(0).Each(func(k, v int) {
					kvs = append(kvs, kv{k, v})
					nestedEach(vals)
				})
				sort.Slice(kvs, func(i, j int) bool { return kvs[i].k < kvs[j].k })
				items := make([]string, len(kvs))
				for i, p := range kvs {
					items[i] = OL(OZ(int64(p.k)), OZ(int64(p.v)))
				}
				if nested := OL(items...); nested != plain {
					res = OT("NestedIterationDiffers", nested, plain)
				} else {
					res = plain
				}
			default:
				panic("unknown op " + o.Head)
			}
			cur := readAll()
			var changed []string
			for i := range prev {
				if cur[i] != prev[i] {
					changed = append(changed, OL(ON(i), cur[i]))
				}
			}
			fresh := cur[len(prev):]
			prev = cur
			return OL(res, OL(fresh...), OL(changed...))
		})
		steps = append(steps, step)
		if step == OPanic {
			break
		}
	}
	return OL(initial, OL(steps...))
}
