package main

import (
	"errors"

	"github.com/opsidian/parsley/parsley"
	"github.com/opsidian/parsley/text"
)

func init() { subcommands["c11"] = c11 }

// C11 [(name, raw); ...] [positions]
// Every case is observed twice: with files made by text.NewFile and placed once, and with files read from disk by
// text.ReadFile (where the name allows it) that sat in another file set before.  Both must give the same
// observation (the model knows one kind of file only).
func c11(t *Term) string {
	plain := c11Obs(t, 0)
	if other := c11Obs(t, 3); other != plain {
		return OT("FilesReadFromDiskOrPlacedTwiceDiffer", plain, other)
	}
	return plain
}

// rows of File.Position for every offset of a small file; of a big one the first and last 200 offsets
func c11Offsets(n int) []int {
	var out []int
	for c := 0; c <= n+1; c++ {
		if n <= 2000 || c < 200 || c+200 > n+1 {
			out = append(out, c)
		}
	}
	return out
}

func c11Obs(t *Term, variant int) string {
	var files []*text.File
	for _, ft := range t.Args[0].List() {
		files = append(files, loadFile(string(ft.Args[0].Bytes()), ft.Args[1].Bytes(), variant))
	}
	var fs *parsley.FileSet
	if n := len(files); n > 0 && n%2 == 1 {
		// the variadic constructor with a caller-owned slice that has spare capacity, a second set built from the
		// same slice, and one more file added to each: a file set must not share storage with its caller
		list := make([]parsley.File, 0, n+2)
		for _, f := range files[:n-1] {
			list = append(list, f)
		}
		fs = parsley.NewFileSet(list...)
		decoy := parsley.NewFileSet(list...)
		fs.AddFile(files[n-1])
		decoy.AddFile(text.NewFile("decoy", []byte("zz\nzz")))
		list = append(list, text.NewFile("caller", []byte("c"))) // the caller goes on using its own slice
		_ = list
	} else {
		fs = parsley.NewFileSet()
		for _, f := range files {
			fs.AddFile(f)
		}
	}
	var layout, probes, perFile []string
	for _, f := range files {
		layout = append(layout, OL(ON(int(f.Pos(0))), ON(f.Len())))
	}
	for _, pt := range t.Args[1].List() {
		p := pt.Int()
		probes = append(probes, OL(
			guard(func() string { return OStr(fs.Position(parsley.Pos(p)).String()) }),
			guard(func() string {
				return OStr(fs.ErrorWithPosition(parsley.NewError(parsley.Pos(p), errors.New("e%d"))).Error())
			})))
	}
	for _, f := range files {
		var row []string
		for _, c := range c11Offsets(f.Len()) {
			c := c
			row = append(row, OL(guard(func() string { return OStr(f.Position(c).String()) }), ON(int(f.Pos(c)))))
		}
		perFile = append(perFile, OL(row...))
	}
	return OT("C11", OL(layout...), OL(probes...), OL(perFile...))
}

// guard turns a panic of one observation into the Panic observation
func guard(f func() string) (out string) {
	defer func() {
		if r := recover(); r != nil {
			out = OPanic
		}
	}()
	return f()
}
