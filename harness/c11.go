package main

import (
	"errors"

	"github.com/opsidian/parsley/parsley"
	"github.com/opsidian/parsley/text"
)

func init() { subcommands["c11"] = c11 }

// C11 [(name, raw); ...] [positions]
func c11(t *Term) string {
	var files []*text.File
	fs := parsley.NewFileSet()
	for _, ft := range t.Args[0].List() {
		f := text.NewFile(string(ft.Args[0].Bytes()), ft.Args[1].Bytes())
		files = append(files, f)
		fs.AddFile(f)
	}
	var layout, probes, perFile []string
	for _, f := range files {
		layout = append(layout, OL(ON(int(f.Pos(0))), ON(f.Len())))
	}
	for _, pt := range t.Args[1].List() {
		p := pt.Int()
		probes = append(probes, OL(
			guard(func() string { return OStr(fs.Position(parsley.Pos(p)).String()) }),
			guard(func() string {
				return OStr(fs.ErrorWithPosition(parsley.NewError(parsley.Pos(p), errors.New("e"))).Error())
			})))
	}
	for _, f := range files {
		var row []string
		for c := 0; c <= f.Len()+1; c++ {
			c := c
			row = append(row, OL(guard(func() string { return OStr(f.Position(c).String()) }), ON(int(f.Pos(c)))))
		}
		perFile = append(perFile, OL(row...))
	}
	return OT("C11", OL(layout...), OL(probes...), OL(perFile...))
}

// guard turns a panic of one observation into the Panic observation
func guard(f func() string) (out string) {
	defer func() {
		if r := recover(); r != nil {
			out = OPanic
		}
	}()
	return f()
}
