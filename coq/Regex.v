(* Regex.v — a leftmost-first backtracking matcher for the subset of Go's regexp syntax
   that parsley itself uses, anchored at the start of the input ("^(?:expr)"), and the five
   fixed expressions of text/terminal as regex values.  NO PROOFS here (LiteralProofs.v).

   Semantics.  Go's regexp (RE2 syntax, Perl flags) returns the leftmost-FIRST match: the
   match a backtracking engine with greedy quantifiers and ordered alternation finds first
   (package regexp: "it chooses the one that a backtracking search would have found first").
   [rmatch] is that backtracking search in continuation-passing style: [rmatch r s k] tries
   the ways [r] can match a prefix of [s] in Perl's priority order and returns the first
   answer [k rest] that is not [None].

   Go's regexp works on RUNES: a character class consumes one UTF-8 sequence, an ill-formed
   byte is the rune U+FFFD of width 1 (utf8.DecodeRune).  A negated class matches a line feed
   (syntax.Perl contains ClassNL).  [next_rune] is that step.

   Outside the modelled fragment: a star/plus whose body can match the empty string (Go has
   a special rule for empty iterations; none of parsley's expressions has such a body, here
   an iteration that consumes nothing is simply not taken), anchors, word boundaries, lazy
   quantifiers, flags, back-references (not in RE2 at all). *)
From Coq Require Import String List NArith Bool.
From Parsley Require Import Obs Base Utf8.
Import ListNotations.
Open Scope N_scope.

(* a character class: a list of inclusive rune ranges, possibly negated *)
Definition in_ranges (rs : list (N * N)) (c : N) : bool :=
  existsb (fun lh => (fst lh <=? c) && (c <=? snd lh)) rs.
Definition class_match (neg : bool) (rs : list (N * N)) (c : N) : bool := xorb neg (in_ranges rs c).

Inductive regex :=
| REps                                     (* the empty expression *)
| RClass (neg : bool) (rs : list (N * N))  (* [..] / [^..]; a literal character is a one-rune class *)
| RCat (a b : regex)                       (* ab *)
| RAlt (a b : regex)                       (* a|b, ordered: a is preferred *)
| RStar (a : regex)                        (* a*  greedy *)
| RPlus (a : regex)                        (* a+  greedy *)
| ROpt (a : regex)                         (* a?  greedy *)
| RRep (n : nat) (a : regex)               (* a{n,n} *)
| RGroup (a : regex).                      (* (a) capturing group: same language; spans by [rmatch_caps] *)

(* one rune of input: the decoded rune and the input behind it *)
Definition next_rune (s : list N) : option (N * list N) :=
  match s with
  | [] => None
  | _ => let '(c, w) := decode_rune s in Some (c, skipn (N.to_nat w) s)
  end.

Section Matcher.
  Context {A : Type}.
  Definition cont := list N -> option A.
  Definition stepper := list N -> cont -> option A.

  (* a* as a loop: prefer one more iteration (which must consume input), else continue.
     fuel = 1 + length of the input is always enough, every iteration consumes a byte *)
  Fixpoint star_loop (step : stepper) (fuel : nat) (s : list N) (k : cont) : option A :=
    match fuel with
    | O => k s
    | S f =>
      match step s (fun t => if Nat.ltb (length t) (length s) then star_loop step f t k else None) with
      | Some x => Some x
      | None => k s
      end
    end.

  Fixpoint rep_loop (step : stepper) (n : nat) (s : list N) (k : cont) : option A :=
    match n with
    | O => k s
    | S n' => step s (fun t => rep_loop step n' t k)
    end.

  Fixpoint rmatch (r : regex) (s : list N) (k : cont) {struct r} : option A :=
    match r with
    | REps => k s
    | RClass neg rs =>
      match next_rune s with
      | Some (c, t) => if class_match neg rs c then k t else None
      | None => None
      end
    | RCat a b => rmatch a s (fun t => rmatch b t k)
    | RAlt a b => match rmatch a s k with Some x => Some x | None => rmatch b s k end
    | RStar a => star_loop (rmatch a) (S (length s)) s k
    | RPlus a => rmatch a s (fun t => star_loop (rmatch a) (S (length t)) t k)
    | ROpt a => match rmatch a s k with Some x => Some x | None => k s end
    | RRep n a => rep_loop (rmatch a) n s k
    | RGroup a => rmatch a s k
    end.
End Matcher.

(* FindIndex of "^(?:r)" on s: None = no match, Some n = the match is s[0:n] *)
Definition re_find (r : regex) (s : list N) : option N :=
  match rmatch r s (fun t => Some t) with
  | Some t => Some (len_N s - len_N t)
  | None => None
  end.

(* ---- submatches: the same search with the capture registers threaded through ----
   groups are numbered by their opening parenthesis, left to right, from 1; a group inside a
   repetition keeps its last iteration; a group that did not participate is None.
   The state is (input consumed so far, registers). *)
Fixpoint count_groups (r : regex) : N :=
  match r with
  | REps | RClass _ _ => 0
  | RCat a b | RAlt a b => count_groups a + count_groups b
  | RStar a | RPlus a | ROpt a | RRep _ a => count_groups a
  | RGroup a => 1 + count_groups a
  end.

Definition caps := list (N * (N * N)).          (* group number -> (start, end), latest first *)
Fixpoint cap_get (g : N) (c : caps) : option (N * N) :=
  match c with [] => None | (g', se) :: t => if g =? g' then Some se else cap_get g t end.

Section CapMatcher.
  Context {A : Type}.
  Definition ccont := list N -> N -> caps -> option A.

  Fixpoint cstar_loop (step : list N -> N -> caps -> ccont -> option A) (fuel : nat)
           (s : list N) (p : N) (c : caps) (k : ccont) : option A :=
    match fuel with
    | O => k s p c
    | S f =>
      match step s p c (fun t q c' => if Nat.ltb (length t) (length s) then cstar_loop step f t q c' k else None) with
      | Some x => Some x
      | None => k s p c
      end
    end.
  Fixpoint crep_loop (step : list N -> N -> caps -> ccont -> option A) (n : nat)
           (s : list N) (p : N) (c : caps) (k : ccont) : option A :=
    match n with
    | O => k s p c
    | S n' => step s p c (fun t q c' => crep_loop step n' t q c' k)
    end.

  (* [g] = number of the next group to open *)
  Fixpoint rmatch_caps (r : regex) (g : N) (s : list N) (p : N) (c : caps) (k : ccont) {struct r} : option A :=
    match r with
    | REps => k s p c
    | RClass neg rs =>
      match next_rune s with
      | Some (ch, t) => if class_match neg rs ch then k t (p + (len_N s - len_N t)) c else None
      | None => None
      end
    | RCat a b => rmatch_caps a g s p c (fun t q c' => rmatch_caps b (g + count_groups a) t q c' k)
    | RAlt a b => match rmatch_caps a g s p c k with
                  | Some x => Some x
                  | None => rmatch_caps b (g + count_groups a) s p c k
                  end
    | RStar a => cstar_loop (rmatch_caps a g) (S (length s)) s p c k
    | RPlus a => rmatch_caps a g s p c (fun t q c' => cstar_loop (rmatch_caps a g) (S (length t)) t q c' k)
    | ROpt a => match rmatch_caps a g s p c k with Some x => Some x | None => k s p c end
    | RRep n a => crep_loop (rmatch_caps a g) n s p c k
    | RGroup a => rmatch_caps a (g + 1) s p c (fun t q c' => k t q ((g, (p, q)) :: c'))
    end.
End CapMatcher.

(* FindSubmatch of "^(?:r)": the whole match followed by groups 1..n as byte strings *)
Definition re_find_submatch (r : regex) (s : list N) : option (list (option (list N))) :=
  match rmatch_caps r 1 s 0 [] (fun _ q c => Some (q, c)) with
  | None => None
  | Some (q, c) =>
    let piece (se : N * N) := firstn (N.to_nat (snd se - fst se)) (skipn (N.to_nat (fst se)) s) in
    Some (Some (firstn (N.to_nat q) s) ::
          map (fun i => match cap_get (N.of_nat i) c with Some se => Some (piece se) | None => None end)
              (seq 1 (N.to_nat (count_groups r))))
  end.

(* ------------------------------------------------------------------ *)
(* The fixed expressions of text/terminal.                             *)

Definition cls (rs : list (N * N)) : regex := RClass false rs.
Definition chr (c : N) : regex := RClass false [(c, c)].
Fixpoint rstr (l : list N) : regex :=                 (* a literal ASCII string *)
  match l with [] => REps | [c] => chr c | c :: t => RCat (chr c) (rstr t) end.

Definition rs_sign : list (N * N) := [(45, 45); (43, 43)].                    (* [-+] *)
Definition rs_digit : list (N * N) := [(48, 57)].                             (* [0-9] *)
Definition rs_nzdigit : list (N * N) := [(49, 57)].                           (* [1-9] *)
Definition rs_octal : list (N * N) := [(48, 55)].                             (* [0-7] *)
Definition rs_hex : list (N * N) := [(48, 57); (97, 102); (65, 70)].          (* [0-9a-fA-F] *)
Definition rs_xX : list (N * N) := [(120, 120); (88, 88)].                    (* [xX] *)
Definition rs_eE : list (N * N) := [(101, 101); (69, 69)].                    (* [eE] *)
Definition rs_simple_esc : list (N * N) :=                                    (* [abfnrtv'] *)
  [(97, 97); (98, 98); (102, 102); (110, 110); (114, 114); (116, 116); (118, 118); (39, 39)].

(* integer.go:78   [-+]?(?:[1-9][0-9]*|0[xX][0-9a-fA-F]+|0[0-7]* ) -- without the blank *)
Definition re_integer : regex :=
  RCat (ROpt (cls rs_sign))
       (RAlt (RCat (cls rs_nzdigit) (RStar (cls rs_digit)))
       (RAlt (RCat (chr 48) (RCat (cls rs_xX) (RPlus (cls rs_hex))))
             (RCat (chr 48) (RStar (cls rs_octal))))).

(* float.go:78   [-+]?[0-9]*\.[0-9]+(?:[eE][-+]?[0-9]+)? *)
Definition re_exponent : regex := RCat (cls rs_eE) (RCat (ROpt (cls rs_sign)) (RPlus (cls rs_digit))).
Definition re_float : regex :=
  RCat (ROpt (cls rs_sign))
       (RCat (RStar (cls rs_digit))
             (RCat (chr 46) (RCat (RPlus (cls rs_digit)) (ROpt re_exponent)))).

(* char.go:84   \\[abfnrtv']|\\x[0-9a-fA-F]{2,2}|\\u[0-9a-fA-F]{4,4}|\\U[0-9a-fA-F]{8,8}|[^'] *)
Definition re_char : regex :=
  RAlt (RCat (chr 92) (cls rs_simple_esc))
  (RAlt (RCat (chr 92) (RCat (chr 120) (RRep 2 (cls rs_hex))))
  (RAlt (RCat (chr 92) (RCat (chr 117) (RRep 4 (cls rs_hex))))
  (RAlt (RCat (chr 92) (RCat (chr 85) (RRep 8 (cls rs_hex))))
        (RClass true [(39, 39)])))).

(* time_duration.go:81   [-+]?(?:[0-9]+(?:\.[0-9]+)?(?:ns|us|µs|μs|ms|s|m|h))+
   µ = U+00B5 (181), μ = U+03BC (956): one rune each *)
Definition re_unit : regex :=
  RAlt (rstr [110; 115])               (* ns *)
  (RAlt (rstr [117; 115])              (* us *)
  (RAlt (RCat (chr 181) (chr 115))     (* µs *)
  (RAlt (RCat (chr 956) (chr 115))     (* μs *)
  (RAlt (rstr [109; 115])              (* ms *)
  (RAlt (chr 115)                      (* s *)
  (RAlt (chr 109)                      (* m *)
        (chr 104))))))).               (* h *)
Definition re_dur_item : regex :=
  RCat (RPlus (cls rs_digit)) (RCat (ROpt (RCat (chr 46) (RPlus (cls rs_digit)))) re_unit).
Definition re_duration : regex := RCat (ROpt (cls rs_sign)) (RPlus re_dur_item).

(* string.go:100   [^`]+ *)
Definition re_backquote : regex := RPlus (RClass true [(96, 96)]).
