(* ClosedForm.v — C17, stretch goal: the UNBOUNDED closed form of the engine's call count on the
   first family of the property, the directly left-recursive grammar  P -> P b | a  (Cost.fam_direct)
   on the input  a b^(n-1):   calls = (n*n + 9*n + 16) / 2   for EVERY n >= 1, with any fuel >= 5*n + 14.
   Proved symbolically: a lemma describes exactly what the memoized rule returns at each curtailment
   depth (results, curtailing set, error, call-count delta, result cache), by induction on the depth.
   Execution analysis and the list of theorems: notes/ClosedForm.md. *)
From Coq Require Import String List NArith ZArith Bool Arith Lia.
From Parsley Require Import Obs Base Grammar Engine EngineFacts Cost.
Import ListNotations.
Open Scope N_scope.

(* ---- the grammar, as named sub-expressions ---- *)
Definition eA : pexpr := rn 97.
Definition eB : pexpr := rn 98.
Definition eS : pexpr := sq [PRef 0; eB].
Definition eAny : pexpr := PAny [eS; eA].
Definition eM : pexpr := PMemo 1 eAny.
Definition drules : list pexpr := [eM].
Definition qS : seqinfo := {| q_kind := SeqOf; q_ip := INone; q_single := false; q_ps := [PRef 0; eB] |}.
Definition qTop : seqinfo := {| q_kind := SeqOf; q_ip := ISelect 0; q_single := false; q_ps := [PRef 0; PEnd] |}.
Definition dinp (n : nat) : input := mk_input (fm_input fam_direct n) 1.

Lemma drules_eq : fm_rules fam_direct = drules.
Proof. reflexivity. Qed.
Lemma droot_eq : sentence (fm_root fam_direct) = PSeq SeqOf (ISelect 0) false None [PRef 0; PEnd].
Proof. reflexivity. Qed.

(* ---- the nodes the run produces ---- *)
Definition tokSEQ : list N := [83; 69; 81].
Definition a_node : node := NTerm [97] (VRune 97) 1 2.
(* the i-th b (i >= 1) sits at position i + 1 *)
Definition b_node (i : nat) : node := NTerm [98] (VRune 98) (N.of_nat i + 1) (N.of_nat i + 2).
(* the node of  a b^m : left-nested sequences *)
Fixpoint res_node (m : nat) : node :=
  match m with
  | O => a_node
  | S m' => NNonTerm tokSEQ INone [res_node m'; b_node m] 1 (N.of_nat m + 2)
  end.
(* a b^m, a b^(m-1), ..., a *)
Fixpoint down (m : nat) : list node :=
  res_node m :: match m with O => [] | S m' => down m' end.
(* a b^m, ..., a b *)
Fixpoint down1 (m : nat) : list node :=
  match m with O => [] | S m' => res_node m :: down1 m' end.

Lemma node_pos_res m : node_pos (res_node m) = 1.
Proof. destruct m; reflexivity. Qed.
Lemma node_rpos_res m : node_rpos (res_node m) = N.of_nat m + 2.
Proof. destruct m; [reflexivity|]. cbn [res_node node_rpos]. reflexivity. Qed.
Lemma down_down1 m : down m = down1 m ++ [res_node 0].
Proof.
  induction m as [|m IH]; [reflexivity|].
  change (down (S m)) with (res_node (S m) :: down m). rewrite IH. reflexivity.
Qed.
Lemma length_down m : length (down m) = S m.
Proof. induction m as [|m IH]; [reflexivity|]. change (down (S m)) with (res_node (S m) :: down m).
  cbn [length]. rewrite IH. reflexivity. Qed.
Lemma down_match {A} i (X Y : A) : match down i with [] => X | _ :: _ => Y end = Y.
Proof. destruct i; reflexivity. Qed.
Lemma seq_tail_shape st (c : ctx) :
  exists e c'', match s_res st with
                | [] => Ok ([], s_cp st, s_err st, c)
                | _ :: _ => Ok (s_res st, s_cp st, None, set_error c (s_err st))
                end = Ok (s_res st, s_cp st, e, c'') /\ calls c'' = calls c /\ cache c'' = cache c /\ g_bodies c'' = g_bodies c.
Proof. destruct (s_res st); eexists; eexists; (split; [reflexivity|split; [reflexivity|split; reflexivity]]). Qed.
Lemma res_node_not_empty m : match res_node m with NEmpty _ => False | _ => True end.
Proof. destruct m; exact I. Qed.

Lemma append_node_one acc x : match x with NEmpty _ => False | _ => True end -> append_node acc [x] = acc ++ [x].
Proof.
  intros Hx. destruct acc as [|y acc]; [reflexivity|].
  cbn [append_node]. destruct x; try contradiction; reflexivity.
Qed.

(* ---- the left-recursion context with which the rule is called: empty at the top, then {1 -> k} ---- *)
Definition lrc_of (k : N) : intmap := if k =? 0 then [] else [(1, k)].
Lemma map_get_lrc_of k : map_get 1 (lrc_of k) = k.
Proof.
  unfold lrc_of. destruct (k =? 0) eqn:E.
  - apply N.eqb_eq in E. subst k. reflexivity.
  - cbn [map_get]. rewrite N.eqb_refl. reflexivity.
Qed.
Lemma map_inc_lrc_of k : map_inc 1 (lrc_of k) = lrc_of (k + 1).
Proof.
  unfold lrc_of. destruct (k =? 0) eqn:E.
  - apply N.eqb_eq in E. subst k. reflexivity.
  - cbn [map_inc]. rewrite N.eqb_refl.
    assert (H : k + 1 =? 0 = false) by (apply N.eqb_neq; lia). rewrite H. reflexivity.
Qed.
Lemma map_filter_lrc_of k : map_filter [1] (lrc_of k) = lrc_of k.
Proof. unfold lrc_of. destruct (k =? 0); reflexivity. Qed.

(* ---- the input  a b^(n-1)  at offset 1 ---- *)
Lemma dinp_len n : (1 <= n)%nat -> i_len (dinp n) = N.of_nat n.
Proof.
  intros Hn. unfold i_len, dinp, mk_input, len_N. cbn [i_data fm_input fam_direct].
  cbn [length]. rewrite repeat_length. f_equal. lia.
Qed.
Lemma dinp_remaining n : (1 <= n)%nat -> remaining (dinp n) 1 = N.of_nat n.
Proof. intros Hn. unfold remaining. rewrite dinp_len by assumption. cbn [dinp mk_input i_offset]. lia. Qed.
Lemma dinp_byte n i : byte_at (dinp n) (N.of_nat i + 1) = nth_error (97 :: repeat 98 (n - 1)) i.
Proof.
  unfold byte_at, nth_N. cbn [dinp mk_input i_data i_offset fm_input fam_direct].
  f_equal. lia.
Qed.
Lemma dinp_byte_a n : byte_at (dinp n) 1 = Some 97.
Proof. exact (dinp_byte n 0). Qed.
Lemma dinp_byte_b n i : (1 <= i < n)%nat -> byte_at (dinp n) (N.of_nat i + 1) = Some 98.
Proof.
  intros Hi. rewrite dinp_byte. destruct i as [|i]; [lia|]. cbn [nth_error].
  apply nth_error_repeat. lia.
Qed.
Lemma dinp_byte_end n i : (n <= i)%nat -> (1 <= n)%nat -> byte_at (dinp n) (N.of_nat i + 1) = None.
Proof.
  intros Hi Hn. rewrite dinp_byte. apply nth_error_None. cbn [length]. rewrite repeat_length. lia.
Qed.
Lemma dinp_eof n i : (1 <= n)%nat -> is_eof (dinp n) (N.of_nat i + 1) = (n <=? i)%nat.
Proof.
  intros Hn. unfold is_eof. rewrite dinp_len by assumption. cbn [dinp mk_input i_offset].
  destruct (n <=? i)%nat eqn:E.
  - apply Nat.leb_le in E. apply N.leb_le. lia.
  - apply Nat.leb_gt in E. apply N.leb_gt. lia.
Qed.

Lemma is_eof_node_b p r : is_eof_node (NTerm [98] (VRune 98) p r) = false.
Proof. reflexivity. Qed.
Lemma is_eof_node_end p : is_eof_node (NEnd p) = true.
Proof. reflexivity. Qed.

(* the ghost log of Memoize body executions: d nested activations on top of a already active ones, newest first *)
Fixpoint glog (d : nat) (a : N) : list (N * N * N) :=
  match d with O => [] | S d' => glog d' (a + 1) ++ [(1, 1, 1 + a)] end.
Lemma count_active_cons stk : count_active 1 1 ((1, 1) :: stk) = count_active 1 1 stk + 1.
Proof.
  unfold count_active. cbn [filter fst snd]. change (1 =? 1) with true. cbn [andb].
  unfold len_N. cbn [length]. lia.
Qed.
Lemma glog_length d : forall a, length (glog d a) = d.
Proof. induction d as [|d IH]; intros a; [reflexivity|]. cbn [glog]. rewrite app_length, IH. cbn [length]. lia. Qed.
(* activation numbers a+d, ..., a+1 *)
Lemma glog_spec d : forall a, glog d a = map (fun j => (1, 1, a + N.of_nat j)) (rev (seq 1 d)).
Proof.
  induction d as [|d IH]; intros a; [reflexivity|].
  cbn [glog]. rewrite IH.
  replace (seq 1 (S d)) with (1%nat :: map S (seq 1 d)) by (cbn [seq]; rewrite seq_shift; reflexivity).
  cbn [rev]. rewrite map_app. cbn [map].
  rewrite <- map_rev, map_map. f_equal.
  - apply map_ext. intros j. f_equal. lia.
  - f_equal. f_equal. lia.
Qed.

Section Run.
  Variable n : nat.
  Hypothesis Hn : (1 <= n)%nat.
  Local Notation inp := (dinp n).

  Lemma term_hit f c stk lrc pos ch : byte_at inp pos = Some ch ->
    parse inp drules (S f) (PTerm (TRune ch)) c stk lrc pos = Ok ([NTerm [ch] (VRune ch) pos (pos + 1)], [], None, c).
  Proof. intros H. rewrite parse_S. cbn [parse_step term_parse]. rewrite H, N.eqb_refl. reflexivity. Qed.

  Lemma term_miss f c stk lrc pos ch : byte_at inp pos = None ->
    parse inp drules (S f) (PTerm (TRune ch)) c stk lrc pos =
    Ok ([], [], Some (mk_err pos (CNotFound (quote_rune ch))), log_fail c pos (CNotFound (quote_rune ch))).
  Proof. intros H. rewrite parse_S. cbn [parse_step term_parse]. rewrite H. reflexivity. Qed.

  (* the attempt to read a [b] after the result  a b^i  of the inner P, inside the sequence [P; b] *)
  Lemma b_attempt f i c stk cp0 res0 err0 : (2 <= f)%nat -> (i < n)%nat ->
    exists st' c',
      seqp inp drules f qS 1 c stk [] (N.of_nat i + 2) false
           {| s_cp := cp0; s_res := res0; s_err := err0; s_nodes := [res_node i] |} = Ok (false, st', c')
      /\ s_res st' = (if (S i <? n)%nat then res0 ++ [res_node (S i)] else res0)
      /\ s_cp st' = cp0 /\ calls c' = calls c + 1 /\ cache c' = cache c /\ g_bodies c' = g_bodies c.
  Proof.
    intros Hf Hi. destruct f as [|[|f]]; try lia.
    rewrite seqp_S. unfold seq_step. cbn [seq_lookup q_kind q_ps qS nth_error].
    unfold eB, rn. destruct (S i <? n)%nat eqn:E.
    - apply Nat.ltb_lt in E.
      assert (Hb : byte_at inp (N.of_nat i + 2) = Some 98).
      { replace (N.of_nat i + 2) with (N.of_nat (S i) + 1) by lia. apply dinp_byte_b. lia. }
      rewrite (term_hit _ _ _ _ _ _ Hb). cbn [bind]. cbn [alts_loop].
      rewrite seqp_S. unfold seq_step.
      cbn [seq_lookup q_kind q_ps qS nth_error bind seq_lencheck length Nat.eqb s_nodes s_cp s_res s_err].
      rewrite is_eof_node_b. cbn [bind].
      eexists. eexists. split; [reflexivity|]. cbn [s_res s_cp calls cache g_bodies reg_call].
      split; [|split; [|split; [reflexivity|split; reflexivity]]].
      + match goal with |- append_node _ [?x] = _ => assert (HX : x = res_node (S i)) end.
        { cbn [rev app handle_result qS q_single q_kind q_ip seq_token last]. rewrite node_pos_res.
          cbn [node_rpos res_node]. unfold b_node, tokSEQ.
          replace (N.of_nat (S i) + 1) with (N.of_nat i + 2) by lia.
          replace (N.of_nat (S i) + 2) with (N.of_nat i + 2 + 1) by lia. reflexivity. }
        rewrite HX. apply append_node_one. exact I.
      + match goal with |- (if (if ?b then _ else _) then _ else _) = _ => destruct b; reflexivity end.
    - apply Nat.ltb_ge in E.
      assert (Hb : byte_at inp (N.of_nat i + 2) = None).
      { replace (N.of_nat i + 2) with (N.of_nat (S i) + 1) by lia. apply dinp_byte_end; lia. }
      rewrite (term_miss _ _ _ _ _ _ Hb). cbn [bind].
      cbn [seq_lencheck q_kind q_ps qS length Nat.eqb s_nodes s_cp s_res s_err].
      eexists. eexists. split; [reflexivity|]. cbn [s_res s_cp calls cache g_bodies reg_call log_fail].
      split; [reflexivity|]. split; [reflexivity|]. split; [reflexivity|]. split; reflexivity.
  Qed.

  Lemma walk_step (recs : stype) q lrc m i rest st c stk :
    alts_loop recs q 0 stk lrc 1 m [] (res_node i :: rest) st c =
    bind (recs q 1%nat c stk [] (N.of_nat i + 2) false
               {| s_cp := s_cp st; s_res := s_res st; s_err := s_err st; s_nodes := [res_node i] |})
         (fun '(stop, st', c') => if stop then Ok (true, st', c') else alts_loop recs q 0 stk lrc 1 m [] rest st' c').
  Proof.
    cbn [alts_loop]. rewrite node_rpos_res.
    assert (Hc : 1 <? N.of_nat i + 2 = true) by (apply N.ltb_lt; lia). rewrite Hc. reflexivity.
  Qed.

  (* the sequence [P; b] walks over the results  a b^i, ..., a  of the inner P: one call per result *)
  Lemma walk f stk lrc m : (2 <= f)%nat -> forall i st c, (i < n)%nat ->
    exists st' c',
      alts_loop (fun q d c stk l p m st => seqp inp drules f q d c stk l p m st) qS 0 stk lrc 1 m [] (down i) st c
        = Ok (false, st', c')
      /\ s_res st' = s_res st ++ down1 (Nat.min (S i) (n - 1))
      /\ s_cp st' = s_cp st /\ calls c' = calls c + N.of_nat (S i) /\ cache c' = cache c /\ g_bodies c' = g_bodies c.
  Proof.
    intros Hf. induction i as [|i IH]; intros st c Hi.
    - cbn [down]. rewrite walk_step.
      destruct (b_attempt f 0 c stk (s_cp st) (s_res st) (s_err st) Hf Hi) as (st1 & c1 & E1 & R1 & C1 & K1 & H1 & G1).
      rewrite E1. cbn [bind alts_loop]. eexists. eexists. split; [reflexivity|].
      split; [|split; [exact C1|split; [rewrite K1; reflexivity|split; [exact H1|exact G1]]]].
      rewrite R1. destruct (1 <? n)%nat eqn:E.
      + apply Nat.ltb_lt in E. replace (Nat.min 1 (n - 1)) with 1%nat by lia. reflexivity.
      + apply Nat.ltb_ge in E. replace (Nat.min 1 (n - 1)) with 0%nat by lia. cbn [down1]. rewrite app_nil_r. reflexivity.
    - cbn [down]. rewrite walk_step.
      destruct (b_attempt f (S i) c stk (s_cp st) (s_res st) (s_err st) Hf Hi) as (st1 & c1 & E1 & R1 & C1 & K1 & H1 & G1).
      rewrite E1. cbn [bind].
      destruct (IH st1 c1 ltac:(lia)) as (st2 & c2 & E2 & R2 & C2 & K2 & H2 & G2).
      rewrite E2. eexists. eexists. split; [reflexivity|].
      split; [|split; [congruence|split; [rewrite K2, K1; lia|split; congruence]]].
      rewrite R2, R1. replace (Nat.min (S i) (n - 1)) with (S i) by lia.
      destruct (S (S i) <? n)%nat eqn:E.
      + apply Nat.ltb_lt in E. replace (Nat.min (S (S i)) (n - 1)) with (S (S i)) by lia.
        rewrite <- app_assoc. reflexivity.
      + apply Nat.ltb_ge in E. replace (Nat.min (S (S i)) (n - 1)) with (S i) by lia. reflexivity.
  Qed.

  (* ---- what the rule P returns at curtailment depth d (d = n + 2 - counter) ---- *)
  Definition Rres (d : nat) : list node := match d with O => [] | S d' => down (Nat.min d' (n - 1)) end.
  Definition lenR (d : nat) : N := match d with O => 0 | S d' => N.of_nat (S (Nat.min d' (n - 1))) end.
  Fixpoint W (d : nat) : N := match d with O => 0 | S d' => 3 + lenR d' + W d' end.
  Fixpoint centries (d : nat) (k : N) : list ((N * N) * result) :=
    match d with
    | O => []
    | S d' => ((1, 1), {| r_lrc := lrc_of k; r_cp := [1]; r_err := None; r_nodes := Rres d |}) :: centries d' (k + 1)
    end.

  Lemma memo_curtail f c stk k : cache c = [] -> k = N.of_nat n + 2 ->
    parse inp drules (S (S f)) (PRef 0) c stk (lrc_of k) 1 = Ok ([], [1], None, c).
  Proof.
    intros Hc Hk. rewrite parse_S. cbn [parse_step]. change (nth_N drules 0) with (Some eM). cbv beta iota.
    rewrite parse_S. unfold eM at 1. cbn [parse_step]. unfold cache_get. rewrite Hc. cbn [cache_find].
    rewrite dinp_remaining by exact Hn. rewrite map_get_lrc_of.
    assert (H : N.of_nat n + 1 <? k = true) by (apply N.ltb_lt; lia). rewrite H. reflexivity.
  Qed.

  Lemma memo_enter f c stk k : cache c = [] -> k <= N.of_nat n + 1 ->
    parse inp drules (S (S f)) (PRef 0) c stk (lrc_of k) 1 =
    bind (parse inp drules f eAny (log_body c 1 1 (1 + count_active 1 1 stk)) ((1, 1) :: stk) (lrc_of (k + 1)) 1)
         (fun '(nodes, cp, err, c') =>
            Ok (nodes, cp, err, cache_save c' 1 1 {| r_lrc := map_filter cp (lrc_of k); r_cp := cp; r_err := err; r_nodes := nodes |})).
  Proof.
    intros Hc Hk. rewrite parse_S. cbn [parse_step]. change (nth_N drules 0) with (Some eM). cbv beta iota.
    rewrite parse_S. unfold eM at 1. cbn [parse_step]. unfold cache_get. rewrite Hc. cbn [cache_find].
    rewrite dinp_remaining by exact Hn. rewrite map_get_lrc_of.
    assert (H : N.of_nat n + 1 <? k = false) by (apply N.ltb_ge; lia). rewrite H.
    rewrite map_inc_lrc_of. reflexivity.
  Qed.

  Lemma direct_level : forall d k f c stk, N.of_nat d + k = N.of_nat n + 2 -> (5 * d + 2 <= f)%nat -> cache c = [] ->
    exists c', parse inp drules f (PRef 0) c stk (lrc_of k) 1 = Ok (Rres d, [1], None, c')
      /\ calls c' = calls c + W d /\ cache c' = centries d k
      /\ g_bodies c' = glog d (count_active 1 1 stk) ++ g_bodies c.
  Proof.
    induction d as [|d IH]; intros k f c stk Hk Hf Hc.
    - destruct f as [|[|f]]; try lia. rewrite memo_curtail by (assumption || lia).
      exists c. split; [reflexivity|]. split; [cbn [W]; lia|split; [exact Hc|reflexivity]].
    - destruct f as [|[|[|[|[|f]]]]]; try lia.
      rewrite memo_enter by (assumption || lia).
      rewrite parse_S. unfold eAny at 1. cbn [parse_step any_loop].
      rewrite parse_S. unfold eS at 1, sq. cbn [parse_step].
      change {| q_kind := SeqOf; q_ip := INone; q_single := false; q_ps := [PRef 0; eB] |} with qS.
      rewrite seqp_S. unfold seq_step. cbn [seq_lookup q_kind q_ps qS nth_error].
      destruct (IH (k + 1) f (reg_call (reg_call (log_body c 1 1 (1 + count_active 1 1 stk)))) ((1, 1) :: stk)
                   ltac:(lia) ltac:(lia) Hc) as (c2 & E2 & K2 & H2 & G2).
      rewrite E2. cbn [bind]. cbn [calls reg_call log_body] in K2.
      cbn [g_bodies reg_call log_body] in G2. rewrite count_active_cons in G2.
      cbn [s_cp s_res s_err s_nodes keep_max].
      change (set_union [] [1]) with [1].
      destruct d as [|d'].
      + (* the inner call was curtailed *)
        cbn [Rres seq_lencheck q_kind q_ps qS length Nat.eqb bind s_res s_cp s_err alt_err any_loop].
        unfold eA, rn. rewrite (term_hit _ _ _ _ _ _ (dinp_byte_a n)).
        cbn [bind alt_err append_node].
        change (set_union (set_union [] [1]) []) with [1]. rewrite map_filter_lrc_of.
        eexists. split; [reflexivity|]. cbn [calls cache g_bodies cache_save set_error reg_call].
        split; [rewrite K2; cbn [W lenR]; lia | split; [rewrite H2; reflexivity | rewrite G2; reflexivity]].
      + (* the inner call returned  a b^i, ..., a  with i = min d' (n-1) *)
        cbn [Rres]. set (i := Nat.min d' (n - 1)). 
        assert (Hi : (i < n)%nat) by (unfold i; lia).
        assert (Hf2 : (2 <= f)%nat) by lia.
        rewrite down_match.
        match goal with |- context[alts_loop _ qS 0 ?stk ?lrc 1 ?m [] (down i) ?st ?c] =>
          destruct (walk f stk lrc m Hf2 i st c Hi) as (st3 & c3 & E3 & R3 & C3 & K3 & H3 & G3) end.
        rewrite E3. cbn [bind]. cbn [s_res s_cp] in R3, C3. cbn [app] in R3.
        destruct (seq_tail_shape st3 c3) as (e4 & c4 & E4 & K4 & H4 & G4). rewrite E4. cbn [bind].
        destruct (alt_err 1 None None e4) as [err' nf'].
        unfold eA, rn. rewrite (term_hit _ _ _ _ _ _ (dinp_byte_a n)). cbn [bind].
        destruct (alt_err 1 err' nf' None) as [err'' nf''].
        assert (HR : append_node (append_node [] (s_res st3)) [NTerm [97] (VRune 97) 1 (1 + 1)]
                     = down (Nat.min (S d') (n - 1))).
        { cbn [append_node]. change (NTerm [97] (VRune 97) 1 (1 + 1)) with (res_node 0).
          rewrite append_node_one by exact I. rewrite R3, down_down1.
          replace (Nat.min (S i) (n - 1)) with (Nat.min (S d') (n - 1)) by (unfold i; lia). reflexivity. }
        rewrite HR, down_match. cbn [bind]. rewrite C3.
        change (set_union (set_union [] [1]) []) with [1]. rewrite map_filter_lrc_of.
        eexists. split; [reflexivity|]. cbn [calls cache g_bodies cache_save set_error reg_call].
        split; [|split].
        * rewrite K4, K3, K2. change (W (S (S d'))) with (3 + lenR (S d') + W (S d')).
          cbn [lenR]. fold i. lia.
        * rewrite H4, H3, H2. reflexivity.
        * rewrite G4, G3, G2. change (glog (S (S d')) (count_active 1 1 stk))
            with (glog (S d') (count_active 1 1 stk + 1) ++ [(1, 1, 1 + count_active 1 1 stk)]).
          rewrite <- app_assoc. reflexivity.
  Qed.

  Lemma down_cons m : down m = res_node m :: match m with O => [] | S m' => down m' end.
  Proof. destruct m; reflexivity. Qed.

  (* the node of the whole sentence *)
  Definition top_node : node :=
    NNonTerm tokSEQ (ISelect 0) [res_node (n - 1); NEnd (N.of_nat n + 1)] 1 (N.of_nat n + 1).

  Lemma top_run f : (5 * n + 14 <= f)%nat ->
    exists c, parse_top inp drules f (sentence (PRef 0)) = Ok (TopNode [top_node] c)
              /\ calls c = 2 + W (S (S n)) /\ cache c = centries (S (S n)) 0 /\ g_bodies c = glog (S (S n)) 0.
  Proof.
    intros Hf. destruct f as [|[|[|[|f]]]]; try lia.
    unfold parse_top, run. change (i_offset (dinp n)) with 1. unfold sentence.
    rewrite parse_S. cbn [parse_step].
    change {| q_kind := SeqOf; q_ip := ISelect 0; q_single := false; q_ps := [PRef 0; PEnd] |} with qTop.
    rewrite seqp_S. unfold seq_step. cbn [seq_lookup q_kind q_ps qTop nth_error].
    destruct (direct_level (S (S n)) 0 (S (S f)) (reg_call ctx0) [] ltac:(lia) ltac:(lia) eq_refl) as (c2 & E2 & K2 & H2 & G2).
    change (count_active 1 1 []) with 0 in G2. cbn [g_bodies reg_call ctx0] in G2. rewrite app_nil_r in G2.
    change (lrc_of 0) with (@nil (N * N)) in E2. rewrite E2. cbn [bind]. cbn [calls reg_call ctx0] in K2.
    cbn [Rres]. replace (Nat.min (S n) (n - 1)) with (n - 1)%nat by lia. set (m := (n - 1)%nat).
    rewrite (down_cons m). cbn [s_cp s_res s_err s_nodes keep_max]. rewrite walk_step.
    cbn [s_cp s_res s_err s_nodes]. change (set_union [] [1]) with [1].
    rewrite seqp_S. unfold seq_step. cbn [seq_lookup q_kind q_ps qTop nth_error].
    rewrite parse_S. cbn [parse_step].
    assert (He : is_eof inp (N.of_nat m + 2) = true).
    { replace (N.of_nat m + 2) with (N.of_nat (S m) + 1) by lia. rewrite dinp_eof by exact Hn.
      apply Nat.leb_le. unfold m. lia. }
    rewrite He. cbn [bind alts_loop].
    rewrite seqp_S. unfold seq_step.
    cbn [seq_lookup q_kind q_ps qTop nth_error bind seq_lencheck length Nat.eqb s_nodes s_cp s_res s_err].
    rewrite is_eof_node_end. cbn [bind append_node s_res s_cp].
    assert (HX : handle_result qTop (node_rpos (NEnd (N.of_nat m + 2))) (rev [NEnd (N.of_nat m + 2); res_node m])
                 = top_node).
    { cbn [rev app handle_result qTop q_single q_kind q_ip seq_token last]. rewrite node_pos_res.
      cbn [node_rpos]. unfold top_node. fold m. replace (N.of_nat n + 1) with (N.of_nat m + 2) by (unfold m; lia).
      reflexivity. }
    rewrite HX. eexists. split; [reflexivity|]. cbn [calls cache g_bodies set_error reg_call].
    split; [rewrite K2; lia|split; [exact H2|exact G2]].
  Qed.

  (* ---- arithmetic: the sum of the per-level work ---- *)
  Lemma lenR_small d : (d <= n)%nat -> lenR d = N.of_nat d.
  Proof. intros Hd. destruct d as [|d']; [reflexivity|]. cbn [lenR]. f_equal. lia. Qed.
  Lemma W_small d : (d <= n + 1)%nat -> 2 * W d + N.of_nat d = 6 * N.of_nat d + N.of_nat d * N.of_nat d.
  Proof.
    induction d as [|d IH]; intros Hd; [reflexivity|].
    change (W (S d)) with (3 + lenR d + W d). rewrite lenR_small by lia.
    specialize (IH ltac:(lia)). rewrite Nat2N.inj_succ. lia.
  Qed.
  Lemma W_total : 2 * (2 + W (S (S n))) = N.of_nat n * N.of_nat n + 9 * N.of_nat n + 16.
  Proof.
    change (W (S (S n))) with (3 + lenR (S n) + W (S n)).
    assert (HL : lenR (S n) = N.of_nat n) by (cbn [lenR]; f_equal; lia). rewrite HL.
    pose proof (W_small (S n) ltac:(lia)) as H. rewrite Nat2N.inj_succ in H. lia.
  Qed.
End Run.

(* ---- the closed form ---- *)
Definition closed_form (n : nat) : N := (N.of_nat n * N.of_nat n + 9 * N.of_nat n + 16) / 2.

Lemma closed_form_unique n x : 2 * x = N.of_nat n * N.of_nat n + 9 * N.of_nat n + 16 -> x = closed_form n.
Proof. intros H. unfold closed_form. rewrite <- H. rewrite N.mul_comm. symmetry. apply N.div_mul. discriminate. Qed.

(* Context.CallCount after parsley.Parse(Sentence(P)) on  a b^(n-1), with the given fuel *)
Definition direct_calls (fuel n : nat) : option N :=
  match parse_top (dinp n) (fm_rules fam_direct) fuel (sentence (fm_root fam_direct)) with
  | Ok (TopNode _ c) => Some (calls c)
  | _ => None
  end.

(* THE RUN, for every n >= 1 and every fuel >= 5 n + 14: the parse succeeds with the one node of  a b^(n-1) EOF,
   the call count is exactly (n^2 + 9 n + 16) / 2, and the result cache holds exactly the n + 2 entries
   saved by the n + 2 executions of the rule's body (none of them was ever read). *)
Theorem direct_run_closed_form : forall n fuel, (1 <= n)%nat -> (5 * n + 14 <= fuel)%nat ->
  exists c, parse_top (dinp n) (fm_rules fam_direct) fuel (sentence (fm_root fam_direct)) = Ok (TopNode [top_node n] c)
            /\ calls c = closed_form n
            /\ cache c = centries n (S (S n)) 0
            /\ g_bodies c = glog (S (S n)) 0.
Proof.
  intros n fuel Hn Hf. destruct (top_run n Hn fuel Hf) as (c & E & K & H & G).
  exists c. split; [exact E|]. split; [|split; [exact H|exact G]].
  apply closed_form_unique. rewrite K. apply W_total. exact Hn.
Qed.

Theorem direct_calls_closed_form : forall n fuel, (1 <= n)%nat -> (5 * n + 14 <= fuel)%nat ->
  direct_calls fuel n = Some (closed_form n).
Proof.
  intros n fuel Hn Hf. unfold direct_calls.
  destruct (direct_run_closed_form n fuel Hn Hf) as (c & E & K & _). rewrite E. rewrite K. reflexivity.
Qed.

(* the same for Cost.calls_of, whose fuel is the constant COST_FUEL = 20000: all n with 5 n + 14 <= 20000 *)
Theorem calls_of_closed_form : forall n, (1 <= n)%nat -> N.of_nat n <= 3997 ->
  calls_of fam_direct n = Some (closed_form n).
Proof.
  intros n Hn Hmax.
  assert (Hf : (5 * n + 14 <= COST_FUEL)%nat) by (unfold COST_FUEL; lia).
  destruct (direct_run_closed_form n COST_FUEL Hn Hf) as (c & E & K & _).
  unfold calls_of. cbv zeta. change (mk_input (fm_input fam_direct n) 1) with (dinp n).
  rewrite E, K. reflexivity.
Qed.

(* ---- consequences: quadratic growth at ALL input lengths ---- *)
Lemma closed_form_double n : 2 * closed_form n = N.of_nat n * N.of_nat n + 9 * N.of_nat n + 16.
Proof.
  assert (H : exists q, N.of_nat n * N.of_nat n + 9 * N.of_nat n + 16 = 2 * q).
  { induction n as [|n [q Hq]]; [exists 8; reflexivity|].
    exists (q + N.of_nat n + 5). rewrite Nat2N.inj_succ. lia. }
  destruct H as [q Hq]. rewrite <- (closed_form_unique n q); [symmetry; exact Hq|symmetry; exact Hq].
Qed.

Lemma closed_form_doubling n : closed_form (2 * n) <= 4 * closed_form n.
Proof.
  pose proof (closed_form_double n) as H1. pose proof (closed_form_double (2 * n)) as H2.
  rewrite Nat2N.inj_mul in H2. change (N.of_nat 2) with 2 in H2. nia.
Qed.

Lemma closed_form_quadratic n : (1 <= n)%nat -> closed_form n <= 4 * (N.of_nat n + 1) ^ 2.
Proof.
  intros Hn. pose proof (closed_form_double n) as H1. rewrite N.pow_2_r. nia.
Qed.

(* C17 for the first family, UNBOUNDED: doubling the input at most quadruples the work, and the work is at most
   4 (n+1)^2, for every n >= 1 *)
Theorem direct_growth_unbounded : forall n f1 f2, (1 <= n)%nat -> (5 * n + 14 <= f1)%nat -> (10 * n + 14 <= f2)%nat ->
  exists a b, direct_calls f1 n = Some a /\ direct_calls f2 (2 * n) = Some b /\
              b <= 4 * a /\ a <= 4 * (N.of_nat n + 1) ^ 2 /\ b <= 4 * (2 * N.of_nat n + 1) ^ 2.
Proof.
  intros n f1 f2 Hn H1 H2. exists (closed_form n), (closed_form (2 * n)).
  split; [apply direct_calls_closed_form; assumption|].
  split; [apply direct_calls_closed_form; lia|].
  split; [apply closed_form_doubling|].
  split; [apply closed_form_quadratic; exact Hn|].
  pose proof (closed_form_quadratic (2 * n) ltac:(lia)) as H. rewrite Nat2N.inj_mul in H. exact H.
Qed.

(* ---- non-vacuity: both sides computed by the kernel ---- *)
Example closed_form_20 : direct_calls (5 * 20 + 14) 20 = Some 298 /\ closed_form 20 = 298 /\ calls_of fam_direct 20 = Some 298.
Proof. vm_compute. repeat split; reflexivity. Qed.
Example closed_form_320 : direct_calls (5 * 320 + 14) 320 = Some 52648 /\ closed_form 320 = 52648.
Proof. vm_compute. split; reflexivity. Qed.
Example closed_form_small : map (fun n => direct_calls (5 * n + 14) n) [1; 2; 3; 4; 5]%nat = map (fun n => Some (closed_form n)) [1; 2; 3; 4; 5]%nat.
Proof. vm_compute. reflexivity. Qed.
(* the instance of the theorem at n = 20 is the number pinned in /repo/main_test.go *)
Example calls_of_20 : calls_of fam_direct 20 = Some 298.
Proof. exact (calls_of_closed_form 20 ltac:(lia) ltac:(lia)). Qed.
(* the fuel bound is tight: one unit less and the run does not finish *)
Example fuel_tight_20 : parse_top (dinp 20) (fm_rules fam_direct) (5 * 20 + 13) (sentence (fm_root fam_direct)) = OutOfFuel.
Proof. vm_compute. reflexivity. Qed.
(* n = 0 is outside the domain: the input is then "a" as for n = 1 (13 calls, the formula would give 8) *)
Example closed_form_0 : direct_calls 100 0 = Some 13 /\ closed_form 0 = 8.
Proof. vm_compute. split; reflexivity. Qed.

Lemma centries_length n d : forall k, length (centries n d k) = d.
Proof. induction d as [|d IH]; intros k; [reflexivity|]. cbn [centries length]. rewrite IH. reflexivity. Qed.

(* the whole final state at n = 20, computed by the kernel and compared with the symbolic description *)
Example direct_run_20 :
  match parse_top (dinp 20) (fm_rules fam_direct) (5 * 20 + 14) (sentence (fm_root fam_direct)) with
  | Ok (TopNode ns c) => ns = [top_node 20] /\ calls c = 298 /\ cache c = centries 20 22 0 /\ g_bodies c = glog 22 0
  | _ => False
  end.
Proof. vm_compute. repeat split; reflexivity. Qed.
(* the level lemma at n = 3, depth 2 (counter 3): results  a b, a ; 7 calls; two cache entries *)
Example level_3_2 : exists c', parse (dinp 3) drules 12 (PRef 0) ctx0 [] (lrc_of 3) 1 = Ok ([res_node 1; res_node 0], [1], None, c')
                               /\ calls c' = 7 /\ length (cache c') = 2%nat.
Proof.
  destruct (direct_level 3 ltac:(lia) 2 3 12 ctx0 [] eq_refl ltac:(lia) eq_refl) as (c' & E & K & H & _).
  exists c'. split; [exact E|]. split; [exact K|]. rewrite H. reflexivity.
Qed.

Print Assumptions direct_run_closed_form.
Print Assumptions direct_growth_unbounded.
