(* Json.v — C16, engine side: the example grammar of /repo/examples/json/json/parser.go as a
   [pexpr] value, its evaluation by the engine model (Top.evaluate), the conversion between the
   specification's values (JsonSpec.value) and the engine's (Top.value), and the harness whose
   prediction is the ENGINE MODEL's.  No proofs here (JsonProofs.v).

   The grammar has NO Memoize: [&value] is a plain reference to a rule whose body is the named
   Choice.  The same term is printed for the Go driver (lib/c16.py checks that the text in
   harness/c16.go is this term), which builds the real combinators from it with harness/eng.go's
   builder and checks that they behave as json.NewParser(). *)
From Coq Require Import String List NArith ZArith Bool.
From Parsley Require Import Obs Base FileSet Literals JsonSpec.
From Parsley Require Import Grammar Engine Top.
Import ListNotations.
Open Scope N_scope.

(* ================================================================== *)
(* 1. The grammar                                                      *)

Definition n_value : list N := [118; 97; 108; 117; 101].                         (* "value" *)
Definition j_string : pexpr := PTerm (TLit (LString false)).                    (* terminal.String("string", false) *)
Definition j_float : pexpr := PTerm (TLit LFloat).                              (* terminal.Float("number") *)
Definition j_integer : pexpr := PTerm (TLit LInteger).                          (* terminal.Integer("integer") *)
Definition j_bool : pexpr := PTerm (TLit (LBool w_true w_false)).               (* terminal.Bool("boolean", "true", "false") *)
Definition j_null : pexpr := PTerm (TLit (LNil w_null)).                        (* terminal.Nil("null", "null") *)
Definition j_comma : pexpr := PLeftTrim WsSpaces (PTerm (TRune 44)).            (* text.LeftTrim(terminal.Rune(','), text.WsSpaces) *)
Definition j_elem : pexpr := PLeftTrim WsSpacesNl (PRef 0).                     (* text.LeftTrim(&value, text.WsSpacesNl) *)
Definition j_elems : pexpr := PSeq (SSepBy true) IArray false None [j_elem; j_comma].
Definition j_array : pexpr :=
  PSeq SeqOf (ISelect 1) false None [PTerm (TRune 91); j_elems; PLeftTrim WsSpacesNl (PTerm (TRune 93))].
Definition j_member : pexpr :=                                                  (* keyValue: no interpreter *)
  PSeq SeqOf INone false None [j_string; PLeftTrim WsSpaces (PTerm (TRune 58)); j_elem].
Definition j_members : pexpr := PSeq (SSepBy true) IObject false None [PLeftTrim WsSpacesNl j_member; j_comma].
Definition j_object : pexpr :=
  PSeq SeqOf (ISelect 1) false None [PTerm (TRune 123); j_members; PLeftTrim WsSpacesNl (PTerm (TRune 125))].
Definition j_value : pexpr :=                                                   (* Choice(...).Name("value") *)
  PName n_value (PChoice [j_string; j_float; j_integer; j_array; j_object; j_bool; j_null]).

Definition json_rules : list pexpr := [j_value].
(* combinator.Sentence(text.Trim(json.NewParser())) *)
Definition json_root : pexpr := sentence (PRightTrim WsSpacesNl (PLeftTrim WsSpacesNl (PRef 0))).

(* text.NewFile + parsley.NewFileSet: normalised bytes at base offset 1; [cf] stands for strconv.ParseFloat *)
Definition json_input (cf : list N -> option N) (raw : list N) : input :=
  {| i_data := normalize raw; i_offset := 1; i_cf := cf; i_cd := fun _ => None |}.
(* enough for every document met by the check (JsonProofs.v proves that SOME fuel is enough for
   every document and that every fuel gives either OutOfFuel or that answer) *)
Definition json_fuel (raw : list N) : nat := 40 + 12 * length raw.
Definition json_eval_fuel (cf : list N -> option N) (fuel : nat) (raw : list N) : outcome evaluated :=
  evaluate (json_input cf raw) json_rules fuel json_root.
Definition json_eval (cf : list N -> option N) (raw : list N) : outcome evaluated :=
  json_eval_fuel cf (json_fuel raw) raw.

(* ================================================================== *)
(* 2. Values                                                           *)

(* the engine value of a specification value; a decimal becomes the float64 [cf] gives for its lexeme;
   an object becomes Go's map built by interpreter.Object (first insertion fixes the place, a later
   duplicate overwrites the value) *)
Fixpoint to_engine (cf : list N -> option N) (v : JsonSpec.value) : Top.value :=
  match v with
  | JNull => ValLit VNil
  | JBool b => ValLit (VBool b)
  | JInt z => ValLit (VInt z)
  | JNum lex => ValLit (VFloat (match cf lex with Some b => b | None => 0 end))
  | JStr s => ValLit (VStr s)
  | JArr l => ValList (map (to_engine cf) l)
  | JObj kvs =>
    ValMap (fold_left (fun acc kv => map_put (fst kv) (snd kv) acc)
                      (map (fun kv => match kv with (k, v') => (k, to_engine cf v') end) kvs) [])
  end.

(* a converter is faithful to ParseFloat's only failure on a Float lexeme: the range error *)
Definition cf_ok (cf : list N -> option N) : Prop :=
  forall lex, cf lex = None <-> float_overflow lex = true.

(* ================================================================== *)
(* 3. Harness: the prediction is the engine model's                     *)

(* The check's converter keeps the LEXEME (encoded as a number: 1 followed by the bytes in base 256),
   so that the prediction can be compared with Go's float64 through the conversion table the driver
   prints, exactly as the specification's decimals are. *)
Definition bytes_code (l : list N) : N := fold_left (fun a c => a * 256 + c) l 1.
Fixpoint code_bytes_fuel (fuel : nat) (n : N) (acc : list N) : list N :=
  match fuel with
  | O => acc
  | S k => if n <=? 1 then acc else code_bytes_fuel k (n / 256) (n mod 256 :: acc)
  end.
Definition code_bytes (n : N) : list N := code_bytes_fuel (S (N.to_nat (N.log2 n))) n [].
Definition cf_lexeme (lex : list N) : option N := if float_overflow lex then None else Some (bytes_code lex).

Fixpoint obs_engine_value (v : Top.value) : obs :=
  match v with
  | ValNil => OT "Nil" []
  | ValLit lv =>
    match lv with
    | VNil => OT "Null" []
    | VBool b => OT "Bool" [OB b]
    | VInt z => OT "Int" [OZ z]
    | VFloat n => OT "Num" [OS (code_bytes n)]
    | VStr s => OT "Str" [OS s]
    | VRune c => OT "Rune" [ON c]
    | VChar c => OT "Char" [ON c]
    | VDur z => OT "Dur" [OZ z]
    end
  | ValList l => OT "Arr" (map obs_engine_value l)
  | ValMap kvs => OT "Obj" (canon_members (map (fun kv => match kv with (k, v') => (k, obs_engine_value v') end) kvs))
  end.
Definition obs_evaluated (o : outcome evaluated) : obs :=
  match o with
  | Ok (EvValue v) => OT "Val" [obs_engine_value v]
  | Ok (EvParseErr _) | Ok (EvEvalErr _) => OT "Err" []
  | Panic => opanic
  | OutOfFuel => OT "OutOfFuel" []
  end.

Definition c16_model (c : c16_case) : obs :=
  match c with C16 raw => OT "C16" [obs_evaluated (json_eval cf_lexeme raw)] end.

(* H_expected: the ENGINE MODEL evaluating the grammar term (compared with parsley's result as in
   phase 1: value, or error/error; a panic or running out of fuel never agrees);
   H_oracle: the property against the SPECIFICATION (JsonSpec.c16_oracle), plus: the parser the driver
   built from the grammar term behaves exactly as json.NewParser() (same value or same error text). *)
Definition c16_engine_oracle (c : c16_case) (o : obs) : bool :=
  c16_oracle c o &&
  match o with
  | OT _ [p; _; _; b] => obs_eqb p b
  | _ => false
  end.
Definition c16_engine_harness : harness :=
  {| H_case := c16_case; H_expected := c16_model; H_agree := c16_agree; H_oracle := c16_engine_oracle |}.
