(* DataProofs.v — the heap model of IntSet/IntMap (DataHeap.v) simulates the abstract
   sets and maps for every history, every growth function and every map iteration order;
   persistence; the pre-fix Insert refuted (C15).

   1. lists as arrays (upd, window, arr_write)          5. IntSet on the heap (insertValue, NewIntSet,
   2. the specification: sets (asc, set_insert, ...,       Insert, Union's loop = merge)
      sort.SearchInts = cnt_lt, merge = set_union)      6. IntMap on the heap (clone in any iteration
   3. the specification: maps (extensionality,             order, Inc, Filter, Keys)
      fold_set, filter_fold)                            7. histories: invariant, one-step simulation
   4. the heap: frames [fr] and the points-to              [step_sim], runs, the C15 theorems
      predicate [is_slice]; append; insert_at           8. the abstract operations are the mathematical ones

   Proof idea of persistence: every function of the package, started in a heap with [ba] arrays
   and [bm] maps, satisfies [fr ba bm h h'] — it writes only to arrays with id >= ba and maps with
   id >= bm, i.e. to objects it allocated itself (Insert's insertValue appends IN PLACE, but into
   the array Insert has just made; Union may RETURN an operand, but writes to neither).  Values
   read only objects that existed when they were returned, so they never change. *)
From Coq Require Import String List NArith ZArith Bool Arith Lia Permutation.
From Parsley Require Import Obs Base GoHeap DataHeap.
Import ListNotations.
Local Open Scope nat_scope.

(* ================================================================== *)
(* 1. Lists as arrays *)

Lemma upd_length {A} (l : list A) n x : length (upd l n x) = length l.
Proof. revert n; induction l as [|y t IH]; intros [|n]; cbn; auto. Qed.

Lemma nth_error_upd_same {A} (l : list A) n x : n < length l -> nth_error (upd l n x) n = Some x.
Proof.
  revert n; induction l as [|y t IH]; intros [|n] H; cbn in *; try lia; auto.
  apply IH; lia.
Qed.

Lemma nth_error_upd_other {A} (l : list A) n m x : n <> m -> nth_error (upd l n x) m = nth_error l m.
Proof.
  revert n m; induction l as [|y t IH]; intros [|n] [|m] H; cbn; auto; try congruence.
Qed.

Lemma Forall_upd {A} (P : A -> Prop) l n x : Forall P l -> P x -> Forall P (upd l n x).
Proof.
  intros H Hx; revert n; induction H as [|y t Hy Ht IH]; intros [|n]; cbn; constructor; auto.
Qed.

Lemma window_mid pre w post off n :
  length pre = off -> length w = n -> window (pre ++ w ++ post) off n = w.
Proof.
  intros <- <-. unfold window. rewrite skipn_app, skipn_all, Nat.sub_diag. cbn [skipn app].
  rewrite firstn_app, firstn_all, Nat.sub_diag. cbn. apply app_nil_r.
Qed.

Lemma write_mid pre x post pos vals :
  length pre = pos -> length x = length vals ->
  arr_write (pre ++ x ++ post) pos vals = pre ++ vals ++ post.
Proof.
  intros <- Hx. unfold arr_write.
  rewrite firstn_app, firstn_all, Nat.sub_diag. cbn [firstn]. rewrite app_nil_r.
  rewrite skipn_app. rewrite (skipn_all2 pre) by lia. cbn [app].
  replace (length pre + length vals - length pre) with (length x) by lia.
  rewrite skipn_app, skipn_all, Nat.sub_diag. reflexivity.
Qed.

Lemma snoc_cons {A} (l : list A) d : exists x y, l ++ [d] = x :: y /\ length y = length l.
Proof.
  destruct l as [|a t]; [exists d, []; auto|].
  exists a, (t ++ [d]). split; [reflexivity|]. rewrite app_length; cbn; lia.
Qed.

Lemma nth_error_mid {A} (pre : list A) x post : nth_error (pre ++ x :: post) (length pre) = Some x.
Proof. rewrite nth_error_app2, Nat.sub_diag by lia. reflexivity. Qed.

Lemma split_at {A} (l : list A) n : n <= length l ->
  exists l1 l2, l = l1 ++ l2 /\ length l1 = n /\ l1 = firstn n l /\ l2 = skipn n l.
Proof.
  intros H. exists (firstn n l), (skipn n l). rewrite firstn_skipn, firstn_length. repeat split; lia.
Qed.

(* ================================================================== *)
(* 2. The specification: sets *)

(* strictly ascending *)
Fixpoint asc (l : list Z) : Prop :=
  match l with [] => True | x :: t => (forall y, In y t -> (x < y)%Z) /\ asc t end.

Lemma set_insert_in v l x : In x (set_insert v l) <-> x = v \/ In x l.
Proof.
  induction l as [|y t IH]; cbn [set_insert].
  - cbn; intuition.
  - destruct (v <? y)%Z eqn:E1; [cbn; intuition|].
    destruct (v =? y)%Z eqn:E2.
    + apply Z.eqb_eq in E2; subst. cbn; intuition.
    + cbn [In]. rewrite IH. intuition.
Qed.

Lemma set_insert_asc v l : asc l -> asc (set_insert v l).
Proof.
  induction l as [|y t IH]; cbn [set_insert]; intros H.
  - cbn; intuition.
  - destruct H as [Hy Ht].
    destruct (v <? y)%Z eqn:E1.
    + apply Z.ltb_lt in E1. cbn [asc]. split; [|split; auto].
      intros z [<-|Hz]; [lia|]. specialize (Hy z Hz); lia.
    + destruct (v =? y)%Z eqn:E2; [cbn [asc]; auto|].
      apply Z.ltb_ge in E1. apply Z.eqb_neq in E2.
      cbn [asc]. split; [|auto].
      intros z Hz. apply set_insert_in in Hz. destruct Hz as [->|Hz]; [lia|auto].
Qed.

Lemma asc_ext a : forall b, asc a -> asc b -> (forall x, In x a <-> In x b) -> a = b.
Proof.
  induction a as [|x a IH]; intros [|y b] Ha Hb H.
  - reflexivity.
  - exfalso. apply (proj2 (H y)). left; reflexivity.
  - exfalso. apply (proj1 (H x)). left; reflexivity.
  - destruct Ha as [Hx Ha], Hb as [Hy Hb].
    assert (x = y).
    { destruct (proj1 (H x) (or_introl eq_refl)) as [E|Hin]; [auto|].
      destruct (proj2 (H y) (or_introl eq_refl)) as [E|Hin']; [auto|].
      specialize (Hx _ Hin'). specialize (Hy _ Hin). lia. }
    subst y. f_equal. apply IH; auto.
    intros z; split; intros Hz.
    + destruct (proj1 (H z) (or_intror Hz)) as [E|]; [|auto]. subst z. specialize (Hx _ Hz); lia.
    + destruct (proj2 (H z) (or_intror Hz)) as [E|]; [|auto]. subst z. specialize (Hy _ Hz); lia.
Qed.

Lemma fold_insert_in b : forall a x,
  In x (fold_left (fun acc v => set_insert v acc) b a) <-> In x a \/ In x b.
Proof.
  induction b as [|y b IH]; intros a x; cbn [fold_left].
  - cbn; intuition.
  - rewrite IH, set_insert_in. cbn [In]. intuition.
Qed.
Lemma fold_insert_asc b : forall a, asc a -> asc (fold_left (fun acc v => set_insert v acc) b a).
Proof. induction b as [|y b IH]; intros a H; cbn [fold_left]; auto using set_insert_asc. Qed.

Lemma set_union_in a b x : In x (set_union a b) <-> In x a \/ In x b.
Proof. apply fold_insert_in. Qed.
Lemma set_union_asc a b : asc a -> asc (set_union a b).
Proof. apply fold_insert_asc. Qed.
Lemma set_of_list_in vals x : In x (set_of_list vals) <-> In x vals.
Proof. unfold set_of_list. rewrite fold_insert_in. cbn; intuition. Qed.
Lemma set_of_list_asc vals : asc (set_of_list vals).
Proof. apply fold_insert_asc. exact I. Qed.
Lemma set_mem_in v l : set_mem v l = true <-> In v l.
Proof.
  unfold set_mem. rewrite existsb_exists. split.
  - intros [x [Hx E]]. apply Z.eqb_eq in E. subst; auto.
  - intros H. exists v. split; [auto|apply Z.eqb_refl].
Qed.

(* number of leading elements below x: on ascending lists, what sort.SearchInts returns *)
Fixpoint cnt_lt (x : Z) (l : list Z) : nat :=
  match l with [] => 0 | y :: t => if (y <? x)%Z then S (cnt_lt x t) else 0 end.

Lemma cnt_lt_le x l : cnt_lt x l <= length l.
Proof. induction l as [|y t IH]; cbn; [lia|]. destruct (y <? x)%Z; lia. Qed.

Lemma cnt_lt_below x l : forall k v, k < cnt_lt x l -> nth_error l k = Some v -> (v < x)%Z.
Proof.
  induction l as [|y t IH]; intros k v Hk Hn; cbn [cnt_lt] in Hk; [lia|].
  destruct (y <? x)%Z eqn:E; [|lia].
  destruct k as [|k]; cbn in Hn.
  - inversion Hn; subst. apply Z.ltb_lt; auto.
  - apply (IH k); [lia|auto].
Qed.

Lemma cnt_lt_above x l : asc l -> forall k v, cnt_lt x l <= k -> nth_error l k = Some v -> (x <= v)%Z.
Proof.
  induction l as [|y t IH]; intros Ha k v Hk Hn; [destruct k; discriminate|].
  destruct Ha as [Hy Ht]. cbn [cnt_lt] in Hk.
  destruct (y <? x)%Z eqn:E.
  - destruct k as [|k]; [lia|]. cbn in Hn. apply (IH Ht k); [lia|auto].
  - apply Z.ltb_ge in E. destruct k as [|k]; cbn in Hn.
    + inversion Hn; subst; auto.
    + apply nth_error_In in Hn. specialize (Hy _ Hn). lia.
Qed.

(* what insertValue computes from the search result *)
Lemma set_insert_cnt v l :
  set_insert v l =
  match nth_error l (cnt_lt v l) with
  | Some y => if (y =? v)%Z then l else firstn (cnt_lt v l) l ++ v :: skipn (cnt_lt v l) l
  | None => firstn (cnt_lt v l) l ++ v :: skipn (cnt_lt v l) l
  end.
Proof.
  induction l as [|y t IH]; cbn [set_insert cnt_lt]; [reflexivity|].
  destruct (y <? v)%Z eqn:E1.
  - apply Z.ltb_lt in E1.
    replace (v <? y)%Z with false by (symmetry; apply Z.ltb_ge; lia).
    replace (v =? y)%Z with false by (symmetry; apply Z.eqb_neq; lia).
    cbn [nth_error firstn skipn app]. rewrite IH.
    destruct (nth_error t (cnt_lt v t)) as [w|]; [destruct (w =? v)%Z|]; reflexivity.
  - apply Z.ltb_ge in E1. cbn [nth_error firstn skipn app].
    destruct (y =? v)%Z eqn:E2.
    + apply Z.eqb_eq in E2; subst. rewrite Z.ltb_irrefl, Z.eqb_refl. reflexivity.
    + apply Z.eqb_neq in E2. replace (v <? y)%Z with true by (symmetry; apply Z.ltb_lt; lia). reflexivity.
Qed.

Lemma bsearch_spec l x : asc l ->
  forall fuel i j, i <= cnt_lt x l -> cnt_lt x l <= j -> j <= length l -> j - i < fuel ->
    bsearch fuel l x i j = Ok (cnt_lt x l).
Proof.
  intros Ha; induction fuel as [|fuel IH]; intros i j Hi Hj Hl Hf; [lia|].
  cbn [bsearch]. destruct (i <? j) eqn:Eij.
  - apply Nat.ltb_lt in Eij.
    assert (Hh : (i + j) / 2 < j) by (apply Nat.div_lt_upper_bound; lia).
    assert (Hh' : i <= (i + j) / 2) by (apply Nat.div_le_lower_bound; lia).
    destruct (nth_error l ((i + j) / 2)) as [v|] eqn:Hv; [|apply nth_error_None in Hv; lia].
    destruct (v <? x)%Z eqn:E.
    + apply Z.ltb_lt in E. apply IH; try lia.
      destruct (Nat.le_gt_cases (cnt_lt x l) ((i + j) / 2)) as [Hc|Hc]; [|lia].
      pose proof (cnt_lt_above x l Ha _ _ Hc Hv). lia.
    + apply Z.ltb_ge in E. apply IH; try lia.
      destruct (Nat.le_gt_cases (cnt_lt x l) ((i + j) / 2)) as [Hc|Hc]; [auto|].
      pose proof (cnt_lt_below x l _ _ Hc Hv). lia.
  - apply Nat.ltb_ge in Eij. f_equal. lia.
Qed.


(* the merge Union's loop performs, one element per turn *)
Fixpoint merge (fuel : nat) (l1 l2 : list Z) : list Z :=
  match fuel with
  | O => []
  | S f =>
    match l1, l2 with
    | [], [] => []
    | x :: t1, [] => x :: merge f t1 []
    | [], y :: t2 => y :: merge f [] t2
    | x :: t1, y :: t2 =>
      if (x <? y)%Z then x :: merge f t1 l2
      else if (y <? x)%Z then y :: merge f l1 t2
      else x :: merge f t1 t2
    end
  end.

Lemma merge_in fuel : forall l1 l2 x, length l1 + length l2 <= fuel ->
  (In x (merge fuel l1 l2) <-> In x l1 \/ In x l2).
Proof.
  induction fuel as [|f IH]; intros l1 l2 x Hf.
  - destruct l1, l2; cbn in Hf; try lia. cbn; intuition.
  - destruct l1 as [|a t1], l2 as [|b t2]; cbn [merge]; cbn [length] in Hf.
    + cbn; intuition.
    + cbn [In]. rewrite IH by (cbn; lia). cbn [In]. intuition.
    + cbn [In]. rewrite IH by (cbn; lia). cbn [In]. intuition.
    + destruct (a <? b)%Z eqn:E1; [|destruct (b <? a)%Z eqn:E2].
      * cbn [In]. rewrite IH by (cbn; lia). cbn [In]. intuition.
      * cbn [In]. rewrite IH by (cbn; lia). cbn [In]. intuition.
      * apply Z.ltb_ge in E1, E2. assert (a = b) by lia. subst b.
        cbn [In]. rewrite IH by (cbn; lia). intuition.
Qed.

Lemma merge_asc fuel : forall l1 l2, length l1 + length l2 <= fuel -> asc l1 -> asc l2 -> asc (merge fuel l1 l2).
Proof.
  induction fuel as [|f IH]; intros l1 l2 Hf H1 H2; [exact I|].
  destruct l1 as [|a t1], l2 as [|b t2]; cbn [merge]; cbn [length] in Hf.
  - exact I.
  - destruct H2 as [Hb H2]. cbn [asc]. split; [|apply IH; cbn; auto; lia].
    intros y Hy. apply merge_in in Hy; [|cbn; lia]. destruct Hy as [[]|Hy]; auto.
  - destruct H1 as [Ha H1]. cbn [asc]. split; [|apply IH; cbn; auto; lia].
    intros y Hy. apply merge_in in Hy; [|cbn; lia]. destruct Hy as [Hy|[]]; auto.
  - destruct H1 as [Ha H1], H2 as [Hb H2].
    destruct (a <? b)%Z eqn:E1; [|destruct (b <? a)%Z eqn:E2].
    + apply Z.ltb_lt in E1. cbn [asc]. split; [|apply IH; cbn [length asc]; auto; lia].
      intros y Hy. apply merge_in in Hy; [|cbn; lia]. destruct Hy as [Hy|[<-|Hy]]; auto.
      specialize (Hb _ Hy); lia.
    + apply Z.ltb_lt in E2. cbn [asc]. split; [|apply IH; cbn [length asc]; auto; lia].
      intros y Hy. apply merge_in in Hy; [|cbn; lia]. destruct Hy as [[<-|Hy]|Hy]; auto.
      specialize (Ha _ Hy); lia.
    + apply Z.ltb_ge in E1, E2. assert (a = b) by lia. subst b.
      cbn [asc]. split; [|apply IH; auto; lia].
      intros y Hy. apply merge_in in Hy; [|lia]. destruct Hy as [Hy|Hy]; auto.
Qed.

Lemma merge_union l1 l2 : asc l1 -> asc l2 -> merge (length l1 + length l2) l1 l2 = set_union l1 l2.
Proof.
  intros H1 H2. apply asc_ext.
  - apply merge_asc; auto.
  - apply set_union_asc; auto.
  - intros x. rewrite merge_in, set_union_in by lia. reflexivity.
Qed.

(* ================================================================== *)
(* 3. The specification: maps *)

Definition keys_asc (m : amap) : Prop := asc (map fst m).

Lemma amap_get_set m k v k' :
  amap_get (amap_set m k v) k' = if (k =? k')%Z then Some v else amap_get m k'.
Proof.
  induction m as [|[k0 v0] t IH]; cbn [amap_set amap_get]; [reflexivity|].
  destruct (k <? k0)%Z eqn:E1; [reflexivity|].
  destruct (k =? k0)%Z eqn:E2.
  - apply Z.eqb_eq in E2; subst k0. cbn [amap_get]. destruct (k =? k')%Z; reflexivity.
  - cbn [amap_get]. rewrite IH. destruct (k0 =? k')%Z eqn:E3; [|reflexivity].
    apply Z.eqb_eq in E3; subst k'. rewrite E2. reflexivity.
Qed.

Lemma amap_set_keys_in m k v x : In x (map fst (amap_set m k v)) <-> x = k \/ In x (map fst m).
Proof.
  induction m as [|[k0 v0] t IH]; cbn [amap_set]; [cbn; intuition|].
  destruct (k <? k0)%Z; [cbn; intuition|].
  destruct (k =? k0)%Z eqn:E2.
  - apply Z.eqb_eq in E2; subst. cbn; intuition.
  - cbn [map fst In]. rewrite IH. intuition.
Qed.

Lemma amap_set_asc m k v : keys_asc m -> keys_asc (amap_set m k v).
Proof.
  unfold keys_asc. induction m as [|[k0 v0] t IH]; cbn [amap_set]; intros H; [cbn; intuition|].
  cbn [map fst asc] in H. destruct H as [H0 Ht].
  destruct (k <? k0)%Z eqn:E1.
  - apply Z.ltb_lt in E1. cbn [map fst asc]. split; [|split; auto].
    intros y [<-|Hy]; [auto|]. specialize (H0 _ Hy); lia.
  - destruct (k =? k0)%Z eqn:E2.
    + apply Z.eqb_eq in E2; subst. cbn [map fst asc]. auto.
    + apply Z.ltb_ge in E1. apply Z.eqb_neq in E2. cbn [map fst asc]. split; [|auto].
      intros y Hy. apply amap_set_keys_in in Hy. destruct Hy as [->|Hy]; [lia|auto].
Qed.

Lemma amap_get_none m k : ~ In k (map fst m) -> amap_get m k = None.
Proof.
  induction m as [|[k0 v0] t IH]; cbn [amap_get map fst In]; intros H; [reflexivity|].
  destruct (k0 =? k)%Z eqn:E; [apply Z.eqb_eq in E; tauto|]. apply IH; tauto.
Qed.

Lemma amap_get_some m k v : amap_get m k = Some v -> In (k, v) m.
Proof.
  induction m as [|[k0 v0] t IH]; cbn [amap_get]; [discriminate|].
  destruct (k0 =? k)%Z eqn:E.
  - apply Z.eqb_eq in E. intros H; inversion H; subst. left; reflexivity.
  - intros H; right; auto.
Qed.

Lemma amap_in_get m k v : keys_asc m -> In (k, v) m -> amap_get m k = Some v.
Proof.
  unfold keys_asc. induction m as [|[k0 v0] t IH]; intros Ha Hin; [destruct Hin|].
  cbn [map fst asc] in Ha. destruct Ha as [H0 Ht]. cbn [amap_get].
  destruct Hin as [E|Hin].
  - inversion E; subst. rewrite Z.eqb_refl. reflexivity.
  - assert (In k (map fst t)) by (apply (in_map fst) in Hin; exact Hin).
    specialize (H0 _ H). replace (k0 =? k)%Z with false by (symmetry; apply Z.eqb_neq; lia). auto.
Qed.

Lemma amap_ext a : forall b, keys_asc a -> keys_asc b -> (forall k, amap_get a k = amap_get b k) -> a = b.
Proof.
  unfold keys_asc. induction a as [|[k1 v1] ta IH]; intros [|[k2 v2] tb] Ha Hb H.
  - reflexivity.
  - specialize (H k2). cbn in H. rewrite Z.eqb_refl in H. discriminate.
  - specialize (H k1). cbn in H. rewrite Z.eqb_refl in H. discriminate.
  - cbn [map fst asc] in Ha, Hb. destruct Ha as [H1 Ha], Hb as [H2 Hb].
    assert (Hn1 : forall k, (k <= k1)%Z -> ~ In k (map fst ta)) by (intros k Hk Hin; specialize (H1 _ Hin); lia).
    assert (Hn2 : forall k, (k <= k2)%Z -> ~ In k (map fst tb)) by (intros k Hk Hin; specialize (H2 _ Hin); lia).
    assert (k1 = k2).
    { pose proof (H k1) as E1. pose proof (H k2) as E2. cbn [amap_get] in E1, E2.
      rewrite Z.eqb_refl in E1, E2.
      destruct (k2 =? k1)%Z eqn:E; [apply Z.eqb_eq in E; auto|].
      apply Z.eqb_neq in E. replace (k1 =? k2)%Z with false in E2 by (symmetry; apply Z.eqb_neq; lia).
      destruct (Z.lt_ge_cases k1 k2) as [Hlt|Hge].
      - rewrite (amap_get_none tb k1) in E1 by (apply Hn2; lia). discriminate.
      - rewrite (amap_get_none ta k2) in E2 by (apply Hn1; lia). discriminate. }
    subst k2.
    assert (v1 = v2).
    { specialize (H k1). cbn [amap_get] in H. rewrite Z.eqb_refl in H. congruence. }
    subst v2. f_equal. apply IH; auto.
    intros k. specialize (H k). cbn [amap_get] in H.
    destruct (k1 =? k)%Z eqn:E; [|auto].
    apply Z.eqb_eq in E; subst k. rewrite !amap_get_none; auto; [apply Hn2|apply Hn1]; lia.
Qed.

Lemma asc_nodup l : asc l -> NoDup l.
Proof.
  induction l as [|x t IH]; intros H; constructor; destruct H as [Hx Ht]; auto.
  intros Hin. specialize (Hx _ Hin). lia.
Qed.

Definition fold_set (m : amap) (es : amap) : amap :=
  fold_left (fun acc kv => amap_set acc (fst kv) (snd kv)) es m.

Lemma fold_set_asc es : forall m, keys_asc m -> keys_asc (fold_set m es).
Proof.
  unfold fold_set. induction es as [|[k v] t IH]; intros m H; cbn [fold_left fst snd]; [exact H|].
  apply IH, amap_set_asc, H.
Qed.

Lemma fold_set_get es : forall m k, NoDup (map fst es) ->
  (forall v, In (k, v) es -> amap_get (fold_set m es) k = Some v) /\
  (~ In k (map fst es) -> amap_get (fold_set m es) k = amap_get m k).
Proof.
  induction es as [|[k0 v0] t IH]; intros m k Hnd; cbn [fold_set fold_left fst snd map In].
  - split; [intros v []|reflexivity].
  - inversion Hnd as [|? ? Hnot Hnd']; subst.
    change (fold_left _ t (amap_set m k0 v0)) with (fold_set (amap_set m k0 v0) t).
    destruct (IH (amap_set m k0 v0) k Hnd') as [IH1 IH2]. split.
    + intros v [E|Hin]; [|auto]. inversion E; subst.
      rewrite IH2 by auto. rewrite amap_get_set, Z.eqb_refl. reflexivity.
    + intros Hn. rewrite IH2 by tauto. rewrite amap_get_set.
      replace (k0 =? k)%Z with false by (symmetry; apply Z.eqb_neq; intros ->; tauto). reflexivity.
Qed.

(* cloning by iteration in ANY order rebuilds the same map *)
Lemma fold_set_perm e es : keys_asc e -> Permutation es e -> fold_set [] es = e.
Proof.
  intros He Hp. apply amap_ext; [apply fold_set_asc; exact I|exact He|].
  assert (Hnd : NoDup (map fst es)).
  { apply (Permutation_NoDup (l := map fst e)); [apply Permutation_map, Permutation_sym, Hp|apply asc_nodup, He]. }
  intros k. destruct (fold_set_get es [] k Hnd) as [H1 H2].
  destruct (amap_get e k) as [v|] eqn:E.
  - apply H1. apply amap_get_some in E. eapply Permutation_in; [apply Permutation_sym, Hp|exact E].
  - rewrite H2; [reflexivity|]. intros Hin.
    assert (Hin' : In k (map fst e)) by (eapply Permutation_in; [apply Permutation_map, Hp|exact Hin]).
    apply in_map_iff in Hin'. destruct Hin' as [[k' v] [Ek Hkv]]. cbn in Ek; subst k'.
    rewrite (amap_in_get e k v He Hkv) in E. discriminate.
Qed.

Lemma map_of_list_asc kvs : keys_asc (map_of_list kvs).
Proof. apply (fold_set_asc kvs []). exact I. Qed.

Lemma amap_get_filter (f : Z -> bool) m k :
  amap_get (filter (fun kv => f (fst kv)) m) k = if f k then amap_get m k else None.
Proof.
  induction m as [|[k0 v0] t IH]; cbn [filter amap_get fst]; [destruct (f k); reflexivity|].
  destruct (f k0) eqn:E0; cbn [amap_get].
  - destruct (k0 =? k)%Z eqn:E; [|exact IH]. apply Z.eqb_eq in E; subst. rewrite E0. reflexivity.
  - rewrite IH. destruct (k0 =? k)%Z eqn:E; [|reflexivity]. apply Z.eqb_eq in E; subst. rewrite E0. reflexivity.
Qed.

Lemma filter_keys_asc (P : Z * Z -> bool) m : keys_asc m -> keys_asc (filter P m).
Proof.
  unfold keys_asc. induction m as [|[k0 v0] t IH]; cbn [filter map fst asc]; intros H; [exact I|].
  destruct H as [H0 Ht]. destruct (P (k0, v0)); [|auto].
  cbn [map fst asc]. split; [|auto].
  intros y Hy. apply H0. apply in_map_iff in Hy. destruct Hy as [kv [E Hin]].
  apply filter_In in Hin. apply in_map_iff. exists kv; tauto.
Qed.

(* the pure content of Filter's loop *)
Fixpoint filter_fold (e acc : amap) (ks : list Z) : amap :=
  match ks with
  | [] => acc
  | k :: t => filter_fold e (match amap_get e k with Some v => amap_set acc k v | None => acc end) t
  end.

Lemma filter_fold_asc e ks : forall acc, keys_asc acc -> keys_asc (filter_fold e acc ks).
Proof.
  induction ks as [|k t IH]; intros acc H; cbn [filter_fold]; auto.
  apply IH. destruct (amap_get e k); auto using amap_set_asc.
Qed.

Lemma filter_fold_get e ks : forall acc k,
  (In k ks -> amap_get (filter_fold e acc ks) k =
              match amap_get e k with Some v => Some v | None => amap_get acc k end) /\
  (~ In k ks -> amap_get (filter_fold e acc ks) k = amap_get acc k).
Proof.
  induction ks as [|k0 t IH]; intros acc k; cbn [filter_fold In]; [split; [intros []|reflexivity]|].
  set (acc1 := match amap_get e k0 with Some v => amap_set acc k0 v | None => acc end).
  destruct (IH acc1 k) as [IH1 IH2].
  assert (Hsame : amap_get acc1 k0 = match amap_get e k0 with Some v => Some v | None => amap_get acc k0 end).
  { unfold acc1. destruct (amap_get e k0); [rewrite amap_get_set, Z.eqb_refl|]; reflexivity. }
  assert (Hother : k0 <> k -> amap_get acc1 k = amap_get acc k).
  { intros Hne. unfold acc1. destruct (amap_get e k0); [|reflexivity].
    rewrite amap_get_set. replace (k0 =? k)%Z with false by (symmetry; apply Z.eqb_neq; auto). reflexivity. }
  destruct (Z.eq_dec k0 k) as [->|Hne].
  - split; [|tauto]. intros _.
    destruct (in_dec Z.eq_dec k t) as [Ht|Ht].
    + rewrite IH1 by auto. rewrite Hsame. destruct (amap_get e k); reflexivity.
    + rewrite IH2 by auto. exact Hsame.
  - specialize (Hother Hne). split.
    + intros [E|Hin]; [tauto|]. rewrite IH1 by auto. rewrite Hother. reflexivity.
    + intros Hn. rewrite IH2 by tauto. exact Hother.
Qed.

Lemma filter_fold_spec e s : keys_asc e -> filter_fold e [] s = abs_filter e s.
Proof.
  intros He. apply amap_ext.
  - apply filter_fold_asc. exact I.
  - apply filter_keys_asc, He.
  - intros k. unfold abs_filter. rewrite (amap_get_filter (fun x => set_mem x s)).
    destruct (filter_fold_get e s [] k) as [H1 H2].
    destruct (set_mem k s) eqn:E.
    + apply set_mem_in in E. rewrite H1 by auto. destruct (amap_get e k); reflexivity.
    + rewrite H2; [reflexivity|]. intros Hin. apply set_mem_in in Hin. congruence.
Qed.

(* ================================================================== *)
(* 4. The heap: frames and the points-to predicate *)

(* [fr ba bm h h']: from h to h' nothing below array id [ba] / map id [bm] was written
   and nothing was freed.  An operation started in a heap with [ba] arrays and [bm] maps
   that satisfies [fr ba bm] has written only into objects it allocated itself. *)
Definition fr (ba bm : nat) (h h' : heap) : Prop :=
  (forall a, a < ba -> nth_error (h_arrs h') a = nth_error (h_arrs h) a) /\
  (forall m, m < bm -> nth_error (h_maps h') m = nth_error (h_maps h) m) /\
  length (h_arrs h) <= length (h_arrs h') /\ length (h_maps h) <= length (h_maps h').

Lemma fr_refl ba bm h : fr ba bm h h.
Proof. unfold fr; auto. Qed.

Lemma fr_trans ba bm h1 h2 h3 : fr ba bm h1 h2 -> fr ba bm h2 h3 -> fr ba bm h1 h3.
Proof.
  intros (A1 & M1 & LA1 & LM1) (A2 & M2 & LA2 & LM2). repeat split; try lia.
  - intros a Ha. rewrite A2, A1; auto.
  - intros m Hm. rewrite M2, M1; auto.
Qed.

Lemma fr_set_arr ba bm h a x : ba <= a -> fr ba bm h (set_arr h a x).
Proof.
  intros H. unfold fr, set_arr; cbn [h_arrs h_maps]. rewrite upd_length. repeat split; auto.
  intros b Hb. apply nth_error_upd_other. lia.
Qed.

Lemma fr_alloc_arr ba bm h x : ba <= length (h_arrs h) -> fr ba bm h (mkheap (h_arrs h ++ [x]) (h_maps h)).
Proof.
  intros H. unfold fr; cbn [h_arrs h_maps]. rewrite app_length. cbn. repeat split; auto; try lia.
  intros a Ha. apply nth_error_app1. lia.
Qed.

Lemma fr_set_map ba bm h m e : bm <= m -> fr ba bm h (mkheap (h_arrs h) (upd (h_maps h) m e)).
Proof.
  intros H. unfold fr; cbn [h_arrs h_maps]. rewrite upd_length. repeat split; auto.
  intros b Hb. apply nth_error_upd_other. lia.
Qed.

Lemma fr_alloc_map ba bm h e : bm <= length (h_maps h) -> fr ba bm h (mkheap (h_arrs h) (h_maps h ++ [e])).
Proof.
  intros H. unfold fr; cbn [h_arrs h_maps]. rewrite app_length. cbn. repeat split; auto; try lia.
  intros a Ha. apply nth_error_app1. lia.
Qed.

Lemma fr_weaken ba bm ba' bm' h h' : ba' <= ba -> bm' <= bm -> fr ba bm h h' -> fr ba' bm' h h'.
Proof.
  intros Ha Hm (A & M & LA & LM). repeat split; auto.
  - intros a H. apply A; lia.
  - intros m H. apply M; lia.
Qed.

(* slice header [s] sees exactly [l]; [rest] is its spare capacity (the array ends there) *)
Definition is_slice (h : heap) (s : slice) (l rest : list Z) : Prop :=
  nth_error (h_arrs h) (s_arr s) = Some (l ++ rest) /\ s_off s = 0 /\
  s_len s = length l /\ s_cap s = length l + length rest.

Lemma is_slice_fr ba bm h h' s l rest :
  fr ba bm h h' -> s_arr s < ba -> is_slice h s l rest -> is_slice h' s l rest.
Proof.
  intros (A & _) Hs (H1 & H2). split; [|exact H2]. rewrite A; auto.
Qed.

Lemma is_slice_view h s l rest : is_slice h s l rest -> view h s = l.
Proof.
  intros (H1 & H2 & H3 & H4). unfold view. rewrite H1, H2, H3.
  apply (window_mid [] l rest); reflexivity.
Qed.

Lemma is_slice_ok h s l rest : is_slice h s l rest -> sl_ok (l ++ rest) s = true.
Proof.
  intros (H1 & H2 & H3 & H4). unfold sl_ok. rewrite H2, H3, H4, app_length.
  apply andb_true_intro; split; apply Nat.leb_le; lia.
Qed.

Lemma sl_read_spec h s l rest : is_slice h s l rest -> sl_read h s = Ok l.
Proof.
  intros H. pose proof (is_slice_ok _ _ _ _ H) as Hok. destruct H as (H1 & H2 & H3 & H4).
  unfold sl_read, get_arr. rewrite H1. cbn [bind]. rewrite Hok, H2, H3.
  f_equal. apply (window_mid [] l rest); reflexivity.
Qed.

Lemma sl_index_spec h s l rest i v :
  is_slice h s l rest -> nth_error l i = Some v -> sl_index h s i = Ok v.
Proof.
  intros H Hn. pose proof (is_slice_ok _ _ _ _ H) as Hok. destruct H as (H1 & H2 & H3 & H4).
  assert (Hi : i < length l) by (apply nth_error_Some; congruence).
  unfold sl_index, get_arr. rewrite H3.
  replace (length l <=? i) with false by (symmetry; apply Nat.leb_gt; lia).
  rewrite H1. cbn [bind]. rewrite Hok, H2. cbn [plus].
  rewrite nth_error_app1, Hn by lia. reflexivity.
Qed.

Lemma get_set_arr h a x : a < length (h_arrs h) -> nth_error (h_arrs (set_arr h a x)) a = Some x.
Proof. intros H. unfold set_arr; cbn [h_arrs]. apply nth_error_upd_same; auto. Qed.

Lemma nth_some_lt {A} (l : list A) n x : nth_error l n = Some x -> n < length l.
Proof. intros H. apply nth_error_Some. congruence. Qed.

Lemma sl_make_spec ba bm h len cap : len <= cap -> ba <= length (h_arrs h) ->
  exists h' s, sl_make h len cap = Ok (h', s) /\
    is_slice h' s (repeat 0%Z len) (repeat 0%Z (cap - len)) /\
    fr ba bm h h' /\ s_arr s = length (h_arrs h) /\ h_maps h' = h_maps h.
Proof.
  intros H Hb. unfold sl_make, alloc_arr.
  replace (cap <? len) with false by (symmetry; apply Nat.ltb_ge; lia).
  eexists _, _. split; [reflexivity|]. split; [|split; [apply fr_alloc_arr; auto|split; reflexivity]].
  unfold is_slice; cbn [s_arr s_off s_len s_cap h_arrs]. rewrite !repeat_length.
  split; [|repeat split; lia].
  rewrite nth_error_app2, Nat.sub_diag by lia. cbn [nth_error].
  rewrite <- repeat_app. do 2 f_equal. lia.
Qed.

Section HeapProofs.
  Variable grow : nat -> nat.

  Lemma sl_append_spec ba bm h s l rest v :
    is_slice h s l rest -> ba <= s_arr s -> ba <= length (h_arrs h) ->
    exists h' s' rest', sl_append grow h s v = Ok (h', s') /\ is_slice h' s' (l ++ [v]) rest' /\
      fr ba bm h h' /\ ba <= s_arr s' /\ h_maps h' = h_maps h.
  Proof.
    intros H Hs Hb. pose proof (is_slice_ok _ _ _ _ H) as Hok.
    pose proof (sl_read_spec _ _ _ _ H) as Hread.
    destruct H as (H1 & H2 & H3 & H4). pose proof (nth_some_lt _ _ _ H1) as Hlt.
    unfold sl_append. destruct (s_len s <? s_cap s) eqn:E.
    - apply Nat.ltb_lt in E. destruct rest as [|r rest']; [cbn in H4; lia|].
      unfold get_arr. rewrite H1. cbn [bind]. rewrite Hok.
      eexists _, _, rest'. split; [reflexivity|].
      split; [|split; [apply fr_set_arr; auto|split; [auto|reflexivity]]].
      unfold is_slice; cbn [s_arr s_off s_len s_cap].
      rewrite get_set_arr by auto. rewrite H2, H3. cbn [plus].
      change (l ++ r :: rest') with (l ++ [r] ++ rest').
      rewrite (write_mid l [r] rest') by reflexivity.
      rewrite app_assoc. split; [reflexivity|]. rewrite app_length. cbn [length] in *. repeat split; lia.
    - apply Nat.ltb_ge in E. destruct rest as [|r rest']; [|cbn [length] in H4; lia].
      rewrite Hread. cbn [bind]. unfold alloc_arr.
      eexists _, _, _. split; [reflexivity|].
      split; [|split; [apply fr_alloc_arr; auto|split; [cbn; lia|reflexivity]]].
      unfold is_slice; cbn [s_arr s_off s_len s_cap h_arrs].
      rewrite nth_error_app2, Nat.sub_diag by lia. cbn [nth_error].
      split; [rewrite <- app_assoc; reflexivity|].
      rewrite app_length, repeat_length. cbn [length]. repeat split; lia.
  Qed.

  (* lines 52-54 of insertValue: open a gap at position [length l1] and store v there *)
  Lemma insert_at ba bm h s l1 l2 rest v :
    is_slice h s (l1 ++ l2) rest -> ba <= s_arr s -> ba <= length (h_arrs h) ->
    exists h' s' rest',
      (do (h1, s1) <- sl_append grow h s 0%Z;
       do dst <- sl_from s1 (length l1 + 1);
       do src <- sl_from s1 (length l1);
       do h2 <- sl_copy h1 dst src;
       do h3 <- sl_store h2 s1 (length l1) v;
       Ok (h3, s1)) = Ok (h', s') /\
      is_slice h' s' (l1 ++ v :: l2) rest' /\ fr ba bm h h' /\ ba <= s_arr s' /\ h_maps h' = h_maps h.
  Proof.
    intros H Hs Hb.
    destruct (sl_append_spec ba bm h s (l1 ++ l2) rest 0%Z H Hs Hb) as (h1 & s1 & rest1 & E1 & S1 & F1 & B1 & M1).
    rewrite E1. cbn [bind]. clear E1.
    destruct s1 as [id off len cap]. destruct S1 as (A1 & Off & Len & Cap). cbn [s_arr s_off s_len s_cap] in *.
    subst off. rewrite !app_length in Len, Cap. cbn [length] in Len, Cap.
    pose proof (nth_some_lt _ _ _ A1) as Hlt.
    set (n1 := length l1) in *. set (n2 := length l2) in *.
    unfold sl_from; cbn [s_arr s_off s_len s_cap].
    replace (len <? n1 + 1) with false by (symmetry; apply Nat.ltb_ge; lia).
    replace (len <? n1) with false by (symmetry; apply Nat.ltb_ge; lia).
    cbn [bind].
    destruct (snoc_cons l2 0%Z) as (x & y & Exy & Ly).
    (* the array after append, in the three shapes needed below *)
    assert (Ea : ((l1 ++ l2) ++ [0%Z]) ++ rest1 = l1 ++ (l2 ++ [0%Z]) ++ rest1) by (rewrite <- !app_assoc; reflexivity).
    assert (Eb : ((l1 ++ l2) ++ [0%Z]) ++ rest1 = (l1 ++ [x]) ++ y ++ rest1).
    { rewrite Ea, Exy. rewrite <- !app_assoc. reflexivity. }
    assert (La : length (((l1 ++ l2) ++ [0%Z]) ++ rest1) = n1 + n2 + 1 + length rest1).
    { rewrite !app_length. cbn [length]. fold n1 n2. lia. }
    (* copy(i.data[index+1:], i.data[index:]) *)
    unfold sl_copy, sl_read, get_arr; cbn [s_arr s_off s_len s_cap]. rewrite A1. cbn [bind].
    unfold sl_ok at 1; cbn [s_arr s_off s_len s_cap]. rewrite La.
    replace ((len - n1 <=? cap - n1) && (0 + n1 + (cap - n1) <=? n1 + n2 + 1 + length rest1)) with true
      by (symmetry; apply andb_true_intro; split; apply Nat.leb_le; lia).
    cbn [bind].
    unfold sl_ok at 1; cbn [s_arr s_off s_len s_cap]. rewrite La.
    replace ((len - (n1 + 1) <=? cap - (n1 + 1)) && (0 + (n1 + 1) + (cap - (n1 + 1)) <=? n1 + n2 + 1 + length rest1))
      with true by (symmetry; apply andb_true_intro; split; apply Nat.leb_le; lia).
    replace (window (((l1 ++ l2) ++ [0%Z]) ++ rest1) (0 + n1) (len - n1)) with (l2 ++ [0%Z])
      by (rewrite Ea; symmetry; apply window_mid; try rewrite app_length; cbn [length]; fold n1 n2; lia).
    replace (Nat.min (len - (n1 + 1)) (len - n1)) with (length l2) by (fold n2; lia).
    rewrite firstn_app, firstn_all, Nat.sub_diag. cbn [firstn]. rewrite app_nil_r.
    replace (arr_write (((l1 ++ l2) ++ [0%Z]) ++ rest1) (0 + (n1 + 1)) l2) with ((l1 ++ [x]) ++ l2 ++ rest1)
      by (rewrite Eb; symmetry; apply write_mid; try rewrite app_length; cbn [length]; fold n1 n2; lia).
    cbn [bind].
    (* i.data[index] = val *)
    set (A2 := (l1 ++ [x]) ++ l2 ++ rest1).
    set (h2 := set_arr h1 id A2).
    assert (G2 : nth_error (h_arrs h2) id = Some A2) by (apply get_set_arr; auto).
    assert (L2 : length A2 = n1 + n2 + 1 + length rest1).
    { unfold A2. rewrite !app_length. cbn [length]. fold n1 n2. lia. }
    unfold sl_store, get_arr; cbn [s_arr s_off s_len s_cap].
    replace (len <=? n1) with false by (symmetry; apply Nat.leb_gt; lia).
    rewrite G2. cbn [bind].
    unfold sl_ok; cbn [s_arr s_off s_len s_cap]. rewrite L2.
    replace ((len <=? cap) && (0 + cap <=? n1 + n2 + 1 + length rest1)) with true
      by (symmetry; apply andb_true_intro; split; apply Nat.leb_le; lia).
    eexists _, _, rest1. split; [reflexivity|].
    assert (Hlt2 : id < length (h_arrs h2)) by (apply nth_some_lt in G2; auto).
    split; [|split; [|split; [auto|]]].
    - unfold is_slice; cbn [s_arr s_off s_len s_cap].
      rewrite get_set_arr by auto. cbn [plus].
      unfold A2. replace ((l1 ++ [x]) ++ l2 ++ rest1) with (l1 ++ [x] ++ (l2 ++ rest1)) by (rewrite <- !app_assoc; reflexivity).
      rewrite (write_mid l1 [x] (l2 ++ rest1)) by reflexivity.
      split; [rewrite <- !app_assoc; reflexivity|].
      rewrite app_length. cbn [length]. fold n1 n2. repeat split; lia.
    - eapply fr_trans; [exact F1|]. eapply fr_trans; apply fr_set_arr; auto.
    - cbn [set_arr h_maps]. exact M1.
  Qed.
End HeapProofs.

(* ================================================================== *)
(* 5. IntSet on the heap *)

Lemma sl_copy_full ba bm h dst src zs r l r' :
  is_slice h dst zs r -> is_slice h src l r' -> length zs = length l -> ba <= s_arr dst ->
  exists h', sl_copy h dst src = Ok h' /\ is_slice h' dst l r /\ fr ba bm h h' /\ h_maps h' = h_maps h.
Proof.
  intros Hd Hsrc Hlen Hb. pose proof (is_slice_ok _ _ _ _ Hd) as Hok.
  unfold sl_copy. rewrite (sl_read_spec _ _ _ _ Hsrc). cbn [bind].
  destruct Hd as (D1 & D2 & D3 & D4). destruct Hsrc as (_ & _ & S3 & _).
  unfold get_arr. rewrite D1. cbn [bind]. rewrite Hok.
  eexists. split; [reflexivity|]. split; [|split; [apply fr_set_arr; auto|reflexivity]].
  unfold is_slice. rewrite get_set_arr by (eapply nth_some_lt; eauto).
  rewrite D2, D3, S3, Hlen, Nat.min_id, firstn_all.
  change (zs ++ r) with ([] ++ zs ++ r). rewrite (write_mid [] zs r) by auto.
  cbn [app]. repeat split; auto; lia.
Qed.

Section SetProofs.
  Variable grow : nat -> nat.

  Lemma insert_value_spec ba bm h s l rest v :
    is_slice h s l rest -> asc l -> ba <= s_arr s -> ba <= length (h_arrs h) ->
    exists h' s' rest', insert_value grow h s v = Ok (h', s') /\ is_slice h' s' (set_insert v l) rest' /\
      fr ba bm h h' /\ ba <= s_arr s' /\ h_maps h' = h_maps h.
  Proof.
    intros H Ha Hs Hb. unfold insert_value, search_ints.
    rewrite (sl_read_spec _ _ _ _ H). cbn [bind].
    pose proof (cnt_lt_le v l) as Hc.
    rewrite (bsearch_spec l v Ha) by lia. cbn [bind].
    rewrite (set_insert_cnt v l).
    set (c := cnt_lt v l) in *.
    assert (Hlen : s_len s = length l) by (destruct H as (_ & _ & H3 & _); exact H3).
    assert (Hins : exists h' s' rest',
      (do (h1, s1) <- sl_append grow h s 0%Z;
       do dst <- sl_from s1 (c + 1);
       do src <- sl_from s1 c;
       do h2 <- sl_copy h1 dst src;
       do h3 <- sl_store h2 s1 c v;
       Ok (h3, s1)) = Ok (h', s') /\
      is_slice h' s' (firstn c l ++ v :: skipn c l) rest' /\ fr ba bm h h' /\ ba <= s_arr s' /\
      h_maps h' = h_maps h).
    { pose proof (insert_at grow ba bm h s (firstn c l) (skipn c l) rest v) as P.
      rewrite firstn_skipn, firstn_length_le in P by lia. apply P; auto. }
    rewrite Hlen.
    destruct (nth_error l c) as [y|] eqn:En.
    - pose proof (nth_some_lt _ _ _ En) as Hlt.
      replace (c <? length l) with true by (symmetry; apply Nat.ltb_lt; lia).
      rewrite (sl_index_spec _ _ _ _ _ _ H En). cbn [bind].
      destruct (y =? v)%Z; [|exact Hins].
      exists h, s, rest. split; [reflexivity|]. split; [exact H|]. split; [apply fr_refl|]. split; [exact Hs|reflexivity].
    - apply nth_error_None in En.
      replace (c <? length l) with false by (symmetry; apply Nat.ltb_ge; lia).
      cbn [bind]. exact Hins.
  Qed.

  Lemma insert_all_spec ba bm vals : forall h s l rest,
    is_slice h s l rest -> asc l -> ba <= s_arr s -> ba <= length (h_arrs h) ->
    exists h' s' rest', insert_all grow h s vals = Ok (h', s') /\
      is_slice h' s' (fold_left (fun acc v => set_insert v acc) vals l) rest' /\
      fr ba bm h h' /\ ba <= s_arr s' /\ h_maps h' = h_maps h.
  Proof.
    induction vals as [|v t IH]; intros h s l rest H Ha Hs Hb; cbn [insert_all fold_left].
    - exists h, s, rest. split; [reflexivity|]. split; [exact H|]. split; [apply fr_refl|]. split; [exact Hs|reflexivity].
    - destruct (insert_value_spec ba bm h s l rest v H Ha Hs Hb) as (h1 & s1 & r1 & E & S1 & F1 & B1 & M1).
      rewrite E. cbn [bind].
      destruct (IH h1 s1 _ r1 S1 (set_insert_asc v l Ha) B1) as (h2 & s2 & r2 & E2 & S2 & F2 & B2 & M2).
      { destruct F1 as (_ & _ & L & _). lia. }
      exists h2, s2, r2. split; [exact E2|]. split; [exact S2|]. split; [eapply fr_trans; eauto|]. split; [exact B2|congruence].
  Qed.

  Lemma new_int_set_spec bm h vals :
    exists h' s' rest', new_int_set grow h vals = Ok (h', s') /\
      is_slice h' s' (set_of_list vals) rest' /\
      fr (length (h_arrs h)) bm h h' /\ length (h_arrs h) <= s_arr s' /\ h_maps h' = h_maps h.
  Proof.
    unfold new_int_set.
    destruct (sl_make_spec (length (h_arrs h)) bm h 0 (length vals)) as (h1 & s1 & E & S1 & F1 & A1 & M1); try lia.
    rewrite E. cbn [bind]. cbn [repeat] in S1.
    destruct (insert_all_spec (length (h_arrs h)) bm vals h1 s1 [] _ S1 I) as (h2 & s2 & r2 & E2 & S2 & F2 & B2 & M2);
      try lia.
    { destruct F1 as (_ & _ & L & _). lia. }
    exists h2, s2, r2. split; [exact E2|]. split; [exact S2|]. split; [eapply fr_trans; eauto|]. split; [exact B2|congruence].
  Qed.

  Lemma set_insert_fixed_spec bm h s l rest v :
    is_slice h s l rest -> asc l ->
    exists h' s' rest', set_insert_fixed grow h s v = Ok (h', s') /\
      is_slice h' s' (set_insert v l) rest' /\
      fr (length (h_arrs h)) bm h h' /\ h_maps h' = h_maps h.
  Proof.
    intros H Ha. unfold set_insert_fixed.
    assert (Hlen : s_len s = length l) by (destruct H as (_ & _ & H3 & _); exact H3).
    assert (Hold : s_arr s < length (h_arrs h)) by (destruct H as (H1 & _); eapply nth_some_lt; eauto).
    destruct (s_len s =? 0) eqn:E0.
    - apply Nat.eqb_eq in E0. destruct l as [|x t]; [|cbn in Hlen; lia].
      unfold sl_lit1, alloc_arr. eexists _, _, []. split; [reflexivity|].
      split; [|split; [apply fr_alloc_arr; auto|reflexivity]].
      unfold is_slice; cbn [s_arr s_off s_len s_cap h_arrs set_insert app length].
      rewrite nth_error_app2, Nat.sub_diag by lia. repeat split; auto.
    - apply Nat.eqb_neq in E0. rewrite Hlen.
      destruct (sl_make_spec (length (h_arrs h)) bm h (length l) (S (length l)))
        as (h1 & s2 & E & S2 & F1 & A1 & M1); try lia.
      rewrite E. cbn [bind].
      pose proof (is_slice_fr _ _ _ _ _ _ _ F1 Hold H) as Hs1.
      destruct (sl_copy_full (length (h_arrs h)) bm h1 s2 s _ _ l rest S2 Hs1) as (h2 & E2 & S2' & F2 & M2);
        [apply repeat_length|lia|].
      rewrite E2. cbn [bind].
      destruct (insert_value_spec (length (h_arrs h)) bm h2 s2 l _ v S2' Ha) as (h3 & s3 & r3 & E3 & S3 & F3 & B3 & M3);
        try lia.
      { destruct F1 as (_ & _ & L1 & _), F2 as (_ & _ & L2 & _). lia. }
      exists h3, s3, r3. split; [exact E3|]. split; [exact S3|]. split; [|congruence].
      eapply fr_trans; [exact F1|]. eapply fr_trans; eauto.
  Qed.

  Lemma union_loop_spec ba bm s1 s2 l1 l2 r1 r2 : s_arr s1 < ba -> s_arr s2 < ba ->
    forall fuel p1 q1 p2 q2 h s3 acc r3,
      l1 = p1 ++ q1 -> l2 = p2 ++ q2 -> length q1 + length q2 <= fuel ->
      is_slice h s1 l1 r1 -> is_slice h s2 l2 r2 -> is_slice h s3 acc r3 ->
      ba <= s_arr s3 -> ba <= length (h_arrs h) ->
      exists h' s3' r3',
        union_loop grow (S fuel) h s1 s2 s3 (length p1) (length p2) = Ok (h', s3') /\
        is_slice h' s3' (acc ++ merge fuel q1 q2) r3' /\ fr ba bm h h' /\ h_maps h' = h_maps h.
  Proof.
    intros Hb1 Hb2. induction fuel as [|f IH]; intros p1 q1 p2 q2 h s3 acc r3 E1 E2 Hf S1 S2 S3 B3 Bh.
    - destruct q1, q2; cbn [length] in Hf; try lia. rewrite app_nil_r in E1, E2. subst p1 p2.
      cbn [union_loop merge].
      destruct S1 as (_ & _ & L1 & _), S2 as (_ & _ & L2 & _). rewrite L1, L2, !Nat.ltb_irrefl. cbn [orb].
      exists h, s3, r3. rewrite app_nil_r. split; [reflexivity|]. split; [exact S3|]. split; [apply fr_refl|reflexivity].
    - assert (L1 : s_len s1 = length p1 + length q1)
        by (destruct S1 as (_ & _ & L & _); rewrite L, E1, app_length; reflexivity).
      assert (L2 : s_len s2 = length p2 + length q2)
        by (destruct S2 as (_ & _ & L & _); rewrite L, E2, app_length; reflexivity).
      (* append z, then continue from (n1', n2') *)
      assert (K : forall z p1' q1' p2' q2' n1' n2',
                 l1 = p1' ++ q1' -> l2 = p2' ++ q2' -> n1' = length p1' -> n2' = length p2' ->
                 length q1' + length q2' <= f ->
                 exists h' s3' r3',
                   (do (h', s3') <- sl_append grow h s3 z; union_loop grow (S f) h' s1 s2 s3' n1' n2') = Ok (h', s3') /\
                   is_slice h' s3' (acc ++ z :: merge f q1' q2') r3' /\ fr ba bm h h' /\ h_maps h' = h_maps h).
      { intros z p1' q1' p2' q2' n1' n2' E1' E2' -> -> Hf'.
        destruct (sl_append_spec grow ba bm h s3 acc r3 z S3 B3 Bh) as (h1 & s3' & r3' & Ea & Sa & Fa & Ba & Ma).
        rewrite Ea. cbn [bind].
        destruct (IH p1' q1' p2' q2' h1 s3' (acc ++ [z]) r3' E1' E2' Hf') as (h2 & s4 & r4 & Eb & Sb & Fb & Mb); auto.
        - eapply is_slice_fr; eauto.
        - eapply is_slice_fr; eauto.
        - destruct Fa as (_ & _ & L & _). lia.
        - exists h2, s4, r4. rewrite <- app_assoc in Sb. split; [exact Eb|]. split; [exact Sb|]. split; [eapply fr_trans; eauto|congruence]. }
      remember (S f) as f' eqn:Ef'. cbn [union_loop]. subst f'. rewrite L1, L2.
      destruct q1 as [|x t1], q2 as [|y t2]; cbn [length] in *.
      + rewrite !Nat.add_0_r, !Nat.ltb_irrefl. cbn [orb merge].
        exists h, s3, r3. rewrite app_nil_r. split; [reflexivity|]. split; [exact S3|]. split; [apply fr_refl|reflexivity].
      + (* only s2 has elements left *)
        replace (length p2 <? length p2 + S (length t2)) with true by (symmetry; apply Nat.ltb_lt; lia).
        rewrite orb_true_r.
        replace (length p2 + S (length t2) <=? length p2) with false by (symmetry; apply Nat.leb_gt; lia).
        rewrite Nat.add_0_r, Nat.ltb_irrefl, Nat.leb_refl. cbn [bind].
        assert (Y : nth_error l2 (length p2) = Some y) by (rewrite E2; apply nth_error_mid).
        rewrite (sl_index_spec _ _ _ _ _ _ S2 Y). cbn [bind merge].
        apply (K y p1 [] (p2 ++ [y]) t2); auto; try (rewrite app_length; cbn; lia); try (cbn; lia).
        rewrite <- app_assoc. exact E2.
      + (* only s1 has elements left *)
        replace (length p1 <? length p1 + S (length t1)) with true by (symmetry; apply Nat.ltb_lt; lia).
        cbn [orb]. rewrite Nat.add_0_r, Nat.leb_refl. cbn [bind].
        assert (X : nth_error l1 (length p1) = Some x) by (rewrite E1; apply nth_error_mid).
        rewrite (sl_index_spec _ _ _ _ _ _ S1 X). cbn [bind merge].
        apply (K x (p1 ++ [x]) t1 p2 []); auto; try (rewrite app_length; cbn; lia); try (cbn; lia).
        rewrite <- app_assoc. exact E1.
      + replace (length p1 <? length p1 + S (length t1)) with true by (symmetry; apply Nat.ltb_lt; lia).
        replace (length p2 <? length p2 + S (length t2)) with true by (symmetry; apply Nat.ltb_lt; lia).
        replace (length p2 + S (length t2) <=? length p2) with false by (symmetry; apply Nat.leb_gt; lia).
        replace (length p1 + S (length t1) <=? length p1) with false by (symmetry; apply Nat.leb_gt; lia).
        cbn [orb].
        assert (X : nth_error l1 (length p1) = Some x) by (rewrite E1; apply nth_error_mid).
        assert (Y : nth_error l2 (length p2) = Some y) by (rewrite E2; apply nth_error_mid).
        rewrite (sl_index_spec _ _ _ _ _ _ S1 X), (sl_index_spec _ _ _ _ _ _ S2 Y). cbn [bind merge].
        destruct (x <? y)%Z.
        * cbn [bind].
          apply (K x (p1 ++ [x]) t1 p2 (y :: t2)); auto; try (rewrite app_length; cbn; lia); try (cbn; lia).
          rewrite <- app_assoc. exact E1.
        * cbn [bind].
          destruct (y <? x)%Z.
          -- cbn [bind].
             apply (K y p1 (x :: t1) (p2 ++ [y]) t2); auto; try (rewrite app_length; cbn; lia); try (cbn; lia).
             rewrite <- app_assoc. exact E2.
          -- cbn [bind].
             apply (K x (p1 ++ [x]) t1 (p2 ++ [y]) t2); auto; try (rewrite app_length; cbn; lia); try (cbn; lia).
             ++ rewrite <- app_assoc. exact E1.
             ++ rewrite <- app_assoc. exact E2.
  Qed.

  (* Union: a fresh slice, or one of the operands itself (sharing is harmless: nobody writes) *)
  Lemma set_union_heap_spec bm h s1 s2 l1 l2 r1 r2 :
    is_slice h s1 l1 r1 -> is_slice h s2 l2 r2 -> asc l1 -> asc l2 ->
    exists h' s' rest', set_union_heap grow h s1 s2 = Ok (h', s') /\
      is_slice h' s' (set_union l1 l2) rest' /\
      fr (length (h_arrs h)) bm h h' /\ h_maps h' = h_maps h.
  Proof.
    intros S1 S2 A1 A2. unfold set_union_heap.
    assert (L1 : s_len s1 = length l1) by (destruct S1 as (_ & _ & L & _); exact L).
    assert (L2 : s_len s2 = length l2) by (destruct S2 as (_ & _ & L & _); exact L).
    assert (O1 : s_arr s1 < length (h_arrs h)) by (destruct S1 as (H1 & _); eapply nth_some_lt; eauto).
    assert (O2 : s_arr s2 < length (h_arrs h)) by (destruct S2 as (H1 & _); eapply nth_some_lt; eauto).
    rewrite <- (merge_union l1 l2 A1 A2).
    destruct (s_len s2 =? 0) eqn:E2.
    - apply Nat.eqb_eq in E2. destruct l2; [|cbn in L2; lia].
      exists h, s1, r1. split; [reflexivity|]. split; [|split; [apply fr_refl|reflexivity]].
      replace (merge (length l1 + length []) l1 []) with l1; [exact S1|].
      cbn [length]. rewrite Nat.add_0_r. clear. induction l1 as [|x t IH]; cbn; [reflexivity|]. f_equal; exact IH.
    - destruct (s_len s1 =? 0) eqn:E1.
      + apply Nat.eqb_eq in E1. destruct l1; [|cbn in L1; lia].
        exists h, s2, r2. split; [reflexivity|]. split; [|split; [apply fr_refl|reflexivity]].
        replace (merge (length [] + length l2) [] l2) with l2; [exact S2|].
        cbn [length plus]. clear. induction l2 as [|x t IH]; cbn; [reflexivity|]. f_equal; exact IH.
      + destruct (sl_make_spec (length (h_arrs h)) bm h 0 (s_len s1 + s_len s2)) as (h1 & s3 & E & S3 & F1 & A3 & M1);
          try lia.
        rewrite E. cbn [bind]. cbn [repeat] in S3.
        assert (S1' : is_slice h1 s1 l1 r1) by (eapply is_slice_fr; eauto).
        assert (S2' : is_slice h1 s2 l2 r2) by (eapply is_slice_fr; eauto).
        assert (Bh : length (h_arrs h) <= length (h_arrs h1)) by (destruct F1 as (_ & _ & L & _); lia).
        destruct (union_loop_spec (length (h_arrs h)) bm s1 s2 l1 l2 r1 r2 O1 O2 (s_len s1 + s_len s2)
                    [] l1 [] l2 h1 s3 [] _ eq_refl eq_refl ltac:(lia) S1' S2' S3 ltac:(lia) Bh)
          as (h2 & s4 & r4 & E4 & S4 & F4 & M4).
        cbn [length] in E4. rewrite L1, L2 in *. exists h2, s4, r4. cbn [app] in S4.
          split; [exact E4|]. split; [exact S4|]. split; [eapply fr_trans; eauto|congruence].
  Qed.
End SetProofs.

(* ================================================================== *)
(* 6. IntMap on the heap *)

Definition is_map (h : heap) (m : nat) (e : amap) : Prop := nth_error (h_maps h) m = Some e.

Lemma is_slice_arrs h h' s l r : h_arrs h' = h_arrs h -> is_slice h s l r -> is_slice h' s l r.
Proof. intros E (H1 & H2). split; [rewrite E; exact H1|exact H2]. Qed.

Lemma is_map_fr ba bm h h' m e : fr ba bm h h' -> m < bm -> is_map h m e -> is_map h' m e.
Proof. intros (_ & M & _) Hm H. unfold is_map. rewrite M; auto. Qed.

Lemma is_map_maps h h' m e : h_maps h' = h_maps h -> is_map h m e -> is_map h' m e.
Proof. unfold is_map. intros ->. auto. Qed.

Lemma map_store_spec ba bm h m e k v : is_map h m e -> bm <= m ->
  exists h', map_store h m k v = Ok h' /\ is_map h' m (amap_set e k v) /\ fr ba bm h h' /\
             h_arrs h' = h_arrs h /\
             (forall m' e', m' <> m -> is_map h m' e' -> is_map h' m' e').
Proof.
  intros H Hb. unfold map_store, get_map. unfold is_map in H. rewrite H. cbn [bind].
  eexists. split; [reflexivity|]. split; [|split; [apply fr_set_map; auto|split; [reflexivity|]]].
  - unfold is_map; cbn [h_maps]. apply nth_error_upd_same. eapply nth_some_lt; eauto.
  - intros m' e' Hne Hm'. unfold is_map in *; cbn [h_maps]. rewrite nth_error_upd_other; auto.
Qed.

Lemma store_all_spec ba bm m es : forall h e, is_map h m e -> bm <= m ->
  exists h', store_all h m es = Ok h' /\ is_map h' m (fold_set e es) /\ fr ba bm h h' /\ h_arrs h' = h_arrs h.
Proof.
  induction es as [|[k v] t IH]; intros h e H Hb; cbn [store_all].
  - exists h. split; [reflexivity|]. split; [exact H|]. split; [apply fr_refl|reflexivity].
  - destruct (map_store_spec ba bm h m e k v H Hb) as (h1 & E1 & M1 & F1 & A1 & _).
    rewrite E1. cbn [bind].
    destruct (IH h1 _ M1 Hb) as (h2 & E2 & M2 & F2 & A2).
    exists h2. split; [exact E2|]. split; [exact M2|]. split; [eapply fr_trans; eauto|congruence].
Qed.

Lemma sl_store_spec ba bm h s p x q rest v :
  is_slice h s (p ++ x :: q) rest -> ba <= s_arr s ->
  exists h', sl_store h s (length p) v = Ok h' /\ is_slice h' s (p ++ v :: q) rest /\
             fr ba bm h h' /\ h_maps h' = h_maps h.
Proof.
  intros H Hb. pose proof (is_slice_ok _ _ _ _ H) as Hok. destruct H as (H1 & H2 & H3 & H4).
  unfold sl_store, get_arr. rewrite H3, app_length. cbn [length].
  replace (length p + S (length q) <=? length p) with false by (symmetry; apply Nat.leb_gt; lia).
  rewrite H1. cbn [bind]. rewrite Hok.
  eexists. split; [reflexivity|]. split; [|split; [apply fr_set_arr; auto|reflexivity]].
  unfold is_slice. rewrite get_set_arr by (eapply nth_some_lt; eauto).
  rewrite H2, H3, H4. cbn [plus].
  replace ((p ++ x :: q) ++ rest) with (p ++ [x] ++ (q ++ rest)) by (rewrite <- app_assoc; reflexivity).
  rewrite (write_mid p [x] (q ++ rest)) by reflexivity.
  split; [rewrite <- app_assoc; reflexivity|].
  rewrite !app_length. cbn [length]. repeat split; lia.
Qed.

Lemma keys_loop_spec ba bm s es : forall done zs h,
  is_slice h s (done ++ zs) [] -> length zs = length es -> ba <= s_arr s ->
  exists h', keys_loop h s (length done) es = Ok h' /\ is_slice h' s (done ++ map fst es) [] /\
             fr ba bm h h' /\ h_maps h' = h_maps h.
Proof.
  induction es as [|[k v] t IH]; intros done zs h H Hl Hb; cbn [keys_loop map fst].
  - destruct zs; [|discriminate]. exists h. split; [reflexivity|]. split; [exact H|]. split; [apply fr_refl|reflexivity].
  - destruct zs as [|z zs]; [discriminate|]. cbn [length] in Hl.
    destruct (sl_store_spec ba bm h s done z zs [] k H Hb) as (h1 & E1 & S1 & F1 & M1).
    rewrite E1. cbn [bind].
    replace (done ++ k :: zs) with ((done ++ [k]) ++ zs) in S1 by (rewrite <- app_assoc; reflexivity).
    destruct (IH (done ++ [k]) zs h1 S1) as (h2 & E2 & S2 & F2 & M2); [lia|auto|].
    rewrite app_length in E2. cbn [length] in E2. rewrite Nat.add_1_r in E2.
    exists h2. split; [exact E2|]. rewrite <- app_assoc in S2. split; [exact S2|].
    split; [eapply fr_trans; eauto|congruence].
Qed.

Section MapProofs.
  Variable order : amap -> amap.
  Hypothesis order_perm : forall e, Permutation (order e) e.

  Lemma map_clone_spec ba h m e : is_map h m e -> keys_asc e ->
    exists h', map_clone order h m = Ok (h', length (h_maps h)) /\ is_map h' (length (h_maps h)) e /\
               fr ba (length (h_maps h)) h h' /\ h_arrs h' = h_arrs h.
  Proof.
    intros H He. pose proof (nth_some_lt _ _ _ H) as Hlt.
    unfold map_clone, map_len, get_map. rewrite H. cbn [bind]. unfold map_make, map_alloc. cbv iota beta.
    match goal with |- context [map_range order ?hh m] => set (h1 := hh) end.
    assert (F1 : fr ba (length (h_maps h)) h h1) by (apply fr_alloc_map; auto).
    assert (H1 : is_map h1 m e) by (eapply is_map_fr; eauto).
    assert (H2 : is_map h1 (length (h_maps h)) []).
    { unfold is_map, h1; cbn [h_maps]. rewrite nth_error_app2, Nat.sub_diag by lia. reflexivity. }
    unfold map_range, get_map. rewrite H1. cbn [bind].
    destruct (store_all_spec ba (length (h_maps h)) (length (h_maps h)) (order e) h1 [] H2) as (h2 & E2 & M2 & F2 & A2); auto.
    rewrite E2. cbn [bind]. rewrite (fold_set_perm e (order e) He (order_perm e)) in M2.
    exists h2. split; [reflexivity|]. split; [exact M2|]. split; [eapply fr_trans; eauto|exact A2].
  Qed.

  Lemma map_inc_spec ba h m e k : is_map h m e -> keys_asc e ->
    exists h', map_inc order h m k = Ok (h', length (h_maps h)) /\ is_map h' (length (h_maps h)) (abs_inc e k) /\
               fr ba (length (h_maps h)) h h' /\ h_arrs h' = h_arrs h.
  Proof.
    intros H He. destruct (map_clone_spec ba h m e H He) as (h1 & E1 & M1 & F1 & A1).
    unfold map_inc. rewrite E1. cbn [bind]. unfold map_lookup, get_map. rewrite M1. cbn [bind].
    unfold abs_inc.
    destruct (amap_get e k) as [v|].
    - destruct (map_store_spec ba (length (h_maps h)) h1 (length (h_maps h)) e k (v + 1)%Z M1) as (h2 & E2 & M2 & F2 & A2 & _);
        [lia|].
      rewrite E2. cbn [bind]. exists h2. split; [reflexivity|]. split; [exact M2|].
      split; [eapply fr_trans; eauto|congruence].
    - destruct (map_store_spec ba (length (h_maps h)) h1 (length (h_maps h)) e k 1%Z M1) as (h2 & E2 & M2 & F2 & A2 & _);
        [lia|].
      rewrite E2. cbn [bind]. exists h2. split; [reflexivity|]. split; [exact M2|].
      split; [eapply fr_trans; eauto|congruence].
  Qed.

  Lemma filter_loop_spec ba bm e m m2 ks : m < bm -> bm <= m2 -> forall h acc,
    is_map h m e -> is_map h m2 acc ->
    exists h', filter_loop h m m2 ks = Ok h' /\ is_map h' m2 (filter_fold e acc ks) /\
               fr ba bm h h' /\ h_arrs h' = h_arrs h.
  Proof.
    intros Hm Hm2. induction ks as [|k t IH]; intros h acc H H2; cbn [filter_loop filter_fold].
    - exists h. split; [reflexivity|]. split; [exact H2|]. split; [apply fr_refl|reflexivity].
    - unfold map_lookup, get_map. rewrite H. cbn [bind].
      destruct (amap_get e k) as [v|].
      + destruct (map_store_spec ba bm h m2 acc k v H2 Hm2) as (h1 & E1 & M1 & F1 & A1 & O1).
        rewrite E1. cbn [bind].
        destruct (IH h1 (amap_set acc k v)) as (h2 & E2 & M2 & F2 & A2); [apply O1; [lia|exact H]|exact M1|].
        exists h2. split; [exact E2|]. split; [exact M2|]. split; [eapply fr_trans; eauto|congruence].
      + apply IH; auto.
  Qed.

  Lemma map_filter_spec ba h m e s l r : is_map h m e -> keys_asc e -> is_slice h s l r ->
    exists h', map_filter h m s = Ok (h', length (h_maps h)) /\
               is_map h' (length (h_maps h)) (abs_filter e l) /\
               fr ba (length (h_maps h)) h h' /\ h_arrs h' = h_arrs h.
  Proof.
    intros H He Hs. pose proof (nth_some_lt _ _ _ H) as Hlt.
    unfold map_filter, map_make, map_alloc, set_each. cbv iota beta.
    match goal with |- context [sl_read ?hh s] => set (h1 := hh) end.
    assert (F1 : fr ba (length (h_maps h)) h h1) by (apply fr_alloc_map; auto).
    assert (H1 : is_map h1 m e) by (eapply is_map_fr; eauto).
    assert (H2 : is_map h1 (length (h_maps h)) []).
    { unfold is_map, h1; cbn [h_maps]. rewrite nth_error_app2, Nat.sub_diag by lia. reflexivity. }
    assert (Hs1 : is_slice h1 s l r) by (eapply is_slice_arrs; [|exact Hs]; reflexivity).
    rewrite (sl_read_spec _ _ _ _ Hs1). cbn [bind].
    destruct (filter_loop_spec ba (length (h_maps h)) e m (length (h_maps h)) l Hlt (le_n _) h1 [] H1 H2)
      as (h2 & E2 & M2 & F2 & A2).
    rewrite E2. cbn [bind]. rewrite (filter_fold_spec e l He) in M2.
    exists h2. split; [reflexivity|]. split; [exact M2|]. split; [eapply fr_trans; eauto|exact A2].
  Qed.

  Lemma map_keys_spec bm h m e : is_map h m e ->
    exists h', map_keys order h m = Ok (h', map fst (order e)) /\
               fr (length (h_arrs h)) bm h h' /\ h_maps h' = h_maps h.
  Proof.
    intros H. unfold map_keys, map_len, get_map. rewrite H. cbn [bind].
    destruct (sl_make_spec (length (h_arrs h)) bm h (length e) (length e)) as (h1 & s & E1 & S1 & F1 & A1 & M1);
      try lia.
    rewrite E1. cbn [bind]. rewrite Nat.sub_diag in S1. cbn [repeat] in S1.
    unfold map_range, get_map. rewrite M1, H. cbn [bind].
    destruct (keys_loop_spec (length (h_arrs h)) bm s (order e) [] (repeat 0%Z (length e)) h1 S1)
      as (h2 & E2 & S2 & F2 & M2).
    { rewrite repeat_length. symmetry. apply Permutation_length, order_perm. }
    { lia. }
    cbn [length] in E2. rewrite E2. cbn [bind]. cbn [app] in S2.
    rewrite (sl_read_spec _ _ _ _ S2). cbn [bind].
    exists h2. split; [reflexivity|]. split; [eapply fr_trans; eauto|congruence].
  Qed.
End MapProofs.

(* ================================================================== *)
(* 7. Histories: the heap machine simulates the abstract machine *)

(* every value ever returned is a well-formed header onto an ascending run of cells /
   a reference to a map with ascending keys *)
Definition wf_val (h : heap) (v : value) : Prop :=
  match v with
  | VSet s => exists l rest, is_slice h s l rest /\ asc l
  | VMap m => exists e, is_map h m e /\ keys_asc e
  end.
Definition inv (st : state) : Prop := Forall (wf_val (st_heap st)) (st_vals st).

(* h' extends h: no array or map that exists in h was written *)
Definition hext (h h' : heap) : Prop := fr (length (h_arrs h)) (length (h_maps h)) h h'.

Lemma hext_refl h : hext h h.
Proof. apply fr_refl. Qed.

Lemma hext_trans h1 h2 h3 : hext h1 h2 -> hext h2 h3 -> hext h1 h3.
Proof.
  unfold hext. intros F1 F2. eapply fr_trans; [exact F1|].
  destruct F1 as (_ & _ & LA & LM). eapply fr_weaken; [| |exact F2]; lia.
Qed.

Lemma wf_val_ext h h' v : hext h h' -> wf_val h v -> wf_val h' v /\ abs_val h' v = abs_val h v.
Proof.
  intros F. destruct v as [s|m]; cbn [wf_val abs_val].
  - intros (l & rest & Hs & Ha).
    assert (Hs' : is_slice h' s l rest).
    { eapply is_slice_fr; [exact F| |exact Hs]. destruct Hs as (H1 & _). eapply nth_some_lt; eauto. }
    split; [exists l, rest; auto|]. rewrite (is_slice_view _ _ _ _ Hs), (is_slice_view _ _ _ _ Hs'). reflexivity.
  - intros (e & Hm & He).
    assert (Hm' : is_map h' m e) by (eapply is_map_fr; [exact F| |exact Hm]; eapply nth_some_lt; eauto).
    split; [exists e; auto|]. unfold is_map in *. rewrite Hm, Hm'. reflexivity.
Qed.

Lemma vals_ext h h' vals : hext h h' -> Forall (wf_val h) vals ->
  Forall (wf_val h') vals /\ map (abs_val h') vals = map (abs_val h) vals.
Proof.
  intros F H. induction H as [|v t Hv Ht [IH1 IH2]]; [split; [constructor|reflexivity]|].
  destruct (wf_val_ext h h' v F Hv) as [W E]. split; [constructor; auto|]. cbn [map]. rewrite E, IH2. reflexivity.
Qed.

Lemma push_ok st h' v a : inv st -> hext (st_heap st) h' -> wf_val h' v -> abs_val h' v = a ->
  inv (push st h' v) /\ abs_state (push st h' v) = abs_state st ++ [a].
Proof.
  intros Hi F W E. destruct (vals_ext _ _ _ F Hi) as [V1 V2]. unfold inv, abs_state, push; cbn [st_heap st_vals].
  split.
  - apply Forall_app. split; [exact V1|]. constructor; [exact W|constructor].
  - rewrite map_app, V2. cbn [map]. rewrite E. reflexivity.
Qed.

Lemma reheap_ok st h' : inv st -> hext (st_heap st) h' ->
  inv (mkstate h' (st_vals st)) /\ abs_state (mkstate h' (st_vals st)) = abs_state st.
Proof.
  intros Hi F. destruct (vals_ext _ _ _ F Hi) as [V1 V2]. unfold inv, abs_state; cbn [st_heap st_vals]. auto.
Qed.

Lemma aget_set_sound st i l : inv st -> aget_set (abs_state st) i = Some l ->
  exists s rest, get_set st i = Ok s /\ is_slice (st_heap st) s l rest /\ asc l.
Proof.
  unfold inv, aget_set, abs_state, get_set. intros Hi H. rewrite nth_error_map in H.
  destruct (nth_error (st_vals st) (N.to_nat i)) as [v|] eqn:E; [|discriminate].
  pose proof (proj1 (Forall_forall _ _) Hi v (nth_error_In _ _ E)) as W.
  destruct v as [s|m]; cbn [option_map abs_val] in H; [|discriminate].
  destruct W as (l' & rest & Hs & Ha). rewrite (is_slice_view _ _ _ _ Hs) in H. inversion H; subst.
  exists s, rest. auto.
Qed.

Lemma aget_map_sound st i e : inv st -> aget_map (abs_state st) i = Some e ->
  exists m, get_mapv st i = Ok m /\ is_map (st_heap st) m e /\ keys_asc e.
Proof.
  unfold inv, aget_map, abs_state, get_mapv. intros Hi H. rewrite nth_error_map in H.
  destruct (nth_error (st_vals st) (N.to_nat i)) as [v|] eqn:E; [|discriminate].
  pose proof (proj1 (Forall_forall _ _) Hi v (nth_error_In _ _ E)) as W.
  destruct v as [s|m]; cbn [option_map abs_val] in H; [discriminate|].
  destruct W as (e' & Hm & He). unfold is_map in Hm. rewrite Hm in H. inversion H; subst.
  exists m. auto.
Qed.

(* results agree; Keys and map Each as bags (Go's map iteration order is unspecified) *)
Definition res_match (r ar : result) : Prop :=
  match r, ar with
  | RNone, RNone => True
  | RInt a, RInt b => a = b
  | RList a, RList b => a = b
  | RKeys a, RKeys b => Permutation a b
  | RPairs a, RPairs b => Permutation a b
  | _, _ => False
  end.

Definition grows (st st' : state) : Prop :=
  hext (st_heap st) (st_heap st') /\ exists new, st_vals st' = st_vals st ++ new.

Section Simulation.
  Variable grow : nat -> nat.
  Variable order : amap -> amap.
  Hypothesis order_perm : forall e, Permutation (order e) e.

  Theorem step_sim st o avs' ar :
    inv st -> astep (abs_state st) o = Some (avs', ar) ->
    exists st' r, step grow order st o = Ok (st', r) /\ inv st' /\ abs_state st' = avs' /\
                  res_match r ar /\ grows st st'.
  Proof.
    intros Hi H. unfold step. destruct o; cbn [astep step_with] in *.
    - (* NewIntSet *)
      inversion H; subst; clear H.
      destruct (new_int_set_spec grow (length (h_maps (st_heap st))) (st_heap st) vals)
        as (h' & s' & r' & E & S' & F & _ & _).
      rewrite E. cbn [bind].
      destruct (push_ok st h' (VSet s') (ASet (set_of_list vals)) Hi F) as [I' A'].
      { exists (set_of_list vals), r'. split; [exact S'|apply set_of_list_asc]. }
      { cbn [abs_val]. rewrite (is_slice_view _ _ _ _ S'). reflexivity. }
      eexists _, _. split; [reflexivity|]. split; [exact I'|]. split; [exact A'|]. split; [exact I|].
      split; [exact F|eexists; reflexivity].
    - (* Insert *)
      destruct (aget_set (abs_state st) i) as [l|] eqn:G; cbn [opt_bind] in H; [|discriminate].
      inversion H; subst; clear H.
      destruct (aget_set_sound st i l Hi G) as (s & rest & Gs & Hs & Ha). rewrite Gs. cbn [bind].
      destruct (set_insert_fixed_spec grow (length (h_maps (st_heap st))) (st_heap st) s l rest v Hs Ha)
        as (h' & s' & r' & E & S' & F & _).
      rewrite E. cbn [bind].
      destruct (push_ok st h' (VSet s') (ASet (set_insert v l)) Hi F) as [I' A'].
      { exists (set_insert v l), r'. split; [exact S'|apply set_insert_asc, Ha]. }
      { cbn [abs_val]. rewrite (is_slice_view _ _ _ _ S'). reflexivity. }
      eexists _, _. split; [reflexivity|]. split; [exact I'|]. split; [exact A'|]. split; [exact I|].
      split; [exact F|eexists; reflexivity].
    - (* Union *)
      destruct (aget_set (abs_state st) i) as [l1|] eqn:G1; cbn [opt_bind] in H; [|discriminate].
      destruct (aget_set (abs_state st) j) as [l2|] eqn:G2; cbn [opt_bind] in H; [|discriminate].
      inversion H; subst; clear H.
      destruct (aget_set_sound st i l1 Hi G1) as (s1 & r1 & Gs1 & Hs1 & Ha1).
      destruct (aget_set_sound st j l2 Hi G2) as (s2 & r2 & Gs2 & Hs2 & Ha2).
      rewrite Gs1, Gs2. cbn [bind].
      destruct (set_union_heap_spec grow (length (h_maps (st_heap st))) (st_heap st) s1 s2 l1 l2 r1 r2 Hs1 Hs2 Ha1 Ha2)
        as (h' & s' & r' & E & S' & F & _).
      rewrite E. cbn [bind].
      destruct (push_ok st h' (VSet s') (ASet (set_union l1 l2)) Hi F) as [I' A'].
      { exists (set_union l1 l2), r'. split; [exact S'|apply set_union_asc, Ha1]. }
      { cbn [abs_val]. rewrite (is_slice_view _ _ _ _ S'). reflexivity. }
      eexists _, _. split; [reflexivity|]. split; [exact I'|]. split; [exact A'|]. split; [exact I|].
      split; [exact F|eexists; reflexivity].
    - (* Len *)
      destruct (aget_set (abs_state st) i) as [l|] eqn:G; cbn [opt_bind] in H; [|discriminate].
      inversion H; subst; clear H.
      destruct (aget_set_sound st i l Hi G) as (s & rest & Gs & Hs & Ha). rewrite Gs. cbn [bind].
      eexists _, _. split; [reflexivity|]. split; [exact Hi|]. split; [reflexivity|].
      split; [|split; [apply hext_refl|exists []; symmetry; apply app_nil_r]].
      cbn [res_match]. unfold set_len. destruct Hs as (_ & _ & L & _). rewrite L. reflexivity.
    - (* Each (set) *)
      destruct (aget_set (abs_state st) i) as [l|] eqn:G; cbn [opt_bind] in H; [|discriminate].
      inversion H; subst; clear H.
      destruct (aget_set_sound st i l Hi G) as (s & rest & Gs & Hs & Ha). rewrite Gs. cbn [bind].
      unfold set_each. rewrite (sl_read_spec _ _ _ _ Hs). cbn [bind].
      eexists _, _. split; [reflexivity|]. split; [exact Hi|]. split; [reflexivity|].
      split; [reflexivity|split; [apply hext_refl|exists []; symmetry; apply app_nil_r]].
    - (* NewIntMap(nil) *)
      inversion H; subst; clear H. unfold map_make, map_alloc.
      match goal with |- context [push st ?hh _] => set (h' := hh) end.
      assert (F : hext (st_heap st) h') by (apply fr_alloc_map; auto).
      assert (M : is_map h' (length (h_maps (st_heap st))) []).
      { unfold is_map, h'; cbn [h_maps]. rewrite nth_error_app2, Nat.sub_diag by lia. reflexivity. }
      destruct (push_ok st h' (VMap (length (h_maps (st_heap st)))) (AMap []) Hi F) as [I' A'].
      { exists []. split; [exact M|exact I]. }
      { cbn [abs_val]. unfold is_map in M. rewrite M. reflexivity. }
      eexists _, _. split; [reflexivity|]. split; [exact I'|]. split; [exact A'|]. split; [exact I|].
      split; [exact F|eexists; reflexivity].
    - (* NewIntMap(m) *)
      inversion H; subst; clear H. unfold map_alloc.
      match goal with |- context [push st ?hh _] => set (h' := hh) end.
      assert (F : hext (st_heap st) h') by (apply fr_alloc_map; auto).
      assert (M : is_map h' (length (h_maps (st_heap st))) (map_of_list kvs)).
      { unfold is_map, h'; cbn [h_maps]. rewrite nth_error_app2, Nat.sub_diag by lia. reflexivity. }
      destruct (push_ok st h' (VMap (length (h_maps (st_heap st)))) (AMap (map_of_list kvs)) Hi F) as [I' A'].
      { exists (map_of_list kvs). split; [exact M|apply map_of_list_asc]. }
      { cbn [abs_val]. unfold is_map in M. rewrite M. reflexivity. }
      eexists _, _. split; [reflexivity|]. split; [exact I'|]. split; [exact A'|]. split; [exact I|].
      split; [exact F|eexists; reflexivity].
    - (* Inc *)
      destruct (aget_map (abs_state st) i) as [e|] eqn:G; cbn [opt_bind] in H; [|discriminate].
      inversion H; subst; clear H.
      destruct (aget_map_sound st i e Hi G) as (m & Gm & Hm & He). rewrite Gm. cbn [bind].
      destruct (map_inc_spec order order_perm (length (h_arrs (st_heap st))) (st_heap st) m e k Hm He)
        as (h' & E & M' & F & _).
      rewrite E. cbn [bind].
      destruct (push_ok st h' (VMap (length (h_maps (st_heap st)))) (AMap (abs_inc e k)) Hi F) as [I' A'].
      { exists (abs_inc e k). split; [exact M'|apply amap_set_asc, He]. }
      { cbn [abs_val]. unfold is_map in M'. rewrite M'. reflexivity. }
      eexists _, _. split; [reflexivity|]. split; [exact I'|]. split; [exact A'|]. split; [exact I|].
      split; [exact F|eexists; reflexivity].
    - (* Filter *)
      destruct (aget_map (abs_state st) i) as [e|] eqn:G; cbn [opt_bind] in H; [|discriminate].
      destruct (aget_set (abs_state st) j) as [l|] eqn:G2; cbn [opt_bind] in H; [|discriminate].
      inversion H; subst; clear H.
      destruct (aget_map_sound st i e Hi G) as (m & Gm & Hm & He).
      destruct (aget_set_sound st j l Hi G2) as (s & rest & Gs & Hs & Ha).
      rewrite Gm, Gs. cbn [bind].
      destruct (map_filter_spec (length (h_arrs (st_heap st))) (st_heap st) m e s l rest Hm He Hs)
        as (h' & E & M' & F & _).
      rewrite E. cbn [bind].
      destruct (push_ok st h' (VMap (length (h_maps (st_heap st)))) (AMap (abs_filter e l)) Hi F) as [I' A'].
      { exists (abs_filter e l). split; [exact M'|apply filter_keys_asc, He]. }
      { cbn [abs_val]. unfold is_map in M'. rewrite M'. reflexivity. }
      eexists _, _. split; [reflexivity|]. split; [exact I'|]. split; [exact A'|]. split; [exact I|].
      split; [exact F|eexists; reflexivity].
    - (* Get *)
      destruct (aget_map (abs_state st) i) as [e|] eqn:G; cbn [opt_bind] in H; [|discriminate].
      inversion H; subst; clear H.
      destruct (aget_map_sound st i e Hi G) as (m & Gm & Hm & He). rewrite Gm. cbn [bind].
      unfold map_get, map_lookup, get_map. unfold is_map in Hm. rewrite Hm. cbn [bind].
      eexists _, _. split; [reflexivity|]. split; [exact Hi|]. split; [reflexivity|].
      split; [reflexivity|split; [apply hext_refl|exists []; symmetry; apply app_nil_r]].
    - (* Keys *)
      destruct (aget_map (abs_state st) i) as [e|] eqn:G; cbn [opt_bind] in H; [|discriminate].
      inversion H; subst; clear H.
      destruct (aget_map_sound st i e Hi G) as (m & Gm & Hm & He). rewrite Gm. cbn [bind].
      destruct (map_keys_spec order order_perm (length (h_maps (st_heap st))) (st_heap st) m e Hm) as (h' & E & F & _).
      rewrite E. cbn [bind].
      destruct (reheap_ok st h' Hi F) as [I' A'].
      eexists _, _. split; [reflexivity|]. split; [exact I'|]. split; [exact A'|].
      split; [cbn [res_match]; apply Permutation_map, order_perm|].
      split; [exact F|exists []; symmetry; apply app_nil_r].
    - (* Each (map) *)
      destruct (aget_map (abs_state st) i) as [e|] eqn:G; cbn [opt_bind] in H; [|discriminate].
      inversion H; subst; clear H.
      destruct (aget_map_sound st i e Hi G) as (m & Gm & Hm & He). rewrite Gm. cbn [bind].
      unfold map_each, map_range, get_map. unfold is_map in Hm. rewrite Hm. cbn [bind].
      eexists _, _. split; [reflexivity|]. split; [exact Hi|]. split; [reflexivity|].
      split; [cbn [res_match]; apply order_perm|split; [apply hext_refl|exists []; symmetry; apply app_nil_r]].
  Qed.

  Lemma grows_refl st : grows st st.
  Proof. split; [apply hext_refl|exists []; symmetry; apply app_nil_r]. Qed.
  Lemma grows_trans a b c : grows a b -> grows b c -> grows a c.
  Proof.
    intros [F1 [n1 E1]] [F2 [n2 E2]]. split; [eapply hext_trans; eauto|].
    exists (n1 ++ n2). rewrite E2, E1, app_assoc. reflexivity.
  Qed.

  Theorem run_sim ops : forall st avs,
    inv st -> arun (abs_state st) ops = Some avs ->
    exists st', run grow order st ops = Ok st' /\ inv st' /\ abs_state st' = avs /\ grows st st'.
  Proof.
    unfold run. induction ops as [|o t IH]; intros st avs Hi H; cbn [arun run_with] in *.
    - inversion H; subst. exists st. split; [reflexivity|]. split; [exact Hi|]. split; [reflexivity|apply grows_refl].
    - destruct (astep (abs_state st) o) as [[avs1 ar]|] eqn:E; cbn [opt_bind fst] in H; [|discriminate].
      destruct (step_sim st o avs1 ar Hi E) as (st1 & r & E1 & I1 & A1 & _ & G1).
      unfold step in E1. rewrite E1. cbn [bind]. rewrite <- A1 in H.
      destruct (IH st1 avs I1 H) as (st2 & E2 & I2 & A2 & G2).
      exists st2. split; [exact E2|]. split; [exact I2|]. split; [exact A2|eapply grows_trans; eauto].
  Qed.

  (* an earlier value is still in the list and still abstracts to the same set / map *)
  Lemma grows_persist st st' : inv st -> grows st st' ->
    forall i v, nth_error (st_vals st) i = Some v ->
      nth_error (st_vals st') i = Some v /\ abs_val (st_heap st') v = abs_val (st_heap st) v.
  Proof.
    intros Hi [F [new E]] i v Hn. split.
    - rewrite E, nth_error_app1; [exact Hn|]. eapply nth_some_lt; eauto.
    - pose proof (proj1 (Forall_forall _ _) Hi v (nth_error_In _ _ Hn)) as W.
      apply (wf_val_ext _ _ _ F W).
  Qed.

  Lemma init_ok : exists st0, init_state grow = Ok st0 /\ inv st0 /\ abs_state st0 = ainit.
  Proof.
    eexists. split; [reflexivity|]. split; [|reflexivity].
    repeat constructor.
    - exists [], []. split; [repeat split|exact I].
    - exists []. split; [reflexivity|exact I].
  Qed.

  Lemma arun_app a : forall avs b r, arun avs (a ++ b) = Some r ->
    exists mid, arun avs a = Some mid /\ arun mid b = Some r.
  Proof.
    induction a as [|o t IH]; intros avs b r H; cbn [app arun] in *; [eauto|].
    destruct (astep avs o) as [[avs1 ar]|]; cbn [opt_bind fst] in *; [|discriminate]. apply IH; auto.
  Qed.

  Lemma run_app a : forall st b, run grow order st (a ++ b) = bind (run grow order st a) (fun st1 => run grow order st1 b).
  Proof.
    unfold run. induction a as [|o t IH]; intros st b; cbn [app run_with bind]; [reflexivity|].
    destruct (step_with grow order (set_insert_fixed grow) st o) as [[st1 r]| |]; cbn [bind]; auto.
  Qed.

  (* ---------------- the theorems of C15 ---------------- *)

  Definition aval_sorted (a : avalue) : Prop :=
    match a with ASet l => asc l | AMap m => keys_asc m end.

  Lemma inv_sorted st : inv st -> Forall aval_sorted (abs_state st).
  Proof.
    unfold inv, abs_state. intros H. apply Forall_forall. intros a Ha.
    apply in_map_iff in Ha. destruct Ha as (v & <- & Hv).
    pose proof (proj1 (Forall_forall _ _) H v Hv) as W. destruct v as [s|m]; cbn [abs_val aval_sorted].
    - destruct W as (l & rest & Hs & Hl). rewrite (is_slice_view _ _ _ _ Hs). exact Hl.
    - destruct W as (e & Hm & He). unfold is_map in Hm. rewrite Hm. exact He.
  Qed.

  Theorem history_refines ops avs : arun ainit ops = Some avs ->
    exists st, run_history grow order ops = Ok st /\ abs_state st = avs /\ Forall aval_sorted avs.
  Proof.
    intros H. destruct init_ok as (st0 & E0 & I0 & A0). unfold run_history. rewrite E0. cbn [bind].
    rewrite <- A0 in H. destruct (run_sim ops st0 avs I0 H) as (st & E & Ist & A & _).
    exists st. split; [exact E|]. split; [exact A|]. rewrite <- A. apply inv_sorted, Ist.
  Qed.

  Theorem step_refines ops avs o avs' ar :
    arun ainit ops = Some avs -> astep avs o = Some (avs', ar) ->
    exists st st' r, run_history grow order ops = Ok st /\ abs_state st = avs /\
                     step grow order st o = Ok (st', r) /\ abs_state st' = avs' /\ res_match r ar.
  Proof.
    intros H Hs. destruct init_ok as (st0 & E0 & I0 & A0). unfold run_history. rewrite E0. cbn [bind].
    rewrite <- A0 in H. destruct (run_sim ops st0 avs I0 H) as (st & E & Ist & A & _).
    rewrite <- A in Hs. destruct (step_sim st o avs' ar Ist Hs) as (st' & r & E1 & _ & A1 & R & _).
    exists st, st', r. auto.
  Qed.

  Theorem history_persistent ops1 ops2 avs : arun ainit (ops1 ++ ops2) = Some avs ->
    exists st1 st2, run_history grow order ops1 = Ok st1 /\ run_history grow order (ops1 ++ ops2) = Ok st2 /\
      forall i v, nth_error (st_vals st1) i = Some v ->
        nth_error (st_vals st2) i = Some v /\ abs_val (st_heap st2) v = abs_val (st_heap st1) v.
  Proof.
    intros H. destruct (arun_app ops1 ainit ops2 avs H) as (mid & H1 & H2).
    destruct init_ok as (st0 & E0 & I0 & A0). unfold run_history. rewrite E0. cbn [bind].
    rewrite <- A0 in H1. destruct (run_sim ops1 st0 mid I0 H1) as (st1 & E1 & I1 & A1 & _).
    rewrite <- A1 in H2. destruct (run_sim ops2 st1 avs I1 H2) as (st2 & E2 & I2 & A2 & G2).
    exists st1, st2. split; [exact E1|]. split; [rewrite run_app, E1; exact E2|].
    apply grows_persist; auto.
  Qed.

  Theorem history_no_panic ops : arun ainit ops <> None -> exists st, run_history grow order ops = Ok st.
  Proof.
    intros H. destruct (arun ainit ops) as [avs|] eqn:E; [|congruence].
    destruct (history_refines ops avs E) as (st & Est & _). eauto.
  Qed.

  (* the Insert before commit 50f74e9: the receiver {1,3} (spare capacity 1) becomes {1,2} *)
  Theorem pinned_insert_refuted :
    exists st0 st1 st2 v,
      init_state grow = Ok st0 /\
      run_with grow order (set_insert_pinned grow) st0 [OpNewSet [1; 1; 3]%Z] = Ok st1 /\
      run_with grow order (set_insert_pinned grow) st0 [OpNewSet [1; 1; 3]%Z; OpInsert 2 2] = Ok st2 /\
      nth_error (st_vals st1) 2 = Some v /\
      abs_val (st_heap st1) v = ASet [1; 3]%Z /\ abs_val (st_heap st2) v = ASet [1; 2]%Z.
  Proof. eexists _, _, _, _. vm_compute. repeat split. Qed.
End Simulation.

(* non-vacuity: a history with sharing (Union returns an operand), reallocation and maps is well-formed *)
Example arun_example :
  arun ainit [OpNewSet [1; 1; 3]%Z; OpInsert 2 2; OpUnion 3 0; OpInsert 4 0; OpNewMap [(1, 2); (0, 7)]%Z;
              OpInc 6 1; OpFilter 7 5; OpKeys 8]
  = Some [ASet []; AMap []; ASet [1; 3]%Z; ASet [1; 2; 3]%Z; ASet [1; 2; 3]%Z; ASet [0; 1; 2; 3]%Z;
          AMap [(0, 7); (1, 2)]%Z; AMap [(0, 7); (1, 3)]%Z; AMap [(0, 7); (1, 3)]%Z].
Proof. vm_compute. reflexivity. Qed.

(* ================================================================== *)
(* 8. The abstract operations are the mathematical ones (used by Props/C15.v to pin the spec down) *)

Lemma abs_inc_get m k k' :
  amap_get (abs_inc m k) k' =
  if (k =? k')%Z then Some (match amap_get m k with Some v => (v + 1)%Z | None => 1%Z end) else amap_get m k'.
Proof. unfold abs_inc. apply amap_get_set. Qed.

Lemma abs_filter_get m s k :
  amap_get (abs_filter m s) k = if set_mem k s then amap_get m k else None.
Proof. unfold abs_filter. apply (amap_get_filter (fun x => set_mem x s)). Qed.

Lemma map_of_list_snoc kvs k v : map_of_list (kvs ++ [(k, v)]) = amap_set (map_of_list kvs) k v.
Proof. unfold map_of_list. rewrite fold_left_app. reflexivity. Qed.
