(* TopProofs.v — C04, the Evaluate clause on ENGINE nodes: "parsley.Evaluate, given an interpreter for every
   non-terminal, returns a value or an error instead of panicking".
   Model: Top.v ([eval_node] = parsley.EvaluateNode + NonTerminalNode.Value + ast/interpreter, [eval_result],
   [evaluate] = parsley.Evaluate on top of Engine.parse_top = parsley.Parse).
     1. [evaluate_outcomes], [evaluate_never_nil]: Evaluate never evaluates a missing node (the historical defect
        D3: Parse returned (nil, nil) and Evaluate dereferenced nil); a panic can only come from an interpreter
        (or from the parser itself: a dangling rule reference, excluded by [wf] — [parse_no_panic]).
     2. [eval_total]: a node all of whose non-terminals carry Nil / Array / a user interpreter / Select(i) with
        i < number of children ([interp_total]) evaluates to a value or an error: no Panic, no OutOfFuel.
     3. [xvalid_interp_total], [valid_interp_total]: for a grammar that passes the decidable check
        EngineOracles.interp_ok_expr, the yield of every valid derivation (Sound.xvalid, all combinators;
        Spec.valid, the C01 fragment) satisfies [interp_total].
     4. [C04_evaluate_total], [C04_evaluate_sentence_total]: for such grammars (well-formed as in
        Sound.C01_sound_all) Evaluate returns a value, a parse error or an evaluation error, for every input and
        every fuel (or the parse itself ran out of fuel); never Panic.
   The hypotheses are shown necessary by the examples at the end (no interpreter; Select(0) on Many; Select(1) on
   SeqTry).  The user interpreter [IUser id] is the model's "evaluate all children in order, first error aborts,
   return the list of their values" (a user interpreter that panics by itself is outside the statement). *)
From Coq Require Import String List NArith ZArith Bool Arith Lia.
From Parsley Require Import Obs Base Grammar Engine EngineFacts Spec Sound Top.
From Parsley Require EngineOracles.
Import ListNotations.
Open Scope N_scope.

Notation interp_ok_expr := EngineOracles.interp_ok_expr.
Notation ip_ok := EngineOracles.ip_ok.
Notation min_children := EngineOracles.min_children.
Notation never_own_node := EngineOracles.never_own_node.

(* ------------------------------------------------------------------------------------- *)
(* Part 0: induction on nodes (children are a nested list), the local loops of eval_node    *)
(* ------------------------------------------------------------------------------------- *)

Section NodeInd.
  Variable P : node -> Prop.
  Hypothesis Hterm : forall t v p r, P (NTerm t v p r).
  Hypothesis Hempty : forall p, P (NEmpty p).
  Hypothesis Hend : forall p, P (NEnd p).
  Hypothesis Hnt : forall t i cs p r, Forall P cs -> P (NNonTerm t i cs p r).
  Fixpoint node_ind2 (n : node) : P n :=
    match n with
    | NTerm t v p r => Hterm t v p r
    | NEmpty p => Hempty p
    | NEnd p => Hend p
    | NNonTerm t i cs p r =>
      Hnt t i cs p r ((fix go (l : list node) : Forall P l :=
                         match l with [] => Forall_nil P | x :: t => Forall_cons x (node_ind2 x) (go t) end) cs)
    end.
End NodeInd.

(* the four local fixpoints of Top.eval_node as top-level functions *)
Fixpoint all_of (l : list node) : outcome (list value + perr) :=
  match l with
  | [] => Ok (inl [])
  | c :: t => match eval_node c with
              | Ok (inl v) => match all_of t with Ok (inl vs) => Ok (inl (v :: vs)) | o => o end
              | Ok (inr e) => Ok (inr e)
              | Panic => Panic
              | OutOfFuel => OutOfFuel
              end
  end.
Fixpoint evens_of (l : list node) (take : bool) {struct l} : outcome (list value + perr) :=
  match l with
  | [] => Ok (inl [])
  | c :: t =>
    if take then
      match eval_node c with
      | Ok (inl v) => match evens_of t false with Ok (inl vs) => Ok (inl (v :: vs)) | o => o end
      | Ok (inr e) => Ok (inr e)
      | Panic => Panic
      | OutOfFuel => OutOfFuel
      end
    else evens_of t true
  end.
Fixpoint object_of (l : list node) (take : bool) (acc : list (list N * value)) {struct l} : vres :=
  match l with
  | [] => Ok (inl (ValMap acc))
  | kv :: t =>
    if take then
      match kv with
      | NNonTerm _ _ (k :: _ :: v :: _) _ _ =>
        match eval_node k with
        | Ok (inl kval) =>
          match eval_node v with
          | Ok (inl vval) =>
            match kval with
            | ValLit (VStr s) => object_of t false (map_put s vval acc)
            | _ => Panic
            end
          | Ok (inr e) => Ok (inr e)
          | Panic => Panic
          | OutOfFuel => OutOfFuel
          end
        | Ok (inr e) => Ok (inr e)
        | Panic => Panic
        | OutOfFuel => OutOfFuel
        end
      | _ => Panic
      end
    else object_of t true acc
  end.
Fixpoint sel_of (l : list node) (i : nat) {struct l} : vres :=
  match l, i with
  | [], _ => Panic
  | c :: _, O => eval_node c
  | _ :: t, S j => sel_of t j
  end.

Definition lift_list (o : outcome (list value + perr)) : vres :=
  match o with Ok (inl vs) => Ok (inl (ValList vs)) | Ok (inr e) => Ok (inr e) | Panic => Panic | OutOfFuel => OutOfFuel end.

Lemma eval_nonterm_unfold tok ip cs p r :
  eval_node (NNonTerm tok ip cs p r) =
  match ip with
  | INone => Panic
  | ISelect i => sel_of cs (N.to_nat i)
  | INil => Ok (inl ValNil)
  | IArray => lift_list (evens_of cs true)
  | IObject => object_of cs true []
  | IUser _ => lift_list (all_of cs)
  end.
Proof. destruct ip; reflexivity. Qed.

(* ------------------------------------------------------------------------------------- *)
(* Part 1: evaluation has no fuel; the outcomes of Evaluate; never a missing node           *)
(* ------------------------------------------------------------------------------------- *)

Definition fuel_free (n : node) : Prop := eval_node n <> OutOfFuel.
Definition fuel_free2 (n : node) : Prop :=
  fuel_free n /\ match n with NNonTerm _ _ cs _ _ => Forall fuel_free cs | _ => True end.

Lemma all_of_fuel_free l : Forall fuel_free l -> all_of l <> OutOfFuel.
Proof.
  induction 1 as [|c t Hc _ IH]; cbn [all_of]; [discriminate|].
  unfold fuel_free in Hc. destruct (eval_node c) as [[v|e]| |]; try discriminate; [|congruence].
  destruct (all_of t) as [[vs|e]| |]; try discriminate. congruence.
Qed.
Lemma evens_of_fuel_free l : Forall fuel_free l -> forall b, evens_of l b <> OutOfFuel.
Proof.
  induction 1 as [|c t Hc _ IH]; intros b; cbn [evens_of]; [discriminate|].
  destruct b; [|apply IH].
  unfold fuel_free in Hc. destruct (eval_node c) as [[v|e]| |]; try discriminate; [|congruence].
  specialize (IH false). destruct (evens_of t false) as [[vs|e]| |]; try discriminate. congruence.
Qed.
Lemma sel_of_fuel_free l : Forall fuel_free l -> forall i, sel_of l i <> OutOfFuel.
Proof.
  induction 1 as [|c t Hc _ IH]; intros i; cbn [sel_of]; [destruct i; discriminate|].
  destruct i; [exact Hc|apply IH].
Qed.
Lemma object_of_fuel_free l : Forall fuel_free2 l -> forall b acc, object_of l b acc <> OutOfFuel.
Proof.
  induction 1 as [|kv t Hkv _ IH]; intros b acc; cbn [object_of]; [discriminate|].
  destruct b; [|apply IH].
  destruct kv as [| | |tok ip cs p r]; try discriminate.
  destruct cs as [|k [|s [|v cs]]]; try discriminate.
  destruct Hkv as [_ Hcs]. inversion Hcs as [|? ? Hk Hcs1]; subst. inversion Hcs1 as [|? ? _ Hcs2]; subst.
  inversion Hcs2 as [|? ? Hv _]; subst. unfold fuel_free in Hk, Hv.
  destruct (eval_node k) as [[kval|e]| |]; try discriminate; [|congruence].
  destruct (eval_node v) as [[vval|e]| |]; try discriminate; [|congruence].
  destruct kval as [[]| | |]; try discriminate. apply IH.
Qed.

Lemma eval_node_fuel_free2 n : fuel_free2 n.
Proof.
  induction n as [| | |t ip cs p r IH] using node_ind2; try (split; [discriminate|exact I]).
  assert (Hcs : Forall fuel_free cs).
  { clear -IH. induction IH as [|x l [Hx _] _ IHl]; constructor; assumption. }
  split; [|exact Hcs]. unfold fuel_free. rewrite eval_nonterm_unfold. destruct ip; try discriminate.
  - apply sel_of_fuel_free; exact Hcs.
  - pose proof (evens_of_fuel_free cs Hcs true) as H. unfold lift_list.
    destruct (evens_of cs true) as [[vs|e]| |]; try discriminate. congruence.
  - apply object_of_fuel_free; exact IH.
  - pose proof (all_of_fuel_free cs Hcs) as H. unfold lift_list.
    destruct (all_of cs) as [[vs|e]| |]; try discriminate. congruence.
Qed.

(* EvaluateNode has no recursion budget of its own in the model: it never runs out of fuel *)
Theorem eval_node_fuel_free n : eval_node n <> OutOfFuel.
Proof. exact (proj1 (eval_node_fuel_free2 n)). Qed.

(* what EvaluateNode does with Parse's result: only a single node can make it panic *)
Lemma eval_result_panic ns : eval_result ns = Panic -> ns = [] \/ exists n, ns = [n] /\ eval_node n = Panic.
Proof.
  destruct ns as [|n [|m ns]]; cbn [eval_result]; intros H; [left; reflexivity| |discriminate].
  right. exists n. split; [reflexivity|exact H].
Qed.
Lemma eval_result_fuel_free ns : eval_result ns <> OutOfFuel.
Proof. destruct ns as [|n [|m ns]]; cbn [eval_result]; try discriminate. apply eval_node_fuel_free. Qed.

(* parsley.Evaluate returns exactly one of: a value (of the single parse tree), Parse's error, an evaluation error
   (of the single tree, or "node does not have a value" for a list of alternatives), a panic — which is the
   parser's own or an interpreter's on the single tree —, and it runs out of fuel only if the parse does *)
Theorem evaluate_outcomes inp rules fuel root :
  match evaluate inp rules fuel root with
  | Ok (EvValue v) => exists n c, parse_top inp rules fuel root = Ok (TopNode [n] c) /\ eval_node n = Ok (inl v)
  | Ok (EvParseErr e) => exists c, parse_top inp rules fuel root = Ok (TopErr e c)
  | Ok (EvEvalErr e) => exists n ns c, parse_top inp rules fuel root = Ok (TopNode (n :: ns) c) /\
                                       eval_result (n :: ns) = Ok (inr e)
  | Panic => parse_top inp rules fuel root = Panic \/
             exists n c, parse_top inp rules fuel root = Ok (TopNode [n] c) /\ eval_node n = Panic
  | OutOfFuel => parse_top inp rules fuel root = OutOfFuel
  end.
Proof.
  unfold evaluate. destruct (parse_top inp rules fuel root) as [t| |] eqn:E; cbn [bind]; [|left; reflexivity|reflexivity].
  pose proof (parse_top_xor inp rules fuel root t E) as Hx.
  destruct t as [ns c|e c]; [|exists c; reflexivity].
  destruct ns as [|n ns]; [exfalso; apply Hx; reflexivity|].
  destruct (eval_result (n :: ns)) as [[v|e]| |] eqn:Er.
  - destruct ns as [|m ns]; [|cbn [eval_result] in Er; discriminate].
    exists n, c. split; [reflexivity|exact Er].
  - exists n, ns, c. split; [reflexivity|exact Er].
  - right. apply eval_result_panic in Er. destruct Er as [Er|[n' [Er1 Er2]]]; [discriminate|].
    inversion Er1; subst. exists n', c. split; [reflexivity|exact Er2].
  - exfalso. exact (eval_result_fuel_free _ Er).
Qed.

(* Evaluate never reaches [eval_result []] (the nil dereference of the original code): a panic of Evaluate is the
   parser's own panic (a dangling rule reference; see [parse_top_no_panic]) or comes from an interpreter applied to
   the non-empty result of Parse *)
Theorem evaluate_never_nil inp rules fuel root :
  evaluate inp rules fuel root = Panic ->
  parse_top inp rules fuel root = Panic \/
  exists n ns c, parse_top inp rules fuel root = Ok (TopNode (n :: ns) c) /\ eval_result (n :: ns) = Panic.
Proof.
  intros H. pose proof (evaluate_outcomes inp rules fuel root) as Ho. rewrite H in Ho.
  destruct Ho as [Ho|[n [c [Hp He]]]]; [left; exact Ho|right].
  exists n, [], c. split; [exact Hp|exact He].
Qed.

(* ------------------------------------------------------------------------------------- *)
(* Part 2: nodes with a total interpreter at every non-terminal evaluate without panic      *)
(* ------------------------------------------------------------------------------------- *)

(* the interpreter of a non-terminal with [n] children cannot panic by itself: Nil, Array, the (modelled) user
   interpreter, Select(i) with i < n.  No interpreter panics ("missing interpreter for node"); Object needs
   key-value children (type assertions, Children()[2]): it is covered for the JSON grammar by C16, not here *)
Definition ip_total (ip : interp) (n : nat) : bool :=
  match ip with
  | INil | IArray | IUser _ => true
  | ISelect i => i <? N.of_nat n
  | INone | IObject => false
  end.
Fixpoint interp_total (n : node) : bool :=
  match n with
  | NNonTerm _ ip cs _ _ => ip_total ip (length cs) && forallb interp_total cs
  | _ => true
  end.

Definition evaluates (n : node) : Prop := exists r, eval_node n = Ok r.

Lemma all_of_ok l : Forall evaluates l -> exists r, all_of l = Ok r.
Proof.
  induction 1 as [|c t [rc Hc] _ [rt IH]]; cbn [all_of]; [eexists; reflexivity|].
  rewrite Hc. destruct rc as [v|e]; [|eexists; reflexivity].
  rewrite IH. destruct rt as [vs|e]; eexists; reflexivity.
Qed.
Lemma evens_of_ok l : Forall evaluates l -> forall b, exists r, evens_of l b = Ok r.
Proof.
  induction 1 as [|c t [rc Hc] _ IH]; intros b; cbn [evens_of]; [eexists; reflexivity|].
  destruct b; [|apply IH].
  rewrite Hc. destruct rc as [v|e]; [|eexists; reflexivity].
  destruct (IH false) as [rt Ht]. rewrite Ht. destruct rt as [vs|e]; eexists; reflexivity.
Qed.
Lemma sel_of_ok l : Forall evaluates l -> forall i, (i < length l)%nat -> exists r, sel_of l i = Ok r.
Proof.
  induction 1 as [|c t Hc _ IH]; intros i Hi; cbn [sel_of length] in *; [lia|].
  destruct i; [exact Hc|]. apply IH. lia.
Qed.

Theorem eval_total n : interp_total n = true -> exists r, eval_node n = Ok r.
Proof.
  induction n as [t v p r|p|p|t ip cs p r IH] using node_ind2; intros H; try (eexists; reflexivity).
  cbn [interp_total] in H. apply andb_true_iff in H. destruct H as [Hip Hcs].
  assert (Hev : Forall evaluates cs).
  { clear -IH Hcs. induction IH as [|x l Hx _ IHl]; [constructor|].
    cbn [forallb] in Hcs. apply andb_true_iff in Hcs. destruct Hcs as [H1 H2].
    constructor; [exact (Hx H1)|exact (IHl H2)]. }
  rewrite eval_nonterm_unfold. destruct ip as [|i| | | |id]; cbn [ip_total] in Hip; try discriminate.
  - apply sel_of_ok; [exact Hev|]. apply N.ltb_lt in Hip. lia.
  - destruct (evens_of_ok cs Hev true) as [[vs|e] Hr]; rewrite Hr; eexists; reflexivity.
  - eexists; reflexivity.
  - destruct (all_of_ok cs Hev) as [[vs|e] Hr]; rewrite Hr; eexists; reflexivity.
Qed.

(* spelled out: a value or an error, never Panic, never OutOfFuel *)
Corollary eval_total_cases n : interp_total n = true ->
  (exists v, eval_node n = Ok (inl v)) \/ (exists e, eval_node n = Ok (inr e)).
Proof. intros H. destruct (eval_total n H) as [[v|e] Hr]; [left|right]; eexists; exact Hr. Qed.

(* ------------------------------------------------------------------------------------- *)
(* Part 3: the trees of a grammar that passes [interp_ok_expr]                              *)
(* ------------------------------------------------------------------------------------- *)

Lemma min_children_le k n d : seq_lencheck k n d = true -> (min_children k n <= d)%nat.
Proof.
  destruct k as [| | |ae|ae]; cbn [seq_lencheck min_children]; intros H.
  - apply Nat.eqb_eq in H. lia.
  - apply andb_true_iff in H. destruct H as [H _]. apply Nat.ltb_lt in H. lia.
  - apply orb_true_iff in H. destruct H as [H|H]; apply Nat.eqb_eq in H; lia.
  - destruct ae; [lia|]. cbn [orb] in H. apply Nat.ltb_lt in H. lia.
  - destruct ae; [lia|]. rewrite andb_false_r in H. cbn [orb] in H. apply Nat.eqb_eq in H.
    destruct d; [cbn in H; discriminate|lia].
Qed.

Lemma ip_ok_total k n ip d : ip_ok k n ip = true -> (min_children k n <= d)%nat -> ip_total ip d = true.
Proof.
  destruct ip; cbn [EngineOracles.ip_ok ip_total]; intros H Hd; try exact H.
  apply N.ltb_lt in H. apply N.ltb_lt. lia.
Qed.

Lemma handle_result_total q pos ns :
  ip_ok (q_kind q) (length (q_ps q)) (q_ip q) || never_own_node (q_kind q) (q_single q) (length (q_ps q)) = true ->
  seq_lencheck (q_kind q) (length (q_ps q)) (length ns) = true ->
  forallb interp_total ns = true ->
  interp_total (handle_result q pos ns) = true.
Proof.
  intros Hok Hlen Hns.
  assert (Hone : never_own_node (q_kind q) (q_single q) (length (q_ps q)) = true -> q_single q = true /\ length ns = 1%nat).
  { unfold EngineOracles.never_own_node. intros H. apply andb_true_iff in H. destruct H as [H1 H2].
    split; [exact H1|]. destruct (q_kind q); try discriminate. cbn [seq_lencheck] in Hlen.
    apply Nat.eqb_eq in H2. apply Nat.eqb_eq in Hlen. lia. }
  pose proof (min_children_le _ _ _ Hlen) as Hmin.
  apply orb_true_iff in Hok.
  destruct ns as [|n [|m ns]]; cbn [handle_result].
  - destruct Hok as [Hok|Hok]; [|destruct (Hone Hok) as [_ Hl]; discriminate].
    cbn [interp_total forallb length]. rewrite (ip_ok_total _ _ _ 0%nat Hok Hmin). reflexivity.
  - cbn [forallb] in Hns. destruct (q_single q) eqn:Es.
    + apply andb_true_iff in Hns. exact (proj1 Hns).
    + destruct Hok as [Hok|Hok]; [|destruct (Hone Hok) as [Hs _]; discriminate].
      cbn [interp_total forallb length]. rewrite (ip_ok_total _ _ _ 1%nat Hok Hmin). exact Hns.
  - destruct Hok as [Hok|Hok]; [|destruct (Hone Hok) as [_ Hl]; discriminate].
    cbn [interp_total]. rewrite (ip_ok_total _ _ _ _ Hok Hmin). exact Hns.
Qed.

Lemma term_node_total inp t pos n : term_parse inp t pos = ([n], None) -> interp_total n = true.
Proof.
  intros H. destruct t as [c|l].
  - apply TermFacts.term_parse_rune_node in H. destruct H as (_ & -> & _). reflexivity.
  - apply TermFacts.term_parse_lit_node in H. destruct H as (_ & tok & v & r & -> & _). reflexivity.
Qed.

Lemma rtrim_total inp n : interp_total (rtrim_node inp n) = interp_total n.
Proof. destruct n; reflexivity. Qed.

Section GrammarTotal.
  Variable inp : input.
  Variable rules : list pexpr.
  Hypothesis Hrules : forallb interp_ok_expr rules = true.

  Lemma xvalid_total_mut :
    (forall e pos d, xvalid inp rules e pos d -> interp_ok_expr e = true -> interp_total (xyield inp d) = true) /\
    (forall k ps depth pos ds, xvalid_seq inp rules k ps depth pos ds -> forallb interp_ok_expr ps = true ->
       forallb interp_total (map (xyield inp) ds) = true).
  Proof.
    apply xvalid_mutind.
    - intros t pos n H _. exact (term_node_total inp t pos n H).
    - reflexivity.
    - reflexivity.
    - intros k body pos d Hn _ IH _. apply IH. rewrite forallb_forall in Hrules. apply Hrules.
      unfold nth_N in Hn. exact (nth_error_In _ _ Hn).
    - intros idx e pos d _ IH Hok. exact (IH Hok).
    - intros ps i e pos d Hn _ IH Hok. apply IH. cbn [EngineOracles.interp_ok_expr] in Hok.
      rewrite forallb_forall in Hok. exact (Hok e (nth_error_In ps i Hn)).
    - intros ps i e pos d Hn _ IH Hok. apply IH. cbn [EngineOracles.interp_ok_expr] in Hok.
      rewrite forallb_forall in Hok. exact (Hok e (nth_error_In ps i Hn)).
    - intros e pos d _ IH Hok. exact (IH Hok).
    - reflexivity.
    - intros k ip single name ps pos ds _ IH Hlen Hok. cbn [EngineOracles.interp_ok_expr] in Hok.
      apply andb_true_iff in Hok. destruct Hok as [Hip Hps]. cbn [xyield].
      apply handle_result_total; cbn [q_kind q_ps q_ip q_single]; [exact Hip|rewrite map_length; exact Hlen|exact (IH Hps)].
    - intros nm e pos d _ IH Hok. exact (IH Hok).
    - intros e pos d _ IH Hok. exact (IH Hok).
    - intros e pos d _ IH Hok. exact (IH Hok).
    - intros e pos d t i ch p r _ IH Hy Hok. specialize (IH Hok). rewrite Hy in IH. cbn [interp_total forallb] in IH.
      apply andb_true_iff in IH. destruct IH as [_ IH]. apply andb_true_iff in IH. exact (proj1 IH).
    - intros m e pos d _ IH Hok. exact (IH Hok).
    - intros m e pos d _ IH Hok. cbn [xyield]. rewrite rtrim_total. exact (IH Hok).
    - intros m e pos d _ IH Hok. exact (IH Hok).
    - reflexivity.
    - intros k ps depth pos e d ds Hl _ IHd _ IHs Hok. cbn [map forallb]. rewrite (IHs Hok), andb_true_r.
      apply IHd. rewrite forallb_forall in Hok. exact (Hok e (seq_lookup_in _ _ _ _ Hl)).
  Qed.

  (* every tree the grammar derives (all combinators) has a total interpreter at every non-terminal *)
  Theorem xvalid_interp_total e pos d :
    interp_ok_expr e = true -> xvalid inp rules e pos d -> interp_total (xyield inp d) = true.
  Proof. intros Hok Hv. exact (proj1 xvalid_total_mut e pos d Hv Hok). Qed.

  (* the same for the derivations of Spec.v (the C01 fragment) *)
  Theorem valid_interp_total e pos d :
    interp_ok_expr e = true -> valid inp rules e pos d -> interp_total (yield d) = true.
  Proof.
    intros Hok Hv. destruct (proj1 (valid_xvalid inp rules) e pos d Hv) as [Hx Hy].
    rewrite <- Hy. exact (xvalid_interp_total e pos (embed d) Hok Hx).
  Qed.

  Corollary valid_evaluates e pos d :
    interp_ok_expr e = true -> valid inp rules e pos d -> exists r, eval_node (yield d) = Ok r.
  Proof. intros Hok Hv. apply eval_total. exact (valid_interp_total e pos d Hok Hv). Qed.
  Corollary xvalid_evaluates e pos d :
    interp_ok_expr e = true -> xvalid inp rules e pos d -> exists r, eval_node (xyield inp d) = Ok r.
  Proof. intros Hok Hv. apply eval_total. exact (xvalid_interp_total e pos d Hok Hv). Qed.
End GrammarTotal.

(* ------------------------------------------------------------------------------------- *)
(* Part 4: the parser itself panics only on a dangling rule reference                        *)
(* ------------------------------------------------------------------------------------- *)

Lemma bind_np {A B} (o : outcome A) (k : A -> outcome B) :
  o <> Panic -> (forall a, o = Ok a -> k a <> Panic) -> bind o k <> Panic.
Proof. destruct o as [a| |]; cbn [bind]; intros H1 H2; [apply H2; reflexivity|exfalso; apply H1; reflexivity|discriminate]. Qed.

Ltac np :=
  repeat match goal with
         | |- (match ?x with _ => _ end) <> Panic => destruct x
         end; try discriminate.

Section NoPanic.
  Variable inp : input.
  Variable rules : list pexpr.
  Variable site : N -> option pexpr.
  Hypothesis Hwf : wf_rules rules site.

  Definition pnp (rp : ptype) : Prop := forall e c stk lrc pos, wf rules site e -> rp e c stk lrc pos <> Panic.
  Definition snp (rs : stype) : Prop :=
    forall q d c stk lrc pos m st, wfs rules site (q_ps q) -> rs q d c stk lrc pos m st <> Panic.

  Section Step.
    Variables (rp : ptype) (rs : stype).
    Hypothesis Hp : pnp rp.
    Hypothesis Hs : snp rs.

    Lemma any_loop_np stk lrc pos ps : wfs rules site ps -> forall c cp res err nf,
      any_loop rp stk lrc pos ps c cp res err nf <> Panic.
    Proof.
      induction ps as [|x ps IH]; intros Hw c cp res err nf; cbn [any_loop]; [np|].
      destruct Hw as [Hx Hps]. apply bind_np; [apply Hp; exact Hx|].
      intros [[[res2 cp2] err2] c'] _. destruct (alt_err pos err nf err2) as [err' nf']. apply IH; exact Hps.
    Qed.

    Lemma choice_loop_np stk lrc pos ps : wfs rules site ps -> forall c cp err nf,
      choice_loop rp stk lrc pos ps c cp err nf <> Panic.
    Proof.
      induction ps as [|x ps IH]; intros Hw c cp err nf; cbn [choice_loop]; [discriminate|].
      destruct Hw as [Hx Hps]. apply bind_np; [apply Hp; exact Hx|].
      intros [[[res2 cp2] err2] c'] _. destruct (alt_err pos err nf err2) as [err' nf'].
      destruct res2; [apply IH; exact Hps|discriminate].
    Qed.

    Lemma parse_step_np : pnp (parse_step inp rules rp rs).
    Proof.
      intros e c stk lrc pos Hw. destruct e; cbn [parse_step].
      - destruct (term_parse inp t pos). discriminate.
      - discriminate.
      - np.
      - cbn [wf] in Hw. destruct (nth_N rules k) as [body|] eqn:E; [apply Hp; exact (Hwf k body E)|].
        exfalso. unfold nth_N in E. apply nth_error_None in E. unfold len_N in Hw. lia.
      - destruct Hw as [_ Hw]. destruct (cache_get c idx pos lrc); [discriminate|].
        destruct (remaining inp pos + 1 <? map_get idx lrc); [discriminate|].
        apply bind_np; [apply Hp; exact Hw|]. intros [[[nodes cp] err] c'] _. discriminate.
      - apply any_loop_np; exact Hw.
      - apply choice_loop_np; exact Hw.
      - apply bind_np; [apply Hp; exact Hw|]. intros [[[res cp] err] c'] _. discriminate.
      - apply bind_np; [apply Hs; exact Hw|]. intros [[b st] c'] _. np.
      - apply bind_np; [apply Hp; exact Hw|]. intros [[[res cp] err] c'] _. np.
      - destruct (skip_ws inp pos m) as [pos1 wserr].
        apply bind_np; [apply Hp; exact Hw|]. intros [[[res cp] err] c'] _. cbv zeta. np.
      - apply bind_np; [apply Hp; exact Hw|]. intros [[[res cp] err] c'] _.
        destruct err; [discriminate|]. destruct (trim_nodes inp m res None) as [res' wserr]. np.
      - apply bind_np; [apply Hp; exact Hw|]. intros [[[res cp] err] c'] _. discriminate.
      - apply bind_np; [apply Hp; exact Hw|]. intros [[[res cp] err] c'] _. np.
    Qed.

    Lemma alts_loop_np q depth stk lrc pos merge prefix ns : wfs rules site (q_ps q) -> forall st c,
      alts_loop rs q depth stk lrc pos merge prefix ns st c <> Panic.
    Proof.
      intros Hw. induction ns as [|n ns IH]; intros st c; cbn [alts_loop]; [discriminate|].
      apply bind_np; [apply Hs; exact Hw|]. intros [[stop st'] c'] _. destruct stop; [discriminate|apply IH].
    Qed.

    Lemma seq_step_np : snp (seq_step rp rs).
    Proof.
      intros q d c stk lrc pos m st Hw. unfold seq_step. apply bind_np.
      - destruct (seq_lookup (q_kind q) (q_ps q) d) as [p|] eqn:E; [|discriminate].
        apply Hp. exact (wfs_in rules site (q_ps q) p Hw (seq_lookup_in _ _ _ _ E)).
      - intros [[[res cp] err] c1] _. destruct res as [|n res]; [|apply alts_loop_np; exact Hw].
        cbn [s_nodes]. np.
    Qed.
  End Step.

  Lemma no_panic_inv : forall f, pnp (parse inp rules f) /\ snp (seqp inp rules f).
  Proof.
    induction f as [|f [IHp IHs]].
    - split; [intros e c stk lrc pos _|intros q d c stk lrc pos m st _]; discriminate.
    - split.
      + intros e c stk lrc pos. rewrite parse_S. apply parse_step_np; assumption.
      + intros q d c stk lrc pos m st. rewrite seqp_S. apply seq_step_np; assumption.
  Qed.

  (* the engine panics only on a reference to a rule that does not exist *)
  Theorem parse_no_panic fuel e c stk lrc pos : wf rules site e -> parse inp rules fuel e c stk lrc pos <> Panic.
  Proof. exact (proj1 (no_panic_inv fuel) e c stk lrc pos). Qed.

  Theorem parse_top_no_panic fuel root : wf rules site root -> parse_top inp rules fuel root <> Panic.
  Proof.
    intros Hw. unfold parse_top, run. apply bind_np; [apply parse_no_panic; exact Hw|].
    intros [[[nodes cp] err] c] _. cbv zeta. np.
  Qed.
End NoPanic.

(* ------------------------------------------------------------------------------------- *)
(* Part 5: C04 — Evaluate returns a value or an error instead of panicking                  *)
(* ------------------------------------------------------------------------------------- *)

Lemma parse_top_node_run inp rules fuel root ns c :
  parse_top inp rules fuel root = Ok (TopNode ns c) -> exists cp err c0, run inp rules fuel root = Ok (ns, cp, err, c0).
Proof.
  unfold parse_top. intros H. apply bind_ok in H. destruct H as [[[[nodes cp] err] c0] [H1 H2]].
  exists cp, err, c0. rewrite H1.
  destruct nodes as [|n0 nodes]; destruct err as [e|]; cbn zeta beta iota in H2; try discriminate.
  - destruct (cerr c0); discriminate.
  - inversion H2; subst. reflexivity.
Qed.

(* every tree Parse returns for a grammar that passes the check has a total interpreter at every non-terminal *)
Theorem parse_top_interp_total inp rules site fuel root ns c :
  wf_rules rules site -> wf rules site root ->
  forallb interp_ok_expr rules = true -> interp_ok_expr root = true ->
  parse_top inp rules fuel root = Ok (TopNode ns c) ->
  forall n, In n ns -> interp_total n = true.
Proof.
  intros Hwf Hw Hrules Hroot H n Hin.
  destruct (parse_top_node_run inp rules fuel root ns c H) as [cp [err [c0 Hrun]]].
  destruct (C01_sound_all inp rules site Hwf fuel root ns cp err c0 Hw Hrun) as [_ Hn].
  destruct (Hn n Hin) as [[d [Hv Hy]] _]. rewrite <- Hy.
  exact (xvalid_interp_total inp rules Hrules root (i_offset inp) d Hroot Hv).
Qed.

(* C04, Evaluate clause.  Grammar: every rule body and the root pass [interp_ok_expr] ("an interpreter for every
   non-terminal", decidable), and the grammar is well formed as in C01_sound_all (references point to rules, one
   Memoize site per index).  Then for every input and every fuel Evaluate returns a value, Parse's error or an
   evaluation error — or the parse itself ran out of fuel (excluded by C02 for terminating grammars); never Panic. *)
Theorem C04_evaluate_total inp rules site fuel root :
  wf_rules rules site -> wf rules site root ->
  forallb interp_ok_expr rules = true -> interp_ok_expr root = true ->
  (exists v, evaluate inp rules fuel root = Ok (EvValue v)) \/
  (exists e, evaluate inp rules fuel root = Ok (EvParseErr e)) \/
  (exists e, evaluate inp rules fuel root = Ok (EvEvalErr e)) \/
  (evaluate inp rules fuel root = OutOfFuel /\ parse_top inp rules fuel root = OutOfFuel).
Proof.
  intros Hwf Hw Hrules Hroot.
  pose proof (parse_top_no_panic inp rules site Hwf fuel root Hw) as Hnp.
  pose proof (parse_top_interp_total inp rules site fuel root) as Htot.
  unfold evaluate in *. destruct (parse_top inp rules fuel root) as [t| |] eqn:E; cbn [bind];
    [|exfalso; apply Hnp; reflexivity|right; right; right; split; reflexivity].
  destruct t as [ns c|e c]; [|right; left; eexists; reflexivity].
  specialize (Htot ns c Hwf Hw Hrules Hroot eq_refl).
  destruct ns as [|n [|m ns]]; cbn [eval_result].
  - exfalso. exact (parse_top_xor inp rules fuel root _ E eq_refl).
  - destruct (eval_total n (Htot n (or_introl eq_refl))) as [[v|e] Hr]; rewrite Hr;
      [left|right; right; left]; eexists; reflexivity.
  - right; right; left. eexists; reflexivity.
Qed.

Corollary C04_evaluate_no_panic inp rules site fuel root :
  wf_rules rules site -> wf rules site root ->
  forallb interp_ok_expr rules = true -> interp_ok_expr root = true ->
  evaluate inp rules fuel root <> Panic.
Proof.
  intros Hwf Hw Hrules Hroot H.
  destruct (C04_evaluate_total inp rules site fuel root Hwf Hw Hrules Hroot) as [[v G]|[[e G]|[[e G]|[G _]]]];
    rewrite H in G; discriminate.
Qed.

(* with the Sentence root (Sentence = SeqOf(root, End) bound to Select(0), which passes the check by itself) *)
Corollary C04_evaluate_sentence_total inp rules site fuel root :
  wf_rules rules site -> wf rules site root ->
  forallb interp_ok_expr rules = true -> interp_ok_expr root = true ->
  (exists v, evaluate inp rules fuel (sentence root) = Ok (EvValue v)) \/
  (exists e, evaluate inp rules fuel (sentence root) = Ok (EvParseErr e)) \/
  (exists e, evaluate inp rules fuel (sentence root) = Ok (EvEvalErr e)) \/
  (evaluate inp rules fuel (sentence root) = OutOfFuel /\ parse_top inp rules fuel (sentence root) = OutOfFuel).
Proof.
  intros Hwf Hw Hrules Hroot. apply (C04_evaluate_total inp rules site fuel (sentence root) Hwf).
  - cbn. tauto.
  - exact Hrules.
  - unfold sentence. cbn [EngineOracles.interp_ok_expr forallb]. rewrite Hroot. reflexivity.
Qed.

(* under the well-formedness hypothesis alone: a panic of Evaluate always comes from an interpreter applied to the
   single tree Parse returned — never from a missing node, never from the parser *)
Corollary evaluate_panic_is_interpreter inp rules site fuel root :
  wf_rules rules site -> wf rules site root ->
  evaluate inp rules fuel root = Panic ->
  exists n c, parse_top inp rules fuel root = Ok (TopNode [n] c) /\ eval_node n = Panic.
Proof.
  intros Hwf Hw H. pose proof (evaluate_outcomes inp rules fuel root) as Ho. rewrite H in Ho.
  destruct Ho as [Ho|Ho]; [|exact Ho]. exfalso. exact (parse_top_no_panic inp rules site Hwf fuel root Hw Ho).
Qed.

(* ------------------------------------------------------------------------------------- *)
(* Examples: the hypotheses are satisfiable, and each is needed                             *)
(* ------------------------------------------------------------------------------------- *)

(* S -> S "+" a (user interpreter 1) | a+ (Array), left recursive, on "a+a": evaluates to [[a]; +; a] *)
Definition ev_rules : list pexpr :=
  [PMemo 1 (PAny [PSeq SeqOf (IUser 1) false None [PRef 0; PTerm (TRune 43); PTerm (TRune 97)];
                  PSeq (SMany false) IArray false None [PTerm (TRune 97)]])].
Definition ev_site (i : N) : option pexpr :=
  match nth_N ev_rules (i - 1) with Some (PMemo _ b) => Some b | _ => None end.
Definition ev_inp : input := mk_input [97; 43; 97] 1.

Lemma ev_wf_rules : wf_rules ev_rules ev_site.
Proof.
  intros k body H. unfold nth_N, ev_rules in H. destruct (N.to_nat k) as [|[|n]]; cbn [nth_error] in H; try discriminate.
  inversion H; subst. vm_compute. repeat split.
Qed.
Lemma ev_wf_root : wf ev_rules ev_site (PRef 0).
Proof. cbn. reflexivity. Qed.
Example ev_interp_ok : forallb interp_ok_expr ev_rules = true /\ interp_ok_expr (PRef 0) = true.
Proof. split; reflexivity. Qed.
Example ev_value :
  evaluate ev_inp ev_rules 100 (sentence (PRef 0)) =
  Ok (EvValue (ValList [ValList [ValLit (VRune 97)]; ValLit (VRune 43); ValLit (VRune 97)])).
Proof. vm_compute. reflexivity. Qed.
(* an evaluation error: an Optional that matched nothing leaves an EMPTY node, which has no value *)
Example ev_error :
  evaluate ev_inp ev_rules 100 (PSeq SeqOf (ISelect 0) false None [POpt (PTerm (TRune 98)); PRef 0]) =
  Ok (EvEvalErr (mk_err 1 (COther msg_novalue))).
Proof. vm_compute. reflexivity. Qed.

(* necessity of "an interpreter for every non-terminal": no interpreter panics *)
Example needs_interpreter :
  evaluate (mk_input [97] 1) [] 100 (sentence (PSeq SeqOf INone false None [PTerm (TRune 97)])) = Panic.
Proof. vm_compute. reflexivity. Qed.
(* necessity of the bound in Select(i): Many may return no child, SeqTry fewer than all *)
Example select_on_many_panics :
  evaluate (mk_input [] 1) [] 100 (sentence (PSeq (SMany true) (ISelect 0) false None [PTerm (TRune 97)])) = Panic.
Proof. vm_compute. reflexivity. Qed.
Example select_on_seqtry_panics :
  evaluate (mk_input [97] 1) [] 100
           (sentence (PSeq SeqTry (ISelect 1) false None [PTerm (TRune 97); PTerm (TRune 98)])) = Panic.
Proof. vm_compute. reflexivity. Qed.
(* ... and Select(0) on SeqTry / Many1 is fine (the bound is the least number of children, not "SeqOf only") *)
Example select_on_seqtry_ok :
  evaluate (mk_input [97] 1) [] 100
           (sentence (PSeq SeqTry (ISelect 0) false None [PTerm (TRune 97); PTerm (TRune 98)])) =
  Ok (EvValue (ValLit (VRune 97))).
Proof. vm_compute. reflexivity. Qed.
(* the historical defect D3: Sentence(Any(a, b)) on "c" is a parse error, not a nil node *)
Example d3_is_a_parse_error :
  exists e, evaluate (mk_input [99] 1) [] 100 (sentence (PAny [PTerm (TRune 97); PTerm (TRune 98)])) = Ok (EvParseErr e).
Proof. eexists. vm_compute. reflexivity. Qed.
