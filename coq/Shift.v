(* Shift.v — C12: offset parametricity of the engine.  Running the engine on the same bytes
   at base offset [o + d] instead of [o] gives the same outcome with [d] added to every
   position: result nodes (recursively), errors, the context error, cache keys and cache
   entries, the ghost logs; call counts, curtailing sets and left-recursion counters are
   unchanged.  With C11 (FileSetProofs.v) the rendered name:line:column of every error is
   the same wherever the file sits in a file set.

   Organisation (EngineFacts.v style): [Section Prims] — every primitive commutes with the
   shift; [Section OkStep]/[engine_ok] — all positions in play stay >= 1 (needed because
   Reader.SkipWhitespaces uses position 0 as "no line break seen"); [Section SimStep] /
   [C12_shift_engine] — the simulation, lifted by induction on fuel. *)
From Coq Require Import String List NArith ZArith Bool Arith Lia.
From Parsley Require Reader Regex Literals ReaderProofs.   (* NOT imported: qualified names only (wsmode, is_ws, remaining, VInt ... clash) *)
From Parsley Require Import Obs Base FileSet FileSetProofs Grammar Engine TermFacts EngineFacts EngineHarness.
Import ListNotations.
Open Scope N_scope.

(* ------------------------------------------------------------------ *)
(* Shifting everything that carries positions                          *)

Definition shift_input (d : N) (inp : input) : input :=
  {| i_data := i_data inp; i_offset := i_offset inp + d; i_cf := i_cf inp; i_cd := i_cd inp |}.

Fixpoint shift_node (d : N) (n : node) : node :=
  match n with
  | NTerm t v p r => NTerm t v (p + d) (r + d)
  | NEmpty p => NEmpty (p + d)
  | NEnd p => NEnd (p + d)
  | NNonTerm t i cs p r => NNonTerm t i (map (shift_node d) cs) (p + d) (r + d)
  end.
Definition shift_err (d : N) (e : perr) : perr := {| epos := epos e + d; ecause := ecause e |}.
Definition shift_oerr (d : N) (e : option perr) : option perr := option_map (shift_err d) e.
Definition shift_result (d : N) (r : result) : result :=
  {| r_lrc := r_lrc r; r_cp := r_cp r; r_err := shift_oerr d (r_err r); r_nodes := map (shift_node d) (r_nodes r) |}.
Definition shift_entry (d : N) (kr : (N * N) * result) : (N * N) * result :=
  ((fst (fst kr), snd (fst kr) + d), shift_result d (snd kr)).
Definition shift_body (d : N) (b : N * N * N) : N * N * N := (fst (fst b), snd (fst b) + d, snd b).
Definition shift_fail (d : N) (f : N * cause) : N * cause := (fst f + d, snd f).
Definition shift_ctx (d : N) (c : ctx) : ctx :=
  {| cache := map (shift_entry d) (cache c);
     cerr := shift_oerr d (cerr c);
     calls := calls c;
     g_bodies := map (shift_body d) (g_bodies c);
     g_fails := map (shift_fail d) (g_fails c) |}.
Definition shift_key (d : N) (k : N * N) : N * N := (fst k, snd k + d).
Definition shift_stack (d : N) (stk : stack) : stack := map (shift_key d) stk.
Definition shift_seqst (d : N) (st : seqst) : seqst :=
  {| s_cp := s_cp st; s_res := map (shift_node d) (s_res st);
     s_err := shift_oerr d (s_err st); s_nodes := map (shift_node d) (s_nodes st) |}.
Definition shift_pres (d : N) (r : pres) : pres :=
  let '(ns, cp, err, c) := r in (map (shift_node d) ns, cp, shift_oerr d err, shift_ctx d c).
Definition shift_sres (d : N) (r : sres) : sres :=
  let '(b, st, c) := r in (b, shift_seqst d st, shift_ctx d c).
Definition shift_outcome {A} (f : A -> A) (o : outcome A) : outcome A :=
  match o with Ok a => Ok (f a) | Panic => Panic | OutOfFuel => OutOfFuel end.
Definition shift_pout (d : N) : outcome pres -> outcome pres := shift_outcome (shift_pres d).
Definition shift_sout (d : N) : outcome sres -> outcome sres := shift_outcome (shift_sres d).
Definition shift_top (d : N) (t : top) : top :=
  match t with
  | TopNode ns c => TopNode (map (shift_node d) ns) (shift_ctx d c)
  | TopErr e c => TopErr (shift_err d e) (shift_ctx d c)
  end.

(* ------------------------------------------------------------------ *)
(* "All positions are at least 1"                                      *)

Fixpoint node_okb (n : node) : bool :=
  match n with
  | NTerm _ _ p r => (1 <=? p) && (1 <=? r)
  | NEmpty p => 1 <=? p
  | NEnd p => 1 <=? p
  | NNonTerm _ _ cs p r => (1 <=? p) && (1 <=? r) && forallb node_okb cs
  end.
Definition node_ok (n : node) : Prop := node_okb n = true.
Definition nodes_ok (ns : list node) : Prop := Forall node_ok ns.
Definition err_ok (e : option perr) : Prop := match e with Some e => 1 <= epos e | None => True end.
Definition result_ok (r : result) : Prop := nodes_ok (r_nodes r) /\ err_ok (r_err r).
Definition ctx_ok (c : ctx) : Prop := Forall (fun kr => result_ok (snd kr)) (cache c) /\ err_ok (cerr c).
Definition seqst_ok (st : seqst) : Prop := nodes_ok (s_res st) /\ err_ok (s_err st) /\ nodes_ok (s_nodes st).
Definition pres_ok (r : pres) : Prop :=
  let '(ns, _, err, c) := r in nodes_ok ns /\ err_ok err /\ ctx_ok c.
Definition sres_ok (r : sres) : Prop := let '(_, st, c) := r in seqst_ok st /\ ctx_ok c.

Lemma forallb_Forall {A} (f : A -> bool) l : forallb f l = true <-> Forall (fun x => f x = true) l.
Proof. rewrite forallb_forall, Forall_forall. reflexivity. Qed.

Lemma node_ok_term t v p r : node_ok (NTerm t v p r) <-> 1 <= p /\ 1 <= r.
Proof.
  unfold node_ok; cbn [node_okb]. rewrite andb_true_iff, !N.leb_le. reflexivity.
Qed.
Lemma node_ok_empty p : node_ok (NEmpty p) <-> 1 <= p.
Proof. unfold node_ok; cbn [node_okb]. apply N.leb_le. Qed.
Lemma node_ok_end p : node_ok (NEnd p) <-> 1 <= p.
Proof. unfold node_ok; cbn [node_okb]. apply N.leb_le. Qed.
Lemma node_ok_nonterm t i cs p r : node_ok (NNonTerm t i cs p r) <-> 1 <= p /\ 1 <= r /\ nodes_ok cs.
Proof.
  unfold node_ok, nodes_ok; cbn [node_okb]. rewrite !andb_true_iff, !N.leb_le, forallb_Forall.
  unfold node_ok. tauto.
Qed.
Lemma node_ok_pos n : node_ok n -> 1 <= node_pos n.
Proof.
  destruct n; cbn [node_pos]; intros H;
    [apply node_ok_term in H|apply node_ok_empty in H|apply node_ok_end in H|apply node_ok_nonterm in H]; tauto.
Qed.
Lemma node_ok_rpos n : node_ok n -> 1 <= node_rpos n.
Proof.
  destruct n; cbn [node_rpos]; intros H;
    [apply node_ok_term in H|apply node_ok_empty in H|apply node_ok_end in H|apply node_ok_nonterm in H]; tauto.
Qed.

(* ------------------------------------------------------------------ *)
(* Comparisons of two shifted positions                                *)

Lemma sub_shift p o d : p + d - (o + d) = p - o. Proof. lia. Qed.
Lemma eqb_shift p q d : (p + d =? q + d) = (p =? q).
Proof. destruct (p =? q) eqn:E; [apply N.eqb_eq in E; apply N.eqb_eq; lia | apply N.eqb_neq in E; apply N.eqb_neq; lia]. Qed.
Lemma ltb_shift p q d : (p + d <? q + d) = (p <? q).
Proof. destruct (p <? q) eqn:E; [apply N.ltb_lt in E; apply N.ltb_lt; lia | apply N.ltb_ge in E; apply N.ltb_ge; lia]. Qed.
Lemma leb_shift p q d : (p + d <=? q + d) = (p <=? q).
Proof. destruct (p <=? q) eqn:E; [apply N.leb_le in E; apply N.leb_le; lia | apply N.leb_gt in E; apply N.leb_gt; lia]. Qed.

(* ------------------------------------------------------------------ *)
(* The literal parsers (Literals.v, C08) commute with the shift: ALL eleven of them, for every   *)
(* reader, position and construction parameter (also outside the documented domain: a panic      *)
(* stays a panic)                                                                                *)

Definition shift_lnode (d : N) (nd : Literals.lit_node) : Literals.lit_node :=
  {| Literals.ln_token := Literals.ln_token nd; Literals.ln_pos := Literals.ln_pos nd + d;
     Literals.ln_rpos := Literals.ln_rpos nd + d; Literals.ln_value := Literals.ln_value nd |}.
Definition shift_lerr (d : N) (e : Literals.lit_err) : Literals.lit_err :=
  {| Literals.le_pos := Literals.le_pos e + d; Literals.le_kind := Literals.le_kind e |}.
Definition shift_lres (d : N) (x : Literals.lit_result) : Literals.lit_result :=
  (option_map (shift_lnode d) (fst x), option_map (shift_lerr d) (snd x)).
Definition shift_lout (d : N) : outcome Literals.lit_result -> outcome Literals.lit_result :=
  shift_outcome (shift_lres d).

Section LitShift.
  Variable cf : list N -> option N.
  Variable cd : list N -> option Z.
  Variable r : Reader.reader.
  Variable d : N.
  Notation r' := (Reader.shift_reader r d).

  (* rewrite the first reader primitive with its shift theorem and split its outcome *)
  Ltac prim thm p v :=
    rewrite thm;
    match goal with
    | |- context [Reader.shift_out d ?o] =>
      destruct o as [[p v]| |]; cbn [Reader.shift_out Reader.shift_fst bind fst snd]; try reflexivity
    end.

  Lemma integer_shift pos : Literals.p_integer r' (pos + d) = shift_lout d (Literals.p_integer r pos).
  Proof.
    unfold Literals.p_integer. prim ReaderProofs.read_regexp_shift p1 v1.
    destruct v1 as [x|]; [|reflexivity].
    prim ReaderProofs.read_rune_shift p2 ok2. destruct ok2; [reflexivity|].
    destruct (Literals.parse_int_base0 x); reflexivity.
  Qed.

  Lemma float_shift pos : Literals.p_float cf r' (pos + d) = shift_lout d (Literals.p_float cf r pos).
  Proof.
    unfold Literals.p_float. prim ReaderProofs.read_regexp_shift p1 v1.
    destruct v1 as [x|]; [|reflexivity]. destruct (cf x); reflexivity.
  Qed.

  Lemma duration_shift pos : Literals.p_duration cd r' (pos + d) = shift_lout d (Literals.p_duration cd r pos).
  Proof.
    unfold Literals.p_duration. prim ReaderProofs.read_regexp_shift p1 v1.
    destruct v1 as [x|]; [|reflexivity]. destruct (cd x); reflexivity.
  Qed.

  (* string.go after the opening quote has been read, for either quote *)
  Lemma string_tail_shift pos quote p2 :
    bind (Reader.read_rune r' (p2 + d) quote) (fun x3 =>
      if snd x3 then Literals.ret_node (Literals.str_bytes "STRING") (pos + d) (fst x3) (Literals.VStr [])
      else
        bind (if quote =? 96 then Reader.read_regexp (Regex.re_find Regex.re_backquote) r' (fst x3)
              else Reader.readf Literals.unquote_string r' (fst x3)) (fun x4 =>
          bind (Reader.read_rune r' (fst x4) quote) (fun x5 =>
            if negb (snd x5)
            then Literals.ret_err (fst x5) (Literals.EOther (Literals.str_bytes "was expecting '" ++ [quote] ++ [39]))
            else Literals.ret_node (Literals.str_bytes "STRING") (pos + d) (fst x5)
                                   (Literals.VStr (Literals.bytes_of_opt (snd x4)))))) =
    shift_lout d
    (bind (Reader.read_rune r p2 quote) (fun x3 =>
      if snd x3 then Literals.ret_node (Literals.str_bytes "STRING") pos (fst x3) (Literals.VStr [])
      else
        bind (if quote =? 96 then Reader.read_regexp (Regex.re_find Regex.re_backquote) r (fst x3)
              else Reader.readf Literals.unquote_string r (fst x3)) (fun x4 =>
          bind (Reader.read_rune r (fst x4) quote) (fun x5 =>
            if negb (snd x5)
            then Literals.ret_err (fst x5) (Literals.EOther (Literals.str_bytes "was expecting '" ++ [quote] ++ [39]))
            else Literals.ret_node (Literals.str_bytes "STRING") pos (fst x5)
                                   (Literals.VStr (Literals.bytes_of_opt (snd x4))))))).
  Proof.
    prim ReaderProofs.read_rune_shift p3 ok3. destruct ok3; [reflexivity|].
    destruct (quote =? 96).
    - prim ReaderProofs.read_regexp_shift p4 v4.
      prim ReaderProofs.read_rune_shift p5 ok5. destruct ok5; reflexivity.
    - prim ReaderProofs.readf_shift p4 v4.
      prim ReaderProofs.read_rune_shift p5 ok5. destruct ok5; reflexivity.
  Qed.

  Lemma string_shift bq pos : Literals.p_string bq r' (pos + d) = shift_lout d (Literals.p_string bq r pos).
  Proof.
    unfold Literals.p_string. prim ReaderProofs.read_rune_shift p1 ok1.
    destruct (negb ok1 && bq).
    - prim ReaderProofs.read_rune_shift p2 ok2.
      destruct ok2; cbn [negb]; [|reflexivity]. apply string_tail_shift.
    - cbn [bind fst snd]. destruct ok1; cbn [negb]; [|reflexivity]. apply string_tail_shift.
  Qed.

  Lemma char_shift pos : Literals.p_char r' (pos + d) = shift_lout d (Literals.p_char r pos).
  Proof.
    unfold Literals.p_char. prim ReaderProofs.read_rune_shift p1 ok1.
    destruct ok1; cbn [negb]; [|reflexivity].
    prim ReaderProofs.read_regexp_shift p2 v2. destruct v2 as [x|]; [|reflexivity].
    prim ReaderProofs.read_rune_shift p3 ok3. destruct ok3; cbn [negb]; [|reflexivity].
    destruct (Literals.unquote_char x 39) as [[value k]|]; [destruct (k =? len_N x)|]; reflexivity.
  Qed.

  Lemma bool_shift t f pos : Literals.p_bool t f r' (pos + d) = shift_lout d (Literals.p_bool t f r pos).
  Proof.
    unfold Literals.p_bool. destruct t as [|t0 t]; [reflexivity|]. destruct f as [|f0 f]; [reflexivity|].
    prim ReaderProofs.match_word_shift p1 ok1. destruct ok1; [reflexivity|].
    prim ReaderProofs.match_word_shift p2 ok2. destruct ok2; reflexivity.
  Qed.

  Lemma nil_shift s pos : Literals.p_nil s r' (pos + d) = shift_lout d (Literals.p_nil s r pos).
  Proof.
    unfold Literals.p_nil. destruct s as [|s0 s]; [reflexivity|].
    prim ReaderProofs.match_word_shift p1 ok1. destruct ok1; reflexivity.
  Qed.

  Lemma word_shift w pos : Literals.p_word w r' (pos + d) = shift_lout d (Literals.p_word w r pos).
  Proof.
    unfold Literals.p_word. destruct w as [|w0 w]; [reflexivity|].
    prim ReaderProofs.match_word_shift p1 ok1. destruct ok1; reflexivity.
  Qed.

  Lemma op_shift s pos : Literals.p_op s r' (pos + d) = shift_lout d (Literals.p_op s r pos).
  Proof.
    unfold Literals.p_op. destruct s as [|s0 s]; [reflexivity|].
    prim ReaderProofs.match_string_shift p1 ok1. destruct ok1; reflexivity.
  Qed.

  Lemma rune_shift ch pos : Literals.p_rune ch r' (pos + d) = shift_lout d (Literals.p_rune ch r pos).
  Proof.
    unfold Literals.p_rune. prim ReaderProofs.read_rune_shift p1 ok1. destruct ok1; reflexivity.
  Qed.

  Lemma regexp_shift re g pos : Literals.p_regexp re g r' (pos + d) = shift_lout d (Literals.p_regexp re g r pos).
  Proof.
    unfold Literals.p_regexp. destruct (g =? 0).
    - prim ReaderProofs.read_regexp_shift p1 v1. destruct v1; reflexivity.
    - prim ReaderProofs.read_regexp_submatch_shift p1 v1. destruct v1 as [ms|]; [|reflexivity].
      destruct (nth_N ms g); reflexivity.
  Qed.

  (* every literal parser, every reader, every position: node positions (ln_pos, ln_rpos) and the
     error position (le_pos) move by [d]; token, value, error kind and a panic are unchanged *)
  Theorem lit_parse_shift l pos :
    Literals.lit_parse cf cd l r' (pos + d) = shift_lout d (Literals.lit_parse cf cd l r pos).
  Proof.
    destruct l; cbn [Literals.lit_parse].
    - apply integer_shift. - apply float_shift. - apply string_shift. - apply char_shift.
    - apply bool_shift. - apply nil_shift. - apply word_shift. - apply op_shift. - apply rune_shift.
    - apply duration_shift. - apply regexp_shift.
  Qed.
End LitShift.

Section Prims.
  Variable d : N.
  Variable inp : input.
  Notation inp' := (shift_input d inp).
  Notation sh := (shift_node d).

  (* ---- the reader primitives only look at pos - offset ---- *)
  Lemma byte_at_shift pos : byte_at inp' (pos + d) = byte_at inp pos.
  Proof. unfold byte_at, shift_input; cbn [i_data i_offset]. rewrite sub_shift. reflexivity. Qed.
  Lemma remaining_shift pos : remaining inp' (pos + d) = remaining inp pos.
  Proof. unfold remaining, i_len, shift_input; cbn [i_data i_offset]. rewrite sub_shift. reflexivity. Qed.
  Lemma is_eof_shift pos : is_eof inp' (pos + d) = is_eof inp pos.
  Proof. unfold is_eof, i_len, shift_input; cbn [i_data i_offset]. rewrite sub_shift. reflexivity. Qed.

  (* the reader of the shifted input is the shifted reader *)
  Lemma reader_of_shift : reader_of inp' = Reader.shift_reader (reader_of inp) d.
  Proof. reflexivity. Qed.

  (* the panic marker error lies at [pos], so it moves with it *)
  Lemma lit_conv_shift pos o :
    lit_conv (pos + d) (shift_lout d o) = (map sh (fst (lit_conv pos o)), shift_oerr d (snd (lit_conv pos o))).
  Proof. destruct o as [[[nd|] [e|]]| |]; reflexivity. Qed.

  Lemma term_parse_shift t pos :
    term_parse inp' t (pos + d) =
    (map sh (fst (term_parse inp t pos)), shift_oerr d (snd (term_parse inp t pos))).
  Proof.
    destruct t as [ch|l]; unfold term_parse.
    - rewrite byte_at_shift.
      destruct (byte_at inp pos) as [b|]; [destruct (b =? ch)|]; cbn [fst snd map shift_node shift_oerr option_map];
        unfold shift_err, mk_err; cbn [epos ecause]; try reflexivity.
      replace (pos + d + 1) with (pos + 1 + d) by lia. reflexivity.
    - change (reader_of inp') with (Reader.shift_reader (reader_of inp) d).
      cbn [shift_input i_cf i_cd]. rewrite lit_parse_shift. apply lit_conv_shift.
  Qed.

  (* ---- whitespace: position 0 is the "no line break seen" sentinel ---- *)
  Definition sh0 (nl : N) : N := if nl =? 0 then 0 else nl + d.

  Lemma sh0_eqb nl : (sh0 nl =? 0) = (nl =? 0).
  Proof.
    unfold sh0. destruct (nl =? 0) eqn:E; [reflexivity|]. apply N.eqb_neq in E. apply N.eqb_neq. lia.
  Qed.

  Lemma ws_scan_shift l : forall pos nl, 1 <= pos ->
    ws_scan l (pos + d) (sh0 nl) = (fst (ws_scan l pos nl) + d, sh0 (snd (ws_scan l pos nl))).
  Proof.
    induction l as [|b t IH]; intros pos nl Hpos; cbn [ws_scan fst snd]; [reflexivity|].
    destruct (is_ws b); [|reflexivity].
    replace (pos + d + 1) with (pos + 1 + d) by lia.
    rewrite sh0_eqb.
    replace (if is_nl b && (nl =? 0) then pos + d else sh0 nl)
      with (sh0 (if is_nl b && (nl =? 0) then pos else nl)).
    - apply IH. lia.
    - destruct (is_nl b && (nl =? 0)); [|reflexivity].
      unfold sh0. replace (pos =? 0) with false by (symmetry; apply N.eqb_neq; lia). reflexivity.
  Qed.

  Lemma ws_scan_bounds l : forall pos nl,
    pos <= fst (ws_scan l pos nl) /\ (snd (ws_scan l pos nl) = nl \/ pos <= snd (ws_scan l pos nl)).
  Proof.
    induction l as [|b t IH]; intros pos nl; cbn [ws_scan fst snd]; [split; [lia|left; reflexivity]|].
    destruct (is_ws b); [|cbn [fst snd]; split; [lia|left; reflexivity]].
    destruct (IH (pos + 1) (if is_nl b && (nl =? 0) then pos else nl)) as [H1 H2].
    split; [lia|]. destruct (is_nl b && (nl =? 0)); [right; lia|].
    destruct H2 as [H2|H2]; [left; exact H2|right; lia].
  Qed.

  Lemma skip_ws_shift pos m : 1 <= pos ->
    skip_ws inp' (pos + d) m = (fst (skip_ws inp pos m) + d, shift_oerr d (snd (skip_ws inp pos m))).
  Proof.
    intros Hpos. unfold skip_ws, shift_input; cbn [i_data i_offset]. rewrite sub_shift.
    set (l := skipn (N.to_nat (pos - i_offset inp)) (i_data inp)).
    pose proof (ws_scan_shift l pos 0 Hpos) as E. change (sh0 0) with 0 in E. rewrite E. clear E.
    pose proof (ws_scan_bounds l pos 0) as [_ Hnl].
    destruct (ws_scan l pos 0) as [e nl]. cbn [fst snd] in *.
    destruct m.
    - rewrite ltb_shift. destruct (pos <? e); reflexivity.
    - unfold sh0. destruct (nl =? 0) eqn:E0; [apply N.eqb_eq in E0; subst nl; reflexivity|].
      apply N.eqb_neq in E0.
      replace (0 <? nl + d) with true by (symmetry; apply N.ltb_lt; lia).
      replace (0 <? nl) with true by (symmetry; apply N.ltb_lt; lia). reflexivity.
    - reflexivity.
    - rewrite sh0_eqb. destruct (nl =? 0); reflexivity.
  Qed.

  Lemma skip_ws_ok pos m : 1 <= pos -> pos <= fst (skip_ws inp pos m) /\ err_ok (snd (skip_ws inp pos m)).
  Proof.
    intros Hpos. unfold skip_ws.
    set (l := skipn (N.to_nat (pos - i_offset inp)) (i_data inp)).
    pose proof (ws_scan_bounds l pos 0) as [He Hnl].
    destruct (ws_scan l pos 0) as [e nl]. cbn [fst snd] in *.
    destruct m.
    - destruct (pos <? e); cbn [fst snd err_ok epos]; split; (lia || exact I).
    - destruct (0 <? nl) eqn:E; cbn [fst snd err_ok epos]; split; try (lia || exact I);
        apply N.ltb_lt in E; lia.       (* with ZifyBool loaded (through TermFacts) lia may already close it *)
    - cbn [fst snd err_ok]. split; [lia|exact I].
    - destruct (nl =? 0); cbn [fst snd err_ok epos]; split; (lia || exact I).
  Qed.

  (* ---- nodes ---- *)
  Lemma node_pos_shift n : node_pos (sh n) = node_pos n + d. Proof. destruct n; reflexivity. Qed.
  Lemma node_rpos_shift n : node_rpos (sh n) = node_rpos n + d. Proof. destruct n; reflexivity. Qed.
  Lemma node_token_shift n : node_token (sh n) = node_token n. Proof. destruct n; reflexivity. Qed.
  Lemma is_eof_node_shift n : is_eof_node (sh n) = is_eof_node n.
  Proof. unfold is_eof_node. rewrite node_token_shift. reflexivity. Qed.
  Lemma set_rpos_shift n r : set_rpos (sh n) (r + d) = sh (set_rpos n r). Proof. destruct n; reflexivity. Qed.

  Lemma has_empty_shift p l : has_empty (p + d) (map sh l) = has_empty p l.
  Proof.
    induction l as [|n t IH]; [reflexivity|]. destruct n; cbn [map shift_node has_empty]; try exact IH.
    rewrite eqb_shift, IH. reflexivity.
  Qed.
  Lemma append_nodes_shift l : forall acc, append_nodes (map sh acc) (map sh l) = map sh (append_nodes acc l).
  Proof.
    induction l as [|n t IH]; intros acc; [reflexivity|].
    destruct n; cbn [map shift_node append_nodes].
    - rewrite <- (IH (acc ++ [NTerm tok v pos rpos])), map_app. reflexivity.
    - rewrite has_empty_shift. destruct (has_empty pos acc); [apply IH|].
      rewrite <- (IH (acc ++ [NEmpty pos])), map_app. reflexivity.
    - rewrite <- (IH (acc ++ [NEnd pos])), map_app. reflexivity.
    - rewrite <- (IH (acc ++ [NNonTerm tok ip children pos rpos])), map_app. reflexivity.
  Qed.
  Lemma append_node_shift a b : append_node (map sh a) (map sh b) = map sh (append_node a b).
  Proof.
    destruct a as [|x a]; [reflexivity|]. unfold append_node. cbn [map].
    change (sh x :: map sh a) with (map sh (x :: a)). apply append_nodes_shift.
  Qed.

  Lemma last_map {A B} (f : A -> B) l a : last (map f l) (f a) = f (last l a).
  Proof. induction l as [|x t IH]; [reflexivity|]. cbn [map last]. destruct t; [reflexivity|exact IH]. Qed.

  Lemma handle_result_shift q pos children :
    handle_result q (pos + d) (map sh children) = sh (handle_result q pos children).
  Proof.
    unfold handle_result. destruct children as [|n [|n2 t]]; cbn [map].
    - reflexivity.
    - destruct (q_single q); [reflexivity|]. cbn [shift_node map]. rewrite node_pos_shift, node_rpos_shift. reflexivity.
    - cbn [shift_node]. rewrite node_pos_shift.
      change (sh n :: sh n2 :: map sh t) with (map sh (n :: n2 :: t)).
      rewrite last_map, node_rpos_shift. reflexivity.
  Qed.

  Lemma trim_nodes_shift m ns : forall w, nodes_ok ns ->
    trim_nodes inp' m (map sh ns) (shift_oerr d w) =
    (map sh (fst (trim_nodes inp m ns w)), shift_oerr d (snd (trim_nodes inp m ns w))).
  Proof.
    induction ns as [|n t IH]; intros w Hok; [reflexivity|].
    inversion Hok as [|? ? Hn Ht]; subst. apply node_ok_rpos in Hn.
    destruct n; cbn [map shift_node trim_nodes node_rpos] in *.
    - rewrite skip_ws_shift by exact Hn. destruct (skip_ws inp rpos m) as [e w1]; cbn [fst snd].
      rewrite IH by exact Ht. destruct (trim_nodes inp m t w1) as [t' w']; reflexivity.
    - rewrite skip_ws_shift by exact Hn. destruct (skip_ws inp pos m) as [e w1]; cbn [fst snd].
      rewrite IH by exact Ht. destruct (trim_nodes inp m t w1) as [t' w']; reflexivity.
    - rewrite IH by exact Ht. destruct (trim_nodes inp m t w) as [t' w']; reflexivity.
    - rewrite skip_ws_shift by exact Hn. destruct (skip_ws inp rpos m) as [e w1]; cbn [fst snd].
      rewrite IH by exact Ht. destruct (trim_nodes inp m t w1) as [t' w']; reflexivity.
  Qed.

  (* ---- errors ---- *)
  Lemma is_notfound_shift e : is_notfound (shift_err d e) = is_notfound e. Proof. reflexivity. Qed.
  Lemma better_shift old e : better (shift_oerr d old) (shift_err d e) = better old e.
  Proof. destruct old as [o|]; [|reflexivity]. cbn [shift_oerr option_map better shift_err epos]. apply leb_shift. Qed.
  Lemma keep_max_shift old new : keep_max (shift_oerr d old) (shift_oerr d new) = shift_oerr d (keep_max old new).
  Proof.
    destruct new as [e|]; [|reflexivity]. cbn [shift_oerr option_map keep_max].
    change (option_map (shift_err d) old) with (shift_oerr d old). rewrite better_shift.
    destruct (better old e); reflexivity.
  Qed.
  Lemma max_err_shift old new : max_err (shift_oerr d old) (shift_oerr d new) = shift_oerr d (max_err old new).
  Proof.
    destruct new as [e|]; [|reflexivity]. destruct old as [o|]; [|reflexivity].
    cbn [shift_oerr option_map max_err shift_err epos]. rewrite leb_shift. destruct (epos o <=? epos e); reflexivity.
  Qed.
  Lemma set_error_shift c e : set_error (shift_ctx d c) (shift_oerr d e) = shift_ctx d (set_error c e).
  Proof. unfold set_error, shift_ctx; cbn [cache cerr calls g_bodies g_fails]. rewrite max_err_shift. reflexivity. Qed.
  Lemma alt_err_shift pos err nf err2 :
    alt_err (pos + d) (shift_oerr d err) (shift_oerr d nf) (shift_oerr d err2) =
    (shift_oerr d (fst (alt_err pos err nf err2)), shift_oerr d (snd (alt_err pos err nf err2))).
  Proof.
    unfold alt_err. destruct err2 as [e2|]; [|reflexivity]. cbn [shift_oerr option_map].
    change (option_map (shift_err d) err) with (shift_oerr d err). rewrite better_shift.
    destruct (better err e2); [|reflexivity].
    rewrite is_notfound_shift. cbn [shift_err epos]. rewrite ltb_shift.
    destruct ((pos <? epos e2) || negb (is_notfound e2)); reflexivity.
  Qed.
  Lemma or_nf_shift err nf : or_nf (shift_oerr d err) (shift_oerr d nf) = shift_oerr d (or_nf err nf).
  Proof. destruct err; reflexivity. Qed.
  Lemma rename_err_shift nm pos e : rename_err nm (pos + d) (shift_err d e) = shift_err d (rename_err nm pos e).
  Proof.
    unfold rename_err. rewrite is_notfound_shift. cbn [shift_err epos]. rewrite eqb_shift.
    destruct ((epos e =? pos) && is_notfound e); reflexivity.
  Qed.

  (* ---- stack and cache ---- *)
  Lemma count_active_shift idx pos stk : count_active idx (pos + d) (shift_stack d stk) = count_active idx pos stk.
  Proof.
    unfold count_active, len_N. f_equal. induction stk as [|k t IH]; [reflexivity|].
    cbn [shift_stack map filter shift_key fst snd]. rewrite eqb_shift.
    destruct ((fst k =? idx) && (snd k =? pos)); cbn [length]; [f_equal|]; exact IH.
  Qed.
  Lemma cache_find_shift i p l :
    cache_find (i, p + d) (map (shift_entry d) l) = option_map (shift_result d) (cache_find (i, p) l).
  Proof.
    induction l as [|[[i' p'] r] t IH]; [reflexivity|].
    cbn [map shift_entry cache_find fst snd]. rewrite eqb_shift.
    destruct ((i =? i') && (p =? p')); [reflexivity|exact IH].
  Qed.
  Lemma cache_get_shift c idx pos lrc :
    cache_get (shift_ctx d c) idx (pos + d) lrc = option_map (shift_result d) (cache_get c idx pos lrc).
  Proof.
    unfold cache_get. cbn [shift_ctx cache]. rewrite cache_find_shift.
    destruct (cache_find (idx, pos) (cache c)) as [r|]; [|reflexivity].
    cbn [option_map shift_result r_lrc]. destruct (reusable (r_lrc r) lrc); reflexivity.
  Qed.
End Prims.

(* ------------------------------------------------------------------ *)
(* Pass 1: every position the engine produces is >= 1 when it starts   *)
(* from positions >= 1 (no hypothesis on the input or its offset)      *)

Lemma last_Forall {A} (P : A -> Prop) l a : Forall P l -> P a -> P (last l a).
Proof. induction l as [|x t IH]; intros Hl Ha; [exact Ha|]. inversion Hl; subst. cbn [last]. destruct t; [assumption|apply IH; assumption]. Qed.

Lemma append_nodes_ok l : forall acc, nodes_ok acc -> nodes_ok l -> nodes_ok (append_nodes acc l).
Proof.
  unfold nodes_ok. induction l as [|n t IH]; intros acc Ha Hl; [exact Ha|].
  inversion Hl as [|? ? Hn Ht]; subst.
  assert (Hx : Forall node_ok (acc ++ [n])) by (apply Forall_app; split; [exact Ha|constructor; [exact Hn|constructor]]).
  destruct n; cbn [append_nodes]; try (apply IH; assumption).
  destruct (has_empty pos acc); apply IH; assumption.
Qed.
Lemma append_node_ok a b : nodes_ok a -> nodes_ok b -> nodes_ok (append_node a b).
Proof. intros Ha Hb. unfold append_node. destruct a; [exact Hb|apply append_nodes_ok; assumption]. Qed.
Lemma nodes_ok_one n : node_ok n -> nodes_ok [n]. Proof. intros H; constructor; [exact H|constructor]. Qed.
Lemma set_rpos_ok n r : node_ok n -> 1 <= r -> node_ok (set_rpos n r).
Proof.
  destruct n; cbn [set_rpos]; intros H Hr.
  - apply node_ok_term in H. apply node_ok_term. tauto.
  - apply node_ok_empty. exact Hr.
  - exact H.
  - apply node_ok_nonterm in H. apply node_ok_nonterm. tauto.
Qed.
Lemma handle_result_ok q pos children : 1 <= pos -> nodes_ok children -> node_ok (handle_result q pos children).
Proof.
  intros Hpos Hc. unfold handle_result. destruct children as [|n [|n2 t]].
  - apply node_ok_nonterm. repeat split; try exact Hpos. constructor.
  - inversion Hc as [|? ? Hn _]; subst. destruct (q_single q); [exact Hn|].
    apply node_ok_nonterm. split; [apply node_ok_pos; exact Hn|]. split; [apply node_ok_rpos; exact Hn|exact Hc].
  - inversion Hc as [|? ? Hn _]; subst.
    apply node_ok_nonterm. split; [apply node_ok_pos; exact Hn|]. split; [|exact Hc].
    apply node_ok_rpos. apply last_Forall; assumption.
Qed.
Lemma better_keep_ok old new : err_ok old -> err_ok new -> err_ok (keep_max old new).
Proof. intros Ho Hn. unfold keep_max. destruct new as [e|]; [|exact Ho]. destruct (better old e); assumption. Qed.
Lemma max_err_ok old new : err_ok old -> err_ok new -> err_ok (max_err old new).
Proof.
  intros Ho Hn. unfold max_err. destruct new as [e|]; [|exact Ho]. destruct old as [o|]; [|exact Hn].
  destruct (epos o <=? epos e); assumption.
Qed.
Lemma set_error_ok c e : ctx_ok c -> err_ok e -> ctx_ok (set_error c e).
Proof. intros [H1 H2] He. split; [exact H1|]. cbn [set_error cerr]. apply max_err_ok; assumption. Qed.
Lemma alt_err_ok pos err nf err2 : err_ok err -> err_ok nf -> err_ok err2 ->
  err_ok (fst (alt_err pos err nf err2)) /\ err_ok (snd (alt_err pos err nf err2)).
Proof.
  intros H1 H2 H3. unfold alt_err. destruct err2 as [e2|]; [|split; assumption].
  destruct (better err e2); [|split; assumption].
  destruct ((pos <? epos e2) || negb (is_notfound e2)); split; assumption.
Qed.
Lemma or_nf_ok err nf : err_ok err -> err_ok nf -> err_ok (or_nf err nf).
Proof. intros H1 H2. destruct err; assumption. Qed.
Lemma rename_err_ok nm pos e : 1 <= pos -> 1 <= epos e -> 1 <= epos (rename_err nm pos e).
Proof. intros Hp He. unfold rename_err. destruct ((epos e =? pos) && is_notfound e); [exact Hp|exact He]. Qed.
Lemma cache_get_ok c idx pos l r : ctx_ok c -> cache_get c idx pos l = Some r -> result_ok r.
Proof.
  intros [Hc _]. unfold cache_get.
  destruct (cache_find (idx, pos) (cache c)) as [r0|] eqn:E; [|discriminate].
  destruct (reusable (r_lrc r0) l); [|discriminate]. intros H; injection H as <-.
  induction (cache c) as [|[k r1] t IH]; [discriminate|]. inversion Hc as [|? ? Hr Ht]; subst.
  cbn [cache_find] in E. destruct ((fst (idx, pos) =? fst k) && (snd (idx, pos) =? snd k)).
  - injection E as <-. exact Hr.
  - apply IH; assumption.
Qed.
Lemma cache_save_ok c idx pos r : ctx_ok c -> result_ok r -> ctx_ok (cache_save c idx pos r).
Proof. intros [H1 H2] Hr. split; [|exact H2]. cbn [cache_save cache]. constructor; [exact Hr|exact H1]. Qed.

Section Ok.
  Variable inp : input.
  Variable rules : list pexpr.

  Definition pok (rp : ptype) := forall e c stk l pos r,
    1 <= pos -> ctx_ok c -> rp e c stk l pos = Ok r -> pres_ok r.
  Definition sok (rs : stype) := forall q dp c stk l pos m st r,
    1 <= pos -> ctx_ok c -> seqst_ok st -> rs q dp c stk l pos m st = Ok r -> sres_ok r.

  Lemma term_parse_ok t pos : 1 <= pos ->
    nodes_ok (fst (term_parse inp t pos)) /\ err_ok (snd (term_parse inp t pos)).
  Proof.
    intros Hpos. destruct t as [ch|l].
    - unfold term_parse.
      destruct (byte_at inp pos) as [b|]; [destruct (b =? ch)|]; cbn [fst snd err_ok mk_err epos];
        split; try exact I; try exact Hpos; try constructor.
      + apply node_ok_term. lia.
      + constructor.
    - destruct (term_parse inp (TLit l) pos) as [res err] eqn:E. cbn [fst snd].
      destruct (term_parse_cases _ _ _ _ _ E) as [->|(n & -> & ->)].
      + split; [constructor|]. destruct err as [e|]; [|exact I].
        apply term_parse_err in E. destruct E as (_ & Hle & _). cbn [err_ok]. lia.
      + apply term_parse_lit_node in E. destruct E as (_ & tok & v & rp & -> & _ & Hle & _).
        split; [apply nodes_ok_one, node_ok_term; lia|exact I].
  Qed.

  Lemma trim_nodes_ok m ns : forall w, nodes_ok ns -> err_ok w ->
    nodes_ok (fst (trim_nodes inp m ns w)) /\ err_ok (snd (trim_nodes inp m ns w)).
  Proof.
    induction ns as [|n t IH]; intros w Hns Hw; [split; [constructor|exact Hw]|].
    inversion Hns as [|? ? Hn Ht]; subst.
    assert (Hgen : forall r, 1 <= r -> node_ok (set_rpos n r) ->
      let '(e, w1) := skip_ws inp r m in
      let '(t', w') := trim_nodes inp m t w1 in
      nodes_ok (set_rpos n (fst (skip_ws inp r m)) :: t') /\ err_ok w').
    { intros r Hr _. pose proof (skip_ws_ok inp r m Hr) as [He Hw1].
      destruct (skip_ws inp r m) as [e w1]; cbn [fst snd] in *.
      destruct (IH w1 Ht Hw1) as [A B]. destruct (trim_nodes inp m t w1) as [t' w']; cbn [fst snd] in *.
      split; [|exact B]. constructor; [|exact A]. apply set_rpos_ok; [exact Hn|lia]. }
    pose proof (node_ok_rpos n Hn) as Hr.
    destruct n; cbn [trim_nodes node_rpos] in *.
    - specialize (Hgen rpos Hr Hn). destruct (skip_ws inp rpos m) as [e w1].
      destruct (trim_nodes inp m t w1) as [t' w']; cbn [fst snd] in *. exact Hgen.
    - specialize (Hgen pos Hr Hn). destruct (skip_ws inp pos m) as [e w1].
      destruct (trim_nodes inp m t w1) as [t' w']; cbn [fst snd] in *. exact Hgen.
    - destruct (IH w Ht Hw) as [A B]. destruct (trim_nodes inp m t w) as [t' w']; cbn [fst snd] in *.
      split; [constructor; assumption|exact B].
    - specialize (Hgen rpos Hr Hn). destruct (skip_ws inp rpos m) as [e w1].
      destruct (trim_nodes inp m t w1) as [t' w']; cbn [fst snd] in *. exact Hgen.
  Qed.

  Section OkStep.
    Variables (rp : ptype) (rs : stype).
    Hypothesis Hp : pok rp.
    Hypothesis Hs : sok rs.

    Ltac inv_bind H a Ha :=
      apply bind_ok in H; destruct H as (a & Ha & H).

    Lemma any_loop_ok stk l pos ps : 1 <= pos -> forall c cp res err nf r,
      ctx_ok c -> nodes_ok res -> err_ok err -> err_ok nf ->
      any_loop rp stk l pos ps c cp res err nf = Ok r -> pres_ok r.
    Proof.
      intros Hpos. induction ps as [|p ps IH]; intros c cp res err nf r Hc Hres Herr Hnf H; cbn [any_loop] in H.
      - destruct res; injection H as <-; cbn [pres_ok].
        + split; [constructor|]. split; [apply or_nf_ok; assumption|exact Hc].
        + split; [exact Hres|]. split; [exact I|apply set_error_ok; assumption].
      - inv_bind H a Ha. destruct a as [[[res2 cp2] err2] c'].
        destruct (Hp _ _ _ _ _ _ Hpos (Hc : ctx_ok (reg_call c)) Ha) as (A & B & C).
        destruct (alt_err_ok pos err nf err2 Herr Hnf B) as [D E].
        destruct (alt_err pos err nf err2) as [err' nf']; cbn [fst snd] in *.
        eapply IH; [exact C| |exact D|exact E|exact H]. apply append_node_ok; assumption.
    Qed.

    Lemma choice_loop_ok stk l pos ps : 1 <= pos -> forall c cp err nf r,
      ctx_ok c -> err_ok err -> err_ok nf ->
      choice_loop rp stk l pos ps c cp err nf = Ok r -> pres_ok r.
    Proof.
      intros Hpos. induction ps as [|p ps IH]; intros c cp err nf r Hc Herr Hnf H; cbn [choice_loop] in H.
      - injection H as <-; cbn [pres_ok].
        split; [constructor|]. split; [apply or_nf_ok; assumption|exact Hc].
      - inv_bind H a Ha. destruct a as [[[res2 cp2] err2] c'].
        destruct (Hp _ _ _ _ _ _ Hpos (Hc : ctx_ok (reg_call c)) Ha) as (A & B & C).
        destruct (alt_err_ok pos err nf err2 Herr Hnf B) as [D E].
        destruct (alt_err pos err nf err2) as [err' nf']; cbn [fst snd] in *.
        destruct res2 as [|n res2].
        + eapply IH; [exact C|exact D|exact E|exact H].
        + injection H as <-. cbn [pres_ok]. split; [exact A|]. split; [exact I|apply set_error_ok; assumption].
    Qed.

    Lemma parse_step_ok : pok (parse_step inp rules rp rs).
    Proof.
      intros ex c stk l pos r Hpos Hc H. destruct ex; cbn [parse_step] in H.
      - (* PTerm *)
        pose proof (term_parse_ok t pos Hpos) as [A B].
        destruct (term_parse inp t pos) as [res err]; cbn [fst snd] in *. injection H as <-. cbn [pres_ok err_ok] in *.
        split; [exact A|]. split; [exact B|]. destruct res; [destruct err|]; exact Hc.
      - (* PEmpty *) injection H as <-. cbn [pres_ok err_ok] in *. split; [apply nodes_ok_one, node_ok_empty, Hpos|]. split; [exact I|exact Hc].
      - (* PEnd *) destruct (is_eof inp pos); injection H as <-; cbn [pres_ok err_ok] in *.
        + split; [apply nodes_ok_one, node_ok_end, Hpos|]. split; [exact I|exact Hc].
        + split; [constructor|]. split; [exact Hpos|exact Hc].
      - (* PRef *) destruct (nth_N rules k); [|discriminate]. eapply Hp; eassumption.
      - (* PMemo *)
        destruct (cache_get c idx pos l) as [r0|] eqn:E.
        + injection H as <-. destruct (cache_get_ok _ _ _ _ _ Hc E) as [A B]. cbn [pres_ok err_ok] in *. tauto.
        + destruct (remaining inp pos + 1 <? map_get idx l).
          * injection H as <-. cbn [pres_ok err_ok] in *. split; [constructor|]. split; [exact I|exact Hc].
          * inv_bind H a Ha. destruct a as [[[nodes cp] err] c'].
            destruct (Hp _ _ _ _ _ _ Hpos (Hc : ctx_ok (log_body c idx pos _)) Ha) as (A & B & C).
            injection H as <-. cbn [pres_ok err_ok] in *. split; [exact A|]. split; [exact B|].
            apply cache_save_ok; [exact C|split; assumption].
      - (* PAny *) eapply any_loop_ok; try eassumption; try exact I. constructor.
      - (* PChoice *) eapply choice_loop_ok; try eassumption; exact I.
      - (* POpt *)
        inv_bind H a Ha. destruct a as [[[res cp] err] c'].
        destruct (Hp _ _ _ _ _ _ Hpos Hc Ha) as (A & B & C). injection H as <-. cbn [pres_ok err_ok] in *.
        split; [|tauto]. apply append_node_ok; [exact A|apply nodes_ok_one, node_ok_empty, Hpos].
      - (* PSeq *)
        inv_bind H a Ha. destruct a as [[stop st] c'].
        assert (H0 : seqst_ok {| s_cp := []; s_res := []; s_err := None; s_nodes := [] |})
          by (split; [constructor|split; [exact I|constructor]]).
        destruct (Hs _ _ _ _ _ _ _ _ _ Hpos Hc H0 Ha) as ((A & B & C) & D).
        destruct (s_res st) as [|n ns] eqn:Eres; injection H as <-; cbn [pres_ok err_ok] in *.
        + split; [constructor|]. split; [|exact D].
          destruct name as [nm|]; [|exact B]. destruct (s_err st) as [e|]; [|exact I].
          cbn [err_ok] in *. apply rename_err_ok; assumption.
        + split; [exact A|]. split; [exact I|apply set_error_ok; assumption].
      - (* PName *)
        inv_bind H a Ha. destruct a as [[[res cp] err] c'].
        destruct (Hp _ _ _ _ _ _ Hpos Hc Ha) as (A & B & C).
        destruct err as [e|]; [|destruct res]; injection H as <-; cbn [pres_ok err_ok mk_err epos] in *.
        + split; [constructor|]. split; [apply rename_err_ok; assumption|exact C].
        + split; [constructor|]. tauto.
        + tauto.
      - (* PLeftTrim *)
        pose proof (skip_ws_ok inp pos m Hpos) as [Hp1 Hw].
        destruct (skip_ws inp pos m) as [pos1 wserr]; cbn [fst snd] in *.
        inv_bind H a Ha. destruct a as [[[res cp] err] c'].
        destruct (Hp _ _ _ _ _ _ (N.le_trans _ _ _ Hpos Hp1) Hc Ha) as (A & B & C).
        match type of H with context [Ok (_, _, _, ?c2)] =>
          assert (Hc2 : ctx_ok c2);
          [ destruct (cerr c') as [ce|]; [|exact C];
            destruct ((epos ce =? pos1) && is_notfound ce); [|exact C];
            apply set_error_ok; [exact C|exact Hpos]
          | set (c3 := c2) in *; clearbody c3 ]
        end.
        destruct err as [e|]; [destruct wserr as [w|]; [destruct (pos1 <? epos e); [|destruct (is_notfound e)]|]
                              |destruct wserr as [w|]];
          injection H as <-; cbn [pres_ok err_ok mk_err epos] in *;
          (split; [first [exact A|constructor]|split; [first [exact Hw|exact B|exact Hpos|exact I]|exact Hc2]]).
      - (* PRightTrim *)
        inv_bind H a Ha. destruct a as [[[res cp] err] c'].
        destruct (Hp _ _ _ _ _ _ Hpos Hc Ha) as (A & B & C).
        destruct err as [e|].
        + cbn [err_ok] in B. pose proof (skip_ws_ok inp (epos e) m B) as [D _].
          injection H as <-. cbn [pres_ok err_ok] in *. split; [exact A|]. split; [|exact C].
          destruct (is_wserr e); [exact B|].
          destruct (epos e <? fst (skip_ws inp (epos e) m)); cbn [err_ok mk_err epos]; lia.
        + pose proof (trim_nodes_ok m res None A I) as [D E].
          destruct (trim_nodes inp m res None) as [res' wserr]; cbn [fst snd] in *.
          destruct wserr; injection H as <-; cbn [pres_ok err_ok] in *.
          * split; [constructor|]. tauto.
          * tauto.
      - (* PSuppress *)
        inv_bind H a Ha. destruct a as [[[res cp] err] c'].
        destruct (Hp _ _ _ _ _ _ Hpos Hc Ha) as (A & B & C). injection H as <-. cbn [pres_ok err_ok] in *. tauto.
      - (* PSingle *)
        inv_bind H a Ha. destruct a as [[[res cp] err] c'].
        destruct (Hp _ _ _ _ _ _ Hpos Hc Ha) as (A & B & C).
        destruct err as [e|]; [injection H as <-; cbn [pres_ok err_ok] in *; split; [constructor|tauto]|].
        assert (Hdef : pres_ok (res, cp, None, c')) by (cbn [pres_ok err_ok] in *; tauto).
        destruct res as [|n [|n2 t]]; try (injection H as <-; exact Hdef);
          [|destruct n; try destruct children as [|? [|? ?]]; injection H as <-; exact Hdef].
        destruct n; try (injection H as <-; exact Hdef).
        destruct children as [|ch [|ch2 t]]; try (injection H as <-; exact Hdef).
        injection H as <-. cbn [pres_ok err_ok] in *. split; [|tauto].
        inversion A as [|? ? Hn _]; subst. apply node_ok_nonterm in Hn. tauto.
    Qed.

    Lemma alts_loop_ok q dp stk l pos m prefix ns : forall st c r,
      nodes_ok ns -> nodes_ok prefix -> seqst_ok st -> ctx_ok c ->
      alts_loop rs q dp stk l pos m prefix ns st c = Ok r -> sres_ok r.
    Proof.
      induction ns as [|n ns IH]; intros st c r Hns Hpre Hst Hc H; cbn [alts_loop] in H.
      - injection H as <-. split; assumption.
      - inversion Hns as [|? ? Hn Hns']; subst.
        inv_bind H a Ha. destruct a as [[stop st'] c'].
        assert (Hstn : seqst_ok {| s_cp := s_cp st; s_res := s_res st; s_err := s_err st; s_nodes := n :: prefix |}).
        { destruct Hst as (A & B & C). split; [exact A|]. split; [exact B|]. constructor; assumption. }
        destruct (Hs _ _ _ _ _ _ _ _ _ (node_ok_rpos n Hn) Hc Hstn Ha) as [A B].
        destruct stop; [injection H as <-; split; assumption|].
        eapply IH; eassumption.
    Qed.

    Lemma seq_step_ok : sok (seq_step rp rs).
    Proof.
      intros q dp c stk l pos m st r Hpos Hc Hst H. unfold seq_step in H.
      inv_bind H a Ha. destruct a as [[[res cp] err] c1].
      assert (Hsub : pres_ok (res, cp, err, c1)).
      { destruct (seq_lookup (q_kind q) (q_ps q) dp) as [p|].
        - eapply Hp; [exact Hpos| |exact Ha]. exact Hc.
        - injection Ha as <- <- <- <-. cbn [pres_ok]. split; [constructor|]. split; [exact I|exact Hc]. }
      destruct Hsub as (A & B & C). destruct Hst as (S1 & S2 & S3).
      assert (Hst1 : seqst_ok {| s_cp := if m then set_union (s_cp st) cp else s_cp st; s_res := s_res st;
                                 s_err := keep_max (s_err st) err; s_nodes := s_nodes st |}).
      { split; [exact S1|]. split; [apply better_keep_ok; assumption|exact S3]. }
      destruct res as [|n res].
      - cbn [s_cp s_res s_err s_nodes] in H.
        destruct (seq_lencheck (q_kind q) (length (q_ps q)) dp).
        + assert (Hnd : node_ok (handle_result q pos (rev (s_nodes st)))).
          { apply handle_result_ok; [exact Hpos|]. apply Forall_rev. exact S3. }
          assert (Hst2 : seqst_ok {| s_cp := if m then set_union (s_cp st) cp else s_cp st;
                                     s_res := append_node (s_res st) [handle_result q pos (rev (s_nodes st))];
                                     s_err := keep_max (s_err st) err; s_nodes := s_nodes st |}).
          { split; [apply append_node_ok; [exact S1|apply nodes_ok_one; exact Hnd]|].
            split; [apply better_keep_ok; assumption|exact S3]. }
          destruct (s_nodes st); injection H as <-; split; assumption.
        + injection H as <-. split; assumption.
      - eapply alts_loop_ok; [exact A|exact S3|exact Hst1|exact C|exact H].
    Qed.
  End OkStep.

  Theorem engine_ok : forall f, pok (parse inp rules f) /\ sok (seqp inp rules f).
  Proof.
    induction f as [|f [IHp IHs]].
    - split; [intros e c stk l pos r _ _ H|intros q dp c stk l pos m st r _ _ _ H]; cbn in H; discriminate.
    - split.
      + intros e c stk l pos r. rewrite parse_S. apply parse_step_ok; assumption.
      + intros q dp c stk l pos m st r. rewrite seqp_S. apply seq_step_ok; assumption.
  Qed.
End Ok.

(* ------------------------------------------------------------------ *)
(* Pass 2: the simulation                                              *)

Section Sim.
  Variable d : N.
  Variable inp : input.
  Variable rules : list pexpr.
  Notation inp' := (shift_input d inp).
  Notation sh := (shift_node d).

  Definition psim (rp rp' : ptype) := forall e c stk l pos, 1 <= pos -> ctx_ok c ->
    rp' e (shift_ctx d c) (shift_stack d stk) l (pos + d) = shift_pout d (rp e c stk l pos).
  Definition ssim (rs rs' : stype) := forall q dp c stk l pos m st, 1 <= pos -> ctx_ok c -> seqst_ok st ->
    rs' q dp (shift_ctx d c) (shift_stack d stk) l (pos + d) m (shift_seqst d st) =
    shift_sout d (rs q dp c stk l pos m st).

  Section SimStep.
    Variables (rp rp' : ptype) (rs rs' : stype).
    Hypothesis Hpok : pok rp.
    Hypothesis Hsok : sok rs.
    Hypothesis Hp : psim rp rp'.
    Hypothesis Hs : ssim rs rs'.

    Ltac red_out := cbn [shift_pout shift_sout shift_outcome shift_pres shift_sres bind].

    Lemma any_loop_sim stk l pos ps : 1 <= pos -> forall c cp res err nf, ctx_ok c ->
      any_loop rp' (shift_stack d stk) l (pos + d) ps (shift_ctx d c) cp (map sh res) (shift_oerr d err) (shift_oerr d nf) =
      shift_pout d (any_loop rp stk l pos ps c cp res err nf).
    Proof.
      intros Hpos. induction ps as [|p ps IH]; intros c cp res err nf Hc; cbn [any_loop].
      - destruct res as [|n res]; cbn [map]; red_out.
        + rewrite or_nf_shift. reflexivity.
        + rewrite set_error_shift. reflexivity.
      - change (reg_call (shift_ctx d c)) with (shift_ctx d (reg_call c)).
        rewrite Hp by assumption.
        destruct (rp p (reg_call c) stk l pos) as [[[[res2 cp2] err2] c']| |] eqn:E; red_out; try reflexivity.
        destruct (Hpok _ _ _ _ _ _ Hpos (Hc : ctx_ok (reg_call c)) E) as (_ & _ & Hc').
        rewrite alt_err_shift. destruct (alt_err pos err nf err2) as [err' nf']; cbn [fst snd].
        rewrite append_node_shift. apply IH. exact Hc'.
    Qed.

    Lemma choice_loop_sim stk l pos ps : 1 <= pos -> forall c cp err nf, ctx_ok c ->
      choice_loop rp' (shift_stack d stk) l (pos + d) ps (shift_ctx d c) cp (shift_oerr d err) (shift_oerr d nf) =
      shift_pout d (choice_loop rp stk l pos ps c cp err nf).
    Proof.
      intros Hpos. induction ps as [|p ps IH]; intros c cp err nf Hc; cbn [choice_loop].
      - red_out. rewrite or_nf_shift. reflexivity.
      - change (reg_call (shift_ctx d c)) with (shift_ctx d (reg_call c)).
        rewrite Hp by assumption.
        destruct (rp p (reg_call c) stk l pos) as [[[[res2 cp2] err2] c']| |] eqn:E; red_out; try reflexivity.
        destruct (Hpok _ _ _ _ _ _ Hpos (Hc : ctx_ok (reg_call c)) E) as (_ & _ & Hc').
        rewrite alt_err_shift. destruct (alt_err pos err nf err2) as [err' nf']; cbn [fst snd].
        destruct res2 as [|n res2]; cbn [map].
        + apply IH. exact Hc'.
        + red_out. rewrite set_error_shift. reflexivity.
    Qed.

    Lemma parse_step_sim : psim (parse_step inp rules rp rs) (parse_step inp' rules rp' rs').
    Proof.
      intros ex c stk l pos Hpos Hc. destruct ex; cbn [parse_step].
      - (* PTerm *)
        rewrite term_parse_shift. destruct (term_parse inp t pos) as [res err]; cbn [fst snd].
        destruct res as [|n res]; [destruct err as [e|]|]; reflexivity.
      - (* PEmpty *) reflexivity.
      - (* PEnd *) rewrite is_eof_shift. destruct (is_eof inp pos); reflexivity.
      - (* PRef *) destruct (nth_N rules k); [apply Hp; assumption|reflexivity].
      - (* PMemo *)
        rewrite cache_get_shift. destruct (cache_get c idx pos l) as [r0|]; cbn [option_map]; [reflexivity|].
        rewrite remaining_shift. destruct (remaining inp pos + 1 <? map_get idx l); [reflexivity|].
        rewrite count_active_shift.
        change (log_body (shift_ctx d c) idx (pos + d) (1 + count_active idx pos stk))
          with (shift_ctx d (log_body c idx pos (1 + count_active idx pos stk))).
        change ((idx, pos + d) :: shift_stack d stk) with (shift_stack d ((idx, pos) :: stk)).
        rewrite Hp by assumption.
        destruct (rp ex (log_body c idx pos (1 + count_active idx pos stk)) ((idx, pos) :: stk) (map_inc idx l) pos)
          as [[[[nodes cp] err] c']| |]; reflexivity.
      - (* PAny *) exact (any_loop_sim stk l pos ps Hpos c [] [] None None Hc).
      - (* PChoice *) exact (choice_loop_sim stk l pos ps Hpos c [] None None Hc).
      - (* POpt *)
        rewrite Hp by assumption.
        destruct (rp ex c stk l pos) as [[[[res cp] err] c']| |]; red_out; try reflexivity.
        change [NEmpty (pos + d)] with (map sh [NEmpty pos]). rewrite append_node_shift. reflexivity.
      - (* PSeq *)
        change {| s_cp := []; s_res := []; s_err := None; s_nodes := [] |}
          with (shift_seqst d {| s_cp := []; s_res := []; s_err := None; s_nodes := [] |}) at 1.
        rewrite Hs; [|assumption|assumption|split; [constructor|split; [exact I|constructor]]].
        destruct (rs {| q_kind := k; q_ip := ip; q_single := single; q_ps := ps |} 0%nat c stk l pos true
                     {| s_cp := []; s_res := []; s_err := None; s_nodes := [] |}) as [[[stop st] c']| |];
          red_out; try reflexivity.
        cbn [shift_seqst s_cp s_res s_err s_nodes].
        destruct (s_res st) as [|n ns]; cbn [map].
        + destruct name as [nm|]; [|reflexivity]. destruct (s_err st) as [e|]; [|reflexivity].
          cbn [shift_oerr option_map]. rewrite rename_err_shift. reflexivity.
        + rewrite set_error_shift. reflexivity.
      - (* PName *)
        rewrite Hp by assumption.
        destruct (rp ex c stk l pos) as [[[[res cp] err] c']| |]; red_out; try reflexivity.
        destruct err as [e|]; cbn [shift_oerr option_map].
        + rewrite rename_err_shift. reflexivity.
        + destruct res; reflexivity.
      - (* PLeftTrim *)
        rewrite skip_ws_shift by assumption.
        pose proof (skip_ws_ok inp pos m Hpos) as [Hp1 _].
        destruct (skip_ws inp pos m) as [pos1 wserr]; cbn [fst snd] in *.
        rewrite Hp by (assumption || lia).
        destruct (rp ex c stk l pos1) as [[[[res cp] err] c']| |]; red_out; try reflexivity.
        assert (Ec : match cerr (shift_ctx d c') with
                     | Some ce => if (epos ce =? pos1 + d) && is_notfound ce
                                  then set_error (shift_ctx d c') (Some (mk_err (pos + d) (ecause ce))) else shift_ctx d c'
                     | None => shift_ctx d c'
                     end =
                     shift_ctx d match cerr c' with
                     | Some ce => if (epos ce =? pos1) && is_notfound ce
                                  then set_error c' (Some (mk_err pos (ecause ce))) else c'
                     | None => c'
                     end).
        { cbn [shift_ctx cerr]. destruct (cerr c') as [ce|]; cbn [shift_oerr option_map]; [|reflexivity].
          rewrite is_notfound_shift. cbn [shift_err epos ecause]. rewrite eqb_shift.
          destruct ((epos ce =? pos1) && is_notfound ce); [|reflexivity].
          change (Some (mk_err (pos + d) (ecause ce))) with (shift_oerr d (Some (mk_err pos (ecause ce)))).
          change {| cache := map (shift_entry d) (cache c'); cerr := option_map (shift_err d) (Some ce); calls := calls c';
                    g_bodies := map (shift_body d) (g_bodies c'); g_fails := map (shift_fail d) (g_fails c') |}
            with (shift_ctx d c') in *.
          apply set_error_shift. }
        rewrite Ec. clear Ec.
        destruct err as [e|]; destruct wserr as [w|]; cbn [shift_oerr option_map]; try reflexivity.
        cbn [shift_err epos]. rewrite ltb_shift. destruct (pos1 <? epos e); [reflexivity|].
        rewrite is_notfound_shift.
        destruct (is_notfound e); reflexivity.
      - (* PRightTrim *)
        rewrite Hp by assumption.
        destruct (rp ex c stk l pos) as [[[[res cp] err] c']| |] eqn:E; red_out; try reflexivity.
        destruct (Hpok _ _ _ _ _ _ Hpos Hc E) as (A & B & _).
        destruct err as [e|]; cbn [shift_oerr option_map].
        + cbn [err_ok] in B. cbn [shift_err epos]. rewrite skip_ws_shift by exact B. cbn [fst].
          change (is_wserr (shift_err d e)) with (is_wserr e). destruct (is_wserr e); [reflexivity|].
          rewrite ltb_shift. destruct (epos e <? fst (skip_ws inp (epos e) m)); reflexivity.
        + change (@None perr) with (shift_oerr d None) at 1. rewrite trim_nodes_shift by exact A.
          destruct (trim_nodes inp m res None) as [res' wserr]; cbn [fst snd].
          destruct wserr; reflexivity.
      - (* PSuppress *)
        rewrite Hp by assumption.
        destruct (rp ex c stk l pos) as [[[[res cp] err] c']| |]; reflexivity.
      - (* PSingle *)
        rewrite Hp by assumption.
        destruct (rp ex c stk l pos) as [[[[res cp] err] c']| |]; red_out; try reflexivity.
        destruct err as [e|]; [reflexivity|]. cbn [shift_oerr option_map].
        destruct res as [|n [|n2 t]]; [reflexivity| |destruct n; try destruct children as [|? [|? ?]]; reflexivity].
        destruct n; try reflexivity. destruct children as [|ch [|ch2 t]]; reflexivity.
    Qed.

    Lemma alts_loop_sim q dp stk l pos m prefix ns : forall st c,
      nodes_ok ns -> nodes_ok prefix -> seqst_ok st -> ctx_ok c ->
      alts_loop rs' q dp (shift_stack d stk) l (pos + d) m (map sh prefix) (map sh ns) (shift_seqst d st) (shift_ctx d c) =
      shift_sout d (alts_loop rs q dp stk l pos m prefix ns st c).
    Proof.
      induction ns as [|n ns IH]; intros st c Hns Hpre Hst Hc; [reflexivity|].
      inversion Hns as [|? ? Hn Hns']; subst.
      cbn [alts_loop map]. rewrite node_rpos_shift, ltb_shift.
      set (stn := {| s_cp := s_cp st; s_res := s_res st; s_err := s_err st; s_nodes := n :: prefix |}).
      change {| s_cp := s_cp (shift_seqst d st); s_res := s_res (shift_seqst d st); s_err := s_err (shift_seqst d st);
                s_nodes := sh n :: map sh prefix |} with (shift_seqst d stn).
      assert (Hstn : seqst_ok stn).
      { destruct Hst as (A & B & C). split; [exact A|]. split; [exact B|]. constructor; assumption. }
      rewrite Hs; [|apply node_ok_rpos; exact Hn|exact Hc|exact Hstn].
      clearbody stn.
      match goal with |- context [shift_sout d ?t] =>
        destruct t as [[[stop st'] c']| |] eqn:E; red_out; try reflexivity end.
      destruct (Hsok _ _ _ _ _ _ _ _ _ (node_ok_rpos n Hn) Hc Hstn E) as [A B].
      destruct stop; [reflexivity|]. apply IH; assumption.
    Qed.

    Lemma seq_step_sim : ssim (seq_step rp rs) (seq_step rp' rs').
    Proof.
      intros q dp c stk l pos m st Hpos Hc Hst. unfold seq_step.
      assert (Esub : match seq_lookup (q_kind q) (q_ps q) dp with
                     | Some p => rp' p (reg_call (shift_ctx d c)) (shift_stack d stk) l (pos + d)
                     | None => Ok ([], [], None, shift_ctx d c)
                     end = shift_pout d match seq_lookup (q_kind q) (q_ps q) dp with
                                        | Some p => rp p (reg_call c) stk l pos
                                        | None => Ok ([], [], None, c)
                                        end).
      { destruct (seq_lookup (q_kind q) (q_ps q) dp) as [p|]; [|reflexivity].
        change (reg_call (shift_ctx d c)) with (shift_ctx d (reg_call c)). apply Hp; assumption. }
      rewrite Esub. clear Esub.
      assert (Hsub : forall r, match seq_lookup (q_kind q) (q_ps q) dp with
                               | Some p => rp p (reg_call c) stk l pos
                               | None => Ok ([], [], None, c)
                               end = Ok r -> pres_ok r).
      { intros r. destruct (seq_lookup (q_kind q) (q_ps q) dp) as [p|].
        - apply Hpok; assumption.
        - intros H; injection H as <-. cbn [pres_ok]. split; [constructor|]. split; [exact I|exact Hc]. }
      destruct (match seq_lookup (q_kind q) (q_ps q) dp with
                | Some p => rp p (reg_call c) stk l pos
                | None => Ok ([], [], None, c)
                end) as [[[[res cp] err] c1]| |]; red_out; try reflexivity.
      destruct (Hsub _ eq_refl) as (A & B & C). destruct Hst as (S1 & S2 & S3).
      cbn [shift_seqst s_cp s_res s_err s_nodes].
      rewrite keep_max_shift.
      set (st1 := {| s_cp := if m then set_union (s_cp st) cp else s_cp st; s_res := s_res st;
                     s_err := keep_max (s_err st) err; s_nodes := s_nodes st |}).
      assert (Hst1 : seqst_ok st1).
      { split; [exact S1|]. split; [apply better_keep_ok; assumption|exact S3]. }
      destruct res as [|n res]; cbn [map].
      - destruct (seq_lencheck (q_kind q) (length (q_ps q)) dp); [|reflexivity].
        rewrite <- map_rev, handle_result_shift.
        change [sh (handle_result q pos (rev (s_nodes st)))] with (map sh [handle_result q pos (rev (s_nodes st))]).
        rewrite append_node_shift.
        destruct (s_nodes st) as [|lastn ?]; cbn [map]; [reflexivity|].
        rewrite is_eof_node_shift. reflexivity.
      - change {| s_cp := if m then set_union (s_cp st) cp else s_cp st; s_res := map sh (s_res st);
                  s_err := shift_oerr d (keep_max (s_err st) err); s_nodes := map sh (s_nodes st) |}
          with (shift_seqst d st1).
        change (sh n :: map sh res) with (map sh (n :: res)).
        apply alts_loop_sim; assumption.
    Qed.
  End SimStep.

  (* EVERYTHING shifts uniformly: nodes, errors, context error, cache, ghost logs; call counts,
     curtailing sets and outcomes (Panic / OutOfFuel) are unchanged *)
  Theorem shift_engine : forall f,
    psim (parse inp rules f) (parse inp' rules f) /\ ssim (seqp inp rules f) (seqp inp' rules f).
  Proof.
    induction f as [|f [IHp IHs]].
    - split; [intros e c stk l pos _ _|intros q dp c stk l pos m st _ _ _]; reflexivity.
    - destruct (engine_ok inp rules f) as [Hpok Hsok]. split.
      + intros e c stk l pos. rewrite !parse_S. apply parse_step_sim; assumption.
      + intros q dp c stk l pos m st. rewrite !seqp_S. apply seq_step_sim; assumption.
  Qed.
End Sim.

(* ------------------------------------------------------------------ *)
(* C12, part 1: the theorems                                           *)

Lemma ctx0_ok : ctx_ok ctx0. Proof. split; [constructor|exact I]. Qed.
Lemma shift_ctx0 d : shift_ctx d ctx0 = ctx0. Proof. reflexivity. Qed.

(* The exact hypotheses: the start position is >= 1 and every position stored in the start
   context's cache and context error is >= 1 ([ctx_ok]; [ctx0] satisfies it).  Nothing is
   assumed about the relation of [pos] and the offset: (pos + d) - (off + d) = pos - off
   also for truncated subtraction. *)
Theorem C12_shift_engine d inp rules fuel :
  (forall e c stk lrc pos, 1 <= pos -> ctx_ok c ->
     parse (shift_input d inp) rules fuel e (shift_ctx d c) (shift_stack d stk) lrc (pos + d) =
     shift_pout d (parse inp rules fuel e c stk lrc pos)) /\
  (forall q dp c stk lrc pos m st, 1 <= pos -> ctx_ok c -> seqst_ok st ->
     seqp (shift_input d inp) rules fuel q dp (shift_ctx d c) (shift_stack d stk) lrc (pos + d) m (shift_seqst d st) =
     shift_sout d (seqp inp rules fuel q dp c stk lrc pos m st)).
Proof. exact (shift_engine d inp rules fuel). Qed.

(* the positivity invariant, exported: a run from positions >= 1 only produces positions >= 1 *)
Theorem C12_positions_positive inp rules fuel e c stk lrc pos r :
  1 <= pos -> ctx_ok c -> parse inp rules fuel e c stk lrc pos = Ok r -> pres_ok r.
Proof. intros Hpos Hc Hr. destruct (engine_ok inp rules fuel) as [Hk _]. eapply Hk; eassumption. Qed.

Theorem C12_shift_run d inp rules fuel root : 1 <= i_offset inp ->
  run (shift_input d inp) rules fuel root = shift_pout d (run inp rules fuel root).
Proof.
  intros Hoff. unfold run. cbn [shift_input i_offset].
  destruct (C12_shift_engine d inp rules fuel) as [H _].
  exact (H root ctx0 [] [] (i_offset inp) Hoff ctx0_ok).
Qed.

Lemma is_wserr_shift d e : is_wserr (shift_err d e) = is_wserr e. Proof. reflexivity. Qed.

Theorem C12_shift_top d inp rules fuel root : 1 <= i_offset inp ->
  parse_top (shift_input d inp) rules fuel root = shift_outcome (shift_top d) (parse_top inp rules fuel root).
Proof.
  intros Hoff. unfold parse_top. rewrite C12_shift_run by exact Hoff.
  destruct (run inp rules fuel root) as [[[[nodes cp] err] c]| |];
    cbn [shift_pout shift_outcome shift_pres bind]; try reflexivity.
  assert (E : forall e, (if is_wserr (shift_err d e) then shift_err d e
                         else match cerr (shift_ctx d c) with
                              | Some ce => if epos (shift_err d e) <? epos ce then ce else shift_err d e
                              | None => shift_err d e
                              end) =
                        shift_err d (if is_wserr e then e
                                     else match cerr c with
                                          | Some ce => if epos e <? epos ce then ce else e
                                          | None => e
                                          end)).
  { intros e. rewrite is_wserr_shift. destruct (is_wserr e); [reflexivity|].
    cbn [shift_ctx cerr]. destruct (cerr c) as [ce|]; cbn [shift_oerr option_map]; [|reflexivity].
    cbn [shift_err epos]. rewrite ltb_shift. destruct (epos e <? epos ce); reflexivity. }
  destruct nodes as [|n ns]; [destruct err as [e|]|destruct err as [e|]]; cbn [map shift_oerr option_map shift_outcome shift_top].
  - rewrite E. reflexivity.
  - cbn [shift_ctx cerr]. destruct (cerr c) as [ce|] eqn:Ece; cbn [shift_oerr option_map].
    + pose proof (E ce) as E'. cbn [shift_ctx cerr] in E'. rewrite Ece in E'. cbn [shift_oerr option_map] in E'.
      rewrite E'. reflexivity.
    + cbn [shift_input i_offset].
      change (mk_err (i_offset inp + d) (CNotFound name_valid_input))
        with (shift_err d (mk_err (i_offset inp) (CNotFound name_valid_input))).
      reflexivity.
  - rewrite E. reflexivity.
  - reflexivity.
Qed.

(* between any two placements: the run at the larger offset is the run at the smaller one shifted
   by the difference of the offsets *)
Corollary C12_shift_between data cf cd o1 o2 rules fuel root : 1 <= o1 -> o1 <= o2 ->
  run {| i_data := data; i_offset := o2; i_cf := cf; i_cd := cd |} rules fuel root =
  shift_pout (o2 - o1) (run {| i_data := data; i_offset := o1; i_cf := cf; i_cd := cd |} rules fuel root) /\
  parse_top {| i_data := data; i_offset := o2; i_cf := cf; i_cd := cd |} rules fuel root =
  shift_outcome (shift_top (o2 - o1)) (parse_top {| i_data := data; i_offset := o1; i_cf := cf; i_cd := cd |} rules fuel root).
Proof.
  intros H1 H2.
  assert (E : {| i_data := data; i_offset := o2; i_cf := cf; i_cd := cd |} =
              shift_input (o2 - o1) {| i_data := data; i_offset := o1; i_cf := cf; i_cd := cd |}).
  { unfold shift_input; cbn [i_data i_offset i_cf i_cd]. f_equal. lia. }
  rewrite E. split; [apply C12_shift_run|apply C12_shift_top]; exact H1.
Qed.

(* the hypothesis 1 <= offset is needed: at offset 0 a line break at position 0 is taken for
   "no line break seen" by SkipWhitespaces (text/reader.go: nlPos == 0), at offset 5 it is seen *)
Example C12_offset0_refuted :
  let inp := mk_input [10; 10; 97] 0 in
  let root := PLeftTrim WsSpaces (PTerm (TRune 97)) in
  run (shift_input 5 inp) [] 5 root <> shift_pout 5 (run inp [] 5 root).
Proof. vm_compute. discriminate. Qed.

(* ------------------------------------------------------------------ *)
(* C12, part 3: trees and values are the same                          *)

Definition node_value (n : node) : option lval := match n with NTerm _ v _ _ => Some v | _ => None end.
Theorem C12_value_unchanged d n : node_value (shift_node d n) = node_value n.
Proof. destruct n; reflexivity. Qed.
Theorem C12_token_unchanged d n : node_token (shift_node d n) = node_token n.
Proof. destruct n; reflexivity. Qed.
Theorem C12_positions_shifted d n :
  node_pos (shift_node d n) = node_pos n + d /\ node_rpos (shift_node d n) = node_rpos n + d.
Proof. destruct n; split; reflexivity. Qed.

Section NodeInd.
  Variable P : node -> Prop.
  Hypothesis Hterm : forall t v p r, P (NTerm t v p r).
  Hypothesis Hempty : forall p, P (NEmpty p).
  Hypothesis Hend : forall p, P (NEnd p).
  Hypothesis Hnt : forall t i cs p r, Forall P cs -> P (NNonTerm t i cs p r).
  Fixpoint node_ind2 (n : node) : P n :=
    match n with
    | NTerm t v p r => Hterm t v p r
    | NEmpty p => Hempty p
    | NEnd p => Hend p
    | NNonTerm t i cs p r =>
      Hnt t i cs p r ((fix go (l : list node) : Forall P l :=
                         match l with [] => Forall_nil P | x :: t => Forall_cons x (node_ind2 x) (go t) end) cs)
    end.
End NodeInd.

(* the tree with every position erased: tokens, interpreters, values and shape *)
Fixpoint erase_node (n : node) : node :=
  match n with
  | NTerm t v _ _ => NTerm t v 0 0
  | NEmpty _ => NEmpty 0
  | NEnd _ => NEnd 0
  | NNonTerm t i cs _ _ => NNonTerm t i (map erase_node cs) 0 0
  end.
(* all values of the tree, left to right *)
Fixpoint node_values (n : node) : list lval :=
  match n with
  | NTerm _ v _ _ => [v]
  | NNonTerm _ _ cs _ _ => flat_map node_values cs
  | _ => []
  end.

Theorem C12_tree_unchanged d n : erase_node (shift_node d n) = erase_node n.
Proof.
  induction n as [| | |t i cs p r IH] using node_ind2; try reflexivity.
  cbn [shift_node erase_node]. f_equal. rewrite map_map.
  induction IH as [|x l Hx _ IHl]; [reflexivity|]. cbn [map]. rewrite Hx, IHl. reflexivity.
Qed.
Theorem C12_values_unchanged d n : node_values (shift_node d n) = node_values n.
Proof.
  induction n as [| | |t i cs p r IH] using node_ind2; try reflexivity.
  cbn [shift_node node_values].
  induction IH as [|x l Hx _ IHl]; [reflexivity|]. cbn [map flat_map]. rewrite Hx, IHl. reflexivity.
Qed.
(* shifts compose, so the relation between any two placements is again a shift *)
Theorem shift_node_add d1 d2 n : shift_node d2 (shift_node d1 n) = shift_node (d1 + d2) n.
Proof.
  induction n as [| | |t i cs p r IH] using node_ind2; cbn [shift_node]; try (f_equal; lia).
  f_equal; try lia. rewrite map_map.
  induction IH as [|x l Hx _ IHl]; [reflexivity|]. cbn [map]. rewrite Hx, IHl. reflexivity.
Qed.

(* ------------------------------------------------------------------ *)
(* C12, part 2: rendered locations are unchanged (with C11)            *)

Lemma offset_of_last pre f : offset_of (pre ++ [f]) (length pre) = end_from 1 pre.
Proof. unfold offset_of. rewrite firstn_app, Nat.sub_diag, firstn_all. cbn [firstn]. rewrite app_nil_r. reflexivity. Qed.
Lemma offset_of_last_ge pre f : 1 <= offset_of (pre ++ [f]) (length pre).
Proof. rewrite offset_of_last. apply end_from_ge. Qed.

(* the specification's answer (file name, line, column) for the p-th position of the file is the same
   whether the file is alone or preceded by arbitrary other files; positions beyond the file's EOF
   position are unknown in both placements *)
Theorem C12_spec_position_placement pre f p :
  spec_position (pre ++ [f]) (offset_of (pre ++ [f]) (length pre) + p) = spec_position [f] (1 + p).
Proof.
  destruct (N.le_gt_cases p (f_len f)) as [Hp|Hp].
  - rewrite (position_roundtrip (pre ++ [f]) (length pre) f p); [|rewrite nth_error_app2, Nat.sub_diag by lia; reflexivity|exact Hp].
    pose proof (position_roundtrip [f] 0 f p eq_refl Hp) as R. change (offset_of [f] 0) with 1 in R.
    rewrite R. reflexivity.
  - rewrite !position_unknown; [reflexivity| |].
    + right. cbn [end_from]. lia.
    + right. rewrite offset_of_last, end_from_app. cbn [end_from]. lia.
Qed.

Theorem C12_fs_position_placement pre f p :
  fs_position (new_fileset (pre ++ [f])) (offset_of (pre ++ [f]) (length pre) + p) =
  fs_position (new_fileset [f]) (1 + p).
Proof. rewrite !fs_position_spec, C12_spec_position_placement. reflexivity. Qed.

(* the difference of base offsets *)
Definition placement_shift (pre : list file) (f : file) : N := offset_of (pre ++ [f]) (length pre) - 1.

Lemma placement_pos pre f q : 1 <= q ->
  q + placement_shift pre f = offset_of (pre ++ [f]) (length pre) + (q - 1).
Proof. intros Hq. unfold placement_shift. pose proof (offset_of_last_ge pre f). lia. Qed.

Theorem C12_error_text_placement pre f msg q : 1 <= q ->
  error_with_position (new_fileset (pre ++ [f])) msg (q + placement_shift pre f) =
  error_with_position (new_fileset [f]) msg q.
Proof.
  intros Hq. unfold error_with_position. rewrite placement_pos by exact Hq.
  rewrite C12_fs_position_placement. replace (1 + (q - 1)) with q by lia. reflexivity.
Qed.

Theorem C12_top_text_placement pre f e : 1 <= epos e ->
  top_text (new_fileset (pre ++ [f])) (shift_err (placement_shift pre f) e) = top_text (new_fileset [f]) e.
Proof.
  intros He. unfold top_text. cbn [shift_err epos ecause].
  rewrite C12_error_text_placement by exact He. reflexivity.
Qed.

(* the error parsley.Parse returns has a position >= 1 *)
Lemma parse_top_err_ok inp rules fuel root e c : 1 <= i_offset inp ->
  parse_top inp rules fuel root = Ok (TopErr e c) -> 1 <= epos e.
Proof.
  intros Hoff H. unfold parse_top in H. apply bind_ok in H. destruct H as ([[[nodes cp] err] c0] & Hrun & H).
  destruct (C12_positions_positive inp rules fuel root ctx0 [] [] (i_offset inp) _ Hoff ctx0_ok Hrun) as (_ & Herr & _ & Hce).
  assert (Hsel : forall e0, 1 <= epos e0 ->
            1 <= epos (if is_wserr e0 then e0
                       else match cerr c0 with Some ce => if epos e0 <? epos ce then ce else e0 | None => e0 end)).
  { intros e0 H0. destruct (is_wserr e0); [exact H0|]. destruct (cerr c0) as [ce|]; [|exact H0].
    destruct (epos e0 <? epos ce); [exact Hce|exact H0]. }
  destruct nodes as [|n ns]; destruct err as [e1|]; try discriminate.
  - injection H as <- _. apply Hsel. exact Herr.
  - destruct (cerr c0) as [ce|] eqn:Ece.
    + injection H as <- _. apply (Hsel ce). exact Hce.
    + injection H as <- _. cbn [is_wserr mk_err ecause epos]. exact Hoff.
  - injection H as <- _. apply Hsel. exact Herr.
Qed.

(* The property.  [f] is any file (name, normalised content); it is parsed alone (file set [f],
   base offset 1) and as the last of the file set pre ++ [f] for arbitrary [pre] (base offset
   offset_of (pre ++ [f]) (length pre), the one AddFile assigns — C11 placed_offsets).
   d = difference of the base offsets.  Then, for every grammar, root and fuel:
   - the whole outcome of parsley.Parse in the second placement is the first one shifted by d
     (tree positions, error position, context: cache, furthest error, ghost logs; call count equal);
   - a success returns the same trees, shifted by d;
   - a failure returns an error whose rendered TEXT (message + file:line:column) is identical. *)
Theorem C12_placement_invariant pre f cf cd rules fuel root :
  let d := placement_shift pre f in
  let fs1 := new_fileset [f] in
  let fs2 := new_fileset (pre ++ [f]) in
  let inp1 := {| i_data := f_data f; i_offset := 1; i_cf := cf; i_cd := cd |} in
  let inp2 := {| i_data := f_data f; i_offset := offset_of (pre ++ [f]) (length pre); i_cf := cf; i_cd := cd |} in
  parse_top inp2 rules fuel root = shift_outcome (shift_top d) (parse_top inp1 rules fuel root) /\
  (forall ns c, parse_top inp1 rules fuel root = Ok (TopNode ns c) ->
     parse_top inp2 rules fuel root = Ok (TopNode (map (shift_node d) ns) (shift_ctx d c))) /\
  (forall e c, parse_top inp1 rules fuel root = Ok (TopErr e c) ->
     exists e' c', parse_top inp2 rules fuel root = Ok (TopErr e' c') /\
                   epos e' = epos e + d /\ ecause e' = ecause e /\ calls c' = calls c /\
                   top_text fs2 e' = top_text fs1 e).
Proof.
  intros d fs1 fs2 inp1 inp2.
  assert (E : inp2 = shift_input d inp1).
  { unfold inp2, inp1, shift_input, d, placement_shift; cbn [i_data i_offset i_cf i_cd]. f_equal.
    pose proof (offset_of_last_ge pre f). lia. }
  assert (Htop : parse_top inp2 rules fuel root = shift_outcome (shift_top d) (parse_top inp1 rules fuel root)).
  { rewrite E. apply C12_shift_top. cbn [inp1 i_offset]. lia. }
  split; [exact Htop|]. split.
  - intros ns c H. rewrite Htop, H. reflexivity.
  - intros e c H. exists (shift_err d e), (shift_ctx d c). rewrite Htop, H.
    split; [reflexivity|]. split; [reflexivity|]. split; [reflexivity|]. split; [reflexivity|].
    apply C12_top_text_placement. eapply parse_top_err_ok; [|exact H]. cbn [inp1 i_offset]. lia.
Qed.

(* the same, for the two file sets the Go driver builds (EngineHarness.eng_files / eng_input):
   the file alone, and behind a filler file that moves its base offset to [offset] *)
Lemma normalize_repeat n : normalize (repeat 97 n) = repeat 97 n.
Proof.
  induction n as [|n IH]; [reflexivity|]. destruct n as [|n]; [reflexivity|].
  change (repeat 97 (S (S n))) with (97 :: 97 :: repeat 97 n).
  change (repeat 97 (S n)) with (97 :: repeat 97 n) in IH.
  transitivity (97 :: normalize (97 :: repeat 97 n)); [reflexivity|]. rewrite IH. reflexivity.
Qed.

Theorem C12_eng_placement data offset rules fuel root : 2 <= offset ->
  let d := offset - 1 in
  parse_top (eng_input data offset) rules fuel root =
    shift_outcome (shift_top d) (parse_top (eng_input data 1) rules fuel root) /\
  (forall e c, parse_top (eng_input data 1) rules fuel root = Ok (TopErr e c) ->
     top_text (new_fileset (eng_files data offset)) (shift_err d e) = top_text (new_fileset (eng_files data 1)) e).
Proof.
  intros Hoff d.
  set (filler := new_file [120] (repeat 97 (N.to_nat (offset - 2)))).
  set (f := new_file [102] data).
  assert (Eo : offset_of ([filler] ++ [f]) (length [filler]) = offset).
  { rewrite offset_of_last. cbn [end_from]. unfold f_len, filler, new_file; cbn [f_data].
    rewrite normalize_repeat, repeat_length. lia. }
  assert (Ed : placement_shift [filler] f = d) by (unfold placement_shift; rewrite Eo; reflexivity).
  assert (E1 : eng_input data 1 = mk_input (f_data f) 1) by reflexivity.
  assert (E2 : eng_input data offset = mk_input (f_data f) (offset_of ([filler] ++ [f]) (length [filler]))).
  { rewrite Eo. unfold eng_input. replace (offset <=? 1) with false by (symmetry; apply N.leb_gt; lia). reflexivity. }
  assert (F1 : eng_files data 1 = [f]) by reflexivity.
  assert (F2 : eng_files data offset = [filler] ++ [f]).
  { unfold eng_files. replace (offset <=? 1) with false by (symmetry; apply N.leb_gt; lia). reflexivity. }
  destruct (C12_placement_invariant [filler] f (fun _ => Some 0) (fun _ => Some 0%Z) rules fuel root) as (H1 & _ & H3).
  fold (mk_input (f_data f) 1) in H1, H3.
  fold (mk_input (f_data f) (offset_of ([filler] ++ [f]) (length [filler]))) in H1, H3.
  rewrite Ed in *. rewrite E1, E2, F1, F2. split; [exact H1|].
  intros e c H. destruct (H3 e c H) as (e' & c' & Htop & Hpos & Hcause & _ & Htxt).
  replace (shift_err d e) with e'; [exact Htxt|].
  destruct e' as [p k]; unfold shift_err; cbn [epos ecause] in *; subst p k; reflexivity.
Qed.

(* ------------------------------------------------------------------ *)
(* Non-vacuity: a grammar with Memoize, both trims, a named sequence and a Choice; input "a b"   *)
(* alone (offset 1) and behind a 5-byte file (offset 1 + 5 + 1 = 7)                             *)

Definition ex_rules : list pexpr :=
  [PMemo 0 (PSeq SeqOf IArray false (Some [120]) [PRightTrim WsSpaces (PTerm (TRune 97));
                                                    PChoice [PTerm (TRune 99); PLeftTrim WsSpaces (PTerm (TRune 98))]])].
Definition ex_root : pexpr := sentence (PAny [PRef 0; PRef 0]).
Definition ex_file (data : list N) : file := new_file [102] data.
Definition ex_pre : list file := [new_file [120] [1; 2; 3; 4; 5]].

Example C12_example_success :
  let f := ex_file [97; 32; 98] in
  let inp1 := mk_input (f_data f) 1 in
  let inp7 := mk_input (f_data f) 7 in
  offset_of (ex_pre ++ [f]) (length ex_pre) = 7 /\
  parse_top inp7 ex_rules 30 ex_root = shift_outcome (shift_top 6) (parse_top inp1 ex_rules 30 ex_root) /\
  exists c, parse_top inp1 ex_rules 30 ex_root =
            Ok (TopNode [NNonTerm [83; 69; 81] (ISelect 0)
                           [NNonTerm [83; 69; 81] IArray [NTerm [97] (VRune 97) 1 3; NTerm [98] (VRune 98) 3 4] 1 4;
                            NEnd 4] 1 4] c) /\
            calls c = 8 /\ map fst (cache c) = [(0, 1)] /\ g_fails c = [(3, CNotFound [34; 99; 34])] /\
  exists c', parse_top inp7 ex_rules 30 ex_root =
            Ok (TopNode [NNonTerm [83; 69; 81] (ISelect 0)
                           [NNonTerm [83; 69; 81] IArray [NTerm [97] (VRune 97) 7 9; NTerm [98] (VRune 98) 9 10] 7 10;
                            NEnd 10] 7 10] c') /\
            calls c' = 8 /\ map fst (cache c') = [(0, 7)] /\ g_fails c' = [(9, CNotFound [34; 99; 34])].
Proof.
  vm_compute. split; [reflexivity|]. split; [reflexivity|].
  eexists. split; [reflexivity|]. split; [reflexivity|]. split; [reflexivity|]. split; [reflexivity|].
  eexists. split; [reflexivity|]. split; [reflexivity|]. split; reflexivity.
Qed.

(* a failing input "a\n b": the whitespace error of RightTrim; same text in both placements *)
Example C12_example_error :
  let f := ex_file [97; 10; 32; 98] in
  let inp1 := mk_input (f_data f) 1 in
  let inp7 := mk_input (f_data f) 7 in
  exists e1 c1 e7 c7,
    parse_top inp1 ex_rules 30 ex_root = Ok (TopErr e1 c1) /\
    parse_top inp7 ex_rules 30 ex_root = Ok (TopErr e7 c7) /\
    epos e1 = 2 /\ epos e7 = 8 /\
    top_text (new_fileset [f]) e1 = Ok (bytes "failed to parse the input: new line is not allowed at f:1:2") /\
    top_text (new_fileset (ex_pre ++ [f])) e7 = Ok (bytes "failed to parse the input: new line is not allowed at f:1:2").
Proof. vm_compute. do 4 eexists. repeat (split; [reflexivity|]). reflexivity. Qed.

(* literal terminals (TLit, the parsers of Literals.v): " 42" under LeftTrim(Integer) gives the INTEGER
   node 42 at 2..4 resp. 8..10; the unterminated string (space, double quote, a, b) under LeftTrim(String) fails BEHIND
   the start position (5 resp. 11, the place where the closing quote is missing) *)
Example C12_example_literal :
  let root := PLeftTrim WsSpaces (PTerm (TLit LInteger)) in
  let inp1 := mk_input [32; 52; 50] 1 in
  let inp7 := mk_input [32; 52; 50] 7 in
  let sroot := PLeftTrim WsSpaces (PTerm (TLit (LString false))) in
  let sinp1 := mk_input [32; 34; 97; 98] 1 in
  let sinp7 := mk_input [32; 34; 97; 98] 7 in
  inp7 = shift_input 6 inp1 /\
  run inp7 [] 5 root = shift_pout 6 (run inp1 [] 5 root) /\
  run inp1 [] 5 root = Ok ([NTerm [73; 78; 84; 69; 71; 69; 82] (VInt 42) 2 4], [], None, ctx0) /\
  run inp7 [] 5 root = Ok ([NTerm [73; 78; 84; 69; 71; 69; 82] (VInt 42) 8 10], [], None, ctx0) /\
  parse_top sinp7 [] 5 sroot = shift_outcome (shift_top 6) (parse_top sinp1 [] 5 sroot) /\
  exists e1 c1 e7 c7,
    parse_top sinp1 [] 5 sroot = Ok (TopErr e1 c1) /\ parse_top sinp7 [] 5 sroot = Ok (TopErr e7 c7) /\
    epos e1 = 5 /\ epos e7 = 11 /\ ecause e1 = ecause e7 /\
    map fst (g_fails c1) = [2] /\ map fst (g_fails c7) = [8].
Proof.
  vm_compute. repeat (split; [reflexivity|]). do 4 eexists. repeat (split; [reflexivity|]). reflexivity.
Qed.

(* ------------------------------------------------------------------ *)
(* Summary statements and the exactness of the hypotheses              *)

(* the file may also be followed by other files: positions up to its EOF position render the same *)
Theorem C12_spec_position_placement_mid pre f post p : p <= f_len f ->
  spec_position (pre ++ f :: post) (offset_of (pre ++ f :: post) (length pre) + p) = spec_position [f] (1 + p).
Proof.
  intros Hp.
  rewrite (position_roundtrip (pre ++ f :: post) (length pre) f p);
    [|rewrite nth_error_app2, Nat.sub_diag by lia; reflexivity|exact Hp].
  pose proof (position_roundtrip [f] 0 f p eq_refl Hp) as R. change (offset_of [f] 0) with 1 in R.
  rewrite R. reflexivity.
Qed.

Theorem C12_rendered_unchanged pre f :
  (forall p, spec_position (pre ++ [f]) (offset_of (pre ++ [f]) (length pre) + p) = spec_position [f] (1 + p)) /\
  (forall p, fs_position (new_fileset (pre ++ [f])) (offset_of (pre ++ [f]) (length pre) + p) =
             fs_position (new_fileset [f]) (1 + p)) /\
  (forall msg q, 1 <= q ->
     error_with_position (new_fileset (pre ++ [f])) msg (q + placement_shift pre f) =
     error_with_position (new_fileset [f]) msg q) /\
  (forall e, 1 <= epos e ->
     top_text (new_fileset (pre ++ [f])) (shift_err (placement_shift pre f) e) = top_text (new_fileset [f]) e).
Proof.
  split; [apply C12_spec_position_placement|]. split; [apply C12_fs_position_placement|].
  split; [apply C12_error_text_placement|apply C12_top_text_placement].
Qed.

(* [ctx_ok] is needed as well: a (never arising) start cache holding a node at position 0 makes
   RightTrim skip whitespace from position 0 *)
Example C12_ctx_ok_needed :
  let inp := mk_input [10; 10] 1 in
  let c := cache_save ctx0 0 1 {| r_lrc := []; r_cp := []; r_err := None; r_nodes := [NEmpty 0] |} in
  let e := PRightTrim WsSpaces (PMemo 0 PEmpty) in
  parse (shift_input 5 inp) [] 5 e (shift_ctx 5 c) [] [] (1 + 5) <> shift_pout 5 (parse inp [] 5 e c [] [] 1).
Proof. vm_compute. discriminate. Qed.
