(* EngineH.v — the engine of Engine.v instrumented with Go's representation of results:
   a result is nil, a single node, or an ast.NodeList (a slice header, named by a HANDLE).
   Same open-recursion structure as Engine.v, same value computations (the theorem [erasure] of
   EngineHProofs.v: forgetting handles and log gives exactly Engine.parse); in addition a handle supply
   and the LOG of list operations (HeapLog.v) are threaded:

   * ast.AppendNode (ast/helpers.go:12-28) exactly: n1 == nil returns n2 ITSELF (same handle), n2 == nil returns n1,
     n1 a NodeList: NodeList.Append into it (in place when capacity allows: LAppend from its header), otherwise
     a fresh one-element list (LNew) and then Append.  NodeList.Append (ast/node_list.go:48-66) appends cell by cell
     and skips an EmptyNode already present ([added] = the cells really appended);
   * Any (combinator/any.go:30) accumulates with AppendNode, Optional (optional.go:20) appends its EmptyNode to its
     operand's result, the sequence (seq.go:150,156) accumulates into its own s.result; the result handler
     copies the scratch slice, so children are values;
   * Memoize (memoize.go:21-49): a NodeList result is clamped (LClamp: nl[:len:len]) when [clampb = true] — the
     repaired code — stored (LStore) and returned; a cache hit returns the stored header (LHit).
     [clampb = false] is the code before commit 046c90c (defect D1), kept for the sensitivity examples;
   * RightTrim (text/trim.go:58-84): NodeList.SetReaderPos overwrites the cells of the list it was given (LSetRpos);
     node cells with a mutable reader position are not part of this file (values, as in Engine.v): see
     [C07_righttrim_refuted] in EngineHProofs.v;
   * every return of every sub-parser is logged (LRet): the check compares these with the recorders of
     harness/c07.go.
   No proofs in this file; the harness record [c07_harness] is at the end. *)
From Coq Require Import String List NArith ZArith Bool.
From Parsley Require Import Obs Base FileSet Grammar Engine EngineHarness HeapLog.
Import ListNotations.
Open Scope N_scope.

Definition nlop := lop node.
Record hst := mkhst { h_next : N; h_log : list nlop (* newest first *); h_cache : list ((N * N) * option handle) }.
Definition hst0 : hst := mkhst 0 [] [].
Definition emit (o : nlop) (s : hst) : hst := mkhst (h_next s) (o :: h_log s) (h_cache s).
Definition bump (s : hst) : hst := mkhst (h_next s + 1) (h_log s) (h_cache s).
Definition hc_save (k : N * N) (h : option handle) (s : hst) : hst := mkhst (h_next s) (h_log s) ((k, h) :: h_cache s).
Fixpoint hc_find (k : N * N) (l : list ((N * N) * option handle)) : option handle :=
  match l with
  | [] => None
  | (k', h) :: t => if (fst k =? fst k') && (snd k =? snd k') then h else hc_find k t
  end.
Definition the_log (s : hst) : list nlop := rev (h_log s).

(* the cells NodeList.Append really appends to a list that reads acc *)
Fixpoint added (acc l : list node) : list node :=
  match l with
  | [] => []
  | NEmpty p :: t => if has_empty p acc then added acc t else NEmpty p :: added (acc ++ [NEmpty p]) t
  | n :: t => n :: added (acc ++ [n]) t
  end.

(* ast.AppendNode on representations; the VALUE is [append_node n1 n2] (computed by the caller as in Engine.v) *)
Definition append_h (s : hst) (h1 : option handle) (n1 : list node) (h2 : option handle) (n2 : list node)
  : option handle * hst :=
  match n1 with
  | [] => (h2, s)
  | _ :: _ =>
    match n2 with
    | [] => (h1, s)
    | _ :: _ =>
      let '(hb, s1) := match h1 with
                       | Some h => (h, s)
                       | None => (h_next s, emit (LNew (h_next s) n1) (bump s))
                       end in
      match added n1 n2 with
      | [] => (Some hb, s1)
      | el => (Some (h_next s1), emit (LAppend hb (h_next s1) el) (bump s1))
      end
    end
  end.

Definition hres : Type := (option handle * list node * intset * option perr * ctx * hst)%type.
Definition hsres : Type := (bool * seqst * option handle * ctx * hst)%type.
Definition ret_log (r : hres) : hres :=
  let '(ho, ns, cp, err, c, s) := r in (ho, ns, cp, err, c, emit (LRet ho ns) s).

Section EngineH.
  Variable clampb : bool.
  Variable inp : input.
  Variable rules : list pexpr.

  Section Step.
    Variable recp : pexpr -> ctx -> hst -> stack -> intmap -> N -> outcome hres.
    Variable recs : seqinfo -> nat -> ctx -> hst -> stack -> intmap -> N -> bool -> seqst -> option handle -> outcome hsres.

    (* combinator.Any *)
    Fixpoint any_loopH (stk : stack) (lrc : intmap) (pos : N) (ps : list pexpr) (c : ctx) (s : hst) (cp : intset)
             (hr : option handle) (res : list node) (err nf : option perr) : outcome hres :=
      match ps with
      | [] => match res with
              | [] => Ok (hr, [], cp, or_nf err nf, c, s)
              | _ => Ok (hr, res, cp, None, set_error c err, s)
              end
      | p :: ps' =>
        bind (recp p (reg_call c) s stk lrc pos) (fun '(h2, res2, cp2, err2, c', s') =>
          let '(err', nf') := alt_err pos err nf err2 in
          let '(hr', s'') := append_h s' hr res h2 res2 in
          any_loopH stk lrc pos ps' c' s'' (set_union cp cp2) hr' (append_node res res2) err' nf')
      end.

    (* combinator.Choice *)
    Fixpoint choice_loopH (stk : stack) (lrc : intmap) (pos : N) (ps : list pexpr) (c : ctx) (s : hst) (cp : intset)
             (err nf : option perr) : outcome hres :=
      match ps with
      | [] => Ok (None, [], cp, or_nf err nf, c, s)
      | p :: ps' =>
        bind (recp p (reg_call c) s stk lrc pos) (fun '(h2, res2, cp2, err2, c', s') =>
          let '(err', nf') := alt_err pos err nf err2 in
          match res2 with
          | [] => choice_loopH stk lrc pos ps' c' s' (set_union cp cp2) err' nf'
          | _ => Ok (h2, res2, set_union cp cp2, None, set_error c' err', s')
          end)
      end.

    Definition parse_coreH (e : pexpr) (c : ctx) (s : hst) (stk : stack) (lrc : intmap) (pos : N) : outcome hres :=
      match e with
      | PTerm t =>
        let '(res, err) := term_parse inp t pos in
        Ok (None, res, [], err, match res, err with [], Some e => log_fail c pos (ecause e) | _, _ => c end, s)
      | PEmpty => Ok (None, [NEmpty pos], [], None, c, s)
      | PEnd => if is_eof inp pos then Ok (None, [NEnd pos], [], None, c, s)
                else Ok (None, [], [], Some (mk_err pos (COther msg_end)), log_fail c pos (COther msg_end), s)
      | PRef k => match nth_N rules k with
                  | Some body => recp body c s stk lrc pos
                  | None => Panic
                  end
      | PMemo idx p =>
        match cache_get c idx pos lrc with
        | Some r => let ho := hc_find (idx, pos) (h_cache s) in
                    Ok (ho, r_nodes r, r_cp r, r_err r, c, emit (LHit idx pos ho) s)
        | None =>
          if remaining inp pos + 1 <? map_get idx lrc then Ok (None, [], [idx], None, c, emit (LCurtail idx pos) s)
          else
            bind (recp p (log_body c idx pos (1 + count_active idx pos stk)) s ((idx, pos) :: stk) (map_inc idx lrc) pos)
                 (fun '(ho, nodes, cp, err, c', s') =>
                    let r := {| r_lrc := map_filter cp lrc; r_cp := cp; r_err := err; r_nodes := nodes |} in
                    let '(ho', s1) := match ho with
                                      | Some h => if clampb then (Some (h_next s'), emit (LClamp h (h_next s')) (bump s'))
                                                  else (Some h, s')
                                      | None => (None, s')
                                      end in
                    Ok (ho', nodes, cp, err, cache_save c' idx pos r, hc_save (idx, pos) ho' (emit (LStore idx pos ho') s1)))
        end
      | PAny ps => any_loopH stk lrc pos ps c s [] None [] None None
      | PChoice ps => choice_loopH stk lrc pos ps c s [] None None
      | POpt p =>
        bind (recp p c s stk lrc pos) (fun '(ho, res, cp, err, c', s') =>
          let '(ho', s'') := append_h s' ho res None [NEmpty pos] in
          Ok (ho', append_node res [NEmpty pos], cp, err, c', s''))
      | PSeq k ip single name ps =>
        let q := {| q_kind := k; q_ip := ip; q_single := single; q_ps := ps |} in
        bind (recs q 0%nat c s stk lrc pos true {| s_cp := []; s_res := []; s_err := None; s_nodes := [] |} None)
             (fun '(_, st, sh, c', s') =>
                match s_res st with
                | [] => Ok (sh, [], s_cp st,
                            match name, s_err st with
                            | Some nm, Some e => Some (rename_err nm pos e)
                            | _, e => e
                            end, c', s')
                | _ => Ok (sh, s_res st, s_cp st, None, set_error c' (s_err st), s')
                end)
      | PName nm p =>
        bind (recp p c s stk lrc pos) (fun '(ho, res, cp, err, c', s') =>
          match err with
          | Some e => Ok (None, [], cp, Some (rename_err nm pos e), c', s')
          | None => match res with
                    | [] => Ok (None, [], cp, Some (mk_err pos (CNotFound nm)), c', s')
                    | _ => Ok (ho, res, cp, None, c', s')
                    end
          end)
      | PLeftTrim m p =>
        let '(pos1, wserr) := skip_ws inp pos m in
        bind (recp p c s stk lrc pos1) (fun '(ho, res, cp, err, c', s') =>
          let c'' := match cerr c' with
                     | Some ce => if (epos ce =? pos1) && is_notfound ce
                                  then set_error c' (Some (mk_err pos (ecause ce))) else c'
                     | None => c'
                     end in
          match err with
          | Some e =>
            match wserr with
            | Some w => if pos1 <? epos e then Ok (None, [], [], Some w, c'', s')
                        else if is_notfound e then Ok (ho, res, cp, Some (mk_err pos (ecause e)), c'', s')
                        else Ok (ho, res, cp, Some e, c'', s')
            | None => Ok (ho, res, cp, Some e, c'', s')
            end
          | None => match wserr with
                    | Some w => Ok (None, [], [], Some w, c'', s')
                    | None => Ok (ho, res, cp, None, c'', s')
                    end
          end)
      | PRightTrim m p =>
        bind (recp p c s stk lrc pos) (fun '(ho, res, cp, err, c', s') =>
          match err with
          | Some e => let ep := fst (skip_ws inp (epos e) m) in
                      Ok (ho, res, cp, Some (if is_wserr e then e else if epos e <? ep then mk_err ep (ecause e) else e), c', s')
          | None =>
            let '(res', wserr) := trim_nodes inp m res None in
            let s'' := match ho with Some h => emit (LSetRpos h res') s' | None => s' end in
            match wserr with
            | Some w => Ok (None, [], [], Some w, c', s'')
            | None => Ok (ho, res', cp, None, c', s'')
            end
          end)
      | PSuppress p =>
        bind (recp p c s stk lrc pos) (fun '(ho, res, cp, _, c', s') => Ok (ho, res, cp, None, c', s'))
      | PSingle p =>
        bind (recp p c s stk lrc pos) (fun '(ho, res, cp, err, c', s') =>
          match err with
          | Some e => Ok (None, [], cp, Some e, c', s')
          | None => match res with
                    | [NNonTerm _ _ [ch] _ _] => Ok (None, [ch], cp, None, c', s')
                    | _ => Ok (ho, res, cp, None, c', s')
                    end
          end)
      end.

    Definition parse_stepH (e : pexpr) (c : ctx) (s : hst) (stk : stack) (lrc : intmap) (pos : N) : outcome hres :=
      bind (parse_coreH e c s stk lrc pos) (fun r => Ok (ret_log r)).

    Fixpoint alts_loopH (q : seqinfo) (depth : nat) (stk : stack) (lrc : intmap) (pos : N) (merge : bool)
             (prefix : list node) (ns : list node) (st : seqst) (sh : option handle) (c : ctx) (s : hst) : outcome hsres :=
      match ns with
      | [] => Ok (false, st, sh, c, s)
      | n :: ns' =>
        let consumed := pos <? node_rpos n in
        let lrc' := if consumed then [] else lrc in
        let merge' := if consumed then false else merge in
        let stn := {| s_cp := s_cp st; s_res := s_res st; s_err := s_err st; s_nodes := n :: prefix |} in
        bind (recs q (S depth) c s stk lrc' (node_rpos n) merge' stn sh) (fun '(stop, st', sh', c', s') =>
          if stop then Ok (true, st', sh', c', s') else alts_loopH q depth stk lrc pos merge prefix ns' st' sh' c' s')
      end.

    Definition seq_stepH (q : seqinfo) (depth : nat) (c : ctx) (s : hst) (stk : stack) (lrc : intmap) (pos : N) (merge : bool)
               (st : seqst) (sh : option handle) : outcome hsres :=
      let sub := match seq_lookup (q_kind q) (q_ps q) depth with
                 | Some p => recp p (reg_call c) s stk lrc pos
                 | None => Ok (None, [], [], None, c, s)
                 end in
      bind sub (fun '(_, res, cp, err, c1, s1) =>
        let st1 := {| s_cp := if merge then set_union (s_cp st) cp else s_cp st;
                      s_res := s_res st;
                      s_err := keep_max (s_err st) err;
                      s_nodes := s_nodes st |} in
        match res with
        | [] =>
          if seq_lencheck (q_kind q) (length (q_ps q)) depth then
            let nd := handle_result q pos (rev (s_nodes st1)) in
            let '(sh', s2) := append_h s1 sh (s_res st1) None [nd] in
            let st2 := {| s_cp := s_cp st1; s_res := append_node (s_res st1) [nd];
                          s_err := s_err st1; s_nodes := s_nodes st1 |} in
            match s_nodes st1 with
            | [] => Ok (false, st2, sh', c1, s2)
            | lastn :: _ => Ok (is_eof_node lastn, st2, sh', c1, s2)
            end
          else Ok (false, st1, sh, c1, s1)
        | _ => alts_loopH q depth stk lrc pos merge (s_nodes st1) res st1 sh c1 s1
        end).
  End Step.

  Fixpoint parseH (fuel : nat) : pexpr -> ctx -> hst -> stack -> intmap -> N -> outcome hres :=
    match fuel with
    | O => fun _ _ _ _ _ _ => OutOfFuel
    | S f => fun e c s stk lrc pos =>
        parse_stepH (fun e c s stk lrc pos => parseH f e c s stk lrc pos)
                    (fun q d c s stk lrc pos m st sh => seqpH f q d c s stk lrc pos m st sh) e c s stk lrc pos
    end
  with seqpH (fuel : nat) : seqinfo -> nat -> ctx -> hst -> stack -> intmap -> N -> bool -> seqst -> option handle -> outcome hsres :=
    match fuel with
    | O => fun _ _ _ _ _ _ _ _ _ _ => OutOfFuel
    | S f => fun q d c s stk lrc pos m st sh =>
        seq_stepH (fun e c s stk lrc pos => parseH f e c s stk lrc pos)
                  (fun q d c s stk lrc pos m st sh => seqpH f q d c s stk lrc pos m st sh) q d c s stk lrc pos m st sh
    end.

  Definition runH (fuel : nat) (root : pexpr) : outcome hres := parseH fuel root ctx0 hst0 [] [] (i_offset inp).
End EngineH.

Definition erase_p (o : outcome hres) : outcome pres :=
  match o with
  | Ok (_, ns, cp, err, c, _) => Ok (ns, cp, err, c)
  | Panic => Panic
  | OutOfFuel => OutOfFuel
  end.
Definition erase_s (o : outcome hsres) : outcome sres :=
  match o with
  | Ok (b, st, _, c, _) => Ok (b, st, c)
  | Panic => Panic
  | OutOfFuel => OutOfFuel
  end.

(* a grammar without RightTrim *)
Fixpoint no_rtrim (e : pexpr) : bool :=
  match e with
  | PTerm _ | PEmpty | PEnd | PRef _ => true
  | PMemo _ p | POpt p | PName _ p | PLeftTrim _ p | PSuppress p | PSingle p => no_rtrim p
  | PAny ps | PChoice ps | PSeq _ _ _ _ ps => forallb no_rtrim ps
  | PRightTrim _ _ => false
  end.

(* ------------------------------------------------------------------------------------------------
   The harness of property C07.

   case:         Eng rules root data offset flags     (flags bit 0: the driver prints every at-return rendering in
                 full and the model compares them one by one (ignored when bit 1 is set); bit 1: the grammar has a RightTrim above a Memoize —
                 the model's nodes are values, so only the number of recorded values, the cache-served answers and
                 the root result are compared (the digest is printed as 0 by both sides))
   observation:  OT "C07" [run; run]   one run with the root called directly, one with Sentence(root) (a pexpr like
                 any other: its End and its sequence are recorded too); each run is
                 OT "R" [ON recorded; ON changed; OL (first changed: OL [ON index; at return; at end]);
                         ON served; ON served_differ; ON reasked; ON reask_differ; ON reask_body;
                         ON digest; OL full; root]
     recorded      values returned by sub-parsers (every return of every pexpr node, nil included)
     changed       recorded values whose rendering at the end of the parse differs from the one at return
     served        Memoize calls answered without running the body (cache hits and curtailments)
     served_differ of these, the answers that differ from the previous answer for the same (memo, position)
     reasked, reask_differ, reask_body   after the parse every (memo, position) is asked again with the context
                   of its last call: answers that differ from the last answer; bodies that ran again
     digest        polynomial hash of the at-return renderings in order (0 with flags bit 1)
     full          the at-return renderings (flags bit 0 only)
     root          the root result (flags bit 1 only, else OT "-" []): OT "Nil" [] | OT "S" [node] | OT "L" nodes
   A run that returns more than C07_LIMIT values makes the whole observation OT "Timeout" [] on both sides.
   oracle (the property itself, on the implementation): changed = served_differ = reask_differ = 0.
   expected (the model): recorded, served, digest/full and root from the LRet/LHit entries of EngineH's log;
                 changed = served_differ = reask_differ = reask_body = 0; reasked = number of distinct (memo, position)
                 pairs called. *)
Definition o_value (inp : input) (ho : option handle) (ns : list node) : obs :=
  match ho, ns with
  | Some _, _ => OT "L" (map (o_node inp) ns)
  | None, [] => OT "Nil" []
  | None, [n] => OT "S" [o_node inp n]
  | None, _ => OT "L?" (map (o_node inp) ns)       (* not a Go value: more than one node without a list (never produced) *)
  end.

(* flat serialisation of a rendering, hashed (multiply-add, masked to 31 bits); the Go driver computes the same numbers *)
Definition HMOD : N := 2147483647.
Definition hmix (h x : N) : N := N.land (h * 1000003 + x + 1) HMOD.
Fixpoint ser_node (n : node) (h : N) : N :=
  match n with
  | NTerm t v p r =>
    let h1 := fold_left hmix t (hmix h 1) in
    let h2 := match v with
              | VRune c => hmix (hmix h1 1) c
              | _ => hmix h1 2
              end in
    hmix (hmix h2 p) r
  | NEmpty p => hmix (hmix h 2) p
  | NEnd p => hmix (hmix h 3) p
  | NNonTerm t _ cs p r =>
    let h1 := hmix (hmix (hmix (hmix h 4) (tok_code t)) p) r in
    hmix (fold_left (fun a c => ser_node c a) cs (hmix h1 (len_N cs))) 5
  end.
Definition ser_value (ho : option handle) (ns : list node) (h : N) : N :=
  let tag := match ho, ns with Some _, _ => 7 | None, [] => 8 | None, _ => 9 end in
  fold_left (fun a n => ser_node n a) ns (hmix (hmix h tag) (len_N ns)).

Definition log_rets (l : list nlop) : list (option handle * list node) :=
  flat_map (fun o => match o with LRet h ns => [(h, ns)] | _ => [] end) l.
Definition log_memo_calls (l : list nlop) : list (N * N) :=      (* every completed Memoize call: hit, store or curtailment *)
  flat_map (fun o => match o with LHit i p _ | LStore i p _ | LCurtail i p => [(i, p)] | _ => [] end) l.
Definition count_served (l : list nlop) : N :=
  len_N (filter (fun o => match o with LHit _ _ _ | LCurtail _ _ => true | _ => false end) l).
Fixpoint dedup_keys (l : list (N * N)) (seen : list (N * N)) : list (N * N) :=
  match l with
  | [] => seen
  | k :: t => if existsb (fun k' => (fst k =? fst k') && (snd k =? snd k')) seen then dedup_keys t seen else dedup_keys t (k :: seen)
  end.

(* per-run budget: a run that returns more values than this is reported as (OT "Timeout" []) by both sides *)
Definition C07_LIMIT : N := 4000.
Definition c07_run (inp : input) (full trimmed : bool) (o : outcome hres) : option obs :=
  match o with
  | Ok (ho, ns, _, _, _, s) =>
    let log := the_log s in
    let rets := log_rets log in
    if C07_LIMIT <? len_N rets then None else
    Some (OT "R" [ON (len_N rets); ON 0; OL [];
            ON (count_served log); ON 0;
            ON (len_N (dedup_keys (log_memo_calls log) [])); ON 0; ON 0;
            ON (if trimmed then 0 else fold_left (fun h r => ser_value (fst r) (snd r) h) rets 0);
            OL (if full && negb trimmed then map (fun r => o_value inp (fst r) (snd r)) rets else []);
            if trimmed then o_value inp ho ns else OT "-" []])
  | Panic => Some opanic
  | OutOfFuel => Some (OT "OutOfFuel" [])
  end.

Definition c07_expected (c : eng_case) : obs :=
  match c with
  | Eng rules root data offset flags =>
    let inp := eng_input data offset in
    let full := N.testbit flags 0 in
    let trimmed := N.testbit flags 1 in
    match c07_run inp full trimmed (runH true inp rules FUEL root) with
    | None => OT "Timeout" []
    | Some r1 => match c07_run inp full trimmed (runH true inp rules FUEL (sentence root)) with
                 | None => OT "Timeout" []
                 | Some r2 => OT "C07" [r1; r2]
                 end
    end
  end.

(* the property on the implementation's observation: nothing changed, every cache-served answer equals the previous
   answer for the same (memo, position), every answer asked again after the parse equals the last one *)
Definition run_field (r : obs) (i : nat) : obs := match r with OT "R" l => nth_obs l i | _ => OT "Missing" [] end.
Definition run_holds (r : obs) : bool :=
  obs_eqb (run_field r 1) (ON 0) && obs_eqb (run_field r 4) (ON 0) && obs_eqb (run_field r 6) (ON 0).
Definition c07_oracle (_ : eng_case) (o : obs) : bool :=
  match o with
  | OT "C07" [r1; r2] => run_holds r1 && run_holds r2
  | OT "Timeout" [] => true          (* over the budget: no observation *)
  | _ => false
  end.
Definition c07_harness : harness :=
  {| H_case := eng_case; H_expected := c07_expected; H_agree := obs_eqb; H_oracle := c07_oracle |}.
