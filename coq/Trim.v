(* Trim.v — C10: whitespace modes are enforced exactly and permitted whitespace is transparent.

   The SPECIFICATION of the property (what LeftTrim / RightTrim / Trim must do on a sequence of
   single-rune tokens), written directly from the property's sentences, and the harness of the
   check.  The engine model (Grammar.v [skip_ws], Engine.v [PLeftTrim]/[PRightTrim]/[parse_top])
   is NOT used by the specification.  No proofs here (TrimProofs.v).

   Go sources: text/reader.go:175-196 (SkipWhitespaces), text/trim.go:17-53 (LeftTrim), 56-81
   (RightTrim), 84-86 (Trim), ast/helpers.go (SetReaderPos), parsley/parse.go:23-27. *)
From Coq Require Import String List NArith ZArith Bool.
From Parsley Require Import Obs Base FileSet Grammar Engine EngineHarness.
Import ListNotations.
Open Scope N_scope.

(* ------------------------------------------------------------------ *)
(* 1. Whitespace runs and modes                                        *)

Definition ws4 (b : N) : bool := existsb (N.eqb b) [32; 9; 10; 12].     (* space, tab, line feed, form feed *)
Definition brk (b : N) : bool := existsb (N.eqb b) [10; 12].            (* the two line breaks *)

(* the bytes of the file from global position [pos] on *)
Definition rest (inp : input) (pos : N) : list N := skipn (N.to_nat (pos - i_offset inp)) (i_data inp).

(* the maximal run of whitespace at the head of l, as a string *)
Fixpoint run_of (l : list N) : list N :=
  match l with b :: t => if ws4 b then b :: run_of t else [] | [] => [] end.
(* index of the first line break of a string *)
Fixpoint first_brk (s : list N) : option N :=
  match s with
  | [] => None
  | b :: t => if brk b then Some 0 else match first_brk t with Some k => Some (1 + k) | None => None end
  end.

(* a run: where it starts, where it ends (first position behind it), position of its first line break *)
Record wsrun := { w_start : N; w_end : N; w_nl : option N }.
Definition run_at (s : list N) (pos : N) : wsrun :=
  {| w_start := pos; w_end := pos + len_N s;
     w_nl := match first_brk s with Some k => Some (pos + k) | None => None end |}.
Definition spec_run (inp : input) (pos : N) : wsrun := run_at (run_of (rest inp pos)) pos.
Definition no_run (pos : N) : wsrun := run_at [] pos.                    (* nothing is skipped *)

(* none: empty run; spaces: no line break; spaces-and-newlines: anything; force-newline: at least one line break *)
Definition mode_ok (m : wsmode) (r : wsrun) : bool :=
  match m with
  | WsNone => w_end r =? w_start r
  | WsSpaces => match w_nl r with None => true | Some _ => false end
  | WsSpacesNl => true
  | WsSpacesForceNl => match w_nl r with None => false | Some _ => true end
  end.
(* the mode's error: at the start of the run, the first line break, or the end of the run *)
Definition mode_err (m : wsmode) (r : wsrun) : perr :=
  match m with
  | WsNone => mk_err (w_start r) (CWs WsErrNone)
  | WsSpaces => mk_err (match w_nl r with Some p => p | None => w_end r end) (CWs WsErrSpaces)
  | WsSpacesNl => mk_err (w_start r) (CWs WsErrNone)                  (* never used: this mode accepts every run *)
  | WsSpacesForceNl => mk_err (w_end r) (CWs WsErrForceNl)
  end.
Definition mode_check (m : wsmode) (r : wsrun) : option perr := if mode_ok m r then None else Some (mode_err m r).

(* ------------------------------------------------------------------ *)
(* 2. Token sequences                                                  *)

(* a token: left trimming (or none), the rune, right trimming (or none) *)
Record tokspec := { t_left : option wsmode; t_rune : N; t_right : option wsmode }.
Definition tok_trim (c : N) : tokspec :=                               (* text.Trim(terminal.Rune(c)) *)
  {| t_left := Some WsSpacesNl; t_rune := c; t_right := Some WsSpacesNl |}.

Definition tok_expr (t : tokspec) : pexpr :=
  let core := PTerm (TRune (t_rune t)) in
  let l := match t_left t with Some m => PLeftTrim m core | None => core end in
  match t_right t with Some m => PRightTrim m l | None => l end.
Definition toks_expr (ts : list tokspec) : pexpr := PSeq SeqOf INone false None (map tok_expr ts).

(* the run a trimming side skips: the whole run when it trims, nothing otherwise *)
Definition gap (inp : input) (m : option wsmode) (pos : N) : wsrun :=
  match m with Some _ => spec_run inp pos | None => no_run pos end.
Definition gap_check (m : option wsmode) (r : wsrun) : option perr :=
  match m with Some m => mode_check m r | None => None end.
Definition byte_is (inp : input) (pos c : N) : bool :=
  match byte_at inp pos with Some b => b =? c | None => false end.

Inductive tokres := TAccept (n : node) | TReject (e : perr).

(* One token at [pos]: the property as stated.  (Until the K3 repair of text/trim.go RightTrim also moved the
   whitespace error of an inner LeftTrim over the whitespace behind it; see notes/C10.md, notes/K3Repair.md.) *)
Definition spec_token (inp : input) (t : tokspec) (pos : N) : tokres :=
  let c := t_rune t in
  let lrun := gap inp (t_left t) pos in
  let q := w_end lrun in                                                  (* where the rune must stand *)
  let behind (p : N) := match t_right t with Some _ => w_end (spec_run inp p) | None => p end in
  if byte_is inp q c then
    match gap_check (t_left t) lrun with
    | Some e => TReject e                                                                       (* (b) *)
    | None =>
      let rrun := gap inp (t_right t) (q + 1) in
      match gap_check (t_right t) rrun with
      | Some e => TReject e                                                                     (* (c) *)
      | None => TAccept (NTerm [c] (VRune c) q (w_end rrun))                                    (* (a) *)
      end
    end
  else                                                                                          (* (d) *)
    (* "was expecting <rune>": LeftTrim puts it back before the run only when the run violated the
       mode, RightTrim moves it (not being a whitespace error) behind the whitespace that follows *)
    TReject (mk_err (behind (match gap_check (t_left t) lrun with Some _ => pos | None => q end))
                    (CNotFound (quote_rune c))).

Inductive seqres := SAccept (ns : list node) (endp : N) | SReject (e : perr).
Fixpoint spec_tokens (inp : input) (ts : list tokspec) (pos : N) : seqres :=
  match ts with
  | [] => SAccept [] pos
  | t :: ts' =>
    match spec_token inp t pos with
    | TReject e => SReject e
    | TAccept n => match spec_tokens inp ts' (node_rpos n) with
                   | SAccept ns e => SAccept (n :: ns) e
                   | SReject e => SReject e
                   end
    end
  end.

(* parsley.Parse(Sentence(SeqOf(tokens))): the whole input must be consumed *)
Inductive verdict := VTree (ns : list node) (endp : N) | VError (e : perr).
Definition spec_parse (inp : input) (ts : list tokspec) : verdict :=
  match spec_tokens inp ts (i_offset inp) with
  | SAccept ns e => if is_eof inp e then VTree ns e else VError (mk_err e (COther msg_end))
  | SReject e => VError e
  end.
(* since the K3 repair the code does what the property says; the names are kept for C10_tokens_code *)
Definition code_tokens := spec_tokens.
Definition code_parse := spec_parse.

(* the trees the engine builds from accepted tokens *)
Definition seq_node (ip : interp) (start : N) (ns : list node) : node :=
  NNonTerm (seq_token SeqOf) ip ns
           (match ns with [] => start | f :: _ => node_pos f end)
           (match ns with [] => start | f :: _ => node_rpos (last ns f) end).
(* (for an empty token list the inner node is empty and stands at the end position, which is then also the start) *)
Definition sentence_tree (ns : list node) (endp : N) : node :=
  seq_node (ISelect 0) endp [seq_node INone endp ns; NEnd endp].

(* ------------------------------------------------------------------ *)
(* 3. Transparency: texts laid out as runes with whitespace strings in the gaps *)

(* rune, gap behind it, rune, gap, ... *)
Fixpoint lay (cs : list N) (gs : list (list N)) : list N :=
  match cs, gs with
  | c :: cs', g :: gs' => c :: g ++ lay cs' gs'
  | _, _ => []
  end.
(* the positions of the runes when the first one stands at p *)
Fixpoint starts (p : N) (cs : list N) (gs : list (list N)) : list N :=
  match cs, gs with
  | c :: cs', g :: gs' => p :: starts (p + 1 + len_N g) cs' gs'
  | _, _ => []
  end.
Definition all_ws (g : list N) : Prop := Forall (fun b => ws4 b = true) g.
Definition erase (n : node) : list N * lval :=
  match n with NTerm t v _ _ => (t, v) | _ => ([], VNil) end.

(* ------------------------------------------------------------------ *)
(* 4. Harness                                                          *)

Definition tok_of_expr (e : pexpr) : option tokspec :=
  match e with
  | PRightTrim mr (PLeftTrim ml (PTerm (TRune c))) => Some {| t_left := Some ml; t_rune := c; t_right := Some mr |}
  | PRightTrim mr (PTerm (TRune c)) => Some {| t_left := None; t_rune := c; t_right := Some mr |}
  | PLeftTrim ml (PTerm (TRune c)) => Some {| t_left := Some ml; t_rune := c; t_right := None |}
  | PTerm (TRune c) => Some {| t_left := None; t_rune := c; t_right := None |}
  | _ => None
  end.
Fixpoint toks_of_list (ps : list pexpr) : option (list tokspec) :=
  match ps with
  | [] => Some []
  | p :: ps' => match tok_of_expr p, toks_of_list ps' with Some t, Some ts => Some (t :: ts) | _, _ => None end
  end.
Definition toks_of_root (root : pexpr) : option (list tokspec) :=
  match root with PSeq SeqOf INone false None ps => toks_of_list ps | _ => None end.

(* the terminal nodes of a printed tree, left to right *)
Fixpoint leaves (o : obs) : list obs :=
  let fix go (l : list obs) : list obs := match l with [] => [] | x :: t => leaves x ++ go t end in
  match o with
  | OT tag l => if String.eqb tag "r" then [o] else go l
  | OL l => go l
  | _ => []
  end.
Definition leaves_of (l : list obs) : list obs := flat_map leaves l.

(* first field of part i of an "Eng" observation: (OT "Node" ..) / (OT "Err" [OS text]) for the Top parts *)
Definition part_head (o : obs) (i : nat) : obs := eng_part (eng_part o i) 0.
Definition is_tag (o : obs) (t : string) : bool := match o with OT t' _ => String.eqb t t' | _ => false end.
Definition err_obs (fs : fileset) (e : perr) : obs := OT "Err" [obs_outcome OS (top_text fs e)].
Definition wskind_of (k : N) : wskind := if k =? 0 then WsErrNone else if k =? 1 then WsErrForceNl else WsErrSpaces.

(* "whitespace errors win over the context's furthest error": when the root parser itself returned a
   whitespace error, parsley.Parse of the same parser reports exactly that error *)
Definition ws_wins_oracle (fs : fileset) (o : obs) : bool :=
  match raw_field o 1 with
  | OT _ [OL [ON pos; OT tag [ON k]]] =>
    if String.eqb tag "WS" then obs_eqb (part_head o 2) (err_obs fs (mk_err pos (CWs (wskind_of k)))) else true
  | _ => true
  end.

(* ---- LeftTrim around a two-rune word SeqOf(Rune c, Rune d): an operand that can fail BEHIND its start ---- *)
Definition word_expr (c d : N) : pexpr := PSeq SeqOf INone false None [PTerm (TRune c); PTerm (TRune d)].
Inductive wordres := WAccept (q : N) | WWs (e : perr) | WFail.
(* the run must satisfy the mode as soon as the word begins to match behind it: a word that breaks off
   after its first rune under a forbidden run is the mode's whitespace error, not the word's error *)
Definition spec_lefttrim_word (inp : input) (m : wsmode) (c d : N) (pos : N) : wordres :=
  let r := spec_run inp pos in
  let q := w_end r in
  if byte_is inp q c then
    if byte_is inp (q + 1) d then match mode_check m r with None => WAccept q | Some w => WWs w end
    else match mode_check m r with Some w => WWs w | None => WFail end
  else WFail.
Definition word_of_root (root : pexpr) : option (wsmode * N * N) :=
  match root with
  | PLeftTrim m (PSeq SeqOf INone false None [PTerm (TRune c); PTerm (TRune d)]) => Some (m, c, d)
  | _ => None
  end.
Definition word_oracle (fs : fileset) (inp : input) (m : wsmode) (c d : N) (o : obs) : bool :=
  match spec_lefttrim_word inp m c d (i_offset inp) with
  | WAccept q =>
    obs_eqb (OL (leaves_of (raw_nodes o)))
            (OL [o_node inp (NTerm [c] (VRune c) q (q + 1)); o_node inp (NTerm [d] (VRune d) (q + 1) (q + 2))]) &&
    obs_eqb (raw_field o 1) onone
  | WWs w =>
    match raw_nodes o with [] => true | _ => false end &&
    obs_eqb (raw_field o 1) (osome (o_err w)) && obs_eqb (part_head o 2) (err_obs fs w)
  | WFail => match raw_nodes o with [] => true | _ => false end && is_tag (part_head o 2) "Err"
  end.

(* the property on the implementation's observation: token grammars are judged by [spec_parse] *)
Definition tokens_oracle (fs : fileset) (inp : input) (ts : list tokspec) (o : obs) : bool :=
  let top := part_head o 1 in
  let rawl := leaves_of (raw_nodes o) in
  match spec_tokens inp ts (i_offset inp) with
  | SAccept ns e =>
    (* accepted tokens: starts, ends (behind the right run), values *)
    obs_eqb (OL rawl) (OL (map (o_node inp) ns)) &&
    (if is_eof inp e then is_tag top "Node" && obs_eqb (OL (leaves top)) (OL (map (o_node inp) ns))
     else is_tag top "Err")
  | SReject e =>
    match raw_nodes o with [] => true | _ => false end &&
    (if is_wserr e then obs_eqb top (err_obs fs e)      (* (b), (c): that mode's error at the stated position *)
     else is_tag top "Err")                             (* (d): the parse fails *)
  end.

Definition c10_oracle (c : eng_case) (o : obs) : bool :=
  match c with
  | Eng rules root data offset flags =>
    let inp := eng_input data offset in
    let fs := new_fileset (eng_files data offset) in
    ws_wins_oracle fs o &&
    match toks_of_root root with
    | Some ts => tokens_oracle fs inp ts o
    | None => true
    end &&
    match word_of_root root with
    | Some (m, c, d) => word_oracle fs inp m c d o
    | None => true
    end
  end.

(* correspondence: Parse(Sentence(root)) result / error text, the root's own nodes and error, Parse(root) *)
Definition c10_agree (a b : obs) : bool :=
  obs_eqb (part_head a 1) (part_head b 1) && obs_eqb (OL (raw_nodes a)) (OL (raw_nodes b)) &&
  obs_eqb (raw_field a 1) (raw_field b 1) && obs_eqb (part_head a 2) (part_head b 2).

Definition c10_harness : harness :=
  {| H_case := eng_case; H_expected := eng_expected; H_agree := c10_agree; H_oracle := c10_oracle |}.
