(* GoHeap.v — a small model of the part of the Go heap that data/intset.go and
   data/intmap.go use: backing arrays of ints with slice headers on top of them,
   and maps from int to int as heap objects.  Definitions only (no proofs), so
   the model keeps running when a proof breaks.

   * A backing array is a [list Z]; arrays live in [h_arrs], identified by index.
     Arrays are never freed or moved (no GC in the model: ids stay valid).
   * A slice header is (array id, offset, len, cap); the slice sees the cells
     [off, off+len) and may grow into [off+len, off+cap).
   * [append] writes IN PLACE iff len < cap — that is the aliasing hazard of
     property C15 — otherwise it allocates a fresh array whose capacity is
     [max (grow cap) (len+1)] for an ARBITRARY function [grow] (Go's growth
     policy is not part of the language; every theorem holds for every [grow]).
   * Index/slice expressions out of range yield the explicit [Panic] of Base.v;
     so does a header that does not fit its array (cannot happen, see DataProofs).
   * A Go map is a heap object holding a finite map, represented canonically as
     an association list with strictly ascending keys.  Iteration ([range m])
     visits the entries in the order [order entries], where [order] is an
     ARBITRARY function returning a permutation (Go randomises the order).
   * Go ints are unbounded [Z] (no overflow), lengths and indices are [nat]. *)
From Coq Require Import String List NArith ZArith Bool Arith.
From Parsley Require Import Obs Base.
Import ListNotations.
Local Open Scope nat_scope.

Definition amap := list (Z * Z).
Record slice := mkslice { s_arr : nat; s_off : nat; s_len : nat; s_cap : nat }.
Record heap := mkheap { h_arrs : list (list Z); h_maps : list amap }.
Definition empty_heap : heap := mkheap [] [].

Notation "'do' x <- e ; f" := (bind e (fun x => f))
  (at level 200, x pattern, e at level 100, f at level 200, right associativity).

(* ---------- lists as arrays ---------- *)

(* replace element n of l (no effect when out of range) *)
Fixpoint upd {A} (l : list A) (n : nat) (x : A) : list A :=
  match l, n with
  | [], _ => []
  | _ :: t, O => x :: t
  | y :: t, S k => y :: upd t k x
  end.
(* the cells [off, off+len) of an array *)
Definition window (a : list Z) (off len : nat) : list Z := firstn len (skipn off a).
(* overwrite the cells [pos, pos + length vals) *)
Definition arr_write (a : list Z) (pos : nat) (vals : list Z) : list Z :=
  firstn pos a ++ vals ++ skipn (pos + length vals) a.

Definition get_arr (h : heap) (a : nat) : outcome (list Z) :=
  match nth_error (h_arrs h) a with Some x => Ok x | None => Panic end.
Definition set_arr (h : heap) (a : nat) (x : list Z) : heap :=
  mkheap (upd (h_arrs h) a x) (h_maps h).
Definition alloc_arr (h : heap) (x : list Z) : heap * nat :=
  (mkheap (h_arrs h ++ [x]) (h_maps h), length (h_arrs h)).

(* the header fits its array *)
Definition sl_ok (a : list Z) (s : slice) : bool :=
  (s_len s <=? s_cap s) && (s_off s + s_cap s <=? length a).

(* ---------- slices ---------- *)

(* make([]int, len, cap) *)
Definition sl_make (h : heap) (len cap : nat) : outcome (heap * slice) :=
  if cap <? len then Panic
  else let (h', a) := alloc_arr h (repeat 0%Z cap) in Ok (h', mkslice a 0 len cap).

(* []int{v} *)
Definition sl_lit1 (h : heap) (v : Z) : heap * slice :=
  let (h', a) := alloc_arr h [v] in (h', mkslice a 0 1 1).

(* all visible cells: what [range s] iterates over *)
Definition sl_read (h : heap) (s : slice) : outcome (list Z) :=
  do a <- get_arr h (s_arr s);
  if sl_ok a s then Ok (window a (s_off s) (s_len s)) else Panic.

(* s[i] *)
Definition sl_index (h : heap) (s : slice) (i : nat) : outcome Z :=
  if s_len s <=? i then Panic
  else do a <- get_arr h (s_arr s);
       if sl_ok a s then
         match nth_error a (s_off s + i) with Some v => Ok v | None => Panic end
       else Panic.

(* s[i] = v *)
Definition sl_store (h : heap) (s : slice) (i : nat) (v : Z) : outcome heap :=
  if s_len s <=? i then Panic
  else do a <- get_arr h (s_arr s);
       if sl_ok a s then Ok (set_arr h (s_arr s) (arr_write a (s_off s + i) [v])) else Panic.

(* s[k:] *)
Definition sl_from (s : slice) (k : nat) : outcome slice :=
  if s_len s <? k then Panic
  else Ok (mkslice (s_arr s) (s_off s + k) (s_len s - k) (s_cap s - k)).

(* copy(dst, src): min(len dst, len src) cells, memmove semantics (the source
   cells are read before anything is written, so overlap is harmless) *)
Definition sl_copy (h : heap) (dst src : slice) : outcome heap :=
  do vs <- sl_read h src;
  do a <- get_arr h (s_arr dst);
  if sl_ok a dst then
    Ok (set_arr h (s_arr dst) (arr_write a (s_off dst) (firstn (Nat.min (s_len dst) (s_len src)) vs)))
  else Panic.

Section Growth.
  Variable grow : nat -> nat.

  (* append(s, v) *)
  Definition sl_append (h : heap) (s : slice) (v : Z) : outcome (heap * slice) :=
    if s_len s <? s_cap s then
      do a <- get_arr h (s_arr s);
      if sl_ok a s then
        Ok (set_arr h (s_arr s) (arr_write a (s_off s + s_len s) [v]),
            mkslice (s_arr s) (s_off s) (S (s_len s)) (s_cap s))
      else Panic
    else
      do vs <- sl_read h s;
      let c := Nat.max (grow (s_cap s)) (S (s_len s)) in
      let (h', a) := alloc_arr h (vs ++ v :: repeat 0%Z (c - S (s_len s))) in
      Ok (h', mkslice a 0 (S (s_len s)) c).
End Growth.

(* ---------- maps ---------- *)

Fixpoint amap_get (m : amap) (k : Z) : option Z :=
  match m with
  | [] => None
  | (k', v) :: t => if (k' =? k)%Z then Some v else amap_get t k
  end.
(* keeps the keys strictly ascending *)
Fixpoint amap_set (m : amap) (k v : Z) : amap :=
  match m with
  | [] => [(k, v)]
  | (k', v') :: t =>
    if (k <? k')%Z then (k, v) :: m
    else if (k =? k')%Z then (k, v) :: t
    else (k', v') :: amap_set t k v
  end.

Definition get_map (h : heap) (m : nat) : outcome amap :=
  match nth_error (h_maps h) m with Some x => Ok x | None => Panic end.
(* a new map object with the given (canonical) content *)
Definition map_alloc (h : heap) (e : amap) : heap * nat :=
  (mkheap (h_arrs h) (h_maps h ++ [e]), length (h_maps h)).
(* make(map[int]int) *)
Definition map_make (h : heap) : heap * nat := map_alloc h [].
(* v, ok := m[k] *)
Definition map_lookup (h : heap) (m : nat) (k : Z) : outcome (option Z) :=
  do e <- get_map h m; Ok (amap_get e k).
(* m[k] = v *)
Definition map_store (h : heap) (m : nat) (k v : Z) : outcome heap :=
  do e <- get_map h m; Ok (mkheap (h_arrs h) (upd (h_maps h) m (amap_set e k v))).
(* len(m) *)
Definition map_len (h : heap) (m : nat) : outcome nat :=
  do e <- get_map h m; Ok (length e).

Section Order.
  Variable order : amap -> amap.
  (* the sequence of entries one [range m] visits *)
  Definition map_range (h : heap) (m : nat) : outcome amap :=
    do e <- get_map h m; Ok (order e).
End Order.
