(* Activation.v — C02, part A: results never end before they start ([res_ge]) and no Memoize
   body is ever active more than (remaining input + 2) times at one position
   ([C02_activation_bound]), for EVERY grammar.  The two facts are proved in one pass over the
   engine because they depend on each other: the activation invariant survives a sequence step
   only because an element's result does not end before the element's start, and that fact
   has to hold for results taken from the cache too, so the cache invariant [cache_ge] is
   threaded along. *)
From Coq Require Import String List NArith Bool Arith Lia.
From Parsley Require Import Obs Base Grammar Engine TermFacts EngineFacts SetMapFacts.
Import ListNotations.
Open Scope N_scope.

(* ---------- whitespace skipping never moves backwards ---------- *)
Lemma ws_scan_ge l : forall pos nl, pos <= fst (ws_scan l pos nl).
Proof.
  induction l as [|b t IH]; intros pos nl; cbn [ws_scan]; [cbn [fst]; lia|].
  destruct (is_ws b); [|cbn [fst]; lia].
  specialize (IH (pos + 1) (if is_nl b && (nl =? 0) then pos else nl)). lia.
Qed.
Lemma skip_ws_ge inp pos m : pos <= fst (skip_ws inp pos m).
Proof.
  unfold skip_ws.
  pose proof (ws_scan_ge (skipn (N.to_nat (pos - i_offset inp)) (i_data inp)) pos 0) as H.
  destruct (ws_scan (skipn (N.to_nat (pos - i_offset inp)) (i_data inp)) pos 0) as [e nl].
  cbn [fst] in H.
  destruct m; [destruct (pos <? e) | destruct (0 <? nl) | | destruct (nl =? 0)]; cbn [fst]; exact H.
Qed.

(* ---------- ast.AppendNode: membership, inverse direction ---------- *)
Lemma append_nodes_in_inv l : forall acc n, In n (append_nodes acc l) -> In n acc \/ In n l.
Proof.
  induction l as [|x l IH]; intros acc n H; cbn [append_nodes] in H; [left; exact H|].
  assert (G : In n (append_nodes (acc ++ [x]) l) -> In n acc \/ In n (x :: l)).
  { intros H'. apply IH in H'. destruct H' as [H'|H']; [|right; right; exact H'].
    apply in_app_or in H'. destruct H' as [H'|[H'|[]]]; [left; exact H' | right; left; exact H']. }
  destruct x; try (apply G; exact H).
  destruct (has_empty pos acc); [|apply G; exact H].
  apply IH in H. destruct H as [H|H]; [left; exact H | right; right; exact H].
Qed.
Lemma append_node_in_inv a b n : In n (append_node a b) -> In n a \/ In n b.
Proof.
  unfold append_node. destruct a as [|x a]; [intros H; right; exact H|]. apply append_nodes_in_inv.
Qed.

(* ---------- the ghost stack ---------- *)
Lemma count_active_cons idx pos i p stk :
  count_active idx pos ((i, p) :: stk) =
  (if (i =? idx) && (p =? pos) then 1 else 0) + count_active idx pos stk.
Proof.
  unfold count_active. cbn [filter fst snd].
  destruct ((i =? idx) && (p =? pos)); unfold len_N; cbn [length]; [rewrite Nat2N.inj_succ|]; lia.
Qed.
Lemma count_active_zero idx pos stk :
  (forall i p, In (i, p) stk -> p < pos) -> count_active idx pos stk = 0.
Proof.
  induction stk as [|[i p] t IH]; intros H; [reflexivity|].
  rewrite count_active_cons, IH by (intros i' p' H'; apply (H i' p'); right; exact H').
  assert (Hp : p < pos) by (apply (H i p); left; reflexivity).
  assert (E : (p =? pos) = false) by (apply N.eqb_neq; lia).
  rewrite E, andb_false_r. reflexivity.
Qed.

(* the invariant of the activation bound: at the current position the stack holds at most
   lrc(idx) bodies of idx, and no active body started to the right of the current position *)
Definition Inv (stk : stack) (lrc : intmap) (pos : N) : Prop :=
  (forall idx, count_active idx pos stk <= map_get idx lrc) /\
  (forall i p, In (i, p) stk -> p <= pos).

Lemma Inv_nil pos : Inv [] [] pos.
Proof. split; [intros idx; cbn; lia | intros i p []]. Qed.

(* Memoize: push and Inc together *)
Lemma Inv_push stk lrc pos idx : Inv stk lrc pos -> Inv ((idx, pos) :: stk) (map_inc idx lrc) pos.
Proof.
  intros [H1 H2]. split.
  - intros i. rewrite count_active_cons, map_get_inc, N.eqb_refl, andb_true_r.
    specialize (H1 i). rewrite (N.eqb_sym idx i). destruct (i =? idx) eqn:E; [|lia].
    apply N.eqb_eq in E. subst i. cbn [andb]. lia.
  - intros i p [E|H]; [injection E as _ E; lia | apply (H2 i p H)].
Qed.

(* moving forward: any context will do once the position has strictly grown *)
Lemma Inv_move stk lrc lrc' pos pos' :
  Inv stk lrc pos -> pos <= pos' -> (pos' = pos -> lrc' = lrc) -> Inv stk lrc' pos'.
Proof.
  intros [H1 H2] Hle Hl. destruct (N.eq_dec pos' pos) as [E|E].
  - rewrite (Hl E), E. split; assumption.
  - split.
    + intros idx. rewrite count_active_zero; [lia|]. intros i p H. specialize (H2 i p H). lia.
    + intros i p H. specialize (H2 i p H). lia.
Qed.

(* The pre-fix rule of parseNext (seq.go:169 on the pinned tree) reset the context for every
   alternative with index > 0 even when the position had not moved.  Resetting without moving
   does not preserve the invariant: *)
Lemma old_rule_breaks_inv :
  exists stk lrc pos, Inv stk lrc pos /\ ~ Inv stk [] pos.
Proof.
  exists [(1, 0)], [(1, 1)], 0. split.
  - split.
    + intros idx. rewrite count_active_cons. cbn [map_get count_active filter len_N length N.of_nat].
      rewrite (N.eqb_sym idx 1). destruct (1 =? idx); cbn; lia.
    + intros i p [E|[]]. injection E as _ E. lia.
  - intros [H _]. specialize (H 1). vm_compute in H. apply H. reflexivity.
Qed.

(* ---------- results do not end before they start ---------- *)
(* [node_ge pos n]: n ends at or after pos, and so does what combinator.Single would unwrap from it *)
Fixpoint node_ge (pos : N) (n : node) : Prop :=
  pos <= node_rpos n /\
  match n with
  | NNonTerm _ _ cs _ _ => match cs with [ch] => node_ge pos ch | _ => True end
  | _ => True
  end.
Definition all_ge (pos : N) (ns : list node) : Prop := forall n, In n ns -> node_ge pos n.

Lemma node_ge_rpos pos n : node_ge pos n -> pos <= node_rpos n.
Proof. destruct n; cbn [node_ge]; intros [H _]; exact H. Qed.
Lemma node_ge_mono p0 p1 : p0 <= p1 -> forall n, node_ge p1 n -> node_ge p0 n.
Proof.
  intros Hle. fix IH 1. intros n.
  destruct n as [t v p r|p|p|t i cs p r]; cbn [node_ge node_rpos]; intros [H1 H2]; (split; [lia|]); auto.
  destruct cs as [|ch [|ch2 cs]]; auto.
Qed.
Lemma all_ge_nil pos : all_ge pos []. Proof. intros n []. Qed.
Lemma all_ge_mono p0 p1 ns : p0 <= p1 -> all_ge p1 ns -> all_ge p0 ns.
Proof. intros Hle H n Hn. apply (node_ge_mono p0 p1 Hle), H, Hn. Qed.
Lemma all_ge_cons pos n ns : node_ge pos n -> all_ge pos ns -> all_ge pos (n :: ns).
Proof. intros H1 H2 x [E|Hx]; [subst x; exact H1 | apply H2, Hx]. Qed.
Lemma all_ge_append pos a b : all_ge pos a -> all_ge pos b -> all_ge pos (append_node a b).
Proof. intros Ha Hb n H. apply append_node_in_inv in H. destruct H as [H|H]; [apply Ha, H | apply Hb, H]. Qed.
Lemma node_ge_empty pos : node_ge pos (NEmpty pos).
Proof. cbn [node_ge node_rpos]. split; [lia|exact I]. Qed.

Lemma node_ge_set_rpos pos n e : node_ge pos n -> node_rpos n <= e -> node_ge pos (set_rpos n e).
Proof.
  destruct n as [t v p r|p|p|t i cs p r]; cbn [node_ge node_rpos set_rpos]; intros [H1 H2] He;
    (split; [lia|exact H2]).
Qed.

Definition head_at (pos : N) (l : list node) : Prop :=
  match l with [] => True | n :: _ => node_rpos n = pos end.

(* the node a sequence emits ends where the sequence stands *)
Lemma handle_result_ge q p0 pos l :
  p0 <= pos -> head_at pos l -> all_ge p0 l -> node_ge p0 (handle_result q pos (rev l)).
Proof.
  intros Hle Hh Hall. destruct l as [|n l]; cbn [rev].
  - cbn [handle_result node_ge node_rpos]. split; [lia|exact I].
  - cbn [head_at] in Hh. assert (Hn : node_ge p0 n) by (apply Hall; left; reflexivity).
    destruct (rev l) as [|f r] eqn:E; cbn [app].
    + cbn [handle_result]. destruct (q_single q); [exact Hn|].
      cbn [node_ge node_rpos]. split; [lia|exact Hn].
    + assert (Hl : node_rpos (last ((f :: r) ++ [n]) f) = pos) by (rewrite last_last; exact Hh).
      cbn [app] in Hl. unfold handle_result.
      destruct r as [|r0 r]; cbn [app] in *; cbn [node_ge node_rpos]; (split; [lia|exact I]).
Qed.

Section Act.
  Variable inp : input.
  Variable rules : list pexpr.

  Lemma trim_nodes_ge m pos ns : forall w ns' w',
    all_ge pos ns -> trim_nodes inp m ns w = (ns', w') -> all_ge pos ns'.
  Proof.
    induction ns as [|n t IH]; intros w ns' w' Hall H; cbn [trim_nodes] in H.
    - injection H as <- _. apply all_ge_nil.
    - assert (Hn : node_ge pos n) by (apply Hall; left; reflexivity).
      assert (Ht : all_ge pos t) by (intros x Hx; apply Hall; right; exact Hx).
      assert (G : forall w0 t0 w1, trim_nodes inp m t w0 = (t0, w1) -> all_ge pos t0)
        by (intros w0 t0 w1; apply IH; exact Ht).
      destruct n as [tk v p r|p|p|tk i cs p r];
        try (match goal with
             | Hn : node_ge pos ?nd |- _ =>
               pose proof (skip_ws_ge inp (node_rpos nd) m) as L;
               destruct (skip_ws inp (node_rpos nd) m) as [e w1]; cbn [fst] in L;
               destruct (trim_nodes inp m t w1) as [t' w2] eqn:E2; injection H as <- _;
               apply all_ge_cons; [apply (node_ge_set_rpos pos nd e Hn L) | apply (G _ _ _ E2)]
             end; fail).
      destruct (trim_nodes inp m t w) as [t' w2] eqn:E2. injection H as <- _.
      apply all_ge_cons; [exact Hn | apply (G _ _ _ E2)].
  Qed.

  (* every cached result satisfies the fact for its key *)
  Definition cache_ge (c : ctx) : Prop :=
    forall idx pos r, cache_find (idx, pos) (cache c) = Some r -> all_ge pos (r_nodes r).
  (* every logged body execution is within the bound *)
  Definition bodies_ok (c : ctx) : Prop :=
    forall i p a, In (i, p, a) (g_bodies c) -> a <= remaining inp p + 2.

  Lemma cache_ge_ctx0 : cache_ge ctx0. Proof. intros idx pos r H. discriminate H. Qed.
  Lemma bodies_ok_ctx0 : bodies_ok ctx0. Proof. intros i p a []. Qed.

  Lemma cache_get_find c idx pos lrc r : cache_get c idx pos lrc = Some r -> cache_find (idx, pos) (cache c) = Some r.
  Proof.
    unfold cache_get. destruct (cache_find (idx, pos) (cache c)) as [r0|]; [|discriminate].
    destruct (reusable (r_lrc r0) lrc); [intros H; exact H|discriminate].
  Qed.
  Lemma cache_ge_save c idx pos r : cache_ge c -> all_ge pos (r_nodes r) -> cache_ge (cache_save c idx pos r).
  Proof.
    intros Hc Hr i p r0 H. cbn [cache_save cache cache_find fst snd] in H.
    destruct ((i =? idx) && (p =? pos)) eqn:E.
    - injection H as <-. apply andb_true_iff in E. destruct E as [_ E]. apply N.eqb_eq in E. subst p. exact Hr.
    - apply (Hc i p r0 H).
  Qed.

  Definition actP (rp : ptype) : Prop :=
    forall e c stk lrc pos ns cp err c',
      cache_ge c -> rp e c stk lrc pos = Ok (ns, cp, err, c') ->
      cache_ge c' /\ all_ge pos ns /\ (Inv stk lrc pos -> bodies_ok c -> bodies_ok c').
  (* the context part needs nothing of the sequence state; the result part does *)
  Definition actQ (rs : stype) : Prop :=
    forall q d c stk lrc pos m st stop st' c',
      cache_ge c -> rs q d c stk lrc pos m st = Ok (stop, st', c') ->
      cache_ge c' /\ (Inv stk lrc pos -> bodies_ok c -> bodies_ok c') /\
      (forall p0, p0 <= pos -> head_at pos (s_nodes st) -> all_ge p0 (s_nodes st) -> all_ge p0 (s_res st) ->
                  all_ge p0 (s_res st')).

  Section Step.
    Variables (rp : ptype) (rs : stype).
    Hypothesis Hp : actP rp.
    Hypothesis Hs : actQ rs.

    Lemma any_loop_act stk lrc pos ps : forall c cp res err nf ns cp' err' c',
      cache_ge c -> all_ge pos res ->
      any_loop rp stk lrc pos ps c cp res err nf = Ok (ns, cp', err', c') ->
      cache_ge c' /\ all_ge pos ns /\ (Inv stk lrc pos -> bodies_ok c -> bodies_ok c').
    Proof.
      induction ps as [|p ps IH]; intros c cp res err nf ns cp' err' c' Hc Hres H; cbn [any_loop] in H.
      - destruct res as [|r0 res].
        + injection H as <- _ _ <-. split; [exact Hc|]. split; [apply all_ge_nil|]. intros _ Hb; exact Hb.
        + injection H as <- _ _ <-. split; [exact Hc|]. split; [exact Hres|]. intros _ Hb; exact Hb.
      - apply bind_ok in H. destruct H as [[[[res2 cp2] err2] c1] [H1 H2]].
        destruct (Hp _ _ _ _ _ _ _ _ _ (Hc : cache_ge (reg_call c)) H1) as [Hc1 [Hr2 Hb1]].
        destruct (alt_err pos err nf err2) as [err1 nf1].
        destruct (IH _ _ _ _ _ _ _ _ _ Hc1 (all_ge_append _ _ _ Hres Hr2) H2) as [Hc' [Hns Hb']].
        split; [exact Hc'|]. split; [exact Hns|]. intros Hi Hb. apply (Hb' Hi). apply (Hb1 Hi). exact Hb.
    Qed.

    Lemma choice_loop_act stk lrc pos ps : forall c cp err nf ns cp' err' c',
      cache_ge c ->
      choice_loop rp stk lrc pos ps c cp err nf = Ok (ns, cp', err', c') ->
      cache_ge c' /\ all_ge pos ns /\ (Inv stk lrc pos -> bodies_ok c -> bodies_ok c').
    Proof.
      induction ps as [|p ps IH]; intros c cp err nf ns cp' err' c' Hc H; cbn [choice_loop] in H.
      - injection H as <- _ _ <-. split; [exact Hc|]. split; [apply all_ge_nil|]. intros _ Hb; exact Hb.
      - apply bind_ok in H. destruct H as [[[[res2 cp2] err2] c1] [H1 H2]].
        destruct (Hp _ _ _ _ _ _ _ _ _ (Hc : cache_ge (reg_call c)) H1) as [Hc1 [Hr2 Hb1]].
        destruct (alt_err pos err nf err2) as [err1 nf1].
        destruct res2 as [|r0 res2].
        + destruct (IH _ _ _ _ _ _ _ _ Hc1 H2) as [Hc' [Hns Hb']].
          split; [exact Hc'|]. split; [exact Hns|]. intros Hi Hb. apply (Hb' Hi). apply (Hb1 Hi). exact Hb.
        + injection H2 as <- _ _ <-. split; [exact Hc1|]. split; [exact Hr2|].
          intros Hi Hb. apply (Hb1 Hi). exact Hb.
    Qed.

    (* a wrapper that calls its operand once at the same position, keeps the context it gets
       back (up to the error field) and returns a sub-list-like result *)
    Ltac wrap H Hc :=
      apply bind_ok in H; destruct H as [[[[res0 cp0] err0] c0] [H1 H2]];
      destruct (Hp _ _ _ _ _ _ _ _ _ Hc H1) as [Hc0 [Hr0 Hb0]].

    Lemma parse_step_act : actP (parse_step inp rules rp rs).
    Proof.
      intros e c stk lrc pos ns cp err c' Hc H. destruct e; cbn [parse_step] in H.
      - (* PTerm *)
        assert (G : forall x, cache_ge x -> (Inv stk lrc pos -> bodies_ok c -> bodies_ok x) ->
                    all_ge pos ns -> cache_ge x /\ all_ge pos ns /\ (Inv stk lrc pos -> bodies_ok c -> bodies_ok x))
          by (intros x A B C; split; [exact A|split; [exact C|exact B]]).
        destruct t as [ch|l].
        + (* a rune *)
          cbn [term_parse] in H.
          destruct (byte_at inp pos) as [b|].
          * destruct (b =? ch).
            -- injection H as <- _ _ <-. apply G; [exact Hc|intros _ Hb; exact Hb|].
               intros n [E|[]]. subst n. cbn [node_ge node_rpos]. split; [lia|exact I].
            -- injection H as <- _ _ <-. apply G; [exact Hc|intros _ Hb; exact Hb|apply all_ge_nil].
          * injection H as <- _ _ <-. apply G; [exact Hc|intros _ Hb; exact Hb|apply all_ge_nil].
        + (* a literal parser: no node, or one leaf that starts here and does not end before (TermFacts) *)
          destruct (term_parse inp (TLit l) pos) as [res terr] eqn:Et.
          destruct (term_parse_cases _ _ _ _ _ Et) as [->|(n0 & -> & ->)].
          * assert (Hx : cache_ge (match terr with Some e => log_fail c pos (ecause e) | None => c end))
              by (destruct terr; exact Hc).
            assert (Hy : Inv stk lrc pos -> bodies_ok c ->
                         bodies_ok (match terr with Some e => log_fail c pos (ecause e) | None => c end))
              by (destruct terr; intros _ Hb; exact Hb).
            injection H as <- _ _ <-. apply G; [exact Hx|exact Hy|apply all_ge_nil].
          * apply term_parse_lit_node in Et. destruct Et as (_ & tok & v & r & -> & _ & Hle & _ & _).
            injection H as <- _ _ <-. apply G; [exact Hc|intros _ Hb; exact Hb|].
            intros n [E|[]]. subst n. cbn [node_ge node_rpos]. split; [exact Hle|exact I].
      - (* PEmpty *)
        injection H as <- _ _ <-. split; [exact Hc|]. split; [|intros _ Hb; exact Hb].
        intros n [E|[]]. subst n. apply node_ge_empty.
      - (* PEnd *)
        destruct (is_eof inp pos).
        + injection H as <- _ _ <-. split; [exact Hc|]. split; [|intros _ Hb; exact Hb].
          intros n [E|[]]. subst n. cbn [node_ge node_rpos]. split; [lia|exact I].
        + injection H as <- _ _ <-. split; [exact Hc|]. split; [apply all_ge_nil|intros _ Hb; exact Hb].
      - (* PRef *)
        destruct (nth_N rules k) as [body|]; [|discriminate]. apply (Hp _ _ _ _ _ _ _ _ _ Hc H).
      - (* PMemo *)
        destruct (cache_get c idx pos lrc) as [r|] eqn:Eg.
        + injection H as <- _ _ <-. split; [exact Hc|]. split; [|intros _ Hb; exact Hb].
          apply (Hc idx pos r). apply (cache_get_find _ _ _ _ _ Eg).
        + destruct (remaining inp pos + 1 <? map_get idx lrc) eqn:Et.
          * injection H as <- _ _ <-. split; [exact Hc|]. split; [apply all_ge_nil|intros _ Hb; exact Hb].
          * apply N.ltb_ge in Et.
            apply bind_ok in H. destruct H as [[[[res0 cp0] err0] c0] [H1 H2]].
            assert (Hcl : cache_ge (log_body c idx pos (1 + count_active idx pos stk))) by exact Hc.
            destruct (Hp _ _ _ _ _ _ _ _ _ Hcl H1) as [Hc0 [Hr0 Hb0]].
            injection H2 as <- _ _ <-.
            split; [apply cache_ge_save; [exact Hc0|exact Hr0]|]. split; [exact Hr0|].
            intros Hi Hb. apply (Hb0 (Inv_push _ _ _ idx Hi)).
            intros i p a Hin. cbn [log_body g_bodies] in Hin. destruct Hin as [E|Hin]; [|apply (Hb i p a Hin)].
            assert (X : 1 + count_active idx pos stk <= remaining inp pos + 2)
              by (destruct Hi as [Hi _]; specialize (Hi idx); lia).
            injection E as <- <- <-. exact X.
      - (* PAny *) apply (any_loop_act _ _ _ _ _ _ _ _ _ _ _ _ _ Hc (all_ge_nil pos) H).
      - (* PChoice *) apply (choice_loop_act _ _ _ _ _ _ _ _ _ _ _ _ Hc H).
      - (* POpt *)
        wrap H Hc. injection H2 as <- _ _ <-. split; [exact Hc0|]. split; [|exact Hb0].
        apply all_ge_append; [exact Hr0|]. intros n [E|[]]. subst n. apply node_ge_empty.
      - (* PSeq *)
        apply bind_ok in H. destruct H as [[[stop st] c0] [H1 H2]].
        set (st0 := {| s_cp := []; s_res := []; s_err := None; s_nodes := [] |}) in H1.
        destruct (Hs _ _ _ _ _ _ _ st0 _ _ _ Hc H1) as [Hc0 [Hb0 Hr0]].
        specialize (Hr0 pos (N.le_refl pos) I (all_ge_nil pos) (all_ge_nil pos)).
        destruct (s_res st) as [|r0 rr] eqn:Er.
        + injection H2 as <- _ _ <-. split; [exact Hc0|]. split; [apply all_ge_nil|exact Hb0].
        + injection H2 as <- _ _ <-. split; [exact Hc0|]. split; [exact Hr0|exact Hb0].
      - (* PName *)
        wrap H Hc. destruct err0 as [e0|].
        + injection H2 as <- _ _ <-. split; [exact Hc0|]. split; [apply all_ge_nil|exact Hb0].
        + destruct res0 as [|r0 rr].
          * injection H2 as <- _ _ <-. split; [exact Hc0|]. split; [apply all_ge_nil|exact Hb0].
          * injection H2 as <- _ _ <-. split; [exact Hc0|]. split; [exact Hr0|exact Hb0].
      - (* PLeftTrim *)
        pose proof (skip_ws_ge inp pos m) as Hge.
        destruct (skip_ws inp pos m) as [pos1 wserr]. cbn [fst] in Hge.
        wrap H Hc.
        assert (Hr1 : all_ge pos res0) by (apply (all_ge_mono pos pos1 _ Hge Hr0)).
        assert (Hb1 : Inv stk lrc pos -> bodies_ok c -> bodies_ok c0).
        { intros Hi Hb. apply Hb0; [|exact Hb]. apply (Inv_move _ _ _ _ _ Hi Hge). intros _; reflexivity. }
        set (c2 := match cerr c0 with
                   | Some ce => if (epos ce =? pos1) && is_notfound ce
                                then set_error c0 (Some (mk_err pos (ecause ce))) else c0
                   | None => c0 end) in H2.
        assert (Hc2 : cache_ge c2 /\ (bodies_ok c0 -> bodies_ok c2)).
        { subst c2. destruct (cerr c0) as [ce|]; [|split; [exact Hc0|intros X; exact X]].
          destruct ((epos ce =? pos1) && is_notfound ce); split; try exact Hc0; intros X; exact X. }
        destruct Hc2 as [Hc2 Hb2].
        assert (G : forall rr, all_ge pos rr ->
                    cache_ge c2 /\ all_ge pos rr /\ (Inv stk lrc pos -> bodies_ok c -> bodies_ok c2)).
        { intros rr Hrr. split; [exact Hc2|]. split; [exact Hrr|]. intros Hi Hb. apply Hb2, Hb1; assumption. }
        destruct err0 as [e0|].
        + destruct wserr as [w|].
          * destruct (pos1 <? epos e0).
            -- injection H2 as <- _ _ <-. apply G, all_ge_nil.
            -- destruct (is_notfound e0); injection H2 as <- _ _ <-; apply G, Hr1.
          * injection H2 as <- _ _ <-. apply G, Hr1.
        + destruct wserr as [w|]; injection H2 as <- _ _ <-; [apply G, all_ge_nil | apply G, Hr1].
      - (* PRightTrim *)
        wrap H Hc. destruct err0 as [e0|].
        + injection H2 as <- _ _ <-. split; [exact Hc0|]. split; [exact Hr0|exact Hb0].
        + destruct (trim_nodes inp m res0 None) as [res' wserr] eqn:Et.
          pose proof (trim_nodes_ge _ _ _ _ _ _ Hr0 Et) as Hr'.
          destruct wserr as [w|]; injection H2 as <- _ _ <-.
          * split; [exact Hc0|]. split; [apply all_ge_nil|exact Hb0].
          * split; [exact Hc0|]. split; [exact Hr'|exact Hb0].
      - (* PSuppress *)
        wrap H Hc. injection H2 as <- _ _ <-. split; [exact Hc0|]. split; [exact Hr0|exact Hb0].
      - (* PSingle *)
        wrap H Hc. destruct err0 as [e0|].
        + injection H2 as <- _ _ <-. split; [exact Hc0|]. split; [apply all_ge_nil|exact Hb0].
        + assert (G : Ok (res0, cp0, @None perr, c0) = Ok (ns, cp, err, c') ->
                      cache_ge c' /\ all_ge pos ns /\ (Inv stk lrc pos -> bodies_ok c -> bodies_ok c')).
          { intros X. injection X as <- _ _ <-. split; [exact Hc0|]. split; [exact Hr0|exact Hb0]. }
          destruct res0 as [|r0 rr]; [apply G; exact H2|].
          destruct r0 as [tk v p r|p|p|tk i cs p r]; try (destruct rr; apply G; exact H2).
          destruct cs as [|ch [|ch2 cs]]; try (destruct rr; apply G; exact H2).
          destruct rr as [|r1 rr]; [|apply G; exact H2].
          injection H2 as <- _ _ <-. split; [exact Hc0|]. split; [|exact Hb0].
          intros n [E|[]]. subst n.
          assert (Hn : node_ge pos (NNonTerm tk i [ch] p r)) by (apply Hr0; left; reflexivity).
          cbn [node_ge] in Hn. destruct Hn as [_ Hn]. exact Hn.
    Qed.

    Lemma alts_loop_act q d stk lrc pos m prefix ns : forall st c stop st' c',
      cache_ge c -> all_ge pos ns ->
      alts_loop rs q d stk lrc pos m prefix ns st c = Ok (stop, st', c') ->
      cache_ge c' /\ (Inv stk lrc pos -> bodies_ok c -> bodies_ok c') /\
      (forall p0, p0 <= pos -> all_ge p0 prefix -> all_ge p0 (s_res st) -> all_ge p0 (s_res st')).
    Proof.
      induction ns as [|n ns IH]; intros st c stop st' c' Hc Hns H; cbn [alts_loop] in H.
      - injection H as _ <- <-. split; [exact Hc|]. split; [intros _ Hb; exact Hb|]. intros p0 _ _ Hres; exact Hres.
      - apply bind_ok in H. destruct H as [[[stop1 st1] c1] [H1 H2]].
        assert (Hn : node_ge pos n) by (apply Hns; left; reflexivity).
        pose proof (node_ge_rpos _ _ Hn) as Hnr.
        set (stn := {| s_cp := s_cp st; s_res := s_res st; s_err := s_err st; s_nodes := n :: prefix |}) in H1.
        destruct (Hs _ _ _ _ _ _ _ stn _ _ _ Hc H1) as [Hc1 [Hb1 Hr1]].
        assert (Hb1' : Inv stk lrc pos -> bodies_ok c -> bodies_ok c1).
        { intros Hi Hb. apply Hb1; [|exact Hb]. apply (Inv_move _ _ _ _ _ Hi Hnr).
          intros E. rewrite E, N.ltb_irrefl. reflexivity. }
        assert (Hr1' : forall p0, p0 <= pos -> all_ge p0 prefix -> all_ge p0 (s_res st) -> all_ge p0 (s_res st1)).
        { intros p0 Hle Hpre Hres. apply (Hr1 p0); [lia|reflexivity| |exact Hres].
          apply all_ge_cons; [apply (node_ge_mono p0 pos Hle n Hn)|exact Hpre]. }
        destruct stop1.
        + injection H2 as _ <- <-. split; [exact Hc1|]. split; [exact Hb1'|exact Hr1'].
        + assert (Hns' : all_ge pos ns) by (intros x Hx; apply Hns; right; exact Hx).
          destruct (IH _ _ _ _ _ Hc1 Hns' H2) as [Hc' [Hb' Hr']].
          split; [exact Hc'|]. split; [intros Hi Hb; apply (Hb' Hi), (Hb1' Hi), Hb|].
          intros p0 Hle Hpre Hres. apply (Hr' p0 Hle Hpre). apply (Hr1' p0 Hle Hpre Hres).
    Qed.

    Lemma seq_step_act : actQ (seq_step rp rs).
    Proof.
      intros q d c stk lrc pos m st stop st' c' Hc H. unfold seq_step in H.
      apply bind_ok in H. destruct H as [[[[res cp] err] c1] [H1 H2]].
      assert (F : cache_ge c1 /\ all_ge pos res /\ (Inv stk lrc pos -> bodies_ok c -> bodies_ok c1)).
      { destruct (seq_lookup (q_kind q) (q_ps q) d) as [p|].
        - apply (Hp _ _ _ _ _ _ _ _ _ (Hc : cache_ge (reg_call c)) H1).
        - injection H1 as <- _ _ <-. split; [exact Hc|]. split; [apply all_ge_nil|intros _ Hb; exact Hb]. }
      destruct F as [Hc1 [Hr1 Hb1]].
      destruct res as [|r0 res].
      - destruct (seq_lencheck (q_kind q) (length (q_ps q)) d).
        + cbn [s_nodes s_res s_cp s_err] in H2.
          assert (Hnew : forall p0, p0 <= pos -> head_at pos (s_nodes st) -> all_ge p0 (s_nodes st) ->
                         all_ge p0 (s_res st) ->
                         all_ge p0 (append_node (s_res st) [handle_result q pos (rev (s_nodes st))])).
          { intros p0 Hle Hh Hnodes Hres. apply all_ge_append; [exact Hres|]. intros n [E|[]]. subst n.
            apply handle_result_ge; assumption. }
          destruct (s_nodes st) as [|lastn rest]; injection H2 as _ <- <-;
            (split; [exact Hc1|]; split; [exact Hb1|exact Hnew]).
        + injection H2 as _ <- <-. split; [exact Hc1|]. split; [exact Hb1|]. intros p0 _ _ _ Hres; exact Hres.
      - cbn [s_nodes] in H2.
        match type of H2 with alts_loop _ _ _ _ _ _ _ _ _ ?s _ = _ => set (st1 := s) in H2 end.
        destruct (alts_loop_act _ _ _ _ _ _ _ _ st1 _ _ _ _ Hc1 Hr1 H2) as [Hc' [Hb' Hr']].
        split; [exact Hc'|]. split; [intros Hi Hb; apply (Hb' Hi), (Hb1 Hi), Hb|].
        intros p0 Hle Hh Hnodes Hres. apply (Hr' p0 Hle Hnodes Hres).
    Qed.
  End Step.

  Theorem act_all : forall f, actP (parse inp rules f) /\ actQ (seqp inp rules f).
  Proof.
    induction f as [|f [IHp IHs]].
    - split; [intros e c stk lrc pos ns cp err c' _ H | intros q d c stk lrc pos m st stop st' c' _ H];
        cbn in H; discriminate.
    - split.
      + intros e c stk lrc pos ns cp err c' Hc H. rewrite parse_S in H.
        revert Hc H. apply parse_step_act; assumption.
      + intros q d c stk lrc pos m st stop st' c' Hc H. rewrite seqp_S in H.
        revert Hc H. apply seq_step_act; assumption.
  Qed.

  (* results never end before they start (for arbitrary expressions; the cache has to obey the same) *)
  Theorem res_ge fuel e c stk lrc pos ns cp err c' :
    cache_ge c -> parse inp rules fuel e c stk lrc pos = Ok (ns, cp, err, c') ->
    cache_ge c' /\ forall n, In n ns -> pos <= node_rpos n.
  Proof.
    intros Hc H. destruct (proj1 (act_all fuel) _ _ _ _ _ _ _ _ _ Hc H) as [Hc' [Hr _]].
    split; [exact Hc'|]. intros n Hn. apply node_ge_rpos, Hr, Hn.
  Qed.

  (* C02, activation bound: every grammar, every expression, every start state satisfying the invariant *)
  Theorem C02_activation_bound fuel e c stk lrc pos ns cp err c' :
    Inv stk lrc pos -> cache_ge c ->
    (forall i p a, In (i, p, a) (g_bodies c) -> a <= remaining inp p + 2) ->
    parse inp rules fuel e c stk lrc pos = Ok (ns, cp, err, c') ->
    forall i p a, In (i, p, a) (g_bodies c') -> a <= remaining inp p + 2.
  Proof.
    intros Hi Hc Hb H. destruct (proj1 (act_all fuel) _ _ _ _ _ _ _ _ _ Hc H) as [_ [_ Hb']].
    apply (Hb' Hi Hb).
  Qed.

  Corollary C02_activation_bound_run fuel root ns cp err c' :
    run inp rules fuel root = Ok (ns, cp, err, c') ->
    forall i p a, In (i, p, a) (g_bodies c') -> a <= remaining inp p + 2.
  Proof.
    unfold run. intros H.
    apply (C02_activation_bound _ _ _ _ _ _ _ _ _ _ (Inv_nil _) cache_ge_ctx0 bodies_ok_ctx0 H).
  Qed.

  Definition top_ctx (t : top) : ctx := match t with TopNode _ c => c | TopErr _ c => c end.
  Corollary C02_activation_bound_top fuel root t :
    parse_top inp rules fuel root = Ok t ->
    forall i p a, In (i, p, a) (g_bodies (top_ctx t)) -> a <= remaining inp p + 2.
  Proof.
    unfold parse_top. intros H. apply bind_ok in H. destruct H as [[[[ns cp] err] c] [H1 H2]].
    pose proof (C02_activation_bound_run _ _ _ _ _ _ H1) as Hb.
    destruct (match ns, err with
              | [], None => match cerr c with
                            | Some e => Some e
                            | None => Some (mk_err (i_offset inp) (CNotFound name_valid_input))
                            end
              | _, _ => err end) as [e1|]; injection H2 as <-; exact Hb.
  Qed.
End Act.

(* ---------- non-vacuity: the hidden-left-recursive grammar P -> x? P b | a on "xab" ---------- *)
Definition ex_rules : list pexpr :=
  [PMemo 1 (PAny [PSeq SeqOf INone false None [POpt (PTerm (TRune 120)); PRef 0; PTerm (TRune 98)];
                  PTerm (TRune 97)])].
Definition ex_inp : input := mk_input [120; 97; 98] 0.
(* per logged body execution: (index, position, activations, remaining + 2) *)
Definition ex_log (fuel : nat) : list (N * N * N * N) :=
  match run ex_inp ex_rules fuel (PRef 0) with
  | Ok (_, _, _, c) => map (fun '(i, p, a) => (i, p, a, remaining ex_inp p + 2)) (g_bodies c)
  | _ => []
  end.
Definition ex_ends (fuel : nat) : list N :=
  match run ex_inp ex_rules fuel (PRef 0) with
  | Ok (ns, _, _, _) => map node_rpos ns
  | _ => []
  end.
(* nine body executions; the bound (last component) is reached exactly at both positions,
   and the parse "xab" (ending at 3) is found *)
Example ex_log_xab :
  ex_log 100 = [(1, 0, 5, 5); (1, 0, 4, 5); (1, 0, 3, 5); (1, 0, 2, 5);
                (1, 1, 4, 4); (1, 1, 3, 4); (1, 1, 2, 4); (1, 1, 1, 4); (1, 0, 1, 5)]
  /\ ex_ends 100 = [3].
Proof. vm_compute. split; reflexivity. Qed.
