(* Tree.v — model of the tree passes of parsley (C13):
     parsley/walk.go (Walk), parsley/static_check.go (StaticCheck), parsley/transform.go (Transform),
     parsley/evaluate.go (EvaluateNode), ast/nonterminal_node.go (Value, Transform, StaticCheck, Pos),
     ast/node_list.go (Walk, Pos, Schema), ast/terminal_node.go, ast/empty_node.go,
     ast/interpreter/interpreter.go (Select, Nil, Array, Object).
   Then the specification (post-order listing, transformation frontier, log-free evaluation)
   and the harness.  No proofs here: the model must keep running when a proof is broken.

   Nodes carry a ghost identifier so that callback logs can name them.  User callbacks
   (walk callback, checkers, transformers, recording evaluators) are function parameters;
   in a harness case their behaviour is data (a table keyed by node identifier).
   Go panics (NodeList index 0 of an empty list, nil interpreter, Select out of range, Object's
   type assertions and child indexes) are the explicit Panic outcome; every pass returns its
   ghost call log also when it panics. *)
From Coq Require Import String List NArith ZArith Bool.
From Parsley Require Import Obs Base.
Import ListNotations.
Open Scope N_scope.

(* ------------------------------------------------------------------ *)
(* Data                                                                *)

(* Go values produced by evaluation: nil, int, string, []interface{}, map[string]interface{}
   (a map is kept sorted by key, bytewise; inserting an existing key overwrites) *)
Inductive value :=
| VNil | VInt (n : N) | VStr (s : list N) | VList (l : list value) | VMap (m : list (list N * value)).

(* parsley.Error projected to position and cause: a user error "E<code>", or parsley.ErrNoValue *)
Inductive err := EUser (pos code : N) | ENoValue (pos : N).

(* the parsley.Interpreter stored in a non-terminal node *)
Inductive interp :=
| INone                              (* nil interface *)
| IRec (k : N) (chk trf : bool)      (* recording interpreter number k; chk: it also implements
                                        parsley.StaticChecker; trf: also parsley.NodeTransformer *)
| ISelect (i : Z)                    (* interpreter.Select(i): Eval and StaticCheck *)
| INil | IArray | IObject.           (* interpreter.Nil(), Array(), Object(): ast.InterpreterFunc, Eval only *)

Inductive tree :=
| TLeaf (id : N) (schema : option N) (v : value)          (* *ast.TerminalNode at position id *)
| TEmpty (id : N)                                          (* ast.EmptyNode(id) *)
| TNonTerm (id pos : N) (ik : interp) (cs : list tree)     (* *ast.NonTerminalNode; pos is fixed at construction *)
| TList (id : N) (alts : list tree).                       (* ast.NodeList *)

Definition node_id (t : tree) : N :=
  match t with TLeaf id _ _ => id | TEmpty id => id | TNonTerm id _ _ _ => id | TList id _ => id end.
Definition children (t : tree) : list tree :=
  match t with TNonTerm _ _ _ cs => cs | _ => [] end.

(* Node.Pos(); NodeList.Pos() is nl[0].Pos(): None = index out of range *)
Fixpoint node_pos (t : tree) : option N :=
  match t with
  | TLeaf id _ _ => Some id
  | TEmpty id => Some id
  | TNonTerm _ p _ _ => Some p
  | TList _ alts => match alts with [] => None | a :: _ => node_pos a end
  end.

(* capabilities discovered by the type switches of NonTerminalNode.Transform / StaticCheck *)
Definition transformer_of (ik : interp) : option N :=
  match ik with IRec k _ true => Some k | _ => None end.
Definition rec_checker_of (ik : interp) : option N :=
  match ik with IRec k true _ => Some k | _ => None end.

(* nodes[i] of Select: out of range (or negative) is a panic *)
Definition select_child (i : Z) (cs : list tree) : option tree :=
  if (i <? 0)%Z then None else nth_error cs (Z.to_nat i).

(* ------------------------------------------------------------------ *)
(* parsley.Walk with a stateful callback.  The callback may stop (true) or panic. *)

Definition walk_children {S : Type} (w : tree -> S -> S * outcome bool)
  : list tree -> S -> S * outcome bool :=
  fix go (cs : list tree) (s : S) : S * outcome bool :=
    match cs with
    | [] => (s, Ok false)
    | c :: r => match w c s with
                | (s', Ok false) => go r s'         (* if Walk(child, f) { return true } *)
                | x => x
                end
    end.

(* "return f(node)" after the descent did not stop *)
Definition visit {S : Type} (f : S -> tree -> S * outcome bool) (t : tree) (r : S * outcome bool)
  : S * outcome bool :=
  match r with
  | (s', Ok false) => f s' t
  | x => x
  end.

Fixpoint walk_st {S : Type} (f : S -> tree -> S * outcome bool) (t : tree) (s : S) {struct t}
  : S * outcome bool :=
  match t with
  | TList _ alts =>                         (* case Walkable: NodeList.Walk = parsley.Walk(nl[0], f) *)
    match alts with
    | [] => (s, Panic)
    | a :: _ => visit f t (walk_st f a s)
    end
  | TNonTerm _ _ _ cs =>                    (* case NonTerminalNode: children left to right *)
    visit f t (walk_children (walk_st f) cs s)
  | _ => f s t
  end.

(* Walk with a pure callback; the state is the ghost log of visited node identifiers *)
Definition log_cb (f : tree -> bool) (lg : list N) (n : tree) : list N * outcome bool :=
  (lg ++ [node_id n], Ok (f n)).
Definition walk (f : tree -> bool) (t : tree) : list N * outcome bool := walk_st (log_cb f) t [].

(* ------------------------------------------------------------------ *)
(* parsley.StaticCheck = Walk with a callback that runs NonTerminalNode.StaticCheck.
   The only mutation is "n.schema = schema": the schemas of non-terminal nodes live in a
   store keyed by node identifier (newest binding first).                             *)

Definition store := list (N * option N).
Definition lookup {A : Type} (id : N) (l : list (N * A)) : option A :=
  match find (fun p => fst p =? id) l with Some p => Some (snd p) | None => None end.

(* Node.Schema() in a given store *)
Definition schema_at (st : store) (n : tree) : option N :=
  match n with
  | TLeaf _ s _ => s
  | TNonTerm id _ _ _ => match lookup id st with Some s => s | None => None end
  | _ => None
  end.

Inductive cres := CSchema (s : option N) | CErr (e : err).   (* what a checker returns *)

(* ghost record of one call of a recording checker: which interpreter, the node it was given,
   the store at that moment (so: every Schema() it could observe), what it returned *)
Record centry := { ce_k : N; ce_node : tree; ce_store : store; ce_res : cres }.
Record cstate := { cs_store : store; cs_log : list centry; cs_err : option err }.
Definition cs_init : cstate := {| cs_store := []; cs_log := []; cs_err := None |}.

(* chk k n view: the recording checker k applied to node n; view is Schema() on any node *)
Definition checker := N -> tree -> (tree -> option N) -> cres.

Definition sc_callback (chk : checker) (s : cstate) (n : tree) : cstate * outcome bool :=
  match n with
  | TNonTerm id _ ik cs =>                                   (* the only StaticCheckable node type *)
    match ik with
    | IRec k true _ =>
      let r := chk k n (schema_at (cs_store s)) in
      let lg := cs_log s ++ [{| ce_k := k; ce_node := n; ce_store := cs_store s; ce_res := r |}] in
      match r with
      | CSchema sc => ({| cs_store := (id, sc) :: cs_store s; cs_log := lg; cs_err := cs_err s |}, Ok false)
      | CErr e => ({| cs_store := cs_store s; cs_log := lg; cs_err := Some e |}, Ok true)
      end
    | ISelect i =>                                           (* selectInterpreter.StaticCheck *)
      match select_child i cs with
      | None => (s, Panic)
      | Some c => ({| cs_store := (id, schema_at (cs_store s) c) :: cs_store s;
                      cs_log := cs_log s; cs_err := cs_err s |}, Ok false)
      end
    | _ => (s, Ok false)
    end
  | _ => (s, Ok false)
  end.

Definition static_check (chk : checker) (t : tree) : cstate * outcome bool :=
  walk_st (sc_callback chk) t cs_init.

(* ------------------------------------------------------------------ *)
(* parsley.Transform / NonTerminalNode.Transform.  In-place replacement of children is
   modelled functionally: the new node is returned.  Log: (interpreter, node it was given). *)

Definition transformer := N -> tree -> tree + err.

Definition transform_children (tr : tree -> list (N * N) * (tree + err))
  : list tree -> list (N * N) * (list tree + err) :=
  fix go (cs : list tree) : list (N * N) * (list tree + err) :=
    match cs with
    | [] => ([], inl [])
    | c :: r =>
      match tr c with
      | (lg, inr e) => (lg, inr e)                          (* return nil, err *)
      | (lg, inl c') =>
        match go r with
        | (lg2, inl r') => (lg ++ lg2, inl (c' :: r'))
        | (lg2, inr e) => (lg ++ lg2, inr e)
        end
      end
    end.

Fixpoint transform (trf : transformer) (t : tree) {struct t} : list (N * N) * (tree + err) :=
  match t with
  | TNonTerm id p ik cs =>
    match transformer_of ik with
    | Some k => ([(k, id)], trf k t)                         (* return i.TransformNode(userCtx, n) *)
    | None =>
      match transform_children (transform trf) cs with
      | (lg, inl cs') => (lg, inl (TNonTerm id p ik cs'))    (* return n, nil *)
      | (lg, inr e) => (lg, inr e)
      end
    end
  | _ => ([], inl t)                                          (* not Transformable *)
  end.

(* ------------------------------------------------------------------ *)
(* parsley.EvaluateNode, NonTerminalNode.Value and the library interpreters.
   Log: (recording interpreter, node its Eval was given).                  *)

Inductive eres := EVal (v : value) | EErr (e : err) | EPanic.
(* behaviour of a recording evaluator: evaluate every child with parsley.EvaluateNode left to
   right, stop at the first error, return the values as a slice; or return a constant; or fail *)
Inductive ebeh := EBChildren | EBRet (v : value) | EBFail (e : err).
Definition evaluator := N -> tree -> ebeh.

Definition evaluation := (list (N * N) * eres)%type.
Definition then_eval (a : evaluation) (f : value -> evaluation) : evaluation :=
  match a with
  | (lg, EVal v) => let (lg2, r) := f v in (lg ++ lg2, r)
  | x => x
  end.

Fixpoint bytes_ltb (a b : list N) : bool :=
  match a, b with
  | [], [] => false
  | [], _ :: _ => true
  | _ :: _, [] => false
  | x :: a', y :: b' => if x <? y then true else if y <? x then false else bytes_ltb a' b'
  end.
Fixpoint map_insert (k : list N) (v : value) (m : list (list N * value)) : list (list N * value) :=
  match m with
  | [] => [(k, v)]
  | (k', v') :: r => if list_N_eqb k k' then (k, v) :: r
                     else if bytes_ltb k k' then (k, v) :: m
                     else (k', v') :: map_insert k v r
  end.

(* all children, left to right (recording evaluator) *)
Definition eval_all (ev : tree -> evaluation) : list tree -> list (N * N) * (list value + eres) :=
  fix go (cs : list tree) :=
    match cs with
    | [] => ([], inl [])
    | c :: r =>
      match ev c with
      | (lg, EVal v) => match go r with
                        | (lg2, inl vs) => (lg ++ lg2, inl (v :: vs))
                        | (lg2, inr x) => (lg ++ lg2, inr x)
                        end
      | (lg, x) => (lg, inr x)
      end
    end.

(* Array: for i := 0; i < len(nodes); i += 2 *)
Definition eval_evens (ev : tree -> evaluation) : list tree -> list (N * N) * (list value + eres) :=
  fix go (cs : list tree) :=
    match cs with
    | [] => ([], inl [])
    | c :: r =>
      match ev c with
      | (lg, EVal v) =>
        match (match r with [] => ([], inl []) | _ :: r2 => go r2 end) with
        | (lg2, inl vs) => (lg ++ lg2, inl (v :: vs))
        | (lg2, inr x) => (lg ++ lg2, inr x)
        end
      | (lg, x) => (lg, inr x)
      end
    end.

(* Select: nodes[s.i] *)
Definition eval_nth (ev : tree -> evaluation) : list tree -> nat -> evaluation :=
  fix go (cs : list tree) (i : nat) : evaluation :=
    match cs, i with
    | [], _ => ([], EPanic)
    | c :: _, O => ev c
    | _ :: r, S j => go r j
    end.

(* one key-value node of Object: nodes[i].(parsley.NonTerminalNode); Children()[0]; Children()[2];
   key.(string) is asserted after both evaluations *)
Definition eval_keyvalue (ev : tree -> evaluation) (kv : tree) : list (N * N) * (list N * value + eres) :=
  match kv with
  | TNonTerm _ _ _ cs2 =>
    match cs2 with
    | [] => ([], inr EPanic)
    | c0 :: rest =>
      match ev c0 with
      | (lg, EVal key) =>
        match rest with
        | _ :: c2 :: _ =>
          match ev c2 with
          | (lg2, EVal v) => match key with
                             | VStr s => (lg ++ lg2, inl (s, v))
                             | _ => (lg ++ lg2, inr EPanic)
                             end
          | (lg2, x) => (lg ++ lg2, inr x)
          end
        | _ => (lg, inr EPanic)
        end
      | (lg, x) => (lg, inr x)
      end
    end
  | _ => ([], inr EPanic)
  end.

Definition eval_object (ev : tree -> evaluation) : list tree -> list (list N * value) -> evaluation :=
  fix go (cs : list tree) (m : list (list N * value)) : evaluation :=
    match cs with
    | [] => ([], EVal (VMap m))
    | kv :: r =>
      match eval_keyvalue ev kv with
      | (lg, inl (k, v)) =>
        let (lg2, x) := match r with [] => ([], EVal (VMap (map_insert k v m))) | _ :: r2 => go r2 (map_insert k v m) end in
        (lg ++ lg2, x)
      | (lg, inr x) => (lg, x)
      end
    end.

Definition lift_list (r : list (N * N) * (list value + eres)) : evaluation :=
  match r with
  | (lg, inl vs) => (lg, EVal (VList vs))
  | (lg, inr x) => (lg, x)
  end.

Fixpoint eval (evb : evaluator) (t : tree) {struct t} : evaluation :=
  match t with
  | TLeaf _ _ v => ([], EVal v)                               (* case LiteralNode *)
  | TEmpty id => ([], EErr (ENoValue id))                     (* default: NewError(node.Pos(), ErrNoValue) *)
  | TList _ alts => match node_pos t with
                    | Some p => ([], EErr (ENoValue p))
                    | None => ([], EPanic)
                    end
  | TNonTerm id _ ik cs =>                                    (* case NonLiteralNode: n.Value(ctx) *)
    match ik with
    | INone => ([], EPanic)                                   (* panic("missing interpreter for node") *)
    | IRec k _ _ =>
      match evb k t with
      | EBRet v => ([(k, id)], EVal v)
      | EBFail e => ([(k, id)], EErr e)
      | EBChildren => let (lg, r) := lift_list (eval_all (eval evb) cs) in ((k, id) :: lg, r)
      end
    | ISelect i => if (i <? 0)%Z then ([], EPanic) else eval_nth (eval evb) cs (Z.to_nat i)
    | INil => ([], EVal VNil)
    | IArray => lift_list (eval_evens (eval evb) cs)
    | IObject => eval_object (eval evb) cs []
    end
  end.

(* ================================================================== *)
(* Specification                                                       *)

(* post-order listing: children first, then the node; an alternative list contributes its
   FIRST element's listing and then itself *)
Fixpoint post (t : tree) : list tree :=
  match t with
  | TNonTerm _ _ _ cs => flat_map post cs ++ [t]
  | TList _ alts => match alts with [] => [t] | a :: _ => post a ++ [t] end
  | _ => [t]
  end.

(* the same with a marker (None) where the walk indexes an empty alternative list *)
Fixpoint post' (t : tree) : list (option tree) :=
  match t with
  | TNonTerm _ _ _ cs => flat_map post' cs ++ [Some t]
  | TList _ alts => match alts with [] => [None] | a :: _ => post' a ++ [Some t] end
  | _ => [Some t]
  end.

(* every alternative list (anywhere) has at least one element *)
Fixpoint lists_nonempty (t : tree) : bool :=
  match t with
  | TNonTerm _ _ _ cs => forallb lists_nonempty cs
  | TList _ alts => match alts with [] => false | _ => forallb lists_nonempty alts end
  | _ => true
  end.
Fixpoint no_lists (t : tree) : bool :=
  match t with
  | TNonTerm _ _ _ cs => forallb no_lists cs
  | TList _ _ => false
  | _ => true
  end.

(* apply a stateful callback along a listing until it stops or panics *)
Fixpoint run {S : Type} (f : S -> tree -> S * outcome bool) (l : list (option tree)) (s : S)
  : S * outcome bool :=
  match l with
  | [] => (s, Ok false)
  | None :: _ => (s, Panic)
  | Some n :: r => match f s n with
                   | (s', Ok false) => run f r s'
                   | x => x
                   end
  end.

(* the listing up to and including the first element satisfying f *)
Fixpoint cut {A : Type} (f : A -> bool) (l : list A) : list A :=
  match l with
  | [] => []
  | x :: r => if f x then [x] else x :: cut f r
  end.

(* all node identifiers, pre-order, every alternative included *)
Fixpoint all_ids (t : tree) : list N :=
  match t with
  | TNonTerm id _ _ cs => id :: flat_map all_ids cs
  | TList id alts => id :: flat_map all_ids alts
  | _ => [node_id t]
  end.
(* pre-order, following only the first alternative of a list *)
Fixpoint reach_ids (t : tree) : list N :=
  match t with
  | TNonTerm id _ _ cs => id :: flat_map reach_ids cs
  | TList id alts => id :: match alts with [] => [] | a :: _ => reach_ids a end
  | _ => [node_id t]
  end.

(* everything the walk reaches strictly below a node, in visiting order: post n = below n ++ [n] *)
Definition below (n : tree) : list tree :=
  match n with
  | TNonTerm _ _ _ cs => flat_map post cs
  | TList _ (a :: _) => post a
  | _ => []
  end.
(* the nodes whose StaticCheck calls a recording checker *)
Definition rec_checker (n : tree) : bool :=
  match n with TNonTerm _ _ (IRec _ true _) _ => true | _ => false end.
(* d occurs before n in the listing l *)
Definition before (l : list tree) (d n : tree) : Prop :=
  exists l1 l2, l = l1 ++ n :: l2 /\ In d l1.
(* a is obtained from b by deleting elements *)
Inductive subseq {A : Type} : list A -> list A -> Prop :=
| subseq_nil : subseq [] []
| subseq_skip x a b : subseq a b -> subseq a (x :: b)
| subseq_keep x a b : subseq a b -> subseq (x :: a) (x :: b).

(* Transform: the outermost transformer-capable non-terminals, left to right (alternative
   lists are not entered), and the tree with each of them replaced by its transformer's result *)
Fixpoint frontier (t : tree) : list tree :=
  match t with
  | TNonTerm _ _ ik cs => match transformer_of ik with Some _ => [t] | None => flat_map frontier cs end
  | _ => []
  end.
Definition trf_apply (trf : transformer) (n : tree) : tree + err :=
  match n with
  | TNonTerm _ _ ik _ => match transformer_of ik with Some k => trf k n | None => inl n end
  | _ => inl n
  end.
Definition trf_entry (n : tree) : N * N :=
  match n with
  | TNonTerm id _ ik _ => match transformer_of ik with Some k => (k, id) | None => (0, id) end
  | _ => (0, node_id n)
  end.
Fixpoint rebuild (trf : transformer) (t : tree) : tree :=
  match t with
  | TNonTerm id p ik cs =>
    match transformer_of ik with
    | Some k => match trf k t with inl r => r | inr _ => t end
    | None => TNonTerm id p ik (map (rebuild trf) cs)
    end
  | _ => t
  end.
(* split a listing at the first node whose transformer fails *)
Fixpoint first_fail (trf : transformer) (l : list tree) : option (list tree * tree * err) :=
  match l with
  | [] => None
  | n :: r => match trf_apply trf n with
              | inr e => Some ([], n, e)
              | inl _ => match first_fail trf r with
                         | Some (pre, m, e) => Some (n :: pre, m, e)
                         | None => None
                         end
              end
  end.
Definition spec_transform (trf : transformer) (t : tree) : list (N * N) * (tree + err) :=
  match first_fail trf (frontier t) with
  | None => (map trf_entry (frontier t), inl (rebuild trf t))
  | Some (pre, n, e) => (map trf_entry (pre ++ [n]), inr e)
  end.

(* Evaluation without the log (fuel = height): what value, error or panic each node yields *)
Fixpoint evens {A : Type} (l : list A) : list A :=
  match l with
  | [] => []
  | x :: r => x :: match r with [] => [] | _ :: r2 => evens r2 end
  end.
(* values of a list of results: the first result that is not a value wins *)
Fixpoint sequence (l : list eres) : list value + eres :=
  match l with
  | [] => inl []
  | EVal v :: r => match sequence r with inl vs => inl (v :: vs) | inr x => inr x end
  | x :: _ => inr x
  end.
Definition lift_seq (r : list value + eres) : eres :=
  match r with inl vs => EVal (VList vs) | inr x => x end.
Definition spec_keyvalue (sv : tree -> eres) (kv : tree) : (list N * value) + eres :=
  match kv with
  | TNonTerm _ _ _ cs2 =>
    match nth_error cs2 0 with
    | None => inr EPanic
    | Some c0 =>
      match sv c0 with
      | EVal key =>
        match nth_error cs2 2 with
        | None => inr EPanic
        | Some c2 => match sv c2 with
                     | EVal v => match key with VStr s => inl (s, v) | _ => inr EPanic end
                     | x => inr x
                     end
        end
      | x => inr x
      end
    end
  | _ => inr EPanic
  end.
Fixpoint spec_object (sv : tree -> eres) (kvs : list tree) (m : list (list N * value)) : eres :=
  match kvs with
  | [] => EVal (VMap m)
  | kv :: r => match spec_keyvalue sv kv with
               | inl (k, v) => spec_object sv r (map_insert k v m)
               | inr x => x
               end
  end.
Fixpoint spec_eval (fuel : nat) (evb : evaluator) (t : tree) : eres :=
  match fuel with
  | O => EPanic
  | S f =>
    match t with
    | TLeaf _ _ v => EVal v
    | TEmpty id => EErr (ENoValue id)
    | TList _ _ => match node_pos t with Some p => EErr (ENoValue p) | None => EPanic end
    | TNonTerm _ _ ik cs =>
      match ik with
      | INone => EPanic
      | IRec k _ _ => match evb k t with
                      | EBRet v => EVal v
                      | EBFail e => EErr e
                      | EBChildren => lift_seq (sequence (map (spec_eval f evb) cs))
                      end
      | ISelect i => match select_child i cs with Some c => spec_eval f evb c | None => EPanic end
      | INil => EVal VNil
      | IArray => lift_seq (sequence (map (spec_eval f evb) (evens cs)))
      | IObject => spec_object (spec_eval f evb) (evens cs) []
      end
    end
  end.
Fixpoint height (t : tree) : nat :=
  match t with
  | TNonTerm _ _ _ cs => S (fold_right Nat.max 0%nat (map height cs))
  | TList _ alts => S (fold_right Nat.max 0%nat (map height alts))
  | _ => 1%nat
  end.

(* the calls of recording interpreters an evaluation makes when nothing fails, in call order
   (fuel = height): a recording interpreter that evaluates its children demands them all, Select
   one child, Array the even children, Object child 0 and child 2 of its even children *)
Definition kv_demanded (dm : tree -> list (N * N)) (kv : tree) : list (N * N) :=
  match kv with
  | TNonTerm _ _ _ cs2 =>
    match nth_error cs2 0, nth_error cs2 2 with
    | Some c0, Some c2 => dm c0 ++ dm c2
    | Some c0, None => dm c0
    | _, _ => []
    end
  | _ => []
  end.
Fixpoint demanded (fuel : nat) (evb : evaluator) (t : tree) : list (N * N) :=
  match fuel with
  | O => []
  | S f =>
    match t with
    | TNonTerm id _ ik cs =>
      match ik with
      | IRec k _ _ => (k, id) :: match evb k t with EBChildren => flat_map (demanded f evb) cs | _ => [] end
      | ISelect i => match select_child i cs with Some c => demanded f evb c | None => [] end
      | IArray => flat_map (demanded f evb) (evens cs)
      | IObject => flat_map (kv_demanded (demanded f evb)) (evens cs)
      | _ => []
      end
    | _ => []
    end
  end.

(* the (interpreter, node) pairs of the recording non-terminals of a tree: the only entries an
   evaluation log may contain *)
Fixpoint rec_pairs (t : tree) : list (N * N) :=
  match t with
  | TNonTerm id _ ik cs =>
    match ik with IRec k _ _ => [(k, id)] | _ => [] end ++ flat_map rec_pairs cs
  | TList _ alts => flat_map rec_pairs alts
  | _ => []
  end.

(* ================================================================== *)
(* Harness                                                             *)

Inductive cbeh := CBRet (s : option N) | CBFail (e : err) | CBSum.
Inductive tbeh := TBRepl (r : tree) | TBSame | TBFail (e : err).

Inductive c13_case :=
| CWalk (t : tree) (stops : list N)                   (* the callback returns true at these nodes *)
| CCheck (t : tree) (beh : list (N * cbeh))           (* behaviour of the checker, per node *)
| CTransform (t : tree) (beh : list (N * tbeh))       (* behaviour of the transformer, per node *)
| CEval (t : tree) (beh : list (N * ebeh)).           (* behaviour of the recording evaluator, per node *)

Definition memN (x : N) (l : list N) : bool := existsb (N.eqb x) l.
Definition stop_cb (stops : list N) (n : tree) : bool := memN (node_id n) stops.

(* default checker: 1 + the sum of the children's schemas (nil counts 0) *)
Definition chk_of (tbl : list (N * cbeh)) : checker := fun k n view =>
  match match lookup (node_id n) tbl with Some b => b | None => CBSum end with
  | CBRet s => CSchema s
  | CBFail e => CErr e
  | CBSum => CSchema (Some (fold_left (fun a c => a + match view c with Some x => x | None => 0 end) (children n) 1))
  end.
Definition trf_of (tbl : list (N * tbeh)) : transformer := fun k n =>
  match match lookup (node_id n) tbl with Some b => b | None => TBSame end with
  | TBRepl r => inl r
  | TBSame => inl n
  | TBFail e => inr e
  end.
Definition evb_of (tbl : list (N * ebeh)) : evaluator := fun k n =>
  match lookup (node_id n) tbl with Some b => b | None => EBChildren end.

(* --- well-formed cases: what the Go constructors can build and the driver can name --- *)
Fixpoint nodupb (l : list N) : bool :=
  match l with [] => true | x :: r => negb (memN x r) && nodupb r end.
Definition last_opt {A : Type} (l : list A) : option A :=
  match rev l with [] => None | x :: _ => Some x end.
(* NewNonTerminalNode takes pos from children[0].Pos() and reads children[last].ReaderPos() *)
Fixpoint pos_ok (t : tree) : bool :=
  match t with
  | TNonTerm _ p _ cs =>
    match cs with
    | [] => true
    | c :: _ => match node_pos c, last_opt cs with
                | Some q, Some l => (p =? q) && match node_pos l with Some _ => true | None => false end
                | _, _ => false
                end
    end && forallb pos_ok cs
  | TList _ alts => forallb pos_ok alts
  | _ => true
  end.
Definition tbeh_ids (b : N * tbeh) : list N :=
  match snd b with TBRepl r => all_ids r | _ => [] end.
Definition tbeh_ok (b : N * tbeh) : bool :=
  match snd b with TBRepl r => pos_ok r | _ => true end.
Definition wf_case (c : c13_case) : bool :=
  match c with
  | CWalk t _ | CCheck t _ | CEval t _ => nodupb (all_ids t) && pos_ok t
  | CTransform t beh => nodupb (all_ids t ++ flat_map tbeh_ids beh) && pos_ok t && forallb tbeh_ok beh
  end.

(* --- rendering --- *)
Definition obs_optN (o : option N) : obs := obs_of_option ON o.
Definition obs_err (e : err) : obs :=
  match e with EUser p c => OT "User" [ON p; ON c] | ENoValue p => OT "NoValue" [ON p] end.
Fixpoint obs_value (v : value) : obs :=
  match v with
  | VNil => OT "Nil" []
  | VInt n => OT "Int" [ON n]
  | VStr s => OT "Str" [OS s]
  | VList l => OT "List" [OL (map obs_value l)]
  | VMap m => OT "Map" [OL (map (fun kv => match kv with (k, x) => OL [OS k; obs_value x] end) m)]
  end.
Definition obs_pairs (l : list (N * N)) : obs := OL (map (fun p => OL [ON (fst p); ON (snd p)]) l).

(* tree shape as the driver can read it back from real nodes (alternative lists have no name) *)
Fixpoint obs_tree (t : tree) : obs :=
  match t with
  | TLeaf id s v => OT "T" [ON id; obs_optN s; obs_value v]
  | TEmpty id => OT "E" [ON id]
  | TNonTerm id p _ cs => OT "N" [ON id; ON p; OL (map obs_tree cs)]
  | TList _ alts => OT "A" [OL (map obs_tree alts)]
  end.

(* Schema() of every proper descendant that is not an alternative list, pre-order, all alternatives *)
Fixpoint schemas_pre (st : store) (t : tree) : list obs :=
  match t with
  | TNonTerm id _ _ cs => OL [ON id; obs_optN (schema_at st t)] :: flat_map (schemas_pre st) cs
  | TList _ alts => flat_map (schemas_pre st) alts
  | _ => [OL [ON (node_id t); obs_optN (schema_at st t)]]
  end.
Definition view_obs (st : store) (n : tree) : obs := OL (flat_map (schemas_pre st) (children n)).
Definition obs_centry (e : centry) : obs :=
  OL [ON (ce_k e); ON (node_id (ce_node e)); view_obs (ce_store e) (ce_node e)].

Definition obs_walk (r : list N * outcome bool) : obs :=
  OT "Walk" [OL (map ON (fst r)); obs_outcome OB (snd r)].
Definition obs_check (t : tree) (r : cstate * outcome bool) : obs :=
  OT "Check" [OL (map obs_centry (cs_log (fst r)));
              obs_outcome (fun _ => obs_of_option obs_err (cs_err (fst r))) (snd r);
              OL (schemas_pre (cs_store (fst r)) t)].
Definition obs_transform (r : list (N * N) * (tree + err)) : obs :=
  OT "Transform" [obs_pairs (fst r);
                  match snd r with inl t' => OT "Node" [obs_tree t'] | inr e => OT "Err" [obs_err e] end].
Definition obs_eres (r : eres) : obs :=
  match r with EVal v => OT "Val" [obs_value v] | EErr e => OT "Err" [obs_err e] | EPanic => opanic end.
Definition obs_eval (r : evaluation) : obs := OT "Eval" [obs_pairs (fst r); obs_eres (snd r)].

Definition bad_case : obs := OT "BadCase" [].

(* what the MODEL predicts *)
Definition c13_expected (c : c13_case) : obs :=
  if negb (wf_case c) then bad_case else
  match c with
  | CWalk t stops => obs_walk (walk (stop_cb stops) t)
  | CCheck t beh => obs_check t (static_check (chk_of beh) t)
  | CTransform t beh => obs_transform (transform (trf_of beh) t)
  | CEval t beh => obs_eval (eval (evb_of beh) t)
  end.

(* what the SPECIFICATION demands, computed from the listings directly *)
Definition spec_walk (f : tree -> bool) (t : tree) : list N * outcome bool :=
  run (log_cb f) (post' t) [].
Definition spec_check (chk : checker) (t : tree) : cstate * outcome bool :=
  run (sc_callback chk) (post' t) cs_init.

Fixpoint is_prefix (a b : list (N * N)) : bool :=
  match a, b with
  | [], _ => true
  | x :: a', y :: b' => (fst x =? fst y) && (snd x =? snd y) && is_prefix a' b'
  | _ :: _, [] => false
  end.
Definition pair_mem (p : N * N) (l : list (N * N)) : bool :=
  existsb (fun q => (fst p =? fst q) && (snd p =? snd q)) l.

(* Evaluation: the value/error/panic is the log-free one; every log entry pairs an interpreter
   with a node that carries it, no entry twice *)
Fixpoint obs_pairs_inv (o : list obs) : option (list (N * N)) :=
  match o with
  | [] => Some []
  | OL [ON k; ON id] :: r => match obs_pairs_inv r with Some l => Some ((k, id) :: l) | None => None end
  | _ => None
  end.
Definition eval_oracle (evb : evaluator) (t : tree) (o : obs) : bool :=
  match o with
  | OT _ [OL lg; r] =>
    obs_eqb r (obs_eres (spec_eval (height t) evb t)) &&
    match obs_pairs_inv lg with
    | Some l => forallb (fun p => pair_mem p (rec_pairs t)) l && nodupb (map snd l) &&
                is_prefix l (demanded (height t) evb t) &&
                match spec_eval (height t) evb t with
                | EVal _ => (length l =? length (demanded (height t) evb t))%nat
                | _ => true
                end &&
                match t with
                | TNonTerm id _ (IRec k _ _) _ => match l with (k', id') :: _ => (k =? k') && (id =? id') | [] => false end
                | TNonTerm _ _ _ _ => true
                | _ => match l with [] => true | _ => false end
                end
    | None => false
    end
  | _ => false
  end.

Definition c13_oracle (c : c13_case) (o : obs) : bool :=
  if negb (wf_case c) then true else
  match c with
  | CWalk t stops =>
    if lists_nonempty t
    then obs_eqb o (obs_walk (map node_id (cut (stop_cb stops) (post t)), Ok (existsb (stop_cb stops) (post t))))
    else obs_eqb o (obs_walk (spec_walk (stop_cb stops) t))
  | CCheck t beh => obs_eqb o (obs_check t (spec_check (chk_of beh) t))
  | CTransform t beh => obs_eqb o (obs_transform (spec_transform (trf_of beh) t))
  | CEval t beh => eval_oracle (evb_of beh) t o
  end.

Definition c13_harness : harness :=
  {| H_case := c13_case; H_expected := c13_expected; H_agree := obs_eqb; H_oracle := c13_oracle |}.
