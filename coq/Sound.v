(* Sound.v — SOUNDNESS of the engine (C01, first half; C04 "Sentence means whole input"):
   every node the engine returns is the yield of a valid derivation of the grammar, and the
   yield of a valid derivation starts where the derivation starts, lies inside the file, has
   contiguous children and leaves that spell the bytes they consumed.
   Part 1: [valid_span] (pure, no engine).
   Part 2: engine soundness with the cache invariant [cache_sound] ([parse_sound], [C01_sound]).
   Part 3: Sentence ([C04_sentence_sound]).
   Part 3b: the leaves literally spell the consumed bytes ([valid_spells], [C01_sound_spells],
   [C04_sentence_spells]).
   Part 4: the same three theorems for ALL combinators (ReturnError/Name, SuppressError, Single,
   LeftTrim, RightTrim, named sequences) over an extended derivation type [xtree] defined here,
   with spans correct up to whitespace ([xvalid_span], [parse_sound_all], [C01_sound_all],
   [C04_sentence_sound_all]) and conservativity over Spec.valid ([valid_xvalid], [xvalid_valid]). *)
From Coq Require Import String List NArith Bool Arith Lia.
From Parsley Require Import Obs Base Grammar Engine TermFacts EngineFacts SetMapFacts Spec.
Import ListNotations.
Open Scope N_scope.

(* ------------------------------------------------------------------------------------- *)
(* Part 0: small facts about lists, [last], [append_node]                                 *)
(* ------------------------------------------------------------------------------------- *)

Lemma last_default {A} (l : list A) x d d' : last (x :: l) d = last (x :: l) d'.
Proof.
  revert x. induction l as [|y l IH]; intros x; [reflexivity|].
  change (last (x :: y :: l) d) with (last (y :: l) d).
  change (last (x :: y :: l) d') with (last (y :: l) d'). apply IH.
Qed.

Lemma last_cons2 {A} (x y : A) l d : last (x :: y :: l) d = last (y :: l) d.
Proof. reflexivity. Qed.

(* the converse of SetMapFacts.append_node_in_l/_r: AppendNode invents no node *)
Lemma append_nodes_in_inv l : forall acc n, In n (append_nodes acc l) -> In n acc \/ In n l.
Proof.
  induction l as [|x l IH]; intros acc n H; cbn [append_nodes] in H; [left; exact H|].
  assert (Hgen : In n (append_nodes (acc ++ [x]) l) -> In n acc \/ In n (x :: l)).
  { intros H'. apply IH in H'. destruct H' as [H'|H']; [|right; right; exact H'].
    apply in_app_or in H'. destruct H' as [H'|[H'|[]]]; [left; exact H'|right; left; exact H']. }
  destruct x; try (apply Hgen; exact H).
  destruct (has_empty pos acc); [|apply Hgen; exact H].
  apply IH in H. destruct H as [H|H]; [left; exact H|right; right; exact H].
Qed.
Lemma append_node_in_inv a b n : In n (append_node a b) -> In n a \/ In n b.
Proof.
  unfold append_node. destruct a as [|x a]; [intros H; right; exact H|]. apply append_nodes_in_inv.
Qed.

(* every element a sequence can look up is one of its operands *)
Lemma seq_lookup_in k ps d p : seq_lookup k ps d = Some p -> In p ps.
Proof. destruct k; cbn [seq_lookup]; apply nth_error_In. Qed.

Lemma wfs_in rules site ps p : wfs rules site ps -> In p ps -> wf rules site p.
Proof.
  induction ps as [|x ps IH]; intros H Hin; [destruct Hin|].
  destruct H as [Hx Hps]. destruct Hin as [E|Hin]; [subst; exact Hx | apply IH; assumption].
Qed.

(* ------------------------------------------------------------------------------------- *)
(* Part 1: the yield of a valid derivation has a well-formed span                         *)
(* ------------------------------------------------------------------------------------- *)

(* where a derivation sequence started at [pos] ends *)
Fixpoint seq_end (pos : N) (ds : list dtree) : N :=
  match ds with [] => pos | d :: t => seq_end (dend d) t end.
(* the same on nodes, as [handle_result] and [span_ok] compute it *)
Definition nodes_end (pos : N) (ns : list node) : N :=
  match ns with [] => pos | _ => node_rpos (last ns (NEmpty pos)) end.

Lemma seq_end_snoc pos ds d : seq_end pos (ds ++ [d]) = dend d.
Proof. revert pos. induction ds as [|x ds IH]; intros pos; cbn [app seq_end]; [reflexivity|apply IH]. Qed.

Lemma seq_end_nodes pos ds : seq_end pos ds = nodes_end pos (map yield ds).
Proof.
  destruct ds as [|d ds]; [reflexivity|]. unfold nodes_end. cbn [map].
  revert pos d. induction ds as [|d' ds IH]; intros pos d; [reflexivity|].
  cbn [seq_end map]. rewrite last_cons2. cbn [seq_end map] in IH. apply (IH pos d').
Qed.

Definition span_all (inp : input) : list node -> Prop :=
  fix all (l : list node) : Prop := match l with [] => True | x :: t => span_ok inp x /\ all t end.

Lemma span_ok_nonterm inp t i cs p r :
  span_ok inp (NNonTerm t i cs p r) <->
  (p <= r /\ chain p cs /\ (match cs with [] => r = p | _ => r = node_rpos (last cs (NEmpty p)) end) /\ span_all inp cs).
Proof. split; intros H; exact H. Qed.

Lemma span_all_in inp ns n : span_all inp ns -> In n ns -> span_ok inp n.
Proof.
  induction ns as [|x ns IH]; intros H Hin; [destruct Hin|]. destruct H as [Hx Hns].
  destruct Hin as [E|Hin]; [subst; exact Hx|apply IH; assumption].
Qed.

(* seqDefaultResultHandler only looks at [pos] when there is no child *)
Lemma handle_result_pos q p p' n ns : handle_result q p (n :: ns) = handle_result q p' (n :: ns).
Proof. reflexivity. Qed.

(* the node built from a contiguous, span-correct list of children is span-correct *)
Lemma handle_result_span inp q pos ns :
  chain pos ns -> span_all inp ns -> pos <= nodes_end pos ns ->
  node_pos (handle_result q pos ns) = pos /\
  node_rpos (handle_result q pos ns) = nodes_end pos ns /\
  span_ok inp (handle_result q pos ns).
Proof.
  intros Hch Hall Hle. destruct ns as [|n [|n2 ns]].
  - cbn [handle_result node_pos node_rpos nodes_end]. split; [reflexivity|]. split; [reflexivity|].
    apply span_ok_nonterm. split; [lia|]. split; [exact I|]. split; [reflexivity|exact I].
  - destruct Hch as [Hn _]. destruct Hall as [Hs _]. cbn [nodes_end last] in *.
    cbn [handle_result]. destruct (q_single q).
    + split; [exact Hn|]. split; [reflexivity|exact Hs].
    + cbn [node_pos node_rpos]. split; [exact Hn|]. split; [reflexivity|].
      apply span_ok_nonterm. split; [lia|]. split; [split; [reflexivity|exact I]|].
      split; [reflexivity|]. split; [exact Hs|exact I].
  - assert (Hn : node_pos n = pos) by (destruct Hch as [Hn _]; exact Hn).
    cbn [handle_result node_pos node_rpos]. unfold nodes_end in *.
    rewrite (last_default (n2 :: ns) n n (NEmpty pos)).
    split; [exact Hn|]. split; [reflexivity|].
    apply span_ok_nonterm. rewrite Hn. split; [exact Hle|]. split; [exact Hch|]. split; [reflexivity|exact Hall].
Qed.

Lemma byte_at_bound inp pos b : byte_at inp pos = Some b -> pos - i_offset inp < i_len inp.
Proof.
  unfold byte_at, nth_N, i_len, len_N. intros H.
  assert (Hlt : (N.to_nat (pos - i_offset inp) < length (i_data inp))%nat).
  { apply nth_error_Some. rewrite H. discriminate. }
  lia.
Qed.

(* what a terminal can return: nothing, or exactly one node and no error: TermFacts.term_parse_cases *)

Lemma term_parse_span inp t pos n :
  in_file inp pos -> term_parse inp t pos = ([n], None) ->
  node_pos n = pos /\ pos <= node_rpos n /\ in_file inp (node_rpos n) /\ span_ok inp n.
Proof.
  intros [Hlo Hhi] H. destruct t as [ch|l].
  - unfold term_parse in H.
    destruct (byte_at inp pos) as [b|] eqn:Eb; [|discriminate].
    destruct (b =? ch) eqn:E; [|discriminate]. apply N.eqb_eq in E. subst b.
    inversion H; subst n. cbn [node_pos node_rpos span_ok].
    apply byte_at_bound in Eb as Hb. unfold in_file.
    split; [reflexivity|]. split; [lia|]. split; [lia|]. split; [reflexivity|exact Eb].
  - (* a literal: a leaf from pos to a position behind it inside the file (TermFacts, no domain hypothesis) *)
    apply term_parse_lit_node in H. destruct H as (_ & tok & v & r & -> & Hv & Hle & Hhi' & _).
    unfold i_fend in Hhi'. cbn [node_pos node_rpos]. unfold in_file.
    split; [reflexivity|]. split; [exact Hle|]. split; [lia|].
    destruct v; try discriminate Hv; exact Hle.
Qed.

Combined Scheme valid_mutind from valid_ind2, valid_seq_ind2.

Section ValidSpan.
  Variable inp : input.
  Variable rules : list pexpr.

  Let Pv (e : pexpr) (pos : N) (d : dtree) : Prop :=
    in_file inp pos ->
    node_pos (yield d) = pos /\ pos <= dend d /\ in_file inp (dend d) /\ span_ok inp (yield d).
  Let Ps (k : seqkind) (ps : list pexpr) (depth : nat) (pos : N) (ds : list dtree) : Prop :=
    in_file inp pos ->
    chain pos (map yield ds) /\ pos <= seq_end pos ds /\ in_file inp (seq_end pos ds) /\ span_all inp (map yield ds).

  Lemma valid_span_mut :
    (forall e pos d, valid inp rules e pos d -> Pv e pos d) /\
    (forall k ps depth pos ds, valid_seq inp rules k ps depth pos ds -> Ps k ps depth pos ds).
  Proof.
    apply valid_mutind; unfold Pv, Ps; clear Pv Ps.
    - (* VTerm *) intros t pos n H Hin. cbn [yield]. unfold dend. cbn [yield].
      apply (term_parse_span inp t pos n Hin H).
    - (* VEmpty *) intros pos Hin. unfold dend. cbn [yield node_pos node_rpos span_ok].
      split; [reflexivity|]. split; [lia|]. split; [exact Hin|exact I].
    - (* VEnd *) intros pos _ Hin. unfold dend. cbn [yield node_pos node_rpos span_ok].
      split; [reflexivity|]. split; [lia|]. split; [exact Hin|exact I].
    - (* VRef *) intros k body pos d _ _ IH Hin. exact (IH Hin).
    - (* VMemo *) intros idx e pos d _ IH Hin. exact (IH Hin).
    - (* VAny *) intros ps i e pos d _ _ IH Hin. exact (IH Hin).
    - (* VChoice *) intros ps i e pos d _ _ IH Hin. exact (IH Hin).
    - (* VOptS *) intros e pos d _ IH Hin. exact (IH Hin).
    - (* VOptN *) intros e pos Hin. unfold dend. cbn [yield node_pos node_rpos span_ok].
      split; [reflexivity|]. split; [lia|]. split; [exact Hin|exact I].
    - (* VSeq *) intros k ip single ps pos ds _ IH _ Hin.
      destruct (IH Hin) as [Hch [Hle [Hend Hall]]]. rewrite seq_end_nodes in Hle, Hend.
      unfold dend. cbn [yield].
      destruct (handle_result_span inp {| q_kind := k; q_ip := ip; q_single := single; q_ps := ps |}
                  pos (map yield ds) Hch Hall Hle) as [H1 [H2 H3]].
      rewrite H2. split; [exact H1|]. split; [exact Hle|]. split; [exact Hend|exact H3].
    - (* VSnil *) intros k ps depth pos Hin. cbn [map chain seq_end span_all].
      split; [exact I|]. split; [lia|]. split; [exact Hin|exact I].
    - (* VScons *) intros k ps depth pos e d ds _ _ IHd _ IHs Hin.
      destruct (IHd Hin) as [H1 [H2 [H3 H4]]]. destruct (IHs H3) as [G1 [G2 [G3 G4]]].
      cbn [map chain seq_end span_all]. unfold dend in *.
      split; [split; [exact H1|exact G1]|]. split; [lia|]. split; [exact G3|]. split; [exact H4|exact G4].
  Qed.

  (* THEOREM 1 *)
  Theorem valid_span e pos d :
    in_file inp pos -> valid inp rules e pos d ->
    node_pos (yield d) = pos /\ pos <= dend d /\ in_file inp (dend d) /\ span_ok inp (yield d).
  Proof. intros Hin Hv. exact (proj1 valid_span_mut e pos d Hv Hin). Qed.

  Lemma valid_seq_span k ps depth pos ds :
    in_file inp pos -> valid_seq inp rules k ps depth pos ds ->
    chain pos (map yield ds) /\ pos <= seq_end pos ds /\ in_file inp (seq_end pos ds) /\ span_all inp (map yield ds).
  Proof. intros Hin Hv. exact (proj2 valid_span_mut k ps depth pos ds Hv Hin). Qed.

  (* a valid partial sequence can be extended at its end by a derivation of the next element *)
  Lemma valid_seq_snoc k ps ds : forall depth pos e d,
    valid_seq inp rules k ps depth pos ds ->
    seq_lookup k ps (depth + length ds) = Some e -> valid inp rules e (seq_end pos ds) d ->
    valid_seq inp rules k ps depth pos (ds ++ [d]).
  Proof.
    induction ds as [|d0 ds IH]; intros depth pos e d Hvs Hl Hv; cbn [app length seq_end] in *.
    - rewrite Nat.add_0_r in Hl. eapply VScons; [exact Hl|exact Hv|apply VSnil].
    - inversion Hvs as [|k' ps' depth' pos' e0 d0' ds' Hl0 Hv0 Hvs0]; subst.
      eapply VScons; [exact Hl0|exact Hv0|].
      apply (IH (S depth) (dend d0) e d Hvs0); [|exact Hv].
      rewrite <- Hl. f_equal. lia.
  Qed.
End ValidSpan.

(* ------------------------------------------------------------------------------------- *)
(* Part 2: engine soundness                                                               *)
(* ------------------------------------------------------------------------------------- *)

(* every node of [ns] is the yield of a valid derivation of [e] from [pos] *)
Definition sound_nodes (inp : input) (rules : list pexpr) (e : pexpr) (pos : N) (ns : list node) : Prop :=
  forall n, In n ns -> exists d, valid inp rules e pos d /\ yield d = n.

(* the cache invariant: every entry that a lookup can reach is at a position of the file and
   holds only yields of valid derivations of the Memoize site it belongs to *)
Definition cache_sound (inp : input) (rules : list pexpr) (site : N -> option pexpr) (c : ctx) : Prop :=
  forall idx pos r, cache_find (idx, pos) (cache c) = Some r ->
    in_file inp pos /\
    forall body, site idx = Some body -> sound_nodes inp rules (PMemo idx body) pos (r_nodes r).

(* all rules are in the C01 fragment *)
Definition frag_rules (rules : list pexpr) : Prop :=
  forall k body, nth_N rules k = Some body -> frag body = true.

Lemma q_eta q : q = {| q_kind := q_kind q; q_ip := q_ip q; q_single := q_single q; q_ps := q_ps q |}.
Proof. destruct q; reflexivity. Qed.

Section Sound.
  Variable inp : input.
  Variable rules : list pexpr.
  Variable site : N -> option pexpr.
  Hypothesis Hfrag : frag_rules rules.
  Hypothesis Hwf : wf_rules rules site.

  Notation snodes := (sound_nodes inp rules).
  Notation csound := (cache_sound inp rules site).

  Lemma snodes_nil e pos : snodes e pos [].
  Proof. intros n []. Qed.
  Lemma snodes_append e pos a b : snodes e pos a -> snodes e pos b -> snodes e pos (append_node a b).
  Proof. intros Ha Hb n H. apply append_node_in_inv in H. destruct H as [H|H]; [apply Ha|apply Hb]; exact H. Qed.
  Lemma snodes_lift e e' pos ns (f : dtree -> dtree) :
    (forall d, valid inp rules e pos d -> valid inp rules e' pos (f d) /\ yield (f d) = yield d) ->
    snodes e pos ns -> snodes e' pos ns.
  Proof.
    intros Hf H n Hn. destruct (H n Hn) as [d [Hv Hy]]. destruct (Hf d Hv) as [Hv' Hy'].
    exists (f d). split; [exact Hv'|]. rewrite Hy'. exact Hy.
  Qed.

  Lemma csound_save c idx pos body r :
    csound c -> in_file inp pos -> site idx = Some body -> snodes (PMemo idx body) pos (r_nodes r) ->
    csound (cache_save c idx pos r).
  Proof.
    intros Hc Hin Hs Hr idx' pos' r' H. unfold cache_save in H. cbn [cache cache_find fst snd] in H.
    destruct ((idx' =? idx) && (pos' =? pos)) eqn:E.
    - apply andb_true_iff in E. destruct E as [E1 E2]. apply N.eqb_eq in E1, E2. subst idx' pos'.
      inversion H; subst r'. split; [exact Hin|]. intros body' Hb. rewrite Hs in Hb. inversion Hb; subst body'. exact Hr.
    - exact (Hc idx' pos' r' H).
  Qed.
  Lemma csound_get c idx pos lrc r body :
    csound c -> cache_get c idx pos lrc = Some r -> site idx = Some body -> snodes (PMemo idx body) pos (r_nodes r).
  Proof.
    intros Hc H Hs. unfold cache_get in H.
    destruct (cache_find (idx, pos) (cache c)) as [r0|] eqn:E; [|discriminate].
    destruct (reusable (r_lrc r0) lrc); [|discriminate]. inversion H; subst r0.
    destruct (Hc idx pos r E) as [_ Hr]. exact (Hr body Hs).
  Qed.

  (* the property of the recursive calls *)
  Definition psound (rp : ptype) : Prop :=
    forall e c stk lrc pos ns cp err c',
      frag e = true -> wf rules site e -> csound c -> in_file inp pos ->
      rp e c stk lrc pos = Ok (ns, cp, err, c') ->
      csound c' /\ snodes e pos ns.

  (* every completed result of a sequence is the yield of a derivation of the whole sequence *)
  Definition seq_sound (q : seqinfo) (pos0 : N) (ns : list node) : Prop :=
    forall n, In n ns -> exists ds,
      valid_seq inp rules (q_kind q) (q_ps q) 0%nat pos0 ds /\
      seq_lencheck (q_kind q) (length (q_ps q)) (length ds) = true /\
      n = handle_result q pos0 (map yield ds).

  (* the sequence invariant: the scratch prefix is (the yields of) a valid partial derivation
     sequence [ds] from the sequence's start [pos0] to the current position, [depth] is its
     length, and the results collected so far are sound *)
  Definition ssound (rs : stype) : Prop :=
    forall q d c stk lrc pos m st stop st' c' pos0 ds,
      forallb frag (q_ps q) = true -> wfs rules site (q_ps q) ->
      csound c -> in_file inp pos0 ->
      valid_seq inp rules (q_kind q) (q_ps q) 0%nat pos0 ds ->
      rev (s_nodes st) = map yield ds -> length ds = d -> pos = seq_end pos0 ds ->
      seq_sound q pos0 (s_res st) ->
      rs q d c stk lrc pos m st = Ok (stop, st', c') ->
      csound c' /\ seq_sound q pos0 (s_res st').

  Lemma seq_sound_snodes k ip single ps pos0 ns :
    seq_sound {| q_kind := k; q_ip := ip; q_single := single; q_ps := ps |} pos0 ns ->
    snodes (PSeq k ip single None ps) pos0 ns.
  Proof.
    intros H n Hn. destruct (H n Hn) as [ds [Hvs [Hlen Hy]]]. cbn [q_kind q_ps] in *.
    exists (DSeq {| q_kind := k; q_ip := ip; q_single := single; q_ps := ps |} pos0 ds).
    split; [apply VSeq; assumption|]. cbn [yield]. symmetry. exact Hy.
  Qed.

  Section Step.
    Variable rp : ptype.
    Variable rs : stype.
    Hypothesis Hp : psound rp.
    Hypothesis Hs : ssound rs.

    Lemma any_loop_sound all stk lrc pos ps : forall c cp res err nf ns cp' err' c',
      (forall p, In p ps -> In p all /\ frag p = true /\ wf rules site p) ->
      csound c -> in_file inp pos -> snodes (PAny all) pos res ->
      any_loop rp stk lrc pos ps c cp res err nf = Ok (ns, cp', err', c') ->
      csound c' /\ snodes (PAny all) pos ns.
    Proof.
      induction ps as [|p ps IH]; intros c cp res err nf ns cp' err' c' Hps Hc Hin Hres H; cbn [any_loop] in H.
      - destruct res; inversion H; subst; (split; [exact Hc|]); [apply snodes_nil|exact Hres].
      - apply bind_ok in H. destruct H as [[[[res2 cp2] err2] c2] [H1 H2]].
        destruct (Hps p (or_introl eq_refl)) as [Hpin [Hpf Hpw]].
        destruct (Hp p (reg_call c) stk lrc pos res2 cp2 err2 c2 Hpf Hpw Hc Hin H1) as [Hc2 Hres2].
        destruct (alt_err pos err nf err2) as [err1 nf1].
        apply (IH c2 (set_union cp cp2) (append_node res res2) err1 nf1 ns cp' err' c'); try assumption.
        + intros p' Hp'. apply Hps. right; exact Hp'.
        + apply snodes_append; [exact Hres|].
          destruct (In_nth_error all p Hpin) as [i Hi].
          apply (snodes_lift p (PAny all) pos res2 (DAlt i)); [|exact Hres2].
          intros d Hv. split; [eapply VAny; eassumption|reflexivity].
    Qed.

    Lemma choice_loop_sound all stk lrc pos ps : forall c cp err nf ns cp' err' c',
      (forall p, In p ps -> In p all /\ frag p = true /\ wf rules site p) ->
      csound c -> in_file inp pos ->
      choice_loop rp stk lrc pos ps c cp err nf = Ok (ns, cp', err', c') ->
      csound c' /\ snodes (PChoice all) pos ns.
    Proof.
      induction ps as [|p ps IH]; intros c cp err nf ns cp' err' c' Hps Hc Hin H; cbn [choice_loop] in H.
      - inversion H; subst. split; [exact Hc|apply snodes_nil].
      - apply bind_ok in H. destruct H as [[[[res2 cp2] err2] c2] [H1 H2]].
        destruct (Hps p (or_introl eq_refl)) as [Hpin [Hpf Hpw]].
        destruct (Hp p (reg_call c) stk lrc pos res2 cp2 err2 c2 Hpf Hpw Hc Hin H1) as [Hc2 Hres2].
        destruct (alt_err pos err nf err2) as [err1 nf1].
        destruct res2 as [|n2 res2].
        + apply (IH c2 (set_union cp cp2) err1 nf1 ns cp' err' c'); try assumption.
          intros p' Hp'. apply Hps. right; exact Hp'.
        + inversion H2; subst. split; [exact Hc2|].
          destruct (In_nth_error all p Hpin) as [i Hi].
          apply (snodes_lift p (PChoice all) pos (n2 :: res2) (DAlt i)); [|exact Hres2].
          intros d Hv. split; [eapply VChoice; eassumption|reflexivity].
    Qed.

    Lemma all_ps ps : forallb frag ps = true -> wfs rules site ps ->
      forall p, In p ps -> In p ps /\ frag p = true /\ wf rules site p.
    Proof.
      intros Hf Hw p Hin. split; [exact Hin|]. split; [|exact (wfs_in rules site ps p Hw Hin)].
      rewrite forallb_forall in Hf. exact (Hf p Hin).
    Qed.

    Lemma parse_step_sound : psound (parse_step inp rules rp rs).
    Proof.
      intros e c stk lrc pos ns cp err c' Hf Hw Hc Hin H.
      destruct e; cbn [frag] in Hf; try discriminate; cbn [parse_step] in H.
      - (* PTerm *)
        destruct (term_parse inp t pos) as [res terr] eqn:E. inversion H; subst.
        split; [destruct ns; [destruct err|]; exact Hc|].
        destruct (term_parse_cases inp t pos ns err E) as [E1|[n [E1 E2]]]; subst; [apply snodes_nil|].
        intros n' [E'|[]]. subst n'. exists (DTerm n). split; [apply VTerm; exact E|reflexivity].
      - (* PEmpty *) inversion H; subst. split; [exact Hc|].
        intros n [E|[]]. subst n. exists (DEmpty pos). split; [apply VEmpty|reflexivity].
      - (* PEnd *) destruct (is_eof inp pos) eqn:E; inversion H; subst; (split; [exact Hc|]); [|apply snodes_nil].
        intros n [E'|[]]. subst n. exists (DEnd pos). split; [apply VEnd; exact E|reflexivity].
      - (* PRef *) destruct (nth_N rules k) as [body|] eqn:E; [|discriminate].
        destruct (Hp body c stk lrc pos ns cp err c' (Hfrag k body E) (Hwf k body E) Hc Hin H) as [Hc' Hn].
        split; [exact Hc'|]. apply (snodes_lift body (PRef k) pos ns (DRef k)); [|exact Hn].
        intros d Hv. split; [eapply VRef; eassumption|reflexivity].
      - (* PMemo *) destruct Hw as [Hsite Hw].
        destruct (cache_get c idx pos lrc) as [r|] eqn:E.
        + inversion H; subst. split; [exact Hc|]. eapply csound_get; eassumption.
        + destruct (remaining inp pos + 1 <? map_get idx lrc).
          * inversion H; subst. split; [exact Hc|apply snodes_nil].
          * apply bind_ok in H. destruct H as [[[[nodes cp0] err0] c0] [H1 H2]]. inversion H2; subst.
            destruct (Hp e (log_body c idx pos (1 + count_active idx pos stk)) ((idx, pos) :: stk) (map_inc idx lrc) pos
                         ns cp err c0 Hf Hw Hc Hin H1) as [Hc0 Hn].
            assert (Hm : snodes (PMemo idx e) pos ns).
            { apply (snodes_lift e (PMemo idx e) pos ns (DMemo idx)); [|exact Hn].
              intros d Hv. split; [apply VMemo; exact Hv|reflexivity]. }
            split; [|exact Hm]. apply (csound_save c0 idx pos e); assumption.
      - (* PAny *)
        apply (any_loop_sound ps stk lrc pos ps c [] [] None None ns cp err c'); try assumption.
        + apply all_ps; assumption.
        + apply snodes_nil.
      - (* PChoice *)
        apply (choice_loop_sound ps stk lrc pos ps c [] None None ns cp err c'); try assumption.
        apply all_ps; assumption.
      - (* POpt *)
        apply bind_ok in H. destruct H as [[[[res cp0] err0] c0] [H1 H2]]. inversion H2; subst.
        destruct (Hp e c stk lrc pos res cp err c' Hf Hw Hc Hin H1) as [Hc' Hn]. split; [exact Hc'|].
        apply snodes_append.
        + apply (snodes_lift e (POpt e) pos res DOptS); [|exact Hn].
          intros d Hv. split; [apply VOptS; exact Hv|reflexivity].
        + intros n [E|[]]. subst n. exists (DOptN pos). split; [apply VOptN|reflexivity].
      - (* PSeq *) destruct name as [nm|]; [discriminate|].
        apply bind_ok in H. destruct H as [[[stop st] c0] [H1 H2]].
        assert (Hq : csound c0 /\ seq_sound {| q_kind := k; q_ip := ip; q_single := single; q_ps := ps |} pos (s_res st)).
        { apply (Hs _ 0%nat c stk lrc pos true {| s_cp := []; s_res := []; s_err := None; s_nodes := [] |}
                    stop st c0 pos []); cbn [q_kind q_ps s_nodes s_res]; try assumption; try reflexivity.
          - apply VSnil.
          - intros n []. }
        destruct Hq as [Hc0 Hq]. apply seq_sound_snodes in Hq.
        destruct (s_res st) eqn:E; inversion H2; subst; (split; [exact Hc0|]); [apply snodes_nil|exact Hq].
    Qed.

    Lemma alts_loop_sound q d stk lrc pos m prefix pos0 ds p ns : forall st c stop st' c',
      forallb frag (q_ps q) = true -> wfs rules site (q_ps q) -> in_file inp pos0 ->
      valid_seq inp rules (q_kind q) (q_ps q) 0%nat pos0 ds ->
      rev prefix = map yield ds -> length ds = d -> pos = seq_end pos0 ds ->
      seq_lookup (q_kind q) (q_ps q) d = Some p -> snodes p pos ns ->
      csound c -> seq_sound q pos0 (s_res st) ->
      alts_loop rs q d stk lrc pos m prefix ns st c = Ok (stop, st', c') ->
      csound c' /\ seq_sound q pos0 (s_res st').
    Proof.
      induction ns as [|n ns IH]; intros st c stop st' c' Hf Hw Hin0 Hvs Hrev Hlen Hpos Hl Hns Hc Hres H;
        cbn [alts_loop] in H.
      - inversion H; subst. split; assumption.
      - apply bind_ok in H. destruct H as [[[stop1 st1] c1] [H1 H2]].
        destruct (Hns n (or_introl eq_refl)) as [dn [Hvn Hyn]].
        assert (Hstep : csound c1 /\ seq_sound q pos0 (s_res st1)).
        { apply (Hs q (S d) c stk (if pos <? node_rpos n then [] else lrc) (node_rpos n)
                    (if pos <? node_rpos n then false else m)
                    {| s_cp := s_cp st; s_res := s_res st; s_err := s_err st; s_nodes := n :: prefix |}
                    stop1 st1 c1 pos0 (ds ++ [dn])); try assumption.
          - apply (valid_seq_snoc inp rules (q_kind q) (q_ps q) ds 0%nat pos0 p dn Hvs);
              [|rewrite <- Hpos; exact Hvn].
            cbn [plus]. rewrite Hlen. exact Hl.
          - cbn [s_nodes rev]. rewrite map_app, Hrev. cbn [map]. rewrite Hyn. reflexivity.
          - rewrite app_length. cbn [length]. lia.
          - rewrite seq_end_snoc. unfold dend. rewrite Hyn. reflexivity. }
        destruct Hstep as [Hc1 Hres1].
        destruct stop1; [inversion H2; subst; split; assumption|].
        apply (IH st1 c1 stop st' c'); try assumption.
        intros n' Hn'. apply Hns. right; exact Hn'.
    Qed.

    Lemma seq_step_sound : ssound (seq_step rp rs).
    Proof.
      intros q d c stk lrc pos m st stop st' c' pos0 ds Hf Hw Hc Hin0 Hvs Hrev Hlen Hpos Hres H.
      unfold seq_step in H. apply bind_ok in H. destruct H as [[[[res cp] err] c1] [H1 H2]].
      assert (Hin : in_file inp pos).
      { subst pos. destruct (valid_seq_span inp rules _ _ _ _ _ Hin0 Hvs) as [_ [_ [G _]]]. exact G. }
      destruct res as [|n res].
      - (* the element found nothing (or there is no further element): emission test *)
        assert (Hc1 : csound c1).
        { destruct (seq_lookup (q_kind q) (q_ps q) d) as [p|] eqn:El.
          - destruct (all_ps (q_ps q) Hf Hw p (seq_lookup_in _ _ _ _ El)) as [_ [Hpf Hpw]].
            destruct (Hp p (reg_call c) stk lrc pos [] cp err c1 Hpf Hpw Hc Hin H1) as [G _]. exact G.
          - inversion H1; subst. exact Hc. }
        cbn [s_nodes s_res s_cp s_err] in H2.
        destruct (seq_lencheck (q_kind q) (length (q_ps q)) d) eqn:Elen.
        + assert (Hst : csound c1 /\ seq_sound q pos0 (append_node (s_res st) [handle_result q pos (rev (s_nodes st))])).
          { split; [exact Hc1|]. intros n Hn. apply append_node_in_inv in Hn. destruct Hn as [Hn|[Hn|[]]]; [apply Hres; exact Hn|].
            exists ds. split; [exact Hvs|]. split; [rewrite Hlen; exact Elen|].
            subst n. rewrite Hrev. destruct ds as [|d0 ds]; [cbn [seq_end] in Hpos; subst pos; reflexivity|].
            cbn [map]. apply handle_result_pos. }
          destruct (s_nodes st) as [|lastn pre]; inversion H2; subst; cbn [s_res]; exact Hst.
        + inversion H2; subst. cbn [s_res]. split; assumption.
      - destruct (seq_lookup (q_kind q) (q_ps q) d) as [p|] eqn:El; [|inversion H1].
        destruct (all_ps (q_ps q) Hf Hw p (seq_lookup_in _ _ _ _ El)) as [_ [Hpf Hpw]].
        destruct (Hp p (reg_call c) stk lrc pos (n :: res) cp err c1 Hpf Hpw Hc Hin H1) as [Hc1 Hn].
        refine (alts_loop_sound q d stk lrc pos m _ pos0 ds p (n :: res) _ c1 stop st' c' Hf Hw Hin0 Hvs _ Hlen Hpos El Hn Hc1 _ H2);
          cbn [s_nodes s_res]; assumption.
    Qed.
  End Step.

  (* THEOREM 2 (engine soundness, with the cache invariant) *)
  Theorem sound_inv : forall f, psound (parse inp rules f) /\ ssound (seqp inp rules f).
  Proof.
    induction f as [|f [IHp IHs]].
    - split; intros until c'; intros; discriminate.
    - split.
      + intros e c stk lrc pos. rewrite parse_S. apply parse_step_sound; assumption.
      + intros q d c stk lrc pos m st. rewrite seqp_S. apply seq_step_sound; assumption.
  Qed.

  Theorem parse_sound fuel e c stk lrc pos ns cp err c' :
    frag e = true -> wf rules site e -> cache_sound inp rules site c -> in_file inp pos ->
    parse inp rules fuel e c stk lrc pos = Ok (ns, cp, err, c') ->
    cache_sound inp rules site c' /\
    forall n, In n ns -> exists d, valid inp rules e pos d /\ yield d = n.
  Proof. intros Hf Hw Hc Hin H. exact (proj1 (sound_inv fuel) e c stk lrc pos ns cp err c' Hf Hw Hc Hin H). Qed.

  Lemma csound_ctx0 : csound ctx0.
  Proof. intros idx pos r H. discriminate. Qed.
  Lemma in_file_offset : in_file inp (i_offset inp).
  Proof. unfold in_file. split; lia. Qed.

  Theorem C01_sound fuel root ns cp err c :
    frag root = true -> wf rules site root ->
    run inp rules fuel root = Ok (ns, cp, err, c) ->
    cache_sound inp rules site c /\
    forall n, In n ns ->
      (exists d, valid inp rules root (i_offset inp) d /\ yield d = n) /\
      node_pos n = i_offset inp /\ i_offset inp <= node_rpos n /\ in_file inp (node_rpos n) /\ span_ok inp n.
  Proof.
    intros Hf Hw H. unfold run in H.
    destruct (parse_sound fuel root ctx0 [] [] (i_offset inp) ns cp err c Hf Hw csound_ctx0 in_file_offset H) as [Hc Hn].
    split; [exact Hc|]. intros n Hin. destruct (Hn n Hin) as [d [Hv Hy]].
    split; [exists d; split; assumption|].
    destruct (valid_span inp rules root (i_offset inp) d in_file_offset Hv) as [H1 [H2 [H3 H4]]].
    unfold dend in *. rewrite Hy in *. split; [exact H1|]. split; [exact H2|]. split; [exact H3|exact H4].
  Qed.
End Sound.

(* non-vacuity of [C01_sound]: the left-recursive grammar P -> P b | a on "abb" at offset 1 *)
Definition ex_body : pexpr := PAny [PSeq SeqOf INone false None [PRef 0; PTerm (TRune 98)]; PTerm (TRune 97)].
Definition ex_rules : list pexpr := [PMemo 1 ex_body].
Definition ex_site (i : N) : option pexpr := if i =? 1 then Some ex_body else None.
Definition ex_inp : input := (mk_input [97; 98; 98] 1).
Definition ex_ab : node := NNonTerm [83; 69; 81] INone [NTerm [97] (VRune 97) 1 2; NTerm [98] (VRune 98) 2 3] 1 3.
Definition ex_ns : list node :=
  [NNonTerm [83; 69; 81] INone [ex_ab; NTerm [98] (VRune 98) 3 4] 1 4; ex_ab; NTerm [97] (VRune 97) 1 2].

Lemma ex_frag_rules : frag_rules ex_rules.
Proof.
  intros k body H. unfold nth_N, ex_rules in H. destruct (N.to_nat k) as [|[|n]]; cbn [nth_error] in H; try discriminate.
  inversion H; subst. reflexivity.
Qed.
Lemma ex_wf_rules : wf_rules ex_rules ex_site.
Proof.
  intros k body H. unfold nth_N, ex_rules in H. destruct (N.to_nat k) as [|[|n]]; cbn [nth_error] in H; try discriminate.
  inversion H; subst. cbn. split; [reflexivity|]. split; [|tauto]. split; [reflexivity|tauto].
Qed.
Lemma ex_wf_root : wf ex_rules ex_site (PRef 0).
Proof. cbn. reflexivity. Qed.
Lemma ex_run : exists cp err c, run ex_inp ex_rules 100 (PRef 0) = Ok (ex_ns, cp, err, c).
Proof. vm_compute. eexists _, _, _. reflexivity. Qed.

Example C01_sound_example :
  (exists cp err c, run ex_inp ex_rules 100 (PRef 0) = Ok (ex_ns, cp, err, c)) /\
  forall n, In n ex_ns ->
    (exists d, valid ex_inp ex_rules (PRef 0) 1 d /\ yield d = n) /\
    node_pos n = 1 /\ 1 <= node_rpos n /\ in_file ex_inp (node_rpos n) /\ span_ok ex_inp n.
Proof.
  split; [exact ex_run|]. destruct ex_run as [cp [err [c H]]].
  exact (proj2 (C01_sound ex_inp ex_rules ex_site ex_frag_rules ex_wf_rules 100 (PRef 0) ex_ns cp err c
                  eq_refl ex_wf_root H)).
Qed.

(* the hypothesis [wf] (one Memoize site per index) is needed: when two Memoize wrappers share an
   index, a cache entry stored by one is returned by the other, and the engine returns a node
   for an input the grammar does not derive (the language here is {"ax", "b"}; the input is "a") *)
Definition bad_root : pexpr :=
  PChoice [PSeq SeqOf INone false None [PMemo 1 (PTerm (TRune 97)); PTerm (TRune 120)]; PMemo 1 (PTerm (TRune 98))].
Definition bad_inp : input := (mk_input [97] 1).
Example wf_needed :
  (exists cp err c, run bad_inp [] 20 bad_root = Ok ([NTerm [97] (VRune 97) 1 2], cp, err, c)) /\
  ~ exists d, valid bad_inp [] bad_root 1 d.
Proof.
  split; [vm_compute; eexists _, _, _; reflexivity|].
  intros [d Hv]. unfold bad_root in Hv.
  inversion Hv as [| | | | | |ps i e pos d' Hn Hve| | |]; subst.
  destruct i as [|[|i]]; cbn [nth_error] in Hn.
  - inversion Hn; subst e. clear Hn.
    inversion Hve as [| | | | | | | | |k ip single ps pos' ds Hvs Hlen]; subst.
    cbn [seq_lencheck length] in Hlen. apply Nat.eqb_eq in Hlen.
    destruct ds as [|d1 [|d2 [|d3 ds]]]; try discriminate.
    inversion Hvs as [|k ps depth pos' e1 d1' ds' Hl1 Hv1 Hvs1]; subst.
    cbn [seq_lookup nth_error] in Hl1. inversion Hl1; subst e1.
    inversion Hvs1 as [|k ps depth pos' e2 d2' ds' Hl2 Hv2 Hvs2]; subst.
    cbn [seq_lookup nth_error] in Hl2. inversion Hl2; subst e2.
    inversion Hv1 as [| | | |idx e' pos' dm Hvm| | | | |]; subst.
    inversion Hvm as [t pos' n Ht| | | | | | | | |]; subst.
    vm_compute in Ht. inversion Ht; subst n.
    inversion Hv2 as [t pos' n Ht2| | | | | | | | |]; subst.
    vm_compute in Ht2. discriminate.
  - inversion Hn; subst e. clear Hn.
    inversion Hve as [| | | |idx e' pos' dm Hvm| | | | |]; subst.
    inversion Hvm as [t pos' n Ht| | | | | | | | |]; subst.
    vm_compute in Ht. discriminate.
  - destruct i; discriminate.
Qed.

(* ------------------------------------------------------------------------------------- *)
(* Part 3: Sentence                                                                       *)
(* ------------------------------------------------------------------------------------- *)

Section Sentence.
  Variable inp : input.
  Variable rules : list pexpr.

  Definition sq (root : pexpr) : seqinfo :=
    {| q_kind := SeqOf; q_ip := ISelect 0; q_single := false; q_ps := [root; PEnd] |}.

  (* parser.End returns nothing or the one EOF node *)
  Definition pend (rp : ptype) : Prop :=
    forall c stk lrc pos ns cp err c', rp PEnd c stk lrc pos = Ok (ns, cp, err, c') -> ns = [] \/ ns = [NEnd pos].

  Definition one_more (stop : bool) (st st' : seqst) : Prop :=
    (stop = false /\ s_res st' = s_res st) \/ (stop = true /\ exists nd, s_res st' = append_node (s_res st) [nd]).

  (* the early exit: a Sentence's search either adds nothing and goes on, or adds exactly one
     result and stops everything *)
  Definition sone (root : pexpr) (rs : stype) : Prop :=
    forall d c stk lrc pos m st stop st' c',
      (d <= 2)%nat -> (d = 2%nat -> exists p l, s_nodes st = NEnd p :: l) ->
      rs (sq root) d c stk lrc pos m st = Ok (stop, st', c') -> one_more stop st st'.

  Section Step.
    Variable root : pexpr.
    Variable rp : ptype.
    Variable rs : stype.
    Hypothesis Hp : pend rp.
    Hypothesis Hs : sone root rs.

    Lemma parse_step_pend : pend (parse_step inp rules rp rs).
    Proof.
      intros c stk lrc pos ns cp err c' H. cbn [parse_step] in H.
      destruct (is_eof inp pos); inversion H; subst; [right|left]; reflexivity.
    Qed.

    Lemma alts_loop_one d stk lrc pos m prefix ns : forall st c stop st' c',
      (d < 2)%nat -> (d = 1%nat -> forall n, In n ns -> exists p, n = NEnd p) ->
      alts_loop rs (sq root) d stk lrc pos m prefix ns st c = Ok (stop, st', c') -> one_more stop st st'.
    Proof.
      induction ns as [|n ns IH]; intros st c stop st' c' Hd Hn H; cbn [alts_loop] in H.
      - inversion H; subst. left. split; reflexivity.
      - apply bind_ok in H. destruct H as [[[stop1 st1] c1] [H1 H2]].
        assert (H3 : one_more stop1 {| s_cp := s_cp st; s_res := s_res st; s_err := s_err st; s_nodes := n :: prefix |} st1).
        { refine (Hs (S d) c stk _ _ _ _ stop1 st1 c1 _ _ H1); [lia|].
          intros Ed. destruct (Hn ltac:(lia) n (or_introl eq_refl)) as [p Ep]. subst n.
          exists p, prefix. reflexivity. }
        destruct H3 as [[E1 E2]|[E1 [nd E2]]]; cbn [s_res] in E2; subst stop1.
        + apply IH in H2; [|exact Hd|intros Ed n' Hn'; apply (Hn Ed); right; exact Hn'].
          destruct H2 as [[G1 G2]|[G1 [nd G2]]]; [left|right]; (split; [exact G1|]).
          * rewrite G2. exact E2.
          * exists nd. rewrite G2, E2. reflexivity.
        + inversion H2; subst. right. split; [reflexivity|]. exists nd. exact E2.
    Qed.

    Lemma seq_step_one : sone root (seq_step rp rs).
    Proof.
      intros d c stk lrc pos m st stop st' c' Hd Hhd H. unfold seq_step in H.
      apply bind_ok in H. destruct H as [[[[res cp] err] c1] [H1 H2]].
      destruct d as [|[|[|d]]]; [| | |lia]; cbn [sq q_kind q_ps seq_lookup nth_error length seq_lencheck Nat.eqb] in H1, H2.
      - (* depth 0: the root *)
        destruct res as [|n res].
        + inversion H2; subst. left. split; reflexivity.
        + apply alts_loop_one in H2; [|lia|intros Ed; discriminate]. exact H2.
      - (* depth 1: End *)
        apply Hp in H1. destruct H1 as [E|E]; subst res.
        + inversion H2; subst. left. split; reflexivity.
        + apply alts_loop_one in H2; [exact H2|lia|].
          intros _ n [En|[]]. exists pos. symmetry; exact En.
      - (* depth 2: past the end of the element list; the last node is the EOF node *)
        inversion H1; subst. destruct (Hhd eq_refl) as [p [l E]].
        cbn [s_nodes] in H2. rewrite E in H2. inversion H2; subst. right. split; [reflexivity|].
        cbn [s_res]. eexists. reflexivity.
    Qed.
  End Step.

  Lemma sentence_inv root : forall f, pend (parse inp rules f) /\ sone root (seqp inp rules f).
  Proof.
    induction f as [|f [IHp IHs]].
    - split; intros until c'; intros; discriminate.
    - split.
      + intros c stk lrc pos. rewrite parse_S. apply parse_step_pend.
      + intros d c stk lrc pos m st. rewrite seqp_S. apply seq_step_one; assumption.
  Qed.

  (* a Sentence returns at most one node *)
  Lemma sentence_single fuel root c stk lrc pos ns cp err c' :
    parse inp rules fuel (sentence root) c stk lrc pos = Ok (ns, cp, err, c') -> ns = [] \/ exists n, ns = [n].
  Proof.
    destruct fuel as [|f]; [discriminate|]. rewrite parse_S. unfold sentence. cbn [parse_step]. intros H.
    apply bind_ok in H. destruct H as [[[stop st] c0] [H1 H2]].
    destruct (proj2 (sentence_inv root f) 0%nat c stk lrc pos true _ stop st c0 ltac:(lia) ltac:(discriminate) H1)
      as [[_ E]|[_ [nd E]]]; cbn [s_res append_node] in E; rewrite E in H2; inversion H2; subst.
    - left; reflexivity.
    - right. exists nd. reflexivity.
  Qed.

  (* a derivation of Sentence(root) is a derivation of root that ends at end of input, plus the EOF node *)
  Lemma valid_sentence_inv root pos d :
    valid inp rules (sentence root) pos d ->
    exists d1, valid inp rules root pos d1 /\ is_eof inp (dend d1) = true /\
      yield d = NNonTerm (seq_token SeqOf) (ISelect 0) [yield d1; NEnd (dend d1)] (node_pos (yield d1)) (dend d1).
  Proof.
    unfold sentence. intros Hv.
    inversion Hv as [| | | | | | | | |k ip single ps pos' ds Hvs Hlen]; subst.
    cbn [seq_lencheck length] in Hlen. apply Nat.eqb_eq in Hlen.
    destruct ds as [|d1 [|d2 [|d3 ds]]]; try discriminate.
    inversion Hvs as [|k ps depth pos' e1 d1' ds' Hl1 Hv1 Hvs1]; subst.
    cbn [seq_lookup nth_error] in Hl1. inversion Hl1; subst e1.
    inversion Hvs1 as [|k ps depth pos' e2 d2' ds' Hl2 Hv2 Hvs2]; subst.
    cbn [seq_lookup nth_error] in Hl2. inversion Hl2; subst e2.
    inversion Hv2; subst.
    exists d1. split; [exact Hv1|]. split; [assumption|]. reflexivity.
  Qed.

  Variable site : N -> option pexpr.
  Hypothesis Hfrag : frag_rules rules.
  Hypothesis Hwf : wf_rules rules site.

  (* THEOREM 3 *)
  Theorem C04_sentence_sound fuel root ns c :
    frag root = true -> wf rules site root ->
    parse_top inp rules fuel (sentence root) = Ok (TopNode ns c) ->
    exists n, ns = [n] /\
      node_pos n = i_offset inp /\ node_rpos n = i_offset inp + i_len inp /\ span_ok inp n /\
      exists d, valid inp rules root (i_offset inp) d /\ dend d = i_offset inp + i_len inp /\
        n = NNonTerm (seq_token SeqOf) (ISelect 0) [yield d; NEnd (i_offset inp + i_len inp)]
                     (i_offset inp) (i_offset inp + i_len inp).
  Proof.
    intros Hf Hw H. unfold parse_top in H. apply bind_ok in H.
    destruct H as [[[[nodes cp] err] c0] [H1 H2]].
    assert (E : nodes = ns /\ nodes <> []).
    { destruct nodes as [|n0 nodes]; destruct err as [e|]; cbn zeta beta iota in H2.
      - discriminate.
      - destruct (cerr c0); discriminate.
      - discriminate.
      - inversion H2; subst. split; [reflexivity|discriminate]. }
    destruct E as [E Hne]. subst nodes. clear H2.
    assert (Hfs : frag (sentence root) = true) by (cbn [sentence frag forallb]; rewrite Hf; reflexivity).
    assert (Hws : wf rules site (sentence root)) by (cbn; tauto).
    destruct (C01_sound inp rules site Hfrag Hwf fuel (sentence root) ns cp err c0 Hfs Hws H1) as [_ Hn].
    unfold run in H1. apply sentence_single in H1. destruct H1 as [E|[n E]]; [contradiction|].
    subst ns. exists n. split; [reflexivity|].
    destruct (Hn n (or_introl eq_refl)) as [[d [Hv Hy]] [G1 [G2 [G3 G4]]]].
    destruct (valid_sentence_inv root (i_offset inp) d Hv) as [d1 [Hv1 [Heof Hyd]]].
    rewrite Hy in Hyd.
    destruct (valid_span inp rules root (i_offset inp) d1 (in_file_offset inp) Hv1) as [K1 [K2 [[K3 K4] K5]]].
    assert (Hend : dend d1 = i_offset inp + i_len inp).
    { unfold is_eof in Heof. apply N.leb_le in Heof. lia. }
    split; [exact G1|]. split; [rewrite Hyd; cbn [node_rpos]; exact Hend|]. split; [exact G4|].
    exists d1. split; [exact Hv1|]. split; [exact Hend|]. rewrite Hyd, K1, Hend. reflexivity.
  Qed.
End Sentence.

(* non-vacuity of [C04_sentence_sound]: the same grammar under Sentence *)
Example C04_sentence_sound_example :
  exists c, parse_top ex_inp ex_rules 100 (sentence (PRef 0)) =
            Ok (TopNode [NNonTerm [83; 69; 81] (ISelect 0)
                           [NNonTerm [83; 69; 81] INone [ex_ab; NTerm [98] (VRune 98) 3 4] 1 4; NEnd 4] 1 4] c).
Proof. vm_compute. eexists. reflexivity. Qed.

(* ------------------------------------------------------------------------------------- *)
(* Part 3b: "the leaves spell the consumed input", literally                              *)
(* ------------------------------------------------------------------------------------- *)

(* the bytes of the file between two global positions *)
Definition slice (inp : input) (a b : N) : list N :=
  firstn (N.to_nat (b - a)) (skipn (N.to_nat (a - i_offset inp)) (i_data inp)).
(* the bytes of the leaves of a node, left to right: a rune leaf contributes the byte it carries, a
   literal leaf (Integer, String, ...) its lexeme, i.e. the bytes of the file it spans *)
Fixpoint leaves (inp : input) (n : node) : list N :=
  match n with
  | NTerm _ (VRune c) _ _ => [c]
  | NTerm _ _ p r => slice inp p r
  | NEmpty _ | NEnd _ => []
  | NNonTerm _ _ cs _ _ => (fix go (l : list node) : list N := match l with [] => [] | x :: t => leaves inp x ++ go t end) cs
  end.
Definition leaves_all (inp : input) : list node -> list N :=
  fix go (l : list node) : list N := match l with [] => [] | x :: t => leaves inp x ++ go t end.

Lemma slice_nil inp a : slice inp a a = [].
Proof. unfold slice. rewrite N.sub_diag. reflexivity. Qed.

Lemma firstn_add {A} (l : list A) : forall n m, firstn (n + m) l = firstn n l ++ firstn m (skipn n l).
Proof.
  induction l as [|x l IH]; intros n m.
  - rewrite skipn_nil, !firstn_nil. reflexivity.
  - destruct n as [|n]; [reflexivity|]. cbn [plus firstn skipn app]. f_equal. apply IH.
Qed.
Lemma skipn_add {A} (l : list A) : forall n m, skipn m (skipn n l) = skipn (n + m) l.
Proof.
  induction l as [|x l IH]; intros n m.
  - rewrite !skipn_nil. reflexivity.
  - destruct n as [|n]; [reflexivity|]. cbn [plus skipn]. apply IH.
Qed.

Lemma slice_app inp a b c : i_offset inp <= a -> a <= b -> b <= c -> slice inp a b ++ slice inp b c = slice inp a c.
Proof.
  intros H1 H2 H3. unfold slice.
  replace (N.to_nat (c - a)) with (N.to_nat (b - a) + N.to_nat (c - b))%nat by lia.
  rewrite firstn_add, skipn_add. do 3 f_equal. lia.
Qed.

Lemma slice_one inp a c : i_offset inp <= a -> byte_at inp a = Some c -> slice inp a (a + 1) = [c].
Proof.
  intros H1 H2. unfold slice, byte_at, nth_N in *.
  replace (N.to_nat (a + 1 - a)) with 1%nat by lia.
  revert H2. generalize (N.to_nat (a - i_offset inp)) as k. generalize (i_data inp) as l.
  induction l as [|x l IH]; intros k H; [destruct k; discriminate|].
  destruct k as [|k]; cbn [nth_error skipn] in *; [inversion H; reflexivity|apply IH; exact H].
Qed.

Lemma leaves_nonterm inp t i cs p r : leaves inp (NNonTerm t i cs p r) = leaves_all inp cs.
Proof. reflexivity. Qed.

Lemma leaves_handle_result inp q pos ns : leaves inp (handle_result q pos ns) = leaves_all inp ns.
Proof.
  destruct ns as [|n [|n2 ns]]; cbn [handle_result]; [reflexivity| |reflexivity].
  destruct (q_single q); [|reflexivity]. cbn [leaves_all]. rewrite app_nil_r. reflexivity.
Qed.

Section Spells.
  Variable inp : input.
  Variable rules : list pexpr.

  Lemma valid_spells_mut :
    (forall e pos d, valid inp rules e pos d -> in_file inp pos -> leaves inp (yield d) = slice inp pos (dend d)) /\
    (forall k ps depth pos ds, valid_seq inp rules k ps depth pos ds -> in_file inp pos ->
       leaves_all inp (map yield ds) = slice inp pos (seq_end pos ds)).
  Proof.
    apply valid_mutind.
    - intros t pos n H [Hlo Hhi]. unfold dend. cbn [yield]. destruct t as [ch|l].
      + unfold term_parse in H.
        destruct (byte_at inp pos) as [b|] eqn:Eb; [|discriminate].
        destruct (b =? ch) eqn:E; [|discriminate]. apply N.eqb_eq in E. subst b.
        inversion H; subst n. cbn [leaves node_rpos]. symmetry. apply slice_one; assumption.
      + apply term_parse_lit_node in H. destruct H as (_ & tok & v & r & -> & Hv & _).
        cbn [node_rpos]. destruct v; try discriminate Hv; reflexivity.
    - intros pos _. unfold dend. cbn [yield leaves node_rpos]. rewrite slice_nil. reflexivity.
    - intros pos _ _. unfold dend. cbn [yield leaves node_rpos]. rewrite slice_nil. reflexivity.
    - intros k body pos d _ _ IH Hin. exact (IH Hin).
    - intros idx e pos d _ IH Hin. exact (IH Hin).
    - intros ps i e pos d _ _ IH Hin. exact (IH Hin).
    - intros ps i e pos d _ _ IH Hin. exact (IH Hin).
    - intros e pos d _ IH Hin. exact (IH Hin).
    - intros e pos _. unfold dend. cbn [yield leaves node_rpos]. rewrite slice_nil. reflexivity.
    - intros k ip single ps pos ds Hvs IH Hlen Hin.
      assert (Hv : valid inp rules (PSeq k ip single None ps) pos
                     (DSeq {| q_kind := k; q_ip := ip; q_single := single; q_ps := ps |} pos ds))
        by (apply VSeq; assumption).
      destruct (valid_seq_span inp rules k ps 0%nat pos ds Hin Hvs) as [Hch [Hle [_ Hall]]].
      rewrite seq_end_nodes in Hle.
      destruct (handle_result_span inp {| q_kind := k; q_ip := ip; q_single := single; q_ps := ps |}
                  pos (map yield ds) Hch Hall Hle) as [_ [H2 _]].
      unfold dend. cbn [yield]. rewrite H2, <- seq_end_nodes, leaves_handle_result. exact (IH Hin).
    - intros k ps depth pos _. cbn [map leaves_all seq_end]. rewrite slice_nil. reflexivity.
    - intros k ps depth pos e d ds _ Hv IHd Hvs IHs Hin.
      destruct (valid_span inp rules e pos d Hin Hv) as [_ [H2 [H3 _]]].
      destruct (valid_seq_span inp rules k ps (S depth) (dend d) ds H3 Hvs) as [_ [G2 _]].
      cbn [map leaves_all seq_end]. rewrite (IHd Hin), (IHs H3). destruct Hin as [Hlo _].
      apply slice_app; assumption.
  Qed.

  (* the leaves of the yield of a valid derivation are exactly the bytes it consumed *)
  Theorem valid_spells e pos d :
    in_file inp pos -> valid inp rules e pos d -> leaves inp (yield d) = slice inp pos (dend d).
  Proof. intros Hin Hv. exact (proj1 valid_spells_mut e pos d Hv Hin). Qed.

  Variable site : N -> option pexpr.
  Hypothesis Hfrag : frag_rules rules.
  Hypothesis Hwf : wf_rules rules site.

  Theorem C01_sound_spells fuel root ns cp err c :
    frag root = true -> wf rules site root ->
    run inp rules fuel root = Ok (ns, cp, err, c) ->
    forall n, In n ns -> leaves inp n = slice inp (i_offset inp) (node_rpos n).
  Proof.
    intros Hf Hw H n Hn.
    destruct (C01_sound inp rules site Hfrag Hwf fuel root ns cp err c Hf Hw H) as [_ Hs].
    destruct (Hs n Hn) as [[d [Hv Hy]] _].
    pose proof (valid_spells root (i_offset inp) d (in_file_offset inp) Hv) as E.
    unfold dend in E. rewrite Hy in E. exact E.
  Qed.

  (* a Sentence's tree spells the whole file *)
  Theorem C04_sentence_spells fuel root ns c :
    frag root = true -> wf rules site root ->
    parse_top inp rules fuel (sentence root) = Ok (TopNode ns c) ->
    exists n, ns = [n] /\ leaves inp n = i_data inp.
  Proof.
    intros Hf Hw H.
    destruct (C04_sentence_sound inp rules site Hfrag Hwf fuel root ns c Hf Hw H) as [n [E [_ [_ [_ [d [Hv [Hd Hn]]]]]]]].
    exists n. split; [exact E|]. subst n. rewrite leaves_nonterm. cbn [leaves_all leaves]. rewrite app_nil_r.
    rewrite (valid_spells root (i_offset inp) d (in_file_offset inp) Hv), Hd.
    unfold slice, i_len, len_N. rewrite N.sub_diag. cbn [N.to_nat skipn].
    replace (N.to_nat (i_offset inp + N.of_nat (length (i_data inp)) - i_offset inp)) with (length (i_data inp)) by lia.
    apply firstn_all.
  Qed.
End Spells.

(* ------------------------------------------------------------------------------------- *)
(* Part 4: soundness for ALL combinators (PName, PSuppress, PSingle, PLeftTrim,           *)
(* PRightTrim, named sequences)                                                           *)
(* ------------------------------------------------------------------------------------- *)

(* ---- whitespace runs ---- *)
(* [a, b) is inside the file and consists of whitespace bytes *)
Definition ws_run (inp : input) (a b : N) : Prop :=
  a <= b /\ forall i, a <= i -> i < b -> exists byte, byte_at inp i = Some byte /\ is_ws byte = true.
(* where Reader.SkipWhitespaces stops (the same for every whitespace mode) *)
Definition ws_end (inp : input) (pos : N) : N :=
  fst (ws_scan (skipn (N.to_nat (pos - i_offset inp)) (i_data inp)) pos 0).

Lemma ws_run_refl inp a : ws_run inp a a.
Proof. split; [lia|]. intros i H1 H2. lia. Qed.
Lemma ws_run_trans inp a b c : ws_run inp a b -> ws_run inp b c -> ws_run inp a c.
Proof.
  intros [H1 H2] [H3 H4]. split; [lia|]. intros i Hi1 Hi2.
  destruct (N.lt_ge_cases i b) as [Hlt|Hge]; [apply H2|apply H4]; assumption.
Qed.
Lemma ws_run_le inp a b : ws_run inp a b -> a <= b.
Proof. intros [H _]; exact H. Qed.

Lemma ws_scan_fst_nl l : forall pos nl nl', fst (ws_scan l pos nl) = fst (ws_scan l pos nl').
Proof.
  induction l as [|b l IH]; intros pos nl nl'; cbn [ws_scan]; [reflexivity|].
  destruct (is_ws b); [apply IH|reflexivity].
Qed.

Lemma ws_scan_run inp l : forall pos nl,
  (forall j : nat, nth_error l j = byte_at inp (pos + N.of_nat j)) ->
  pos <= fst (ws_scan l pos nl) /\ fst (ws_scan l pos nl) <= pos + N.of_nat (length l) /\
  forall i, pos <= i -> i < fst (ws_scan l pos nl) -> exists byte, byte_at inp i = Some byte /\ is_ws byte = true.
Proof.
  induction l as [|b l IH]; intros pos nl Hl; cbn [ws_scan length].
  - cbn [fst]. split; [lia|]. split; [lia|]. intros i H1 H2. lia.
  - destruct (is_ws b) eqn:Eb.
    + destruct (IH (pos + 1) (if is_nl b && (nl =? 0) then pos else nl)) as [H1 [H2 H3]].
      { intros j. replace (pos + 1 + N.of_nat j) with (pos + N.of_nat (S j)) by lia.
        rewrite <- (Hl (S j)). reflexivity. }
      split; [lia|]. split; [lia|]. intros i Hi1 Hi2.
      destruct (N.eq_dec i pos) as [E|E].
      * subst i. exists b. split; [|exact Eb]. pose proof (Hl 0%nat) as H0. cbn [nth_error N.of_nat] in H0.
        rewrite N.add_0_r in H0. symmetry; exact H0.
      * apply H3; [lia|exact Hi2].
    + cbn [fst]. split; [lia|]. split; [lia|]. intros i H1 H2. lia.
Qed.

Lemma nth_error_skipn {A} (l : list A) : forall k j, nth_error (skipn k l) j = nth_error l (k + j).
Proof.
  induction l as [|x l IH]; intros k j.
  - rewrite skipn_nil. destruct j, k; reflexivity.
  - destruct k as [|k]; [reflexivity|]. cbn [skipn plus nth_error]. apply IH.
Qed.

Lemma ws_end_run inp pos : in_file inp pos -> ws_run inp pos (ws_end inp pos) /\ in_file inp (ws_end inp pos).
Proof.
  intros [Hlo Hhi]. unfold ws_end.
  destruct (ws_scan_run inp (skipn (N.to_nat (pos - i_offset inp)) (i_data inp)) pos 0) as [H1 [H2 H3]].
  { intros j. rewrite nth_error_skipn. unfold byte_at, nth_N. f_equal. lia. }
  rewrite skipn_length in H2. unfold i_len, len_N in *. unfold ws_run, in_file.
  split; [split; [exact H1|exact H3]|]. unfold i_len, len_N. split; lia.
Qed.

Lemma skip_ws_fst inp pos m : fst (skip_ws inp pos m) = ws_end inp pos.
Proof.
  unfold skip_ws, ws_end.
  destruct (ws_scan (skipn (N.to_nat (pos - i_offset inp)) (i_data inp)) pos 0) as [e nl]. cbn [fst].
  destruct m; [destruct (pos <? e)|destruct (0 <? nl)| |destruct (nl =? 0)]; reflexivity.
Qed.

(* ast.SetReaderPos under RightTrim: the reader position moves over the whitespace run; an
   EMPTY node moves as a whole; the EOF node is untouched *)
Definition rtrim_node (inp : input) (n : node) : node :=
  match n with NEnd p => NEnd p | _ => set_rpos n (ws_end inp (node_rpos n)) end.

Lemma trim_nodes_map inp m ns : forall w res' w', trim_nodes inp m ns w = (res', w') -> res' = map (rtrim_node inp) ns.
Proof.
  induction ns as [|n ns IH]; intros w res' w' H; cbn [trim_nodes] in H; [inversion H; reflexivity|].
  destruct n; cbn [map rtrim_node node_rpos] in *;
    try (destruct (skip_ws inp _ m) as [e w1] eqn:Es;
         destruct (trim_nodes inp m ns w1) as [t' w2] eqn:Et; inversion H; subst;
         apply (f_equal fst) in Es; rewrite skip_ws_fst in Es; cbn [fst] in Es; subst e;
         f_equal; eapply IH; exact Et).
  destruct (trim_nodes inp m ns w) as [t' w2] eqn:Et. inversion H; subst. f_equal. eapply IH; exact Et.
Qed.

(* ---- derivations over the full combinator set ---- *)
Inductive xtree :=
| XTerm (n : node) | XEmpty (pos : N) | XEnd (pos : N)
| XRef (k : N) (d : xtree) | XMemo (idx : N) (d : xtree) | XAlt (i : nat) (d : xtree)
| XOptS (d : xtree) | XOptN (pos : N)
| XSeq (q : seqinfo) (pos : N) (ds : list xtree)
| XName (d : xtree)                 (* ReturnError / Name: the operand's node, unchanged *)
| XSuppress (d : xtree)             (* SuppressError: the operand's node, unchanged *)
| XSingleK (d : xtree)              (* Single: the operand's node kept *)
| XSingleU (d : xtree) (ch : node)  (* Single: the only child of the operand's one-child non-terminal *)
| XLTrim (d : xtree)                (* LeftTrim: the operand's derivation starts after the whitespace run *)
| XRTrim (d : xtree)                (* RightTrim: the node's reader position moved over the whitespace run *)
| XRKeep (d : xtree).               (* RightTrim when the operand also returned an error: node unchanged *)

Section XSpec.
  Variable inp : input.
  Variable rules : list pexpr.

  Fixpoint xyield (d : xtree) : node :=
    match d with
    | XTerm n => n
    | XEmpty p => NEmpty p
    | XEnd p => NEnd p
    | XRef _ d' | XMemo _ d' | XAlt _ d' | XOptS d' | XName d' | XSuppress d' | XSingleK d' | XLTrim d' | XRKeep d' =>
      xyield d'
    | XOptN p => NEmpty p
    | XSeq q p ds => handle_result q p (map xyield ds)
    | XSingleU _ ch => ch
    | XRTrim d' => rtrim_node inp (xyield d')
    end.
  Definition xdend (d : xtree) : N := node_rpos (xyield d).

  (* structural validity, as Spec.valid, plus the five wrappers and named sequences *)
  Inductive xvalid : pexpr -> N -> xtree -> Prop :=
  | XVTerm t pos n : term_parse inp t pos = ([n], None) -> xvalid (PTerm t) pos (XTerm n)
  | XVEmpty pos : xvalid PEmpty pos (XEmpty pos)
  | XVEnd pos : is_eof inp pos = true -> xvalid PEnd pos (XEnd pos)
  | XVRef k body pos d : nth_N rules k = Some body -> xvalid body pos d -> xvalid (PRef k) pos (XRef k d)
  | XVMemo idx e pos d : xvalid e pos d -> xvalid (PMemo idx e) pos (XMemo idx d)
  | XVAny ps i e pos d : nth_error ps i = Some e -> xvalid e pos d -> xvalid (PAny ps) pos (XAlt i d)
  | XVChoice ps i e pos d : nth_error ps i = Some e -> xvalid e pos d -> xvalid (PChoice ps) pos (XAlt i d)
  | XVOptS e pos d : xvalid e pos d -> xvalid (POpt e) pos (XOptS d)
  | XVOptN e pos : xvalid (POpt e) pos (XOptN pos)
  | XVSeq k ip single name ps pos ds :
      xvalid_seq k ps 0%nat pos ds ->
      seq_lencheck k (length ps) (length ds) = true ->
      xvalid (PSeq k ip single name ps) pos
             (XSeq {| q_kind := k; q_ip := ip; q_single := single; q_ps := ps |} pos ds)
  | XVName nm e pos d : xvalid e pos d -> xvalid (PName nm e) pos (XName d)
  | XVSuppress e pos d : xvalid e pos d -> xvalid (PSuppress e) pos (XSuppress d)
  | XVSingleK e pos d : xvalid e pos d -> xvalid (PSingle e) pos (XSingleK d)
  | XVSingleU e pos d t i ch p r :
      xvalid e pos d -> xyield d = NNonTerm t i [ch] p r -> xvalid (PSingle e) pos (XSingleU d ch)
  | XVLTrim m e pos d : xvalid e (ws_end inp pos) d -> xvalid (PLeftTrim m e) pos (XLTrim d)
  | XVRTrim m e pos d : xvalid e pos d -> xvalid (PRightTrim m e) pos (XRTrim d)
  | XVRKeep m e pos d : xvalid e pos d -> xvalid (PRightTrim m e) pos (XRKeep d)
  with xvalid_seq : seqkind -> list pexpr -> nat -> N -> list xtree -> Prop :=
  | XVSnil k ps depth pos : xvalid_seq k ps depth pos []
  | XVScons k ps depth pos e d ds :
      seq_lookup k ps depth = Some e -> xvalid e pos d ->
      xvalid_seq k ps (S depth) (xdend d) ds -> xvalid_seq k ps depth pos (d :: ds).

  (* span well-formedness up to whitespace: children follow each other with whitespace gaps, a
     node may end after a whitespace run behind its last child / its byte *)
  Fixpoint xchain (start : N) (ns : list node) : Prop :=
    match ns with [] => True | n :: t => ws_run inp start (node_pos n) /\ xchain (node_rpos n) t end.
  Fixpoint xspan_ok (n : node) : Prop :=
    match n with
    | NTerm _ (VRune c) p r => byte_at inp p = Some c /\ ws_run inp (p + 1) r
    | NTerm _ _ p r => p <= r
    | NEmpty _ | NEnd _ => True
    | NNonTerm _ _ cs p r =>
      p <= r /\ xchain p cs /\ ws_run inp (nodes_end p cs) r /\
      (fix all (l : list node) : Prop := match l with [] => True | x :: t => xspan_ok x /\ all t end) cs
    end.
  Definition xspan_all : list node -> Prop :=
    fix all (l : list node) : Prop := match l with [] => True | x :: t => xspan_ok x /\ all t end.
  Fixpoint xseq_end (pos : N) (ds : list xtree) : N :=
    match ds with [] => pos | d :: t => xseq_end (xdend d) t end.
End XSpec.

Scheme xvalid_ind2 := Minimality for xvalid Sort Prop
  with xvalid_seq_ind2 := Minimality for xvalid_seq Sort Prop.
Combined Scheme xvalid_mutind from xvalid_ind2, xvalid_seq_ind2.

Lemma xspan_ok_nonterm inp t i cs p r :
  xspan_ok inp (NNonTerm t i cs p r) <->
  (p <= r /\ xchain inp p cs /\ ws_run inp (nodes_end p cs) r /\ xspan_all inp cs).
Proof. split; intros H; exact H. Qed.

Lemma xspan_ok_le inp n : xspan_ok inp n -> node_pos n <= node_rpos n.
Proof.
  destruct n as [t v p r|p|p|t i cs p r]; cbn [node_pos node_rpos]; intros H; try lia.
  - destruct v; cbn [xspan_ok] in H; try exact H. destruct H as [_ [H _]]. lia.
  - apply (proj1 (xspan_ok_nonterm _ _ _ _ _ _)) in H. destruct H as [H _]. exact H.
Qed.

Lemma xseq_end_snoc inp pos ds d : xseq_end inp pos (ds ++ [d]) = xdend inp d.
Proof. revert pos. induction ds as [|x ds IH]; intros pos; cbn [app xseq_end]; [reflexivity|apply IH]. Qed.
Lemma xseq_end_nodes inp pos ds : xseq_end inp pos ds = nodes_end pos (map (xyield inp) ds).
Proof.
  destruct ds as [|d ds]; [reflexivity|]. unfold nodes_end. cbn [map].
  revert pos d. induction ds as [|d' ds IH]; intros pos d; [reflexivity|].
  cbn [xseq_end map]. rewrite last_cons2. cbn [xseq_end map] in IH. apply (IH pos d').
Qed.

(* the right-trimmed copy of a span-correct node is span-correct, starts at most a whitespace
   run later (only an EMPTY node moves) and ends inside the file *)
Lemma rtrim_node_span inp n :
  in_file inp (node_rpos n) -> xspan_ok inp n ->
  ws_run inp (node_pos n) (node_pos (rtrim_node inp n)) /\
  node_pos (rtrim_node inp n) <= node_rpos (rtrim_node inp n) /\
  in_file inp (node_rpos (rtrim_node inp n)) /\ xspan_ok inp (rtrim_node inp n).
Proof.
  intros Hin Hs. destruct (ws_end_run inp (node_rpos n) Hin) as [Hrun Hin'].
  pose proof (xspan_ok_le inp n Hs) as Hle. pose proof (ws_run_le _ _ _ Hrun) as Hle'.
  destruct n as [t v p r|p|p|t i cs p r]; cbn [rtrim_node set_rpos node_pos node_rpos] in *.
  - split; [apply ws_run_refl|]. split; [lia|]. split; [exact Hin'|].
    destruct v; cbn [xspan_ok] in *; try lia.
    destruct Hs as [Hb Hr]. split; [exact Hb|]. eapply ws_run_trans; eassumption.
  - split; [exact Hrun|]. split; [lia|]. split; [exact Hin'|exact I].
  - split; [apply ws_run_refl|]. split; [lia|]. split; [exact Hin|exact I].
  - split; [apply ws_run_refl|]. split; [lia|]. split; [exact Hin'|].
    apply (proj1 (xspan_ok_nonterm _ _ _ _ _ _)) in Hs. destruct Hs as [H1 [H2 [H3 H4]]]. apply xspan_ok_nonterm.
    split; [lia|]. split; [exact H2|]. split; [eapply ws_run_trans; eassumption|exact H4].
Qed.

Lemma xhandle_result_span inp q pos ns :
  xchain inp pos ns -> xspan_all inp ns ->
  (match ns with [] => True | n :: _ => node_pos n <= nodes_end pos ns end) ->
  ws_run inp pos (node_pos (handle_result q pos ns)) /\
  node_pos (handle_result q pos ns) <= node_rpos (handle_result q pos ns) /\
  node_rpos (handle_result q pos ns) = nodes_end pos ns /\
  xspan_ok inp (handle_result q pos ns).
Proof.
  intros Hch Hall Hle. destruct ns as [|n [|n2 ns]].
  - cbn [handle_result node_pos node_rpos nodes_end]. split; [apply ws_run_refl|]. split; [lia|]. split; [reflexivity|].
    apply xspan_ok_nonterm. split; [lia|]. split; [exact I|]. split; [apply ws_run_refl|exact I].
  - destruct Hch as [Hn _]. destruct Hall as [Hs _]. cbn [nodes_end last] in *.
    cbn [handle_result]. destruct (q_single q).
    + split; [exact Hn|]. split; [exact Hle|]. split; [reflexivity|exact Hs].
    + cbn [node_pos node_rpos]. split; [exact Hn|]. split; [exact Hle|]. split; [reflexivity|].
      apply xspan_ok_nonterm. split; [exact Hle|]. split; [split; [apply ws_run_refl|exact I]|].
      split; [apply ws_run_refl|]. split; [exact Hs|exact I].
  - cbn [handle_result node_pos node_rpos]. unfold nodes_end in *.
    rewrite (last_default (n2 :: ns) n n (NEmpty pos)).
    destruct Hch as [Hn Hch]. split; [exact Hn|]. split; [exact Hle|]. split; [reflexivity|].
    apply xspan_ok_nonterm. split; [exact Hle|]. split; [split; [apply ws_run_refl|exact Hch]|].
    split; [|exact Hall]. unfold nodes_end. rewrite (last_default (n2 :: ns) n (NEmpty (node_pos n)) (NEmpty pos)).
    apply ws_run_refl.
Qed.

Lemma xterm_parse_span inp t pos n :
  in_file inp pos -> term_parse inp t pos = ([n], None) ->
  node_pos n = pos /\ pos <= node_rpos n /\ in_file inp (node_rpos n) /\ xspan_ok inp n.
Proof.
  intros Hin H. destruct (term_parse_span inp t pos n Hin H) as [H1 [H2 [H3 _]]].
  split; [exact H1|]. split; [exact H2|]. split; [exact H3|].
  destruct t as [ch|l].
  - unfold term_parse in H.
    destruct (byte_at inp pos) as [b|] eqn:Eb; [|discriminate].
    destruct (b =? ch) eqn:E; [|discriminate]. apply N.eqb_eq in E. subst b.
    inversion H; subst n. cbn [xspan_ok]. split; [exact Eb|apply ws_run_refl].
  - apply term_parse_lit_node in H. destruct H as (_ & tok & v & r & -> & Hv & Hle & _).
    destruct v; try discriminate Hv; exact Hle.
Qed.

Section XValidSpan.
  Variable inp : input.
  Variable rules : list pexpr.
  Notation xy := (xyield inp).

  Let Pv (e : pexpr) (pos : N) (d : xtree) : Prop :=
    in_file inp pos ->
    ws_run inp pos (node_pos (xy d)) /\ node_pos (xy d) <= xdend inp d /\
    in_file inp (xdend inp d) /\ xspan_ok inp (xy d).
  Let Ps (k : seqkind) (ps : list pexpr) (depth : nat) (pos : N) (ds : list xtree) : Prop :=
    in_file inp pos ->
    xchain inp pos (map xy ds) /\ pos <= xseq_end inp pos ds /\ in_file inp (xseq_end inp pos ds) /\
    xspan_all inp (map xy ds) /\
    (match ds with [] => True | d :: _ => node_pos (xy d) <= xseq_end inp pos ds end).

  Lemma xvalid_span_mut :
    (forall e pos d, xvalid inp rules e pos d -> Pv e pos d) /\
    (forall k ps depth pos ds, xvalid_seq inp rules k ps depth pos ds -> Ps k ps depth pos ds).
  Proof.
    apply xvalid_mutind; unfold Pv, Ps; clear Pv Ps.
    - (* Term *) intros t pos n H Hin. unfold xdend. cbn [xyield].
      destruct (xterm_parse_span inp t pos n Hin H) as [H1 [H2 [H3 H4]]].
      rewrite H1. split; [apply ws_run_refl|]. split; [exact H2|]. split; [exact H3|exact H4].
    - (* Empty *) intros pos Hin. unfold xdend. cbn [xyield node_pos node_rpos xspan_ok].
      split; [apply ws_run_refl|]. split; [lia|]. split; [exact Hin|exact I].
    - (* End *) intros pos _ Hin. unfold xdend. cbn [xyield node_pos node_rpos xspan_ok].
      split; [apply ws_run_refl|]. split; [lia|]. split; [exact Hin|exact I].
    - (* Ref *) intros k body pos d _ _ IH Hin. exact (IH Hin).
    - (* Memo *) intros idx e pos d _ IH Hin. exact (IH Hin).
    - (* Any *) intros ps i e pos d _ _ IH Hin. exact (IH Hin).
    - (* Choice *) intros ps i e pos d _ _ IH Hin. exact (IH Hin).
    - (* OptS *) intros e pos d _ IH Hin. exact (IH Hin).
    - (* OptN *) intros e pos Hin. unfold xdend. cbn [xyield node_pos node_rpos xspan_ok].
      split; [apply ws_run_refl|]. split; [lia|]. split; [exact Hin|exact I].
    - (* Seq *) intros k ip single name ps pos ds _ IH _ Hin.
      destruct (IH Hin) as [Hch [Hle [Hend [Hall Hhd]]]]. rewrite xseq_end_nodes in Hle, Hend, Hhd.
      unfold xdend. cbn [xyield].
      destruct (xhandle_result_span inp {| q_kind := k; q_ip := ip; q_single := single; q_ps := ps |}
                  pos (map xy ds) Hch Hall) as [H1 [H2 [H3 H4]]].
      { destruct ds; [exact I|exact Hhd]. }
      split; [exact H1|]. split; [exact H2|]. split; [rewrite H3; exact Hend|exact H4].
    - (* Name *) intros nm e pos d _ IH Hin. exact (IH Hin).
    - (* Suppress *) intros e pos d _ IH Hin. exact (IH Hin).
    - (* SingleK *) intros e pos d _ IH Hin. exact (IH Hin).
    - (* SingleU *) intros e pos d t i ch p r _ IH Hy Hin.
      destruct (IH Hin) as [H1 [H2 [[H3 H3'] H4]]]. unfold xdend in *. rewrite Hy in *.
      cbn [node_pos node_rpos] in *.
      apply (proj1 (xspan_ok_nonterm _ _ _ _ _ _)) in H4. destruct H4 as [K1 [[K2 _] [K3 [K4 _]]]].
      cbn [nodes_end last] in K3. cbn [xyield].
      pose proof (xspan_ok_le inp ch K4) as L1. pose proof (ws_run_le _ _ _ K3) as L2.
      pose proof (ws_run_le _ _ _ K2) as L3. pose proof (ws_run_le _ _ _ H1) as L4. destruct Hin as [L5 L6].
      split; [eapply ws_run_trans; eassumption|]. split; [exact L1|]. split; [split; lia|exact K4].
    - (* LTrim *) intros m e pos d _ IH Hin. destruct (ws_end_run inp pos Hin) as [Hrun Hin'].
      destruct (IH Hin') as [H1 [H2 [H3 H4]]]. cbn [xyield]. unfold xdend in *. cbn [xyield].
      split; [eapply ws_run_trans; eassumption|]. split; [exact H2|]. split; [exact H3|exact H4].
    - (* RTrim *) intros m e pos d _ IH Hin. destruct (IH Hin) as [H1 [H2 [H3 H4]]].
      unfold xdend in *. cbn [xyield].
      destruct (rtrim_node_span inp (xy d) H3 H4) as [G1 [G2 [G3 G4]]].
      split; [eapply ws_run_trans; eassumption|]. split; [exact G2|]. split; [exact G3|exact G4].
    - (* RKeep *) intros m e pos d _ IH Hin. exact (IH Hin).
    - (* nil *) intros k ps depth pos Hin. cbn [map xchain xseq_end xspan_all].
      split; [exact I|]. split; [lia|]. split; [exact Hin|]. split; exact I.
    - (* cons *) intros k ps depth pos e d ds _ _ IHd _ IHs Hin.
      destruct (IHd Hin) as [H1 [H2 [H3 H4]]]. destruct (IHs H3) as [G1 [G2 [G3 [G4 _]]]].
      cbn [map xchain xseq_end xspan_all]. unfold xdend in *. pose proof (ws_run_le _ _ _ H1) as L.
      split; [split; [exact H1|exact G1]|]. split; [lia|]. split; [exact G3|]. split; [split; [exact H4|exact G4]|lia].
  Qed.

  (* THEOREM 1, all combinators: up to whitespace *)
  Theorem xvalid_span e pos d :
    in_file inp pos -> xvalid inp rules e pos d ->
    ws_run inp pos (node_pos (xy d)) /\ node_pos (xy d) <= xdend inp d /\
    in_file inp (xdend inp d) /\ xspan_ok inp (xy d).
  Proof. intros Hin Hv. exact (proj1 xvalid_span_mut e pos d Hv Hin). Qed.

  Lemma xvalid_seq_span k ps depth pos ds :
    in_file inp pos -> xvalid_seq inp rules k ps depth pos ds -> in_file inp (xseq_end inp pos ds).
  Proof. intros Hin Hv. destruct (proj2 xvalid_span_mut k ps depth pos ds Hv Hin) as [_ [_ [H _]]]. exact H. Qed.

  Lemma xvalid_seq_snoc k ps ds : forall depth pos e d,
    xvalid_seq inp rules k ps depth pos ds ->
    seq_lookup k ps (depth + length ds) = Some e -> xvalid inp rules e (xseq_end inp pos ds) d ->
    xvalid_seq inp rules k ps depth pos (ds ++ [d]).
  Proof.
    induction ds as [|d0 ds IH]; intros depth pos e d Hvs Hl Hv; cbn [app length xseq_end] in *.
    - rewrite Nat.add_0_r in Hl. eapply XVScons; [exact Hl|exact Hv|apply XVSnil].
    - inversion Hvs as [|k' ps' depth' pos' e0 d0' ds' Hl0 Hv0 Hvs0]; subst.
      eapply XVScons; [exact Hl0|exact Hv0|].
      apply (IH (S depth) (xdend inp d0) e d Hvs0); [|exact Hv].
      rewrite <- Hl. f_equal. lia.
  Qed.
End XValidSpan.

(* ---- engine soundness over all combinators ---- *)
Definition xsound_nodes (inp : input) (rules : list pexpr) (e : pexpr) (pos : N) (ns : list node) : Prop :=
  forall n, In n ns -> exists d, xvalid inp rules e pos d /\ xyield inp d = n.
Definition xcache_sound (inp : input) (rules : list pexpr) (site : N -> option pexpr) (c : ctx) : Prop :=
  forall idx pos r, cache_find (idx, pos) (cache c) = Some r ->
    in_file inp pos /\
    forall body, site idx = Some body -> xsound_nodes inp rules (PMemo idx body) pos (r_nodes r).

Section XSound.
  Variable inp : input.
  Variable rules : list pexpr.
  Variable site : N -> option pexpr.
  Hypothesis Hwf : wf_rules rules site.

  Notation snodes := (xsound_nodes inp rules).
  Notation csound := (xcache_sound inp rules site).
  Notation xy := (xyield inp).

  Lemma xsnodes_nil e pos : snodes e pos [].
  Proof. intros n []. Qed.
  Lemma xsnodes_append e pos a b : snodes e pos a -> snodes e pos b -> snodes e pos (append_node a b).
  Proof. intros Ha Hb n H. apply append_node_in_inv in H. destruct H as [H|H]; [apply Ha|apply Hb]; exact H. Qed.
  Lemma xsnodes_lift e e' pos pos' ns (f : xtree -> xtree) :
    (forall d, xvalid inp rules e pos d -> xvalid inp rules e' pos' (f d) /\ xy (f d) = xy d) ->
    snodes e pos ns -> snodes e' pos' ns.
  Proof.
    intros Hf H n Hn. destruct (H n Hn) as [d [Hv Hy]]. destruct (Hf d Hv) as [Hv' Hy'].
    exists (f d). split; [exact Hv'|]. rewrite Hy'. exact Hy.
  Qed.

  Lemma xcsound_cache c1 c2 : cache c2 = cache c1 -> csound c1 -> csound c2.
  Proof. intros E H idx pos r Hr. rewrite E in Hr. exact (H idx pos r Hr). Qed.
  Lemma xcsound_save c idx pos body r :
    csound c -> in_file inp pos -> site idx = Some body -> snodes (PMemo idx body) pos (r_nodes r) ->
    csound (cache_save c idx pos r).
  Proof.
    intros Hc Hin Hs Hr idx' pos' r' H. unfold cache_save in H. cbn [cache cache_find fst snd] in H.
    destruct ((idx' =? idx) && (pos' =? pos)) eqn:E.
    - apply andb_true_iff in E. destruct E as [E1 E2]. apply N.eqb_eq in E1, E2. subst idx' pos'.
      inversion H; subst r'. split; [exact Hin|]. intros body' Hb. rewrite Hs in Hb. inversion Hb; subst body'. exact Hr.
    - exact (Hc idx' pos' r' H).
  Qed.
  Lemma xcsound_get c idx pos lrc r body :
    csound c -> cache_get c idx pos lrc = Some r -> site idx = Some body -> snodes (PMemo idx body) pos (r_nodes r).
  Proof.
    intros Hc H Hs. unfold cache_get in H.
    destruct (cache_find (idx, pos) (cache c)) as [r0|] eqn:E; [|discriminate].
    destruct (reusable (r_lrc r0) lrc); [|discriminate]. inversion H; subst r0.
    destruct (Hc idx pos r E) as [_ Hr]. exact (Hr body Hs).
  Qed.

  Definition xpsound (rp : ptype) : Prop :=
    forall e c stk lrc pos ns cp err c',
      wf rules site e -> csound c -> in_file inp pos ->
      rp e c stk lrc pos = Ok (ns, cp, err, c') ->
      csound c' /\ snodes e pos ns.

  Definition xseq_sound (q : seqinfo) (pos0 : N) (ns : list node) : Prop :=
    forall n, In n ns -> exists ds,
      xvalid_seq inp rules (q_kind q) (q_ps q) 0%nat pos0 ds /\
      seq_lencheck (q_kind q) (length (q_ps q)) (length ds) = true /\
      n = handle_result q pos0 (map xy ds).

  Definition xssound (rs : stype) : Prop :=
    forall q d c stk lrc pos m st stop st' c' pos0 ds,
      wfs rules site (q_ps q) -> csound c -> in_file inp pos0 ->
      xvalid_seq inp rules (q_kind q) (q_ps q) 0%nat pos0 ds ->
      rev (s_nodes st) = map xy ds -> length ds = d -> pos = xseq_end inp pos0 ds ->
      xseq_sound q pos0 (s_res st) ->
      rs q d c stk lrc pos m st = Ok (stop, st', c') ->
      csound c' /\ xseq_sound q pos0 (s_res st').

  Lemma xseq_sound_snodes k ip single name ps pos0 ns :
    xseq_sound {| q_kind := k; q_ip := ip; q_single := single; q_ps := ps |} pos0 ns ->
    snodes (PSeq k ip single name ps) pos0 ns.
  Proof.
    intros H n Hn. destruct (H n Hn) as [ds [Hvs [Hlen Hy]]]. cbn [q_kind q_ps] in *.
    exists (XSeq {| q_kind := k; q_ip := ip; q_single := single; q_ps := ps |} pos0 ds).
    split; [apply XVSeq; assumption|]. cbn [xyield]. symmetry. exact Hy.
  Qed.

  (* Single: what the unwrapping match returns *)
  Lemma single_sound e pos res :
    snodes e pos res ->
    snodes (PSingle e) pos (match res with [NNonTerm _ _ [ch] _ _] => [ch] | _ => res end).
  Proof.
    intros H.
    assert (Hk : snodes (PSingle e) pos res).
    { apply (xsnodes_lift e (PSingle e) pos pos res XSingleK); [|exact H].
      intros d Hv. split; [apply XVSingleK; exact Hv|reflexivity]. }
    destruct res as [|n rest]; [exact Hk|].
    destruct n as [| | |t i cs p r]; try exact Hk.
    destruct cs as [|ch [|ch2 cs]]; try exact Hk.
    destruct rest as [|n2 rest]; [|exact Hk].
    intros n [E|[]]. subst n. destruct (H _ (or_introl eq_refl)) as [d [Hv Hy]].
    exists (XSingleU d ch). split; [eapply XVSingleU; eassumption|reflexivity].
  Qed.

  Section Step.
    Variable rp : ptype.
    Variable rs : stype.
    Hypothesis Hp : xpsound rp.
    Hypothesis Hs : xssound rs.

    Lemma xany_loop_sound all stk lrc pos ps : forall c cp res err nf ns cp' err' c',
      (forall p, In p ps -> In p all /\ wf rules site p) ->
      csound c -> in_file inp pos -> snodes (PAny all) pos res ->
      any_loop rp stk lrc pos ps c cp res err nf = Ok (ns, cp', err', c') ->
      csound c' /\ snodes (PAny all) pos ns.
    Proof.
      induction ps as [|p ps IH]; intros c cp res err nf ns cp' err' c' Hps Hc Hin Hres H; cbn [any_loop] in H.
      - destruct res; inversion H; subst; (split; [exact Hc|]); [apply xsnodes_nil|exact Hres].
      - apply bind_ok in H. destruct H as [[[[res2 cp2] err2] c2] [H1 H2]].
        destruct (Hps p (or_introl eq_refl)) as [Hpin Hpw].
        destruct (Hp p (reg_call c) stk lrc pos res2 cp2 err2 c2 Hpw Hc Hin H1) as [Hc2 Hres2].
        destruct (alt_err pos err nf err2) as [err1 nf1].
        apply (IH c2 (set_union cp cp2) (append_node res res2) err1 nf1 ns cp' err' c'); try assumption.
        + intros p' Hp'. apply Hps. right; exact Hp'.
        + apply xsnodes_append; [exact Hres|].
          destruct (In_nth_error all p Hpin) as [i Hi].
          apply (xsnodes_lift p (PAny all) pos pos res2 (XAlt i)); [|exact Hres2].
          intros d Hv. split; [eapply XVAny; eassumption|reflexivity].
    Qed.

    Lemma xchoice_loop_sound all stk lrc pos ps : forall c cp err nf ns cp' err' c',
      (forall p, In p ps -> In p all /\ wf rules site p) ->
      csound c -> in_file inp pos ->
      choice_loop rp stk lrc pos ps c cp err nf = Ok (ns, cp', err', c') ->
      csound c' /\ snodes (PChoice all) pos ns.
    Proof.
      induction ps as [|p ps IH]; intros c cp err nf ns cp' err' c' Hps Hc Hin H; cbn [choice_loop] in H.
      - inversion H; subst. split; [exact Hc|apply xsnodes_nil].
      - apply bind_ok in H. destruct H as [[[[res2 cp2] err2] c2] [H1 H2]].
        destruct (Hps p (or_introl eq_refl)) as [Hpin Hpw].
        destruct (Hp p (reg_call c) stk lrc pos res2 cp2 err2 c2 Hpw Hc Hin H1) as [Hc2 Hres2].
        destruct (alt_err pos err nf err2) as [err1 nf1].
        destruct res2 as [|n2 res2].
        + apply (IH c2 (set_union cp cp2) err1 nf1 ns cp' err' c'); try assumption.
          intros p' Hp'. apply Hps. right; exact Hp'.
        + inversion H2; subst. split; [exact Hc2|].
          destruct (In_nth_error all p Hpin) as [i Hi].
          apply (xsnodes_lift p (PChoice all) pos pos (n2 :: res2) (XAlt i)); [|exact Hres2].
          intros d Hv. split; [eapply XVChoice; eassumption|reflexivity].
    Qed.

    Lemma xall_ps ps : wfs rules site ps -> forall p, In p ps -> In p ps /\ wf rules site p.
    Proof. intros Hw p Hin. split; [exact Hin|exact (wfs_in rules site ps p Hw Hin)]. Qed.

    Lemma xparse_step_sound : xpsound (parse_step inp rules rp rs).
    Proof.
      intros e c stk lrc pos ns cp err c' Hw Hc Hin H.
      destruct e; cbn [parse_step] in H.
      - (* PTerm *)
        destruct (term_parse inp t pos) as [res terr] eqn:E. inversion H; subst.
        split; [destruct ns; [destruct err|]; exact Hc|].
        destruct (term_parse_cases inp t pos ns err E) as [E1|[n [E1 E2]]]; subst; [apply xsnodes_nil|].
        intros n' [E'|[]]. subst n'. exists (XTerm n). split; [apply XVTerm; exact E|reflexivity].
      - (* PEmpty *) inversion H; subst. split; [exact Hc|].
        intros n [E|[]]. subst n. exists (XEmpty pos). split; [apply XVEmpty|reflexivity].
      - (* PEnd *) destruct (is_eof inp pos) eqn:E; inversion H; subst; (split; [exact Hc|]); [|apply xsnodes_nil].
        intros n [E'|[]]. subst n. exists (XEnd pos). split; [apply XVEnd; exact E|reflexivity].
      - (* PRef *) destruct (nth_N rules k) as [body|] eqn:E; [|discriminate].
        destruct (Hp body c stk lrc pos ns cp err c' (Hwf k body E) Hc Hin H) as [Hc' Hn].
        split; [exact Hc'|]. apply (xsnodes_lift body (PRef k) pos pos ns (XRef k)); [|exact Hn].
        intros d Hv. split; [eapply XVRef; eassumption|reflexivity].
      - (* PMemo *) destruct Hw as [Hsite Hw].
        destruct (cache_get c idx pos lrc) as [r|] eqn:E.
        + inversion H; subst. split; [exact Hc|]. eapply xcsound_get; eassumption.
        + destruct (remaining inp pos + 1 <? map_get idx lrc).
          * inversion H; subst. split; [exact Hc|apply xsnodes_nil].
          * apply bind_ok in H. destruct H as [[[[nodes cp0] err0] c0] [H1 H2]]. inversion H2; subst.
            destruct (Hp e (log_body c idx pos (1 + count_active idx pos stk)) ((idx, pos) :: stk) (map_inc idx lrc) pos
                         ns cp err c0 Hw Hc Hin H1) as [Hc0 Hn].
            assert (Hm : snodes (PMemo idx e) pos ns).
            { apply (xsnodes_lift e (PMemo idx e) pos pos ns (XMemo idx)); [|exact Hn].
              intros d Hv. split; [apply XVMemo; exact Hv|reflexivity]. }
            split; [|exact Hm]. apply (xcsound_save c0 idx pos e); assumption.
      - (* PAny *)
        apply (xany_loop_sound ps stk lrc pos ps c [] [] None None ns cp err c'); try assumption.
        + apply xall_ps; exact Hw.
        + apply xsnodes_nil.
      - (* PChoice *)
        apply (xchoice_loop_sound ps stk lrc pos ps c [] None None ns cp err c'); try assumption.
        apply xall_ps; exact Hw.
      - (* POpt *)
        apply bind_ok in H. destruct H as [[[[res cp0] err0] c0] [H1 H2]]. inversion H2; subst.
        destruct (Hp e c stk lrc pos res cp err c' Hw Hc Hin H1) as [Hc' Hn]. split; [exact Hc'|].
        apply xsnodes_append.
        + apply (xsnodes_lift e (POpt e) pos pos res XOptS); [|exact Hn].
          intros d Hv. split; [apply XVOptS; exact Hv|reflexivity].
        + intros n [E|[]]. subst n. exists (XOptN pos). split; [apply XVOptN|reflexivity].
      - (* PSeq, named or not *)
        apply bind_ok in H. destruct H as [[[stop st] c0] [H1 H2]].
        assert (Hq : csound c0 /\ xseq_sound {| q_kind := k; q_ip := ip; q_single := single; q_ps := ps |} pos (s_res st)).
        { apply (Hs _ 0%nat c stk lrc pos true {| s_cp := []; s_res := []; s_err := None; s_nodes := [] |}
                    stop st c0 pos []); cbn [q_kind q_ps s_nodes s_res]; try assumption; try reflexivity.
          - apply XVSnil.
          - intros n []. }
        destruct Hq as [Hc0 Hq]. apply (xseq_sound_snodes k ip single name) in Hq.
        destruct (s_res st) eqn:E; inversion H2; subst; (split; [exact Hc0|]); [apply xsnodes_nil|exact Hq].
      - (* PName *)
        apply bind_ok in H. destruct H as [[[[res cp0] err0] c0] [H1 H2]].
        destruct (Hp e c stk lrc pos res cp0 err0 c0 Hw Hc Hin H1) as [Hc' Hn].
        assert (Hn' : snodes (PName name e) pos res).
        { apply (xsnodes_lift e (PName name e) pos pos res XName); [|exact Hn].
          intros d Hv. split; [apply XVName; exact Hv|reflexivity]. }
        destruct err0 as [e0|]; [|destruct res as [|n res]]; inversion H2; subst;
          (split; [exact Hc'|]); [apply xsnodes_nil|apply xsnodes_nil|exact Hn'].
      - (* PLeftTrim *)
        destruct (skip_ws inp pos m) as [pos1 wserr] eqn:Es.
        apply (f_equal fst) in Es. rewrite skip_ws_fst in Es. cbn [fst] in Es. subst pos1.
        apply bind_ok in H. destruct H as [[[[res cp0] err0] c0] [H1 H2]].
        destruct (ws_end_run inp pos Hin) as [_ Hin1].
        destruct (Hp e c stk lrc (ws_end inp pos) res cp0 err0 c0 Hw Hc Hin1 H1) as [Hc0 Hn].
        assert (Hn' : snodes (PLeftTrim m e) pos res).
        { apply (xsnodes_lift e (PLeftTrim m e) (ws_end inp pos) pos res XLTrim); [|exact Hn].
          intros d Hv. split; [apply XVLTrim; exact Hv|reflexivity]. }
        assert (Hc2 : csound (match cerr c0 with
                              | Some ce => if (epos ce =? ws_end inp pos) && is_notfound ce
                                           then set_error c0 (Some (mk_err pos (ecause ce))) else c0
                              | None => c0 end)).
        { destruct (cerr c0) as [ce|]; [|exact Hc0].
          destruct ((epos ce =? ws_end inp pos) && is_notfound ce); [|exact Hc0].
          apply (xcsound_cache c0); [reflexivity|exact Hc0]. }
        cbn zeta in H2.
        destruct err0 as [e0|]; [destruct wserr as [w|]; [destruct (ws_end inp pos <? epos e0); [|destruct (is_notfound e0)]|]
                                |destruct wserr as [w|]];
          inversion H2; subst; (split; [exact Hc2|]); first [exact Hn'|apply xsnodes_nil].
      - (* PRightTrim *)
        apply bind_ok in H. destruct H as [[[[res cp0] err0] c0] [H1 H2]].
        destruct (Hp e c stk lrc pos res cp0 err0 c0 Hw Hc Hin H1) as [Hc0 Hn].
        destruct err0 as [e0|].
        + inversion H2; subst. split; [exact Hc0|].
          apply (xsnodes_lift e (PRightTrim m e) pos pos ns XRKeep); [|exact Hn].
          intros d Hv. split; [apply XVRKeep; exact Hv|reflexivity].
        + destruct (trim_nodes inp m res None) as [res' wserr] eqn:Et.
          apply trim_nodes_map in Et. subst res'.
          destruct wserr as [w|]; inversion H2; subst; (split; [exact Hc0|]); [apply xsnodes_nil|].
          intros n Hn'. apply in_map_iff in Hn'. destruct Hn' as [n0 [E Hn0]].
          destruct (Hn n0 Hn0) as [d [Hv Hy]]. exists (XRTrim d).
          split; [apply XVRTrim; exact Hv|]. cbn [xyield]. rewrite Hy. exact E.
      - (* PSuppress *)
        apply bind_ok in H. destruct H as [[[[res cp0] err0] c0] [H1 H2]]. inversion H2; subst.
        destruct (Hp e c stk lrc pos ns cp err0 c' Hw Hc Hin H1) as [Hc0 Hn]. split; [exact Hc0|].
        apply (xsnodes_lift e (PSuppress e) pos pos ns XSuppress); [|exact Hn].
        intros d Hv. split; [apply XVSuppress; exact Hv|reflexivity].
      - (* PSingle *)
        apply bind_ok in H. destruct H as [[[[res cp0] err0] c0] [H1 H2]].
        destruct (Hp e c stk lrc pos res cp0 err0 c0 Hw Hc Hin H1) as [Hc0 Hn].
        destruct err0 as [e0|]; [inversion H2; subst; split; [exact Hc0|apply xsnodes_nil]|].
        pose proof (single_sound e pos res Hn) as Hsg.
        destruct res as [|n rest]; [inversion H2; subst; split; [exact Hc0|exact Hsg]|].
        destruct n as [| | |t i cs p r]; try (inversion H2; subst; split; [exact Hc0|exact Hsg]).
        destruct cs as [|ch [|ch2 cs]]; try (inversion H2; subst; split; [exact Hc0|exact Hsg]).
        destruct rest as [|n2 rest]; inversion H2; subst; (split; [exact Hc0|exact Hsg]).
    Qed.

    Lemma xalts_loop_sound q d stk lrc pos m prefix pos0 ds p ns : forall st c stop st' c',
      wfs rules site (q_ps q) -> in_file inp pos0 ->
      xvalid_seq inp rules (q_kind q) (q_ps q) 0%nat pos0 ds ->
      rev prefix = map xy ds -> length ds = d -> pos = xseq_end inp pos0 ds ->
      seq_lookup (q_kind q) (q_ps q) d = Some p -> snodes p pos ns ->
      csound c -> xseq_sound q pos0 (s_res st) ->
      alts_loop rs q d stk lrc pos m prefix ns st c = Ok (stop, st', c') ->
      csound c' /\ xseq_sound q pos0 (s_res st').
    Proof.
      induction ns as [|n ns IH]; intros st c stop st' c' Hw Hin0 Hvs Hrev Hlen Hpos Hl Hns Hc Hres H;
        cbn [alts_loop] in H.
      - inversion H; subst. split; assumption.
      - apply bind_ok in H. destruct H as [[[stop1 st1] c1] [H1 H2]].
        destruct (Hns n (or_introl eq_refl)) as [dn [Hvn Hyn]].
        assert (Hstep : csound c1 /\ xseq_sound q pos0 (s_res st1)).
        { apply (Hs q (S d) c stk (if pos <? node_rpos n then [] else lrc) (node_rpos n)
                    (if pos <? node_rpos n then false else m)
                    {| s_cp := s_cp st; s_res := s_res st; s_err := s_err st; s_nodes := n :: prefix |}
                    stop1 st1 c1 pos0 (ds ++ [dn])); try assumption.
          - apply (xvalid_seq_snoc inp rules (q_kind q) (q_ps q) ds 0%nat pos0 p dn Hvs);
              [|rewrite <- Hpos; exact Hvn].
            cbn [plus]. rewrite Hlen. exact Hl.
          - cbn [s_nodes rev]. rewrite map_app, Hrev. cbn [map]. rewrite Hyn. reflexivity.
          - rewrite app_length. cbn [length]. lia.
          - rewrite xseq_end_snoc. unfold xdend. rewrite Hyn. reflexivity. }
        destruct Hstep as [Hc1 Hres1].
        destruct stop1; [inversion H2; subst; split; assumption|].
        apply (IH st1 c1 stop st' c'); try assumption.
        intros n' Hn'. apply Hns. right; exact Hn'.
    Qed.

    Lemma xseq_step_sound : xssound (seq_step rp rs).
    Proof.
      intros q d c stk lrc pos m st stop st' c' pos0 ds Hw Hc Hin0 Hvs Hrev Hlen Hpos Hres H.
      unfold seq_step in H. apply bind_ok in H. destruct H as [[[[res cp] err] c1] [H1 H2]].
      assert (Hin : in_file inp pos).
      { subst pos. exact (xvalid_seq_span inp rules _ _ _ _ _ Hin0 Hvs). }
      destruct res as [|n res].
      - assert (Hc1 : csound c1).
        { destruct (seq_lookup (q_kind q) (q_ps q) d) as [p|] eqn:El.
          - destruct (xall_ps (q_ps q) Hw p (seq_lookup_in _ _ _ _ El)) as [_ Hpw].
            destruct (Hp p (reg_call c) stk lrc pos [] cp err c1 Hpw Hc Hin H1) as [G _]. exact G.
          - inversion H1; subst. exact Hc. }
        cbn [s_nodes s_res s_cp s_err] in H2.
        destruct (seq_lencheck (q_kind q) (length (q_ps q)) d) eqn:Elen.
        + assert (Hst : csound c1 /\ xseq_sound q pos0 (append_node (s_res st) [handle_result q pos (rev (s_nodes st))])).
          { split; [exact Hc1|]. intros n Hn. apply append_node_in_inv in Hn. destruct Hn as [Hn|[Hn|[]]]; [apply Hres; exact Hn|].
            exists ds. split; [exact Hvs|]. split; [rewrite Hlen; exact Elen|].
            subst n. rewrite Hrev. destruct ds as [|d0 ds]; [cbn [xseq_end] in Hpos; subst pos; reflexivity|].
            cbn [map]. apply handle_result_pos. }
          destruct (s_nodes st) as [|lastn pre]; inversion H2; subst; cbn [s_res]; exact Hst.
        + inversion H2; subst. cbn [s_res]. split; assumption.
      - destruct (seq_lookup (q_kind q) (q_ps q) d) as [p|] eqn:El; [|inversion H1].
        destruct (xall_ps (q_ps q) Hw p (seq_lookup_in _ _ _ _ El)) as [_ Hpw].
        destruct (Hp p (reg_call c) stk lrc pos (n :: res) cp err c1 Hpw Hc Hin H1) as [Hc1 Hn].
        refine (xalts_loop_sound q d stk lrc pos m _ pos0 ds p (n :: res) _ c1 stop st' c' Hw Hin0 Hvs _ Hlen Hpos El Hn Hc1 _ H2);
          cbn [s_nodes s_res]; assumption.
    Qed.
  End Step.

  Theorem xsound_inv : forall f, xpsound (parse inp rules f) /\ xssound (seqp inp rules f).
  Proof.
    induction f as [|f [IHp IHs]].
    - split; intros until c'; intros; discriminate.
    - split.
      + intros e c stk lrc pos. rewrite parse_S. apply xparse_step_sound; assumption.
      + intros q d c stk lrc pos m st. rewrite seqp_S. apply xseq_step_sound; assumption.
  Qed.

  (* THEOREM 2 for every combinator *)
  Theorem parse_sound_all fuel e c stk lrc pos ns cp err c' :
    wf rules site e -> xcache_sound inp rules site c -> in_file inp pos ->
    parse inp rules fuel e c stk lrc pos = Ok (ns, cp, err, c') ->
    xcache_sound inp rules site c' /\
    forall n, In n ns -> exists d, xvalid inp rules e pos d /\ xyield inp d = n.
  Proof. intros Hw Hc Hin H. exact (proj1 (xsound_inv fuel) e c stk lrc pos ns cp err c' Hw Hc Hin H). Qed.

  Lemma xcsound_ctx0 : csound ctx0.
  Proof. intros idx pos r H. discriminate. Qed.

  Theorem C01_sound_all fuel root ns cp err c :
    wf rules site root ->
    run inp rules fuel root = Ok (ns, cp, err, c) ->
    xcache_sound inp rules site c /\
    forall n, In n ns ->
      (exists d, xvalid inp rules root (i_offset inp) d /\ xyield inp d = n) /\
      ws_run inp (i_offset inp) (node_pos n) /\ node_pos n <= node_rpos n /\
      in_file inp (node_rpos n) /\ xspan_ok inp n.
  Proof.
    intros Hw H. unfold run in H.
    destruct (parse_sound_all fuel root ctx0 [] [] (i_offset inp) ns cp err c Hw xcsound_ctx0 (in_file_offset inp) H) as [Hc Hn].
    split; [exact Hc|]. intros n Hin. destruct (Hn n Hin) as [d [Hv Hy]].
    split; [exists d; split; assumption|].
    destruct (xvalid_span inp rules root (i_offset inp) d (in_file_offset inp) Hv) as [H1 [H2 [H3 H4]]].
    unfold xdend in *. rewrite Hy in *. split; [exact H1|]. split; [exact H2|]. split; [exact H3|exact H4].
  Qed.
End XSound.

(* ---- the extension is conservative: on the C01 fragment [xvalid] and [Spec.valid] have the
   same yields ---- *)
Fixpoint embed (d : dtree) : xtree :=
  match d with
  | DTerm n => XTerm n | DEmpty p => XEmpty p | DEnd p => XEnd p
  | DRef k d' => XRef k (embed d') | DMemo i d' => XMemo i (embed d') | DAlt i d' => XAlt i (embed d')
  | DOptS d' => XOptS (embed d') | DOptN p => XOptN p
  | DSeq q p ds => XSeq q p (map embed ds)
  end.

Lemma valid_xvalid inp rules :
  (forall e pos d, valid inp rules e pos d -> xvalid inp rules e pos (embed d) /\ xyield inp (embed d) = yield d) /\
  (forall k ps depth pos ds, valid_seq inp rules k ps depth pos ds ->
     xvalid_seq inp rules k ps depth pos (map embed ds) /\ map (xyield inp) (map embed ds) = map yield ds).
Proof.
  apply valid_mutind.
  - intros t pos n H. split; [apply XVTerm; exact H|reflexivity].
  - intros pos. split; [apply XVEmpty|reflexivity].
  - intros pos H. split; [apply XVEnd; exact H|reflexivity].
  - intros k body pos d Hn _ [IH1 IH2]. split; [eapply XVRef; eassumption|exact IH2].
  - intros idx e pos d _ [IH1 IH2]. split; [apply XVMemo; exact IH1|exact IH2].
  - intros ps i e pos d Hn _ [IH1 IH2]. split; [eapply XVAny; eassumption|exact IH2].
  - intros ps i e pos d Hn _ [IH1 IH2]. split; [eapply XVChoice; eassumption|exact IH2].
  - intros e pos d _ [IH1 IH2]. split; [apply XVOptS; exact IH1|exact IH2].
  - intros e pos. split; [apply XVOptN|reflexivity].
  - intros k ip single ps pos ds _ [IH1 IH2] Hlen. cbn [embed xyield yield]. rewrite IH2. split; [|reflexivity].
    apply XVSeq; [exact IH1|rewrite map_length; exact Hlen].
  - intros k ps depth pos. split; [apply XVSnil|reflexivity].
  - intros k ps depth pos e d ds Hl _ [IHd1 IHd2] _ [IHs1 IHs2]. cbn [map]. rewrite IHd2, IHs2. split; [|reflexivity].
    eapply XVScons; [exact Hl|exact IHd1|]. unfold xdend. rewrite IHd2. exact IHs1.
Qed.

Lemma xvalid_valid inp rules : frag_rules rules ->
  (forall e pos x, xvalid inp rules e pos x -> frag e = true -> exists d, valid inp rules e pos d /\ yield d = xyield inp x) /\
  (forall k ps depth pos xs, xvalid_seq inp rules k ps depth pos xs -> forallb frag ps = true ->
     exists ds, valid_seq inp rules k ps depth pos ds /\ map yield ds = map (xyield inp) xs).
Proof.
  intros Hfr. apply xvalid_mutind.
  - intros t pos n H _. exists (DTerm n). split; [apply VTerm; exact H|reflexivity].
  - intros pos _. exists (DEmpty pos). split; [apply VEmpty|reflexivity].
  - intros pos H _. exists (DEnd pos). split; [apply VEnd; exact H|reflexivity].
  - intros k body pos x Hn _ IH _. destruct (IH (Hfr k body Hn)) as [d [Hv Hy]].
    exists (DRef k d). split; [eapply VRef; eassumption|exact Hy].
  - intros idx e pos x _ IH Hf. destruct (IH Hf) as [d [Hv Hy]].
    exists (DMemo idx d). split; [apply VMemo; exact Hv|exact Hy].
  - intros ps i e pos x Hn _ IH Hf. cbn [frag] in Hf. rewrite forallb_forall in Hf.
    destruct (IH (Hf e (nth_error_In ps i Hn))) as [d [Hv Hy]].
    exists (DAlt i d). split; [eapply VAny; eassumption|exact Hy].
  - intros ps i e pos x Hn _ IH Hf. cbn [frag] in Hf. rewrite forallb_forall in Hf.
    destruct (IH (Hf e (nth_error_In ps i Hn))) as [d [Hv Hy]].
    exists (DAlt i d). split; [eapply VChoice; eassumption|exact Hy].
  - intros e pos x _ IH Hf. destruct (IH Hf) as [d [Hv Hy]].
    exists (DOptS d). split; [apply VOptS; exact Hv|exact Hy].
  - intros e pos _. exists (DOptN pos). split; [apply VOptN|reflexivity].
  - intros k ip single name ps pos xs _ IH Hlen Hf. cbn [frag] in Hf. destruct name; [discriminate|].
    destruct (IH Hf) as [ds [Hv Hy]].
    exists (DSeq {| q_kind := k; q_ip := ip; q_single := single; q_ps := ps |} pos ds).
    split; [|cbn [yield xyield]; rewrite Hy; reflexivity].
    apply VSeq; [exact Hv|]. rewrite <- (map_length yield), Hy, map_length. exact Hlen.
  - intros; discriminate.
  - intros; discriminate.
  - intros; discriminate.
  - intros; discriminate.
  - intros; discriminate.
  - intros; discriminate.
  - intros; discriminate.
  - intros k ps depth pos _. exists []. split; [apply VSnil|reflexivity].
  - intros k ps depth pos e x xs Hl _ IHd _ IHs Hf.
    assert (Hfe : frag e = true) by (rewrite forallb_forall in Hf; exact (Hf e (seq_lookup_in _ _ _ _ Hl))).
    destruct (IHd Hfe) as [d [Hv Hy]]. destruct (IHs Hf) as [ds [Hvs Hys]].
    exists (d :: ds). split; [|cbn [map]; rewrite Hy, Hys; reflexivity].
    eapply VScons; [exact Hl|exact Hv|]. unfold dend. rewrite Hy. exact Hvs.
Qed.

(* ---- Sentence over any root ---- *)
Lemma xvalid_sentence_inv inp rules root pos d :
  xvalid inp rules (sentence root) pos d ->
  exists d1, xvalid inp rules root pos d1 /\ is_eof inp (xdend inp d1) = true /\
    xyield inp d = NNonTerm (seq_token SeqOf) (ISelect 0) [xyield inp d1; NEnd (xdend inp d1)]
                            (node_pos (xyield inp d1)) (xdend inp d1).
Proof.
  unfold sentence. intros Hv.
  inversion Hv as [| | | | | | | | |k ip single name ps pos' ds Hvs Hlen| | | | | | |]; subst.
  cbn [seq_lencheck length] in Hlen. apply Nat.eqb_eq in Hlen.
  destruct ds as [|d1 [|d2 [|d3 ds]]]; try discriminate.
  inversion Hvs as [|k ps depth pos' e1 d1' ds' Hl1 Hv1 Hvs1]; subst.
  cbn [seq_lookup nth_error] in Hl1. inversion Hl1; subst e1.
  inversion Hvs1 as [|k ps depth pos' e2 d2' ds' Hl2 Hv2 Hvs2]; subst.
  cbn [seq_lookup nth_error] in Hl2. inversion Hl2; subst e2.
  inversion Hv2; subst.
  exists d1. split; [exact Hv1|]. split; [assumption|]. reflexivity.
Qed.

(* THEOREM 3 for every combinator.  With whitespace trimming the tree starts at the first
   NON-WHITESPACE byte (see [sentence_lefttrim_start]); it always ends at end of input. *)
Theorem C04_sentence_sound_all inp rules site fuel root ns c :
  wf_rules rules site -> wf rules site root ->
  parse_top inp rules fuel (sentence root) = Ok (TopNode ns c) ->
  exists n, ns = [n] /\
    ws_run inp (i_offset inp) (node_pos n) /\ node_rpos n = i_offset inp + i_len inp /\ xspan_ok inp n /\
    exists d, xvalid inp rules root (i_offset inp) d /\ xdend inp d = i_offset inp + i_len inp /\
      n = NNonTerm (seq_token SeqOf) (ISelect 0) [xyield inp d; NEnd (i_offset inp + i_len inp)]
                   (node_pos (xyield inp d)) (i_offset inp + i_len inp).
Proof.
  intros Hwf Hw H. unfold parse_top in H. apply bind_ok in H.
  destruct H as [[[[nodes cp] err] c0] [H1 H2]].
  assert (E : nodes = ns /\ nodes <> []).
  { destruct nodes as [|n0 nodes]; destruct err as [e|]; cbn zeta beta iota in H2.
    - discriminate.
    - destruct (cerr c0); discriminate.
    - discriminate.
    - inversion H2; subst. split; [reflexivity|discriminate]. }
  destruct E as [E Hne]. subst nodes. clear H2.
  assert (Hws : wf rules site (sentence root)) by (cbn; tauto).
  destruct (C01_sound_all inp rules site Hwf fuel (sentence root) ns cp err c0 Hws H1) as [_ Hn].
  unfold run in H1. apply sentence_single in H1. destruct H1 as [E|[n E]]; [contradiction|].
  subst ns. exists n. split; [reflexivity|].
  destruct (Hn n (or_introl eq_refl)) as [[d [Hv Hy]] [G1 [G2 [G3 G4]]]].
  destruct (xvalid_sentence_inv inp rules root (i_offset inp) d Hv) as [d1 [Hv1 [Heof Hyd]]].
  rewrite Hy in Hyd.
  destruct (xvalid_span inp rules root (i_offset inp) d1 (in_file_offset inp) Hv1) as [K1 [K2 [[K3 K4] K5]]].
  assert (Hend : xdend inp d1 = i_offset inp + i_len inp).
  { unfold is_eof in Heof. apply N.leb_le in Heof. lia. }
  split; [exact G1|]. split; [rewrite Hyd; cbn [node_rpos]; exact Hend|]. split; [exact G4|].
  exists d1. split; [exact Hv1|]. split; [exact Hend|]. rewrite Hyd, Hend. reflexivity.
Qed.

(* non-vacuity: a left-recursive grammar that uses a named sequence, ReturnError, LeftTrim,
   RightTrim, Single and SuppressError, on "a + a " at offset 5 *)
Definition x_rules : list pexpr :=
  [PMemo 1 (PAny [PSeq SeqOf INone false (Some [115])
                       [PRef 0; PLeftTrim WsSpaces (PTerm (TRune 43)); PLeftTrim WsSpaces (PRef 1)];
                  PRef 1]);
   PMemo 2 (PName [110] (PRightTrim WsSpaces (PSingle (PSeq SeqOf INone false None [PSuppress (PTerm (TRune 97))]))))].
Definition x_site (i : N) : option pexpr :=
  match nth_N x_rules (i - 1) with Some (PMemo _ b) => Some b | _ => None end.
Definition x_inp : input := (mk_input [97; 32; 43; 32; 97; 32] 5).
Definition x_ns : list node :=
  [NNonTerm [83; 69; 81] INone [NTerm [97] (VRune 97) 5 7; NTerm [43] (VRune 43) 7 8; NTerm [97] (VRune 97) 9 11] 5 11;
   NTerm [97] (VRune 97) 5 7].
Lemma x_wf_rules : wf_rules x_rules x_site.
Proof.
  intros k body H. unfold nth_N, x_rules in H.
  destruct (N.to_nat k) as [|[|[|n]]]; cbn [nth_error] in H; try discriminate; inversion H; subst; vm_compute; repeat split.
Qed.
Lemma x_run : exists cp err c, run x_inp x_rules 200 (PRef 0) = Ok (x_ns, cp, err, c).
Proof. vm_compute. eexists _, _, _. reflexivity. Qed.
Example C01_sound_all_example :
  (exists cp err c, run x_inp x_rules 200 (PRef 0) = Ok (x_ns, cp, err, c)) /\
  forall n, In n x_ns ->
    (exists d, xvalid x_inp x_rules (PRef 0) 5 d /\ xyield x_inp d = n) /\
    ws_run x_inp 5 (node_pos n) /\ node_pos n <= node_rpos n /\ in_file x_inp (node_rpos n) /\ xspan_ok x_inp n.
Proof.
  split; [exact x_run|]. destruct x_run as [cp [err [c H]]].
  assert (Hw : wf x_rules x_site (PRef 0)) by (vm_compute; reflexivity).
  exact (proj2 (C01_sound_all x_inp x_rules x_site x_wf_rules 200 (PRef 0) x_ns cp err c Hw H)).
Qed.

(* FINDING (about the property text, not a defect): under a left-trimmed root a Sentence's tree
   does not start at the first byte but at the first non-whitespace byte *)
Example sentence_lefttrim_start :
  exists c, parse_top (mk_input [32; 97] 1) [] 20 (sentence (PLeftTrim WsSpaces (PTerm (TRune 97)))) =
            Ok (TopNode [NNonTerm [83; 69; 81] (ISelect 0) [NTerm [97] (VRune 97) 2 3; NEnd 3] 2 3] c).
Proof. vm_compute. eexists. reflexivity. Qed.

(* three behaviours of the trimming combinators that shaped [xvalid] (all faithful to text/trim.go,
   combinator/single.go): *)
(* RightTrim returns the operand's nodes UNTRIMMED when the operand also returned an error
   (Optional returns [EMPTY] together with its operand's error) — constructor [XRKeep] *)
Example righttrim_keeps_with_error :
  exists cp c, run (mk_input [32] 1) [] 20 (PRightTrim WsSpaces (POpt (PTerm (TRune 97)))) =
               Ok ([NEmpty 1], cp, Some {| epos := 2; ecause := CNotFound [34; 97; 34] |}, c).
Proof. vm_compute. eexists _, _. reflexivity. Qed.
(* RightTrim moves an EMPTY node as a whole: the result STARTS after the whitespace although no
   LeftTrim is involved — hence "ws_run pos (node_pos n)" instead of "node_pos n = pos" *)
Example righttrim_moves_empty :
  exists cp c, run (mk_input [32] 1) [] 20 (PRightTrim WsSpaces (POpt (PSuppress (PTerm (TRune 97))))) =
               Ok ([NEmpty 2], cp, None, c).
Proof. vm_compute. eexists _, _. reflexivity. Qed.
(* Single returns the untrimmed child of a right-trimmed one-child sequence: the reader position
   goes back in front of the whitespace ([XSingleU]: the end is the child's, not the parent's) *)
Example single_undoes_righttrim :
  exists cp c, run (mk_input [97; 32] 1) [] 20
                   (PSingle (PRightTrim WsSpaces (PSeq SeqOf INone false None [PTerm (TRune 97)]))) =
               Ok ([NTerm [97] (VRune 97) 1 2], cp, None, c).
Proof. vm_compute. eexists _, _. reflexivity. Qed.

(* ------------------------------------------------------------------------------------- *)
(* non-vacuity with LITERAL terminals (terminal.Integer, terminal.Op through Literals.v): the
   left-recursive sum  S -> S "+" INTEGER | INTEGER  on "1+23" at offset 1; C01_sound and
   C01_sound_spells apply as they are (no domain hypothesis is needed for soundness)        *)
Definition lx_body : pexpr :=
  PAny [PSeq SeqOf INone false None [PRef 0; PTerm (TLit (LOp [43])); PTerm (TLit LInteger)]; PTerm (TLit LInteger)].
Definition lx_rules : list pexpr := [PMemo 1 lx_body].
Definition lx_site (i : N) : option pexpr := if i =? 1 then Some lx_body else None.
Definition lx_inp : input := mk_input [49; 43; 50; 51] 1.          (* 1+23 *)
Definition lx_one : node := NTerm [73; 78; 84; 69; 71; 69; 82] (VInt (BinNums.Zpos 1%positive)) 1 2.
Definition lx_sum : node :=
  NNonTerm [83; 69; 81] INone [lx_one; NTerm [43] (VStr [43]) 2 3; NTerm [73; 78; 84; 69; 71; 69; 82] (VInt (BinNums.Zpos 23%positive)) 3 5] 1 5.
Lemma lx_frag_rules : frag_rules lx_rules.
Proof.
  intros k body H. unfold nth_N, lx_rules in H. destruct (N.to_nat k) as [|[|n]]; cbn [nth_error] in H; try discriminate.
  inversion H; subst. reflexivity.
Qed.
Lemma lx_wf_rules : wf_rules lx_rules lx_site.
Proof.
  intros k body H. unfold nth_N, lx_rules in H. destruct (N.to_nat k) as [|[|n]]; cbn [nth_error] in H; try discriminate.
  inversion H; subst. cbn. split; [reflexivity|]. split; [|tauto]. split; [reflexivity|tauto].
Qed.
Lemma lx_run : exists cp err c, run lx_inp lx_rules 100 (PRef 0) = Ok ([lx_sum; lx_one], cp, err, c).
Proof. vm_compute. eexists _, _, _. reflexivity. Qed.
Example C01_sound_literal_example :
  (exists cp err c, run lx_inp lx_rules 100 (PRef 0) = Ok ([lx_sum; lx_one], cp, err, c)) /\
  (forall n, In n [lx_sum; lx_one] ->
     (exists d, valid lx_inp lx_rules (PRef 0) 1 d /\ yield d = n) /\
     node_pos n = 1 /\ 1 <= node_rpos n /\ in_file lx_inp (node_rpos n) /\ span_ok lx_inp n) /\
  leaves lx_inp lx_sum = [49; 43; 50; 51].
Proof.
  split; [exact lx_run|]. destruct lx_run as [cp [err [c H]]]. split.
  - exact (proj2 (C01_sound lx_inp lx_rules lx_site lx_frag_rules lx_wf_rules 100 (PRef 0) _ cp err c
                    eq_refl (eq_refl : wf lx_rules lx_site (PRef 0)) H)).
  - reflexivity.
Qed.
