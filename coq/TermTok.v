(* TermTok.v — the TOKEN of a literal terminal's node is the parser's own ([Literals.lit_token]), for
   every reader, position and construction parameter (companion of TermFacts.v). *)
From Coq Require Import String List NArith ZArith Bool Lia.
From Parsley Require Import Obs Base FileSet Utf8 Reader Regex Literals LiteralProofs.
From Parsley Require Import Grammar Engine TermFacts.
Import ListNotations.
Open Scope N_scope.

Local Lemma bind_ok'' {A B} (o : outcome A) (k : A -> outcome B) x :
  bind o k = Ok x -> exists a, o = Ok a /\ k a = Ok x.
Proof. destruct o as [a| |]; cbn [bind]; intros H; [exists a; auto | discriminate | discriminate]. Qed.

Section Tok.
  Variable cf : list N -> option N.
  Variable cd : list N -> option Z.
  Variable r : reader.
  Variable pos : N.

  (* peel the binds and the tests of a parser until every branch is a [ret_node] / [ret_err] / Panic *)
  Ltac peel :=
    repeat match goal with
           | H : bind _ _ = Ok _ |- _ => apply bind_ok'' in H; let a := fresh "a" in let Ha := fresh "Ha" in destruct H as (a & Ha & H)
           | H : (if ?b then _ else _) = Ok _ |- _ => destruct b
           | H : match ?x with Some _ => _ | None => _ end = Ok _ |- _ => destruct x
           | H : (let '(_, _) := ?x in _) = Ok _ |- _ => destruct x
           | H : Panic = Ok _ |- _ => discriminate H
           end.
  Ltac done_ := unfold ret_node, ret_err in *;
    match goal with
    | H : Ok _ = Ok (Some _, _) |- _ => inversion H; subst; reflexivity
    | H : Ok _ = Ok (Some _, _) |- _ => discriminate H
    end.

  Theorem lit_parse_token l nd e : lit_parse cf cd l r pos = Ok (Some nd, e) -> ln_token nd = lit_token l.
  Proof.
    destruct l; cbn [lit_parse]; intros H.
    - unfold p_integer in H. peel; done_.
    - unfold p_float in H. peel; done_.
    - unfold p_string in H. peel; done_.
    - unfold p_char in H. peel; done_.
    - unfold p_bool in H. destruct t; [discriminate|]. destruct f; [discriminate|]. peel; done_.
    - unfold p_nil in H. destruct s; [discriminate|]. peel; done_.
    - unfold p_word in H. destruct w; [discriminate|]. peel; done_.
    - unfold p_op in H. destruct s; [discriminate|]. peel; done_.
    - unfold p_rune in H. peel; done_.
    - unfold p_duration in H. peel; done_.
    - unfold p_regexp in H. peel; done_.
  Qed.
End Tok.

Lemma term_parse_lit_token inp l pos tok v p r err :
  term_parse inp (TLit l) pos = ([NTerm tok v p r], err) -> tok = lit_token l.
Proof.
  unfold term_parse, lit_conv. destruct (lit_parse _ _ _ _ _) as [[[nd|] [e|]]| |] eqn:E; intros H; inversion H; subst;
    apply lit_parse_token in E; exact E.
Qed.

(* a terminal whose node can never carry the token "EOF" (combinator/seq.go recognises the end-of-input
   node BY ITS TOKEN, so e.g. terminal.Word("eof"), whose token is "EOF", would be taken for it) *)
Definition term_noeof (t : terminal) : bool :=
  match t with TRune _ => true | TLit l => negb (list_N_eqb (lit_token l) tok_EOF) end.
Lemma term_parse_noeof inp t pos n err :
  term_noeof t = true -> term_parse inp t pos = ([n], err) -> is_eof_node n = false.
Proof.
  intros Ht H. destruct t as [c|l].
  - apply term_parse_rune_node in H. destruct H as (_ & -> & _).
    unfold is_eof_node. cbn [node_token tok_EOF list_N_eqb]. apply andb_false_r.
  - pose proof H as H'. apply term_parse_lit_node in H'. destruct H' as (_ & tok & v & r & -> & _).
    apply term_parse_lit_token in H. subst tok. unfold is_eof_node. cbn [node_token].
    cbn [term_noeof] in Ht. apply negb_true_iff in Ht. exact Ht.
Qed.
