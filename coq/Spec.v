(* Spec.v — what a grammar derives (C01): derivation trees, the node a derivation yields,
   validity of a derivation for an expression at a position, span well-formedness, and
   compatibility of a derivation with a left-recursion context (used by completeness).
   No engine here: this is the specification the engine is proved against. *)
From Coq Require Import String List NArith Bool Arith.
From Parsley Require Import Obs Base Grammar Engine.
Import ListNotations.
Open Scope N_scope.

(* derivation trees carry the rule / Memoize / alternative annotations that nodes forget *)
Inductive dtree :=
| DTerm (n : node)                              (* a terminal's node *)
| DEmpty (pos : N)                              (* parser.Empty *)
| DEnd (pos : N)                                (* parser.End at end of input *)
| DRef (k : N) (d : dtree)
| DMemo (idx : N) (d : dtree)
| DAlt (i : nat) (d : dtree)                    (* alternative i of Any / Choice *)
| DOptS (d : dtree)                             (* Optional: the operand matched *)
| DOptN (pos : N)                               (* Optional: the empty match *)
| DSeq (q : seqinfo) (pos : N) (ds : list dtree).   (* a sequence-family node *)

Section Yield.
  Variable inp : input.
  Fixpoint yield (d : dtree) : node :=
    match d with
    | DTerm n => n
    | DEmpty p => NEmpty p
    | DEnd p => NEnd p
    | DRef _ d' | DMemo _ d' | DAlt _ d' | DOptS d' => yield d'
    | DOptN p => NEmpty p
    | DSeq q p ds => handle_result q p (map yield ds)
    end.
  Definition dend (d : dtree) : N := node_rpos (yield d).
End Yield.

(* the fragment C01 quantifies over: Any, SeqOf, Optional, Empty, End, Choice, Many, SepBy,
   SeqTry, SeqFirstOrAll, memoized nonterminals, rune terminals; sequences unnamed *)
Fixpoint frag (e : pexpr) : bool :=
  match e with
  | PTerm _ | PEmpty | PEnd | PRef _ => true
  | PMemo _ p | POpt p => frag p
  | PAny ps | PChoice ps => forallb frag ps
  | PSeq _ _ _ None ps => forallb frag ps
  | _ => false
  end.
(* monotone part (completeness is proved for it): no Choice, only SeqOf sequences *)
Fixpoint mono (e : pexpr) : bool :=
  match e with
  | PTerm _ | PEmpty | PEnd | PRef _ => true
  | PMemo _ p | POpt p => mono p
  | PAny ps => forallb mono ps
  | PSeq SeqOf _ _ None ps => forallb mono ps
  | _ => false
  end.

Section Valid.
  Variable inp : input.
  Variable rules : list pexpr.

  (* d is a derivation of e from pos.  Structural part only: Choice's first-match rule and the
     sequence family's "stop where the next element has no match" rule are negative
     conditions, stated separately (exactness). *)
  Inductive valid : pexpr -> N -> dtree -> Prop :=
  | VTerm t pos n : term_parse inp t pos = ([n], None) -> valid (PTerm t) pos (DTerm n)
  | VEmpty pos : valid PEmpty pos (DEmpty pos)
  | VEnd pos : is_eof inp pos = true -> valid PEnd pos (DEnd pos)
  | VRef k body pos d : nth_N rules k = Some body -> valid body pos d -> valid (PRef k) pos (DRef k d)
  | VMemo idx e pos d : valid e pos d -> valid (PMemo idx e) pos (DMemo idx d)
  | VAny ps i e pos d : nth_error ps i = Some e -> valid e pos d -> valid (PAny ps) pos (DAlt i d)
  | VChoice ps i e pos d : nth_error ps i = Some e -> valid e pos d -> valid (PChoice ps) pos (DAlt i d)
  | VOptS e pos d : valid e pos d -> valid (POpt e) pos (DOptS d)
  | VOptN e pos : valid (POpt e) pos (DOptN pos)
  | VSeq k ip single ps pos ds :
      valid_seq k ps 0%nat pos ds ->
      seq_lencheck k (length ps) (length ds) = true ->
      valid (PSeq k ip single None ps) pos
            (DSeq {| q_kind := k; q_ip := ip; q_single := single; q_ps := ps |} pos ds)
  with valid_seq : seqkind -> list pexpr -> nat -> N -> list dtree -> Prop :=
  | VSnil k ps depth pos : valid_seq k ps depth pos []
  | VScons k ps depth pos e d ds :
      seq_lookup k ps depth = Some e -> valid e pos d ->
      valid_seq k ps (S depth) (dend d) ds -> valid_seq k ps depth pos (d :: ds).

  (* ---- span well-formedness of nodes ---- *)
  Definition in_file (p : N) : Prop := i_offset inp <= p /\ p <= i_offset inp + i_len inp.
  Fixpoint chain (start : N) (ns : list node) : Prop :=       (* contiguous children *)
    match ns with [] => True | n :: t => node_pos n = start /\ chain (node_rpos n) t end.
  Fixpoint span_ok (n : node) : Prop :=
    match n with
    | NTerm _ (VRune c) p r => r = p + 1 /\ byte_at inp p = Some c     (* the leaf spells the byte it consumed *)
    | NTerm _ _ p r => p <= r
    | NEmpty _ | NEnd _ => True
    | NNonTerm _ _ cs p r =>
      p <= r /\ chain p cs /\ (match cs with [] => r = p | _ => r = node_rpos (last cs (NEmpty p)) end) /\
      (fix all (l : list node) : Prop := match l with [] => True | x :: t => span_ok x /\ all t end) cs
    end.

  (* ---- compatibility of a derivation with a left-recursion context: mirrors how the
     engine threads the counters; a derivation compatible with the empty context is one the
     curtailment bound does not cut ---- *)
  Fixpoint compat (lrc : intmap) (pos : N) (d : dtree) {struct d} : Prop :=
    match d with
    | DTerm _ | DEmpty _ | DEnd _ | DOptN _ => True
    | DRef _ d' | DAlt _ d' | DOptS d' => compat lrc pos d'
    | DMemo idx d' => map_get idx lrc <= remaining inp pos + 1 /\ compat (map_inc idx lrc) pos d'
    | DSeq _ _ ds =>
      (fix cs (lrc : intmap) (pos : N) (ds : list dtree) {struct ds} : Prop :=
         match ds with
         | [] => True
         | d' :: ds' => compat lrc pos d' /\ cs (if pos <? dend d' then [] else lrc) (dend d') ds'
         end) lrc pos ds
    end.
  Definition compat_seq :=
    fix cs (lrc : intmap) (pos : N) (ds : list dtree) {struct ds} : Prop :=
      match ds with
      | [] => True
      | d' :: ds' => compat lrc pos d' /\ cs (if pos <? dend d' then [] else lrc) (dend d') ds'
      end.
  Lemma compat_DSeq lrc pos q p ds : compat lrc pos (DSeq q p ds) = compat_seq lrc pos ds.
  Proof. reflexivity. Qed.
End Valid.

Scheme valid_ind2 := Minimality for valid Sort Prop
  with valid_seq_ind2 := Minimality for valid_seq Sort Prop.

(* well-formed grammars: every rule body is a Memoize, indexes pairwise distinct, every
   reference points to a rule, every Memoize inside the grammar is one of the rules' own
   wrappers or has an index used once ([site] maps an index to the expression it wraps) *)
Section WF.
  Variable rules : list pexpr.
  Variable site : N -> option pexpr.
  Fixpoint wf (e : pexpr) : Prop :=
    match e with
    | PTerm _ | PEmpty | PEnd => True
    | PRef k => k < len_N rules
    | PMemo idx p => site idx = Some p /\ wf p
    | POpt p | PName _ p | PLeftTrim _ p | PRightTrim _ p | PSuppress p | PSingle p => wf p
    | PAny ps | PChoice ps | PSeq _ _ _ _ ps =>
      (fix all (l : list pexpr) : Prop := match l with [] => True | x :: t => wf x /\ all t end) ps
    end.
  Definition wfs := fix all (l : list pexpr) : Prop := match l with [] => True | x :: t => wf x /\ all t end.
  Definition wf_rules : Prop := forall k body, nth_N rules k = Some body -> wf body.
End WF.
