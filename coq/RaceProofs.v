(* C14 — proofs about the interleaving semantics of Race.v.

   drf_generic        no conflicts in the summary  ->  no permitted trace (= no interleaving of any number
                      of threads) contains a data race
   solo_generic       ... and every non-atomic read of a thread returns what it would return if the
                      other threads did not exist
   solo_full          ... for a kind of thread without sync/atomic sites: the projection of the trace to
                      the thread is a sequentially consistent execution on its own
   solo_deterministic a deterministic thread then performs exactly its solo execution
   race_adjacent      justification of [has_race]: a conflicting pair can be made adjacent in another
                      interleaving of the same threads *)
From Coq Require Import String Ascii List Bool Arith NArith Lia.
From Parsley Require Import Race.
Import ListNotations.
Open Scope string_scope.
Open Scope list_scope.

(* ------------------------------------------------------------------------------------- *)
(* lists *)

Lemma mem_In : forall x l, mem x l = true <-> In x l.
Proof.
  intros x l. unfold mem. rewrite existsb_exists. split.
  - intros [y [Hy He]]. apply String.eqb_eq in He. subst. exact Hy.
  - intros H. exists x. split; [exact H | apply String.eqb_refl].
Qed.

Lemma flat_map_nil : forall (A B : Type) (f : A -> list B) l,
  flat_map f l = [] -> forall x, In x l -> f x = [].
Proof.
  intros A B f l. induction l as [|a l IH]; simpl; intros H x Hx.
  - contradiction.
  - apply app_eq_nil in H. destruct H as [H1 H2]. destruct Hx as [Hx|Hx].
    + subst. exact H1.
    + apply IH; assumption.
Qed.

Lemma aloc_eqb_refl : forall a, aloc_eqb a a = true.
Proof.
  intros [v|t f|f v]; simpl; rewrite ?String.eqb_refl; reflexivity.
Qed.

(* ------------------------------------------------------------------------------------- *)
(* the computed reach set covers the call-reachable functions, provided the check found it closed *)

Lemma reach_complete : forall p, closure_defects p = [] ->
  forall k f, reachable p (roots p k) f -> mem f (reach p k) = true.
Proof.
  intros p Hc k f Hr.
  assert (Hk : In k [KParse; KCtor]) by (destruct k; simpl; auto).
  unfold closure_defects in Hc.
  pose proof (flat_map_nil _ _ _ _ Hc k Hk) as Hck. cbv beta zeta in Hck.
  apply app_eq_nil in Hck. destruct Hck as [Hroots Hcalls].
  induction Hr as [f Hf | fn g Hr IH Hfn Hg].
  - pose proof (flat_map_nil _ _ _ _ Hroots f Hf) as H. cbv beta in H.
    destruct (mem f (reach p k)); [reflexivity | discriminate H].
  - pose proof (flat_map_nil _ _ _ _ Hcalls fn Hfn) as H. cbv beta in H.
    rewrite IH in H.
    pose proof (flat_map_nil _ _ _ _ H g Hg) as H2. cbv beta in H2.
    destruct (mem g (reach p k)); [reflexivity | discriminate H2].
Qed.

Lemma site_in_sites_of : forall p k fn s, closure_defects p = [] ->
  In fn (p_funcs p) -> reachable p (roots p k) (f_name fn) -> In s (f_sites fn) ->
  In (f_name fn, s) (sites_of p k).
Proof.
  intros p k fn s Hc Hfn Hr Hs. unfold sites_of.
  apply in_flat_map. exists fn. split; [exact Hfn|].
  rewrite (reach_complete p Hc k _ Hr). apply in_map. exact Hs.
Qed.

Lemma shared_site_listed : forall p k fn s, closure_defects p = [] ->
  In fn (p_funcs p) -> reachable p (roots p k) (f_name fn) -> In s (f_sites fn) -> sharedb k s = true ->
  In (k, (f_name fn, s)) (shared_sites p).
Proof.
  intros p k fn s Hc Hfn Hr Hs Hsh. unfold shared_sites.
  apply in_flat_map. exists k. split; [destruct k; simpl; auto|].
  apply in_map. apply filter_In. split.
  - apply site_in_sites_of; assumption.
  - exact Hsh.
Qed.

Lemma race_conflicts_complete : forall p (w a : tagged),
  In w (shared_sites p) -> In a (shared_sites p) ->
  s_write (snd (snd w)) = true -> conflictb (snd (snd w)) (snd (snd a)) = true ->
  race_conflicts p <> [].
Proof.
  intros p w a Hw Ha Hwr Hcf Hnil. unfold race_conflicts in Hnil.
  assert (Hwf : In w (filter (fun w : tagged => s_write (snd (snd w))) (shared_sites p))).
  { apply filter_In. split; assumption. }
  pose proof (flat_map_nil _ _ _ _ Hnil w Hwf) as H1. cbv beta in H1.
  pose proof (flat_map_nil _ _ _ _ H1 a Ha) as H2. cbv beta in H2.
  rewrite Hcf in H2. discriminate H2.
Qed.

Lemma conflicts_nil : forall p, conflicts p = [] ->
  wf_defects p = [] /\ closure_defects p = [] /\ race_conflicts p = [].
Proof.
  intros p H. unfold conflicts in H.
  apply app_eq_nil in H. destruct H as [H1 H]. apply app_eq_nil in H. tauto.
Qed.

(* ------------------------------------------------------------------------------------- *)
(* no data race *)

Lemma place_eq_shared : forall k1 t1 s1 k2 t2 s2, t1 <> t2 ->
  place k1 t1 s1 = place k2 t2 s2 ->
  sharedb k1 s1 = true /\ sharedb k2 s2 = true /\ s_loc s1 = s_loc s2.
Proof.
  intros k1 t1 s1 k2 t2 s2 Hne H. unfold place in H.
  destruct (sharedb k1 s1), (sharedb k2 s2); try discriminate H.
  - inversion H. auto.
  - inversion H. contradiction.
Qed.

Lemma no_conflicting_pair : forall p, conflicts p = [] ->
  forall k1 k2 e1 e2, permits p k1 e1 -> permits p k2 e2 -> ~ conflicting e1 e2.
Proof.
  intros p Hc k1 k2 e1 e2 A1 A2 [Hne [Hloc [Hw Hat]]].
  destruct (conflicts_nil p Hc) as [_ [Hcl Hrc]].
  destruct A1 as [fn1 [s1 [Hfn1 [Hr1 [Hs1 [Hl1 [Ha1 Hw1]]]]]]].
  destruct A2 as [fn2 [s2 [Hfn2 [Hr2 [Hs2 [Hl2 [Ha2 Hw2]]]]]]].
  rewrite Hl1, Hl2 in Hloc.
  destruct (place_eq_shared _ _ _ _ _ _ Hne Hloc) as [Hsh1 [Hsh2 Heq]].
  pose proof (shared_site_listed p k1 fn1 s1 Hcl Hfn1 Hr1 Hs1 Hsh1) as In1.
  pose proof (shared_site_listed p k2 fn2 s2 Hcl Hfn2 Hr2 Hs2 Hsh2) as In2.
  assert (Hna : negb (s_atomic s1 && s_atomic s2) = true).
  { rewrite <- Ha1, <- Ha2. destruct Hat as [H|H]; rewrite H; simpl;
      [reflexivity | rewrite andb_false_r; reflexivity]. }
  destruct Hw as [H|H].
  - apply (race_conflicts_complete p (k1, (f_name fn1, s1)) (k2, (f_name fn2, s2)) In1 In2); simpl.
    + apply Hw1. exact H.
    + unfold conflictb. rewrite Heq, aloc_eqb_refl, (Hw1 H), Hna. reflexivity.
    + exact Hrc.
  - apply (race_conflicts_complete p (k2, (f_name fn2, s2)) (k1, (f_name fn1, s1)) In2 In1); simpl.
    + apply Hw2. exact H.
    + unfold conflictb. rewrite Heq, aloc_eqb_refl, (Hw2 H). rewrite andb_comm in Hna. rewrite Hna. reflexivity.
    + exact Hrc.
Qed.

Theorem drf_generic : forall p, conflicts p = [] ->
  forall kinds tr, permitted p kinds tr -> ~ has_race tr.
Proof.
  intros p Hc kinds tr Hadm [i [j [e1 [e2 [_ [H1 [H2 Hcf]]]]]]].
  unfold permitted in Hadm. rewrite Forall_forall in Hadm.
  apply nth_error_In in H1. apply nth_error_In in H2.
  exact (no_conflicting_pair p Hc _ _ e1 e2 (Hadm _ H1) (Hadm _ H2) Hcf).
Qed.

(* ------------------------------------------------------------------------------------- *)
(* each thread reads what it would read alone *)

Definition written_by_other (t : nat) (pre : list event) (l : cloc) : Prop :=
  exists e, In e pre /\ e_tid e <> t /\ e_loc e = l /\ e_write e = true.

Lemma has_race_split : forall pre e1 mid e2 post, conflicting e1 e2 ->
  has_race (pre ++ e1 :: mid ++ e2 :: post).
Proof.
  intros pre e1 mid e2 post H.
  exists (length pre), (length pre + S (length mid))%nat, e1, e2.
  split; [lia|]. split; [|split; [|exact H]].
  - rewrite nth_error_app2 by lia. rewrite Nat.sub_diag. reflexivity.
  - rewrite nth_error_app2 by lia.
    replace (length pre + S (length mid) - length pre)%nat with (S (length mid)) by lia.
    simpl. rewrite nth_error_app2 by lia. rewrite Nat.sub_diag. reflexivity.
Qed.

Lemma solo_aux : forall t suf pre m mt,
  ~ has_race (pre ++ suf) ->
  (forall l, m l = mt l \/ written_by_other t pre l) ->
  consistent m suf -> consistent_na mt (proj t suf).
Proof.
  intros t suf. induction suf as [|e suf IH]; intros pre m mt Hnr Hinv Hcons.
  - simpl. exact I.
  - simpl in Hcons. destruct Hcons as [Hread Hrest].
    assert (Hnr' : ~ has_race ((pre ++ [e]) ++ suf)) by (rewrite <- app_assoc; exact Hnr).
    unfold proj. simpl. unfold tid_eqb at 1. destruct (Nat.eqb (e_tid e) t) eqn:Et.
    + apply Nat.eqb_eq in Et. simpl. split.
      * intros Hw Hat. rewrite (Hread Hw).
        destruct (Hinv (e_loc e)) as [Heq | [e' [Hin [Hne [Hl Hw']]]]]; [exact Heq|].
        exfalso. apply Hnr.
        apply in_split in Hin. destruct Hin as [p1 [p2 Hp]]. subst pre.
        rewrite <- app_assoc. simpl. apply has_race_split.
        unfold conflicting. rewrite Et. repeat split; auto.
      * apply (IH (pre ++ [e]) (step_mem m e) (step_mem mt e) Hnr'); [|exact Hrest].
        intros l. unfold step_mem. destruct (e_write e) eqn:Ew.
        -- unfold upd. destruct (cloc_eq_dec l (e_loc e)); [left; reflexivity|].
           destruct (Hinv l) as [H | [e' [Hin H]]]; [left; exact H|].
           right. exists e'. split; [apply in_or_app; left; exact Hin | exact H].
        -- destruct (Hinv l) as [H | [e' [Hin H]]]; [left; exact H|].
           right. exists e'. split; [apply in_or_app; left; exact Hin | exact H].
    + apply Nat.eqb_neq in Et.
      apply (IH (pre ++ [e]) (step_mem m e) mt Hnr'); [|exact Hrest].
      intros l. unfold step_mem. destruct (e_write e) eqn:Ew.
      * unfold upd. destruct (cloc_eq_dec l (e_loc e)) as [El|El].
        -- right. exists e. split; [apply in_or_app; right; simpl; auto|]. auto.
        -- destruct (Hinv l) as [H | [e' [Hin H]]]; [left; exact H|].
           right. exists e'. split; [apply in_or_app; left; exact Hin | exact H].
      * destruct (Hinv l) as [H | [e' [Hin H]]]; [left; exact H|].
        right. exists e'. split; [apply in_or_app; left; exact Hin | exact H].
Qed.

(* Independent of summaries: in a race-free sequentially consistent trace every thread's non-atomic
   reads are explained by its own earlier writes and the initial memory alone. *)
Theorem race_free_solo : forall tr init t,
  ~ has_race tr -> consistent init tr -> consistent_na init (proj t tr).
Proof.
  intros tr init t Hnr Hc. apply (solo_aux t tr [] init init); auto.
Qed.

Theorem solo_generic : forall p, conflicts p = [] ->
  forall kinds tr init, permitted p kinds tr -> consistent init tr ->
  forall t, consistent_na init (proj t tr).
Proof.
  intros p Hc kinds tr init Hadm Hcons t.
  apply race_free_solo; [|exact Hcons]. exact (drf_generic p Hc kinds tr Hadm).
Qed.

(* A kind of thread without sync/atomic sites performs no atomic access *)
Lemma no_atomic_events : forall p k e, closure_defects p = [] ->
  atomic_sites p k = [] -> permits p k e -> e_atomic e = false.
Proof.
  intros p k e Hcl Hat [fn [s [Hfn [Hr [Hs [_ [Ha _]]]]]]].
  rewrite Ha. destruct (s_atomic s) eqn:E; [|reflexivity]. exfalso.
  pose proof (site_in_sites_of p k fn s Hcl Hfn Hr Hs) as Hin.
  assert (In (f_name fn, s) (atomic_sites p k)).
  { unfold atomic_sites. apply filter_In. split; [exact Hin | exact E]. }
  rewrite Hat in H. contradiction.
Qed.

Lemma consistent_na_all : forall tr m, Forall (fun e => e_atomic e = false) tr ->
  consistent_na m tr -> consistent m tr.
Proof.
  induction tr as [|e r IH]; intros m Hall H; simpl in *; [exact I|].
  inversion Hall as [|e' r' Hat Hr]; subst. destruct H as [Hhd Htl]. split.
  - intros Hw. apply Hhd; assumption.
  - apply IH; assumption.
Qed.

Theorem solo_full : forall p, conflicts p = [] ->
  forall kinds tr init, permitted p kinds tr -> consistent init tr ->
  forall t, atomic_sites p (kinds t) = [] -> consistent init (proj t tr).
Proof.
  intros p Hc kinds tr init Hadm Hcons t Hat.
  apply consistent_na_all; [|exact (solo_generic p Hc kinds tr init Hadm Hcons t)].
  destruct (conflicts_nil p Hc) as [_ [Hcl _]].
  unfold permitted in Hadm. rewrite Forall_forall in Hadm. apply Forall_forall.
  intros e He. unfold proj in He. apply filter_In in He. destruct He as [He Ht].
  unfold tid_eqb in Ht. apply Nat.eqb_eq in Ht.
  apply (no_atomic_events p (kinds t) e Hcl Hat). rewrite <- Ht. exact (Hadm e He).
Qed.

(* A deterministic thread whose reads are explained by its own memory performs its solo execution. *)
Lemma follows_consistent_solo : forall c t evs hist m,
  follows c t hist evs -> consistent m evs -> evs = solo c t m hist (length evs).
Proof.
  intros c t evs. induction evs as [|e r IH]; intros hist m Hf Hc; simpl; [reflexivity|].
  simpl in Hf. destruct Hf as [a [Hca [Ht [Hl [Hw [Ha [Hv Hf]]]]]]].
  simpl in Hc. destruct Hc as [Hread Hrest].
  rewrite Hca. destruct e as [et el ew ea ev]. simpl in *. subst et el ew ea.
  unfold step_mem in Hrest. simpl in Hrest.
  destruct (a_write a) eqn:Ew.
  - rewrite (Hv eq_refl) in *. f_equal. apply IH; assumption.
  - rewrite (Hread eq_refl) in *. f_equal. apply IH; assumption.
Qed.

Theorem solo_deterministic : forall p, conflicts p = [] ->
  forall kinds tr init, permitted p kinds tr -> consistent init tr ->
  forall t c, atomic_sites p (kinds t) = [] -> follows c t [] (proj t tr) ->
  proj t tr = solo c t init [] (length (proj t tr)).
Proof.
  intros p Hc kinds tr init Hadm Hcons t c Hat Hf.
  apply follows_consistent_solo; [exact Hf|].
  exact (solo_full p Hc kinds tr init Hadm Hcons t Hat).
Qed.

(* ------------------------------------------------------------------------------------- *)
(* why every conflicting pair of different threads counts as a race: without synchronisation the pair
   can be made adjacent by another interleaving of the very same per-thread sequences *)

Lemma proj_app : forall t a b, proj t (a ++ b) = proj t a ++ proj t b.
Proof. intros. unfold proj. apply filter_app. Qed.

Lemma proj_filter_same : forall t l, proj t (filter (tid_eqb t) l) = proj t l.
Proof.
  intros t l. unfold proj. induction l as [|e l IH]; simpl; [reflexivity|].
  destruct (tid_eqb t e) eqn:E; simpl; rewrite ?E, IH; reflexivity.
Qed.

Lemma proj_filter_not_same : forall t l, proj t (filter (fun e => negb (tid_eqb t e)) l) = [].
Proof.
  intros t l. unfold proj. induction l as [|e l IH]; simpl; [reflexivity|].
  destruct (tid_eqb t e) eqn:E; simpl; rewrite ?E, IH; reflexivity.
Qed.

Lemma proj_filter_other : forall t u l, t <> u -> proj t (filter (tid_eqb u) l) = [].
Proof.
  intros t u l Hne. unfold proj. induction l as [|e l IH]; simpl; [reflexivity|].
  destruct (tid_eqb u e) eqn:E; simpl; [|exact IH].
  unfold tid_eqb in *. apply Nat.eqb_eq in E.
  destruct (Nat.eqb (e_tid e) t) eqn:E2; [apply Nat.eqb_eq in E2; congruence | exact IH].
Qed.

Lemma proj_filter_not_other : forall t u l, t <> u ->
  proj t (filter (fun e => negb (tid_eqb u e)) l) = proj t l.
Proof.
  intros t u l Hne. unfold proj. induction l as [|e l IH]; simpl; [reflexivity|].
  unfold tid_eqb in *.
  destruct (Nat.eqb (e_tid e) u) eqn:E; simpl.
  - apply Nat.eqb_eq in E.
    destruct (Nat.eqb (e_tid e) t) eqn:E2; [apply Nat.eqb_eq in E2; congruence | exact IH].
  - destruct (Nat.eqb (e_tid e) t); rewrite IH; reflexivity.
Qed.

Lemma nth_error_split2 : forall (A : Type) (l : list A) i j a b, (i < j)%nat ->
  nth_error l i = Some a -> nth_error l j = Some b ->
  exists pre mid post, l = pre ++ a :: mid ++ b :: post.
Proof.
  intros A l i j a b Hlt Hi Hj.
  apply nth_error_split in Hi. destruct Hi as [pre [rest [Hl Hlen]]]. subst l.
  rewrite nth_error_app2 in Hj by lia.
  destruct (j - length pre)%nat as [|n] eqn:E; [lia|]. simpl in Hj.
  apply nth_error_split in Hj. destruct Hj as [mid [post [Hr _]]]. subst rest.
  exists pre, mid, post. reflexivity.
Qed.

Theorem race_adjacent : forall tr, has_race tr ->
  exists tr', (forall t, proj t tr' = proj t tr) /\ adjacent_race tr'.
Proof.
  intros tr [i [j [e1 [e2 [Hlt [H1 [H2 Hcf]]]]]]].
  destruct (nth_error_split2 _ tr i j e1 e2 Hlt H1 H2) as [pre [mid [post Htr]]]. subst tr.
  set (t1 := e_tid e1).
  exists (pre ++ filter (fun e => negb (tid_eqb t1 e)) mid ++ e1 :: e2 :: filter (tid_eqb t1) mid ++ post).
  split.
  - intros t.
    replace (e1 :: e2 :: filter (tid_eqb t1) mid ++ post)
      with ([e1] ++ [e2] ++ filter (tid_eqb t1) mid ++ post) by reflexivity.
    replace (e1 :: mid ++ e2 :: post) with ([e1] ++ mid ++ [e2] ++ post) by reflexivity.
    rewrite !proj_app.
    destruct (Nat.eq_dec t t1) as [E|E].
    + subst t. rewrite proj_filter_not_same, proj_filter_same.
      assert (He2 : proj t1 [e2] = []).
      { unfold proj, tid_eqb. simpl. destruct Hcf as [Hne _]. fold t1 in Hne.
        destruct (Nat.eqb (e_tid e2) t1) eqn:E; [apply Nat.eqb_eq in E; congruence | reflexivity]. }
      rewrite He2. simpl. reflexivity.
    + rewrite (proj_filter_not_other t t1 mid E), (proj_filter_other t t1 mid E).
      assert (He1 : proj t [e1] = []).
      { unfold proj, tid_eqb. simpl. fold t1.
        destruct (Nat.eqb t1 t) eqn:E'; [apply Nat.eqb_eq in E'; congruence | reflexivity]. }
      rewrite He1. simpl. reflexivity.
  - exists (pre ++ filter (fun e => negb (tid_eqb t1 e)) mid), e1, e2, (filter (tid_eqb t1) mid ++ post).
    split; [rewrite <- app_assoc; reflexivity | exact Hcf].
Qed.

(* Reordering keeps a trace permitted: permission is a property of the single events. *)
Lemma permitted_reorder : forall p kinds tr tr', permitted p kinds tr ->
  (forall e, In e tr' -> In e tr) -> permitted p kinds tr'.
Proof.
  intros p kinds tr tr' H Hin. unfold permitted in *. rewrite Forall_forall in *. auto.
Qed.

(* ------------------------------------------------------------------------------------- *)
(* The same, said with threads: any family of per-thread access sequences, each permitted for its
   thread's kind, and any interleaving of them. *)

Lemma permitted_of_threads : forall p kinds (ths : nat -> list event) tr,
  interleaving_of ths tr -> (forall t, Forall (permits p (kinds t)) (ths t)) -> permitted p kinds tr.
Proof.
  intros p kinds ths tr Hi Hth. unfold permitted. apply Forall_forall. intros e He.
  assert (Hin : In e (proj (e_tid e) tr)).
  { unfold proj. apply filter_In. split; [exact He|]. unfold tid_eqb. apply Nat.eqb_refl. }
  rewrite (Hi (e_tid e)) in Hin.
  pose proof (Hth (e_tid e)) as H. rewrite Forall_forall in H. exact (H e Hin).
Qed.

Theorem drf_interleavings : forall p, conflicts p = [] ->
  forall kinds (ths : nat -> list event) tr,
  (forall t, Forall (permits p (kinds t)) (ths t)) -> interleaving_of ths tr ->
  ~ has_race tr /\
  (forall init, consistent init tr -> forall t, consistent_na init (ths t)) /\
  (forall init, consistent init tr -> forall t, atomic_sites p (kinds t) = [] -> consistent init (ths t)).
Proof.
  intros p Hc kinds ths tr Hth Hi.
  pose proof (permitted_of_threads p kinds ths tr Hi Hth) as Hp.
  split; [exact (drf_generic p Hc kinds tr Hp)|]. split.
  - intros init Hcons t. rewrite <- (Hi t). exact (solo_generic p Hc kinds tr init Hp Hcons t).
  - intros init Hcons t Hat. rewrite <- (Hi t). exact (solo_full p Hc kinds tr init Hp Hcons t Hat).
Qed.

(* ------------------------------------------------------------------------------------- *)
(* The check is exact for the abstract semantics: a reported CRace is realised by a permitted trace of
   two threads with a data race (so every remaining imprecision is in the extractor and the table). *)

Lemma calls_of_In : forall p f g, In g (calls_of p f) ->
  exists fn, In fn (p_funcs p) /\ f_name fn = f /\ In g (f_calls fn).
Proof.
  intros p f g H. unfold calls_of in H. apply in_flat_map in H. destruct H as [fn [Hfn Hg]].
  destruct (String.eqb (f_name fn) f) eqn:E; [|contradiction].
  apply String.eqb_eq in E. exists fn. auto.
Qed.

Lemma closure_sound : forall p rs fuel seen work,
  (forall f, In f seen -> reachable p rs f) -> (forall f, In f work -> reachable p rs f) ->
  forall f, In f (closure fuel p seen work) -> reachable p rs f.
Proof.
  intros p rs fuel. induction fuel as [|n IH]; intros seen work Hs Hw f Hf; simpl in Hf.
  - auto.
  - destruct work as [|g w]; [auto|].
    destruct (mem g seen).
    + apply (IH seen w); auto. intros h Hh. apply Hw. right. exact Hh.
    + apply (IH (g :: seen) (calls_of p g ++ w)); auto.
      * intros h [Hh|Hh]; [subst; apply Hw; left; reflexivity | auto].
      * intros h Hh. apply in_app_or in Hh. destruct Hh as [Hh|Hh].
        -- apply calls_of_In in Hh. destruct Hh as [fn [Hfn [Hn Hg]]].
           apply (reach_call p rs fn h); [rewrite Hn; apply Hw; left; reflexivity | exact Hfn | exact Hg].
        -- apply Hw. right. exact Hh.
Qed.

Lemma reach_sound : forall p k f, In f (reach p k) -> reachable p (roots p k) f.
Proof.
  intros p k f H. unfold reach in H.
  revert H. apply closure_sound.
  - intros g [].
  - intros g Hg. apply reach_root. exact Hg.
Qed.

Lemma aloc_eqb_eq : forall a b, aloc_eqb a b = true -> a = b.
Proof.
  intros [v|t f|f v] [v'|t' f'|f' v']; simpl; intros H; try discriminate H.
  - apply String.eqb_eq in H. subst. reflexivity.
  - apply andb_true_iff in H. destruct H as [H1 H2].
    apply String.eqb_eq in H1. apply String.eqb_eq in H2. subst. reflexivity.
  - apply andb_true_iff in H. destruct H as [H1 H2].
    apply String.eqb_eq in H1. apply String.eqb_eq in H2. subst. reflexivity.
Qed.

Lemma shared_site_permits : forall p k f s t w, In (k, (f, s)) (shared_sites p) ->
  (w = true -> s_write s = true) ->
  permits p k (mkEvent t (CShared (s_loc s)) w (s_atomic s) 0).
Proof.
  intros p k f s t w H Hw. unfold shared_sites in H.
  apply in_flat_map in H. destruct H as [k' [_ H]].
  apply in_map_iff in H. destruct H as [[f' s'] [Heq H]]. inversion Heq; subst k' f' s'.
  apply filter_In in H. destruct H as [H Hsh]. simpl in Hsh.
  unfold sites_of in H. apply in_flat_map in H. destruct H as [fn [Hfn H]].
  destruct (mem (f_name fn) (reach p k)) eqn:Em; [|contradiction].
  apply in_map_iff in H. destruct H as [s'' [Heq2 Hs]]. inversion Heq2; subst f s''.
  exists fn, s. split; [exact Hfn|]. split.
  - apply reach_sound. apply mem_In. exact Em.
  - split; [exact Hs|]. simpl. split; [unfold place; rewrite Hsh; reflexivity|]. split; [reflexivity | exact Hw].
Qed.

Theorem conflict_realizable : forall p k1 f1 s1 k2 f2 s2,
  In (CRace k1 f1 s1 k2 f2 s2) (race_conflicts p) ->
  exists kinds tr, permitted p kinds tr /\ has_race tr.
Proof.
  intros p k1 f1 s1 k2 f2 s2 H. unfold race_conflicts in H.
  apply in_flat_map in H. destruct H as [[kw [fw sw]] [Hw H]].
  apply filter_In in Hw. destruct Hw as [Hwin Hww]. simpl in Hww.
  apply in_flat_map in H. destruct H as [[ka [fa sa]] [Hain H]]. simpl in H.
  destruct (conflictb sw sa) eqn:Ecf; [|contradiction].
  destruct H as [H|[]]. inversion H; subst kw fw sw ka fa sa. clear H.
  unfold conflictb in Ecf. apply andb_true_iff in Ecf. destruct Ecf as [Ecf Hna].
  apply andb_true_iff in Ecf. destruct Ecf as [Hloc _]. apply aloc_eqb_eq in Hloc.
  exists (fun t => match t with O => k1 | _ => k2 end).
  exists [mkEvent 0 (CShared (s_loc s1)) true (s_atomic s1) 0;
          mkEvent 1 (CShared (s_loc s2)) (s_write s2) (s_atomic s2) 0].
  split.
  - unfold permitted. constructor; [|constructor; [|constructor]]; simpl.
    + apply (shared_site_permits p k1 f1 s1 0%nat true Hwin). intros _. exact Hww.
    + apply (shared_site_permits p k2 f2 s2 1%nat (s_write s2) Hain). auto.
  - exists 0%nat, 1%nat, (mkEvent 0 (CShared (s_loc s1)) true (s_atomic s1) 0),
           (mkEvent 1 (CShared (s_loc s2)) (s_write s2) (s_atomic s2) 0).
    split; [lia|]. split; [reflexivity|]. split; [reflexivity|].
    unfold conflicting. simpl. split; [discriminate|]. split; [rewrite Hloc; reflexivity|].
    split; [left; reflexivity|].
    destruct (s_atomic s1); [|left; reflexivity]. destruct (s_atomic s2); [discriminate Hna | right; reflexivity].
Qed.

(* ------------------------------------------------------------------------------------- *)
(* The second obligation: every update of a shared location is one atomic operation *)

Lemma closedb_complete : forall p rs set, closedb p rs set = true ->
  forall f, reachable p rs f -> mem f set = true.
Proof.
  intros p rs set Hc f Hr. unfold closedb in Hc. apply andb_true_iff in Hc. destruct Hc as [Hroots Hcalls].
  rewrite forallb_forall in Hroots. rewrite forallb_forall in Hcalls.
  induction Hr as [f Hf | fn g Hr IH Hfn Hg].
  - apply Hroots. exact Hf.
  - pose proof (Hcalls fn Hfn) as H. cbv beta in H. rewrite IH in H.
    rewrite forallb_forall in H. apply H. exact Hg.
Qed.

Lemma in_all_sites : forall p fn s, In fn (p_funcs p) -> In s (f_sites fn) -> In (f_name fn, s) (all_sites p).
Proof.
  intros p fn s Hfn Hs. unfold all_sites. apply in_flat_map. exists fn. split; [exact Hfn|].
  apply in_map. exact Hs.
Qed.

Lemma in_split_pairs : forall p k fl sl fs ss,
  In fl (p_funcs p) -> In sl (f_sites fl) -> In fs (p_funcs p) -> In ss (f_sites fs) ->
  sharedb k sl = true -> sharedb k ss = true -> s_aop sl = ALoad -> s_aop ss = AStore -> s_loc sl = s_loc ss ->
  In ((f_name fl, sl), (f_name fs, ss)) (split_pairs p k).
Proof.
  intros p k fl sl fs ss Hfl Hsl Hfs Hss Shl Shs Ol Os Hloc. unfold split_pairs.
  apply in_flat_map. exists (f_name fl, sl). split.
  - apply filter_In. split; [apply filter_In; split; [apply in_all_sites; assumption | exact Shl]|].
    unfold is_load. simpl. rewrite Ol. reflexivity.
  - apply in_flat_map. exists (f_name fs, ss). split.
    + apply filter_In. split; [apply filter_In; split; [apply in_all_sites; assumption | exact Shs]|].
      unfold is_store. simpl. rewrite Os. reflexivity.
    + simpl. rewrite Hloc, aloc_eqb_refl. left. reflexivity.
Qed.

(* No call of an entry point of a kind of thread can atomically load a shared location and separately
   atomically store it. *)
Theorem updates_atomic_generic : forall p, atomic_update_defects p = [] ->
  forall k h, In h (roots p k) ->
  forall fl sl fs ss,
    In fl (p_funcs p) -> In sl (f_sites fl) -> reachable p [h] (f_name fl) ->
    In fs (p_funcs p) -> In ss (f_sites fs) -> reachable p [h] (f_name fs) ->
    sharedb k sl = true -> sharedb k ss = true ->
    s_aop sl = ALoad -> s_aop ss = AStore -> s_loc sl = s_loc ss -> False.
Proof.
  intros p Hd k h Hh fl sl fs ss Hfl Hsl Rl Hfs Hss Rs Shl Shs Ol Os Hloc.
  assert (Hk : In k [KParse; KCtor]) by (destruct k; simpl; auto).
  unfold atomic_update_defects in Hd.
  pose proof (flat_map_nil _ _ _ _ Hd k Hk) as Hdk. cbv beta in Hdk.
  pose proof (in_split_pairs p k fl sl fs ss Hfl Hsl Hfs Hss Shl Shs Ol Os Hloc) as Hin.
  destruct (split_pairs p k) as [|pr0 prs] eqn:Esp; [contradiction|].
  pose proof (flat_map_nil _ _ _ _ Hdk h Hh) as Hdh. cbv beta zeta in Hdh.
  apply app_eq_nil in Hdh. destruct Hdh as [Hclosed Hpairs].
  destruct (closedb p [h] (reach_from p [h])) eqn:Ec; [|discriminate Hclosed].
  pose proof (flat_map_nil _ _ _ _ Hpairs _ Hin) as Hpr. cbv beta in Hpr. simpl in Hpr.
  rewrite (closedb_complete p [h] _ Ec _ Rl), (closedb_complete p [h] _ Ec _ Rs) in Hpr.
  discriminate Hpr.
Qed.

(* What atomic increments guarantee: the values drawn from a counter that is only ever incremented by
   single atomic operations are pairwise distinct (and above the initial value) in every interleaving —
   distinct Memoize parser indices = distinct draws of atomic.AddInt32. *)
Lemma draws_cons : forall l e r,
  draws l (e :: r) = if is_write_at l e then e_val e :: draws l r else draws l r.
Proof. intros. unfold draws. simpl. destruct (is_write_at l e); reflexivity. Qed.

Lemma draws_above : forall l tr m, increments l m tr ->
  NoDup (draws l tr) /\ Forall (fun v => (m l < v)%N) (draws l tr).
Proof.
  intros l tr. induction tr as [|e r IH]; intros m Hinc.
  - split; constructor.
  - simpl in Hinc. destruct Hinc as [Hhd Htl].
    destruct (IH _ Htl) as [Hnd Hall]. rewrite draws_cons.
    unfold step_mem in Hall. unfold is_write_at.
    destruct (e_write e) eqn:Ew; simpl.
    + destruct (cloc_eq_dec (e_loc e) l) as [El|El].
      * assert (Hm : upd m (e_loc e) (e_val e) l = e_val e).
        { unfold upd. destruct (cloc_eq_dec l (e_loc e)); [reflexivity | congruence]. }
        rewrite Hm in Hall. pose proof (Hhd eq_refl El) as Hv. split.
        -- constructor; [|exact Hnd]. intros Hin. rewrite Forall_forall in Hall.
           pose proof (Hall _ Hin) as Hlt. lia.
        -- constructor; [lia|].
           rewrite Forall_forall in *. intros v Hin. pose proof (Hall v Hin) as Hlt. lia.
      * assert (Hm : upd m (e_loc e) (e_val e) l = m l).
        { unfold upd. destruct (cloc_eq_dec l (e_loc e)); [congruence | reflexivity]. }
        rewrite Hm in Hall. split; assumption.
    + split; assumption.
Qed.

Theorem draws_distinct : forall l m tr, increments l m tr -> NoDup (draws l tr).
Proof. intros l m tr H. exact (proj1 (draws_above l tr m H)). Qed.

(* ------------------------------------------------------------------------------------- *)
(* Non-vacuity: a program with a package-level counter incremented by the parse code has a conflict,
   and an permitted trace of two parse threads with a data race exists; the same program with the counter
   in the (thread-local) context has none, and its two-thread traces are permitted. *)

Definition ex_bad : prog := {|
  p_globals := [("parsley.calls", ["int"])];
  p_holders := [("parsley.Context", "callCount", ["int"])];
  p_funcs := [ mkFunc "parsley.Parse" [] ["parsley.Context.RegisterCall"];
               mkFunc "parsley.Context.RegisterCall"
                 [mkSite (LGlobal "parsley.calls") true false ANone BGlobal false "x.go:1:1 inc/dec"] [] ];
  p_parse_roots := ["parsley.Parse"];
  p_ctor_roots := [] |}.

Definition ex_ok : prog := {|
  p_globals := [("parsley.calls", ["int"])];
  p_holders := [("parsley.Context", "callCount", ["int"])];
  p_funcs := [ mkFunc "parsley.Parse" [mkSite (LGlobal "parsley.calls") false false ANone BGlobal false "x.go:2:1 read"]
                 ["parsley.Context.RegisterCall"];
               mkFunc "parsley.Context.RegisterCall"
                 [mkSite (LField "parsley.Context" "callCount") true false ANone BRecv false "x.go:1:1 inc/dec"] [] ];
  p_parse_roots := ["parsley.Parse"];
  p_ctor_roots := [] |}.

Example ex_bad_conflicts : conflicts ex_bad <> [].
Proof. vm_compute. discriminate. Qed.

Example ex_ok_no_conflicts : conflicts ex_ok = [].
Proof. vm_compute. reflexivity. Qed.

Definition ex_bad_trace : list event :=
  [ mkEvent 0 (CShared (LGlobal "parsley.calls")) true false 1;
    mkEvent 1 (CShared (LGlobal "parsley.calls")) true false 1 ].

Lemma ex_reach_register : forall p, In "parsley.Parse" (p_parse_roots p) ->
  In (mkFunc "parsley.Parse" [] ["parsley.Context.RegisterCall"]) (p_funcs p) ->
  reachable p (roots p KParse) "parsley.Context.RegisterCall".
Proof.
  intros p Hr Hf.
  apply (reach_call p (roots p KParse) (mkFunc "parsley.Parse" [] ["parsley.Context.RegisterCall"])).
  - apply reach_root. exact Hr.
  - exact Hf.
  - simpl. auto.
Qed.

Ltac perm_tac fn s R :=
  exists fn, s; split; [simpl; auto 6 |
  split; [exact R |
  split; [simpl; auto |
  split; [reflexivity |
  split; [reflexivity | simpl; let H := fresh in intros H; first [reflexivity | discriminate H]]]]]].

Example ex_bad_racy : permitted ex_bad (fun _ => KParse) ex_bad_trace /\ has_race ex_bad_trace.
Proof.
  split.
  - unfold permitted, ex_bad_trace.
    assert (R : reachable ex_bad (roots ex_bad KParse) "parsley.Context.RegisterCall").
    { apply ex_reach_register; simpl; auto. }
    constructor; [|constructor; [|constructor]].
    + perm_tac (mkFunc "parsley.Context.RegisterCall"
             [mkSite (LGlobal "parsley.calls") true false ANone BGlobal false "x.go:1:1 inc/dec"] [])
          (mkSite (LGlobal "parsley.calls") true false ANone BGlobal false "x.go:1:1 inc/dec") R.
    + perm_tac (mkFunc "parsley.Context.RegisterCall"
             [mkSite (LGlobal "parsley.calls") true false ANone BGlobal false "x.go:1:1 inc/dec"] [])
          (mkSite (LGlobal "parsley.calls") true false ANone BGlobal false "x.go:1:1 inc/dec") R.
  - exists 0%nat, 1%nat, (mkEvent 0 (CShared (LGlobal "parsley.calls")) true false 1),
           (mkEvent 1 (CShared (LGlobal "parsley.calls")) true false 1).
    split; [lia|]. split; [reflexivity|]. split; [reflexivity|].
    unfold conflicting. simpl. split; [discriminate|]. split; [reflexivity|]. split; left; reflexivity.
Qed.

Definition ex_ok_trace : list event :=
  [ mkEvent 0 (CLocal 0 (LField "parsley.Context" "callCount")) true false 1;
    mkEvent 1 (CLocal 1 (LField "parsley.Context" "callCount")) true false 1;
    mkEvent 0 (CShared (LGlobal "parsley.calls")) false false 0;
    mkEvent 1 (CLocal 1 (LField "parsley.Context" "callCount")) false false 1 ].

Example ex_ok_permitted : permitted ex_ok (fun _ => KParse) ex_ok_trace /\ ~ has_race ex_ok_trace.
Proof.
  assert (A : permitted ex_ok (fun _ => KParse) ex_ok_trace).
  { unfold permitted, ex_ok_trace.
    pose (fparse := mkFunc "parsley.Parse" [mkSite (LGlobal "parsley.calls") false false ANone BGlobal false "x.go:2:1 read"]
                      ["parsley.Context.RegisterCall"]).
    pose (freg := mkFunc "parsley.Context.RegisterCall"
                    [mkSite (LField "parsley.Context" "callCount") true false ANone BRecv false "x.go:1:1 inc/dec"] []).
    assert (R0 : reachable ex_ok (roots ex_ok KParse) (f_name fparse)) by (apply reach_root; simpl; auto).
    assert (R : reachable ex_ok (roots ex_ok KParse) (f_name freg)).
    { apply (reach_call ex_ok (roots ex_ok KParse) fparse); [exact R0 | simpl; auto | simpl; auto]. }
    constructor; [|constructor; [|constructor; [|constructor; [|constructor]]]].
    - perm_tac freg (mkSite (LField "parsley.Context" "callCount") true false ANone BRecv false "x.go:1:1 inc/dec") R.
    - perm_tac freg (mkSite (LField "parsley.Context" "callCount") true false ANone BRecv false "x.go:1:1 inc/dec") R.
    - perm_tac fparse (mkSite (LGlobal "parsley.calls") false false ANone BGlobal false "x.go:2:1 read") R0.
    - perm_tac freg (mkSite (LField "parsley.Context" "callCount") true false ANone BRecv false "x.go:1:1 inc/dec") R. }
  split; [exact A|]. exact (drf_generic ex_ok ex_ok_no_conflicts _ _ A).
Qed.

(* Non-vacuity of the second obligation: Load + Store of the parser-index counter (the shape of the seeded
   change C14_m2) is race free — every access is atomic — but is reported by [atomic_update_defects]; and the
   lost update is real: a sequentially consistent, race-free trace of two threads draws the index 1 twice.
   The single atomic.AddInt32 has no defect. *)
Definition ex_counter : aloc := LGlobal "combinator.nextParserIndex".

Definition ex_split : prog := {|
  p_globals := [("combinator.nextParserIndex", ["int32"])];
  p_holders := [];
  p_funcs := [ mkFunc "combinator.Memoize" [] ["combinator.newParserIndex"];
               mkFunc "combinator.newParserIndex"
                 [mkSite ex_counter false true ALoad BGlobal false "memoize.go:26 atomic.LoadInt32";
                  mkSite ex_counter true true AStore BGlobal false "memoize.go:30 atomic.StoreInt32"] [] ];
  p_parse_roots := ["combinator.Memoize"];
  p_ctor_roots := ["combinator.Memoize"; "combinator.newParserIndex"] |}.

Definition ex_rmw : prog := {|
  p_globals := [("combinator.nextParserIndex", ["int32"])];
  p_holders := [];
  p_funcs := [ mkFunc "combinator.Memoize"
                 [mkSite ex_counter true true ARMW BGlobal false "memoize.go:22 atomic.AddInt32"] [] ];
  p_parse_roots := ["combinator.Memoize"];
  p_ctor_roots := ["combinator.Memoize"] |}.

Example ex_split_race_free_but_not_atomic : conflicts ex_split = [] /\ atomic_update_defects ex_split <> [].
Proof. split; vm_compute; [reflexivity | discriminate]. Qed.

Example ex_rmw_ok : conflicts ex_rmw = [] /\ atomic_update_defects ex_rmw = [].
Proof. split; vm_compute; reflexivity. Qed.

Definition ex_lost_update : list event :=
  [ mkEvent 0 (CShared ex_counter) false true 0;      (* thread 0: atomic.LoadInt32 = 0 *)
    mkEvent 1 (CShared ex_counter) false true 0;      (* thread 1: atomic.LoadInt32 = 0 *)
    mkEvent 0 (CShared ex_counter) true true 1;       (* thread 0: atomic.StoreInt32 1 *)
    mkEvent 1 (CShared ex_counter) true true 1 ].     (* thread 1: atomic.StoreInt32 1 — the same index *)

Example ex_lost_update_is_silent :
  consistent (fun _ => 0%N) ex_lost_update /\ ~ has_race ex_lost_update /\
  draws (CShared ex_counter) ex_lost_update = [1%N; 1%N] /\
  ~ increments (CShared ex_counter) (fun _ => 0%N) ex_lost_update.
Proof.
  split; [|split; [|split]].
  - simpl. repeat split; intros; try discriminate; reflexivity.
  - intros [i [j [e1 [e2 [_ [H1 [H2 [_ [_ [_ Hat]]]]]]]]]].
    assert (A : forall n e, nth_error ex_lost_update n = Some e -> e_atomic e = true).
    { intros n e H. apply nth_error_In in H. simpl in H.
      destruct H as [H|[H|[H|[H|[]]]]]; subst e; reflexivity. }
    rewrite (A _ _ H1), (A _ _ H2) in Hat. destruct Hat; discriminate.
  - vm_compute. reflexivity.
  - simpl. intros [_ [_ [_ [H _]]]].
    specialize (H eq_refl eq_refl). vm_compute in H. discriminate H.
Qed.
