(* Pump.v — C01, the pumping half of completeness (pure combinatorics on derivation trees)
   and the final completeness theorems.

   The curtailment bound cuts a derivation only at a [DMemo idx] node that is nested, along
   the left spine and WITHOUT input consumed in between, inside more than [remaining pos + 1]
   other [DMemo idx] nodes.  All nodes of such a chain start at the same position and their
   ends decrease weakly going inwards, so if no two of them have the same end (no "unit
   cycle": [nopump]) the chain is short enough and the derivation is [compat] with the empty
   context.  A derivation with a unit cycle is cut down, bottom-up, by replacing the outer node
   of the cycle by the inner one: same expression (by [wf], an index determines its body),
   same start, same end. *)
From Coq Require Import String List NArith Bool Arith Lia.
From Parsley Require Import Obs Base Grammar Engine TermFacts EngineFacts SetMapFacts Spec Complete.
Import ListNotations.
Open Scope N_scope.

(* ---------- ends of sequences ---------- *)
Fixpoint seq_end (pos : N) (ds : list dtree) : N :=
  match ds with [] => pos | d :: ds' => seq_end (dend d) ds' end.

Lemma last_cons_default {A} (l : list A) : forall a d, last (a :: l) d = last l a.
Proof.
  induction l as [|b l IH]; intros a d; [reflexivity|].
  change (last (a :: b :: l) d) with (last (b :: l) d). rewrite (IH b d), (IH b a). reflexivity.
Qed.
Lemma rpos_last ds : forall n0, node_rpos (last (map yield ds) n0) = seq_end (node_rpos n0) ds.
Proof.
  induction ds as [|d ds IH]; intros n0; [reflexivity|].
  cbn [map]. rewrite last_cons_default, IH. reflexivity.
Qed.
Lemma dend_DSeq q pos ds : dend (DSeq q pos ds) = seq_end pos ds.
Proof.
  unfold dend at 1. cbn [yield]. unfold handle_result.
  destruct ds as [|d1 [|d2 t]]; cbn [map]; [reflexivity| |].
  - destruct (q_single q); reflexivity.
  - cbn [node_rpos]. rewrite last_cons_default. rewrite (rpos_last (d2 :: t)). reflexivity.
Qed.

(* ---------- the same-position left spine ---------- *)
(* the [DMemo idx] subtrees of d reached from its root without consuming input: through
   Ref/Memo/Alt/Opt wrappers and into every sequence element that starts where the sequence
   starts (the elements before it matched empty: hidden left recursion).  Mirrors the way
   [compat] threads the context. *)
Fixpoint spine_nodes (idx : N) (pos : N) (d : dtree) {struct d} : list dtree :=
  match d with
  | DRef _ d' | DAlt _ d' | DOptS d' => spine_nodes idx pos d'
  | DMemo i d' => (if i =? idx then [DMemo i d'] else []) ++ spine_nodes idx pos d'
  | DSeq _ _ ds =>
    (fix go (pos : N) (ds : list dtree) {struct ds} : list dtree :=
       match ds with
       | [] => []
       | d' :: ds' => spine_nodes idx pos d' ++ (if pos <? dend d' then [] else go (dend d') ds')
       end) pos ds
  | _ => []
  end.
Definition spine_seq (idx : N) :=
  fix go (pos : N) (ds : list dtree) {struct ds} : list dtree :=
    match ds with
    | [] => []
    | d' :: ds' => spine_nodes idx pos d' ++ (if pos <? dend d' then [] else go (dend d') ds')
    end.
Lemma spine_nodes_DSeq idx pos q p ds : spine_nodes idx pos (DSeq q p ds) = spine_seq idx pos ds.
Proof. reflexivity. Qed.

(* no unit cycle anywhere in the tree: no [DMemo idx] node has, strictly inside it on its
   same-position left spine, another [DMemo idx] node with the same end *)
Fixpoint nopump (pos : N) (d : dtree) {struct d} : Prop :=
  match d with
  | DRef _ d' | DAlt _ d' | DOptS d' => nopump pos d'
  | DMemo i d' => ~ In (dend d') (map dend (spine_nodes i pos d')) /\ nopump pos d'
  | DSeq _ _ ds =>
    (fix go (pos : N) (ds : list dtree) {struct ds} : Prop :=
       match ds with
       | [] => True
       | d' :: ds' => nopump pos d' /\ go (dend d') ds'
       end) pos ds
  | _ => True
  end.
Definition nopump_seq :=
  fix go (pos : N) (ds : list dtree) {struct ds} : Prop :=
    match ds with
    | [] => True
    | d' :: ds' => nopump pos d' /\ go (dend d') ds'
    end.
Lemma nopump_DSeq pos q p ds : nopump pos (DSeq q p ds) = nopump_seq pos ds.
Proof. reflexivity. Qed.
Definition pumpable (pos : N) (d : dtree) : Prop := ~ nopump pos d.

Section Pump.
  Variable inp : input.
  Variable rules : list pexpr.
  Variable site : N -> option pexpr.
  Hypothesis rules_wf : wf_rules rules site.

  Notation valid := (valid inp rules).
  Notation valid_seq := (valid_seq inp rules).
  Notation wf := (wf rules site).
  Notation wfs := (wfs rules site).
  Notation in_file := (in_file inp).
  Notation fend := (i_offset inp + i_len inp).

  (* ---------- where derivations end ---------- *)
  Lemma term_end t pos n : term_parse inp t pos = ([n], None) ->
    pos <= node_rpos n /\ (i_offset inp <= pos -> node_rpos n <= fend).
  Proof.
    intros H. destruct t as [ch|l].
    - apply term_parse_rune_node in H. destruct H as (_ & -> & Hb). cbn [node_rpos]. split; [lia|].
      intros Hlo. exact (byte_at_in_file inp pos ch Hlo Hb).
    - apply term_parse_lit_node in H. destruct H as (_ & tok & v & r & -> & _ & Hle & Hhi & _).
      cbn [node_rpos]. split; [exact Hle|intros _; exact Hhi].
  Qed.

  Lemma valid_end_both :
    (forall e pos d, valid e pos d -> pos <= dend d /\ (in_file pos -> dend d <= fend)) /\
    (forall k ps depth pos ds, valid_seq k ps depth pos ds ->
       pos <= seq_end pos ds /\ (in_file pos -> seq_end pos ds <= fend)).
  Proof.
    assert (X : forall e pos d, valid e pos d -> pos <= dend d /\ (in_file pos -> dend d <= fend)).
    { intros e pos d H.
      induction H using valid_ind2 with
        (P0 := fun k ps depth pos ds => pos <= seq_end pos ds /\ (in_file pos -> seq_end pos ds <= fend));
        try (unfold dend; cbn [yield node_rpos]; split; [lia|intros [? ?]; lia]); try exact IHvalid.
      - (* VTerm *) destruct (term_end _ _ _ H) as [A B]. unfold dend; cbn [yield].
        split; [exact A|intros [Hlo _]; apply B, Hlo].
      - (* VSeq *) rewrite dend_DSeq. exact IHvalid.
      - (* VSnil *) cbn [seq_end]. split; [lia|intros [? ?]; lia].
      - (* VScons *) cbn [seq_end]. destruct IHvalid as [A B]. destruct IHvalid0 as [A0 B0].
        split; [lia|]. intros Hf. apply B0. split; [destruct Hf; lia|apply B, Hf]. }
    split; [exact X|].
    intros k ps depth pos ds H. induction H as [|k ps depth pos e d ds Hl Hv Hs IH].
    - cbn [seq_end]. split; [lia|intros [? ?]; lia].
    - cbn [seq_end]. destruct (X _ _ _ Hv) as [A B]. destruct IH as [A0 B0].
      split; [lia|]. intros Hf. apply B0. split; [destruct Hf; lia|apply B, Hf].
  Qed.
  Lemma valid_ge e pos d : valid e pos d -> pos <= dend d.
  Proof. intros H. apply (proj1 valid_end_both _ _ _ H). Qed.
  Lemma valid_le e pos d : valid e pos d -> in_file pos -> dend d <= fend.
  Proof. intros H. apply (proj1 valid_end_both _ _ _ H). Qed.
  Lemma valid_in_file e pos d : valid e pos d -> in_file pos -> in_file (dend d).
  Proof. intros H Hf. split; [pose proof (valid_ge _ _ _ H); destruct Hf; lia|apply (valid_le _ _ _ H Hf)]. Qed.
  Lemma valid_seq_ge k ps depth pos ds : valid_seq k ps depth pos ds -> pos <= seq_end pos ds.
  Proof. intros H. apply (proj2 valid_end_both _ _ _ _ _ H). Qed.
  Lemma valid_seq_le k ps depth pos ds : valid_seq k ps depth pos ds -> in_file pos -> seq_end pos ds <= fend.
  Proof. intros H. apply (proj2 valid_end_both _ _ _ _ _ H). Qed.

  (* position of a later element that is still on the spine *)
  Lemma not_consumed pos x : pos <= x -> (pos <? x) = false -> x = pos.
  Proof. intros H E. apply N.ltb_ge in E. lia. Qed.

  (* ---------- F2: spine nodes end no later than the tree ---------- *)
  Lemma spine_le e pos d : valid e pos d ->
    forall idx n, In n (spine_nodes idx pos d) -> dend n <= dend d.
  Proof.
    intros H.
    induction H using valid_ind2 with
      (P0 := fun k ps depth pos ds => forall idx n, In n (spine_seq idx pos ds) -> dend n <= seq_end pos ds);
      intros idx0 n0 Hin; cbn [spine_nodes] in Hin; try (destruct Hin; fail);
      try (apply (IHvalid idx0 n0 Hin)).
    - (* VMemo *) apply in_app_or in Hin. destruct Hin as [Hin|Hin]; [|apply (IHvalid idx0 n0 Hin)].
      destruct (idx =? idx0); [destruct Hin as [Hin|[]]; subst n0; unfold dend; cbn [yield]; lia|destruct Hin].
    - (* VSeq *) rewrite dend_DSeq. apply (IHvalid idx0 n0). exact Hin.
    - (* VScons *) cbn [spine_seq] in Hin. cbn [seq_end]. apply in_app_or in Hin. destruct Hin as [Hin|Hin].
      + specialize (IHvalid idx0 n0 Hin). pose proof (valid_seq_ge _ _ _ _ _ H1). lia.
      + destruct (pos <? dend d); [destruct Hin|]. apply (IHvalid0 idx0 n0 Hin).
  Qed.
  Lemma spine_seq_le k ps depth pos ds : valid_seq k ps depth pos ds ->
    forall idx n, In n (spine_seq idx pos ds) -> dend n <= seq_end pos ds.
  Proof.
    intros H. induction H as [|k ps depth pos e d ds Hl Hv Hs IH]; intros idx n Hin; cbn [spine_seq] in Hin; [destruct Hin|].
    cbn [seq_end]. apply in_app_or in Hin. destruct Hin as [Hin|Hin].
    - pose proof (spine_le _ _ _ Hv idx n Hin). pose proof (valid_seq_ge _ _ _ _ _ Hs). lia.
    - destruct (pos <? dend d); [destruct Hin|]. apply (IH idx n Hin).
  Qed.

  (* ---------- F1: spine nodes of index idx are derivations of THE Memoize with that index ---------- *)
  Lemma wfs_nth ps i e : wfs ps -> nth_error ps i = Some e -> wf e.
  Proof.
    revert i; induction ps as [|p ps IH]; intros [|i] H E; cbn in *; try discriminate.
    - inversion E; subst; tauto.
    - apply (IH i); tauto.
  Qed.
  Lemma wfs_lookup k ps depth e : wfs ps -> seq_lookup k ps depth = Some e -> wf e.
  Proof. intros H E. destruct k; cbn [seq_lookup] in E; eapply wfs_nth; eassumption. Qed.

  Lemma spine_valid e pos d : valid e pos d -> wf e ->
    forall idx n, In n (spine_nodes idx pos d) -> exists body, site idx = Some body /\ valid (PMemo idx body) pos n.
  Proof.
    intros H.
    induction H using valid_ind2 with
      (P0 := fun k ps depth pos ds => wfs ps -> forall idx n, In n (spine_seq idx pos ds) ->
               exists body, site idx = Some body /\ valid (PMemo idx body) pos n);
      intros Hwf idx0 n0 Hin; cbn [spine_nodes] in Hin; try (destruct Hin; fail).
    - (* VRef *) apply (IHvalid (rules_wf _ _ H) idx0 n0 Hin).
    - (* VMemo *) destruct Hwf as [Hsite Hwe]. apply in_app_or in Hin. destruct Hin as [Hin|Hin]; [|apply (IHvalid Hwe idx0 n0 Hin)].
      destruct (idx =? idx0) eqn:E; [|destruct Hin]. apply N.eqb_eq in E. subst idx0.
      destruct Hin as [Hin|[]]. subst n0. exists e. split; [exact Hsite|]. apply VMemo. exact H.
    - (* VAny *) apply (IHvalid (wfs_nth _ _ _ Hwf H) idx0 n0 Hin).
    - (* VChoice *) apply (IHvalid (wfs_nth _ _ _ Hwf H) idx0 n0 Hin).
    - (* VOptS *) apply (IHvalid Hwf idx0 n0 Hin).
    - (* VSeq *) apply (IHvalid Hwf idx0 n0 Hin).
    - (* VScons *) cbn [spine_seq] in Hin. apply in_app_or in Hin. destruct Hin as [Hin|Hin].
      + apply (IHvalid (wfs_lookup _ _ _ _ Hwf H) idx0 n0 Hin).
      + destruct (pos <? dend d) eqn:E; [destruct Hin|].
        rewrite (not_consumed _ _ (valid_ge _ _ _ H0) E) in IHvalid0, Hin. apply (IHvalid0 Hwf idx0 n0 Hin).
  Qed.

  (* ---------- F3: spine nodes of an unpumpable tree are unpumpable ---------- *)
  Lemma spine_nopump e pos d : valid e pos d -> nopump pos d ->
    forall idx n, In n (spine_nodes idx pos d) -> nopump pos n.
  Proof.
    intros H.
    induction H using valid_ind2 with
      (P0 := fun k ps depth pos ds => nopump_seq pos ds -> forall idx n, In n (spine_seq idx pos ds) -> nopump pos n);
      intros Hnp idx0 n0 Hin; cbn [spine_nodes] in Hin; try (destruct Hin; fail);
      try (apply (IHvalid Hnp idx0 n0 Hin)).
    - (* VMemo *) apply in_app_or in Hin. destruct Hin as [Hin|Hin].
      + destruct (idx =? idx0); [|destruct Hin]. destruct Hin as [Hin|[]]. subst n0. exact Hnp.
      + cbn [nopump] in Hnp. apply (IHvalid (proj2 Hnp) idx0 n0 Hin).
    - (* VScons *) cbn [spine_seq] in Hin. cbn [nopump_seq] in Hnp. destruct Hnp as [Hn1 Hn2].
      apply in_app_or in Hin. destruct Hin as [Hin|Hin].
      + apply (IHvalid Hn1 idx0 n0 Hin).
      + destruct (pos <? dend d) eqn:E; [destruct Hin|].
        rewrite (not_consumed _ _ (valid_ge _ _ _ H0) E) in IHvalid0, Hin, Hn2. apply (IHvalid0 Hn2 idx0 n0 Hin).
  Qed.

  (* ---------- (2) unpumpable derivations are within the curtailment bound ---------- *)
  Lemma remaining_eq pos : in_file pos -> remaining inp pos = fend - pos.
  Proof. intros [A B]. unfold remaining. lia. Qed.

  Lemma nopump_compat_gen e pos d : valid e pos d -> in_file pos ->
    forall lrc (B : N -> N), nopump pos d ->
      (forall idx, B idx + map_get idx lrc <= fend + 1) ->
      (forall idx n, In n (spine_nodes idx pos d) -> dend n < B idx) ->
      compat inp lrc pos d.
  Proof.
    intros H.
    induction H using valid_ind2 with
      (P0 := fun k ps depth pos ds => in_file pos ->
         forall lrc (B : N -> N), nopump_seq pos ds ->
           (forall idx, B idx + map_get idx lrc <= fend + 1) ->
           (forall idx n, In n (spine_seq idx pos ds) -> dend n < B idx) ->
           compat_seq inp lrc pos ds);
      intros Hf lrc B Hnp Hb Hsp; cbn [compat]; try exact I;
      try (apply (IHvalid Hf lrc B Hnp Hb Hsp)).
    - (* VMemo *)
      cbn [nopump] in Hnp. destruct Hnp as [Hnp1 Hnp2].
      assert (Hself : dend d < B idx).
      { apply (Hsp idx (DMemo idx d)). cbn [spine_nodes]. rewrite N.eqb_refl. left; reflexivity. }
      pose proof (valid_ge _ _ _ H) as Hge. pose proof (Hb idx) as Hbi.
      split; [rewrite (remaining_eq _ Hf); destruct Hf; lia|].
      apply (IHvalid Hf (map_inc idx lrc) (fun i => if i =? idx then dend d else B i) Hnp2).
      + intros i. rewrite map_get_inc. destruct (i =? idx) eqn:E; [lia|apply Hb].
      + intros i n Hin. destruct (i =? idx) eqn:E.
        * apply N.eqb_eq in E. subst i. pose proof (spine_le _ _ _ H idx n Hin).
          assert (dend n <> dend d) by (intros Hx; apply Hnp1; rewrite <- Hx; apply in_map; exact Hin). lia.
        * apply (Hsp i n). cbn [spine_nodes]. apply in_or_app. right; exact Hin.
    - (* VScons *)
      cbn [compat_seq]. cbn [nopump_seq] in Hnp. destruct Hnp as [Hn1 Hn2].
      split.
      + apply (IHvalid Hf lrc B Hn1 Hb). intros i n Hin. apply (Hsp i n). cbn [spine_seq]. apply in_or_app. left; exact Hin.
      + pose proof (valid_in_file _ _ _ H0 Hf) as Hf'.
        destruct (pos <? dend d) eqn:E.
        * apply (IHvalid0 Hf' [] (fun _ => fend + 1) Hn2).
          -- intros i. cbn [map_get]. lia.
          -- intros i n Hin. pose proof (spine_seq_le _ _ _ _ _ H1 i n Hin). pose proof (valid_seq_le _ _ _ _ _ H1 Hf'). lia.
        * apply (IHvalid0 Hf' lrc B Hn2 Hb). intros i n Hin. apply (Hsp i n). cbn [spine_seq].
          apply in_or_app. right. rewrite E. exact Hin.
  Qed.

  Theorem nopump_compat e pos d : valid e pos d -> in_file pos -> nopump pos d -> compat inp [] pos d.
  Proof.
    intros Hv Hf Hnp. apply (nopump_compat_gen _ _ _ Hv Hf [] (fun _ => fend + 1) Hnp).
    - intros i. cbn [map_get]. lia.
    - intros i n Hin. pose proof (spine_le _ _ _ Hv i n Hin). pose proof (valid_le _ _ _ Hv Hf). lia.
  Qed.

  (* ---------- (1) every derivation can be cut down to an unpumpable one with the same end ---------- *)
  Theorem unpump e pos d : valid e pos d -> wf e ->
    exists d', valid e pos d' /\ dend d' = dend d /\ nopump pos d'.
  Proof.
    intros H.
    induction H using valid_ind2 with
      (P0 := fun k ps depth pos ds => wfs ps ->
         exists ds', valid_seq k ps depth pos ds' /\ length ds' = length ds /\
                     seq_end pos ds' = seq_end pos ds /\ nopump_seq pos ds');
      intros Hwf.
    - exists (DTerm n). split; [apply VTerm; exact H|split; [reflexivity|exact I]].
    - exists (DEmpty pos). split; [apply VEmpty|split; [reflexivity|exact I]].
    - exists (DEnd pos). split; [apply VEnd; exact H|split; [reflexivity|exact I]].
    - (* VRef *) destruct (IHvalid (rules_wf _ _ H)) as [d' [A [B C]]].
      exists (DRef k d'). split; [eapply VRef; eassumption|split; [exact B|exact C]].
    - (* VMemo *) destruct Hwf as [Hsite Hwe]. destruct (IHvalid Hwe) as [d1 [A [B C]]].
      destruct (find (fun n => dend n =? dend d1) (spine_nodes idx pos d1)) as [n|] eqn:Ef.
      + apply find_some in Ef. destruct Ef as [Hin En]. apply N.eqb_eq in En.
        destruct (spine_valid _ _ _ A Hwe idx n Hin) as [body [Hs Hv]].
        rewrite Hsite in Hs. inversion Hs; subst body.
        exists n. split; [exact Hv|]. split; [rewrite En; exact B|]. apply (spine_nopump _ _ _ A C idx n Hin).
      + exists (DMemo idx d1). split; [apply VMemo; exact A|]. split; [exact B|].
        cbn [nopump]. split; [|exact C]. intros Hin. apply in_map_iff in Hin. destruct Hin as [x [Ex Hx]].
        pose proof (find_none _ _ Ef x Hx) as Hn. cbn beta in Hn. rewrite Ex, N.eqb_refl in Hn. discriminate Hn.
    - (* VAny *) destruct (IHvalid (wfs_nth _ _ _ Hwf H)) as [d' [A [B C]]].
      exists (DAlt i d'). split; [eapply VAny; eassumption|split; [exact B|exact C]].
    - (* VChoice *) destruct (IHvalid (wfs_nth _ _ _ Hwf H)) as [d' [A [B C]]].
      exists (DAlt i d'). split; [eapply VChoice; eassumption|split; [exact B|exact C]].
    - (* VOptS *) destruct (IHvalid Hwf) as [d' [A [B C]]].
      exists (DOptS d'). split; [apply VOptS; exact A|split; [exact B|exact C]].
    - exists (DOptN pos). split; [apply VOptN|split; [reflexivity|exact I]].
    - (* VSeq *) destruct (IHvalid Hwf) as [ds' [A [L [B C]]]].
      exists (DSeq {| q_kind := k; q_ip := ip; q_single := single; q_ps := ps |} pos ds').
      split; [apply VSeq; [exact A|rewrite L; exact H0]|]. split; [rewrite !dend_DSeq; exact B|exact C].
    - exists []. split; [apply VSnil|split; [reflexivity|split; [reflexivity|exact I]]].
    - (* VScons *) destruct (IHvalid (wfs_lookup _ _ _ _ Hwf H)) as [d' [A [B C]]].
      destruct (IHvalid0 Hwf) as [ds' [A0 [L0 [B0 C0]]]].
      exists (d' :: ds'). split; [eapply VScons; [exact H|exact A|rewrite B; exact A0]|].
      split; [cbn [length]; rewrite L0; reflexivity|]. cbn [seq_end nopump_seq]. rewrite B.
      split; [exact B0|split; [exact C|exact C0]].
  Qed.

  (* the pumping lemma: every end reachable by a derivation is reached by one within the bound *)
  Theorem pump_ends e pos d : valid e pos d -> wf e -> in_file pos ->
    exists d', valid e pos d' /\ dend d' = dend d /\ compat inp [] pos d'.
  Proof.
    intros Hv Hwf Hf. destruct (unpump _ _ _ Hv Hwf) as [d' [A [B C]]].
    exists d'. split; [exact A|split; [exact B|apply (nopump_compat _ _ _ A Hf C)]].
  Qed.

  Lemma in_file_offset : in_file (i_offset inp).
  Proof. split; lia. Qed.

  (* ---------- completeness of the engine, final forms ---------- *)
  Section Final.
    Hypothesis rules_mono : forall k body, nth_N rules k = Some body -> mono body = true.
    Hypothesis rules_ef : forall k body, nth_N rules k = Some body -> endfree body = true.
    Variable root : pexpr.
    Hypothesis root_wf : wf root.
    Hypothesis root_mono : mono root = true.
    Hypothesis root_ef : endfree root = true.

    (* every end position the grammar can reach from the start is the end of a returned tree *)
    Theorem C01_complete_ends fuel ns cp err c :
      run inp rules fuel root = Ok (ns, cp, err, c) ->
      forall d, valid root (i_offset inp) d -> exists n, In n ns /\ node_rpos n = dend d.
    Proof.
      intros Hrun d Hv. destruct (pump_ends _ _ _ Hv root_wf in_file_offset) as [d' [A [B C]]].
      exists (yield d'). split; [|exact B].
      apply (complete_top inp rules site rules_wf rules_mono rules_ef fuel root ns cp err c
                          root_wf root_mono root_ef Hrun d' A C).
    Qed.

    (* every derivation tree without a unit cycle is returned; in particular all of them when the
       grammar has no pumpable derivation (finitely many trees) *)
    Theorem C01_complete_trees fuel ns cp err c :
      run inp rules fuel root = Ok (ns, cp, err, c) ->
      forall d, valid root (i_offset inp) d -> nopump (i_offset inp) d -> In (yield d) ns.
    Proof.
      intros Hrun d Hv Hnp.
      apply (complete_top inp rules site rules_wf rules_mono rules_ef fuel root ns cp err c
                          root_wf root_mono root_ef Hrun d Hv).
      apply (nopump_compat _ _ _ Hv in_file_offset Hnp).
    Qed.
    Corollary C01_complete_trees_all fuel ns cp err c :
      (forall e pos d, valid e pos d -> nopump pos d) ->
      run inp rules fuel root = Ok (ns, cp, err, c) ->
      forall d, valid root (i_offset inp) d -> In (yield d) ns.
    Proof. intros Hall Hrun d Hv. apply (C01_complete_trees _ _ _ _ _ Hrun d Hv (Hall _ _ _ Hv)). Qed.

    (* Sentence(root): if root derives the whole input, parsing succeeds with exactly one node *)
    Theorem C04_sentence_complete fuel t d :
      parse_top inp rules fuel (sentence root) = Ok t ->
      valid root (i_offset inp) d -> dend d = i_offset inp + i_len inp ->
      exists n0 c, is_eof inp (node_rpos n0) = true /\
        t = TopNode [handle_result (sq root) (i_offset inp) [n0; NEnd (node_rpos n0)]] c.
    Proof.
      intros Hrun Hv Hend. destruct (pump_ends _ _ _ Hv root_wf in_file_offset) as [d' [A [B C]]].
      apply (sentence_complete inp rules site rules_wf rules_mono rules_ef root root_wf root_mono root_ef
                               fuel t d' Hrun A C). rewrite B. exact Hend.
    Qed.
  End Final.
End Pump.

Print Assumptions C01_complete_ends.
Print Assumptions C01_complete_trees.
Print Assumptions C04_sentence_complete.

(* ---------- non-vacuity ---------- *)
(* P -> P b | a on "abb": the left-nested derivation has no unit cycle, so it is returned *)
Example nopump_direct_lr : nopump 1 lr_d2.
Proof. unfold lr_d2, lr_d1, lr_d0. vm_compute. intuition discriminate. Qed.
Example C01_complete_trees_direct_lr :
  exists ns cp err c, run lr_inp lr_rules 100 (PRef 0) = Ok (ns, cp, err, c) /\ In (yield lr_d2) ns.
Proof.
  destruct (run lr_inp lr_rules 100 (PRef 0)) as [[[[ns cp] err] c]| |] eqn:E;
    [|vm_compute in E; discriminate E|vm_compute in E; discriminate E].
  exists ns, cp, err, c. split; [reflexivity|].
  apply (C01_complete_trees lr_inp lr_rules lr_site lr_wf lr_mono lr_ef (PRef 0)
           (ltac:(vm_compute; reflexivity)) eq_refl eq_refl 100 ns cp err c E lr_d2).
  - unfold lr_d2, lr_d1, lr_d0; valid_tac.
  - exact nopump_direct_lr.
Qed.
(* hidden left recursion P -> x? P b | a on "abb" *)
Example C01_complete_trees_hidden_lr :
  nopump 1 hl_d2 /\
  exists ns cp err c, run lr_inp hl_rules 100 (PRef 0) = Ok (ns, cp, err, c) /\ In (yield hl_d2) ns.
Proof.
  assert (Hn : nopump 1 hl_d2) by (unfold hl_d2, hl_d1, hl_d0; vm_compute; intuition discriminate).
  split; [exact Hn|].
  destruct (run lr_inp hl_rules 100 (PRef 0)) as [[[[ns cp] err] c]| |] eqn:E;
    [|vm_compute in E; discriminate E|vm_compute in E; discriminate E].
  exists ns, cp, err, c. split; [reflexivity|].
  apply (C01_complete_trees lr_inp hl_rules hl_site hl_wf hl_mono hl_ef (PRef 0)
           (ltac:(vm_compute; reflexivity)) eq_refl eq_refl 100 ns cp err c E hl_d2).
  - unfold hl_d2, hl_d1, hl_d0; valid_tac.
  - exact Hn.
Qed.

(* a cyclic grammar, P -> SEQ[P] | a on "a": infinitely many trees.  The tree with three nested SEQ
   is a valid derivation with a unit cycle; it is NOT returned (so [nopump] cannot be dropped from
   [C01_complete_trees]), while its end position is (as [C01_complete_ends] promises). *)
Definition cy_inp : input := (mk_input [97] 1).
Definition cy_alt : list pexpr := [PRef 0].
Definition cy_body : pexpr := PAny [PSeq SeqOf INone false None cy_alt; PTerm (TRune 97)].
Definition cy_rules : list pexpr := [PMemo 1 cy_body].
Definition cy_site (idx : N) : option pexpr := if idx =? 1 then Some cy_body else None.
Definition cy_q : seqinfo := {| q_kind := SeqOf; q_ip := INone; q_single := false; q_ps := cy_alt |}.
Definition cy_up (d : dtree) : dtree := DRef 0 (DMemo 1 (DAlt 0 (DSeq cy_q 1 [d]))).
Definition cy_d0 : dtree := DRef 0 (DMemo 1 (DAlt 1 (ta 1))).
Definition cy_d3 : dtree := cy_up (cy_up (cy_up cy_d0)).
Lemma cy_wf : wf_rules cy_rules cy_site.
Proof. intros k body H. apply nth_N_single in H. subst body. cbn. repeat split; reflexivity. Qed.
Lemma cy_mono : forall k body, nth_N cy_rules k = Some body -> mono body = true.
Proof. intros k body H. apply nth_N_single in H. subst body. reflexivity. Qed.
Lemma cy_ef : forall k body, nth_N cy_rules k = Some body -> endfree body = true.
Proof. intros k body H. apply nth_N_single in H. subst body. reflexivity. Qed.

Example trees_needs_nopump :
  valid cy_inp cy_rules (PRef 0) 1 cy_d3 /\ pumpable 1 cy_d3 /\ ~ compat cy_inp [] 1 cy_d3 /\
  exists ns cp err c, run cy_inp cy_rules 200 (PRef 0) = Ok (ns, cp, err, c) /\
    ~ In (yield cy_d3) ns /\ exists n, In n ns /\ node_rpos n = dend cy_d3.
Proof.
  assert (Hv : valid cy_inp cy_rules (PRef 0) 1 cy_d3) by (unfold cy_d3, cy_up, cy_d0; valid_tac).
  split; [exact Hv|]. split; [|split].
  - unfold pumpable, cy_d3, cy_up, cy_d0. vm_compute. intros [H _]. apply H. left; reflexivity.
  - unfold cy_d3, cy_up, cy_d0. cbn [compat]. intros H.
    repeat match goal with H : _ /\ _ |- _ => destruct H end.
    match goal with H : map_get 1 (map_inc 1 (map_inc 1 (map_inc 1 []))) <= _ |- _ => vm_compute in H; apply H; reflexivity end.
  - destruct (run cy_inp cy_rules 200 (PRef 0)) as [[[[ns cp] err] c]| |] eqn:E;
      [|vm_compute in E; discriminate E|vm_compute in E; discriminate E].
    exists ns, cp, err, c. split; [reflexivity|]. split.
    + vm_compute in E. inversion E; subst. vm_compute. intros [H|[H|[H|[]]]]; discriminate H.
    + apply (C01_complete_ends cy_inp cy_rules cy_site cy_wf cy_mono cy_ef (PRef 0)
               (ltac:(vm_compute; reflexivity)) eq_refl eq_refl 200 ns cp err c E cy_d3 Hv).
Qed.
