(* CompleteTrim.v — completeness of the engine for grammars that TRIM WHITE SPACE
   (text.LeftTrim / text.RightTrim in mode WsSpacesNl), plus ReturnError / SuppressError and
   named sequences: the extension of Complete.v + Pump.v (monotone, End-free fragment) that
   property C05 needs (the arithmetic grammar trims every token).

   Derivations are Sound.v's [xtree] / [xvalid] / [xyield] (Part 4 of Sound.v: LeftTrim's operand
   derivation starts after the white-space run, RightTrim moves the node's reader position
   over the run).

   1. [clean], [monot]: the fragment.  [xcompat]: a derivation respects the curtailment bound
      (Spec.compat on xtrees; LeftTrim calls its operand at the position AFTER the run with the
      SAME left-recursion context, and that is literally what [xcompat] says).
   2. the engine invariant [pcompx]/[scompx] (Complete.v's, over xvalid), [complete_inv_trim],
      [complete_top_trim], [sentence_complete_trim].
   3. the pumping lemma on xtrees: [xnopump_compat], [xunpump], [xpump_ends].  A moving
      LeftTrim does NOT reset the context, so a chain of Memoize activations of one index may
      sit at two positions (before and after the run); the engine's bound has exactly one unit
      of slack (it admits counters 0 .. remaining+1, the pigeonhole needs remaining+1), and
      skipping white space is idempotent, so the slack is spent at most once per chain.
   4. the final theorems [C01_complete_ends_trim], [C01_complete_trees_trim],
      [C04_sentence_complete_trim].
   The arithmetic instance (C05_accepts) is in ArithAccept.v. *)
From Coq Require Import String List NArith Bool Arith Lia.
From Parsley Require Import Obs Base Grammar Engine TermFacts TermTok EngineFacts SetMapFacts Spec Sound Complete.
Import ListNotations.
Open Scope N_scope.

(* ------------------------------------------------------------------------------------- *)
(* 0. White space: Reader.SkipWhitespaces in mode WsSpacesNl never fails and is idempotent *)
(* ------------------------------------------------------------------------------------- *)

Lemma skip_ws_nl inp pos : skip_ws inp pos WsSpacesNl = (ws_end inp pos, None).
Proof.
  unfold skip_ws, ws_end.
  destruct (ws_scan (skipn (N.to_nat (pos - i_offset inp)) (i_data inp)) pos 0) as [e nl]. reflexivity.
Qed.

Lemma trim_nodes_nl_none inp ns : forall w res' w',
  trim_nodes inp WsSpacesNl ns w = (res', w') -> w = None -> w' = None.
Proof.
  induction ns as [|n ns IH]; intros w res' w' H Hw; cbn [trim_nodes] in H; [inversion H; subst; reflexivity|].
  destruct n; cbn [node_rpos] in H;
    try (rewrite skip_ws_nl in H;
         destruct (trim_nodes inp WsSpacesNl ns None) as [t' w2] eqn:Et; inversion H; subst;
         eapply IH; [exact Et|reflexivity]).
  destruct (trim_nodes inp WsSpacesNl ns w) as [t' w2] eqn:Et. inversion H; subst. eapply IH; [exact Et|reflexivity].
Qed.

Lemma trim_nodes_nl inp ns : trim_nodes inp WsSpacesNl ns None = (map (rtrim_node inp) ns, None).
Proof.
  destruct (trim_nodes inp WsSpacesNl ns None) as [res' w'] eqn:E.
  rewrite (trim_nodes_map _ _ _ _ _ _ E), (trim_nodes_nl_none _ _ _ _ _ E eq_refl). reflexivity.
Qed.

(* where the scan stops there is no white-space byte *)
Lemma ws_scan_stop l : forall pos nl,
  pos <= fst (ws_scan l pos nl) /\
  match skipn (N.to_nat (fst (ws_scan l pos nl) - pos)) l with [] => True | b :: _ => is_ws b = false end.
Proof.
  induction l as [|b t IH]; intros pos nl; cbn [ws_scan].
  - cbn [fst]. rewrite N.sub_diag. split; [lia|exact I].
  - destruct (is_ws b) eqn:Eb.
    + destruct (IH (pos + 1) (if is_nl b && (nl =? 0) then pos else nl)) as [H1 H2].
      set (e := fst (ws_scan t (pos + 1) (if is_nl b && (nl =? 0) then pos else nl))) in *.
      split; [lia|].
      replace (N.to_nat (e - pos)) with (S (N.to_nat (e - (pos + 1)))) by lia. exact H2.
    + cbn [fst]. rewrite N.sub_diag. split; [lia|exact Eb].
Qed.

Lemma ws_end_idem inp pos : in_file inp pos -> ws_end inp (ws_end inp pos) = ws_end inp pos.
Proof.
  intros [Hlo Hhi]. unfold ws_end at 1.
  set (e := ws_end inp pos).
  destruct (ws_scan_stop (skipn (N.to_nat (pos - i_offset inp)) (i_data inp)) pos 0) as [Hle Hst].
  change (fst (ws_scan (skipn (N.to_nat (pos - i_offset inp)) (i_data inp)) pos 0)) with e in Hle, Hst.
  rewrite Sound.skipn_add in Hst.
  replace (N.to_nat (pos - i_offset inp) + N.to_nat (e - pos))%nat with (N.to_nat (e - i_offset inp)) in Hst by lia.
  destruct (skipn (N.to_nat (e - i_offset inp)) (i_data inp)) as [|b t]; [reflexivity|].
  cbn [ws_scan]. rewrite Hst. reflexivity.
Qed.

(* RightTrim's copy of a node: same token; the reader position moves over the run *)
Lemma rtrim_node_eof inp n : is_eof_node (rtrim_node inp n) = is_eof_node n.
Proof. destruct n; reflexivity. Qed.
Lemma rtrim_node_rpos inp n : is_eof_node n = false -> node_rpos (rtrim_node inp n) = ws_end inp (node_rpos n).
Proof. destruct n; try reflexivity. intros H; discriminate H. Qed.
Lemma rtrim_node_rpos_ge inp n : in_file inp (node_rpos n) -> node_rpos n <= node_rpos (rtrim_node inp n).
Proof.
  intros Hin. destruct (ws_end_run inp _ Hin) as [[Hle _] _].
  destruct n; cbn [rtrim_node set_rpos node_rpos] in *; lia.
Qed.

Lemma handle_result_rpos q pos ns : node_rpos (handle_result q pos ns) = nodes_end pos ns.
Proof.
  destruct ns as [|n [|n2 t]]; unfold handle_result, nodes_end.
  - reflexivity.
  - destruct (q_single q); reflexivity.
  - cbn [node_rpos]. f_equal. apply last_default.
Qed.
Lemma xdend_XSeq inp q pos ds : xdend inp (XSeq q pos ds) = xseq_end inp pos ds.
Proof. unfold xdend. cbn [xyield]. rewrite handle_result_rpos, xseq_end_nodes. reflexivity. Qed.

(* ------------------------------------------------------------------------------------- *)
(* 1. The fragment, and compatibility of an extended derivation with a context             *)
(* ------------------------------------------------------------------------------------- *)

Section Frag.
  (* [cr k]: rule k is "clean" (below).  Only the operands of RightTrim and ReturnError must be
     clean; take [fun _ => true] when every rule body is (a Memoize over Any / SeqOf / a terminal). *)
  Variable cr : N -> bool.

  (* a parser that never returns results TOGETHER WITH an error.  (Optional does: it appends EMPTY
     to its operand's results and passes the operand's error on.  RightTrim returns the operand's
     nodes UNTRIMMED when it gets nodes and an error, ReturnError returns no node at all then.) *)
  Fixpoint clean (e : pexpr) : bool :=
    match e with
    | PRef k => cr k
    | POpt _ => false
    | PMemo _ p | PLeftTrim _ p | PRightTrim _ p => clean p
    | _ => true
    end.

  (* Spec.mono plus: named SeqOf, ReturnError and RightTrim(WsSpacesNl) over a clean operand,
     SuppressError, LeftTrim(WsSpacesNl) over ANY operand of the fragment *)
  Fixpoint monot (e : pexpr) : bool :=
    match e with
    | PTerm _ | PEmpty | PEnd | PRef _ => true
    | PMemo _ p | POpt p | PSuppress p => monot p
    | PAny ps => forallb monot ps
    | PSeq SeqOf _ _ _ ps => forallb monot ps
    | PName _ p => clean p && monot p
    | PLeftTrim WsSpacesNl p => monot p
    | PRightTrim WsSpacesNl p => clean p && monot p
    | _ => false
    end.

  (* the fragment extends Complete.v's *)
  Lemma mono_monot : forall e, mono e = true -> monot e = true.
  Proof.
    fix F 1. intros e. destruct e; cbn [mono monot];
      try (intros H; first [discriminate H | reflexivity | apply F; exact H]).
    - intros H. induction ps as [|p ps IH]; [reflexivity|]. cbn [forallb] in *.
      apply andb_true_iff in H. destruct H as [H1 H2]. rewrite (F p H1), (IH H2). reflexivity.
    - destruct k; try (intros H; discriminate H). destruct name; [intros H; discriminate H|].
      intros H. induction ps as [|p ps IH]; [reflexivity|]. cbn [forallb] in *.
      apply andb_true_iff in H. destruct H as [H1 H2]. rewrite (F p H1), (IH H2). reflexivity.
  Qed.
End Frag.

Section XCompat.
  Variable inp : input.
  (* Spec.compat on extended derivations.  LeftTrim: the operand is entered at the position after
     the run with the same context.  RightTrim / ReturnError / SuppressError: transparent.  A
     derivation through [XRKeep] (RightTrim that passes the operand's nodes on untrimmed, which it
     does only together with an error) or through Single is never compatible: the fragment's
     operands never produce it. *)
  Fixpoint xcompat (lrc : intmap) (pos : N) (d : xtree) {struct d} : Prop :=
    match d with
    | XTerm _ | XEmpty _ | XEnd _ | XOptN _ => True
    | XRef _ d' | XAlt _ d' | XOptS d' | XName d' | XSuppress d' | XRTrim d' => xcompat lrc pos d'
    | XLTrim d' => xcompat lrc (ws_end inp pos) d'
    | XMemo idx d' => map_get idx lrc <= remaining inp pos + 1 /\ xcompat (map_inc idx lrc) pos d'
    | XSeq _ _ ds =>
      (fix cs (lrc : intmap) (pos : N) (ds : list xtree) {struct ds} : Prop :=
         match ds with
         | [] => True
         | d' :: ds' => xcompat lrc pos d' /\ cs (if pos <? xdend inp d' then [] else lrc) (xdend inp d') ds'
         end) lrc pos ds
    | XRKeep _ | XSingleK _ | XSingleU _ _ => False
    end.
  Definition xcompat_seq :=
    fix cs (lrc : intmap) (pos : N) (ds : list xtree) {struct ds} : Prop :=
      match ds with
      | [] => True
      | d' :: ds' => xcompat lrc pos d' /\ cs (if pos <? xdend inp d' then [] else lrc) (xdend inp d') ds'
      end.
  Lemma xcompat_XSeq lrc pos q p ds : xcompat lrc pos (XSeq q p ds) = xcompat_seq lrc pos ds.
  Proof. reflexivity. Qed.
End XCompat.

(* ------------------------------------------------------------------------------------- *)
(* 2. The engine invariant                                                                 *)
(* ------------------------------------------------------------------------------------- *)
Section CT.
  Variable inp : input.
  Variable rules : list pexpr.
  Variable site : N -> option pexpr.
  Variable cr : N -> bool.
  Hypothesis rules_wf : wf_rules rules site.
  Hypothesis rules_monot : forall k body, nth_N rules k = Some body -> monot cr body = true.
  Hypothesis rules_ef : forall k body, nth_N rules k = Some body -> endfree body = true.
  Hypothesis cr_ok : forall k body, cr k = true -> nth_N rules k = Some body -> clean cr body = true.

  Notation wf := (wf rules site).
  Notation wfs := (wfs rules site).
  Notation xv := (xvalid inp rules).
  Notation xvs := (xvalid_seq inp rules).
  Notation xy := (xyield inp).
  Notation xe := (xdend inp).
  (* TermFacts loads ZifyBool (through ReaderProofs): [lia] would look at the boolean section hypotheses and
     every lemma closed by it would silently depend on them (LitIntegration.md, section 6) *)
  Ltac lia := try clear rules_monot; try clear rules_ef; try clear cr_ok; try clear cr; Lia.lia.

  Definition xcomplete_for (e : pexpr) (p : N) (ns : list node) (l' : intmap) : Prop :=
    forall d, xv e p d -> xcompat inp l' p d -> In (xy d) ns.

  Definition xentry_ok (idx pos : N) (r : result) : Prop :=
    (forall kv, In kv (r_lrc r) -> set_mem (fst kv) (r_cp r) = true) /\
    noeof (r_nodes r) /\
    forall body, site idx = Some body ->
      (clean cr body = true -> r_nodes r <> [] -> r_err r = None) /\
      forall l', reusable (r_lrc r) l' = true -> xcomplete_for (PMemo idx body) pos (r_nodes r) l'.
  Definition xcache_c (c : ctx) : Prop :=
    forall idx pos r, cache_find (idx, pos) (cache c) = Some r -> xentry_ok idx pos r.

  Definition pcompx (rp : ptype) : Prop :=
    forall e c stk l p ns cp err c', wf e -> monot cr e = true -> endfree e = true -> xcache_c c ->
      rp e c stk l p = Ok (ns, cp, err, c') ->
      xcache_c c' /\ noeof ns /\ (clean cr e = true -> ns <> [] -> err = None) /\
      forall l', ge_on cp l l' -> xcomplete_for e p ns l'.

  (* the sequence search at depth d, position p, flag m, in an End-free sequence whose prefix has no
     EOF node: it never stops early, results and curtailing parsers only grow, and every valid,
     compatible completion of the prefix with the right total length is emitted *)
  Definition scompx (rs : stype) : Prop :=
    forall q d c stk l p m st stop st' c',
      q_kind q = SeqOf -> wfs (q_ps q) -> forallb (monot cr) (q_ps q) = true -> forallb endfree (q_ps q) = true ->
      xcache_c c -> noeof (s_nodes st) ->
      rs q d c stk l p m st = Ok (stop, st', c') ->
      xcache_c c' /\ subset (s_cp st) (s_cp st') /\ incl (s_res st) (s_res st') /\
      stop = false /\ (noeof (s_res st) -> noeof (s_res st')) /\
      forall l', (if m then ge_on (s_cp st') l l' else l' = l) ->
        forall ds, xvs SeqOf (q_ps q) d p ds -> xcompat_seq inp l' p ds ->
          seq_lencheck SeqOf (length (q_ps q)) (d + length ds) = true ->
          In (handle_result q p (rev (s_nodes st) ++ map xy ds)) (s_res st').

  Lemma xcache_c_save c idx pos r :
    xcache_c c -> xentry_ok idx pos r -> xcache_c (cache_save c idx pos r).
  Proof.
    intros Hc Hr idx' pos' r' H. unfold cache_save in H; cbn [cache cache_find fst snd] in H.
    destruct ((idx' =? idx) && (pos' =? pos)) eqn:E.
    - apply andb_true_iff in E. destruct E as [E1 E2]. apply N.eqb_eq in E1, E2. subst.
      inversion H; subst; exact Hr.
    - apply (Hc idx' pos' r' H).
  Qed.
  Lemma xcache_c_cache c c' : cache c' = cache c -> xcache_c c -> xcache_c c'.
  Proof. intros E H idx pos r Hf. rewrite E in Hf. exact (H idx pos r Hf). Qed.

  Section Step.
    Variable rp : ptype.
    Variable rs : stype.
    Hypothesis Hp : pcompx rp.
    Hypothesis Hs : scompx rs.

    Lemma any_loop_compx stk l p : forall ps done c cp res err nf ns cp' err' c',
      wfs ps -> forallb (monot cr) ps = true -> forallb endfree ps = true -> xcache_c c -> noeof res ->
      (forall l', ge_on cp l l' -> forall e d, In e done -> xv e p d -> xcompat inp l' p d -> In (xy d) res) ->
      any_loop rp stk l p ps c cp res err nf = Ok (ns, cp', err', c') ->
      xcache_c c' /\ subset cp cp' /\ noeof ns /\ (ns <> [] -> err' = None) /\
      forall l', ge_on cp' l l' -> forall e d, In e (done ++ ps) -> xv e p d -> xcompat inp l' p d -> In (xy d) ns.
    Proof.
      induction ps as [|q ps IH]; intros done c cp res err nf ns cp' err' c' Hwf Hm He Hc Hne Hres H;
        cbn [any_loop] in H.
      - rewrite app_nil_r.
        destruct res; inversion H; subst;
          (split; [exact Hc|split; [intros m Hx; exact Hx|split; [exact Hne|split; [|exact Hres]]]]).
        + intros Hx. exfalso. apply Hx. reflexivity.
        + intros _. reflexivity.
      - apply bind_ok in H. destruct H as [[[[res2 cp2] err2] c2] [H1 H2]].
        destruct Hwf as [Hwq Hwps].
        cbn [forallb] in Hm, He. apply andb_true_iff in Hm, He. destruct Hm as [Hmq Hmps]. destruct He as [Heq Heps].
        destruct (Hp q (reg_call c) stk l p _ _ _ _ Hwq Hmq Heq Hc H1) as [Hc2 [Hn2 [_ Hq]]].
        destruct (alt_err p err nf err2) as [err'' nf''].
        assert (Hnext : forall l', ge_on (set_union cp cp2) l l' -> forall e d, In e (done ++ [q]) ->
                  xv e p d -> xcompat inp l' p d -> In (xy d) (append_node res res2)).
        { intros l' Hge e d Hin Hv Hcm. apply in_app_or in Hin. destruct Hin as [Hin|[Hin|[]]].
          - apply append_node_in_l. apply (Hres l') with (e := e); [|exact Hin|exact Hv|exact Hcm].
            eapply ge_on_sub; [apply subset_union_l|exact Hge].
          - subst e. apply append_node_in_r. apply (Hq l'); [|exact Hv|exact Hcm].
            eapply ge_on_sub; [apply subset_union_r|exact Hge]. }
        destruct (IH (done ++ [q]) _ _ _ _ _ _ _ _ _ Hwps Hmps Heps Hc2 (noeof_append _ _ Hne Hn2) Hnext H2)
          as [A [B [C [C' D]]]].
        split; [exact A|]. split; [intros m Hx; apply B, subset_union_l, Hx|]. split; [exact C|]. split; [exact C'|].
        intros l' Hge e d Hin. apply (D l' Hge e d). rewrite <- app_assoc. exact Hin.
    Qed.

    Lemma parse_step_compx : pcompx (parse_step inp rules rp rs).
    Proof.
      intros e c stk l p ns cp err c' Hwf Hm Hef Hc H.
      destruct e; cbn [monot] in Hm; try discriminate Hm; cbn [parse_step] in H.
      - (* PTerm *)
        destruct (term_parse inp t p) as [res0 err0] eqn:Et. inversion H; subst.
        split; [destruct ns as [|? ?]; [destruct err|]; exact Hc|].
        split; [eapply noeof_term; [exact Hef|exact Et]|].
        split.
        + intros _ Hx. destruct (term_parse_cases _ _ _ _ _ Et) as [->|[m [_ ->]]]; [exfalso; apply Hx; reflexivity|reflexivity].
        + intros l' _ d Hv _. inversion Hv; subst.
          match goal with Hx : term_parse _ _ _ = ([_], None) |- _ => rewrite Et in Hx; inversion Hx; subst end.
          left; reflexivity.
      - (* PEmpty *)
        inversion H; subst. split; [exact Hc|]. split; [intros n [Hn|[]]; subst n; reflexivity|].
        split; [intros _ _; reflexivity|].
        intros l' _ d Hv _. inversion Hv; subst. left; reflexivity.
      - (* PEnd *) discriminate Hef.
      - (* PRef *)
        destruct (nth_N rules k) as [body|] eqn:Ek; [|discriminate H].
        destruct (Hp _ _ _ _ _ _ _ _ _ (rules_wf _ _ Ek) (rules_monot _ _ Ek) (rules_ef _ _ Ek) Hc H)
          as [A [Bn [Bc B]]].
        split; [exact A|]. split; [exact Bn|]. split.
        + cbn [clean]. intros Hk. apply Bc. exact (cr_ok _ _ Hk Ek).
        + intros l' Hge d Hv Hcm. inversion Hv; subst.
          match goal with Hx : nth_N rules k = Some _ |- _ => rewrite Ek in Hx; inversion Hx; subst end.
          match goal with Hx : xvalid _ _ _ p ?dd |- _ => apply (B l' Hge dd Hx Hcm) end.
      - (* PMemo *)
        cbn [endfree] in Hef. destruct Hwf as [Hsite Hwe].
        destruct (cache_get c idx p l) as [r|] eqn:Eg.
        + inversion H; subst. split; [exact Hc|].
          unfold cache_get in Eg. destruct (cache_find (idx, p) (cache c')) as [r0|] eqn:Ef; [|discriminate].
          destruct (reusable (r_lrc r0) l) eqn:Er; [|discriminate]. inversion Eg; subst r0.
          destruct (Hc _ _ _ Ef) as [Hk [Hne Hbody]]. destruct (Hbody e Hsite) as [Hcl Hcomp].
          split; [exact Hne|]. split; [exact Hcl|].
          intros l' Hge. apply Hcomp. eapply reusable_trans; eauto.
        + destruct (remaining inp p + 1 <? map_get idx l) eqn:Ecut.
          * inversion H; subst. split; [exact Hc|]. split; [apply noeof_nil|].
            split; [intros _ Hx; exfalso; apply Hx; reflexivity|].
            intros l' Hge d Hv Hcm. inversion Hv; subst. cbn [xcompat] in Hcm. destruct Hcm as [Hle _].
            apply N.ltb_lt in Ecut. specialize (Hge idx). cbn [set_mem] in Hge. rewrite N.eqb_refl in Hge.
            specialize (Hge eq_refl). lia.
          * apply bind_ok in H. destruct H as [[[[n cp0] err0] c0] [H1 H2]]. inversion H2; subst.
            destruct (Hp e (log_body c idx p (1 + count_active idx p stk)) ((idx, p) :: stk) (map_inc idx l) p _ _ _ _
                         Hwe Hm Hef Hc H1) as [Hc0 [Hn0 [Hcl0 Hbody]]].
            assert (Hmemo : forall l', ge_on cp l l' -> xcomplete_for (PMemo idx e) p ns l').
            { intros l' Hge d Hv Hcm. inversion Hv; subst. cbn [xcompat] in Hcm. destruct Hcm as [_ Hcm].
              match goal with Hx : xvalid _ _ e p ?dd |- _ =>
                apply (Hbody (map_inc idx l') (ge_on_inc _ _ _ _ Hge) dd Hx Hcm) end. }
            split; [|split; [exact Hn0|split; [exact Hcl0|exact Hmemo]]].
            apply xcache_c_save; [exact Hc0|]. split; [|split]; cbn [r_lrc r_cp r_nodes r_err].
            -- intros kv Hin. unfold map_filter in Hin. apply filter_In in Hin. tauto.
            -- exact Hn0.
            -- intros body Hb. rewrite Hsite in Hb. inversion Hb; subst body. split; [exact Hcl0|].
               intros l' Hr. apply Hmemo. apply reusable_filter; exact Hr.
      - (* PAny *)
        cbn [endfree] in Hef.
        destruct (any_loop_compx stk l p ps [] c [] [] None None ns cp err c' Hwf Hm Hef Hc noeof_nil) as [A [_ [Bn [Bc B]]]].
        + intros l' _ e d [].
        + exact H.
        + split; [exact A|]. split; [exact Bn|]. split; [intros _; exact Bc|].
          intros l' Hge d Hv Hcm. inversion Hv; subst. cbn [xcompat] in Hcm.
          match goal with Hx : xvalid _ _ ?ee p ?dd, Hn : nth_error ps ?ii = Some ?ee |- _ =>
            apply (B l' Hge ee dd (nth_error_In _ _ Hn) Hx Hcm) end.
      - (* POpt *)
        cbn [endfree] in Hef.
        apply bind_ok in H. destruct H as [[[[n cp0] err0] c0] [H1 H2]]. inversion H2; subst.
        destruct (Hp e c stk l p _ _ _ _ Hwf Hm Hef Hc H1) as [A [Bn [_ B]]]. split; [exact A|]. split; [|split].
        + apply noeof_append; [exact Bn|]. intros x [Hx|[]]. subst x. reflexivity.
        + intros Hx. discriminate Hx.
        + intros l' Hge d Hv Hcm. inversion Hv; subst.
          * apply append_node_in_l. match goal with Hx : xvalid _ _ _ p ?dd |- _ => apply (B l' Hge dd Hx Hcm) end.
          * apply append_node_in_r. left; reflexivity.
      - (* PSeq *)
        destruct k; try discriminate Hm. cbn [endfree] in Hef.
        apply bind_ok in H. destruct H as [[[stop st] c0] [H1 H2]].
        set (q := {| q_kind := SeqOf; q_ip := ip; q_single := single; q_ps := ps |}) in *.
        destruct (Hs q 0%nat c stk l p true {| s_cp := []; s_res := []; s_err := None; s_nodes := [] |} stop st c0
                     eq_refl Hwf Hm Hef Hc noeof_nil H1) as [A [_ [_ [_ [Bn B]]]]].
        specialize (Bn noeof_nil).
        assert (Hcomp : forall l', ge_on (s_cp st) l l' -> xcomplete_for (PSeq SeqOf ip single name ps) p (s_res st) l').
        { intros l' Hge d Hv Hcm. inversion Hv; subst. rewrite xcompat_XSeq in Hcm.
          match goal with Hx : xvalid_seq _ _ _ ps 0%nat p ?dss, Hl : seq_lencheck _ _ _ = true |- _ =>
            specialize (B l' Hge dss Hx Hcm Hl) end.
          cbn [s_nodes rev app] in B. cbn [xyield]. exact B. }
        destruct (s_res st) eqn:E; inversion H2; subst.
        + split; [exact A|]. split; [apply noeof_nil|]. split; [intros _ Hx; exfalso; apply Hx; reflexivity|exact Hcomp].
        + split; [exact A|]. split; [exact Bn|]. split; [intros _ _; reflexivity|exact Hcomp].
      - (* PName *)
        apply andb_true_iff in Hm. destruct Hm as [Hcl Hm]. cbn [endfree] in Hef.
        apply bind_ok in H. destruct H as [[[[res cp0] err0] c0] [H1 H2]].
        destruct (Hp e c stk l p _ _ _ _ Hwf Hm Hef Hc H1) as [A [Bn [Bc B]]]. specialize (Bc Hcl).
        assert (Hres : forall l', ge_on cp0 l l' -> forall d, xv (PName name e) p d -> xcompat inp l' p d -> In (xy d) res).
        { intros l' Hge d Hv Hcm. inversion Hv; subst. cbn [xcompat] in Hcm. cbn [xyield].
          match goal with Hx : xvalid _ _ e p ?dd |- _ => apply (B l' Hge dd Hx Hcm) end. }
        destruct err0 as [e0|].
        + inversion H2; subst. split; [exact A|]. split; [apply noeof_nil|].
          split; [intros _ Hx; exfalso; apply Hx; reflexivity|].
          intros l' Hge d Hv Hcm. exfalso. pose proof (Hres l' Hge d Hv Hcm) as Hin.
          destruct res as [|r0 res]; [destruct Hin|]. discriminate (Bc ltac:(discriminate)).
        + destruct res as [|r0 res]; inversion H2; subst.
          * split; [exact A|]. split; [apply noeof_nil|]. split; [intros _ Hx; exfalso; apply Hx; reflexivity|exact Hres].
          * split; [exact A|]. split; [exact Bn|]. split; [intros _ _; reflexivity|exact Hres].
      - (* PLeftTrim *)
        destruct m; try discriminate Hm. cbn [endfree] in Hef. rewrite skip_ws_nl in H.
        apply bind_ok in H. destruct H as [[[[res cp0] err0] c0] [H1 H2]].
        destruct (Hp e c stk l (ws_end inp p) _ _ _ _ Hwf Hm Hef Hc H1) as [A [Bn [Bc B]]].
        assert (Hc'' : xcache_c (match cerr c0 with
                                 | Some ce => if (epos ce =? ws_end inp p) && is_notfound ce
                                              then set_error c0 (Some (mk_err p (ecause ce))) else c0
                                 | None => c0
                                 end)).
        { destruct (cerr c0) as [ce|]; [|exact A]. destruct ((epos ce =? ws_end inp p) && is_notfound ce); exact A. }
        assert (Hres : forall l', ge_on cp0 l l' -> xcomplete_for (PLeftTrim WsSpacesNl e) p res l').
        { intros l' Hge d Hv Hcm. inversion Hv; subst. cbn [xcompat] in Hcm. cbn [xyield].
          match goal with Hx : xvalid _ _ e _ ?dd |- _ => apply (B l' Hge dd Hx Hcm) end. }
        destruct err0 as [e0|]; inversion H2; subst.
        + split; [exact Hc''|]. split; [exact Bn|]. split; [exact Bc|exact Hres].
        + split; [exact Hc''|]. split; [exact Bn|]. split; [intros _ _; reflexivity|exact Hres].
      - (* PRightTrim *)
        destruct m; try discriminate Hm. apply andb_true_iff in Hm. destruct Hm as [Hcl Hm]. cbn [endfree] in Hef.
        apply bind_ok in H. destruct H as [[[[res cp0] err0] c0] [H1 H2]].
        destruct (Hp e c stk l p _ _ _ _ Hwf Hm Hef Hc H1) as [A [Bn [Bc B]]]. specialize (Bc Hcl).
        destruct err0 as [e0|].
        + (* the operand returned an error: then it returned no node *)
          assert (Er : res = []).
          { destruct res as [|r0 res]; [reflexivity|]. discriminate (Bc ltac:(discriminate)). }
          inversion H2; subst. split; [exact A|]. split; [apply noeof_nil|].
          split; [intros _ Hx; exfalso; apply Hx; reflexivity|].
          intros l' Hge d Hv Hcm. inversion Hv; subst; cbn [xcompat] in Hcm; [|destruct Hcm].
          match goal with Hx : xvalid _ _ e p ?dd |- _ => destruct (B l' Hge dd Hx Hcm) end.
        + rewrite trim_nodes_nl in H2. inversion H2; subst. split; [exact A|]. split.
          * intros n Hin. apply in_map_iff in Hin. destruct Hin as [n0 [<- Hin]]. rewrite rtrim_node_eof. apply Bn, Hin.
          * split; [intros _ _; reflexivity|].
            intros l' Hge d Hv Hcm. inversion Hv; subst; cbn [xcompat] in Hcm; [|destruct Hcm].
            cbn [xyield]. apply in_map.
            match goal with Hx : xvalid _ _ e p ?dd |- _ => apply (B l' Hge dd Hx Hcm) end.
      - (* PSuppress *)
        cbn [endfree] in Hef.
        apply bind_ok in H. destruct H as [[[[res cp0] err0] c0] [H1 H2]]. inversion H2; subst.
        destruct (Hp e c stk l p _ _ _ _ Hwf Hm Hef Hc H1) as [A [Bn [_ B]]].
        split; [exact A|]. split; [exact Bn|]. split; [intros _ _; reflexivity|].
        intros l' Hge d Hv Hcm. inversion Hv; subst. cbn [xcompat] in Hcm. cbn [xyield].
        match goal with Hx : xvalid _ _ e p ?dd |- _ => apply (B l' Hge dd Hx Hcm) end.
    Qed.

    Lemma alts_loop_compx q d stk l p m prefix :
      q_kind q = SeqOf -> wfs (q_ps q) -> forallb (monot cr) (q_ps q) = true -> forallb endfree (q_ps q) = true ->
      noeof prefix ->
      forall ns st c stop st' c', xcache_c c -> noeof ns ->
      alts_loop rs q d stk l p m prefix ns st c = Ok (stop, st', c') ->
      xcache_c c' /\ subset (s_cp st) (s_cp st') /\ incl (s_res st) (s_res st') /\
      stop = false /\ (noeof (s_res st) -> noeof (s_res st')) /\
      forall l', (if m then ge_on (s_cp st') l l' else l' = l) ->
        forall n ds, In n ns -> xvs SeqOf (q_ps q) (S d) (node_rpos n) ds ->
          xcompat_seq inp (if p <? node_rpos n then [] else l') (node_rpos n) ds ->
          seq_lencheck SeqOf (length (q_ps q)) (S d + length ds) = true ->
          In (handle_result q (node_rpos n) (rev (n :: prefix) ++ map xy ds)) (s_res st').
    Proof.
      intros Hk Hwf Hmo Hef Hpre. induction ns as [|n0 ns IH]; intros st c stop st' c' Hc Hns H; cbn [alts_loop] in H.
      - inversion H; subst. split; [exact Hc|]. split; [intros x Hx; exact Hx|].
        split; [intros x Hx; exact Hx|]. split; [reflexivity|]. split; [intros Hx; exact Hx|].
        intros l' _ n ds [].
      - apply bind_ok in H. destruct H as [[[stop1 st1] c1] [H1 H2]].
        assert (Hnn : noeof (n0 :: prefix)).
        { intros x [Hx|Hx]; [subst x; apply Hns; left; reflexivity|apply Hpre, Hx]. }
        destruct (Hs q (S d) c stk (if p <? node_rpos n0 then [] else l) (node_rpos n0)
                     (if p <? node_rpos n0 then false else m)
                     {| s_cp := s_cp st; s_res := s_res st; s_err := s_err st; s_nodes := n0 :: prefix |}
                     stop1 st1 c1 Hk Hwf Hmo Hef Hc Hnn H1) as [Hc1 [Sub1 [Inc1 [Stop1 [NoE1 Comp1]]]]].
        cbn [s_cp s_res s_nodes] in Sub1, Inc1, NoE1, Comp1. subst stop1.
        assert (Hns' : noeof ns) by (intros x Hx; apply Hns; right; exact Hx).
        destruct (IH _ _ _ _ _ Hc1 Hns' H2) as [Hc' [Sub2 [Inc2 [Stop2 [NoE2 Comp2]]]]].
        split; [exact Hc'|].
        split; [intros x Hx; apply Sub2, Sub1, Hx|]. split; [intros x Hx; apply Inc2, Inc1, Hx|].
        split; [exact Stop2|]. split; [intros Hx; apply NoE2, NoE1, Hx|].
        intros l' Hcond n ds [En|Hin] Hv Hcm Hlen.
        + subst n0. apply Inc2.
          apply (Comp1 (if p <? node_rpos n then [] else l')); [|exact Hv|exact Hcm|exact Hlen].
          destruct (p <? node_rpos n); [reflexivity|].
          destruct m; [|exact Hcond]. eapply ge_on_sub; [exact Sub2|exact Hcond].
        + apply (Comp2 l' Hcond n ds Hin Hv Hcm Hlen).
    Qed.

    Lemma seq_step_compx : scompx (seq_step rp rs).
    Proof.
      intros q d c stk l p m st stop st' c' Hk Hwf Hmo Hef Hc Hnn H. unfold seq_step in H.
      apply bind_ok in H. destruct H as [[[[res cp] err] c1] [H1 H2]].
      rewrite Hk in H1, H2. cbn [seq_lookup seq_lencheck] in H1, H2.
      set (st1 := {| s_cp := if m then set_union (s_cp st) cp else s_cp st; s_res := s_res st;
                     s_err := keep_max (s_err st) err; s_nodes := s_nodes st |}) in *.
      assert (Hsub1 : subset (s_cp st) (s_cp st1)).
      { intros x Hx. cbn [st1 s_cp]. destruct m; [rewrite set_mem_union, Hx; reflexivity | exact Hx]. }
      assert (Hcpsub : m = true -> subset cp (s_cp st1)).
      { intros -> x Hx. cbn [st1 s_cp]. rewrite set_mem_union, Hx, orb_true_r. reflexivity. }
      assert (Hsubcall : xcache_c c1 /\
                (forall e, nth_error (q_ps q) d = Some e -> forall l', ge_on cp l l' -> xcomplete_for e p res l') /\
                noeof res /\ (nth_error (q_ps q) d = None -> res = [])).
      { destruct (nth_error (q_ps q) d) as [e|] eqn:Eq.
        - destruct (Hp e (reg_call c) stk l p _ _ _ _ (wfs_nth _ _ _ _ _ Hwf Eq) (forallb_nth _ _ _ _ Hmo Eq)
                       (forallb_nth _ _ _ _ Hef Eq) Hc H1) as [A [Bn [_ B]]].
          split; [exact A|]. split; [intros e' Eq'; inversion Eq'; subst; exact B|].
          split; [exact Bn|discriminate].
        - inversion H1; subst. split; [exact Hc|]. split; [discriminate|]. split; [apply noeof_nil|reflexivity]. }
      destruct Hsubcall as [Hc1 [Hcomp [Hnres Hnone]]].
      assert (Hge_cp : forall X l', subset (s_cp st1) X -> (if m then ge_on X l l' else l' = l) -> ge_on cp l l').
      { intros X l' HX Hcond. destruct m; [|subst; apply ge_on_refl].
        eapply ge_on_sub; [|exact Hcond]. intros x Hx. apply HX, Hcpsub; [reflexivity|exact Hx]. }
      destruct res as [|n ns].
      - destruct (Nat.eqb d (length (q_ps q))) eqn:Ed.
        + apply Nat.eqb_eq in Ed.
          assert (Hds : forall ds : list xtree, seq_lencheck SeqOf (length (q_ps q)) (d + length ds) = true -> ds = []).
          { intros ds Hl. cbn [seq_lencheck] in Hl. apply Nat.eqb_eq in Hl. destruct ds; [reflexivity|cbn [length] in Hl; lia]. }
          cbn [s_nodes st1 s_res s_cp s_err] in H2.
          assert (Hst : stop = false /\
                        st' = {| s_cp := s_cp st1; s_res := append_node (s_res st) [handle_result q p (rev (s_nodes st))];
                                 s_err := keep_max (s_err st) err; s_nodes := s_nodes st |} /\ c' = c1).
          { destruct (s_nodes st) as [|lastn pre] eqn:En; inversion H2; subst; (split; [|split; reflexivity]);
              [reflexivity|]. apply Hnn. left; reflexivity. }
          destruct Hst as [-> [-> ->]]. cbn [s_cp s_res].
          split; [exact Hc1|]. split; [exact Hsub1|].
          split; [intros x Hin; apply append_node_in_l; exact Hin|]. split; [reflexivity|]. split.
          * intros Hnr. apply noeof_append; [exact Hnr|].
            intros x [Hin|[]]. subst x. apply is_eof_handle; [exact Hk|].
            intros y Hy. apply Hnn. apply in_rev. exact Hy.
          * intros l' _ ds _ _ Hl. rewrite (Hds ds Hl). cbn [map]. rewrite app_nil_r.
            apply append_node_in_r. left; reflexivity.
        + inversion H2; subst. split; [exact Hc1|]. split; [exact Hsub1|].
          split; [intros x Hx; exact Hx|]. split; [reflexivity|]. split; [intros Hx; exact Hx|].
          intros l' Hcond ds Hv Hcm Hl. exfalso.
          cbn [seq_lencheck] in Hl. apply Nat.eqb_eq in Hl. apply Nat.eqb_neq in Ed.
          destruct ds as [|d0 ds]; [cbn [length] in Hl; lia|].
          inversion Hv; subst. cbn [xcompat_seq] in Hcm. destruct Hcm as [Hcm0 _].
          match goal with Hx : seq_lookup SeqOf _ _ = Some ?e |- _ => cbn [seq_lookup] in Hx;
            eapply (Hcomp e Hx l'); [|eassumption|exact Hcm0] end.
          apply (Hge_cp (s_cp st1)); [intros x Hx; exact Hx|exact Hcond].
      - destruct (nth_error (q_ps q) d) as [e|] eqn:Eq; [|specialize (Hnone eq_refl); discriminate].
        destruct (alts_loop_compx q d stk l p m (s_nodes st1) Hk Hwf Hmo Hef Hnn _ _ _ _ _ _ Hc1 Hnres H2)
          as [Hc' [Sub2 [Inc2 [Stop2 [NoE2 Comp2]]]]].
        split; [exact Hc'|].
        split; [intros x Hx; apply Sub2, Hsub1, Hx|]. split; [exact Inc2|]. split; [exact Stop2|]. split; [exact NoE2|].
        intros l' Hcond ds Hv Hcm Hl.
        destruct ds as [|d0 ds'].
        { exfalso. cbn [seq_lencheck length] in Hl. apply Nat.eqb_eq in Hl.
          assert (d < length (q_ps q))%nat by (apply nth_error_Some; congruence). lia. }
        inversion Hv; subst. cbn [xcompat_seq] in Hcm. destruct Hcm as [Hcm0 Hcm1].
        match goal with Hx : seq_lookup SeqOf _ _ = Some ?e' |- _ => cbn [seq_lookup] in Hx; rewrite Eq in Hx;
          inversion Hx; subst e' end.
        match goal with Hx : xvalid _ _ e p d0, Hy : xvalid_seq _ _ _ _ _ (xdend _ d0) ds' |- _ =>
          assert (Hin : In (xy d0) (n :: ns)) by
            (apply (Hcomp e eq_refl l' (Hge_cp _ l' Sub2 Hcond) d0 Hx Hcm0));
          specialize (Comp2 l' Hcond (xy d0) ds' Hin Hy Hcm1)
        end.
        cbn [length] in Hl. rewrite Nat.add_succ_r in Hl. specialize (Comp2 Hl).
        cbn [rev map] in *. rewrite <- app_assoc in Comp2. cbn [app] in Comp2.
        cbn [st1 s_nodes] in Comp2.
        erewrite handle_result_app_nonempty. exact Comp2.
    Qed.
  End Step.

  Theorem complete_inv_trim : forall f, pcompx (parse inp rules f) /\ scompx (seqp inp rules f).
  Proof.
    induction f as [|f [IHp IHs]].
    - split; intros until c'; intros; discriminate.
    - split.
      + intros e c stk l p. rewrite parse_S. apply parse_step_compx; assumption.
      + intros q d c stk l p m st. rewrite seqp_S. apply seq_step_compx; assumption.
  Qed.

  Lemma xcache_c0 : xcache_c ctx0.
  Proof. intros idx pos r Hf. discriminate Hf. Qed.

  (* every derivation of an End-free root of the fragment that respects the curtailment bound is returned *)
  Theorem complete_top_trim fuel root ns cp err c' :
    wf root -> monot cr root = true -> endfree root = true ->
    run inp rules fuel root = Ok (ns, cp, err, c') ->
    forall d, xv root (i_offset inp) d -> xcompat inp [] (i_offset inp) d -> In (xy d) ns.
  Proof.
    intros Hwf Hm He H d Hv Hcm. destruct (complete_inv_trim fuel) as [Hp _].
    destruct (Hp root ctx0 [] [] (i_offset inp) ns cp err c' Hwf Hm He xcache_c0 H) as [_ [_ [_ B]]].
    apply (B [] (ge_on_refl _ _) d Hv Hcm).
  Qed.

  (* Sentence(root): when root derives the whole input by a derivation within the bound, parsing
     succeeds with exactly one node SEQ[n0; EOF], n0 the first result of root that reaches the end *)
  Theorem sentence_complete_trim fuel root t d :
    wf root -> monot cr root = true -> endfree root = true ->
    parse_top inp rules fuel (sentence root) = Ok t ->
    xv root (i_offset inp) d -> xcompat inp [] (i_offset inp) d ->
    xe d = i_offset inp + i_len inp ->
    exists n0 c, is_eof inp (node_rpos n0) = true /\
      t = TopNode [handle_result (sq root) (i_offset inp) [n0; NEnd (node_rpos n0)]] c.
  Proof.
    intros root_wf root_monot root_ef H Hv Hcm Hend. unfold parse_top in H. apply bind_ok in H.
    destruct H as [[[[nodes cp] err] c] [H1 H2]].
    unfold run in H1. destruct fuel as [|f1]; [discriminate H1|].
    rewrite parse_S in H1. cbn [sentence parse_step] in H1. fold (sq root) in H1.
    apply bind_ok in H1. destruct H1 as [[[stop st] c0] [H3 H4]].
    destruct f1 as [|f2]; [discriminate H3|].
    rewrite seqp_S in H3. unfold seq_step in H3.
    cbn [sq q_kind q_ps seq_lookup nth_error] in H3. fold (sq root) in H3.
    apply bind_ok in H3. destruct H3 as [[[[res cp1] err1] c1] [H5 H6]].
    destruct (complete_inv_trim f2) as [Hp _].
    destruct (Hp root (reg_call ctx0) [] [] (i_offset inp) _ _ _ _ root_wf root_monot root_ef xcache_c0 H5)
      as [_ [_ [_ B]]].
    pose proof (B [] (ge_on_refl _ _) d Hv Hcm) as Hin.
    destruct res as [|n ns]; [destruct Hin|].
    destruct (sent_inv inp rules root f2) as [_ [_ Hs1]].
    apply (alts_loop_sent _ _ _ Hs1) in H6; [|reflexivity].
    destruct H6 as [[n0 [A [E C]]]|[_ Bad]].
    - rewrite C in H4. inversion H4; subst. inversion H2; subst.
      exists n0. eexists. split; [exact E|]. reflexivity.
    - specialize (Bad _ Hin). fold (xe d) in Bad. rewrite Hend in Bad.
      unfold is_eof in Bad. apply N.leb_gt in Bad. lia.
  Qed.
End CT.
(* ------------------------------------------------------------------------------------- *)
(* 3. Pumping on extended derivations                                                      *)
(* ------------------------------------------------------------------------------------- *)
Section XSpine.
  Variable inp : input.
  Notation xe := (xdend inp).

  (* the [XMemo idx] subtrees reached from the root of d without consuming input, each with the
     position it is entered at: [pos], or, behind a LeftTrim, the end of the white-space run *)
  Fixpoint xspine (idx : N) (pos : N) (d : xtree) {struct d} : list (N * xtree) :=
    match d with
    | XRef _ d' | XAlt _ d' | XOptS d' | XName d' | XSuppress d' | XRTrim d' => xspine idx pos d'
    | XLTrim d' => xspine idx (ws_end inp pos) d'
    | XMemo i d' => (if i =? idx then [(pos, XMemo i d')] else []) ++ xspine idx pos d'
    | XSeq _ _ ds =>
      (fix go (pos : N) (ds : list xtree) {struct ds} : list (N * xtree) :=
         match ds with
         | [] => []
         | d' :: ds' => xspine idx pos d' ++ (if pos <? xe d' then [] else go (xe d') ds')
         end) pos ds
    | _ => []
    end.
  Definition xspine_seq (idx : N) :=
    fix go (pos : N) (ds : list xtree) {struct ds} : list (N * xtree) :=
      match ds with
      | [] => []
      | d' :: ds' => xspine idx pos d' ++ (if pos <? xe d' then [] else go (xe d') ds')
      end.
  Lemma xspine_XSeq idx pos q p ds : xspine idx pos (XSeq q p ds) = xspine_seq idx pos ds.
  Proof. reflexivity. Qed.

  (* no unit cycle: no [XMemo i] node has, on its spine AT THE SAME POSITION, another [XMemo i] node
     with the same end; and no XRKeep / Single node anywhere *)
  Fixpoint xnopump (pos : N) (d : xtree) {struct d} : Prop :=
    match d with
    | XTerm _ | XEmpty _ | XEnd _ | XOptN _ => True
    | XRef _ d' | XAlt _ d' | XOptS d' | XName d' | XSuppress d' | XRTrim d' => xnopump pos d'
    | XLTrim d' => xnopump (ws_end inp pos) d'
    | XMemo i d' => (forall q n, In (q, n) (xspine i pos d') -> q = pos -> xe n <> xe d') /\ xnopump pos d'
    | XSeq _ _ ds =>
      (fix go (pos : N) (ds : list xtree) {struct ds} : Prop :=
         match ds with
         | [] => True
         | d' :: ds' => xnopump pos d' /\ go (xe d') ds'
         end) pos ds
    | XRKeep _ | XSingleK _ | XSingleU _ _ => False
    end.
  Definition xnopump_seq :=
    fix go (pos : N) (ds : list xtree) {struct ds} : Prop :=
      match ds with
      | [] => True
      | d' :: ds' => xnopump pos d' /\ go (xe d') ds'
      end.
  Lemma xnopump_XSeq pos q p ds : xnopump pos (XSeq q p ds) = xnopump_seq pos ds.
  Proof. reflexivity. Qed.

  (* derivations the fragment's operands can produce: no XRKeep, no Single *)
  Fixpoint nokeep (d : xtree) : Prop :=
    match d with
    | XTerm _ | XEmpty _ | XEnd _ | XOptN _ => True
    | XRef _ d' | XMemo _ d' | XAlt _ d' | XOptS d' | XName d' | XSuppress d' | XLTrim d' | XRTrim d' => nokeep d'
    | XSeq _ _ ds => (fix all (l : list xtree) : Prop := match l with [] => True | x :: t => nokeep x /\ all t end) ds
    | XRKeep _ | XSingleK _ | XSingleU _ _ => False
    end.
  Definition nokeep_seq := fix all (l : list xtree) : Prop := match l with [] => True | x :: t => nokeep x /\ all t end.
End XSpine.

Section XPump.
  Variable inp : input.
  Variable rules : list pexpr.
  Variable site : N -> option pexpr.
  Variable cr : N -> bool.
  Hypothesis rules_wf : wf_rules rules site.
  Hypothesis rules_monot : forall k body, nth_N rules k = Some body -> monot cr body = true.
  Hypothesis rules_ef : forall k body, nth_N rules k = Some body -> endfree body = true.

  Notation wf := (wf rules site).
  Notation wfs := (wfs rules site).
  Notation xv := (xvalid inp rules).
  Notation xvs := (xvalid_seq inp rules).
  Notation xy := (xyield inp).
  Notation xe := (xdend inp).
  Notation in_file := (in_file inp).
  Notation fend := (i_offset inp + i_len inp).
  Ltac lia := try clear rules_monot; try clear rules_ef; try clear cr; Lia.lia.   (* see Section CT *)

  Lemma xv_ge e pos d : xv e pos d -> in_file pos -> pos <= xe d /\ in_file (xe d).
  Proof.
    intros H Hf. destruct (xvalid_span inp rules e pos d Hf H) as [H1 [H2 [H3 _]]].
    split; [pose proof (ws_run_le _ _ _ H1); lia|exact H3].
  Qed.
  Lemma xvs_ge k ps depth pos ds : xvs k ps depth pos ds -> in_file pos ->
    pos <= xseq_end inp pos ds /\ in_file (xseq_end inp pos ds).
  Proof.
    intros H. induction H as [|k ps depth pos e d ds Hl Hv Hs IH]; intros Hf; cbn [xseq_end].
    - split; [lia|exact Hf].
    - destruct (xv_ge _ _ _ Hv Hf) as [A B]. destruct (IH B) as [A0 B0]. split; [lia|exact B0].
  Qed.
  Lemma not_consumed pos x : pos <= x -> (pos <? x) = false -> x = pos.
  Proof. intros H E. apply N.ltb_ge in E. lia. Qed.

  (* ---------- F2: spine nodes end no later than the tree ---------- *)
  Lemma xspine_le e pos d : xv e pos d -> in_file pos ->
    forall idx q n, In (q, n) (xspine inp idx pos d) -> xe n <= xe d.
  Proof.
    intros H.
    induction H using xvalid_ind2 with
      (P0 := fun k ps depth pos ds => in_file pos ->
               forall idx q n, In (q, n) (xspine_seq inp idx pos ds) -> xe n <= xseq_end inp pos ds);
      intros Hf idx0 q0 n0 Hin; cbn [xspine] in Hin; try (destruct Hin; fail);
      try (apply (IHxvalid Hf idx0 q0 n0 Hin)).
    - (* XVMemo *) apply in_app_or in Hin. destruct Hin as [Hin|Hin]; [|apply (IHxvalid Hf idx0 q0 n0 Hin)].
      destruct (idx =? idx0); [destruct Hin as [Hin|[]]; inversion Hin; subst; unfold xdend; cbn [xyield]; lia|destruct Hin].
    - (* XVSeq *) rewrite xdend_XSeq. apply (IHxvalid Hf idx0 q0 n0). exact Hin.
    - (* XVLTrim *) destruct (ws_end_run inp pos Hf) as [_ Hf']. apply (IHxvalid Hf' idx0 q0 n0 Hin).
    - (* XVRTrim *) specialize (IHxvalid Hf idx0 q0 n0 Hin). destruct (xv_ge _ _ _ H Hf) as [_ Hf'].
      pose proof (rtrim_node_rpos_ge inp (xy d) Hf') as Hge. unfold xdend in *. cbn [xyield]. lia.
    - (* XVScons *) cbn [xspine_seq] in Hin. cbn [xseq_end]. destruct (xv_ge _ _ _ H0 Hf) as [_ Hf'].
      apply in_app_or in Hin. destruct Hin as [Hin|Hin].
      + specialize (IHxvalid Hf idx0 q0 n0 Hin). destruct (xvs_ge _ _ _ _ _ H1 Hf') as [A _]. lia.
      + destruct (pos <? xe d); [destruct Hin|]. apply (IHxvalid0 Hf' idx0 q0 n0 Hin).
  Qed.
  Lemma xspine_seq_le k ps depth pos ds : xvs k ps depth pos ds -> in_file pos ->
    forall idx q n, In (q, n) (xspine_seq inp idx pos ds) -> xe n <= xseq_end inp pos ds.
  Proof.
    intros H. induction H as [|k ps depth pos e d ds Hl Hv Hs IH]; intros Hf idx q n Hin; cbn [xspine_seq] in Hin; [destruct Hin|].
    cbn [xseq_end]. destruct (xv_ge _ _ _ Hv Hf) as [_ Hf']. apply in_app_or in Hin. destruct Hin as [Hin|Hin].
    - pose proof (xspine_le _ _ _ Hv Hf idx q n Hin). destruct (xvs_ge _ _ _ _ _ Hs Hf') as [A _]. lia.
    - destruct (pos <? xe d); [destruct Hin|]. apply (IH Hf' idx q n Hin).
  Qed.

  (* ---------- F1: spine nodes of index idx are derivations of THE Memoize with that index ---------- *)
  Lemma wfs_lookup k ps depth e : wfs ps -> seq_lookup k ps depth = Some e -> wf e.
  Proof. intros H E. eapply wfs_in; [exact H|eapply seq_lookup_in; exact E]. Qed.

  Lemma xspine_valid e pos d : xv e pos d -> wf e -> in_file pos ->
    forall idx q n, In (q, n) (xspine inp idx pos d) -> exists body, site idx = Some body /\ xv (PMemo idx body) q n.
  Proof.
    intros H.
    induction H using xvalid_ind2 with
      (P0 := fun k ps depth pos ds => wfs ps -> in_file pos -> forall idx q n, In (q, n) (xspine_seq inp idx pos ds) ->
               exists body, site idx = Some body /\ xv (PMemo idx body) q n);
      intros Hwf Hf idx0 q0 n0 Hin; cbn [xspine] in Hin; try (destruct Hin; fail).
    - (* XVRef *) apply (IHxvalid (rules_wf _ _ H) Hf idx0 q0 n0 Hin).
    - (* XVMemo *) destruct Hwf as [Hsite Hwe]. apply in_app_or in Hin. destruct Hin as [Hin|Hin]; [|apply (IHxvalid Hwe Hf idx0 q0 n0 Hin)].
      destruct (idx =? idx0) eqn:E; [|destruct Hin]. apply N.eqb_eq in E. subst idx0.
      destruct Hin as [Hin|[]]. inversion Hin; subst. exists e. split; [exact Hsite|]. apply XVMemo. exact H.
    - (* XVAny *) apply (IHxvalid (wfs_nth _ _ _ _ _ Hwf H) Hf idx0 q0 n0 Hin).
    - (* XVChoice *) apply (IHxvalid (wfs_nth _ _ _ _ _ Hwf H) Hf idx0 q0 n0 Hin).
    - (* XVOptS *) apply (IHxvalid Hwf Hf idx0 q0 n0 Hin).
    - (* XVSeq *) apply (IHxvalid Hwf Hf idx0 q0 n0 Hin).
    - (* XVName *) apply (IHxvalid Hwf Hf idx0 q0 n0 Hin).
    - (* XVSuppress *) apply (IHxvalid Hwf Hf idx0 q0 n0 Hin).
    - (* XVLTrim *) destruct (ws_end_run inp pos Hf) as [_ Hf']. apply (IHxvalid Hwf Hf' idx0 q0 n0 Hin).
    - (* XVRTrim *) apply (IHxvalid Hwf Hf idx0 q0 n0 Hin).
    - (* XVScons *) cbn [xspine_seq] in Hin. destruct (xv_ge _ _ _ H0 Hf) as [Hge Hf'].
      apply in_app_or in Hin. destruct Hin as [Hin|Hin].
      + apply (IHxvalid (wfs_lookup _ _ _ _ Hwf H) Hf idx0 q0 n0 Hin).
      + destruct (pos <? xe d) eqn:E; [destruct Hin|]. apply (IHxvalid0 Hwf Hf' idx0 q0 n0 Hin).
  Qed.

  (* ---------- F3: spine nodes of an unpumpable tree are unpumpable (at their own position) ---------- *)
  Lemma xspine_nopump e pos d : xv e pos d -> in_file pos -> xnopump inp pos d ->
    forall idx q n, In (q, n) (xspine inp idx pos d) -> xnopump inp q n.
  Proof.
    intros H.
    induction H using xvalid_ind2 with
      (P0 := fun k ps depth pos ds => in_file pos -> xnopump_seq inp pos ds ->
               forall idx q n, In (q, n) (xspine_seq inp idx pos ds) -> xnopump inp q n);
      intros Hf Hnp idx0 q0 n0 Hin; cbn [xspine] in Hin; try (destruct Hin; fail);
      try (apply (IHxvalid Hf Hnp idx0 q0 n0 Hin)).
    - (* XVMemo *) apply in_app_or in Hin. destruct Hin as [Hin|Hin].
      + destruct (idx =? idx0); [|destruct Hin]. destruct Hin as [Hin|[]]. inversion Hin; subst. exact Hnp.
      + cbn [xnopump] in Hnp. apply (IHxvalid Hf (proj2 Hnp) idx0 q0 n0 Hin).
    - (* XVLTrim *) destruct (ws_end_run inp pos Hf) as [_ Hf']. cbn [xnopump] in Hnp.
      apply (IHxvalid Hf' Hnp idx0 q0 n0 Hin).
    - (* XVScons *) cbn [xspine_seq] in Hin. cbn [xnopump_seq] in Hnp. destruct Hnp as [Hn1 Hn2].
      destruct (xv_ge _ _ _ H0 Hf) as [Hge Hf'].
      apply in_app_or in Hin. destruct Hin as [Hin|Hin].
      + apply (IHxvalid Hf Hn1 idx0 q0 n0 Hin).
      + destruct (pos <? xe d) eqn:E; [destruct Hin|]. apply (IHxvalid0 Hf' Hn2 idx0 q0 n0 Hin).
  Qed.

  (* ---------- derivations of End-free expressions of the fragment never yield an EOF node ---------- *)
  Lemma xvalid_noeof e pos d : xv e pos d -> monot cr e = true -> endfree e = true -> is_eof_node (xy d) = false.
  Proof.
    intros H.
    induction H using xvalid_ind2 with
      (P0 := fun k ps depth pos ds => forallb (monot cr) ps = true -> forallb endfree ps = true ->
               forall n, In n (map xy ds) -> is_eof_node n = false);
      intros Hm He; cbn [monot endfree] in Hm, He; try discriminate Hm; try discriminate He; cbn [xyield].
    - (* Term *) eapply term_parse_noeof; [exact He|exact H].
    - reflexivity.
    - (* Ref *) apply IHxvalid; [apply (rules_monot _ _ H)|apply (rules_ef _ _ H)].
    - (* Memo *) apply IHxvalid; assumption.
    - (* Any *) apply IHxvalid; [apply (forallb_nth _ _ _ _ Hm H)|apply (forallb_nth _ _ _ _ He H)].
    - (* OptS *) apply IHxvalid; assumption.
    - reflexivity.
    - (* Seq *) destruct k; try discriminate Hm. apply is_eof_handle; [reflexivity|].
      intros n Hn. apply (IHxvalid Hm He n Hn).
    - (* Name *) apply andb_true_iff in Hm. apply IHxvalid; tauto.
    - (* Suppress *) apply IHxvalid; assumption.
    - (* LTrim *) destruct m; try discriminate Hm. apply IHxvalid; assumption.
    - (* RTrim *) destruct m; try discriminate Hm. apply andb_true_iff in Hm. rewrite rtrim_node_eof. apply IHxvalid; tauto.
    - (* RKeep *) destruct m; try discriminate Hm. apply andb_true_iff in Hm. apply IHxvalid; tauto.
    - (* nil *) intros n [].
    - (* cons *) intros n [Hn|Hn].
      + subst n. apply seq_lookup_in in H.
        apply IHxvalid; [apply (forallb_in _ _ _ Hm H)|apply (forallb_in _ _ _ He H)].
      + apply (IHxvalid0 Hm He n Hn).
  Qed.

  (* ---------- unpumpable derivations are within the curtailment bound ---------- *)
  Lemma remaining_eq pos : in_file pos -> remaining inp pos = fend - pos.
  Proof. intros [A B]. unfold remaining. lia. Qed.

  (* B idx bounds the ends of the [XMemo idx] nodes still to come on the spine: strictly for the nodes
     at the current position, weakly for those behind a LeftTrim that moves (their ends may tie with a
     node in front of the run, which cannot be cut: it starts elsewhere).  [s] is the unit of slack
     already spent on such a tie: once spent, the position is the end of a white-space run, and
     skipping white space again does not move. *)
  Lemma xnopump_compat_gen e pos d : xv e pos d -> in_file pos ->
    forall lrc (B : N -> N) (s : N), xnopump inp pos d ->
      (s = 0 \/ (s = 1 /\ ws_end inp pos = pos)) ->
      (forall idx, B idx + map_get idx lrc <= fend + 1 + s) ->
      (forall idx q n, In (q, n) (xspine inp idx pos d) -> (q = pos -> xe n < B idx) /\ xe n <= B idx) ->
      xcompat inp lrc pos d.
  Proof.
    intros H.
    induction H using xvalid_ind2 with
      (P0 := fun k ps depth pos ds => in_file pos ->
         forall lrc (B : N -> N) (s : N), xnopump_seq inp pos ds ->
           (s = 0 \/ (s = 1 /\ ws_end inp pos = pos)) ->
           (forall idx, B idx + map_get idx lrc <= fend + 1 + s) ->
           (forall idx q n, In (q, n) (xspine_seq inp idx pos ds) -> (q = pos -> xe n < B idx) /\ xe n <= B idx) ->
           xcompat_seq inp lrc pos ds);
      intros Hf lrc B s Hnp Hs Hb Hsp; cbn [xcompat]; try exact I; try (destruct Hnp; fail);
      try (apply (IHxvalid Hf lrc B s Hnp Hs Hb Hsp)).
    - (* XVMemo *)
      cbn [xnopump] in Hnp. destruct Hnp as [Hnp1 Hnp2].
      assert (Hself : xe d < B idx).
      { apply (Hsp idx pos (XMemo idx d)); [|reflexivity]. cbn [xspine]. rewrite N.eqb_refl. left; reflexivity. }
      destruct (xv_ge _ _ _ H Hf) as [Hge [_ Hhi]]. pose proof (Hb idx) as Hbi.
      split; [rewrite (remaining_eq _ Hf); destruct Hf; destruct Hs as [->|[-> _]]; lia|].
      apply (IHxvalid Hf (map_inc idx lrc) (fun i => if i =? idx then xe d else B i) s Hnp2 Hs).
      + intros i. rewrite map_get_inc. destruct (i =? idx) eqn:E; [lia|apply Hb].
      + intros i q n Hin. destruct (i =? idx) eqn:E.
        * apply N.eqb_eq in E. subst i. pose proof (xspine_le _ _ _ H Hf idx q n Hin) as Hle.
          split; [|exact Hle]. intros Eq. pose proof (Hnp1 q n Hin Eq). lia.
        * apply (Hsp i q n). cbn [xspine]. apply in_or_app. right; exact Hin.
    - (* XVLTrim *)
      cbn [xnopump] in Hnp. cbn [xspine] in Hsp. destruct (ws_end_run inp pos Hf) as [_ Hf'].
      destruct (N.eq_dec (ws_end inp pos) pos) as [E|E].
      + apply (IHxvalid Hf' lrc B s Hnp).
        * destruct Hs as [Hs|[Hs _]]; [left; exact Hs|right; split; [exact Hs|apply ws_end_idem; exact Hf]].
        * exact Hb.
        * intros i q n Hin. destruct (Hsp i q n Hin) as [X Y]. split; [intros Eq; apply X; rewrite <- E; exact Eq|exact Y].
      + assert (Es : s = 0) by (destruct Hs as [Hs|[_ Hs]]; [exact Hs|contradiction]). subst s.
        apply (IHxvalid Hf' lrc (fun i => B i + 1) 1 Hnp).
        * right. split; [reflexivity|apply ws_end_idem; exact Hf].
        * intros i. pose proof (Hb i). lia.
        * intros i q n Hin. destruct (Hsp i q n Hin) as [_ Hle]. split; [intros _; lia|lia].
    - (* XVScons *)
      cbn [xcompat_seq]. cbn [xnopump_seq] in Hnp. destruct Hnp as [Hn1 Hn2].
      split.
      + apply (IHxvalid Hf lrc B s Hn1 Hs Hb). intros i q n Hin. apply (Hsp i q n). cbn [xspine_seq]. apply in_or_app. left; exact Hin.
      + destruct (xv_ge _ _ _ H0 Hf) as [Hge Hf'].
        destruct (pos <? xe d) eqn:E.
        * apply (IHxvalid0 Hf' [] (fun _ => fend + 1) 0 Hn2); [left; reflexivity| |].
          -- intros i. cbn [map_get]. lia.
          -- intros i q n Hin. pose proof (xspine_seq_le _ _ _ _ _ H1 Hf' i q n Hin).
             destruct (xvs_ge _ _ _ _ _ H1 Hf') as [_ [_ Hhi]]. split; [intros _; lia|lia].
        * pose proof (not_consumed _ _ Hge E) as Epos.
          apply (IHxvalid0 Hf' lrc B s Hn2).
          -- rewrite Epos. exact Hs.
          -- exact Hb.
          -- intros i q n Hin. rewrite Epos. apply (Hsp i q n). cbn [xspine_seq]. apply in_or_app. right. rewrite E. exact Hin.
  Qed.

  Theorem xnopump_compat e pos d : xv e pos d -> in_file pos -> xnopump inp pos d -> xcompat inp [] pos d.
  Proof.
    intros Hv Hf Hnp. apply (xnopump_compat_gen _ _ _ Hv Hf [] (fun _ => fend + 1) 0 Hnp); [left; reflexivity| |].
    - intros i. cbn [map_get]. lia.
    - intros i q n Hin. pose proof (xspine_le _ _ _ Hv Hf i q n Hin). destruct (xv_ge _ _ _ Hv Hf) as [_ [_ Hhi]].
      split; [intros _; lia|lia].
  Qed.

  (* ---------- every derivation can be cut down to an unpumpable one with the same end ---------- *)
  Theorem xunpump e pos d : xv e pos d -> wf e -> monot cr e = true -> endfree e = true -> in_file pos -> nokeep d ->
    exists d', xv e pos d' /\ xe d' = xe d /\ xnopump inp pos d'.
  Proof.
    intros H.
    induction H using xvalid_ind2 with
      (P0 := fun k ps depth pos ds => wfs ps -> forallb (monot cr) ps = true -> forallb endfree ps = true ->
         in_file pos -> nokeep_seq ds ->
         exists ds', xvs k ps depth pos ds' /\ length ds' = length ds /\
                     xseq_end inp pos ds' = xseq_end inp pos ds /\ xnopump_seq inp pos ds');
      intros Hwf Hm He Hf Hnk; cbn [monot endfree] in Hm, He; try discriminate Hm; try discriminate He;
        cbn [nokeep] in Hnk; try (destruct Hnk; fail).
    - exists (XTerm n). split; [apply XVTerm; exact H|split; [reflexivity|exact I]].
    - exists (XEmpty pos). split; [apply XVEmpty|split; [reflexivity|exact I]].
    - (* XVRef *) destruct (IHxvalid (rules_wf _ _ H) (rules_monot _ _ H) (rules_ef _ _ H) Hf Hnk) as [d' [A [B C]]].
      exists (XRef k d'). split; [eapply XVRef; eassumption|split; [exact B|exact C]].
    - (* XVMemo *) destruct Hwf as [Hsite Hwe]. destruct (IHxvalid Hwe Hm He Hf Hnk) as [d1 [A [B C]]].
      destruct (find (fun qn => (fst qn =? pos) && (xe (snd qn) =? xe d1)) (xspine inp idx pos d1)) as [[q n]|] eqn:Ef.
      + apply find_some in Ef. destruct Ef as [Hin En]. cbn [fst snd] in En.
        apply andb_true_iff in En. destruct En as [Eq En]. apply N.eqb_eq in Eq, En. subst q.
        destruct (xspine_valid _ _ _ A Hwe Hf idx pos n Hin) as [body [Hs Hv]].
        rewrite Hsite in Hs. inversion Hs; subst body.
        exists n. split; [exact Hv|]. split; [rewrite En; exact B|]. apply (xspine_nopump _ _ _ A Hf C idx pos n Hin).
      + exists (XMemo idx d1). split; [apply XVMemo; exact A|]. split; [exact B|].
        cbn [xnopump]. split; [|exact C]. intros q n Hin Eq Ee.
        pose proof (find_none _ _ Ef (q, n) Hin) as Hn. cbn [fst snd] in Hn.
        rewrite Eq, Ee, !N.eqb_refl in Hn. discriminate Hn.
    - (* XVAny *) destruct (IHxvalid (wfs_nth _ _ _ _ _ Hwf H) (forallb_nth _ _ _ _ Hm H) (forallb_nth _ _ _ _ He H) Hf Hnk) as [d' [A [B C]]].
      exists (XAlt i d'). split; [eapply XVAny; eassumption|split; [exact B|exact C]].
    - (* XVOptS *) destruct (IHxvalid Hwf Hm He Hf Hnk) as [d' [A [B C]]].
      exists (XOptS d'). split; [apply XVOptS; exact A|split; [exact B|exact C]].
    - exists (XOptN pos). split; [apply XVOptN|split; [reflexivity|exact I]].
    - (* XVSeq *) destruct k; try discriminate Hm. destruct (IHxvalid Hwf Hm He Hf Hnk) as [ds' [A [L [B C]]]].
      exists (XSeq {| q_kind := SeqOf; q_ip := ip; q_single := single; q_ps := ps |} pos ds').
      split; [apply XVSeq; [exact A|rewrite L; exact H0]|]. split; [rewrite !xdend_XSeq; exact B|exact C].
    - (* XVName *) apply andb_true_iff in Hm. destruct Hm as [_ Hm].
      destruct (IHxvalid Hwf Hm He Hf Hnk) as [d' [A [B C]]].
      exists (XName d'). split; [apply XVName; exact A|split; [exact B|exact C]].
    - (* XVSuppress *) destruct (IHxvalid Hwf Hm He Hf Hnk) as [d' [A [B C]]].
      exists (XSuppress d'). split; [apply XVSuppress; exact A|split; [exact B|exact C]].
    - (* XVLTrim *) destruct m; try discriminate Hm. destruct (ws_end_run inp pos Hf) as [_ Hf'].
      destruct (IHxvalid Hwf Hm He Hf' Hnk) as [d' [A [B C]]].
      exists (XLTrim d'). split; [apply XVLTrim; exact A|split; [exact B|exact C]].
    - (* XVRTrim *) destruct m; try discriminate Hm. apply andb_true_iff in Hm. destruct Hm as [_ Hm].
      destruct (IHxvalid Hwf Hm He Hf Hnk) as [d' [A [B C]]].
      exists (XRTrim d'). split; [apply XVRTrim; exact A|]. split; [|exact C].
      unfold xdend in *. cbn [xyield].
      rewrite !rtrim_node_rpos by (eapply xvalid_noeof; eassumption). rewrite B. reflexivity.
    - exists []. split; [apply XVSnil|split; [reflexivity|split; [reflexivity|exact I]]].
    - (* XVScons *) destruct Hnk as [Hnk1 Hnk2]. pose proof (seq_lookup_in _ _ _ _ H) as Hin.
      destruct (IHxvalid (wfs_lookup _ _ _ _ Hwf H) (forallb_in _ _ _ Hm Hin) (forallb_in _ _ _ He Hin) Hf Hnk1) as [d' [A [B C]]].
      destruct (xv_ge _ _ _ H0 Hf) as [_ Hf'].
      destruct (IHxvalid0 Hwf Hm He Hf' Hnk2) as [ds' [A0 [L0 [B0 C0]]]].
      exists (d' :: ds'). split; [eapply XVScons; [exact H|exact A|rewrite B; exact A0]|].
      split; [cbn [length]; rewrite L0; reflexivity|]. cbn [xseq_end xnopump_seq]. rewrite B.
      split; [exact B0|split; [exact C|exact C0]].
  Qed.

  (* the pumping lemma: every end reachable by a derivation is reached by one within the bound *)
  Theorem xpump_ends e pos d : xv e pos d -> wf e -> monot cr e = true -> endfree e = true -> in_file pos -> nokeep d ->
    exists d', xv e pos d' /\ xe d' = xe d /\ xcompat inp [] pos d'.
  Proof.
    intros Hv Hwf Hm He Hf Hnk. destruct (xunpump _ _ _ Hv Hwf Hm He Hf Hnk) as [d' [A [B C]]].
    exists d'. split; [exact A|split; [exact B|apply (xnopump_compat _ _ _ A Hf C)]].
  Qed.
End XPump.

(* ------------------------------------------------------------------------------------- *)
(* 4. Completeness of the engine on the trimming fragment, final forms                     *)
(* ------------------------------------------------------------------------------------- *)
Section FinalTrim.
  Variable inp : input.
  Variable rules : list pexpr.
  Variable site : N -> option pexpr.
  Variable cr : N -> bool.
  Hypothesis rules_wf : wf_rules rules site.
  Hypothesis rules_monot : forall k body, nth_N rules k = Some body -> monot cr body = true.
  Hypothesis rules_ef : forall k body, nth_N rules k = Some body -> endfree body = true.
  Hypothesis cr_ok : forall k body, cr k = true -> nth_N rules k = Some body -> clean cr body = true.
  Variable root : pexpr.
  Hypothesis root_wf : wf rules site root.
  Hypothesis root_monot : monot cr root = true.
  Hypothesis root_ef : endfree root = true.

  Lemma in_file_off : in_file inp (i_offset inp).
  Proof. clear. split; lia. Qed.

  (* every end position the grammar can reach from the start (by a derivation the fragment's
     operands can produce: no XRKeep) is the end of a returned tree *)
  Theorem C01_complete_ends_trim fuel ns cp err c :
    run inp rules fuel root = Ok (ns, cp, err, c) ->
    forall d, xvalid inp rules root (i_offset inp) d -> nokeep d ->
      exists n, In n ns /\ node_rpos n = xdend inp d.
  Proof.
    intros Hrun d Hv Hnk.
    destruct (xpump_ends inp rules site cr rules_wf rules_monot rules_ef _ _ _ Hv root_wf root_monot root_ef in_file_off Hnk)
      as [d' [A [B C]]].
    exists (xyield inp d'). split; [|exact B].
    apply (complete_top_trim inp rules site cr rules_wf rules_monot rules_ef cr_ok fuel root ns cp err c
                             root_wf root_monot root_ef Hrun d' A C).
  Qed.

  (* every derivation tree without a unit cycle is returned *)
  Theorem C01_complete_trees_trim fuel ns cp err c :
    run inp rules fuel root = Ok (ns, cp, err, c) ->
    forall d, xvalid inp rules root (i_offset inp) d -> xnopump inp (i_offset inp) d -> In (xyield inp d) ns.
  Proof.
    intros Hrun d Hv Hnp.
    apply (complete_top_trim inp rules site cr rules_wf rules_monot rules_ef cr_ok fuel root ns cp err c
                             root_wf root_monot root_ef Hrun d Hv).
    eapply xnopump_compat; [exact Hv|exact in_file_off|exact Hnp].
  Qed.

  (* Sentence(root): if root derives the whole input, parsing succeeds with exactly one node *)
  Theorem C04_sentence_complete_trim fuel t d :
    parse_top inp rules fuel (sentence root) = Ok t ->
    xvalid inp rules root (i_offset inp) d -> nokeep d -> xdend inp d = i_offset inp + i_len inp ->
    exists n0 c, is_eof inp (node_rpos n0) = true /\
      t = TopNode [handle_result (sq root) (i_offset inp) [n0; NEnd (node_rpos n0)]] c.
  Proof.
    intros Hrun Hv Hnk Hend.
    destruct (xpump_ends inp rules site cr rules_wf rules_monot rules_ef _ _ _ Hv root_wf root_monot root_ef in_file_off Hnk)
      as [d' [A [B C]]].
    apply (sentence_complete_trim inp rules site cr rules_wf rules_monot rules_ef cr_ok fuel root t d'
                                  root_wf root_monot root_ef Hrun A C). rewrite B. exact Hend.
  Qed.
End FinalTrim.

Print Assumptions complete_top_trim.
Print Assumptions sentence_complete_trim.
Print Assumptions xnopump_compat.
Print Assumptions xunpump.
Print Assumptions C01_complete_ends_trim.
Print Assumptions C01_complete_trees_trim.
Print Assumptions C04_sentence_complete_trim.

(* ------------------------------------------------------------------------------------- *)
(* 5. Non-vacuity, and what is false without the side conditions                           *)
(* ------------------------------------------------------------------------------------- *)
Lemma nth_N_one {A} (x b : A) k : nth_N [x] k = Some b -> b = x.
Proof.
  unfold nth_N. destruct (N.to_nat k) as [|n]; cbn [nth_error]; [intros H; inversion H; reflexivity|].
  destruct n; discriminate.
Qed.
Definition all_clean : N -> bool := fun _ => true.

(* (a) token-trimmed left recursion under Sentence(RightTrim(..)):  S -> S tok(+) tok(a) | tok(a)  on " a + a " *)
Definition tk (c : N) : pexpr := PLeftTrim WsSpacesNl (PTerm (TRune c)).
Definition ta_body : pexpr := PAny [PSeq SeqOf INone false None [PRef 0; tk 43; tk 97]; tk 97].
Definition ta_rules : list pexpr := [PMemo 1 ta_body].
Definition ta_site (i : N) : option pexpr := if i =? 1 then Some ta_body else None.
Definition ta_root : pexpr := PRightTrim WsSpacesNl (PRef 0).
Definition ta_inp : input := mk_input [32; 97; 32; 43; 32; 97; 32] 1.
Definition ta_q : seqinfo := {| q_kind := SeqOf; q_ip := INone; q_single := false; q_ps := [PRef 0; tk 43; tk 97] |}.
Definition leaf (c p : N) : xtree := XLTrim (XTerm (NTerm [c] (VRune c) p (p + 1))).
Definition ta_d : xtree :=
  XRTrim (XRef 0 (XMemo 1 (XAlt 0 (XSeq ta_q 1 [XRef 0 (XMemo 1 (XAlt 1 (leaf 97 2))); leaf 43 4; leaf 97 6])))).

Lemma ta_wf : wf_rules ta_rules ta_site.
Proof. intros k body H. apply nth_N_one in H. subst body. cbn. repeat split; reflexivity. Qed.
Lemma ta_monot : forall k body, nth_N ta_rules k = Some body -> monot all_clean body = true.
Proof. intros k body H. apply nth_N_one in H. subst body. reflexivity. Qed.
Lemma ta_ef : forall k body, nth_N ta_rules k = Some body -> endfree body = true.
Proof. intros k body H. apply nth_N_one in H. subst body. reflexivity. Qed.
Lemma ta_clean : forall k body, all_clean k = true -> nth_N ta_rules k = Some body -> clean all_clean body = true.
Proof. intros k body _ H. apply nth_N_one in H. subst body. reflexivity. Qed.

Ltac xvalid_tac :=
  repeat first
    [ apply XVSnil
    | eapply XVScons; [reflexivity| |]
    | eapply XVRef; [reflexivity|]
    | apply XVMemo
    | eapply XVAny; [reflexivity|]
    | apply XVTerm; reflexivity
    | apply XVSeq; [|reflexivity]
    | apply XVOptN
    | apply XVOptS
    | apply XVEmpty
    | apply XVRTrim
    | apply XVLTrim ].

Lemma ta_valid : xvalid ta_inp ta_rules ta_root 1 ta_d.
Proof. unfold ta_d, ta_root, leaf. xvalid_tac. Qed.

Example C04_sentence_complete_trim_example :
  xvalid ta_inp ta_rules ta_root 1 ta_d /\ nokeep ta_d /\ xdend ta_inp ta_d = 8 /\
  exists n0 c, parse_top ta_inp ta_rules 200 (sentence ta_root) =
               Ok (TopNode [handle_result (sq ta_root) 1 [n0; NEnd 8]] c) /\ node_rpos n0 = 8.
Proof.
  split; [exact ta_valid|]. split; [cbn; tauto|]. split; [reflexivity|].
  destruct (parse_top ta_inp ta_rules 200 (sentence ta_root)) as [t| |] eqn:E;
    [|vm_compute in E; discriminate E|vm_compute in E; discriminate E].
  destruct (C04_sentence_complete_trim ta_inp ta_rules ta_site all_clean ta_wf ta_monot ta_ef ta_clean ta_root
              (ltac:(vm_compute; reflexivity)) eq_refl eq_refl 200 t ta_d E ta_valid (ltac:(cbn; tauto)) eq_refl)
    as [n0 [c [He Ht]]].
  subst t. vm_compute in E. inversion E; subst. eexists _, _. split; reflexivity.
Qed.

(* (b) LeftTrim over the recursive reference itself, S -> LeftTrim(S) b? | EMPTY on " b": the chain of
   Memoize activations sits at two positions (1, and 2 behind the white space) and the unit of slack
   is used up: the innermost activation is entered with counter 2 = remaining(2) + 1, the bound. The
   outer tree (position 1, end 3) and the first inner one (position 2, end 3) have the SAME end and
   cannot be cut, because they start at different positions. *)
Definition tb_seq : list pexpr := [PLeftTrim WsSpacesNl (PRef 0); POpt (PTerm (TRune 98))].
Definition tb_body : pexpr := PAny [PSeq SeqOf INone false None tb_seq; PEmpty].
Definition tb_rules : list pexpr := [PMemo 1 tb_body].
Definition tb_site (i : N) : option pexpr := if i =? 1 then Some tb_body else None.
Definition tb_inp : input := mk_input [32; 98] 1.
Definition tb_q : seqinfo := {| q_kind := SeqOf; q_ip := INone; q_single := false; q_ps := tb_seq |}.
Definition tb_in2 : xtree := XRef 0 (XMemo 1 (XAlt 1 (XEmpty 2))).
Definition tb_in1 : xtree :=
  XRef 0 (XMemo 1 (XAlt 0 (XSeq tb_q 2 [XLTrim tb_in2; XOptS (XTerm (NTerm [98] (VRune 98) 2 3))]))).
Definition tb_d : xtree := XRef 0 (XMemo 1 (XAlt 0 (XSeq tb_q 1 [XLTrim tb_in1; XOptN 3]))).

Lemma tb_wf : wf_rules tb_rules tb_site.
Proof. intros k body H. apply nth_N_one in H. subst body. cbn. repeat split; reflexivity. Qed.
Lemma tb_monot : forall k body, nth_N tb_rules k = Some body -> monot all_clean body = true.
Proof. intros k body H. apply nth_N_one in H. subst body. reflexivity. Qed.
Lemma tb_ef : forall k body, nth_N tb_rules k = Some body -> endfree body = true.
Proof. intros k body H. apply nth_N_one in H. subst body. reflexivity. Qed.
Lemma tb_clean : forall k body, all_clean k = true -> nth_N tb_rules k = Some body -> clean all_clean body = true.
Proof. intros k body _ H. apply nth_N_one in H. subst body. reflexivity. Qed.

Example C01_complete_trees_trim_slack :
  xvalid tb_inp tb_rules (PRef 0) 1 tb_d /\ xnopump tb_inp 1 tb_d /\
  xdend tb_inp tb_d = 3 /\ xdend tb_inp tb_in1 = 3 /\
  exists ns cp err c, run tb_inp tb_rules 200 (PRef 0) = Ok (ns, cp, err, c) /\ In (xyield tb_inp tb_d) ns.
Proof.
  assert (Hv : xvalid tb_inp tb_rules (PRef 0) 1 tb_d) by (unfold tb_d, tb_in1, tb_in2; xvalid_tac).
  assert (Hn : xnopump tb_inp 1 tb_d).
  { unfold tb_d, tb_in1, tb_in2. cbn [xnopump]. change (ws_end tb_inp 1) with 2. change (ws_end tb_inp 2) with 2.
    repeat match goal with
           | |- _ /\ _ => split
           | |- True => exact I
           | |- forall q n, In _ _ -> _ =>
             let H := fresh "H" in let E := fresh "E" in
             intros ? ? H E; vm_compute in H;
             repeat (destruct H as [H|H]; [inversion H; subst; try discriminate E; vm_compute; discriminate|]); destruct H
           end. }
  split; [exact Hv|]. split; [exact Hn|]. split; [reflexivity|]. split; [reflexivity|].
  destruct (run tb_inp tb_rules 200 (PRef 0)) as [[[[ns cp] err] c]| |] eqn:E;
    [|vm_compute in E; discriminate E|vm_compute in E; discriminate E].
  exists ns, cp, err, c. split; [reflexivity|].
  apply (C01_complete_trees_trim tb_inp tb_rules tb_site all_clean tb_wf tb_monot tb_ef tb_clean (PRef 0)
           (ltac:(vm_compute; reflexivity)) eq_refl eq_refl 200 ns cp err c E tb_d Hv Hn).
Qed.

(* (c) [clean] cannot be dropped: RightTrim(Optional(a)) on " " returns the EMPTY node UNTRIMMED (Optional
   passes its operand's error on, and RightTrim then keeps the nodes as they are): the trimmed derivation is
   valid and within the bound, and is not returned *)
Definition tc_root : pexpr := PRightTrim WsSpacesNl (POpt (PTerm (TRune 97))).
Definition tc_inp : input := mk_input [32] 1.
Example righttrim_needs_clean :
  xvalid tc_inp [] tc_root 1 (XRTrim (XOptN 1)) /\ xcompat tc_inp [] 1 (XRTrim (XOptN 1)) /\
  xyield tc_inp (XRTrim (XOptN 1)) = NEmpty 2 /\ clean all_clean (POpt (PTerm (TRune 97))) = false /\
  exists cp err c, run tc_inp [] 20 tc_root = Ok ([NEmpty 1], cp, err, c).
Proof.
  split; [apply XVRTrim; apply XVOptN|]. split; [exact I|]. split; [reflexivity|]. split; [reflexivity|].
  eexists _, _, _. vm_compute. reflexivity.
Qed.

(* (d) [nokeep] cannot be dropped from C01_complete_ends_trim: Sound.xvalid also has the derivation of
   RightTrim that keeps the operand's node untrimmed (XRKeep; sound, because RightTrim does that when
   it gets an error along with the nodes); over a clean operand it is never produced: RightTrim(a) on
   "a " returns only the node ending at 3, no node ends at 2 *)
Definition td_root : pexpr := PRightTrim WsSpacesNl (PTerm (TRune 97)).
Definition td_inp : input := mk_input [97; 32] 1.
Example ends_needs_nokeep :
  xvalid td_inp [] td_root 1 (XRKeep (XTerm (NTerm [97] (VRune 97) 1 2))) /\
  xdend td_inp (XRKeep (XTerm (NTerm [97] (VRune 97) 1 2))) = 2 /\
  exists cp err c, run td_inp [] 20 td_root = Ok ([NTerm [97] (VRune 97) 1 3], cp, err, c).
Proof.
  split; [apply XVRKeep; apply XVTerm; reflexivity|]. split; [reflexivity|].
  eexists _, _, _. vm_compute. reflexivity.
Qed.

(* (e) why RightTrim is restricted to WsSpacesNl: in the other modes the white-space error of the LAST result
   decides for ALL results (text/trim.go: the closure variable wsErr is overwritten per node).
   RightTrim(Any(a, SEQ[a b]), WsNone) on "ab ": the result a@1..2 has no white space behind it, but the
   last result ab is followed by a space, and NOTHING is returned; with the alternatives swapped the last
   result is a, no error, and ab is returned, moved over the forbidden space.  Not monotone: no
   derivation-by-derivation completeness statement can hold. *)
Definition te_ab : pexpr := PSeq SeqOf INone false None [PTerm (TRune 97); PTerm (TRune 98)].
Definition te_inp : input := mk_input [97; 98; 32] 1.
Example righttrim_other_modes_last_result_decides :
  (exists cp c, run te_inp [] 30 (PRightTrim WsNone (PAny [PTerm (TRune 97); te_ab])) =
                Ok ([], cp, Some {| epos := 3; ecause := CWs WsErrNone |}, c)) /\
  (exists cp c, run te_inp [] 30 (PRightTrim WsNone (PAny [te_ab; PTerm (TRune 97)])) =
                Ok ([NNonTerm [83; 69; 81] INone [NTerm [97] (VRune 97) 1 2; NTerm [98] (VRune 98) 2 3] 1 4;
                     NTerm [97] (VRune 97) 1 2], cp, None, c)).
Proof. split; eexists _, _; vm_compute; reflexivity. Qed.

Print Assumptions C04_sentence_complete_trim_example.
Print Assumptions C01_complete_trees_trim_slack.
