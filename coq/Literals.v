(* Literals.v — model of the built-in literal parsers of /repo/text/terminal (C08):
   Integer, Float, String, Char, Bool, Nil, Word, Op, Rune, Regexp, TimeDuration, each
   followed line by line through the text.Reader primitives of Reader.v; the decoders that
   replace strconv.ParseInt / strconv.UnquoteChar / string(rune); the current unquoteString
   of string.go; the SPECIFICATION (direct recognisers of each documented syntax + decoder of
   exactly those bytes); and the C08 harness.  NO PROOFS here (LiteralProofs.v).

   Go source followed (working tree of /repo, i.e. with the three "fix:" commits applied):
     integer.go:73-91  float.go:73-87  string.go:74-159  char.go:73-102  bool.go (Bool)
     nil.go (Nil)  word.go (Word)  op.go (Op)  rune.go (Rune)  regexp.go (Regexp)
     time_duration.go (TimeDuration);  $GOROOT/src/strconv/quote.go UnquoteChar,
     strconv/atoi.go ParseInt/ParseUint.
   strconv.ParseFloat and time.ParseDuration are NOT modelled: their value conversion is a
   parameter ([conv_float], [conv_dur]); the lexeme handed to them is modelled. *)
From Coq Require Import String Ascii List NArith ZArith Bool.
From Parsley Require Import Obs Base FileSet Utf8 Reader Regex.
Import ListNotations.
Open Scope N_scope.

Definition str_bytes (s : string) : list N :=
  map (fun a => N.of_nat (nat_of_ascii a)) (list_ascii_of_string s).
Definition drop (n : N) (s : list N) : list N := skipn (N.to_nat n) s.
Definition take (n : N) (s : list N) : list N := firstn (N.to_nat n) s.

(* ================================================================== *)
(* 1. Decoders                                                         *)

(* ---- strconv.ParseInt(s, 0, 64)   atoi.go ----
   ParseUint's digit loop on unbounded N (Go stops with a range error at the first overflow
   of uint64; the final range test below rejects the same strings).  Underscores (legal for
   base 0 between digits) are treated as a syntax error: they cannot occur in a lexeme of the
   Integer expression. *)
Definition lower (c : N) : N := if (65 <=? c) && (c <=? 90) then c + 32 else c.
Definition digit_of (c : N) : option N :=
  if (48 <=? c) && (c <=? 57) then Some (c - 48)
  else if (97 <=? lower c) && (lower c <=? 122) then Some (lower c - 97 + 10)
  else None.
Fixpoint digits_val (base : N) (l : list N) (acc : N) : option N :=
  match l with
  | [] => Some acc
  | c :: t => match digit_of c with
              | Some d => if d <? base then digits_val base t (acc * base + d) else None
              | None => None
              end
  end.
(* ParseUint(s, 0, 64) without the uint64 bound *)
Definition parse_uint_base0 (s : list N) : option N :=
  match s with
  | [] => None                                                   (* syntax error *)
  | c0 :: t =>
    if c0 =? 48 then
      match t with
      | c1 :: ((_ :: _) as rest) =>                              (* len(s) >= 3 *)
        if lower c1 =? 98 then digits_val 2 rest 0               (* 0b *)
        else if lower c1 =? 111 then digits_val 8 rest 0         (* 0o *)
        else if lower c1 =? 120 then digits_val 16 rest 0        (* 0x *)
        else digits_val 8 t 0
      | _ => digits_val 8 t 0
      end
    else digits_val 10 s 0
  end.
Definition two63 : N := 9223372036854775808.
Definition parse_int_base0 (s : list N) : option Z :=
  match s with
  | [] => None
  | c :: t =>
    let neg := c =? 45 in
    let body := if (c =? 43) || (c =? 45) then t else s in
    match parse_uint_base0 body with
    | None => None
    | Some un =>
      if negb neg && (two63 <=? un) then None                    (* range error *)
      else if neg && (two63 <? un) then None                     (* range error *)
      else Some (if neg then (- Z.of_N un)%Z else Z.of_N un)
    end
  end.

(* ---- strconv.UnquoteChar(s, quote)   quote.go ----
   Some (value, n): the rune and the number of bytes consumed (tail = s[n:]); None = error. *)
Definition unhex (b : N) : option N :=
  if (48 <=? b) && (b <=? 57) then Some (b - 48)
  else if (97 <=? b) && (b <=? 102) then Some (b - 97 + 10)
  else if (65 <=? b) && (b <=? 70) then Some (b - 65 + 10)
  else None.
(* the loop [for j := 0; j < n; j++ { v = v<<4 | unhex(s[j]) }] preceded by [len(s) < n] *)
Fixpoint hex_digits (n : nat) (s : list N) (v : N) : option N :=
  match n with
  | O => Some v
  | S n' => match s with
            | [] => None
            | b :: t => match unhex b with Some x => hex_digits n' t (v * 16 + x) | None => None end
            end
  end.
Definition is_octal_digit (b : N) : bool := (48 <=? b) && (b <=? 55).
Definition simple_escape (e : N) : option N :=
  if e =? 97 then Some 7            (* \a *)
  else if e =? 98 then Some 8       (* \b *)
  else if e =? 102 then Some 12     (* \f *)
  else if e =? 110 then Some 10     (* \n *)
  else if e =? 114 then Some 13     (* \r *)
  else if e =? 116 then Some 9      (* \t *)
  else if e =? 118 then Some 11     (* \v *)
  else None.
Definition unquote_char (s : list N) (quote : N) : option (N * N) :=
  match s with
  | [] => None
  | c :: t =>
    if (c =? quote) && ((quote =? 39) || (quote =? 34)) then None
    else if rune_self <=? c then Some (decode_rune s)
    else if negb (c =? 92) then Some (c, 1)
    else
      match t with
      | [] => None                                               (* len(s) <= 1 *)
      | e :: u =>
        match simple_escape e with
        | Some v => Some (v, 2)
        | None =>
          if (e =? 120) || (e =? 117) || (e =? 85) then          (* x u U *)
            let n := if e =? 120 then 2%nat else if e =? 117 then 4%nat else 8%nat in
            match hex_digits n u 0 with
            | None => None
            | Some v =>
              if e =? 120 then Some (v, 2 + N.of_nat n)          (* a single byte, not checked *)
              else if valid_rune v then Some (v, 2 + N.of_nat n) else None
            end
          else if is_octal_digit e then
            match u with
            | d1 :: d2 :: _ =>
              if is_octal_digit d1 && is_octal_digit d2 then
                let v := ((e - 48) * 8 + (d1 - 48)) * 8 + (d2 - 48) in
                if 255 <? v then None else Some (v, 4)
              else None
            | _ => None                                          (* len(s) < 2 *)
            end
          else if e =? 92 then Some (92, 2)
          else if (e =? 39) || (e =? 34) then (if e =? quote then Some (e, 2) else None)
          else None
        end
      end
  end.

(* ---- unquoteString   string.go:113-159 (current tree) ----
   result (value, nextPos); value None = Go's nil slice. *)
(* the first loop: inl = returned from inside the loop, inr i = broke out at index i *)
Fixpoint uq_fast (b : list N) (i : N) (rest : list N) : (option (list N) * N) + N :=
  match rest with
  | [] => inl (Some b, len_N b)                                  (* i >= len(b): return b, len(b) *)
  | c :: t =>
    if (c =? 13) || (c =? 10) then
      (if i =? 0 then inl (None, 0) else inl (Some (take i b), i))
    else if c =? 34 then inl (Some (take i b), i)                (* b[0:i] is not nil, even for i = 0 *)
    else if (c =? 92) || (rune_self <=? c) then inr i
    else uq_fast b (i + 1) t
  end.
(* the second loop; returns (res, str) at the break.  Every iteration consumes at least one
   byte, so fuel = 1 + len(str) is never exhausted (LiteralProofs.uq_slow_fuel). *)
Fixpoint uq_slow (fuel : nat) (str res : list N) : list N * list N :=
  match fuel with
  | O => (res, str)
  | S f =>
    match str with
    | [] => (res, str)
    | c :: _ =>
      if (c =? 13) || (c =? 10) then (res, str)
      else match unquote_char str 34 with
           | None => (res, str)
           | Some (ch, n) =>
             let piece := if (ch =? rune_error) && (n =? 1) then [c] else encode_rune ch in
             uq_slow f (drop n str) (res ++ piece)
           end
    end
  end.
Definition unquote_string (b : list N) : option (list N) * N :=
  match uq_fast b 0 b with
  | inl r => r
  | inr i =>
    let '(res, str) := uq_slow (S (length b)) (drop i b) (take i b) in
    if len_N str =? len_N b then (None, 0) else (Some res, len_N b - len_N str)
  end.

(* ================================================================== *)
(* 2. Results                                                          *)

Inductive lit_value :=
| VInt (z : Z)            (* int64 *)
| VFloat (bits : N)       (* math.Float64bits of the float64 *)
| VStr (s : list N)       (* string *)
| VChar (c : N)           (* rune *)
| VBool (b : bool)
| VNil
| VDur (ns : Z).          (* time.Duration, nanoseconds *)
Record lit_node := { ln_token : list N; ln_pos : N; ln_rpos : N; ln_value : lit_value }.
Inductive err_kind :=
| ENotFound (name : list N)     (* parsley.NotFoundError(name): "was expecting <name>" *)
| EOther (msg : list N).        (* any other cause (fmt.Errorf / time's error) *)
Record lit_err := { le_pos : N; le_kind : err_kind }.
Definition lit_result : Type := option lit_node * option lit_err.

Definition ret_node (tok : list N) (pos rpos : N) (v : lit_value) : outcome lit_result :=
  Ok (Some {| ln_token := tok; ln_pos := pos; ln_rpos := rpos; ln_value := v |}, None).
Definition ret_err (pos : N) (k : err_kind) : outcome lit_result :=
  Ok (None, Some {| le_pos := pos; le_kind := k |}).

(* strconv.Quote for the names of Word/Op/Rune errors: exact for printable ASCII without
   quote and backslash; other bytes are kept raw here (Go would escape them).  Names are not
   part of C08's observation. *)
Definition quoted (s : list N) : list N := 34 :: s ++ [34].
Definition to_upper (s : list N) : list N :=                    (* strings.ToUpper on ASCII *)
  map (fun c => if (97 <=? c) && (c <=? 122) then c - 32 else c) s.
Definition bytes_of_opt (o : option (list N)) : list N := match o with Some l => l | None => [] end.  (* string(value) *)

(* ================================================================== *)
(* 3. The parsers                                                      *)

(* the parsers and their construction parameters *)
Inductive literal :=
| LInteger | LFloat | LString (backquote : bool) | LChar
| LBool (t f : list N) | LNil (s : list N) | LWord (w : list N) | LOp (s : list N)
| LRune (ch : N) | LDuration | LRegexp (re : regex) (group : N).

Section Parsers.
  Variable conv_float : list N -> option N.     (* strconv.ParseFloat(lexeme, 64): Some bits / None = err != nil *)
  Variable conv_dur : list N -> option Z.       (* time.ParseDuration(lexeme): Some ns / None = err != nil *)

  (* integer.go:76-90 *)
  Definition p_integer (r : reader) (pos : N) : outcome lit_result :=
    let nf := ENotFound (str_bytes "integer value") in
    bind (read_regexp (re_find re_integer) r pos) (fun x =>
      match snd x with
      | Some result =>
        bind (read_rune r (fst x) 46) (fun y =>
          if snd y then ret_err pos nf                                         (* followed by '.' *)
          else match parse_int_base0 result with
               | None => ret_err pos (EOther (str_bytes "invalid integer value"))
               | Some v => ret_node (str_bytes "INTEGER") pos (fst x) (VInt v)
               end)
      | None => ret_err pos nf
      end).

  (* float.go:76-86 *)
  Definition p_float (r : reader) (pos : N) : outcome lit_result :=
    bind (read_regexp (re_find re_float) r pos) (fun x =>
      match snd x with
      | Some result =>
        match conv_float result with
        | None => ret_err pos (EOther (str_bytes "invalid float value"))
        | Some v => ret_node (str_bytes "FLOAT") pos (fst x) (VFloat v)
        end
      | None => ret_err pos (ENotFound (str_bytes "float value"))
      end).

  (* time_duration.go:79-91 *)
  Definition p_duration (r : reader) (pos : N) : outcome lit_result :=
    bind (read_regexp (re_find re_duration) r pos) (fun x =>
      match snd x with
      | Some result =>
        match conv_dur result with
        | None => ret_err pos (EOther (str_bytes "time: invalid duration"))
        | Some v => ret_node (str_bytes "TIME_DURATION") pos (fst x) (VDur v)
        end
      | None => ret_err pos (ENotFound (str_bytes "time duration"))
      end).

  (* string.go:77-110 *)
  Definition p_string (allow_backquote : bool) (r : reader) (pos : N) : outcome lit_result :=
    bind (read_rune r pos 34) (fun x1 =>
    bind (if negb (snd x1) && allow_backquote
          then bind (read_rune r pos 96) (fun x2 => Ok (96, x2))
          else Ok (34, x1)) (fun qx =>
      let quote := fst qx in
      if negb (snd (snd qx)) then ret_err pos (ENotFound (str_bytes "string literal"))
      else
        (* check for empty string *)
        bind (read_rune r (fst (snd qx)) quote) (fun x3 =>
          if snd x3 then ret_node (str_bytes "STRING") pos (fst x3) (VStr [])
          else
            bind (if quote =? 96 then read_regexp (re_find re_backquote) r (fst x3)
                  else readf unquote_string r (fst x3)) (fun x4 =>
              bind (read_rune r (fst x4) quote) (fun x5 =>
                if negb (snd x5) then ret_err (fst x5) (EOther (str_bytes "was expecting '" ++ [quote] ++ [39]))
                else ret_node (str_bytes "STRING") pos (fst x5) (VStr (bytes_of_opt (snd x4)))))))).

  (* char.go:76-101 *)
  Definition p_char (r : reader) (pos : N) : outcome lit_result :=
    bind (read_rune r pos 39) (fun x1 =>
      if negb (snd x1) then ret_err pos (ENotFound (str_bytes "char literal"))
      else
        bind (read_regexp (re_find re_char) r (fst x1)) (fun x2 =>
          match snd x2 with
          | None => ret_err (fst x2) (EOther (str_bytes "was expecting one character"))
          | Some res =>
            bind (read_rune r (fst x2) 39) (fun x3 =>
              if negb (snd x3) then ret_err (fst x3) (EOther (str_bytes "was expecting ""'"""))
              else
                match unquote_char res 39 with
                | Some (value, n) =>
                  if n =? len_N res                                           (* tail == "" *)
                  then ret_node (str_bytes "CHAR") pos (fst x3) (VChar value)
                  else ret_err (fst x3) (EOther (str_bytes "invalid character value"))
                | None => ret_err (fst x3) (EOther (str_bytes "invalid character value"))
                end)
          end)).

  (* bool.go: Bool(schema, trueStr, falseStr) *)
  Definition p_bool (t f : list N) (r : reader) (pos : N) : outcome lit_result :=
    match t, f with
    | [], _ | _, [] => Panic                                                   (* constructor's panic *)
    | _, _ =>
      bind (match_word r pos t) (fun x =>
        if snd x then ret_node (str_bytes "BOOL") pos (fst x) (VBool true)
        else bind (match_word r pos f) (fun y =>
          if snd y then ret_node (str_bytes "BOOL") pos (fst y) (VBool false)
          else ret_err pos (ENotFound (str_bytes "boolean"))))
    end.

  (* nil.go: Nil(schema, nilStr) *)
  Definition p_nil (s : list N) (r : reader) (pos : N) : outcome lit_result :=
    match s with
    | [] => Panic
    | _ => bind (match_word r pos s) (fun x =>
             if snd x then ret_node (str_bytes "NIL") pos (fst x) VNil
             else ret_err pos (ENotFound s))
    end.

  (* word.go: Word(schema, word, value); the node's value is the constructor's argument, the
     model (and the driver) use the word itself *)
  Definition p_word (w : list N) (r : reader) (pos : N) : outcome lit_result :=
    match w with
    | [] => Panic
    | _ => bind (match_word r pos w) (fun x =>
             if snd x then ret_node (to_upper w) pos (fst x) (VStr w)
             else ret_err pos (ENotFound (quoted w)))
    end.

  (* op.go: Op(op) *)
  Definition p_op (s : list N) (r : reader) (pos : N) : outcome lit_result :=
    match s with
    | [] => Panic
    | _ => bind (match_string r pos s) (fun x =>
             if snd x then ret_node s pos (fst x) (VStr s)
             else ret_err pos (ENotFound (quoted s)))
    end.

  (* rune.go: Rune(ch) *)
  Definition p_rune (ch : N) (r : reader) (pos : N) : outcome lit_result :=
    bind (read_rune r pos ch) (fun x =>
      if snd x then ret_node (encode_rune ch) pos (fst x) (VChar ch)
      else ret_err pos (ENotFound (quoted (encode_rune ch)))).

  (* regexp.go: Regexp(schema, token, name, regexp, groupIndex); token "RX", name "rx" *)
  Definition p_regexp (re : regex) (group : N) (r : reader) (pos : N) : outcome lit_result :=
    let nf := ENotFound (str_bytes "rx") in
    if group =? 0 then
      bind (read_regexp (re_find re) r pos) (fun x =>
        match snd x with
        | Some m => ret_node (str_bytes "RX") pos (fst x) (VStr m)
        | None => ret_err pos nf
        end)
    else
      bind (read_regexp_submatch (re_find_submatch re) r pos) (fun x =>
        match snd x with
        | Some matches =>
          match nth_N matches group with
          | None => Panic                                                      (* "Capturing group %d is invalid" *)
          | Some g => ret_node (str_bytes "RX") pos (fst x) (VStr (bytes_of_opt g))
          end
        | None => ret_err pos nf
        end).

  (* the single entry point *)
  Definition lit_parse (l : literal) (r : reader) (pos : N) : outcome lit_result :=
    match l with
    | LInteger => p_integer r pos
    | LFloat => p_float r pos
    | LString bq => p_string bq r pos
    | LChar => p_char r pos
    | LBool t f => p_bool t f r pos
    | LNil s => p_nil s r pos
    | LWord w => p_word w r pos
    | LOp s => p_op s r pos
    | LRune ch => p_rune ch r pos
    | LDuration => p_duration r pos
    | LRegexp re g => p_regexp re g r pos
    end.
End Parsers.

(* ================================================================== *)
(* 4. Specification                                                    *)

(* byte classes *)
Definition is_sign (b : N) : bool := in_ranges rs_sign b.
Definition is_digit (b : N) : bool := in_ranges rs_digit b.
Definition is_nzdigit (b : N) : bool := in_ranges rs_nzdigit b.
Definition is_octal (b : N) : bool := in_ranges rs_octal b.
Definition is_hex (b : N) : bool := in_ranges rs_hex b.
Definition is_xX (b : N) : bool := in_ranges rs_xX b.
Definition is_eE (b : N) : bool := in_ranges rs_eE b.

(* Every recogniser returns the length of the LONGEST prefix of s that belongs to the
   syntax, None if no prefix does.  [span p s] (Reader.v) = length of the maximal run of
   bytes satisfying p. *)
Definition sign_len (s : list N) : N :=
  match s with b :: _ => if is_sign b then 1 else 0 | [] => 0 end.

(* integer:  sign? ( nonzero-digit digit*  |  0 (x|X) hexdigit+  |  0 octaldigit* ) *)
Definition uint_lexeme (s : list N) : option N :=
  match s with
  | [] => None
  | b :: t =>
    if is_nzdigit b then Some (1 + span is_digit t)
    else if b =? 48 then
      match t with
      | x :: u => if is_xX x && negb (span is_hex u =? 0) then Some (2 + span is_hex u)
                  else Some (1 + span is_octal t)
      | [] => Some 1
      end
    else None
  end.
Definition int_lexeme (s : list N) : option N :=
  match uint_lexeme (drop (sign_len s) s) with
  | Some n => Some (sign_len s + n)
  | None => None
  end.

(* float:  sign? digit* '.' digit+ ( (e|E) sign? digit+ )? *)
Definition exp_len (s : list N) : N :=
  match s with
  | e :: t => if is_eE e then
                let d := span is_digit (drop (sign_len t) t) in
                if d =? 0 then 0 else 1 + sign_len t + d
              else 0
  | [] => 0
  end.
Definition ufloat_lexeme (s : list N) : option N :=
  let i := span is_digit s in
  match drop i s with
  | b :: t => if b =? 46 then
                let f := span is_digit t in
                if f =? 0 then None else Some (i + 1 + f + exp_len (drop f t))
              else None
  | [] => None
  end.
Definition float_lexeme (s : list N) : option N :=
  match ufloat_lexeme (drop (sign_len s) s) with
  | Some n => Some (sign_len s + n)
  | None => None
  end.

(* duration:  sign? ( digit+ ('.' digit+)? unit )+   unit = ns us µs(C2 B5 73) μs(CE BC 73) ms s m h *)
Definition unit_len (s : list N) : N :=
  if has_prefix s [110; 115] then 2              (* ns *)
  else if has_prefix s [117; 115] then 2         (* us *)
  else if has_prefix s [194; 181; 115] then 3    (* µs, U+00B5 *)
  else if has_prefix s [206; 188; 115] then 3    (* μs, U+03BC *)
  else if has_prefix s [109; 115] then 2         (* ms *)
  else if has_prefix s [115] then 1              (* s *)
  else if has_prefix s [109] then 1              (* m *)
  else if has_prefix s [104] then 1              (* h *)
  else 0.
Definition frac_len (s : list N) : N :=          (* ('.' digit+)? *)
  match s with
  | b :: t => if (b =? 46) && negb (span is_digit t =? 0) then 1 + span is_digit t else 0
  | [] => 0
  end.
Definition dur_item_len (s : list N) : N :=      (* one  digit+ ('.' digit+)? unit ; 0 = none *)
  let d := span is_digit s in
  if d =? 0 then 0
  else let f := frac_len (drop d s) in
       let u := unit_len (drop (d + f) s) in
       if u =? 0 then 0 else d + f + u.
Fixpoint dur_items_len (fuel : nat) (s : list N) : N :=   (* item* *)
  match fuel with
  | O => 0
  | S k => let n := dur_item_len s in if n =? 0 then 0 else n + dur_items_len k (drop n s)
  end.
Definition dur_lexeme (s : list N) : option N :=
  let sg := sign_len s in
  let n := dur_items_len (length s) (drop sg s) in
  if n =? 0 then None else Some (sg + n).

(* the body of a char literal: one of the escapes \a \b \f \n \r \t \v \' \xHH \uHHHH
   \UHHHHHHHH, or one character that is not the quote: a UTF-8 sequence, or a single byte
   when the bytes are not a well-formed sequence *)
Definition all_hex (n : nat) (s : list N) : bool := (n <=? length s)%nat && forallb is_hex (firstn n s).
Definition char_body_len (s : list N) : option N :=
  match s with
  | [] => None
  | c :: t =>
    if c =? 39 then None
    else
      let one := Some (snd (decode_rune s)) in
      if c =? 92 then
        match t with
        | e :: u =>
          if in_ranges rs_simple_esc e then Some 2
          else if (e =? 120) && all_hex 2 u then Some 4
          else if (e =? 117) && all_hex 4 u then Some 6
          else if (e =? 85) && all_hex 8 u then Some 10
          else one
        | [] => one
        end
      else one
  end.

(* the body of a double-quoted string: items until the end of input, a CR, a LF, the quote
   or an invalid escape; each item is a plain character or an escape of Go's syntax
   (UnquoteChar with the double quote as quote), denoting a code point that is appended in UTF-8; an
   ill-formed byte is kept.  Result: (value, number of bytes of the body). *)
Fixpoint str_items (fuel : nat) (s : list N) : list N * N :=
  match fuel with
  | O => ([], 0)
  | S k =>
    match s with
    | [] => ([], 0)
    | c :: _ =>
      if (c =? 13) || (c =? 10) then ([], 0)
      else match unquote_char s 34 with
           | None => ([], 0)
           | Some (ch, n) =>
             let piece := if (ch =? rune_error) && (n =? 1) then [c] else encode_rune ch in
             let '(v, m) := str_items k (drop n s) in (piece ++ v, n + m)
           end
    end
  end.
Definition str_body (s : list N) : list N * N := str_items (length s) s.

(* word: the bytes of w, not followed by a word character *)
Definition word_at (w s : list N) : bool :=
  has_prefix s w && match skipn (length w) s with [] => true | d :: _ => negb (is_word_char d) end.

(* The answer of the specification at the bytes [s] from the position on:
   a literal of [n] bytes with its value, or an error [at] bytes further on. *)
Inductive spec_res :=
| SNode (n : N) (v : lit_value)
| SErr (at_ : N) (not_found : bool).

Section Spec.
  Variable conv_float : list N -> option N.
  Variable conv_dur : list N -> option Z.

  Definition starts_with_byte (c : N) (s : list N) : bool :=
    match s with b :: _ => b =? c | [] => false end.

  Definition spec_integer (s : list N) : spec_res :=
    match int_lexeme s with
    | None => SErr 0 true
    | Some n =>
      if starts_with_byte 46 (drop n s) then SErr 0 true          (* the prefix of a float *)
      else match parse_int_base0 (take n s) with
           | Some z => SNode n (VInt z)
           | None => SErr 0 false                                  (* outside int64 *)
           end
    end.
  Definition spec_float (s : list N) : spec_res :=
    match float_lexeme s with
    | None => SErr 0 true
    | Some n => match conv_float (take n s) with Some b => SNode n (VFloat b) | None => SErr 0 false end
    end.
  Definition spec_duration (s : list N) : spec_res :=
    match dur_lexeme s with
    | None => SErr 0 true
    | Some n => match conv_dur (take n s) with Some d => SNode n (VDur d) | None => SErr 0 false end
    end.
  (* quote, body, quote *)
  Definition spec_char (s : list N) : spec_res :=
    match s with
    | q :: t =>
      if q =? 39 then
        match char_body_len t with
        | None => SErr 1 false
        | Some m =>
          if starts_with_byte 39 (drop m t) then
            match unquote_char (take m t) 39 with
            | Some (v, n) => if n =? m then SNode (m + 2) (VChar v) else SErr (m + 2) false
            | None => SErr (m + 2) false
            end
          else SErr (1 + m) false
        end
      else SErr 0 true
    | [] => SErr 0 true
    end.
  Definition spec_quoted (q : N) (body : list N -> list N * N) (t : list N) : spec_res :=
    if starts_with_byte q t then SNode 2 (VStr [])
    else let '(v, m) := body t in
         if starts_with_byte q (drop m t) then SNode (m + 2) (VStr v) else SErr (1 + m) false.
  (* a back-quoted string is raw: everything up to the next back quote *)
  Definition bq_body (t : list N) : list N * N :=
    let m := span (fun b => negb (b =? 96)) t in (take m t, m).
  Definition spec_string (bq : bool) (s : list N) : spec_res :=
    match s with
    | q :: t =>
      if q =? 34 then spec_quoted 34 str_body t
      else if bq && (q =? 96) then spec_quoted 96 bq_body t
      else SErr 0 true
    | [] => SErr 0 true
    end.
  Definition spec_bool (t f s : list N) : spec_res :=
    if word_at t s then SNode (len_N t) (VBool true)
    else if word_at f s then SNode (len_N f) (VBool false)
    else SErr 0 true.
  Definition spec_nil (w s : list N) : spec_res :=
    if word_at w s then SNode (len_N w) VNil else SErr 0 true.
  Definition spec_word (w s : list N) : spec_res :=
    if word_at w s then SNode (len_N w) (VStr w) else SErr 0 true.
  Definition spec_op (o s : list N) : spec_res :=
    if has_prefix s o then SNode (len_N o) (VStr o) else SErr 0 true.
  (* a rune: its UTF-8 encoding; U+FFFD itself also stands for any ill-formed byte *)
  Definition spec_rune (ch : N) (s : list N) : spec_res :=
    if ch =? rune_error then
      match s with
      | [] => SErr 0 true
      | _ => if fst (decode_rune s) =? rune_error then SNode (snd (decode_rune s)) (VChar ch) else SErr 0 true
      end
    else if has_prefix s (encode_rune ch) then SNode (len_N (encode_rune ch)) (VChar ch) else SErr 0 true.
  (* a user expression: the leftmost-first match of the expression (group 0) *)
  Definition spec_regexp (re : regex) (group : N) (s : list N) : spec_res :=
    match s with
    | [] => SErr 0 true
    | _ =>
      if group =? 0 then
        match re_find re s with Some n => SNode n (VStr (take n s)) | None => SErr 0 true end
      else
        match re_find_submatch re s with
        | Some (m0 :: gs) => SNode (len_opt m0) (VStr (bytes_of_opt (nth (N.to_nat group - 1) gs None)))
        | _ => SErr 0 true
        end
    end.

  Definition lit_spec (l : literal) (s : list N) : spec_res :=
    match l with
    | LInteger => spec_integer s
    | LFloat => spec_float s
    | LString bq => spec_string bq s
    | LChar => spec_char s
    | LBool t f => spec_bool t f s
    | LNil w => spec_nil w s
    | LWord w => spec_word w s
    | LOp o => spec_op o s
    | LRune ch => spec_rune ch s
    | LDuration => spec_duration s
    | LRegexp re g => spec_regexp re g s
    end.
End Spec.

(* the documented domain of the constructors' parameters (outside it construction or
   matching panics by design) *)
Fixpoint nullable (r : regex) : bool :=
  match r with
  | REps => true
  | RClass _ _ => false
  | RCat a b => nullable a && nullable b
  | RAlt a b => nullable a || nullable b
  | RStar _ | ROpt _ => true
  | RPlus a | RGroup a => nullable a
  | RRep n a => match n with O => true | _ => nullable a end
  end.
Fixpoint star_ok (r : regex) : bool :=          (* no repetition of a possibly empty body *)
  match r with
  | REps | RClass _ _ => true
  | RCat a b | RAlt a b => star_ok a && star_ok b
  | RStar a | RPlus a => negb (nullable a) && star_ok a
  | ROpt a | RRep _ a | RGroup a => star_ok a
  end.
Definition ascii_nonempty (w : list N) : bool := negb (len_N w =? 0) && forallb (fun b => b <? 128) w.
Definition lit_domain (l : literal) : bool :=
  match l with
  | LInteger | LFloat | LString _ | LChar | LDuration => true
  | LBool t f => ascii_nonempty t && ascii_nonempty f
  | LNil w | LWord w => ascii_nonempty w
  | LOp o => negb (len_N o =? 0) && bytes_okb o
  | LRune ch => valid_rune ch
  | LRegexp re g => negb (nullable re) && star_ok re && (g <=? count_groups re)
  end.

(* token of the node each parser builds *)
Definition lit_token (l : literal) : list N :=
  match l with
  | LInteger => str_bytes "INTEGER" | LFloat => str_bytes "FLOAT" | LString _ => str_bytes "STRING"
  | LChar => str_bytes "CHAR" | LBool _ _ => str_bytes "BOOL" | LNil _ => str_bytes "NIL"
  | LWord w => to_upper w | LOp o => o | LRune ch => encode_rune ch
  | LDuration => str_bytes "TIME_DURATION" | LRegexp _ _ => str_bytes "RX"
  end.

(* ================================================================== *)
(* 5. Harness                                                          *)

(* conversion table for ParseFloat / ParseDuration, produced by the driver's c08ref pass with
   Go's own functions: (lexeme, Some (negative, hi, lo)), magnitude = hi * 2^32 + lo
   (float: the Float64bits, never negative); None = the library returned an error; a lexeme
   that is not in the table converts to None *)
Definition conv_table := list (list N * option (bool * N * N)).
Fixpoint conv_lookup (tb : conv_table) (lex : list N) : option (bool * N * N) :=
  match tb with
  | [] => None
  | (k, v) :: t => if list_N_eqb k lex then v else conv_lookup t lex
  end.
Definition conv_float_of (tb : conv_table) (lex : list N) : option N :=
  match conv_lookup tb lex with Some (_, hi, lo) => Some (hi * 4294967296 + lo) | None => None end.
Definition conv_dur_of (tb : conv_table) (lex : list N) : option Z :=
  match conv_lookup tb lex with
  | Some (neg, hi, lo) => let m := Z.of_N (hi * 4294967296 + lo) in Some (if neg then (- m)%Z else m)
  | None => None
  end.

Inductive c08_case := C08 (l : literal) (raw : list N) (off : N) (convs : conv_table).

Definition obs_value (v : lit_value) : obs :=
  match v with
  | VInt z => OZ z
  | VFloat b => ON b
  | VStr s => OS s
  | VChar c => ON c
  | VBool b => OB b
  | VNil => OT "Nil" []
  | VDur d => OZ d
  end.

(* the expression whose match length the driver also reports at every position (Go's regexp
   on the same bytes): validates Regex.v independently of the parsers *)
Definition lit_regex (l : literal) : option regex :=
  match l with
  | LInteger => Some re_integer | LFloat => Some re_float | LChar => Some re_char
  | LDuration => Some re_duration | LString true => Some re_backquote
  | LRegexp re _ => Some re
  | _ => None
  end.
Definition obs_rx (l : literal) (s : list N) : obs :=
  match lit_regex l with
  | None => onone
  | Some re => match s with [] => onone | _ => obs_of_option ON (re_find re s) end
  end.

(* the reference conversion the driver applies to the node's own bytes file[pos..readerPos]:
   ParseInt / ParseFloat / ParseDuration of the lexeme, UnquoteChar of the bytes between the
   quotes, the item-wise UnquoteChar loop for a double-quoted string; None = the library
   returns an error; "NoRef" for parsers without a conversion *)
Definition str_ref (body : list N) : option lit_value :=
  let '(v, m) := str_body body in if m =? len_N body then Some (VStr v) else None.
Definition strip_quotes (lex : list N) : list N := take (len_N lex - 2) (drop 1 lex).
Definition lit_ref (cf : list N -> option N) (cd : list N -> option Z) (l : literal) (lex : list N) : obs :=
  match l with
  | LInteger => obs_of_option (fun z => OZ z) (parse_int_base0 lex)
  | LFloat => obs_of_option ON (cf lex)
  | LDuration => obs_of_option (fun z => OZ z) (cd lex)
  | LChar => obs_of_option ON
               (match unquote_char (strip_quotes lex) 39 with
                | Some (v, n) => if n =? len_N (strip_quotes lex) then Some v else None
                | None => None end)
  | LString _ => match lex with
                 | q :: _ => if q =? 34 then obs_of_option obs_value (str_ref (strip_quotes lex))
                             else osome (OS (strip_quotes lex))
                 | [] => onone
                 end
  | _ => OT "NoRef" []
  end.

Definition obs_result (cf : list N -> option N) (cd : list N -> option Z) (l : literal) (r : reader)
           (o : outcome lit_result) : obs :=
  match o with
  | Panic => opanic
  | OutOfFuel => OT "OutOfFuel" []
  | Ok (Some n, None) =>
    OT "N" [OS (ln_token n); ON (ln_pos n); ON (ln_rpos n); obs_value (ln_value n);
            lit_ref cf cd l (take (ln_rpos n - ln_pos n) (suffix (r_data r) (ln_pos n - r_offset r)))]
  | Ok (None, Some e) =>
    OT "E" [ON (le_pos e); OB (match le_kind e with ENotFound _ => true | EOther _ => false end)]
  | Ok (Some _, Some _) => OT "Both" []
  | Ok (None, None) => OT "Neither" []
  end.

Definition c08_expected (c : c08_case) : obs :=
  match c with
  | C08 l raw off convs =>
    let r := new_reader raw off in
    let cf := conv_float_of convs in
    let cd := conv_dur_of convs in
    OL (map (fun p => OL [obs_rx l (suffix (r_data r) (p - off)); obs_result cf cd l r (lit_parse cf cd l r p)])
            (positions_of r))
  end.

(* The property evaluated on the implementation's observation, using the specification only.
   At every position: no panic; exactly one of node / error; an error lies in [pos, eof]; a
   node has the parser's token, starts at pos, ends after the specification's longest literal
   and carries the specification's value — and the specification has a literal exactly when a
   node is returned.  The reference value printed by the driver (Go's own conversion of the
   node's bytes) must be the node's value. *)
Definition c08_in_domain (c : c08_case) : bool :=
  match c with C08 l raw off _ => lit_domain l && bytes_okb raw && (1 <=? off) end.

Definition oracle_at (cf : list N -> option N) (cd : list N -> option Z) (l : literal)
           (data : list N) (off p : N) (o : obs) : bool :=
  let s := suffix data (p - off) in
  match o with
  | OL [_; OT "N" [OS tok; ON np; ON nr; v; ref]] =>
    match lit_spec cf cd l s with
    | SNode n sv =>
      list_N_eqb tok (lit_token l) && (np =? p) && (nr =? p + n) && (p + n <=? off + len_N data) &&
      obs_eqb v (obs_value sv) &&
      (obs_eqb ref (osome v) || obs_eqb ref (OT "NoRef" []))
    | SErr _ _ => false
    end
  | OL [_; OT "E" [ON ep; OB _]] =>
    match lit_spec cf cd l s with
    | SNode _ _ => false
    | SErr _ _ => (p <=? ep) && (ep <=? off + len_N data)
    end
  | _ => false
  end.

Fixpoint oracle_all (cf : list N -> option N) (cd : list N -> option Z) (l : literal)
         (data : list N) (off : N) (ps : list N) (os : list obs) : bool :=
  match ps, os with
  | [], [] => true
  | p :: ps', o :: os' => oracle_at cf cd l data off p o && oracle_all cf cd l data off ps' os'
  | _, _ => false
  end.

Definition c08_oracle (c : c08_case) (o : obs) : bool :=
  negb (c08_in_domain c) ||
  match c, o with
  | C08 l raw off convs, OL os =>
    let r := new_reader raw off in
    oracle_all (conv_float_of convs) (conv_dur_of convs) l (r_data r) off (positions_of r) os
  | _, _ => false
  end.

Definition c08_harness : harness :=
  {| H_case := c08_case; H_expected := c08_expected; H_agree := obs_eqb; H_oracle := c08_oracle |}.
