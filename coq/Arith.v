(* Arith.v — C05, the ENGINE side: the workload grammar as a [pexpr] value over the engine
   model (Grammar.v / Engine.v), the evaluation of its interpreters on engine nodes
   ([arith_eval]: parsley.EvaluateNode with the binop interpreter bound to IUser 1), the model of
   parsley.Evaluate on it ([arith_run]) and the phase-2 harness: the check compares the engine
   MODEL, the IMPLEMENTATION and the REFERENCE (ArithSpec.v).  No proofs here (ArithProofs.v).

   The Go driver (harness/c05.go) builds the real combinators from the text of this very term
   (constant c05GrammarText there); the corpus case C05Grammar makes both sides compare that text
   with [arith_rules]/[arith_root], so there is one definition of the grammar. *)
From Coq Require Import String List NArith ZArith Bool.
From Parsley Require Import Obs Base FileSet ArithSpec.
From Parsley Require Import Grammar Engine Top EngineHarness.
Import ListNotations.
Open Scope N_scope.

(* ------------------------------------------------------------------ *)
(* The grammar                                                         *)

Definition tokp (p : pexpr) : pexpr := PLeftTrim WsSpacesNl p.              (* tok(p) *)
Definition rune_p (c : N) : pexpr := tokp (PTerm (TRune c)).
Definition int_p : pexpr := tokp (PTerm (TLit LInteger)).
Definition addop_p : pexpr := PAny [rune_p 43; rune_p 45].
Definition mulop_p : pexpr := PAny [rune_p 42; rune_p 47].
Definition paren_p : pexpr := PSeq SeqOf (ISelect 1) false None [rune_p 40; PRef 0; rune_p 41].
Definition factor_p : pexpr := PAny [int_p; paren_p].
Definition term_seq : pexpr := PSeq SeqOf (IUser 1) false None [PRef 1; mulop_p; factor_p].
Definition expr_seq : pexpr := PSeq SeqOf (IUser 1) false None [PRef 0; addop_p; PRef 1].
Definition term_body : pexpr := PAny [term_seq; factor_p].
Definition expr_body : pexpr := PAny [expr_seq; PRef 1].
Definition expr_rule : pexpr := PMemo 1 expr_body.                            (* rule 0 *)
Definition term_rule : pexpr := PMemo 2 term_body.                            (* rule 1 *)
Definition arith_rules : list pexpr := [expr_rule; term_rule].
Definition arith_root : pexpr := PRightTrim WsSpacesNl (PRef 0).              (* under Sentence *)
Definition arith_site (i : N) : option pexpr :=
  if i =? 1 then Some expr_body else if i =? 2 then Some term_body else None.

(* ------------------------------------------------------------------ *)
(* parsley.EvaluateNode on the nodes of this grammar.  As Top.eval_node, with the user
   interpreter 1 = binop of harness/c05.go: children 0, 2, 1 are evaluated in that order (an
   error aborts), the values are asserted to be int64, int64, rune (a failed assertion, fewer
   than three children, an unknown operator: Go panics), division by zero is an error at the
   position of child 1.  Interpreters the grammar does not use fall back to Top.eval_node. *)

Definition div0_err (p : N) : perr := mk_err p (COther div0_msg).

Definition apply_op (c p : N) (a b : Z) : vres :=
  if c =? 43 then Ok (inl (ValLit (VInt (wrap64 (a + b)))))
  else if c =? 45 then Ok (inl (ValLit (VInt (wrap64 (a - b)))))
  else if c =? 42 then Ok (inl (ValLit (VInt (wrap64 (a * b)))))
  else if c =? 47 then
    if (b =? 0)%Z then Ok (inr (div0_err p)) else Ok (inl (ValLit (VInt (wrap64 (Z.quot a b)))))
  else Panic.

Fixpoint arith_eval (n : node) : vres :=
  match n with
  | NTerm _ v _ _ => Ok (inl (ValLit v))
  | NEmpty p => Ok (inr (mk_err p (COther msg_novalue)))
  | NEnd _ => Ok (inl ValNil)
  | NNonTerm _ ip cs _ _ =>
    let fix sel (l : list node) (i : nat) {struct l} : vres :=
        match l, i with
        | [], _ => Panic
        | c :: _, O => arith_eval c
        | _ :: t, S j => sel t j
        end in
    match ip with
    | ISelect i => sel cs (N.to_nat i)
    | IUser _ =>
      match cs with
      | l :: o :: r :: _ =>
        match arith_eval l with
        | Ok (inl vl) =>
          match arith_eval r with
          | Ok (inl vr) =>
            match arith_eval o with
            | Ok (inl vo) =>
              match vl, vr, vo with
              | ValLit (VInt a), ValLit (VInt b), ValLit (VRune c) => apply_op c (node_pos o) a b
              | _, _, _ => Panic                                  (* l.(int64), r.(int64), op.(rune) *)
              end
            | other => other
            end
          | other => other
          end
        | other => other
        end
      | _ => Panic                                                (* nodes[2]: index out of range *)
      end
    | _ => eval_node n
    end
  end.

Definition arith_eval_result (ns : list node) : vres :=
  match ns with
  | [n] => arith_eval n
  | n :: _ => Ok (inr (mk_err (node_pos n) (COther msg_novalue)))
  | [] => Panic
  end.

(* parsley.Evaluate(ctx, Sentence(RightTrim(&expr))) *)
Definition arith_evaluate (inp : input) (fuel : nat) : outcome evaluated :=
  bind (parse_top inp arith_rules fuel (sentence arith_root)) (fun t =>
    match t with
    | TopErr e _ => Ok (EvParseErr e)
    | TopNode ns _ => match arith_eval_result ns with
                      | Ok (inl v) => Ok (EvValue v)
                      | Ok (inr e) => Ok (EvEvalErr e)
                      | Panic => Panic
                      | OutOfFuel => OutOfFuel
                      end
    end).

(* what the driver prints for it *)
Definition o_evaluated (fs : fileset) (o : outcome evaluated) : obs :=
  match o with
  | Ok (EvValue (ValLit (VInt z))) => OT "Val" [OZ z]
  | Ok (EvValue _) => OT "NotInt64" []
  | Ok (EvParseErr e) => obs_outcome (fun t => OT "Err" [OS t]) (top_text fs e)
  | Ok (EvEvalErr e) => obs_outcome (fun t => OT "Err" [OS t]) (error_with_position fs (cause_msg (ecause e)) (epos e))
  | Panic => opanic
  | OutOfFuel => OT "OutOfFuel" []
  end.

Definition ARITH_FUEL : nat := N.to_nat 500000.   (* >= the C02 bound for MODEL_CAP bytes: ArithProofs.arith_fuel_enough *)
Definition arith_run (data : list N) (offset : N) : obs :=
  o_evaluated (new_fileset (eng_files data offset)) (arith_evaluate (eng_input data offset) ARITH_FUEL).

(* ------------------------------------------------------------------ *)
(* The harness of the check (phase 2): engine model, implementation and reference.

   Cases:  C05 data offset        — as in ArithSpec.v
           C05Grammar rules root  — the text of the grammar the driver builds its combinators from;
                                    the driver answers whether it equals its own constant, the model
                                    whether it equals [arith_rules]/[arith_root].
   Expected observation of C05: [what the ENGINE MODEL's Evaluate gives; the reference's answer; flag].
   The engine model costs about cubic time under vm_compute (the cache is an association list), so it
   is evaluated for inputs of at most [MODEL_CAP] bytes; above, the first component is the reference's
   prediction as in phase 1 (flag false: parse-error texts compared by prefix only). *)

Definition term_eqb (a b : terminal) : bool :=
  match a, b with
  | TRune x, TRune y => x =? y
  | TLit LInteger, TLit LInteger => true
  | _, _ => false                                   (* other literals do not occur in this grammar *)
  end.
Definition wsmode_eqb (a b : wsmode) : bool :=
  match a, b with
  | WsNone, WsNone | WsSpaces, WsSpaces | WsSpacesNl, WsSpacesNl | WsSpacesForceNl, WsSpacesForceNl => true
  | _, _ => false
  end.
Definition interp_eqb (a b : interp) : bool :=
  match a, b with
  | INone, INone | IArray, IArray | IObject, IObject | INil, INil => true
  | ISelect x, ISelect y | IUser x, IUser y => x =? y
  | _, _ => false
  end.
Definition seqkind_eqb (a b : seqkind) : bool :=
  match a, b with
  | SeqOf, SeqOf | SeqTry, SeqTry | SeqFirstOrAll, SeqFirstOrAll => true
  | SMany x, SMany y | SSepBy x, SSepBy y => Bool.eqb x y
  | _, _ => false
  end.
Definition name_eqb (a b : option (list N)) : bool :=
  match a, b with
  | None, None => true
  | Some x, Some y => list_N_eqb x y
  | _, _ => false
  end.
Fixpoint pexpr_eqb (a b : pexpr) {struct a} : bool :=
  let fix all2 (l1 l2 : list pexpr) {struct l1} : bool :=
      match l1, l2 with
      | [], [] => true
      | x :: l1', y :: l2' => pexpr_eqb x y && all2 l1' l2'
      | _, _ => false
      end in
  match a, b with
  | PTerm x, PTerm y => term_eqb x y
  | PEmpty, PEmpty | PEnd, PEnd => true
  | PRef x, PRef y => x =? y
  | PMemo i p, PMemo j q => (i =? j) && pexpr_eqb p q
  | PAny l1, PAny l2 | PChoice l1, PChoice l2 => all2 l1 l2
  | POpt p, POpt q | PSuppress p, PSuppress q | PSingle p, PSingle q => pexpr_eqb p q
  | PSeq k1 i1 s1 n1 l1, PSeq k2 i2 s2 n2 l2 =>
    seqkind_eqb k1 k2 && interp_eqb i1 i2 && Bool.eqb s1 s2 && name_eqb n1 n2 && all2 l1 l2
  | PName n p, PName m q => list_N_eqb n m && pexpr_eqb p q
  | PLeftTrim m p, PLeftTrim m' q | PRightTrim m p, PRightTrim m' q => wsmode_eqb m m' && pexpr_eqb p q
  | _, _ => false
  end.
Fixpoint pexprs_eqb (l1 l2 : list pexpr) : bool :=
  match l1, l2 with
  | [], [] => true
  | x :: l1', y :: l2' => pexpr_eqb x y && pexprs_eqb l1' l2'
  | _, _ => false
  end.

Inductive arith_case := C05 (data : list N) (offset : N) | C05Grammar (rules : list pexpr) (root : pexpr).

Definition MODEL_CAP : N := 64.

Definition c05e_expected (c : arith_case) : obs :=
  match c with
  | C05 data offset =>
    let modelled := len_N data <=? MODEL_CAP in
    OT "C05" [if modelled then arith_run data offset else c05_predict (ArithSpec.C05 data offset);
              c05_ref_obs (ArithSpec.C05 data offset); OB modelled]
  | C05Grammar rules root => OT "Grammar" [OB (pexprs_eqb rules arith_rules && pexpr_eqb root arith_root)]
  end.

Definition c05e_agree (e o : obs) : bool :=
  match e, o with
  | OT "C05" [e1; e2; OB modelled], OT "C05" [o1; o2] =>
    (if modelled then obs_eqb e1 o1 else obs_eqb e1 (c05_project o1)) && obs_eqb e2 o2
  | OT "Grammar" _, OT "Grammar" _ => obs_eqb e o
  | _, _ => false
  end.

(* the property itself, on the implementation's observation, by the SPECIFICATION (ArithSpec.v) *)
Definition c05e_oracle (c : arith_case) (o : obs) : bool :=
  match c with
  | C05 data offset => c05_oracle (ArithSpec.C05 data offset) o
  | C05Grammar _ _ => obs_eqb o (OT "Grammar" [OB true])
  end.

Definition c05_engine_harness : harness :=
  {| H_case := arith_case; H_expected := c05e_expected; H_agree := c05e_agree; H_oracle := c05e_oracle |}.
