(* ReaderProofs.v — C09: the model of utf8.DecodeRune (Utf8.v) and of every text.Reader
   primitive (Reader.v) never panics inside the file, equals its byte-level specification,
   moves by exactly the matched length without leaving the file, stays put on a mismatch,
   and commutes with moving the file to another base offset.

   Domain ([in_file]): r_offset r <= pos <= r_offset r + r_len r.  Where the "no new line
   seen" marker 0 matters (SkipWhitespaces) the base offset is >= 1, which is what NewFile
   (1) and FileSet.AddFile (>= 1) assign. *)
From Coq Require Import String List NArith ZArith Bool Lia ZifyN ZifyBool.
From Parsley Require Import Obs Base FileSet Utf8 Reader.
Import ListNotations.
Open Scope N_scope.
(* lia with division/modulo by constants *)
Ltac Zify.zify_post_hook ::= Z.to_euclidean_division_equations.

(* ================================================================== *)
(* utf8.DecodeRune is the inverse of the encoder on exactly the valid runes *)

Ltac step_if :=
  match goal with
  | |- context[if ?c then _ else _] =>
    let E := fresh "E" in destruct c eqn:E; try (exfalso; lia)
  end.

Lemma len_N_cons {A} (x : A) l : len_N (x :: l) = 1 + len_N l.
Proof. unfold len_N. cbn [length]. lia. Qed.
Lemma len_N_nil {A} : len_N (@nil A) = 0.
Proof. reflexivity. Qed.

Lemma valid_rune_iff r : valid_rune r = true <-> (r < 55296 \/ (57343 < r /\ r <= 1114111)).
Proof. unfold valid_rune, surrogate_min, surrogate_max, max_rune. lia. Qed.

(* DecodeRune inverts EncodeRune on every valid rune, whatever follows *)
Lemma decode_encode r rest : valid_rune r = true ->
  decode_rune (encode_rune r ++ rest) = (r, len_N (encode_rune r)).
Proof.
  intros Hv. apply valid_rune_iff in Hv.
  unfold encode_rune.
  destruct (r <? 128) eqn:E1.
  { cbn [app decode_rune]. rewrite E1. reflexivity. }
  destruct (r <? 2048) eqn:E2.
  { cbn [app decode_rune]. unfold utf8_first.
    repeat step_if. f_equal. lia. }
  assert (Hv' : valid_rune r = true) by (apply valid_rune_iff; exact Hv).
  rewrite Hv'. cbn [negb].
  destruct (r <? 65536) eqn:E3.
  { cbn [app decode_rune]. unfold utf8_first, is_cont.
    repeat step_if; f_equal; lia. }
  cbn [app decode_rune]. unfold utf8_first, is_cont.
  repeat step_if; f_equal; lia.
Qed.

Lemma decode_sound s r w : s <> [] -> decode_rune s = (r, w) ->
  (r = rune_error /\ w = 1) \/
  (valid_rune r = true /\ w = len_N (encode_rune r) /\ exists rest, s = encode_rune r ++ rest).
Proof.
  destruct s as [|p0 t]; [congruence|]. intros _.
  unfold decode_rune.
  destruct (p0 <? 128) eqn:E0.
  { intros H; injection H as <- <-. right. split; [apply valid_rune_iff; lia|].
    unfold encode_rune. rewrite E0. split; [reflexivity|]. exists t. reflexivity. }
  destruct (utf8_first p0) as [[[sz lo] hi]|] eqn:F.
  2:{ intros H; injection H as <- <-. left. split; reflexivity. }
  assert (HF : (sz = 2 /\ 194 <= p0 < 224 /\ lo = 128 /\ hi = 191) \/
               (sz = 3 /\ 224 <= p0 < 240 /\ lo = (if p0 =? 224 then 160 else 128) /\ hi = (if p0 =? 237 then 159 else 191)) \/
               (sz = 4 /\ 240 <= p0 < 245 /\ lo = (if p0 =? 240 then 144 else 128) /\ hi = (if p0 =? 244 then 143 else 191))).
  { revert F. unfold utf8_first.
    repeat match goal with |- context[if ?c then _ else _] => let E := fresh "E" in destruct c eqn:E end;
      intros F; try discriminate F; injection F as <- <- <-; lia. }
  clear F.
  destruct t as [|b1 t1]; [intros H; injection H as <- <-; left; split; reflexivity|].
  destruct ((b1 <? lo) || (hi <? b1)) eqn:R1; [intros H; injection H as <- <-; left; split; reflexivity|].
  destruct (sz <=? 2) eqn:S2.
  { intros H; injection H as <- <-. right.
    assert (Hs : sz = 2) by lia. destruct HF as [HF|[HF|HF]]; try lia.
    destruct HF as (_ & Hp & -> & ->).
    split; [apply valid_rune_iff; lia|].
    unfold encode_rune. repeat step_if.
    split; [reflexivity|]. exists t1. cbn [app]. f_equal; [lia|f_equal; lia]. }
  destruct t1 as [|b2 t2]; [intros H; injection H as <- <-; left; split; reflexivity|].
  unfold is_cont.
  destruct (negb ((128 <=? b2) && (b2 <=? 191))) eqn:R2; [intros H; injection H as <- <-; left; split; reflexivity|].
  destruct (sz <=? 3) eqn:S3.
  { intros H; injection H as <- <-. right.
    assert (Hs : sz = 3) by lia. destruct HF as [HF|[HF|HF]]; try lia.
    destruct HF as (_ & Hp & Hlo & Hhi).
    assert (Hlo' : 128 <= lo) by (destruct (p0 =? 224); lia).
    assert (Hhi' : hi <= 191) by (destruct (p0 =? 237); lia).
    assert (Hlo2 : p0 = 224 -> 160 <= b1) by (intros ->; cbn in Hlo; lia).
    assert (Hhi2 : p0 = 237 -> b1 <= 159) by (intros ->; cbn in Hhi; lia).
    clear Hlo Hhi.
    assert (Hv : valid_rune (p0 mod 16 * 4096 + b1 mod 64 * 64 + b2 mod 64) = true) by (apply valid_rune_iff; lia).
    split; [exact Hv|].
    unfold encode_rune. rewrite Hv. cbn [negb]. repeat step_if.
    split; [reflexivity|]. exists t2. cbn [app]. f_equal; [lia|f_equal; [lia|f_equal; lia]]. }
  destruct t2 as [|b3 t3]; [intros H; injection H as <- <-; left; split; reflexivity|].
  destruct (negb ((128 <=? b3) && (b3 <=? 191))) eqn:R3; [intros H; injection H as <- <-; left; split; reflexivity|].
  intros H; injection H as <- <-. right.
  destruct HF as [HF|[HF|HF]]; try lia.
  destruct HF as (_ & Hp & Hlo & Hhi).
  assert (Hlo' : 128 <= lo) by (destruct (p0 =? 240); lia).
  assert (Hhi' : hi <= 191) by (destruct (p0 =? 244); lia).
  assert (Hlo2 : p0 = 240 -> 144 <= b1) by (intros ->; cbn in Hlo; lia).
  assert (Hhi2 : p0 = 244 -> b1 <= 143) by (intros ->; cbn in Hhi; lia).
  clear Hlo Hhi.
  assert (Hv : valid_rune (p0 mod 8 * 262144 + b1 mod 64 * 4096 + b2 mod 64 * 64 + b3 mod 64) = true)
    by (apply valid_rune_iff; lia).
  split; [exact Hv|].
  unfold encode_rune. rewrite Hv. cbn [negb]. repeat step_if.
  split; [reflexivity|]. exists t3. cbn [app]. f_equal; [lia|f_equal; [lia|f_equal; [lia|f_equal; lia]]].
Qed.

(* ================================================================== *)
(* Lists, suffixes, prefixes                                           *)

Lemma skipn_cons_nat {A} : forall n (l : list A), (n < length l)%nat ->
  exists b, nth_error l n = Some b /\ skipn n l = b :: skipn (S n) l.
Proof.
  induction n as [|n IH]; intros [|x l] Hn; cbn [length] in Hn; try lia.
  - exists x. split; reflexivity.
  - destruct (IH l) as (b & Hb & Hs); [lia|]. exists b. split; [exact Hb|exact Hs].
Qed.

Lemma suffix_len data c : len_N (suffix data c) = len_N data - c.
Proof. unfold suffix, len_N. rewrite skipn_length. lia. Qed.

Lemma suffix_cons data c : c < len_N data ->
  exists b, nth_N data c = Some b /\ suffix data c = b :: suffix data (c + 1).
Proof.
  intros H. unfold nth_N, suffix.
  replace (N.to_nat (c + 1)) with (S (N.to_nat c)) by lia.
  apply skipn_cons_nat. unfold len_N in H. lia.
Qed.

Lemma suffix_all data c : len_N data <= c -> suffix data c = [].
Proof. intros H. unfold suffix. apply skipn_all2. unfold len_N in H. lia. Qed.

Lemma suffix_nil_iff data c : c <= len_N data -> (suffix data c = [] <-> c = len_N data).
Proof.
  intros H. split; intros E.
  - pose proof (suffix_len data c) as L. rewrite E in L. rewrite len_N_nil in L. lia.
  - apply suffix_all. lia.
Qed.

Lemma skipn_skipn_nat {A} : forall n m (l : list A), skipn m (skipn n l) = skipn (n + m) l.
Proof.
  induction n as [|n IH]; intros m l; [reflexivity|].
  destruct l as [|x l]; [cbn [skipn plus]; apply skipn_nil|]. cbn [skipn plus]. apply IH.
Qed.

Lemma nth_error_skipn_nat {A} : forall n k (l : list A), nth_error (skipn n l) k = nth_error l (n + k).
Proof.
  induction n as [|n IH]; intros k l; [reflexivity|].
  destruct l as [|x l]; [cbn [skipn plus nth_error]; destruct k; reflexivity|]. cbn [skipn plus nth_error]. apply IH.
Qed.

Lemma suffix_suffix data c k : suffix (suffix data c) k = suffix data (c + k).
Proof. unfold suffix. rewrite skipn_skipn_nat. f_equal. lia. Qed.

Lemma nth_N_bytes data c b : bytes_ok data -> nth_N data c = Some b -> b < 256.
Proof.
  unfold bytes_ok, nth_N. intros Hb Hn. apply nth_error_In in Hn.
  rewrite Forall_forall in Hb. apply Hb. exact Hn.
Qed.

Lemma has_prefix_iff l p : has_prefix l p = true <-> starts_with l p.
Proof.
  unfold starts_with. revert l; induction p as [|x p IH]; intros l.
  - split; [intros _; exists l; reflexivity|intros _; destruct l; reflexivity].
  - destruct l as [|y l]; cbn [has_prefix].
    + split; [discriminate|]. intros (rest & E). discriminate E.
    + rewrite andb_true_iff, N.eqb_eq, IH. split.
      * intros (-> & rest & ->). exists rest. reflexivity.
      * intros (rest & E). cbn [app] in E. injection E as -> ->. split; [reflexivity|]. exists rest. reflexivity.
Qed.

Lemma has_prefix_len l p : has_prefix l p = true -> len_N p <= len_N l.
Proof.
  intros H. apply has_prefix_iff in H. destruct H as (rest & ->).
  unfold len_N. rewrite app_length. lia.
Qed.

Lemma has_prefix_app p rest : has_prefix (p ++ rest) p = true.
Proof. apply has_prefix_iff. exists rest. reflexivity. Qed.

(* ================================================================== *)
(* UTF-8 consequences                                                   *)

Lemma encode_rune_len r : 1 <= len_N (encode_rune r) <= 4.
Proof.
  unfold encode_rune.
  repeat match goal with |- context[if ?c then _ else _] => destruct c end;
    unfold len_N; cbn [length]; lia.
Qed.

Lemma decode_width s : s <> [] -> 1 <= snd (decode_rune s) <= len_N s.
Proof.
  intros Hs. destruct (decode_rune s) as [r w] eqn:E. cbn [snd].
  destruct (decode_sound s r w Hs E) as [(_ & ->)|(_ & -> & rest & ->)].
  - destruct s; [congruence|]. rewrite len_N_cons. lia.
  - pose proof (encode_rune_len r). unfold len_N in *. rewrite app_length. lia.
Qed.

(* for a valid rune other than U+FFFD: "the next DecodeRune is ch" = "the bytes start with ch's encoding" *)
Lemma decode_is_prefix s ch : valid_rune ch = true -> ch <> rune_error ->
  (fst (decode_rune s) = ch <-> has_prefix s (encode_rune ch) = true).
Proof.
  intros Hv Hne. split.
  - intros E. destruct s as [|b t]; [cbn in E; congruence|].
    destruct (decode_rune (b :: t)) as [r w] eqn:D. cbn [fst] in E. subst r.
    assert (Hne2 : b :: t <> []) by discriminate.
    destruct (decode_sound _ _ _ Hne2 D) as [(E & _)|(_ & _ & rest & ->)]; [congruence|].
    apply has_prefix_app.
  - intros H. apply has_prefix_iff in H. destruct H as (rest & ->).
    rewrite decode_encode by exact Hv. reflexivity.
Qed.

Lemma decode_prefix_width s ch : valid_rune ch = true -> has_prefix s (encode_rune ch) = true ->
  decode_rune s = (ch, len_N (encode_rune ch)).
Proof.
  intros Hv H. apply has_prefix_iff in H. destruct H as (rest & ->). apply decode_encode. exact Hv.
Qed.

(* what matching U+FFFD means: a literal EF BF BD, or a first byte that starts no well-formed encoding *)
Lemma decode_error_iff s : s <> [] ->
  (decode_rune s = (rune_error, 1) <-> forall r, valid_rune r = true -> ~ starts_with s (encode_rune r)).
Proof.
  intros Hs. split.
  - intros D r Hv (rest & ->). rewrite decode_encode in D by exact Hv.
    injection D as -> E. vm_compute in E. discriminate E.
  - intros H. destruct (decode_rune s) as [r w] eqn:D.
    destruct (decode_sound s r w Hs D) as [(-> & ->)|(Hv & _ & rest & E)]; [reflexivity|].
    exfalso. apply (H r Hv). exists rest. exact E.
Qed.

(* ================================================================== *)
(* The reader primitives                                                *)

(* the property's domain: a position from the file's first byte to its end-of-file position *)
Definition in_file (r : reader) (pos : N) : Prop := r_offset r <= pos /\ pos <= r_offset r + r_len r.

Lemma in_file_cur r pos : in_file r pos ->
  pos - r_offset r <= len_N (r_data r) /\ r_offset r + (pos - r_offset r) = pos.
Proof. unfold in_file, r_len. lia. Qed.

Lemma index_suffix data c : c < len_N data ->
  exists b, index_N data c = Ok b /\ nth_N data c = Some b /\ suffix data c = b :: suffix data (c + 1).
Proof.
  intros H. destruct (suffix_cons data c H) as (b & Hn & Hs). exists b. unfold index_N. rewrite Hn. auto.
Qed.

Lemma slice_from_ok data c : c <= len_N data -> slice_from data c = Ok (suffix data c).
Proof. intros H. unfold slice_from. destruct (c <=? len_N data) eqn:E; [reflexivity|lia]. Qed.

Lemma has_prefix_nil p : p <> [] -> has_prefix [] p = false.
Proof. destruct p; [congruence|reflexivity]. Qed.

Lemma has_prefix_nil_r l : has_prefix l [] = true.
Proof. destruct l; reflexivity. Qed.

Lemma encode_rune_nonempty r : encode_rune r <> [].
Proof. pose proof (encode_rune_len r) as H. intros E. rewrite E in H. rewrite len_N_nil in H. lia. Qed.

Lemma int8_eqb ch b : ch < 128 -> b < 256 -> Z.eqb (int8 ch) (int8 b) = (ch =? b).
Proof.
  intros Hc Hb. unfold int8. rewrite !N.mod_small by lia.
  destruct (Z.of_N ch <? 128)%Z eqn:E1; destruct (Z.of_N b <? 128)%Z eqn:E2; lia.
Qed.

(* ---- ReadRune ---- *)
Theorem read_rune_spec r pos ch : bytes_ok (r_data r) -> in_file r pos -> valid_rune ch = true ->
  read_rune r pos ch = Ok (spec_read_rune (r_data r) (r_offset r) pos ch).
Proof.
  intros Hb Hd Hv. destruct (in_file_cur r pos Hd) as (Hc & Hp).
  unfold read_rune, spec_read_rune, r_len, reader_pos.
  set (cur := pos - r_offset r) in *.
  destruct (len_N (r_data r) <=? cur) eqn:E.
  - rewrite (suffix_all (r_data r) cur) by lia.
    destruct (ch =? rune_error); [reflexivity|].
    rewrite has_prefix_nil by apply encode_rune_nonempty. reflexivity.
  - destruct (index_suffix (r_data r) cur) as (b & Hi & Hn & Hs); [lia|].
    rewrite Hs. unfold rune_self.
    destruct (ch <? 128) eqn:Ea.
    + rewrite Hi. cbn [bind].
      rewrite int8_eqb by (try lia; eapply nth_N_bytes; eauto).
      assert (Ene : (ch =? rune_error) = false) by (unfold rune_error; lia). rewrite Ene.
      unfold encode_rune. rewrite Ea. cbn [has_prefix]. rewrite has_prefix_nil_r, andb_true_r.
      destruct (ch =? b); [|reflexivity]. f_equal. f_equal. rewrite len_N_cons, len_N_nil. lia.
    + rewrite slice_from_ok by lia. cbn [bind]. rewrite Hs.
      destruct (ch =? rune_error) eqn:Ee.
      * apply N.eqb_eq in Ee. subst ch.
        destruct (decode_rune (b :: suffix (r_data r) (cur + 1))) as [nx w].
        destruct (nx =? rune_error); [|reflexivity]. f_equal. f_equal. lia.
      * assert (Hne : ch <> rune_error) by lia.
        pose proof (decode_is_prefix (b :: suffix (r_data r) (cur + 1)) ch Hv Hne) as Hiff.
        destruct (has_prefix (b :: suffix (r_data r) (cur + 1)) (encode_rune ch)) eqn:Hp2.
        -- rewrite (decode_prefix_width _ _ Hv Hp2). rewrite N.eqb_refl. f_equal. f_equal. lia.
        -- destruct (decode_rune (b :: suffix (r_data r) (cur + 1))) as [nx w]. cbn [fst] in Hiff.
           destruct (nx =? ch) eqn:En; [|reflexivity].
           apply N.eqb_eq in En. apply Hiff in En. discriminate En.
Qed.

(* the specification's answer moves by the matched length, inside the file, or stays *)
Lemma spec_read_rune_moves data off pos ch p' ok : off <= pos -> pos <= off + len_N data ->
  spec_read_rune data off pos ch = (p', ok) ->
  (ok = false -> p' = pos) /\
  (ok = true -> pos < p' /\ p' <= off + len_N data /\ (ch <> rune_error -> p' = pos + len_N (encode_rune ch))).
Proof.
  intros H1 H2. unfold spec_read_rune.
  pose proof (suffix_len data (pos - off)) as L.
  destruct (ch =? rune_error) eqn:Ee.
  - destruct (suffix data (pos - off)) as [|b t] eqn:Es.
    + intros H; injection H as <- <-. split; [reflexivity|discriminate].
    + assert (Hne : b :: t <> []) by discriminate. pose proof (decode_width _ Hne) as W. rewrite L in W.
      destruct (decode_rune (b :: t)) as [nx w]. cbn [snd] in W.
      destruct (nx =? rune_error); intros H; injection H as <- <-.
      * split; [discriminate|]. intros _. split; [lia|]. split; [lia|]. intros Hx. lia.
      * split; [reflexivity|discriminate].
  - destruct (has_prefix (suffix data (pos - off)) (encode_rune ch)) eqn:Hp; intros H; injection H as <- <-.
    + apply has_prefix_len in Hp. rewrite L in Hp. pose proof (encode_rune_len ch).
      split; [discriminate|]. intros _. split; [lia|]. split; [lia|]. reflexivity.
    + split; [reflexivity|discriminate].
Qed.

(* ---- MatchString ---- *)
Theorem match_string_spec r pos str : in_file r pos -> str <> [] ->
  match_string r pos str = Ok (spec_match_string (r_data r) (r_offset r) pos str).
Proof.
  intros Hd Hs. destruct (in_file_cur r pos Hd) as (Hc & Hp).
  unfold match_string, spec_match_string, reader_pos.
  destruct str as [|x str']; [congruence|]. set (str := x :: str') in *.
  set (cur := pos - r_offset r) in *.
  pose proof (suffix_len (r_data r) cur) as L.
  destruct (len_N (r_data r) - cur <? len_N str) eqn:E.
  - destruct (has_prefix (suffix (r_data r) cur) str) eqn:Hp2; [|reflexivity].
    apply has_prefix_len in Hp2. lia.
  - rewrite slice_from_ok by lia. cbn [bind].
    destruct (has_prefix (suffix (r_data r) cur) str); [|reflexivity]. f_equal. f_equal. lia.
Qed.

Lemma spec_match_string_moves data off pos str p' ok : off <= pos -> pos <= off + len_N data ->
  spec_match_string data off pos str = (p', ok) ->
  (ok = false -> p' = pos) /\ (ok = true -> p' = pos + len_N str /\ p' <= off + len_N data).
Proof.
  intros H1 H2. unfold spec_match_string. pose proof (suffix_len data (pos - off)) as L.
  destruct (has_prefix (suffix data (pos - off)) str) eqn:Hp; intros H; injection H as <- <-.
  - apply has_prefix_len in Hp. split; [discriminate|]. intros _. lia.
  - split; [reflexivity|discriminate].
Qed.

(* ---- MatchWord ---- *)
Lemma word_loop_spec data cur : forall w i, Forall (fun b => b < 128) w -> cur + i + len_N w <= len_N data ->
  word_loop data cur i w = Ok (has_prefix (suffix data (cur + i)) w).
Proof.
  induction w as [|b w IH]; intros i Hw Hl.
  - cbn [word_loop]. destruct (suffix data (cur + i)); reflexivity.
  - rewrite len_N_cons in Hl. cbn [word_loop]. unfold rune_self.
    inversion Hw as [|? ? Hb Hw']; subst.
    destruct (128 <=? b) eqn:E; [lia|].
    destruct (index_suffix data (cur + i)) as (d & Hi & _ & Hs); [lia|].
    rewrite Hi, Hs. cbn [bind has_prefix].
    destruct (b =? d); [|reflexivity]. cbn [andb].
    rewrite IH by (try assumption; lia). do 3 f_equal. lia.
Qed.

Lemma skipn_length_suffix data cur (w : list N) : skipn (length w) (suffix data cur) = suffix data (cur + len_N w).
Proof. unfold suffix, len_N. rewrite skipn_skipn_nat. f_equal. lia. Qed.

Theorem match_word_spec r pos word : in_file r pos -> ascii_word word ->
  match_word r pos word = Ok (spec_match_word (r_data r) (r_offset r) pos word).
Proof.
  intros Hd (Hne & Hw). destruct (in_file_cur r pos Hd) as (Hc & Hp).
  unfold match_word, spec_match_word, reader_pos.
  destruct word as [|x word']; [congruence|]. set (word := x :: word') in *.
  set (cur := pos - r_offset r) in *.
  pose proof (suffix_len (r_data r) cur) as L.
  destruct (len_N (r_data r) - cur <? len_N word) eqn:E.
  - destruct (has_prefix (suffix (r_data r) cur) word) eqn:Hp2; [|reflexivity].
    apply has_prefix_len in Hp2. lia.
  - rewrite (word_loop_spec (r_data r) cur word 0) by (try assumption; lia). cbn [bind].
    rewrite N.add_0_r.
    destruct (has_prefix (suffix (r_data r) cur) word); [|reflexivity]. cbn [negb andb].
    rewrite skipn_length_suffix.
    destruct (len_N (r_data r) - cur - len_N word =? 0) eqn:E0.
    + rewrite (suffix_all (r_data r) (cur + len_N word)) by lia. f_equal. f_equal. lia.
    + destruct (index_suffix (r_data r) (cur + len_N word)) as (d & Hi & _ & Hs); [lia|].
      rewrite Hi, Hs. cbn [bind]. destruct (is_word_char d); cbn [negb]; [reflexivity|].
      f_equal. f_equal. lia.
Qed.

Lemma spec_match_word_moves data off pos word p' ok : off <= pos -> pos <= off + len_N data ->
  spec_match_word data off pos word = (p', ok) ->
  (ok = false -> p' = pos) /\ (ok = true -> p' = pos + len_N word /\ p' <= off + len_N data).
Proof.
  intros H1 H2. unfold spec_match_word. pose proof (suffix_len data (pos - off)) as L.
  destruct (has_prefix (suffix data (pos - off)) word) eqn:Hp; cbn [andb].
  - apply has_prefix_len in Hp.
    destruct (match skipn (length word) (suffix data (pos - off)) with [] => true | d :: _ => negb (is_word_char d) end);
      intros H; injection H as <- <-.
    + split; [discriminate|]. intros _. lia.
    + split; [reflexivity|discriminate].
  - intros H; injection H as <- <-. split; [reflexivity|discriminate].
Qed.

(* ---- ReadRegexp / ReadRegexpSubmatch / Readf ---- *)
Lemma slice_N_ok data c n : c + n <= len_N data ->
  slice_N data c (c + n) = Ok (firstn (N.to_nat n) (suffix data c)).
Proof.
  intros H. unfold slice_N, suffix.
  destruct ((c <=? c + n) && (c + n <=? len_N data)) eqn:E; [|lia].
  replace (c + n - c) with n by lia. reflexivity.
Qed.

Lemma match_nonempty {A B} (s : list A) (a b : B) : s <> [] ->
  match s with [] => a | _ :: _ => b end = b.
Proof. destruct s; [congruence|reflexivity]. Qed.

Lemma suffix_nonempty data c : c < len_N data -> suffix data c <> [].
Proof. intros H E. pose proof (suffix_len data c) as L. rewrite E, len_N_nil in L. lia. Qed.

Theorem read_regexp_spec matcher r pos : in_file r pos -> matcher_ok matcher ->
  read_regexp matcher r pos = Ok (spec_read_regexp matcher (r_data r) (r_offset r) pos).
Proof.
  intros Hd (Hm0 & Hm). destruct (in_file_cur r pos Hd) as (Hc & Hp).
  unfold read_regexp, spec_read_regexp, reader_pos, r_len.
  set (cur := pos - r_offset r) in *.
  pose proof (suffix_len (r_data r) cur) as L.
  destruct (len_N (r_data r) <=? cur) eqn:E.
  - rewrite (suffix_all (r_data r) cur) by lia. reflexivity.
  - rewrite Hm0. rewrite slice_from_ok by lia. cbn [bind].
    rewrite match_nonempty by (apply suffix_nonempty; lia).
    destruct (matcher (suffix (r_data r) cur)) as [n|] eqn:Em; [|reflexivity].
    apply Hm in Em. rewrite slice_N_ok by lia. cbn [bind]. f_equal. f_equal. lia.
Qed.

Lemma spec_read_regexp_moves matcher data off pos p' v : matcher_ok matcher ->
  off <= pos -> pos <= off + len_N data ->
  spec_read_regexp matcher data off pos = (p', v) ->
  (v = None -> p' = pos) /\
  (forall m, v = Some m -> p' = pos + len_N m /\ p' <= off + len_N data /\ starts_with (suffix data (pos - off)) m).
Proof.
  intros (_ & Hm) H1 H2. unfold spec_read_regexp. pose proof (suffix_len data (pos - off)) as L.
  destruct (suffix data (pos - off)) as [|b t] eqn:Es.
  - intros H; injection H as <- <-. split; [reflexivity|discriminate].
  - rewrite <- Es in *. destruct (matcher (suffix data (pos - off))) as [n|] eqn:Em; intros H; injection H as <- <-.
    + apply Hm in Em. split; [discriminate|]. intros m Hs. injection Hs as <-.
      assert (Hl : len_N (firstn (N.to_nat n) (suffix data (pos - off))) = n).
      { unfold len_N in *. rewrite firstn_length. lia. }
      rewrite Hl. split; [reflexivity|]. split; [lia|].
      exists (skipn (N.to_nat n) (suffix data (pos - off))). symmetry. apply firstn_skipn.
    + split; [reflexivity|discriminate].
Qed.

Theorem read_regexp_submatch_spec sm r pos : in_file r pos -> smatcher_ok sm ->
  read_regexp_submatch sm r pos = Ok (spec_read_regexp_submatch sm (r_data r) (r_offset r) pos).
Proof.
  intros Hd (Hm0 & Hm). destruct (in_file_cur r pos Hd) as (Hc & Hp).
  unfold read_regexp_submatch, spec_read_regexp_submatch, reader_pos, r_len.
  set (cur := pos - r_offset r) in *.
  pose proof (suffix_len (r_data r) cur) as L.
  destruct (len_N (r_data r) <=? cur) eqn:E.
  - rewrite (suffix_all (r_data r) cur) by lia. reflexivity.
  - rewrite Hm0. rewrite slice_from_ok by lia. cbn [bind].
    rewrite match_nonempty by (apply suffix_nonempty; lia).
    destruct (sm (suffix (r_data r) cur)) as [gs|] eqn:Em; [|reflexivity].
    destruct (Hm _ _ Em) as (m & rest & -> & Hl). cbn [hd len_opt]. f_equal. f_equal. lia.
Qed.

Lemma spec_read_regexp_submatch_moves sm data off pos p' v : smatcher_ok sm ->
  off <= pos -> pos <= off + len_N data ->
  spec_read_regexp_submatch sm data off pos = (p', v) ->
  (v = None -> p' = pos) /\
  (forall gs, v = Some gs -> exists m rest, gs = Some m :: rest /\ p' = pos + len_N m /\ p' <= off + len_N data).
Proof.
  intros (_ & Hm) H1 H2. unfold spec_read_regexp_submatch. pose proof (suffix_len data (pos - off)) as L.
  destruct (suffix data (pos - off)) as [|b t] eqn:Es.
  - intros H; injection H as <- <-. split; [reflexivity|discriminate].
  - rewrite <- Es in *. destruct (sm (suffix data (pos - off))) as [gs|] eqn:Em; intros H; injection H as <- <-.
    + destruct (Hm _ _ Em) as (m & rest & -> & Hl). split; [discriminate|]. intros gs Hs. injection Hs as <-.
      exists m, rest. cbn [hd len_opt]. split; [reflexivity|]. split; [reflexivity|lia].
    + split; [reflexivity|discriminate].
Qed.

Theorem readf_spec f r pos : in_file r pos -> callback_ok f ->
  readf f r pos = Ok (spec_readf f (r_data r) (r_offset r) pos).
Proof.
  intros Hd Hf. destruct (in_file_cur r pos Hd) as (Hc & Hp).
  unfold readf, spec_readf, reader_pos, r_len.
  set (cur := pos - r_offset r) in *.
  pose proof (suffix_len (r_data r) cur) as L.
  destruct (len_N (r_data r) <=? cur) eqn:E.
  - rewrite (suffix_all (r_data r) cur) by lia. reflexivity.
  - rewrite slice_from_ok by lia. cbn [bind].
    rewrite match_nonempty by (apply suffix_nonempty; lia).
    specialize (Hf (suffix (r_data r) cur)).
    destruct (f (suffix (r_data r) cur)) as [value next]. destruct Hf as (Hz & Hv & Hn).
    destruct (next =? 0) eqn:E0.
    + rewrite Hz by lia. reflexivity.
    + destruct ((next <? len_opt value) || (len_N (r_data r) <? cur + next)) eqn:E1; [lia|].
      f_equal. f_equal. lia.
Qed.

Lemma spec_readf_moves f data off pos p' v : callback_ok f ->
  off <= pos -> pos <= off + len_N data ->
  spec_readf f data off pos = (p', v) ->
  pos <= p' /\ p' <= off + len_N data /\ len_opt v <= p' - pos /\
  (p' = pos -> v = None) /\ (p' = pos <-> snd (f (suffix data (pos - off))) = 0 \/ suffix data (pos - off) = []).
Proof.
  intros Hf H1 H2. unfold spec_readf. pose proof (suffix_len data (pos - off)) as L.
  destruct (suffix data (pos - off)) as [|b t] eqn:Es.
  - intros H; injection H as <- <-. cbn [len_opt]. repeat split; try lia; auto.
  - rewrite <- Es in *. specialize (Hf (suffix data (pos - off))).
    destruct (f (suffix data (pos - off))) as [value next]. destruct Hf as (Hz & Hv & Hn). cbn [snd].
    destruct (next =? 0) eqn:E0; intros H; injection H as <- <-.
    + cbn [len_opt]. repeat split; try lia; auto.
    + repeat split; try lia. intros [Hx|Hx]; [lia|]. rewrite Hx in Es. discriminate Es.
Qed.

(* ---- Remaining, IsEOF, Pos ---- *)
Theorem remaining_spec r pos : in_file r pos ->
  remaining r pos = spec_remaining (r_data r) (r_offset r) pos /\ pos + remaining r pos = r_offset r + r_len r.
Proof.
  intros Hd. destruct (in_file_cur r pos Hd) as (Hc & Hp).
  unfold remaining, spec_remaining, r_len. rewrite suffix_len. lia.
Qed.

Theorem is_eof_spec r pos : in_file r pos ->
  is_eof r pos = spec_is_eof (r_data r) (r_offset r) pos /\ (is_eof r pos = true <-> pos = r_offset r + r_len r).
Proof.
  intros Hd. destruct (in_file_cur r pos Hd) as (Hc & Hp).
  unfold is_eof, spec_is_eof, r_len.
  pose proof (suffix_len (r_data r) (pos - r_offset r)) as L.
  destruct (suffix (r_data r) (pos - r_offset r)) as [|b t]; [rewrite len_N_nil in L|rewrite len_N_cons in L]; lia.
Qed.

Theorem reader_pos_spec r pos : in_file r pos -> reader_pos r (pos - r_offset r) = pos.
Proof. intros Hd. unfold reader_pos. apply (in_file_cur r pos Hd). Qed.

(* ---- SkipWhitespaces ---- *)
Definition ws_nl_final (r : reader) (cur nl : N) : N :=
  if nl =? 0 then match ws_first_nl (suffix (r_data r) cur) with Some k => r_offset r + cur + k | None => 0 end
  else nl.

Lemma ws_loop_spec r : 1 <= r_offset r -> forall fuel cur nl, cur <= r_len r ->
  (N.to_nat (r_len r - cur) < fuel)%nat ->
  ws_loop fuel r cur nl = Ok (cur + ws_run (suffix (r_data r) cur), ws_nl_final r cur nl).
Proof.
  intros Ho. unfold r_len. induction fuel as [|k IH]; intros cur nl Hc Hf; [lia|].
  cbn [ws_loop]. unfold r_len, ws_nl_final.
  destruct (cur <? len_N (r_data r)) eqn:E.
  - destruct (suffix_cons (r_data r) cur) as (b & Hn & Hs); [lia|].
    rewrite Hn, Hs. cbn [ws_run ws_first_nl].
    destruct (is_ws b) eqn:Ew.
    + rewrite IH by lia. unfold ws_nl_final, reader_pos. f_equal. f_equal; [lia|].
      destruct (is_nl b) eqn:En; cbn [andb].
      * destruct (nl =? 0) eqn:E0; [|rewrite E0; reflexivity].
        destruct (r_offset r + cur =? 0) eqn:E1; lia.
      * destruct (nl =? 0) eqn:E0; [|reflexivity].
        destruct (ws_first_nl (suffix (r_data r) (cur + 1))); [lia|reflexivity].
    + f_equal. f_equal; [lia|]. destruct (nl =? 0) eqn:E0; lia.
  - rewrite (suffix_all (r_data r) cur) by lia. cbn [ws_run ws_first_nl]. f_equal. f_equal; [lia|].
    destruct (nl =? 0) eqn:E0; lia.
Qed.

Local Opaque N.add.
Lemma ws_first_nl_lt l k : ws_first_nl l = Some k -> k < ws_run l.
Proof.
  revert k; induction l as [|b t IH]; intros k; cbn [ws_first_nl ws_run]; [discriminate|].
  destruct (is_ws b); [|discriminate]. destruct (is_nl b).
  - intros H; injection H as <-. lia.
  - destruct (ws_first_nl t) as [j|]; [|discriminate]. intros H; injection H as <-. specialize (IH j eq_refl). lia.
Qed.

Local Transparent N.add.

Theorem skip_whitespaces_spec r pos mode : 1 <= r_offset r -> in_file r pos ->
  skip_whitespaces r pos mode = Ok (spec_skip_whitespaces (r_data r) (r_offset r) pos mode).
Proof.
  intros Ho Hd. destruct (in_file_cur r pos Hd) as (Hc & Hp).
  unfold skip_whitespaces, spec_skip_whitespaces.
  set (cur := pos - r_offset r) in *.
  rewrite ws_loop_spec; [|exact Ho|exact Hc|unfold r_len, len_N; lia].
  cbn [bind]. unfold reader_pos, ws_nl_final. cbn [N.eqb].
  set (s := suffix (r_data r) cur).
  f_equal. f_equal; [lia|].
  destruct mode; cbn [spec_ws_error].
  - destruct (cur <? cur + ws_run s) eqn:E1; destruct (0 <? ws_run s) eqn:E2; try lia; reflexivity.
  - destruct (ws_first_nl s) as [k|] eqn:Ek.
    + destruct (0 <? r_offset r + cur + k) eqn:E1; [|lia]. do 2 f_equal. lia.
    + reflexivity.
  - reflexivity.
  - destruct (ws_first_nl s) as [k|] eqn:Ek.
    + destruct (r_offset r + cur + k =? 0) eqn:E1; [lia|reflexivity].
    + cbn [N.eqb]. do 2 f_equal. lia.
Qed.

(* the run is inside the file and maximal: it ends at the end of the file or before a non-whitespace byte *)
Lemma ws_run_le l : ws_run l <= len_N l.
Proof.
  induction l as [|b t IH]; cbn [ws_run]; [lia|].
  rewrite len_N_cons. destruct (is_ws b); lia.
Qed.

Lemma ws_run_stops l : match skipn (N.to_nat (ws_run l)) l with [] => True | b :: _ => is_ws b = false end.
Proof.
  induction l as [|b t IH]; cbn [ws_run]; [exact I|].
  destruct (is_ws b) eqn:E.
  - replace (N.to_nat (1 + ws_run t)) with (S (N.to_nat (ws_run t))) by lia. cbn [skipn]. exact IH.
  - cbn [N.to_nat skipn]. exact E.
Qed.

Lemma ws_run_all l k : (k < N.to_nat (ws_run l))%nat -> exists b, nth_error l k = Some b /\ is_ws b = true.
Proof.
  revert k; induction l as [|b t IH]; intros k; cbn [ws_run]; [cbn; lia|].
  destruct (is_ws b) eqn:E; [|cbn; lia].
  destruct k as [|k]; [intros _; exists b; auto|].
  intros H. cbn [nth_error]. apply IH. lia.
Qed.

Theorem skip_whitespaces_props r pos mode p' e : 1 <= r_offset r -> in_file r pos ->
  skip_whitespaces r pos mode = Ok (p', e) ->
  pos <= p' /\ p' <= r_offset r + r_len r /\
  (* every skipped byte is whitespace *)
  (forall q, pos <= q -> q < p' -> exists b, nth_N (r_data r) (q - r_offset r) = Some b /\ is_ws b = true) /\
  (* it stops at the end of the file or at a non-whitespace byte *)
  (p' = r_offset r + r_len r \/ exists b, nth_N (r_data r) (p' - r_offset r) = Some b /\ is_ws b = false) /\
  (* an error position lies inside the skipped run (or at its end) *)
  (forall ep k, e = Some (ep, k) -> pos <= ep /\ ep <= p').
Proof.
  intros Ho Hd. rewrite skip_whitespaces_spec by assumption. intros H; injection H as <- <-.
  destruct (in_file_cur r pos Hd) as (Hc & Hp).
  set (cur := pos - r_offset r) in *. set (s := suffix (r_data r) cur).
  pose proof (suffix_len (r_data r) cur) as L. pose proof (ws_run_le s) as Hle. fold s in L.
  unfold r_len. split; [lia|]. split; [lia|]. split; [|split].
  - intros q H1 H2.
    destruct (ws_run_all s (N.to_nat (q - pos))) as (b & Hn & Hw); [lia|].
    exists b. split; [|exact Hw]. unfold nth_N. unfold s, suffix in Hn.
    rewrite nth_error_skipn_nat in Hn. rewrite <- Hn. f_equal. lia.
  - destruct (N.eq_dec (pos + ws_run s) (r_offset r + len_N (r_data r))) as [Heq|Hneq]; [left; exact Heq|right].
    pose proof (ws_run_stops s) as Hst.
    replace (skipn (N.to_nat (ws_run s)) s) with (suffix (r_data r) (cur + ws_run s)) in Hst
      by (unfold s; rewrite <- suffix_suffix; reflexivity).
    destruct (suffix_cons (r_data r) (cur + ws_run s)) as (b & Hn & Hs); [lia|].
    rewrite Hs in Hst. exists b. split; [|exact Hst]. rewrite <- Hn. f_equal. lia.
  - intros ep k He. destruct mode; cbn [spec_ws_error] in He.
    + destruct (0 <? ws_run s); [|discriminate]. injection He as <- <-. lia.
    + destruct (ws_first_nl s) as [j|] eqn:Ej; [|discriminate]. injection He as <- <-.
      apply ws_first_nl_lt in Ej. lia.
    + discriminate.
    + destruct (ws_first_nl s); [discriminate|]. injection He as <- <-. lia.
Qed.

(* ================================================================== *)
(* Placement invariance: every primitive depends only on pos - offset   *)

Lemma shift_cur r d pos : pos + d - r_offset (shift_reader r d) = pos - r_offset r.
Proof. unfold shift_reader. cbn [r_offset]. lia. Qed.

Ltac shift_leaf :=
  unfold shift_out, shift_fst, reader_pos, shift_reader; cbn [fst snd bind r_offset r_data];
  try reflexivity; try (f_equal; f_equal; lia).

Theorem read_rune_shift r d pos ch :
  read_rune (shift_reader r d) (pos + d) ch = shift_out d (read_rune r pos ch).
Proof.
  unfold read_rune, r_len. rewrite shift_cur. cbn [shift_reader r_data].
  destruct (len_N (r_data r) <=? pos - r_offset r); [shift_leaf|].
  destruct (ch <? rune_self).
  - destruct (index_N (r_data r) (pos - r_offset r)); cbn [bind]; try reflexivity.
    destruct (Z.eqb (int8 ch) (int8 a)); shift_leaf.
  - destruct (slice_from (r_data r) (pos - r_offset r)); cbn [bind]; try reflexivity.
    destruct (decode_rune a) as [nx w]. destruct (nx =? ch); shift_leaf.
Qed.

Theorem match_string_shift r d pos str :
  match_string (shift_reader r d) (pos + d) str = shift_out d (match_string r pos str).
Proof.
  unfold match_string. rewrite shift_cur. cbn [shift_reader r_data].
  destruct str as [|x s]; [reflexivity|].
  destruct (len_N (r_data r) - (pos - r_offset r) <? len_N (x :: s)); [shift_leaf|].
  destruct (slice_from (r_data r) (pos - r_offset r)); cbn [bind]; try reflexivity.
  destruct (has_prefix a (x :: s)); shift_leaf.
Qed.

Theorem match_word_shift r d pos word :
  match_word (shift_reader r d) (pos + d) word = shift_out d (match_word r pos word).
Proof.
  unfold match_word. rewrite shift_cur. cbn [shift_reader r_data].
  destruct word as [|x w]; [reflexivity|].
  destruct (len_N (r_data r) - (pos - r_offset r) <? len_N (x :: w)); [shift_leaf|].
  destruct (word_loop (r_data r) (pos - r_offset r) 0 (x :: w)) as [same| |]; cbn [bind]; try reflexivity.
  destruct (negb same); [shift_leaf|].
  destruct (len_N (r_data r) - (pos - r_offset r) - len_N (x :: w) =? 0); [shift_leaf|].
  destruct (index_N (r_data r) (pos - r_offset r + len_N (x :: w))); cbn [bind]; try reflexivity.
  destruct (negb (is_word_char a)); shift_leaf.
Qed.

Theorem read_regexp_shift matcher r d pos :
  read_regexp matcher (shift_reader r d) (pos + d) = shift_out d (read_regexp matcher r pos).
Proof.
  unfold read_regexp, r_len. rewrite shift_cur. cbn [shift_reader r_data].
  destruct (len_N (r_data r) <=? pos - r_offset r); [shift_leaf|].
  destruct (matcher []); [reflexivity|].
  destruct (slice_from (r_data r) (pos - r_offset r)); cbn [bind]; try reflexivity.
  destruct (matcher a) as [n|]; [|shift_leaf].
  destruct (slice_N (r_data r) (pos - r_offset r) (pos - r_offset r + n)); cbn [bind]; try reflexivity. shift_leaf.
Qed.

Theorem read_regexp_submatch_shift sm r d pos :
  read_regexp_submatch sm (shift_reader r d) (pos + d) = shift_out d (read_regexp_submatch sm r pos).
Proof.
  unfold read_regexp_submatch, r_len. rewrite shift_cur. cbn [shift_reader r_data].
  destruct (len_N (r_data r) <=? pos - r_offset r); [shift_leaf|].
  destruct (sm []); [reflexivity|].
  destruct (slice_from (r_data r) (pos - r_offset r)); cbn [bind]; try reflexivity.
  destruct (sm a) as [[|m0 gs]|]; shift_leaf.
Qed.

Theorem readf_shift f r d pos :
  readf f (shift_reader r d) (pos + d) = shift_out d (readf f r pos).
Proof.
  unfold readf, r_len. rewrite shift_cur. cbn [shift_reader r_data].
  destruct (len_N (r_data r) <=? pos - r_offset r); [shift_leaf|].
  destruct (slice_from (r_data r) (pos - r_offset r)); cbn [bind]; try reflexivity.
  destruct (f a) as [value next]. destruct (next =? 0); [destruct value; shift_leaf|].
  destruct ((next <? len_opt value) || (len_N (r_data r) <? pos - r_offset r + next)); shift_leaf.
Qed.

Theorem remaining_shift r d pos : remaining (shift_reader r d) (pos + d) = remaining r pos.
Proof. unfold remaining, r_len. rewrite shift_cur. reflexivity. Qed.

Theorem is_eof_shift r d pos : is_eof (shift_reader r d) (pos + d) = is_eof r pos.
Proof. unfold is_eof, r_len. rewrite shift_cur. reflexivity. Qed.

Theorem reader_pos_shift r d cur : reader_pos (shift_reader r d) cur = reader_pos r cur + d.
Proof. unfold reader_pos, shift_reader. cbn [r_offset]. lia. Qed.

(* the loop's "no new line seen" marker 0 stays 0, a recorded position moves *)
Definition shift_nl (d nl : N) : N := if nl =? 0 then 0 else nl + d.

Lemma ws_loop_shift r d : 1 <= r_offset r -> forall fuel cur nl,
  ws_loop fuel (shift_reader r d) cur (shift_nl d nl) =
  match ws_loop fuel r cur nl with
  | Ok (c, n) => Ok (c, shift_nl d n) | Panic => Panic | OutOfFuel => OutOfFuel
  end.
Proof.
  intros Ho. induction fuel as [|k IH]; intros cur nl.
  - cbn [ws_loop]. unfold r_len. cbn [shift_reader r_data].
    destruct (cur <? len_N (r_data r)); [|reflexivity].
    destruct (nth_N (r_data r) cur) as [b|]; [|reflexivity]. destruct (is_ws b); reflexivity.
  - cbn [ws_loop]. unfold r_len. cbn [shift_reader r_data].
    destruct (cur <? len_N (r_data r)); [|reflexivity].
    destruct (nth_N (r_data r) cur) as [b|]; [|reflexivity]. destruct (is_ws b); [|reflexivity].
    rewrite <- IH. f_equal. unfold shift_nl, reader_pos. cbn [r_offset].
    destruct (is_nl b); cbn [andb]; [|reflexivity].
    destruct (nl =? 0) eqn:E0; cbn [N.eqb]; [|rewrite E0; destruct (nl + d =? 0) eqn:E1; [lia|reflexivity]].
    unfold shift_reader; cbn [r_offset]. destruct (r_offset r + cur =? 0) eqn:E2; [lia|]. lia.
Qed.

Theorem skip_whitespaces_shift r d pos mode : 1 <= r_offset r ->
  skip_whitespaces (shift_reader r d) (pos + d) mode = shift_ws_out d (skip_whitespaces r pos mode).
Proof.
  intros Ho. unfold skip_whitespaces. rewrite shift_cur. cbn [shift_reader r_data].
  change 0 with (shift_nl d 0) at 1. fold (shift_reader r d). rewrite (ws_loop_shift r d Ho).
  destruct (ws_loop (S (length (r_data r))) r (pos - r_offset r) 0) as [[c n]| |]; cbn [bind]; try reflexivity.
  unfold shift_ws_out, shift_ws, reader_pos, shift_nl. cbn [fst snd shift_reader r_offset].
  f_equal. f_equal; [lia|].
  destruct mode.
  - destruct (pos - r_offset r <? c); reflexivity.
  - destruct (n =? 0) eqn:E0.
    + cbn [N.ltb N.compare]. assert (n = 0) by lia. subst n. reflexivity.
    + destruct (0 <? n + d) eqn:E1; destruct (0 <? n) eqn:E2; try lia. reflexivity.
  - reflexivity.
  - destruct (n =? 0) eqn:E0.
    + cbn [N.eqb]. do 2 f_equal. lia.
    + destruct (n + d =? 0) eqn:E1; [lia|reflexivity].
Qed.

(* ================================================================== *)
(* The contracts are satisfiable: the harness's matchers and callbacks  *)

Lemma span_le p l : span p l <= len_N l.
Proof.
  induction l as [|b t IH]; cbn [span]; [lia|]. rewrite len_N_cons. destruct (p b); lia.
Qed.

Lemma len_N_skipn {A} n (l : list A) : len_N (skipn (N.to_nat n) l) = len_N l - n.
Proof. unfold len_N. rewrite skipn_length. lia. Qed.

Lemma len_N_firstn {A} n (l : list A) : n <= len_N l -> len_N (firstn (N.to_nat n) l) = n.
Proof. unfold len_N. intros H. rewrite firstn_length. lia. Qed.

Lemma nonzero_some n k : nonzero n = Some k -> k = n.
Proof. unfold nonzero. destruct (n =? 0); [discriminate|]. intros H; injection H as <-. reflexivity. Qed.

Example rx_astar_b_ok : matcher_ok rx_astar_b.
Proof.
  split; [reflexivity|]. intros s n. unfold rx_astar_b.
  pose proof (len_N_skipn (span (fun b => b =? 97) s) s) as L.
  destruct (skipn (N.to_nat (span (fun b => b =? 97) s)) s) as [|b t]; [discriminate|].
  rewrite len_N_cons in L. destruct (b =? 98); [|discriminate]. intros H; injection H as <-. lia.
Qed.

Example rx_digits_ok : matcher_ok rx_digits.
Proof.
  split; [reflexivity|]. intros s n H. apply nonzero_some in H. subst n. apply span_le.
Qed.

Example rx_not_b_ok : matcher_ok rx_not_b.
Proof.
  split; [reflexivity|]. intros s n H. apply nonzero_some in H. subst n. apply span_le.
Qed.

Example rx_wordb_ok : matcher_ok rx_wordb.
Proof.
  split; [reflexivity|]. intros s n. unfold rx_wordb. destruct s as [|b t]; [discriminate|].
  destruct (is_word_char b); [|discriminate]. intros H; injection H as <-. lia.
Qed.

Example sm_aplus_b_ok : smatcher_ok sm_aplus_b.
Proof.
  split; [reflexivity|]. intros s gs. unfold sm_aplus_b.
  set (n := span (fun b => b =? 97) s). pose proof (span_le (fun b => b =? 97) s) as Hn. fold n in Hn.
  destruct (n =? 0); [discriminate|].
  pose proof (len_N_skipn n s) as L. pose proof (len_N_firstn n s Hn) as F.
  destruct (skipn (N.to_nat n) s) as [|b t].
  - intros H; injection H as <-. eexists _, _. split; [reflexivity|]. lia.
  - rewrite len_N_cons in L. destruct (b =? 98); intros H; injection H as <-; eexists _, _; (split; [reflexivity|]).
    + unfold len_N in *. rewrite app_length. cbn [length]. lia.
    + lia.
Qed.

Example cb_line_ok : callback_ok cb_line.
Proof.
  intros s. unfold cb_line. pose proof (span_le (fun b => negb (b =? 10)) s) as Hn.
  destruct (span (fun b => negb (b =? 10)) s =? 0) eqn:E.
  - cbn [len_opt]. split; [reflexivity|]. lia.
  - cbn [len_opt]. rewrite len_N_firstn by exact Hn. split; [lia|]. lia.
Qed.

Example cb_ax_ok : callback_ok cb_ax.
Proof.
  intros s. unfold cb_ax. destruct s as [|a [|b t]]; cbn [len_opt].
  - split; [reflexivity|]. unfold len_N; cbn [length]; lia.
  - destruct (a =? 97); cbn [len_opt]; unfold len_N; cbn [length]; (split; [try reflexivity; lia|]); lia.
  - destruct (a =? 97); cbn [len_opt]; [|unfold len_N; cbn [length]; split; [reflexivity|lia]].
    destruct (b =? 98); cbn [len_opt]; unfold len_N; cbn [length]; (split; [lia|]); lia.
Qed.

Example cb_space_ok : callback_ok cb_space.
Proof.
  intros s. unfold cb_space. destruct s as [|b t]; cbn [len_opt].
  - split; [reflexivity|]. unfold len_N; cbn [length]; lia.
  - destruct (b =? 32); cbn [len_opt]; unfold len_N; cbn [length]; (split; [try reflexivity; lia|]); lia.
Qed.

(* ================================================================== *)
(* The model satisfies the harness's oracle on every case of the domain *)

Lemma normalize_Forall (P : N -> Prop) : P 10 -> forall l, Forall P l -> Forall P (normalize l).
Proof.
  intros H10.
  assert (H : forall l, (Forall P l -> Forall P (normalize l)) /\
                        (forall x, P x -> Forall P l -> Forall P (normalize (x :: l)))).
  { induction l as [|y t [IHa IHb]].
    - split; [intros _; constructor|]. intros x Hx _. cbn [normalize]. constructor; [exact Hx|constructor].
    - split.
      + intros Hl. inversion Hl; subst. apply IHb; assumption.
      + intros x Hx Hl. inversion Hl as [|? ? Hy Ht]; subst.
        change (normalize (x :: y :: t)) with
          (if (x =? 13) && (y =? 10) then 10 :: normalize t else x :: normalize (y :: t)).
        destruct ((x =? 13) && (y =? 10)).
        * constructor; [exact H10|apply IHa; exact Ht].
        * constructor; [exact Hx|apply IHb; assumption]. }
  intros l. apply H.
Qed.

Lemma bytes_okb_ok l : bytes_okb l = true -> bytes_ok l.
Proof.
  unfold bytes_okb, bytes_ok. rewrite forallb_forall, Forall_forall. intros H x Hx. specialize (H x Hx). lia.
Qed.

Lemma normalize_bytes_ok raw : bytes_ok raw -> bytes_ok (normalize raw).
Proof. apply normalize_Forall. lia. Qed.

Lemma concat_out_app a b :
  concat_out (a ++ b) = bind (concat_out a) (fun x => bind (concat_out b) (fun y => Ok (x ++ y))).
Proof.
  induction a as [|o a IH]; cbn [app concat_out bind].
  - destruct (concat_out b); reflexivity.
  - destruct o as [x| |]; cbn [bind]; try reflexivity. rewrite IH.
    destruct (concat_out a) as [xa| |]; cbn [bind]; try reflexivity.
    destruct (concat_out b) as [xb| |]; cbn [bind]; try reflexivity. rewrite app_assoc. reflexivity.
Qed.

Lemma concat_out_map_ok {A} (f : A -> outcome (list N)) (g : A -> list N) l :
  (forall x, In x l -> f x = Ok (g x)) -> concat_out (map f l) = Ok (concat (map g l)).
Proof.
  induction l as [|x l IH]; intros H; [reflexivity|].
  cbn [map concat_out concat]. rewrite (H x) by (left; reflexivity). cbn [bind].
  rewrite IH by (intros y Hy; apply H; right; exact Hy). reflexivity.
Qed.

Lemma list_N_eqb_refl l : list_N_eqb l l = true.
Proof. induction l as [|x l IH]; [reflexivity|]. cbn [list_N_eqb]. rewrite N.eqb_refl, IH. reflexivity. Qed.

Lemma obs_eqb_OS_list l : obs_eqb (OL (map OS l)) (OL (map OS l)) = true.
Proof.
  cbn [obs_eqb]. induction l as [|x l IH]; [reflexivity|].
  cbn [map]. cbn [obs_eqb]. rewrite list_N_eqb_refl. cbn [andb]. exact IH.
Qed.

Lemma In_N_range k : forall s p, In p (N_range s k) -> s <= p < s + N.of_nat k.
Proof.
  induction k as [|k IH]; intros s p H; cbn [N_range] in H; [destruct H|].
  destruct H as [<- | H]; [lia|]. apply IH in H. lia.
Qed.

Lemma positions_in_file r p : In p (positions_of r) -> in_file r p.
Proof.
  unfold positions_of. intros Hf. apply filter_In in Hf. destruct Hf as [Hf _].
  unfold all_positions in Hf. apply In_N_range in Hf.
  unfold in_file, r_len, len_N. lia.
Qed.

Theorem model_obs_is_spec r pos runes strs words :
  1 <= r_offset r -> bytes_ok (r_data r) -> in_file r pos ->
  Forall (fun ch => valid_rune ch = true) runes ->
  Forall (fun s => s <> []) strs -> Forall ascii_word words ->
  model_obs_at r pos runes strs words = Ok (spec_obs_at (r_data r) (r_offset r) pos runes strs words).
Proof.
  intros Ho Hb Hd Hr Hs Hw. unfold model_obs_at, spec_obs_at.
  rewrite Forall_forall in Hr, Hs, Hw.
  repeat rewrite concat_out_app. repeat rewrite concat_app.
  rewrite (concat_out_map_ok _ (fun ch => enc_pb (spec_read_rune (r_data r) (r_offset r) pos ch)))
    by (intros ch Hin; rewrite read_rune_spec by auto; reflexivity).
  rewrite (concat_out_map_ok _ (fun s => enc_pb (spec_match_string (r_data r) (r_offset r) pos s)))
    by (intros s Hin; rewrite match_string_spec by auto; reflexivity).
  rewrite (concat_out_map_ok _ (fun w => enc_pb (spec_match_word (r_data r) (r_offset r) pos w)))
    by (intros w Hin; rewrite match_word_spec by auto; reflexivity).
  rewrite (concat_out_map_ok _ (fun m => enc_pbytes (spec_read_regexp m (r_data r) (r_offset r) pos))).
  2:{ intros m Hin. rewrite read_regexp_spec; [reflexivity|exact Hd|].
      cbn [c09_matchers In] in Hin.
      destruct Hin as [<-|[<-|[<-|[<-|[]]]]];
        [apply rx_astar_b_ok|apply rx_digits_ok|apply rx_not_b_ok|apply rx_wordb_ok]. }
  rewrite (concat_out_map_ok _ (fun f => enc_pbytes (spec_readf f (r_data r) (r_offset r) pos))).
  2:{ intros f Hin. rewrite readf_spec; [reflexivity|exact Hd|].
      cbn [c09_callbacks In] in Hin.
      destruct Hin as [<-|[<-|[<-|[]]]]; [apply cb_line_ok|apply cb_ax_ok|apply cb_space_ok]. }
  rewrite (concat_out_map_ok _ (fun m => enc_ws (spec_skip_whitespaces (r_data r) (r_offset r) pos m)))
    by (intros m Hin; rewrite skip_whitespaces_spec by auto; reflexivity).
  rewrite read_regexp_submatch_spec by (auto using sm_aplus_b_ok).
  destruct (remaining_spec r pos Hd) as (-> & _). destruct (is_eof_spec r pos Hd) as (-> & _).
  rewrite reader_pos_spec by exact Hd.
  cbn [concat_out omap bind concat app]. rewrite !app_nil_r. reflexivity.
Qed.

Theorem c09_model_meets_oracle c : c09_in_domain c = true -> c09_oracle c (c09_expected c) = true.
Proof.
  destruct c as [raw off runes strs words]. intros H. unfold c09_oracle. rewrite H. cbn [negb orb].
  unfold c09_in_domain in H.
  repeat (apply andb_true_iff in H; let H' := fresh "D" in destruct H as (H & H')).
  set (r := new_reader raw off).
  assert (Ho : 1 <= r_offset r) by (cbn [r new_reader r_offset]; lia).
  assert (Hb : bytes_ok (r_data r)) by (apply normalize_bytes_ok, bytes_okb_ok; assumption).
  assert (Hr : Forall (fun ch => valid_rune ch = true) runes) by (apply Forall_forall, forallb_forall; assumption).
  assert (Hs : Forall (fun s : list N => s <> []) strs).
  { apply Forall_forall. intros s Hin. rewrite forallb_forall in D0. specialize (D0 s Hin).
    intros ->. cbn in D0. discriminate D0. }
  assert (Hw : Forall ascii_word words).
  { apply Forall_forall. intros w Hin. rewrite forallb_forall in D. specialize (D w Hin).
    apply andb_true_iff in D. destruct D as (Dn & Da). split.
    - intros ->. cbn in Dn. discriminate Dn.
    - apply Forall_forall. intros b Hb'. rewrite forallb_forall in Da. specialize (Da b Hb'). lia. }
  assert (E : c09_expected (C09 raw off runes strs words) =
              OL (map OS (map (fun p => spec_obs_at (r_data r) off p runes strs words) (positions_of r)))).
  { unfold c09_expected. fold r. f_equal. rewrite map_map. apply map_ext_in. intros p Hin.
    rewrite model_obs_is_spec; try assumption; [reflexivity|apply positions_in_file; exact Hin]. }
  rewrite E. rewrite <- (map_map (fun p => spec_obs_at (r_data r) off p runes strs words) OS).
  apply obs_eqb_OS_list.
Qed.

(* the reader of a file as NewFile + SetOffset build it (FileSet.v) *)
Lemma new_reader_of_file name raw off :
  reader_of_file (set_offset (new_file name raw) off) = new_reader raw off.
Proof. reflexivity. Qed.

Lemma new_reader_bytes_ok raw off : bytes_ok raw -> bytes_ok (r_data (new_reader raw off)).
Proof. intros H. cbn [new_reader r_data]. apply normalize_bytes_ok. exact H. Qed.

(* a primitive's result position is again a position of the file *)
Lemma in_file_intro r pos p' : in_file r pos -> pos <= p' -> p' <= r_offset r + r_len r -> in_file r p'.
Proof. unfold in_file. lia. Qed.

(* ================================================================== *)
(* Model-level corollaries: a match moves by the matched length and     *)
(* stays inside the file, a mismatch returns the original position      *)

Theorem read_rune_moves r pos ch p' ok : bytes_ok (r_data r) -> in_file r pos -> valid_rune ch = true ->
  read_rune r pos ch = Ok (p', ok) ->
  (ok = false -> p' = pos) /\
  (ok = true -> pos < p' /\ p' <= r_offset r + r_len r /\ (ch <> rune_error -> p' = pos + len_N (encode_rune ch))).
Proof.
  intros Hb Hd Hv. rewrite read_rune_spec by assumption. intros H; injection H as H.
  destruct Hd as (H1 & H2). eapply spec_read_rune_moves; eauto.
Qed.

Theorem match_string_moves r pos str p' ok : in_file r pos -> str <> [] ->
  match_string r pos str = Ok (p', ok) ->
  (ok = false -> p' = pos) /\ (ok = true -> p' = pos + len_N str /\ p' <= r_offset r + r_len r).
Proof.
  intros Hd Hs. rewrite match_string_spec by assumption. intros H; injection H as H.
  destruct Hd as (H1 & H2). eapply spec_match_string_moves; eauto.
Qed.

Theorem match_word_moves r pos word p' ok : in_file r pos -> ascii_word word ->
  match_word r pos word = Ok (p', ok) ->
  (ok = false -> p' = pos) /\ (ok = true -> p' = pos + len_N word /\ p' <= r_offset r + r_len r).
Proof.
  intros Hd Hs. rewrite match_word_spec by assumption. intros H; injection H as H.
  destruct Hd as (H1 & H2). eapply spec_match_word_moves; eauto.
Qed.

Theorem read_regexp_moves matcher r pos p' v : in_file r pos -> matcher_ok matcher ->
  read_regexp matcher r pos = Ok (p', v) ->
  (v = None -> p' = pos) /\
  (forall m, v = Some m -> p' = pos + len_N m /\ p' <= r_offset r + r_len r /\
                           starts_with (suffix (r_data r) (pos - r_offset r)) m).
Proof.
  intros Hd Hm. rewrite read_regexp_spec by assumption. intros H; injection H as H.
  destruct Hd as (H1 & H2). eapply spec_read_regexp_moves; eauto.
Qed.

Theorem read_regexp_submatch_moves sm r pos p' v : in_file r pos -> smatcher_ok sm ->
  read_regexp_submatch sm r pos = Ok (p', v) ->
  (v = None -> p' = pos) /\
  (forall gs, v = Some gs -> exists m rest, gs = Some m :: rest /\ p' = pos + len_N m /\ p' <= r_offset r + r_len r).
Proof.
  intros Hd Hm. rewrite read_regexp_submatch_spec by assumption. intros H; injection H as H.
  destruct Hd as (H1 & H2). eapply spec_read_regexp_submatch_moves; eauto.
Qed.

Theorem readf_moves f r pos p' v : in_file r pos -> callback_ok f ->
  readf f r pos = Ok (p', v) ->
  pos <= p' /\ p' <= r_offset r + r_len r /\ len_opt v <= p' - pos /\ (p' = pos -> v = None).
Proof.
  intros Hd Hf. rewrite readf_spec by assumption. intros H; injection H as H.
  destruct Hd as (H1 & H2).
  destruct (spec_readf_moves f (r_data r) (r_offset r) pos p' v Hf H1 H2 H) as (A & B & C & D & _).
  auto.
Qed.

(* ReadRune with U+FFFD itself: it matches a literal EF BF BD (3 bytes) or exactly one byte
   that starts no well-formed encoding; it does not match a well-formed other rune or EOF *)
Theorem read_rune_error_spec r pos : bytes_ok (r_data r) -> in_file r pos ->
  let s := suffix (r_data r) (pos - r_offset r) in
  (s = [] -> read_rune r pos rune_error = Ok (pos, false)) /\
  (starts_with s [239; 191; 189] -> read_rune r pos rune_error = Ok (pos + 3, true)) /\
  (s <> [] -> (forall c, valid_rune c = true -> ~ starts_with s (encode_rune c)) ->
   read_rune r pos rune_error = Ok (pos + 1, true)) /\
  (forall c, valid_rune c = true -> c <> rune_error -> starts_with s (encode_rune c) ->
   read_rune r pos rune_error = Ok (pos, false)).
Proof.
  intros Hb Hd s. rewrite read_rune_spec by (auto; reflexivity).
  unfold spec_read_rune. fold s. rewrite N.eqb_refl.
  split; [intros ->; reflexivity|]. split; [|split].
  - intros (rest & E). rewrite E.
    change ([239; 191; 189] ++ rest) with (encode_rune rune_error ++ rest).
    rewrite decode_encode by reflexivity. reflexivity.
  - intros Hne Hno. destruct s as [|b t] eqn:Es; [congruence|]. rewrite <- Es in *.
    apply decode_error_iff in Hno; [|congruence]. rewrite Es, <- Es. rewrite Hno. reflexivity.
  - intros c Hv Hne (rest & E). rewrite E. rewrite decode_encode by exact Hv.
    destruct (encode_rune c ++ rest) eqn:Ex.
    + exfalso. apply (encode_rune_nonempty c). destruct (encode_rune c); [reflexivity|discriminate Ex].
    + destruct (c =? rune_error) eqn:Ec; [lia|reflexivity].
Qed.

(* ================================================================== *)
(* Non-vacuity: concrete instances inside the domain                    *)

Definition ex_reader : reader := new_reader [97; 98; 32; 13; 10; 9; 195; 169; 226; 130; 195] 17.
(* normalised: a b SP LF TAB C3 A9 E2 82 C3, positions 17..27 *)
Example ex_in_file : in_file ex_reader 27 /\ bytes_ok (r_data ex_reader) /\ 1 <= r_offset ex_reader.
Proof. split; [unfold in_file; cbn; lia|]. split; [apply bytes_okb_ok; reflexivity|cbn; lia]. Qed.
Example ex_rune_match : read_rune ex_reader 22 233 = Ok (24, true).            (* é *)
Proof. vm_compute. reflexivity. Qed.
Example ex_rune_truncated : read_rune ex_reader 26 233 = Ok (26, false).       (* C3 at EOF *)
Proof. vm_compute. reflexivity. Qed.
Example ex_rune_error : read_rune ex_reader 24 rune_error = Ok (25, true).     (* E2 82 C3: ill-formed, width 1 *)
Proof. vm_compute. reflexivity. Qed.
Example ex_rune_eof : read_rune ex_reader 27 97 = Ok (27, false).
Proof. vm_compute. reflexivity. Qed.
Example ex_word_eof : match_word (new_reader [97; 98] 5) 5 [97; 98] = Ok (7, true).
Proof. vm_compute. reflexivity. Qed.
Example ex_word_followed : match_word ex_reader 17 [97] = Ok (17, false).      (* "a" followed by "b" *)
Proof. vm_compute. reflexivity. Qed.
Example ex_string : match_string ex_reader 17 [97; 98; 32; 10] = Ok (21, true). (* CRLF was normalised *)
Proof. vm_compute. reflexivity. Qed.
Example ex_ws_spaces : skip_whitespaces ex_reader 19 WsSpaces = Ok (22, Some (20, WsNlNotAllowed)).
Proof. vm_compute. reflexivity. Qed.
Example ex_ws_force : skip_whitespaces ex_reader 21 WsSpacesForceNl = Ok (22, Some (22, WsExpectNl)).
Proof. vm_compute. reflexivity. Qed.
Example ex_ws_none : skip_whitespaces ex_reader 19 WsNone = Ok (22, Some (19, WsNotAllowed)).
Proof. vm_compute. reflexivity. Qed.
Example ex_regexp : read_regexp rx_astar_b ex_reader 17 = Ok (19, Some [97; 98]).
Proof. vm_compute. reflexivity. Qed.
Example ex_readf : readf cb_ax ex_reader 17 = Ok (19, Some [88]).
Proof. vm_compute. reflexivity. Qed.
(* outside the domain the model does report the panics: an empty string, a non-ASCII word,
   a callback that returns more than it was given *)
Example ex_panic_empty : match_string ex_reader 17 [] = Panic.
Proof. reflexivity. Qed.
Example ex_panic_word : match_word ex_reader 22 [195; 169] = Panic.
Proof. vm_compute. reflexivity. Qed.
Example ex_panic_readf : readf (fun s => (None, len_N s + 1)) ex_reader 17 = Panic.
Proof. vm_compute. reflexivity. Qed.
