(* DataHeap.v — heap-level model of data/intset.go and data/intmap.go (every
   function, statement by statement, on the Go heap of GoHeap.v), histories of
   operations, the abstract specification (mathematical sets and maps as
   canonical lists) and the C15 harness.  No proofs here (DataProofs.v).

   Go source modelled (line numbers of /repo/data):
     intset.go 14 EmptyIntSet, 23-29 NewIntSet, 32-34 Len, 37-45 Insert (repaired:
     copies the slice), 47-55 insertValue, 58-80 Union, 83-87 Each;
     intmap.go 10 EmptyIntMap, 19-24 NewIntMap, 26-32 clone, 35-37 Get, 40-48 Keys,
     51-59 Inc, 62-70 Filter, 73-77 Each.
   Also the ORIGINAL Insert (before commit 50f74e9: `i2 := i`), kept as
   [set_insert_pinned] so that the persistence theorem can be shown to fail for it. *)
From Coq Require Import String List NArith ZArith Bool Arith.
From Parsley Require Import Obs Base GoHeap.
Import ListNotations.
Local Open Scope nat_scope.

(* ================================================================== *)
(* Specification: sets are strictly ascending lists, maps are association lists
   with strictly ascending keys; the mathematical operations on them.
   (DataProofs.v characterises them by membership / lookup.) *)

Fixpoint set_insert (v : Z) (l : list Z) : list Z :=
  match l with
  | [] => [v]
  | x :: t => if (v <? x)%Z then v :: l else if (v =? x)%Z then l else x :: set_insert v t
  end.
Definition set_of_list (vals : list Z) : list Z := fold_left (fun acc v => set_insert v acc) vals [].
Definition set_union (a b : list Z) : list Z := fold_left (fun acc v => set_insert v acc) b a.
Definition set_mem (v : Z) (l : list Z) : bool := existsb (Z.eqb v) l.

Definition map_of_list (kvs : amap) : amap := fold_left (fun acc kv => amap_set acc (fst kv) (snd kv)) kvs [].
Definition abs_inc (m : amap) (k : Z) : amap :=
  amap_set m k (match amap_get m k with Some v => (v + 1)%Z | None => 1%Z end).
Definition abs_filter (m : amap) (s : list Z) : amap := filter (fun kv => set_mem (fst kv) s) m.
Definition abs_get (m : amap) (k : Z) : Z := match amap_get m k with Some v => v | None => 0%Z end.

Inductive avalue := ASet (l : list Z) | AMap (m : amap).

(* ================================================================== *)
(* Histories.  Arguments refer to earlier results by index into the list of all values
   produced so far; values 0 and 1 are the package-level data.EmptyIntSet and
   data.EmptyIntMap. *)

Definition z (x : Z) : Z := x.      (* lets case files write signed literals inside lists *)

Inductive op :=
| OpNewSet (vals : list Z)          (* data.NewIntSet(vals...) *)
| OpInsert (i : N) (v : Z)          (* value[i].Insert(v) *)
| OpUnion (i j : N)                 (* value[i].Union(value[j]) *)
| OpLen (i : N)                     (* value[i].Len() *)
| OpEachS (i : N)                   (* value[i].Each(f): the sequence of calls of f *)
| OpNewMapNil                       (* data.NewIntMap(nil) *)
| OpNewMap (kvs : amap)             (* data.NewIntMap(a fresh map with these entries, later wins) *)
| OpInc (i : N) (k : Z)             (* value[i].Inc(k) *)
| OpFilter (i j : N)                (* value[i].Filter(value[j]) *)
| OpGet (i : N) (k : Z)             (* value[i].Get(k) *)
| OpKeys (i : N)                    (* value[i].Keys(), as a bag *)
| OpEachM (i : N).                  (* value[i].Each(f): the calls of f, as a bag *)

(* what an operation returns besides a new value *)
Inductive result := RNone | RInt (n : Z) | RList (l : list Z) | RKeys (l : list Z) | RPairs (l : amap).

Definition aget_set (avs : list avalue) (i : N) : option (list Z) :=
  match nth_error avs (N.to_nat i) with Some (ASet l) => Some l | _ => None end.
Definition aget_map (avs : list avalue) (i : N) : option amap :=
  match nth_error avs (N.to_nat i) with Some (AMap m) => Some m | _ => None end.
Definition opt_bind {A B} (o : option A) (f : A -> option B) : option B :=
  match o with Some a => f a | None => None end.

(* the abstract machine: values are only ever ADDED, never changed.  None = the history
   refers to a value that does not exist or has the wrong kind. *)
Definition astep (avs : list avalue) (o : op) : option (list avalue * result) :=
  match o with
  | OpNewSet vals => Some (avs ++ [ASet (set_of_list vals)], RNone)
  | OpInsert i v => opt_bind (aget_set avs i) (fun l => Some (avs ++ [ASet (set_insert v l)], RNone))
  | OpUnion i j => opt_bind (aget_set avs i) (fun a => opt_bind (aget_set avs j) (fun b =>
                     Some (avs ++ [ASet (set_union a b)], RNone)))
  | OpLen i => opt_bind (aget_set avs i) (fun l => Some (avs, RInt (Z.of_nat (length l))))
  | OpEachS i => opt_bind (aget_set avs i) (fun l => Some (avs, RList l))
  | OpNewMapNil => Some (avs ++ [AMap []], RNone)
  | OpNewMap kvs => Some (avs ++ [AMap (map_of_list kvs)], RNone)
  | OpInc i k => opt_bind (aget_map avs i) (fun m => Some (avs ++ [AMap (abs_inc m k)], RNone))
  | OpFilter i j => opt_bind (aget_map avs i) (fun m => opt_bind (aget_set avs j) (fun s =>
                      Some (avs ++ [AMap (abs_filter m s)], RNone)))
  | OpGet i k => opt_bind (aget_map avs i) (fun m => Some (avs, RInt (abs_get m k)))
  | OpKeys i => opt_bind (aget_map avs i) (fun m => Some (avs, RKeys (map fst m)))
  | OpEachM i => opt_bind (aget_map avs i) (fun m => Some (avs, RPairs m))
  end.
Definition ainit : list avalue := [ASet []; AMap []].
(* the abstract states after each step *)
Fixpoint arun (avs : list avalue) (ops : list op) : option (list avalue) :=
  match ops with
  | [] => Some avs
  | o :: t => opt_bind (astep avs o) (fun ar => arun (fst ar) t)
  end.

(* ================================================================== *)
(* The Go code on the heap. *)

(* sort.Search(n, f): i, j := 0, n; for i < j { h := (i+j)/2; if !f(h) { i = h+1 } else { j = h } };
   sort.SearchInts(a, x) uses f(h) = a[h] >= x.  a[h] out of range is a Go panic. *)
Fixpoint bsearch (fuel : nat) (l : list Z) (x : Z) (i j : nat) : outcome nat :=
  if i <? j then
    match fuel with
    | O => OutOfFuel
    | S k =>
      let h := (i + j) / 2 in
      match nth_error l h with
      | None => Panic
      | Some v => if (v <? x)%Z then bsearch k l x (S h) j else bsearch k l x i h
      end
    end
  else Ok i.
Definition search_ints (h : heap) (s : slice) (x : Z) : outcome nat :=
  do l <- sl_read h s; bsearch (S (length l)) l x 0 (length l).

Inductive value := VSet (s : slice) | VMap (m : nat).    (* IntSet{data}, IntMap{data} *)
Record state := mkstate { st_heap : heap; st_vals : list value }.

Section Model.
  Variable grow : nat -> nat.        (* capacity chosen by append when it reallocates *)
  Variable order : amap -> amap.     (* iteration order of range over a map *)

  (* func (i *IntSet) insertValue(val int) — the updated header is returned *)
  Definition insert_value (h : heap) (s : slice) (val : Z) : outcome (heap * slice) :=
    do index <- search_ints h s val;                                   (* 48 *)
    do hit <- (if index <? s_len s                                     (* 49 *)
               then do x <- sl_index h s index; Ok (x =? val)%Z
               else Ok false);
    if hit then Ok (h, s)                                              (* 50 *)
    else
      do (h1, s1) <- sl_append grow h s 0%Z;                           (* 52 *)
      do dst <- sl_from s1 (index + 1);                                (* 53 *)
      do src <- sl_from s1 index;
      do h2 <- sl_copy h1 dst src;
      do h3 <- sl_store h2 s1 index val;                               (* 54 *)
      Ok (h3, s1).

  Fixpoint insert_all (h : heap) (s : slice) (vals : list Z) : outcome (heap * slice) :=
    match vals with
    | [] => Ok (h, s)
    | v :: t => do (h', s') <- insert_value h s v; insert_all h' s' t
    end.
  (* func NewIntSet(values ...int) IntSet *)
  Definition new_int_set (h : heap) (vals : list Z) : outcome (heap * slice) :=
    do (h1, s) <- sl_make h 0 (length vals);                           (* 24 *)
    insert_all h1 s vals.                                              (* 25-27 *)

  (* func (i IntSet) Insert(val int) IntSet — as repaired by commit 50f74e9 *)
  Definition set_insert_fixed (h : heap) (s : slice) (val : Z) : outcome (heap * slice) :=
    if s_len s =? 0 then Ok (sl_lit1 h val)                            (* 38-40 *)
    else
      do (h1, s2) <- sl_make h (s_len s) (S (s_len s));                (* 41 *)
      do h2 <- sl_copy h1 s2 s;                                        (* 42 *)
      insert_value h2 s2 val.                                          (* 43 *)
  (* the original: i2 := i; i2.insertValue(val) — shares the receiver's array *)
  Definition set_insert_pinned (h : heap) (s : slice) (val : Z) : outcome (heap * slice) :=
    if s_len s =? 0 then Ok (sl_lit1 h val)
    else insert_value h s val.

  (* the loop of Union, lines 66-78; each turn advances n1 or n2 *)
  Fixpoint union_loop (fuel : nat) (h : heap) (s1 s2 s3 : slice) (n1 n2 : nat) : outcome (heap * slice) :=
    if (n1 <? s_len s1) || (n2 <? s_len s2) then
      match fuel with
      | O => OutOfFuel
      | S f =>
        do c1 <- (if s_len s2 <=? n2 then Ok true                      (* 67 *)
                  else if n1 <? s_len s1
                       then do x <- sl_index h s1 n1; do y <- sl_index h s2 n2; Ok (x <? y)%Z
                       else Ok false);
        if c1 then
          do x <- sl_index h s1 n1;                                    (* 68 *)
          do (h', s3') <- sl_append grow h s3 x;
          union_loop f h' s1 s2 s3' (S n1) n2
        else
          do c2 <- (if s_len s1 <=? n1 then Ok true                    (* 70 *)
                    else if n2 <? s_len s2
                         then do y <- sl_index h s2 n2; do x <- sl_index h s1 n1; Ok (y <? x)%Z
                         else Ok false);
          if c2 then
            do y <- sl_index h s2 n2;                                  (* 71 *)
            do (h', s3') <- sl_append grow h s3 y;
            union_loop f h' s1 s2 s3' n1 (S n2)
          else
            do x <- sl_index h s1 n1;                                  (* 74 *)
            do (h', s3') <- sl_append grow h s3 x;
            union_loop f h' s1 s2 s3' (S n1) (S n2)
      end
    else Ok (h, s3).
  (* func (i IntSet) Union(i2 IntSet) IntSet *)
  Definition set_union_heap (h : heap) (s1 s2 : slice) : outcome (heap * slice) :=
    if s_len s2 =? 0 then Ok (h, s1)                                   (* 59-60: the operand itself *)
    else if s_len s1 =? 0 then Ok (h, s2)                              (* 61-62 *)
    else
      do (h1, s3) <- sl_make h 0 (s_len s1 + s_len s2);                (* 64 *)
      union_loop (S (s_len s1 + s_len s2)) h1 s1 s2 s3 0 0.

  (* Len, Each *)
  Definition set_len (s : slice) : Z := Z.of_nat (s_len s).
  Definition set_each (h : heap) (s : slice) : outcome (list Z) := sl_read h s.

  (* func (i IntMap) clone() IntMap *)
  Fixpoint store_all (h : heap) (m : nat) (es : amap) : outcome heap :=
    match es with
    | [] => Ok h
    | (k, v) :: t => do h' <- map_store h m k v; store_all h' m t
    end.
  Definition map_clone (h : heap) (m : nat) : outcome (heap * nat) :=
    do _n <- map_len h m;                                              (* 27: size hint only *)
    let (h1, m2) := map_make h in
    do es <- map_range order h1 m;                                     (* 28 *)
    do h2 <- store_all h1 m2 es;                                       (* 29 *)
    Ok (h2, m2).
  (* func (i IntMap) Inc(val int) IntMap *)
  Definition map_inc (h : heap) (m : nat) (k : Z) : outcome (heap * nat) :=
    do (h1, m2) <- map_clone h m;                                      (* 52 *)
    do r <- map_lookup h1 m2 k;                                        (* 53 *)
    match r with
    | None => do h2 <- map_store h1 m2 k 1%Z; Ok (h2, m2)              (* 54 *)
    | Some v => do h2 <- map_store h1 m2 k (v + 1)%Z; Ok (h2, m2)      (* 56 *)
    end.
  (* func (i IntMap) Filter(keys IntSet) IntMap *)
  Fixpoint filter_loop (h : heap) (m m2 : nat) (keys : list Z) : outcome heap :=
    match keys with
    | [] => Ok h
    | k :: t =>
      do r <- map_lookup h m k;                                        (* 65 *)
      match r with
      | Some v => do h' <- map_store h m2 k v; filter_loop h' m m2 t   (* 66 *)
      | None => filter_loop h m m2 t
      end
    end.
  Definition map_filter (h : heap) (m : nat) (s : slice) : outcome (heap * nat) :=
    let (h1, m2) := map_make h in                                      (* 63: NewIntMap(nil) *)
    do ks <- set_each h1 s;                                            (* 64: keys.Each *)
    do h2 <- filter_loop h1 m m2 ks;
    Ok (h2, m2).
  (* Get *)
  Definition map_get (h : heap) (m : nat) (k : Z) : outcome Z :=
    do r <- map_lookup h m k; Ok (match r with Some v => v | None => 0%Z end).
  (* func (i IntMap) Keys() []int *)
  Fixpoint keys_loop (h : heap) (s : slice) (n : nat) (es : amap) : outcome heap :=
    match es with
    | [] => Ok h
    | (k, _) :: t => do h' <- sl_store h s n k; keys_loop h' s (S n) t (* 45-46 *)
    end.
  Definition map_keys (h : heap) (m : nat) : outcome (heap * list Z) :=
    do n <- map_len h m;
    do (h1, s) <- sl_make h n n;                                       (* 42 *)
    do es <- map_range order h1 m;                                     (* 43 *)
    do h2 <- keys_loop h1 s 0 es;
    do l <- sl_read h2 s;
    Ok (h2, l).
  (* Each *)
  Definition map_each (h : heap) (m : nat) : outcome amap := map_range order h m.

  (* ---------------- histories ---------------- *)

  Definition get_set (st : state) (i : N) : outcome slice :=
    match nth_error (st_vals st) (N.to_nat i) with Some (VSet s) => Ok s | _ => Panic end.
  Definition get_mapv (st : state) (i : N) : outcome nat :=
    match nth_error (st_vals st) (N.to_nat i) with Some (VMap m) => Ok m | _ => Panic end.
  Definition push (st : state) (h : heap) (v : value) : state := mkstate h (st_vals st ++ [v]).

  (* [ins] is the Insert under test: set_insert_fixed (the code) or set_insert_pinned *)
  Definition step_with (ins : heap -> slice -> Z -> outcome (heap * slice))
             (st : state) (o : op) : outcome (state * result) :=
    let h := st_heap st in
    match o with
    | OpNewSet vals => do (h', s) <- new_int_set h vals; Ok (push st h' (VSet s), RNone)
    | OpInsert i v => do s <- get_set st i; do (h', s') <- ins h s v; Ok (push st h' (VSet s'), RNone)
    | OpUnion i j => do a <- get_set st i; do b <- get_set st j;
                     do (h', s') <- set_union_heap h a b; Ok (push st h' (VSet s'), RNone)
    | OpLen i => do s <- get_set st i; Ok (st, RInt (set_len s))
    | OpEachS i => do s <- get_set st i; do l <- set_each h s; Ok (st, RList l)
    | OpNewMapNil => let (h', m) := map_make h in Ok (push st h' (VMap m), RNone)
    | OpNewMap kvs => let (h', m) := map_alloc h (map_of_list kvs) in Ok (push st h' (VMap m), RNone)
    | OpInc i k => do m <- get_mapv st i; do (h', m') <- map_inc h m k; Ok (push st h' (VMap m'), RNone)
    | OpFilter i j => do m <- get_mapv st i; do s <- get_set st j;
                      do (h', m') <- map_filter h m s; Ok (push st h' (VMap m'), RNone)
    | OpGet i k => do m <- get_mapv st i; do v <- map_get h m k; Ok (st, RInt v)
    | OpKeys i => do m <- get_mapv st i; do (h', l) <- map_keys h m; Ok (mkstate h' (st_vals st), RKeys l)
    | OpEachM i => do m <- get_mapv st i; do l <- map_each h m; Ok (st, RPairs l)
    end.
  Definition step := step_with set_insert_fixed.

  (* package initialisation: EmptyIntSet = NewIntSet(), EmptyIntMap = IntMap{make(map[int]int)} *)
  Definition init_state : outcome state :=
    do (h, s) <- new_int_set empty_heap [];
    let (h', m) := map_make h in
    Ok (mkstate h' [VSet s; VMap m]).

  Fixpoint run_with ins (st : state) (ops : list op) : outcome state :=
    match ops with
    | [] => Ok st
    | o :: t => do (st', _r) <- step_with ins st o; run_with ins st' t
    end.
  Definition run := run_with set_insert_fixed.
  Definition run_history (ops : list op) : outcome state := do st <- init_state; run st ops.
End Model.

(* ---------------- abstraction ---------------- *)

(* the cells a slice header sees *)
Definition view (h : heap) (s : slice) : list Z :=
  match nth_error (h_arrs h) (s_arr s) with
  | Some a => window a (s_off s) (s_len s)
  | None => []
  end.
Definition abs_val (h : heap) (v : value) : avalue :=
  match v with
  | VSet s => ASet (view h s)
  | VMap m => AMap (match nth_error (h_maps h) m with Some e => e | None => [] end)
  end.
Definition abs_state (st : state) : list avalue := map (abs_val (st_heap st)) (st_vals st).

(* ================================================================== *)
(* Harness.  After EVERY step the driver re-reads ALL values returned so far through the public
   API (Len and Each for sets; Each and Keys, both sorted by key, and Get on the probe keys for
   maps) and compares each read with the read of the same value after the previous step.  The
   observation of a step is: the operation's own result, the read of the value it added (if any)
   and the list of (index, new read) of every OLDER value whose read changed — empty exactly
   when no earlier value was changed.  (Printing all reads after every step is the same
   information, quadratic in size.)  The observation starts with the reads of EmptyIntSet and
   EmptyIntMap before the first operation. *)

Inductive c15_case := C15 (probes : list Z) (ops : list op).

Definition obs_pairs (m : amap) : obs := OL (map (fun kv => OL [OZ (fst kv); OZ (snd kv)]) m).
Definition obs_zs (l : list Z) : obs := OL (map OZ l).
Definition obs_aval (probes : list Z) (a : avalue) : obs :=
  match a with
  | ASet l => OL [ON (N.of_nat (length l)); obs_zs l]
  | AMap m => OL [obs_pairs m; obs_zs (map fst m); obs_zs (map (abs_get m) probes)]
  end.
Definition obs_result (r : result) : obs :=
  match r with
  | RNone => OL []
  | RInt n => OZ n
  | RList l => obs_zs l
  | RKeys l => obs_zs l
  | RPairs l => obs_pairs l
  end.

(* reads that differ from the previous reads, with their index; then the reads of the new values *)
Fixpoint changed_from (i : N) (prev cur : list obs) : list obs :=
  match prev, cur with
  | p :: prev', c :: cur' =>
    if obs_eqb p c then changed_from (i + 1) prev' cur' else OL [ON i; c] :: changed_from (i + 1) prev' cur'
  | _ :: _, [] => [OT "Lost" [ON i]]         (* a value disappeared: cannot happen *)
  | [], _ => []
  end.
Definition obs_step (r : result) (prev cur : list obs) : obs :=
  OL [obs_result r; OL (skipn (length prev) cur); OL (changed_from 0 prev cur)].

(* the model's prediction: run the HEAP model (growth: doubling; map iteration: by key)
   and read every value back through the heap after each step *)
Definition h_grow (c : nat) : nat := c + c.
Definition h_order (m : amap) : amap := m.
Definition obs_val_heap (probes : list Z) (h : heap) (v : value) : obs :=
  match v with
  | VSet s => obs_outcome (fun l => OL [ON (N.of_nat (s_len s)); obs_zs l]) (set_each h s)
  | VMap m => obs_outcome (fun e =>
                OL [obs_pairs e; obs_zs (map fst e);
                    OL (map (fun k => obs_outcome OZ (map_get h m k)) probes)]) (map_each h_order h m)
  end.
Definition reads_heap (probes : list Z) (st : state) : list obs :=
  map (obs_val_heap probes (st_heap st)) (st_vals st).
Fixpoint heap_trace (probes : list Z) (st : state) (prev : list obs) (ops : list op) : list obs :=
  match ops with
  | [] => []
  | o :: t =>
    match step h_grow h_order st o with
    | Ok (st', r) =>
      let cur := reads_heap probes st' in
      obs_step r prev cur :: heap_trace probes st' cur t
    | Panic => [opanic]
    | OutOfFuel => [OT "OutOfFuel" []]
    end
  end.
Definition c15_expected (c : c15_case) : obs :=
  match c with
  | C15 probes ops =>
    match init_state h_grow with
    | Ok st => let r0 := reads_heap probes st in OL [OL r0; OL (heap_trace probes st r0 ops)]
    | _ => opanic
    end
  end.

(* the property itself: the ABSTRACT machine (pure sets and maps, no heap) *)
Fixpoint abs_trace (probes : list Z) (avs : list avalue) (prev : list obs) (ops : list op) : option (list obs) :=
  match ops with
  | [] => Some []
  | o :: t =>
    match astep avs o with
    | Some (avs', r) =>
      let cur := map (obs_aval probes) avs' in
      option_map (cons (obs_step r prev cur)) (abs_trace probes avs' cur t)
    | None => None
    end
  end.
Definition c15_oracle (c : c15_case) (o : obs) : bool :=
  match c with
  | C15 probes ops =>
    let r0 := map (obs_aval probes) ainit in
    match abs_trace probes ainit r0 ops with
    | Some l => obs_eqb (OL [OL r0; OL l]) o
    | None => true           (* ill-formed history (the generators never produce one): no claim *)
    end
  end.

Definition c15_harness : harness :=
  {| H_case := c15_case; H_expected := c15_expected; H_agree := obs_eqb; H_oracle := c15_oracle |}.
