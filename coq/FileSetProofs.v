(* FileSetProofs.v — the FileSet/File position model equals the line-feed-counting
   specification, for every list of files and every position (C11). *)
From Coq Require Import String List NArith Bool Lia Arith.
From Parsley Require Import Obs Base FileSet.
Import ListNotations.
Open Scope N_scope.

(* ---------- prefix scans used to state what the binary search returns ---------- *)

(* number of leading entries <= key; on ascending tables: index of the first entry > key *)
Fixpoint cnt_le (key : N) (tbl : list N) : N :=
  match tbl with [] => 0 | x :: t => if x <=? key then 1 + cnt_le key t else 0 end.
(* last of the leading entries <= key *)
Fixpoint last_le (key : N) (tbl : list N) (d : N) : N :=
  match tbl with [] => d | x :: t => if x <=? key then last_le key t x else d end.

Inductive ascending : list N -> Prop :=
| asc_nil : ascending []
| asc_one x : ascending [x]
| asc_cons x y t : x < y -> ascending (y :: t) -> ascending (x :: y :: t).

Lemma ascending_tail x t : ascending (x :: t) -> ascending t.
Proof. intros H; inversion H; subst; auto using asc_nil. Qed.

Lemma ascending_head_lt x t y : ascending (x :: t) -> In y t -> x < y.
Proof.
  revert x; induction t as [|z t IH]; intros x H Hin; [destruct Hin|].
  inversion H as [| |? ? ? Hlt Hasc]; subst.
  destruct Hin as [->|Hin]; [exact Hlt|].
  specialize (IH z Hasc Hin). lia.
Qed.

Lemma cnt_le_length key tbl : cnt_le key tbl <= len_N tbl.
Proof.
  unfold len_N; induction tbl as [|x t IH]; cbn [cnt_le length]; [lia|].
  destruct (x <=? key); lia.
Qed.

Lemma nth_N_cons_succ {A} (x : A) t k : nth_N (x :: t) (1 + k) = nth_N t k.
Proof. unfold nth_N. replace (N.to_nat (1 + k)) with (S (N.to_nat k)) by lia. reflexivity. Qed.

Lemma nth_N_zero {A} (x : A) t : nth_N (x :: t) 0 = Some x.
Proof. reflexivity. Qed.

(* entries below cnt_le are <= key *)
Lemma cnt_le_below key tbl k v : k < cnt_le key tbl -> nth_N tbl k = Some v -> v <= key.
Proof.
  revert k; induction tbl as [|x t IH]; intros k Hk Hn; cbn [cnt_le] in Hk; [lia|].
  destruct (x <=? key) eqn:E; [|lia].
  destruct (N.eq_dec k 0) as [->|Hk0].
  - rewrite nth_N_zero in Hn. inversion Hn; subst. apply N.leb_le; exact E.
  - replace k with (1 + (k - 1)) in Hn by lia. rewrite nth_N_cons_succ in Hn.
    apply (IH (k - 1)); [lia|exact Hn].
Qed.

(* on ascending tables entries at or above cnt_le are > key *)
Lemma cnt_le_above key tbl k v : ascending tbl -> cnt_le key tbl <= k -> nth_N tbl k = Some v -> key < v.
Proof.
  revert k; induction tbl as [|x t IH]; intros k Hasc Hk Hn.
  - unfold nth_N in Hn. destruct (N.to_nat k); discriminate.
  - cbn [cnt_le] in Hk. destruct (x <=? key) eqn:E.
    + destruct (N.eq_dec k 0) as [->|Hk0]; [lia|].
      replace k with (1 + (k - 1)) in Hn by lia. rewrite nth_N_cons_succ in Hn.
      apply (IH (k - 1)); [eapply ascending_tail; eauto|lia|exact Hn].
    + apply N.leb_gt in E.
      destruct (N.eq_dec k 0) as [->|Hk0].
      * rewrite nth_N_zero in Hn. inversion Hn; subst; exact E.
      * replace k with (1 + (k - 1)) in Hn by lia. rewrite nth_N_cons_succ in Hn.
        assert (In v t) by (unfold nth_N in Hn; eapply nth_error_In; eauto).
        pose proof (ascending_head_lt _ _ _ Hasc H). lia.
Qed.

Lemma nth_N_some {A} (l : list A) k : k < len_N l -> exists v, nth_N l k = Some v.
Proof.
  unfold nth_N, len_N; intros H.
  destruct (nth_error l (N.to_nat k)) eqn:E; [eauto|].
  apply nth_error_None in E. lia.
Qed.

(* ---------- Go's sort.Search returns the first index whose entry exceeds the key ---------- *)

Lemma bsearch_spec tbl key : ascending tbl ->
  forall fuel i j, i <= cnt_le key tbl -> cnt_le key tbl <= j -> j <= len_N tbl ->
    (N.to_nat (j - i) < fuel)%nat ->
    bsearch fuel tbl key i j = Ok (cnt_le key tbl).
Proof.
  intros Hasc; induction fuel as [|fuel IH]; intros i j Hi Hj Hlen Hf; [lia|].
  cbn [bsearch]. destruct (i <? j) eqn:Eij.
  - apply N.ltb_lt in Eij.
    assert (Hh : (i + j) / 2 < j) by (apply N.div_lt_upper_bound; lia).
    assert (Hh' : i <= (i + j) / 2) by (apply N.div_le_lower_bound; lia).
    destruct (nth_N_some tbl ((i + j) / 2)) as [v Hv]; [lia|].
    rewrite Hv. destruct (key <? v) eqn:Ekv.
    + apply N.ltb_lt in Ekv. apply IH; try lia.
      destruct (N.le_gt_cases (cnt_le key tbl) ((i + j) / 2)) as [Hc|Hc]; [exact Hc|].
      pose proof (cnt_le_below _ _ _ _ Hc Hv). lia.
    + apply N.ltb_ge in Ekv. apply IH; try lia.
      destruct (N.le_gt_cases (cnt_le key tbl) ((i + j) / 2)) as [Hc|Hc]; [|lia].
      pose proof (cnt_le_above _ _ _ _ Hasc Hc Hv). lia.
  - apply N.ltb_ge in Eij. f_equal. lia.
Qed.

Lemma search_gt_spec tbl key : ascending tbl -> search_gt tbl key = Ok (cnt_le key tbl).
Proof.
  intros H. pose proof (cnt_le_length key tbl) as Hl. unfold len_N in Hl.
  unfold search_gt. apply bsearch_spec; auto; unfold len_N; try lia.
Qed.

Lemma nth_cnt_last key tbl d : 0 < cnt_le key tbl ->
  nth_N tbl (cnt_le key tbl - 1) = Some (last_le key tbl d).
Proof.
  revert d; induction tbl as [|x t IH]; intros d H; cbn [cnt_le last_le] in *; [lia|].
  destruct (x <=? key) eqn:E; [|lia].
  destruct (N.eq_dec (cnt_le key t) 0) as [Hz|Hz].
  - rewrite Hz. replace (1 + 0 - 1) with 0 by lia. rewrite nth_N_zero.
    destruct t as [|y t']; cbn [last_le cnt_le] in *; [reflexivity|].
    destruct (y <=? key); [lia|reflexivity].
  - replace (1 + cnt_le key t - 1) with (1 + (cnt_le key t - 1)) by lia.
    rewrite nth_N_cons_succ. apply IH. lia.
Qed.

(* ---------- the line table ---------- *)

Lemma lines_from_gt off data y : In y (lines_from off data) -> off < y.
Proof.
  revert off; induction data as [|b t IH]; intros off Hin; cbn [lines_from] in Hin; [destruct Hin|].
  destruct (b =? 10).
  - destruct Hin as [<-|Hin]; [lia|]. specialize (IH _ Hin). lia.
  - specialize (IH _ Hin). lia.
Qed.

Lemma lines_from_ascending off data : ascending (lines_from off data).
Proof.
  revert off; induction data as [|b t IH]; intros off; cbn [lines_from]; [constructor|].
  destruct (b =? 10); [|apply IH].
  specialize (IH (off + 1)).
  destruct (lines_from (off + 1) t) as [|y l] eqn:E; [constructor|].
  constructor; [|exact IH].
  apply (lines_from_gt (off + 1) t). rewrite E. left; reflexivity.
Qed.

Lemma lines_of_ascending data : ascending (lines_of data).
Proof.
  unfold lines_of. pose proof (lines_from_ascending 0 data) as H.
  destruct (lines_from 0 data) as [|y l] eqn:E; [constructor|].
  constructor; [|exact H].
  apply (lines_from_gt 0 data). rewrite E. left; reflexivity.
Qed.

Lemma cnt_le_all_gt key tbl : (forall y, In y tbl -> key < y) -> cnt_le key tbl = 0.
Proof.
  destruct tbl as [|x t]; intros H; cbn [cnt_le]; [reflexivity|].
  specialize (H x (or_introl eq_refl)). destruct (x <=? key) eqn:E; [apply N.leb_le in E; lia|reflexivity].
Qed.

Lemma last_le_all_gt key tbl d : (forall y, In y tbl -> key < y) -> last_le key tbl d = d.
Proof.
  destruct tbl as [|x t]; intros H; cbn [last_le]; [reflexivity|].
  specialize (H x (or_introl eq_refl)). destruct (x <=? key) eqn:E; [apply N.leb_le in E; lia|reflexivity].
Qed.

Lemma lines_from_count data : forall off (c : nat),
  cnt_le (off + N.of_nat c) (lines_from off data) = count_lf (firstn c data).
Proof.
  induction data as [|b t IH]; intros off c.
  - destruct c; reflexivity.
  - destruct c as [|c].
    + cbn [firstn count_lf]. apply cnt_le_all_gt. intros y Hy.
      apply lines_from_gt in Hy. lia.
    + cbn [firstn count_lf lines_from]. destruct (b =? 10).
      * cbn [cnt_le]. replace (off + 1 <=? off + N.of_nat (S c)) with true by (symmetry; apply N.leb_le; lia).
        replace (off + N.of_nat (S c)) with ((off + 1) + N.of_nat c) by lia. rewrite IH. reflexivity.
      * replace (off + N.of_nat (S c)) with ((off + 1) + N.of_nat c) by lia. rewrite IH. lia.
Qed.

(* tail_len accumulates the distance from the last line start *)
Lemma lines_from_tail data : forall off d (c : nat), (c <= length data)%nat -> d <= off ->
  last_le (off + N.of_nat c) (lines_from off data) d + tail_len (firstn c data) (off - d) = off + N.of_nat c.
Proof.
  induction data as [|b t IH]; intros off d c Hc Hd.
  - cbn [length] in Hc. assert (c = 0%nat) by lia; subst c.
    cbn [firstn tail_len lines_from last_le]. lia.
  - destruct c as [|c].
    + cbn [firstn tail_len]. rewrite last_le_all_gt; [lia|].
      intros y Hy. apply lines_from_gt in Hy. lia.
    + cbn [length] in Hc. cbn [firstn tail_len lines_from]. destruct (b =? 10).
      * cbn [last_le]. replace (off + 1 <=? off + N.of_nat (S c)) with true by (symmetry; apply N.leb_le; lia).
        replace (off + N.of_nat (S c)) with ((off + 1) + N.of_nat c) by lia.
        specialize (IH (off + 1) (off + 1) c ltac:(lia) ltac:(lia)).
        replace (off + 1 - (off + 1)) with 0 in IH by lia. exact IH.
      * replace (off + N.of_nat (S c)) with ((off + 1) + N.of_nat c) by lia.
        specialize (IH (off + 1) d c ltac:(lia) ltac:(lia)).
        replace (off + 1 - d) with (off - d + 1) in IH by lia. exact IH.
Qed.

(* File.Position agrees with counting line feeds, for every position up to and including EOF *)
Theorem file_position_spec f pos : pos <= f_len f ->
  file_position f pos =
  Ok (Some {| p_name := f_name f; p_line := fst (spec_linecol (f_data f) pos);
              p_col := snd (spec_linecol (f_data f) pos) |}).
Proof.
  intros Hpos. unfold file_position.
  replace (f_len f <? pos) with false by (symmetry; apply N.ltb_ge; exact Hpos).
  rewrite search_gt_spec by apply lines_of_ascending. cbn [bind].
  set (data := f_data f) in *.
  assert (Hc : (N.to_nat pos <= length data)%nat) by (unfold f_len in Hpos; fold data in Hpos; lia).
  assert (Hcnt : cnt_le pos (lines_of data) = 1 + count_lf (firstn (N.to_nat pos) data)).
  { unfold lines_of. cbn [cnt_le]. replace (0 <=? pos) with true by (symmetry; apply N.leb_le; lia).
    pose proof (lines_from_count data 0 (N.to_nat pos)) as H.
    replace (0 + N.of_nat (N.to_nat pos)) with pos in H by lia. rewrite H. reflexivity. }
  rewrite Hcnt.
  replace (1 + count_lf (firstn (N.to_nat pos) data) =? 0) with false by (symmetry; apply N.eqb_neq; lia).
  rewrite <- Hcnt. rewrite (nth_cnt_last pos (lines_of data) 0) by lia.
  unfold spec_linecol. cbn [fst snd]. rewrite Hcnt.
  do 3 f_equal.
  - lia.
  - unfold lines_of. cbn [last_le]. replace (0 <=? pos) with true by (symmetry; apply N.leb_le; lia).
    pose proof (lines_from_tail data 0 0 (N.to_nat pos) Hc ltac:(lia)) as H.
    replace (0 + N.of_nat (N.to_nat pos)) with pos in H by lia.
    replace (0 - 0) with 0 in H by lia. lia.
Qed.

Theorem file_position_beyond f pos : f_len f < pos -> file_position f pos = Ok None.
Proof. intros H. unfold file_position. replace (f_len f <? pos) with true by (symmetry; apply N.ltb_lt; exact H). reflexivity. Qed.

(* ---------- the layout computed by AddFile ---------- *)

Fixpoint offsets_from (off : N) (files : list file) : list N :=
  match files with [] => [] | f :: t => off :: offsets_from (off + f_len f + 1) t end.
Fixpoint end_from (off : N) (files : list file) : N :=
  match files with [] => off | f :: t => end_from (off + f_len f + 1) t end.
Fixpoint placed_from (off : N) (files : list file) : list file :=
  match files with [] => [] | f :: t => set_offset f off :: placed_from (off + f_len f + 1) t end.

Lemma f_len_set_offset f o : f_len (set_offset f o) = f_len f.
Proof. reflexivity. Qed.

Lemma fold_add_file files : forall fs,
  fold_left add_file files fs =
  {| fs_pos := end_from (fs_pos fs) files;
     fs_files := fs_files fs ++ placed_from (fs_pos fs) files;
     fs_offset := fs_offset fs ++ offsets_from (fs_pos fs) files |}.
Proof.
  induction files as [|f t IH]; intros fs; cbn [fold_left end_from placed_from offsets_from].
  - destruct fs; cbn. rewrite !app_nil_r. reflexivity.
  - rewrite IH. unfold add_file; cbn [fs_pos fs_files fs_offset].
    rewrite <- !app_assoc. reflexivity.
Qed.

Lemma new_fileset_layout files :
  new_fileset files = {| fs_pos := end_from 1 files; fs_files := placed_from 1 files; fs_offset := offsets_from 1 files |}.
Proof. unfold new_fileset. rewrite fold_add_file. reflexivity. Qed.

Lemma offsets_from_ge off files y : In y (offsets_from off files) -> off <= y.
Proof.
  revert off; induction files as [|f t IH]; intros off Hin; cbn [offsets_from] in Hin; [destruct Hin|].
  destruct Hin as [<-|Hin]; [lia|]. specialize (IH _ Hin). lia.
Qed.

Lemma offsets_from_ascending off files : ascending (offsets_from off files).
Proof.
  revert off; induction files as [|f t IH]; intros off; cbn [offsets_from]; [constructor|].
  specialize (IH (off + f_len f + 1)).
  destruct (offsets_from (off + f_len f + 1) t) as [|y l] eqn:E; [constructor|].
  constructor; [|exact IH].
  assert (off + f_len f + 1 <= y) by (apply (offsets_from_ge _ t); rewrite E; left; reflexivity). lia.
Qed.

Lemma end_from_ge off files : off <= end_from off files.
Proof. revert off; induction files as [|f t IH]; intros off; cbn [end_from]; [lia|]. specialize (IH (off + f_len f + 1)). lia. Qed.

(* the binary search over base offsets finds the file the linear specification finds *)
Lemma locate_agree files : forall off p, off <= p -> p < end_from off files ->
  exists k f o, cnt_le p (offsets_from off files) = 1 + k /\
                nth_N (placed_from off files) k = Some (set_offset f o) /\
                nth_N (offsets_from off files) k = Some o /\
                spec_locate files off p = Some (f, p - o) /\ p - o <= f_len f.
Proof.
  induction files as [|f t IH]; intros off p Hoff Hend; cbn [end_from] in Hend; [lia|].
  cbn [offsets_from placed_from spec_locate cnt_le].
  replace (off <=? p) with true by (symmetry; apply N.leb_le; exact Hoff).
  replace (p <? off) with false by (symmetry; apply N.ltb_ge; exact Hoff).
  destruct (p <=? off + f_len f) eqn:E.
  - apply N.leb_le in E. exists 0, f, off.
    rewrite cnt_le_all_gt.
    + repeat split; try reflexivity; lia.
    + intros y Hy. apply offsets_from_ge in Hy. lia.
  - apply N.leb_gt in E.
    destruct (IH (off + f_len f + 1) p ltac:(lia) Hend) as (k & f' & o & H1 & H2 & H3 & H4 & H5).
    exists (1 + k), f', o. rewrite H1, !nth_N_cons_succ. repeat split; auto.
Qed.

Lemma spec_locate_none files : forall off p, end_from off files <= p -> off <= p -> spec_locate files off p = None.
Proof.
  induction files as [|f t IH]; intros off p Hend Hoff; cbn [spec_locate end_from] in *; [reflexivity|].
  replace (p <? off) with false by (symmetry; apply N.ltb_ge; exact Hoff).
  pose proof (end_from_ge (off + f_len f + 1) t).
  replace (p <=? off + f_len f) with false by (symmetry; apply N.leb_gt; lia).
  apply IH; lia.
Qed.

(* ---------- C11: the model equals the specification, for every file set and position ---------- *)

Theorem fs_position_spec files p :
  fs_position (new_fileset files) p = Ok (spec_position files p).
Proof.
  rewrite new_fileset_layout. unfold fs_position, spec_position. cbn [fs_pos fs_files fs_offset].
  destruct (p =? 0) eqn:E0; [reflexivity|]. apply N.eqb_neq in E0. cbn [orb].
  destruct (end_from 1 files <=? p) eqn:Eend.
  - apply N.leb_le in Eend. rewrite spec_locate_none by lia. reflexivity.
  - apply N.leb_gt in Eend.
    destruct (locate_agree files 1 p ltac:(lia) Eend) as (k & f & o & H1 & H2 & H3 & H4 & H5).
    rewrite search_gt_spec by apply offsets_from_ascending. cbn [bind]. rewrite H1.
    replace (1 + k =? 0) with false by (symmetry; apply N.eqb_neq; lia).
    replace (1 + k - 1) with k by lia. rewrite H2, H3, H4.
    rewrite file_position_spec by (rewrite f_len_set_offset; exact H5).
    cbn [f_name f_data set_offset]. destruct (spec_linecol (f_data f) (p - o)); reflexivity.
Qed.

(* every (file, offset) pair, offset from the first byte through EOF, translates back *)
Definition offset_of (files : list file) (i : nat) : N := end_from 1 (firstn i files).

Lemma end_from_app off a b : end_from off (a ++ b) = end_from (end_from off a) b.
Proof. revert off; induction a as [|f t IH]; intros off; cbn [app end_from]; [reflexivity|apply IH]. Qed.

Lemma spec_locate_hit files : forall off i f c, nth_error files i = Some f -> c <= f_len f ->
  spec_locate files off (end_from off (firstn i files) + c) = Some (f, c).
Proof.
  induction files as [|g t IH]; intros off i f c Hn Hc; [destruct i; discriminate|].
  destruct i as [|i]; cbn [nth_error firstn end_from spec_locate] in *.
  - inversion Hn; subst g.
    replace (off + c <? off) with false by (symmetry; apply N.ltb_ge; lia).
    replace (off + c <=? off + f_len f) with true by (symmetry; apply N.leb_le; lia).
    do 2 f_equal. lia.
  - pose proof (end_from_ge (off + f_len g + 1) (firstn i t)).
    replace (_ <? off) with false by (symmetry; apply N.ltb_ge; lia).
    replace (_ <=? off + f_len g) with false by (symmetry; apply N.leb_gt; lia).
    apply IH; assumption.
Qed.

Theorem position_roundtrip files i f c : nth_error files i = Some f -> c <= f_len f ->
  spec_position files (offset_of files i + c) =
  Some {| p_name := f_name f;
          p_line := 1 + count_lf (firstn (N.to_nat c) (f_data f));
          p_col := 1 + tail_len (firstn (N.to_nat c) (f_data f)) 0 |}.
Proof.
  intros Hn Hc. unfold spec_position, offset_of.
  pose proof (end_from_ge 1 (firstn i files)).
  replace (_ =? 0) with false by (symmetry; apply N.eqb_neq; lia).
  rewrite (spec_locate_hit files 1 i f c Hn Hc). reflexivity.
Qed.

(* files never overlap: the next base offset is this one plus length plus one *)
Theorem offsets_disjoint files i f : nth_error files i = Some f ->
  offset_of files (S i) = offset_of files i + f_len f + 1.
Proof.
  intros Hn. unfold offset_of.
  assert (firstn (S i) files = firstn i files ++ [f]) as ->.
  { revert i Hn; induction files as [|g t IH]; intros i Hn; [destruct i; discriminate|].
    destruct i; cbn in *; [inversion Hn; reflexivity|]. f_equal. apply IH. exact Hn. }
  rewrite end_from_app. reflexivity.
Qed.

Lemma offset_of_mono files i j f : (i < j)%nat -> nth_error files i = Some f ->
  offset_of files i + f_len f + 1 <= offset_of files j.
Proof.
  intros Hij Hn. induction j as [|j IH]; [lia|].
  destruct (Nat.eq_dec i j) as [->|Hne].
  - rewrite (offsets_disjoint files j f Hn). lia.
  - specialize (IH ltac:(lia)).
    destruct (nth_error files j) as [g|] eqn:Eg.
    + rewrite (offsets_disjoint files j g Eg). lia.
    + unfold offset_of in *. apply nth_error_None in Eg.
      rewrite (firstn_all2 (n:=S j) files) by lia. rewrite (firstn_all2 (n:=j) files) in IH by lia. exact IH.
Qed.

(* distinct (file, offset) pairs get distinct global positions *)
Theorem positions_injective files i j f g c d :
  nth_error files i = Some f -> nth_error files j = Some g -> c <= f_len f -> d <= f_len g ->
  offset_of files i + c = offset_of files j + d -> i = j /\ c = d.
Proof.
  intros Hi Hj Hc Hd Heq.
  destruct (Nat.lt_trichotomy i j) as [Hlt|[->|Hgt]].
  - pose proof (offset_of_mono files i j f Hlt Hi). lia.
  - split; [reflexivity|lia].
  - pose proof (offset_of_mono files j i g Hgt Hj). lia.
Qed.

(* position 0 and everything from the next free position on is unknown *)
Theorem position_unknown files p : p = 0 \/ end_from 1 files <= p -> spec_position files p = None.
Proof.
  intros [->|H]; unfold spec_position; [reflexivity|].
  destruct (p =? 0); [reflexivity|].
  pose proof (end_from_ge 1 files). rewrite spec_locate_none by lia. reflexivity.
Qed.

(* the base offsets AddFile hands to the files are offset_of *)
Theorem placed_offsets files i f : nth_error files i = Some f ->
  nth_error (fs_files (new_fileset files)) i = Some (set_offset f (offset_of files i)).
Proof.
  rewrite new_fileset_layout. cbn [fs_files]. unfold offset_of. generalize 1 as off.
  revert i; induction files as [|g t IH]; intros i off Hn; [destruct i; discriminate|].
  destruct i as [|i]; cbn [nth_error placed_from firstn end_from] in *.
  - inversion Hn; reflexivity.
  - apply IH. exact Hn.
Qed.

(* non-vacuity: a concrete two-file set *)
Example c11_example :
  let files := [new_file [102] [97; 13; 10; 98]; new_file [] [10]] in
  fs_position (new_fileset files) 3 = Ok (Some {| p_name := [102]; p_line := 2; p_col := 1 |}) /\
  fs_position (new_fileset files) 6 = Ok (Some {| p_name := []; p_line := 2; p_col := 1 |}) /\
  fs_position (new_fileset files) 7 = Ok None.
Proof. vm_compute. repeat split. Qed.
