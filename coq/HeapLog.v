(* HeapLog.v — an abstract log of the list operations the parser engine performs on Go slices
   (ast.NodeList values), and its replay on a minimal heap of backing arrays.  Definitions only.

   * A backing array is the list of the cells written so far; arrays are identified by their
     index in [hp_arrs], are never freed and never move.
   * A slice header is (array, len, cap) (NodeLists always start at cell 0); it reads the cells
     [0, len) and Go's [append] writes cell [len] IN PLACE iff len < cap, otherwise it allocates a
     fresh array of capacity [max (grow cap) (len+1)] for an ARBITRARY function [grow]
     (Go's growth policy is not part of the language: every theorem is for every [grow]).
   * Handles name header VALUES: [AppendNode(nil, n2)] returning [n2] itself is "the same handle"
     ([LAlias] exists for logs that prefer a new name).
   * Elements are values of an arbitrary type [A] (the engine instantiates nodes); the in-place
     mutation of a *node* (RightTrim, known finding K1) is the cell model at the end of
     HeapLogProofs.v, not this file: here [LSetRpos] only records that NodeList.SetReaderPos
     overwrote the visible cells of a header. *)
From Coq Require Import String List NArith Bool Arith.
From Parsley Require Import Obs Base.
Import ListNotations.
Open Scope N_scope.

Definition handle := N.
Record header := mkhdr { hd_arr : nat; hd_len : nat; hd_cap : nat }.

Section Log.
  Context {A : Type}.

  Inductive lop :=
  | LNew (h : handle) (elems : list A)               (* NodeList([]Node{...}): fresh array, len = cap = |elems| *)
  | LAppend (src dst : handle) (elems : list A)      (* n := src; n.Append(elems...) one cell at a time; dst names the final header *)
  | LAlias (src dst : handle)                        (* dst is the same header value as src *)
  | LClamp (src dst : handle)                        (* dst = src[:len(src):len(src)] *)
  | LStore (idx pos : N) (h : option handle)         (* ResultCache.Save of a result whose node is this list (None: nil or a single node) *)
  | LHit (idx pos : N) (h : option handle)           (* ResultCache.Get served this list *)
  | LSetRpos (h : handle) (elems : list A)           (* NodeList.SetReaderPos: the cells [0,len) of h are overwritten in place *)
  | LRet (h : option handle) (elems : list A)        (* ghost: a parser returned this value (None: nil or a single node) *)
  | LCurtail (idx pos : N).                          (* ghost: Memoize curtailed this call (returns nil; touches no list) *)

  (* ---------------- the heap ---------------- *)
  Record lheap := mkheap { hp_arrs : list (list A); hp_env : list (handle * header) }.
  Definition heap0 : lheap := mkheap [] [].

  Fixpoint hfind {B} (h : handle) (l : list (handle * B)) : option B :=
    match l with [] => None | (k, v) :: t => if h =? k then Some v else hfind h t end.
  Definition cells (arrs : list (list A)) (a : nat) : list A := nth a arrs [].
  Fixpoint upd_arr (arrs : list (list A)) (a : nat) (x : list A) : list (list A) :=
    match arrs, a with
    | [], _ => []
    | _ :: t, O => x :: t
    | y :: t, S k => y :: upd_arr t k x
    end.
  (* what a header reads *)
  Definition read_hdr (arrs : list (list A)) (hd : header) : list A := firstn (hd_len hd) (cells arrs (hd_arr hd)).
  Definition read (hp : lheap) (h : handle) : option (list A) :=
    match hfind h (hp_env hp) with Some hd => Some (read_hdr (hp_arrs hp) hd) | None => None end.

  Section Growth.
    Variable grow : nat -> nat.

    (* append(s, x) *)
    Definition append1 (arrs : list (list A)) (hd : header) (x : A) : list (list A) * header :=
      if (hd_len hd <? hd_cap hd)%nat then
        let c := cells arrs (hd_arr hd) in
        (upd_arr arrs (hd_arr hd) (firstn (hd_len hd) c ++ x :: skipn (S (hd_len hd)) c),
         mkhdr (hd_arr hd) (S (hd_len hd)) (hd_cap hd))
      else
        (arrs ++ [read_hdr arrs hd ++ [x]],
         mkhdr (length arrs) (S (hd_len hd)) (Nat.max (grow (hd_cap hd)) (S (hd_len hd)))).
    Fixpoint append_many (arrs : list (list A)) (hd : header) (xs : list A) : list (list A) * header :=
      match xs with
      | [] => (arrs, hd)
      | x :: t => let '(arrs', hd') := append1 arrs hd x in append_many arrs' hd' t
      end.

    Definition bind_h (hp : lheap) (arrs : list (list A)) (h : handle) (hd : header) : lheap :=
      mkheap arrs ((h, hd) :: hp_env hp).

    (* one operation; an operation whose source is unbound does nothing (the linearity check rejects such logs) *)
    Definition replay_step (hp : lheap) (o : lop) : lheap :=
      match o with
      | LNew h elems => bind_h hp (hp_arrs hp ++ [elems]) h (mkhdr (length (hp_arrs hp)) (length elems) (length elems))
      | LAppend src dst elems =>
        match hfind src (hp_env hp) with
        | Some hd => let '(arrs', hd') := append_many (hp_arrs hp) hd elems in bind_h hp arrs' dst hd'
        | None => hp
        end
      | LAlias src dst =>
        match hfind src (hp_env hp) with Some hd => bind_h hp (hp_arrs hp) dst hd | None => hp end
      | LClamp src dst =>
        match hfind src (hp_env hp) with
        | Some hd => bind_h hp (hp_arrs hp) dst (mkhdr (hd_arr hd) (hd_len hd) (hd_len hd))
        | None => hp
        end
      | LSetRpos h elems =>
        match hfind h (hp_env hp) with
        | Some hd => let c := cells (hp_arrs hp) (hd_arr hd) in
                     mkheap (upd_arr (hp_arrs hp) (hd_arr hd) (firstn (hd_len hd) elems ++ skipn (hd_len hd) c)) (hp_env hp)
        | None => hp
        end
      | LStore _ _ _ | LHit _ _ _ | LRet _ _ | LCurtail _ _ => hp
      end.
    Definition replay_from (hp : lheap) (log : list lop) : lheap := fold_left replay_step log hp.
    Definition replay (log : list lop) : lheap := replay_from heap0 log.
  End Growth.

  (* ---------------- linearity: a syntactic check, independent of the growth function ----------------
     Every header value is the source of at most one append that could write in place.  A header is
     TIGHT when its capacity equals its length by construction (slice literal, full-slice clamp): appending to it
     always reallocates, so it may be appended to any number of times.  Aliases (and appends of nothing) share
     the representative of their source, so appending through an alias counts against the same header.
     Handles must be fresh when bound and bound when used; SetReaderPos on a list is never linear. *)
  Record labs := mklabs { la_tab : list (handle * (handle * bool)); la_spent : list handle }.
  Definition labs0 : labs := mklabs [] [].
  Definition hmem (h : handle) (l : list handle) : bool := existsb (fun k => h =? k) l.
  Definition la_bound (s : labs) (h : handle) : bool := match hfind h (la_tab s) with Some _ => true | None => false end.
  Definition la_bind (s : labs) (h : handle) (v : handle * bool) : labs := mklabs ((h, v) :: la_tab s) (la_spent s).
  Definition opt_bound (s : labs) (h : option handle) : bool := match h with Some x => la_bound s x | None => true end.

  Definition lin_step (s : labs) (o : lop) : option labs :=
    match o with
    | LNew h _ => if la_bound s h then None else Some (la_bind s h (h, true))
    | LAppend src dst elems =>
      match hfind src (la_tab s) with
      | None => None
      | Some (r, tight) =>
        if la_bound s dst then None else
        match elems with
        | [] => Some (la_bind s dst (r, tight))
        | _ :: _ => if tight then Some (la_bind s dst (dst, false))
                    else if hmem r (la_spent s) then None
                    else Some (mklabs ((dst, (dst, false)) :: la_tab s) (r :: la_spent s))
        end
      end
    | LAlias src dst =>
      match hfind src (la_tab s) with
      | None => None
      | Some v => if la_bound s dst then None else Some (la_bind s dst v)
      end
    | LClamp src dst =>
      match hfind src (la_tab s) with
      | None => None
      | Some _ => if la_bound s dst then None else Some (la_bind s dst (dst, true))
      end
    | LStore _ _ h | LHit _ _ h | LRet h _ => if opt_bound s h then Some s else None
    | LCurtail _ _ => Some s
    | LSetRpos _ _ => None
    end.
  Fixpoint lin_from (s : labs) (log : list lop) : option labs :=
    match log with
    | [] => Some s
    | o :: t => match lin_step s o with Some s' => lin_from s' t | None => None end
    end.
  Definition lin_run (log : list lop) : option labs := lin_from labs0 log.
  Definition linear (log : list lop) : Prop := exists s, lin_run log = Some s.
  Definition linearb (log : list lop) : bool := match lin_run log with Some _ => true | None => false end.

  (* ---------------- what stability means ----------------
     [stable grow log]: cut the log anywhere; every handle bound after the first part reads, after the whole log,
     exactly what it read at the cut.  (A handle is bound once, by the operation that creates it, so this says:
     every header ever created still reads the list it denoted when it was created.) *)
  Definition stable (grow : nat -> nat) (log : list lop) : Prop :=
    forall l1 l2 h v, log = l1 ++ l2 -> read (replay grow l1) h = Some v -> read (replay grow log) h = Some v.

  (* ---------------- the list a handle denotes according to the log alone ----------------
     (no heap, no growth function: a slice literal denotes its elements, an append denotes the source's list followed by the
     appended cells, alias and clamp denote the source's list) *)
  Definition vals_step (vt : list (handle * list A)) (o : lop) : list (handle * list A) :=
    match o with
    | LNew h e => (h, e) :: vt
    | LAppend src dst e => match hfind src vt with Some v => (dst, v ++ e) :: vt | None => vt end
    | LAlias src dst | LClamp src dst => match hfind src vt with Some v => (dst, v) :: vt | None => vt end
    | _ => vt
    end.
  Definition vals_from (vt : list (handle * list A)) (log : list lop) : list (handle * list A) := fold_left vals_step log vt.
  Definition val_of (log : list lop) (h : handle) : option (list A) := hfind h (vals_from [] log).

  (* the executable form used in examples: the handles bound after a prefix whose reading differs at the end *)
  Definition changed_handles (eqb : A -> A -> bool) (grow : nat -> nat) (l1 l2 : list lop) : list handle :=
    let hp1 := replay grow l1 in
    let hp2 := replay_from grow hp1 l2 in
    let fix leqb (a b : list A) : bool :=
        match a, b with [], [] => true | x :: a', y :: b' => eqb x y && leqb a' b' | _, _ => false end in
    flat_map (fun kv => match read hp1 (fst kv), read hp2 (fst kv) with
                        | Some v1, Some v2 => if leqb v1 v2 then [] else [fst kv]
                        | _, _ => [fst kv]
                        end) (hp_env hp1).
End Log.
Arguments lop : clear implicits.
Arguments lheap : clear implicits.
