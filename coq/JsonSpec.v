(* JsonSpec.v — C16: a DIRECT specification of the concrete syntax accepted by the example JSON
   grammar of /repo/examples/json/json/parser.go, its value, and the C16 harness.  NO PROOFS here
   (JsonSpecProofs.v).

   The specification is derived from the GRAMMAR SOURCE, not from RFC 8259:

     value  = Choice(String(false), Float, Integer, array, object, Bool("true","false"), Nil("null"))
     array  = SeqOf('[', SepBy(LeftTrim(&value, WsSpacesNl), LeftTrim(',', WsSpaces)), LeftTrim(']', WsSpacesNl))
     member = SeqOf(String(false), LeftTrim(':', WsSpaces), LeftTrim(&value, WsSpacesNl))
     object = SeqOf('{', SepBy(LeftTrim(member, WsSpacesNl), LeftTrim(',', WsSpaces)), LeftTrim('}', WsSpacesNl))
     document = Sentence(Trim(value)) = SeqOf(RightTrim(LeftTrim(value, WsSpacesNl), WsSpacesNl), End)
     on the bytes of text.NewFile (CR LF replaced by LF).

   Whitespace (text/reader.go:175-196) is a maximal run of space, tab, LF, FF; mode WsSpaces
   rejects a run that contains LF or FF; mode WsSpacesNl accepts every run.  A lone CR is not
   whitespace.  The terminals are the C08 specifications of Literals.v (spec_string, spec_float,
   spec_integer, spec_bool, spec_nil), i.e. Go's escape syntax (strconv.UnquoteChar with the double
   quote), Go's float expression [-+]?[0-9]*\.[0-9]+([eE][-+]?[0-9]+)? and Go's integer expression
   with ParseInt base 0 (hexadecimal and octal), Bool/Nil as words.

   Three parts:
     1. values, [spec_parse : list N -> option value] (fuelled recursive descent; the fuel only
        bounds the nesting depth), [json_subset];
     2. [json_doc : value -> list N -> Prop], the same language as grammar rules;
     3. the harness [c16_harness]. *)
From Coq Require Import String List NArith ZArith Bool.
From Parsley Require Import Obs Base FileSet Utf8 Reader Regex Literals.
Import ListNotations.
Open Scope N_scope.

(* ================================================================== *)
(* 1. Values and the executable specification                          *)

Inductive value :=
| JNull
| JBool (b : bool)
| JInt (z : Z)                          (* an Integer literal: int64 *)
| JNum (lex : list N)                   (* a Float literal, kept as its lexeme (cf. json.Number) *)
| JStr (s : list N)                     (* the decoded bytes *)
| JArr (l : list value)
| JObj (kvs : list (list N * value)).   (* members in source order, duplicates kept; compared as a map, last wins *)

(* ---- strconv.ParseFloat's only error on a lexeme of the Float expression: the range error.
   The lexeme  sign? I '.' F ( e sign? X )?  denotes  M * 10^k  with M = the digits I F read as one
   number and k = (+-X) - |F|.  ParseFloat rounds to nearest-even and reports ErrRange exactly
   when the rounded value is infinite, i.e. when M * 10^k >= 2^1024 - 2^970 (the midpoint between
   the largest float64 and 2^1024 rounds up, to even).  Underflow is not an error. *)
Definition digits_N (l : list N) : N := fold_left (fun a c => a * 10 + (c - 48)) l 0.
Definition float_threshold : N := 2 ^ 1024 - 2 ^ 970.
Definition float_overflow (lex : list N) : bool :=
  let body := drop (sign_len lex) lex in
  let i := span is_digit body in
  let t := drop (i + 1) body in
  let f := span is_digit t in
  let mant := take i body ++ take f t in
  let e := drop f t in
  let m := digits_N mant in
  let x : Z :=
    match e with
    | _ :: t' => if exp_len e =? 0 then Z0
                 else let a := Z.of_N (digits_N (drop (sign_len t') t')) in
                      match t' with c :: _ => if c =? 45 then Z.opp a else a | [] => a end
    | [] => Z0
    end in
  let k : Z := Z.sub x (Z.of_N f) in
  if m =? 0 then false
  else if (0 <=? k)%Z then
    (if (310 <? k)%Z then true else float_threshold <=? m * 10 ^ Z.to_N k)
  else
    (if (Z.of_N (len_N mant) <? - k)%Z then false else float_threshold * 10 ^ Z.to_N (- k) <=? m).
(* the conversion handed to the C08 specification of Float: only success/failure matters here *)
Definition conv_range (lex : list N) : option N := if float_overflow lex then None else Some 0.

(* ---- the standard-JSON restrictions of the three lexical terminals (for [json_subset]) ---- *)
(* a string literal's raw body: no control character, only the escapes backslash + one of  quote \\ b f n r t u
   (everything else Go's syntax offers — \a \v \x \U \ooo — is not JSON); \/ and surrogate \u
   escapes are JSON but are rejected by the grammar itself *)
Fixpoint std_body (l : list N) : bool :=
  match l with
  | [] => true
  | c :: t =>
    if c <? 32 then false
    else if c =? 92 then
      match t with
      | e :: u => ((e =? 34) || (e =? 92) || (e =? 98) || (e =? 102) || (e =? 110) || (e =? 114) || (e =? 116)
                   || (e =? 117)) && std_body u
      | [] => false
      end
    else std_body t
  end.
Definition std_string_lex (lex : list N) : bool :=          (* lex = quote body quote *)
  let body := take (len_N lex - 2) (drop 1 lex) in std_body body && utf8_valid body.
(* '-'? ( 0 | nonzero digit* ) : no '+', no leading zero (octal), no hexadecimal *)
Definition std_int_part (body : list N) : bool :=
  let i := span is_digit body in
  (1 <=? i) && ((i =? 1) || negb (starts_with_byte 48 body)).
Definition std_number_lex (lex : list N) : bool :=
  match lex with
  | c :: t => if c =? 43 then false else std_int_part (if c =? 45 then t else lex)
  | [] => false
  end.
Definition std_int_lex (lex : list N) : bool :=
  std_number_lex lex && forallb (fun c => is_digit c || (c =? 45)) lex.

(* ---- whitespace ---- *)
Definition skip_ws (s : list N) : list N := drop (ws_run s) s.            (* LeftTrim(_, WsSpacesNl) never fails on the run *)
Definition is_sp (b : N) : bool := (b =? 32) || (b =? 9).
(* LeftTrim(Rune(c), WsSpaces): a run without LF/FF, then the byte c *)
Definition sep_byte (c : N) (s : list N) : option (list N) :=
  match ws_first_nl s with
  | Some _ => None
  | None => match skip_ws s with b :: r => if b =? c then Some r else None | [] => None end
  end.
(* LeftTrim(Rune(c), WsSpacesNl) *)
Definition close_byte (c : N) (s : list N) : option (list N) :=
  match skip_ws s with b :: r => if b =? c then Some r else None | [] => None end.

(* ---- SepBy(LeftTrim(item, WsSpacesNl), LeftTrim(',', WsSpaces)), allowEmpty.
   The sequence engine follows the single path item sep item sep ... and emits a result only
   where the next parser fails and the length is 0 or odd: after a matched separator an item
   MUST follow (no trailing comma, no return to the shorter list).  None = no result. *)
Section SepList.
  Context {A : Type}.
  Variable item : list N -> option (A * list N).
  Fixpoint sep_more (n : nat) (r : list N) : option (list A * list N) :=
    match n with
    | O => None
    | S n' =>
      match sep_byte 44 r with
      | None => Some ([], r)
      | Some r1 =>
        match item (skip_ws r1) with
        | None => None
        | Some (a, r2) => match sep_more n' r2 with Some (l, r3) => Some (a :: l, r3) | None => None end
        end
      end
    end.
  Definition sep_list (s : list N) : option (list A * list N) :=
    match item (skip_ws s) with
    | None => Some ([], s)                                       (* the empty list, at the position itself *)
    | Some (a, r) => match sep_more (S (length r)) r with Some (l, r') => Some (a :: l, r') | None => None end
    end.
End SepList.

(* ---- terminals (strict = restricted to the standard-JSON lexemes) ---- *)
Definition w_true : list N := [116; 114; 117; 101].
Definition w_false : list N := [102; 97; 108; 115; 101].
Definition w_null : list N := [110; 117; 108; 108].

Definition tok_string (strict : bool) (s : list N) : option (list N * list N) :=
  match spec_string false s with
  | SNode n (VStr v) => if strict && negb (std_string_lex (take n s)) then None else Some (v, drop n s)
  | _ => None
  end.
Definition tok_float (strict : bool) (s : list N) : option (value * list N) :=
  match spec_float conv_range s with
  | SNode n _ => if strict && negb (std_number_lex (take n s)) then None else Some (JNum (take n s), drop n s)
  | _ => None
  end.
Definition tok_integer (strict : bool) (s : list N) : option (value * list N) :=
  match spec_integer s with
  | SNode n (VInt z) => if strict && negb (std_int_lex (take n s)) then None else Some (JInt z, drop n s)
  | _ => None
  end.
Definition tok_bool (s : list N) : option (value * list N) :=
  match spec_bool w_true w_false s with
  | SNode n (VBool b) => Some (JBool b, drop n s)
  | _ => None
  end.
Definition tok_null (s : list N) : option (value * list N) :=
  match spec_nil w_null s with
  | SNode n _ => Some (JNull, drop n s)
  | _ => None
  end.

(* member = String, LeftTrim(':', WsSpaces), LeftTrim(value, WsSpacesNl) *)
Definition p_member (strict : bool) (pv : list N -> option (value * list N)) (s : list N)
  : option ((list N * value) * list N) :=
  match tok_string strict s with
  | Some (key, r) =>
    match sep_byte 58 r with
    | Some r1 => match pv (skip_ws r1) with Some (v, r2) => Some ((key, v), r2) | None => None end
    | None => None
    end
  | None => None
  end.

(* a fixed first byte (Rune('[') / Rune('{')), then the rest *)
Definition on_head {B} (c : N) (s : list N) (f : list N -> option B) : option B :=
  match s with b :: t => if b =? c then f t else None | [] => None end.
(* array = '[' SepBy(value ...) ']' ;  object = '{' SepBy(member ...) '}' *)
Definition p_array (pv : list N -> option (value * list N)) (s : list N) : option (value * list N) :=
  on_head 91 s (fun t =>
    match sep_list pv t with
    | Some (vs, r) => match close_byte 93 r with Some r' => Some (JArr vs, r') | None => None end
    | None => None
    end).
Definition p_object (strict : bool) (pv : list N -> option (value * list N)) (s : list N) : option (value * list N) :=
  on_head 123 s (fun t =>
    match sep_list (p_member strict pv) t with
    | Some (kvs, r) => match close_byte 125 r with Some r' => Some (JObj kvs, r') | None => None end
    | None => None
    end).

(* value: the ordered Choice; the first alternative that matches wins.  fuel 0 = no result;
   the fuel only bounds the nesting depth (every nested value is behind a '[' or '{'). *)
Fixpoint p_value (strict : bool) (fuel : nat) (s : list N) {struct fuel} : option (value * list N) :=
  match fuel with
  | O => None
  | S k =>
    match tok_string strict s with
    | Some (v, r) => Some (JStr v, r)
    | None =>
    match tok_float strict s with
    | Some x => Some x
    | None =>
    match tok_integer strict s with
    | Some x => Some x
    | None =>
    match p_array (fun x => p_value strict k x) s with
    | Some x => Some x
    | None =>
    match p_object strict (fun x => p_value strict k x) s with
    | Some x => Some x
    | None =>
    match tok_bool s with
    | Some x => Some x
    | None => tok_null s
    end end end end end end
  end.

(* Sentence(Trim(value)) on the normalised bytes: run, value, run, end of input *)
Definition parse_doc (strict : bool) (raw : list N) : option value :=
  let s := normalize raw in
  match p_value strict (S (length s)) (skip_ws s) with
  | Some (v, r) => match skip_ws r with [] => Some v | _ => None end
  | None => None
  end.

Definition spec_parse (raw : list N) : option value := parse_doc false raw.

(* The subset on which encoding/json is expected to agree: the document is accepted by the
   grammar whose String/Float/Integer terminals are restricted to RFC 8259 lexemes, and contains
   no form feed (the only whitespace byte of the grammar that is not JSON whitespace; a raw form
   feed inside a string is excluded by std_body anyway).  Every exclusion is listed in notes/C16.md. *)
Definition json_subset (raw : list N) : bool :=
  negb (existsb (fun b => b =? 12) raw) &&
  match parse_doc true raw with Some _ => true | None => false end.

(* ================================================================== *)
(* 2. The same language as grammar rules                               *)

Definition allb (p : N -> bool) (l : list N) : Prop := forallb p l = true.
Definition ws_nl (w : list N) : Prop := allb is_ws w.        (* a WsSpacesNl run: space, tab, LF, FF *)
Definition ws_sp (w : list N) : Prop := allb is_sp w.        (* a WsSpaces run: space, tab *)

(* Integer:  sign? ( nonzero-digit digit*  |  0 (x|X) hexdigit+  |  0 octaldigit* ) *)
Definition uint_lit (l : list N) : Prop :=
  (exists d ds, l = d :: ds /\ is_nzdigit d = true /\ allb is_digit ds) \/
  (exists x hs, l = 48 :: x :: hs /\ is_xX x = true /\ hs <> [] /\ allb is_hex hs) \/
  (exists os, l = 48 :: os /\ allb is_octal os).
Definition int_lit (l : list N) : Prop :=
  uint_lit l \/ exists sg u, l = sg :: u /\ is_sign sg = true /\ uint_lit u.

(* Float:  sign? digit* '.' digit+ ( (e|E) sign? digit+ )? *)
Definition exp_lit (l : list N) : Prop :=
  exists e sg ds, l = e :: sg ++ ds /\ is_eE e = true /\ (sg = [] \/ exists c, sg = [c] /\ is_sign c = true) /\
                  ds <> [] /\ allb is_digit ds.
Definition ufloat_lit (l : list N) : Prop :=
  exists ip fp ex, l = ip ++ 46 :: fp ++ ex /\ allb is_digit ip /\ fp <> [] /\ allb is_digit fp /\
                   (ex = [] \/ exp_lit ex).
Definition float_lit (l : list N) : Prop :=
  ufloat_lit l \/ exists sg u, l = sg :: u /\ is_sign sg = true /\ ufloat_lit u.

(* String body: items until the closing quote; an item is what strconv.UnquoteChar (with the double quote as quote)
   decodes at the head of the REMAINING BODY — a plain byte, a UTF-8 sequence (an ill-formed byte
   stands for itself) or one of Go's escapes — and it does not begin with CR or LF (nor with the
   quote: UnquoteChar rejects it).  The value is the items' code points in UTF-8. *)
Definition str_piece (c ch n : N) : list N :=
  if (ch =? rune_error) && (n =? 1) then [c] else encode_rune ch.
Inductive str_lit_body : list N -> list N -> Prop :=
| SB_nil : str_lit_body [] []
| SB_item : forall c t ch n v,
    (c =? 13) || (c =? 10) = false ->
    unquote_char (c :: t) 34 = Some (ch, n) ->
    str_lit_body (drop n (c :: t)) v ->
    str_lit_body (c :: t) (str_piece c ch n ++ v).
Definition string_lit (lex v : list N) : Prop :=
  exists body, lex = 34 :: body ++ [34] /\ str_lit_body body v.

Inductive jval : value -> list N -> Prop :=
| J_str : forall v lex, string_lit lex v -> jval (JStr v) lex
| J_num : forall lex, float_lit lex -> float_overflow lex = false -> jval (JNum lex) lex
| J_int : forall z lex, int_lit lex -> parse_int_base0 lex = Some z -> jval (JInt z) lex
| J_arr : forall vs body w, jelems vs body -> ws_nl w -> jval (JArr vs) (91 :: body ++ w ++ [93])
| J_obj : forall kvs body w, jmembers kvs body -> ws_nl w -> jval (JObj kvs) (123 :: body ++ w ++ [125])
| J_true : jval (JBool true) w_true
| J_false : jval (JBool false) w_false
| J_null : jval JNull w_null
(* value (ws ',' ws value)*  or nothing; no line break before a comma *)
with jelems : list value -> list N -> Prop :=
| JE_nil : jelems [] []
| JE_cons : forall v vs w lex rest, ws_nl w -> jval v lex -> jmore vs rest -> jelems (v :: vs) (w ++ lex ++ rest)
with jmore : list value -> list N -> Prop :=
| JM_nil : jmore [] []
| JM_cons : forall v vs w1 w2 lex rest, ws_sp w1 -> ws_nl w2 -> jval v lex -> jmore vs rest ->
    jmore (v :: vs) (w1 ++ 44 :: w2 ++ lex ++ rest)
(* member = string ws ':' ws value; no line break before the colon *)
with jmember : list N * value -> list N -> Prop :=
| JK : forall k klex w1 w2 v lex, string_lit klex k -> ws_sp w1 -> ws_nl w2 -> jval v lex ->
    jmember (k, v) (klex ++ w1 ++ 58 :: w2 ++ lex)
with jmembers : list (list N * value) -> list N -> Prop :=
| JO_nil : jmembers [] []
| JO_cons : forall kv kvs w m rest, ws_nl w -> jmember kv m -> jmoremembers kvs rest -> jmembers (kv :: kvs) (w ++ m ++ rest)
with jmoremembers : list (list N * value) -> list N -> Prop :=
| JN_nil : jmoremembers [] []
| JN_cons : forall kv kvs w1 w2 m rest, ws_sp w1 -> ws_nl w2 -> jmember kv m -> jmoremembers kvs rest ->
    jmoremembers (kv :: kvs) (w1 ++ 44 :: w2 ++ m ++ rest).

(* a document: whitespace, value, whitespace — of the CR LF-normalised bytes *)
Definition json_doc (v : value) (raw : list N) : Prop :=
  exists w1 lex w2, normalize raw = w1 ++ lex ++ w2 /\ ws_nl w1 /\ ws_nl w2 /\ jval v lex.

(* ================================================================== *)
(* 3. Harness                                                          *)

(* canonical rendering: objects as maps — the last duplicate wins, members sorted by key (bytewise,
   like Go's sort.Strings) *)
Fixpoint bytes_ltb (a b : list N) : bool :=
  match a, b with
  | [], [] => false
  | [], _ :: _ => true
  | _ :: _, [] => false
  | x :: a', y :: b' => (x <? y) || ((x =? y) && bytes_ltb a' b')
  end.
Fixpoint kv_insert (k : list N) (o : obs) (l : list (list N * obs)) : list (list N * obs) :=
  match l with
  | [] => [(k, o)]
  | (k', o') :: t =>
    if list_N_eqb k k' then (k, o) :: t
    else if bytes_ltb k k' then (k, o) :: l
    else (k', o') :: kv_insert k o t
  end.
Definition canon_members (l : list (list N * obs)) : list obs :=
  map (fun kv => OT "KV" [OS (fst kv); snd kv]) (fold_left (fun acc kv => kv_insert (fst kv) (snd kv) acc) l []).
Fixpoint obs_value (v : value) : obs :=
  match v with
  | JNull => OT "Null" []
  | JBool b => OT "Bool" [OB b]
  | JInt z => OT "Int" [OZ z]
  | JNum lex => OT "Num" [OS lex]
  | JStr s => OT "Str" [OS s]
  | JArr l => OT "Arr" (map obs_value l)
  | JObj kvs => OT "Obj" (canon_members (map (fun kv => match kv with (k, v') => (k, obs_value v') end) kvs))
  end.
Definition obs_result (r : option value) : obs :=
  match r with Some v => OT "Val" [obs_value v] | None => OT "Err" [] end.

(* strconv.ParseFloat's answers for the float lexemes of the document, printed by the driver:
   OT "CF" [OS lexeme; OT "Some" [ON bits] | OT "None" []] *)
Fixpoint conv_find (tb : list obs) (lex : list N) : option obs :=
  match tb with
  | OT _ [OS l; r] :: t => if list_N_eqb l lex then Some r else conv_find t lex
  | _ :: t => conv_find t lex
  | [] => None
  end.
Definition is_tag (t : string) (o : obs) : bool := match o with OT t' _ => String.eqb t t' | _ => false end.

(* specification value (rendered) against parsley's value (rendered by the driver): equal, where a
   decimal of the specification (a lexeme) stands against the float64 parsley computed, which must be
   the bits Go's own ParseFloat gives for that lexeme *)
Fixpoint val_agree (tb : list obs) (e i : obs) {struct e} : bool :=
  let fix all2 (l1 l2 : list obs) {struct l1} : bool :=
      match l1, l2 with
      | [], [] => true
      | x :: l1', y :: l2' => val_agree tb x y && all2 l1' l2'
      | _, _ => false
      end in
  match e, i with
  | OT t1 l1, OT t2 l2 =>
    if String.eqb t1 "Num" then
      match l1, l2 with
      | [OS lex], ON bits :: _ =>
        String.eqb t2 "Float" &&
        match conv_find tb lex with Some (OT _ [ON b]) => b =? bits | _ => false end
      | _, _ => false
      end
    else String.eqb t1 t2 && all2 l1 l2
  | _, _ => obs_eqb e i
  end.
(* result against result: an error matches any error text *)
Definition res_agree (tb : list obs) (e i : obs) : bool :=
  match e, i with
  | OT t1 [ev], OT t2 [iv] => String.eqb t1 "Val" && String.eqb t2 "Val" && val_agree tb ev iv
  | OT t1 [], OT t2 _ => String.eqb t1 "Err" && String.eqb t2 "Err"
  | _, _ => false
  end.

(* specification value against encoding/json's value (numbers are json.Number:
   OT "Number" [OS lexeme; OT "Some" [OZ int64] | OT "None" []; OT "Some" [ON bits] | OT "None" []]) *)
Fixpoint enc_agree (e i : obs) {struct e} : bool :=
  let fix all2 (l1 l2 : list obs) {struct l1} : bool :=
      match l1, l2 with
      | [], [] => true
      | x :: l1', y :: l2' => enc_agree x y && all2 l1' l2'
      | _, _ => false
      end in
  match e, i with
  | OT t1 l1, OT t2 l2 =>
    if String.eqb t1 "Num" then
      String.eqb t2 "Number" &&
      match l1, l2 with [OS lex], OS lex' :: _ => list_N_eqb lex lex' | _, _ => false end
    else if String.eqb t1 "Int" then
      String.eqb t2 "Number" &&
      match l1, l2 with [OZ z], [OS _; OT _ [OZ z']; _] => Z.eqb z z' | _, _ => false end
    else String.eqb t1 t2 && all2 l1 l2
  | _, _ => obs_eqb e i
  end.
(* parsley's value against encoding/json's value, directly (the property's own sentence):
   integers by value, decimals by the float64 bits of Number.Float64() *)
Fixpoint impl_agree (p i : obs) {struct p} : bool :=
  let fix all2 (l1 l2 : list obs) {struct l1} : bool :=
      match l1, l2 with
      | [], [] => true
      | x :: l1', y :: l2' => impl_agree x y && all2 l1' l2'
      | _, _ => false
      end in
  match p, i with
  | OT t1 l1, OT t2 l2 =>
    if String.eqb t1 "Float" then
      String.eqb t2 "Number" &&
      match l1, l2 with ON bits :: _, [OS _; _; OT _ [ON b]] => bits =? b | _, _ => false end
    else if String.eqb t1 "Int" then
      String.eqb t2 "Number" &&
      match l1, l2 with [OZ z], [OS _; OT _ [OZ z']; _] => Z.eqb z z' | _, _ => false end
    else String.eqb t1 t2 && all2 l1 l2
  | _, _ => obs_eqb p i
  end.

(* every ParseFloat answer printed by the driver agrees with the specification's range test *)
Definition conv_consistent (tb : list obs) : bool :=
  forallb (fun o => match o with
                    | OT _ [OS lex; r] => Bool.eqb (float_overflow lex) (is_tag "None" r)
                    | _ => false
                    end) tb.

Inductive c16_case := C16 (bytes : list N).

(* Phase 1: the prediction is the SPECIFICATION's (there is no separate model of the example parser
   until the engine model has literal terminals); the encoding/json part of an observation cannot be
   predicted by a model and is ignored by [c16_agree]. *)
Definition c16_expected (c : c16_case) : obs :=
  match c with C16 raw => OT "C16" [obs_result (spec_parse raw)] end.
Definition c16_agree (e o : obs) : bool :=
  match e, o with
  | OT _ [er], OT t (p :: _ :: OL tb :: _) => String.eqb t "C16" && res_agree tb er p
  | _, _ => false
  end.

(* The property on one observation  OT "C16" [parsley; encoding/json; OL conversions]:
   (a) for EVERY input parsley's result is the specification's: the same value, or an error where the
       specification has no value — never a value for a rejected document, never a panic;
   (b) for inputs of [json_subset], encoding/json returns a value, it is the specification's value
       (last duplicate key wins, decimals by lexeme, integers by value) and parsley's value equals it
       directly (decimals by float64 bits); the restricted grammar yields the same value as the full one;
   (c) the specification's float range test agrees with Go's ParseFloat on every float lexeme printed. *)
Definition c16_oracle (c : c16_case) (o : obs) : bool :=
  match c, o with
  | C16 raw, OT t (p :: enc :: OL tb :: _) =>
    String.eqb t "C16" &&
    res_agree tb (obs_result (spec_parse raw)) p &&
    conv_consistent tb &&
    (if json_subset raw then
       match spec_parse raw, parse_doc true raw, p, enc with
       | Some v, Some v', OT _ [pv], OT te [ev] =>
         String.eqb te "Val" && obs_eqb (obs_value v) (obs_value v') &&
         enc_agree (obs_value v) ev && impl_agree pv ev
       | _, _, _, _ => false
       end
     else true)
  | _, _ => false
  end.

Definition c16_harness : harness :=
  {| H_case := c16_case; H_expected := c16_expected; H_agree := c16_agree; H_oracle := c16_oracle |}.
