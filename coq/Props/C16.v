(* C16 — The example JSON parser agrees with encoding/json on the supported subset.
   Only statements here; each is closed by [exact] of a lemma of JsonSpecProofs.v / JsonProofs.v.

   Reading guide.  Part I (theorems C16_spec_...): the specification and the grammar rules.  Part II (C16_no_panic,
   C16_reject, C16_accept, C16_engine_...): the ENGINE MODEL (Engine.parse / Top.evaluate, the model of the
   combinators validated by ./check ENG) run on the example grammar written as a [pexpr] term
   (Json.json_rules / json_root: no Memoize, [&value] is a plain reference) computes exactly the
   specification.  [json_eval_fuel cf fuel raw] = Top.evaluate on text.NewFile's normalised bytes at base
   offset 1, [cf] = strconv.ParseFloat (any function that fails exactly on the range error: [cf_ok]);
   [to_engine cf v] = the Go value of a specification value (float64 by [cf], map built by
   interpreter.Object).  Bytes are bytes ([bytes_ok raw]: every element < 256).
   [spec_parse : list N -> option value] (JsonSpec.v) is the DIRECT specification of the example
   grammar examples/json/json/parser.go: a recursive descent over the CR LF-normalised bytes with the
   grammar's whitespace modes (no line break before ',' and ':'), its ordered Choice, SepBy without a
   trailing separator, and the C08 specifications of the String / Float / Integer / Bool / Nil
   terminals.  [json_doc v raw] is the same language written as grammar rules (inductive relations
   jval / jelems / jmore / jmember / jmembers / jmoremembers over exact byte strings, whitespace runs
   [ws_nl] = {space, tab, LF, FF}* and [ws_sp] = {space, tab}* explicit).  [json_subset] is the
   language of the grammar whose three lexical terminals are restricted to RFC 8259 lexemes and
   without form feed: the documents on which encoding/json is expected to agree.
   The tie between [spec_parse] and the real parser, and between [spec_parse] and encoding/json on
   [json_subset], is the differential run of ./check C16 (harness c16_harness). *)
From Coq Require Import List NArith ZArith.
From Parsley Require Import Base FileSet Utf8 Reader Literals JsonSpec JsonSpecProofs.
From Parsley Require Import Grammar Engine Top Json JsonProofs.
Import ListNotations.
Open Scope N_scope.

(* Soundness of the specification: whatever it accepts is derivable by the grammar rules, with the
   value it returns. *)
Theorem C16_spec_sound : forall raw v, spec_parse raw = Some v -> json_doc v raw.
Proof. exact spec_parse_sound. Qed.
Print Assumptions C16_spec_sound.

(* Completeness: every document derivable by the grammar rules is accepted, with the derivation's
   value (so ordered choice, maximal tokens and the SepBy path lose nothing on this grammar). *)
Theorem C16_spec_complete : forall raw v, json_doc v raw -> spec_parse raw = Some v.
Proof. exact spec_parse_complete. Qed.
Print Assumptions C16_spec_complete.

(* The grammar is unambiguous: a byte string has at most one value. *)
Theorem C16_grammar_unambiguous : forall raw v v', json_doc v raw -> json_doc v' raw -> v = v'.
Proof. exact json_doc_unambiguous. Qed.
Print Assumptions C16_grammar_unambiguous.

(* The specification rejects exactly the byte strings without a derivation. *)
Theorem C16_spec_rejects : forall raw, spec_parse raw = None <-> forall v, ~ json_doc v raw.
Proof. exact spec_parse_none. Qed.
Print Assumptions C16_spec_rejects.

(* The encoding/json subset lies inside the grammar's language, with the same value: restricting
   the lexical terminals to RFC 8259 lexemes never changes how a document is read. *)
Theorem C16_subset_in_spec : forall raw, json_subset raw = true ->
  exists v, parse_doc true raw = Some v /\ spec_parse raw = Some v /\ json_doc v raw.
Proof. exact json_subset_in_spec. Qed.
Print Assumptions C16_subset_in_spec.

(* The value depends only on the CR LF-normalised bytes (text.NewFile). *)
Theorem C16_spec_normalized : forall raw raw', normalize raw = normalize raw' -> spec_parse raw = spec_parse raw'.
Proof. exact spec_parse_normalized. Qed.
Print Assumptions C16_spec_normalized.

(* Lexical rules of the grammar against the C08 recognisers (which LiteralProofs.v proves equal to
   the regular expressions of text/terminal/float.go and integer.go).  Float: what the recogniser
   consumes is  sign? digit* '.' digit+ ((e|E) sign? digit+)?  ... *)
Theorem C16_float_rule_sound : forall s n, float_lexeme s = Some n -> n <= len_N s /\ float_lit (take n s).
Proof. exact float_lexeme_sound. Qed.
Print Assumptions C16_float_rule_sound.
(* ... and such a literal is consumed whole when neither a digit nor e/E follows. *)
Theorem C16_float_rule_complete : forall lex rest, float_lit lex -> head_not is_digit rest -> head_not is_eE rest ->
  float_lexeme (lex ++ rest) = Some (len_N lex).
Proof. exact float_lexeme_complete. Qed.
Print Assumptions C16_float_rule_complete.
(* Integer: the grammar's rule is C08's declarative grammar (int_lexeme = its longest prefix). *)
Theorem C16_int_rule_is_C08 : forall l, int_lit l <-> LiteralProofs.is_int_lit l.
Proof. exact int_lit_is_C08. Qed.
Print Assumptions C16_int_rule_is_C08.
(* String: the C08 specification of terminal.String accepts exactly  quote body quote  with the body
   a sequence of UnquoteChar items, whatever follows the closing quote. *)
Theorem C16_string_rule_sound : forall s v r, tok_string false s = Some (v, r) ->
  exists lex, s = lex ++ r /\ string_lit lex v.
Proof. exact tok_string_sound. Qed.
Print Assumptions C16_string_rule_sound.
Theorem C16_string_rule_complete : forall lex v rest, string_lit lex v -> tok_string false (lex ++ rest) = Some (v, rest).
Proof. exact tok_string_complete. Qed.
Print Assumptions C16_string_rule_complete.

(* ================================================================== *)
(* Part II — the engine model on the example grammar                     *)

(* NO PANIC, for every byte string and every fuel: interpreter.Select's index, interpreter.Object's type
   assertion on the member node, its Children()[0]/[2], key.(string), and the rule reference are all safe. *)
Theorem C16_no_panic : forall cf, cf_ok cf -> forall raw, bytes_ok raw -> forall fuel,
  json_eval_fuel cf fuel raw <> Panic.
Proof. exact no_panic. Qed.
Print Assumptions C16_no_panic.

(* REJECT: a returned value is the value of a derivation of the WHOLE input by the grammar rules. *)
Theorem C16_reject : forall cf, cf_ok cf -> forall raw, bytes_ok raw -> forall fuel v',
  json_eval_fuel cf fuel raw = Ok (EvValue v') ->
  exists v, json_doc v raw /\ spec_parse raw = Some v /\ v' = to_engine cf v.
Proof. exact reject. Qed.
Print Assumptions C16_reject.

(* ACCEPT: every document of the grammar evaluates to its value (Choice's first match, SepBy's single
   path, LeftTrim/RightTrim lose nothing), with any fuel from some point on. *)
Theorem C16_accept : forall cf, cf_ok cf -> forall raw, bytes_ok raw -> forall v, json_doc v raw ->
  exists f0, forall f, (f0 <= f)%nat -> json_eval_fuel cf f raw = Ok (EvValue (to_engine cf v)).
Proof. exact accept. Qed.
Print Assumptions C16_accept.

(* An input without a derivation gives a PARSE error (never a value, never an evaluation error). *)
Theorem C16_rejects_underivable : forall cf, cf_ok cf -> forall raw, bytes_ok raw -> (forall v, ~ json_doc v raw) ->
  exists f0, forall f, (f0 <= f)%nat -> exists e, json_eval_fuel cf f raw = Ok (EvParseErr e).
Proof. exact reject_none. Qed.
Print Assumptions C16_rejects_underivable.
Theorem C16_no_eval_error : forall cf, cf_ok cf -> forall raw, bytes_ok raw -> forall fuel e,
  json_eval_fuel cf fuel raw <> Ok (EvEvalErr e).
Proof. exact no_eval_error. Qed.
Print Assumptions C16_no_eval_error.

(* The model IS the specification: with any fuel the evaluation either runs out of fuel or returns the
   specification's value / a parse error where the specification has none. *)
Theorem C16_engine_is_spec : forall cf, cf_ok cf -> forall raw, bytes_ok raw -> forall fuel,
  json_eval_fuel cf fuel raw = OutOfFuel \/
  match spec_parse raw with
  | Some v => json_eval_fuel cf fuel raw = Ok (EvValue (to_engine cf v))
  | None => exists e, json_eval_fuel cf fuel raw = Ok (EvParseErr e)
  end.
Proof. exact engine_any_fuel. Qed.
Print Assumptions C16_engine_is_spec.
Theorem C16_engine_enough_fuel : forall cf, cf_ok cf -> forall raw, bytes_ok raw -> exists f0,
  match spec_parse raw with
  | Some v => json_eval_fuel cf f0 raw = Ok (EvValue (to_engine cf v))
  | None => exists e, json_eval_fuel cf f0 raw = Ok (EvParseErr e)
  end.
Proof. exact engine_is_spec. Qed.
Print Assumptions C16_engine_enough_fuel.

(* the converter used by the check (it keeps the lexeme) is a faithful ParseFloat in the sense of [cf_ok] *)
Theorem C16_check_converter_ok : cf_ok cf_lexeme.
Proof. exact cf_lexeme_ok. Qed.
Print Assumptions C16_check_converter_ok.
