(* C12 — Parsing is invariant under the file's placement in a file set.
   Only statements: each theorem repeats the full statement of a lemma proved elsewhere and is closed by [exact]. *)
From Coq Require Import String List NArith ZArith Bool.
From Parsley Require Import Obs Base FileSet FileSetProofs Grammar Engine EngineHarness Shift.
Import ListNotations.
Open Scope N_scope.

(* For EVERY grammar of the model (all combinators), expression, fuel, input bytes, offset and shift d: the run at offset
   off + d is the run at offset off with d added to every position — result nodes (recursively), returned error, context
   error, cache keys and cached results, both ghost logs; curtailing sets, counters, call count and outcome kind are equal. *)
Theorem C12_shift_engine :
  forall (d : N) (inp : input) (rules : list pexpr) (fuel : nat),
  (forall (e : pexpr) (c : ctx) (stk : stack) (lrc : intmap) (pos : N),
   1 <= pos ->
   ctx_ok c ->
   parse (shift_input d inp) rules fuel e (shift_ctx d c) (shift_stack d stk) lrc (pos + d) =
   shift_pout d (parse inp rules fuel e c stk lrc pos)) /\
  (forall (q : seqinfo) (dp : nat) (c : ctx) (stk : stack) (lrc : intmap) 
     (pos : N) (m : bool) (st : seqst),
   1 <= pos ->
   ctx_ok c ->
   seqst_ok st ->
   seqp (shift_input d inp) rules fuel q dp (shift_ctx d c) (shift_stack d stk) lrc 
     (pos + d) m (shift_seqst d st) =
   shift_sout d (seqp inp rules fuel q dp c stk lrc pos m st)).
Proof. exact @Shift.C12_shift_engine. Qed.
Print Assumptions C12_shift_engine.

(* A run that starts from positions >= 1 only produces positions >= 1 (how the hypothesis is preserved along the run). *)
Theorem C12_positions_positive :
  forall (inp : input) (rules : list pexpr) (fuel : nat) (e : pexpr)
    (c : ctx) (stk : stack) (lrc : intmap) (pos : N) (r : pres),
  1 <= pos -> ctx_ok c -> parse inp rules fuel e c stk lrc pos = Ok r -> pres_ok r.
Proof. exact @Shift.C12_positions_positive. Qed.
Print Assumptions C12_positions_positive.

(* The same for a run from a fresh context. *)
Theorem C12_shift_run :
  forall (d : N) (inp : input) (rules : list pexpr) (fuel : nat) (root : pexpr),
  1 <= i_offset inp ->
  run (shift_input d inp) rules fuel root = shift_pout d (run inp rules fuel root).
Proof. exact @Shift.C12_shift_run. Qed.
Print Assumptions C12_shift_run.

(* The same for parsley.Parse (error preference and fallbacks commute as well). *)
Theorem C12_shift_top :
  forall (d : N) (inp : input) (rules : list pexpr) (fuel : nat) (root : pexpr),
  1 <= i_offset inp ->
  parse_top (shift_input d inp) rules fuel root =
  shift_outcome (shift_top d) (parse_top inp rules fuel root).
Proof. exact @Shift.C12_shift_top. Qed.
Print Assumptions C12_shift_top.

(* Any two placements 1 <= o1 <= o2 are related by the shift o2 - o1. *)
Theorem C12_shift_between :
  forall (data : list N) (cf : list N -> option N) (cd : list N -> option Z)
    (o1 o2 : N) (rules : list pexpr) (fuel : nat) (root : pexpr),
  1 <= o1 ->
  o1 <= o2 ->
  run {| i_data := data; i_offset := o2; i_cf := cf; i_cd := cd |} rules fuel root =
  shift_pout (o2 - o1)
    (run {| i_data := data; i_offset := o1; i_cf := cf; i_cd := cd |} rules fuel root) /\
  parse_top {| i_data := data; i_offset := o2; i_cf := cf; i_cd := cd |} rules fuel root =
  shift_outcome (shift_top (o2 - o1))
    (parse_top {| i_data := data; i_offset := o1; i_cf := cf; i_cd := cd |} rules fuel root).
Proof. exact @Shift.C12_shift_between. Qed.
Print Assumptions C12_shift_between.

(* With C11: file name, line and column of every position inside the file are the same whether the file is alone or
   preceded by arbitrary other files; so are rendered error texts. *)
Theorem C12_rendered_unchanged :
  forall (pre : list file) (f : file),
  (forall p : N,
   spec_position (pre ++ [f]) (offset_of (pre ++ [f]) (Datatypes.length pre) + p) =
   spec_position [f] (1 + p)) /\
  (forall p : N,
   fs_position (new_fileset (pre ++ [f])) (offset_of (pre ++ [f]) (Datatypes.length pre) + p) =
   fs_position (new_fileset [f]) (1 + p)) /\
  (forall (msg : list N) (q : N),
   1 <= q ->
   error_with_position (new_fileset (pre ++ [f])) msg (q + placement_shift pre f) =
   error_with_position (new_fileset [f]) msg q) /\
  (forall e : perr,
   1 <= epos e ->
   top_text (new_fileset (pre ++ [f])) (shift_err (placement_shift pre f) e) =
   top_text (new_fileset [f]) e).
Proof. exact @Shift.C12_rendered_unchanged. Qed.
Print Assumptions C12_rendered_unchanged.

(* THE PROPERTY: parse_top of the file behind arbitrary other files = the shift (by the difference of base offsets) of
   parse_top of the file alone: same trees with shifted positions, same error cause, same call count, identical error TEXT. *)
Theorem C12_placement_invariant :
  forall (pre : list file) (f : file) (cf : list N -> option N) (cd : list N -> option Z)
    (rules : list pexpr) (fuel : nat) (root : pexpr),
  let d := placement_shift pre f in
  let fs1 := new_fileset [f] in
  let fs2 := new_fileset (pre ++ [f]) in
  let inp1 := {| i_data := f_data f; i_offset := 1; i_cf := cf; i_cd := cd |} in
  let inp2 :=
    {|
      i_data := f_data f;
      i_offset := offset_of (pre ++ [f]) (Datatypes.length pre);
      i_cf := cf;
      i_cd := cd
    |} in
  parse_top inp2 rules fuel root =
  shift_outcome (shift_top d) (parse_top inp1 rules fuel root) /\
  (forall (ns : list node) (c : ctx),
   parse_top inp1 rules fuel root = Ok (TopNode ns c) ->
   parse_top inp2 rules fuel root = Ok (TopNode (map (shift_node d) ns) (shift_ctx d c))) /\
  (forall (e : perr) (c : ctx),
   parse_top inp1 rules fuel root = Ok (TopErr e c) ->
   exists (e' : perr) (c' : ctx),
     parse_top inp2 rules fuel root = Ok (TopErr e' c') /\
     epos e' = epos e + d /\
     ecause e' = ecause e /\ calls c' = calls c /\ top_text fs2 e' = top_text fs1 e).
Proof. exact @Shift.C12_placement_invariant. Qed.
Print Assumptions C12_placement_invariant.

(* The same for exactly the two file sets the Go driver builds. *)
Theorem C12_eng_placement :
  forall (data : list N) (offset : N) (rules : list pexpr) (fuel : nat) (root : pexpr),
  2 <= offset ->
  let d := offset - 1 in
  parse_top (eng_input data offset) rules fuel root =
  shift_outcome (shift_top d) (parse_top (eng_input data 1) rules fuel root) /\
  (forall (e : perr) (c : ctx),
   parse_top (eng_input data 1) rules fuel root = Ok (TopErr e c) ->
   top_text (new_fileset (eng_files data offset)) (shift_err d e) =
   top_text (new_fileset (eng_files data 1)) e).
Proof. exact @Shift.C12_eng_placement. Qed.
Print Assumptions C12_eng_placement.

(* Shape, tokens, interpreters and values of a shifted tree are unchanged. *)
Theorem C12_tree_unchanged :
  forall (d : N) (n : node), erase_node (shift_node d n) = erase_node n.
Proof. exact @Shift.C12_tree_unchanged. Qed.
Print Assumptions C12_tree_unchanged.

(* Values of terminal nodes are unchanged. *)
Theorem C12_values_unchanged :
  forall (d : N) (n : node), node_values (shift_node d n) = node_values n.
Proof. exact @Shift.C12_values_unchanged. Qed.
Print Assumptions C12_values_unchanged.

(* Necessity of positions >= 1: at base offset 0 (only reachable through File.SetOffset(0)) SkipWhitespaces' nlPos == 0 sentinel breaks invariance. *)
Theorem C12_offset0_refuted :
  let inp := mk_input [10; 10; 97] 0 in
  let root := PLeftTrim WsSpaces (PTerm (TRune 97)) in
  run (shift_input 5 inp) [] 5 root <> shift_pout 5 (run inp [] 5 root).
Proof. exact @Shift.C12_offset0_refuted. Qed.
Print Assumptions C12_offset0_refuted.

