(* C07 — a returned result is never modified afterwards.
   Only statements: each theorem repeats the full statement of a lemma proved in HeapLogProofs.v / EngineHProofs.v and is
   closed by [exact].  The non-vacuity examples are in EngineHProofs.v (C07_immutable_nonvacuous,
   C07_cache_same_answer_example, replay_clamped_example). *)
From Coq Require Import String List NArith ZArith Bool.
From Parsley Require Import Obs Base Grammar Engine EngineHarness HeapLog HeapLogProofs EngineH EngineHProofs.
Import ListNotations.
Open Scope N_scope.

(* HeapLog.v: a log of NodeList operations (slice literal, append cell by cell — in place iff len < cap, else a fresh array
   of capacity max (grow cap) (len+1) —, alias, full-slice clamp, cache store/hit, ghost entries) replayed on a heap of backing
   arrays.  If the log is LINEAR — handles bound once and before use; every header value (aliases counted together) is the
   source of at most one append of something unless its capacity equals its length by construction (literal or clamp); no
   in-place SetReaderPos on a list — then, for EVERY growth function and every cut of the log, each handle bound before the
   cut reads after the whole log exactly what it read at the cut. *)
Theorem C07_replay_stable :
  forall (A : Type) (grow : nat -> nat) (log : list (lop A)), linear log -> stable grow log.
Proof. exact @HeapLogProofs.replay_stable. Qed.
Print Assumptions C07_replay_stable.

(* Sensitivity: the log the instrumented engine itself emits WITHOUT the capacity clamp (the code before commit 046c90c) for
   the D1 grammar P = Memoize(SeqOf(Any(&P, a, Optional(&P)), b)) on "bb" is rejected by the linearity check, and replaying it
   with Go's doubling growth changes header 7 (the Any's accumulator built in place on the cached list 6) when the Optional
   appends to the same cached list: the log is not stable. *)
Theorem C07_replay_unstable_example :
  (d1u_log = d1_log false [98; 98]) /\
  (linearb d1u_log = false) /\
  (read (replay dbl (firstn d1u_k d1u_log)) 7 = Some d1u_before) /\
  (read (replay dbl d1u_log) 7 = Some d1u_after) /\
  (obs_eqb (OL (map (o_node (mk_input [] 1)) d1u_before)) (OL (map (o_node (mk_input [] 1)) d1u_after)) = false) /\
  ~ stable dbl d1u_log.
Proof. exact EngineHProofs.replay_unstable_example. Qed.
Print Assumptions C07_replay_unstable_example.

(* EngineH.v threads handles, a handle supply, a handle cache and the log through an interpreter with the structure of
   Engine.v.  Forgetting them it computes exactly Engine.parse — same results, curtailing sets, errors, contexts, Panic and
   OutOfFuel — for every grammar (RightTrim included), every input, fuel, start state, and for both values of the clamp
   flag.  So every theorem about Engine.v (C01-C06, C12) is a theorem about the values EngineH returns. *)
Theorem C07_erasure :
  forall (clampb : bool) (inp : input) (rules : list pexpr) (f : nat) (e : pexpr) (c : ctx) (s : hst)
         (stk : stack) (l : intmap) (p : N),
  erase_p (parseH clampb inp rules f e c s stk l p) = parse inp rules f e c stk l p.
Proof. exact EngineHProofs.erasure. Qed.
Print Assumptions C07_erasure.

(* With the clamp of the repaired Memoize, on every grammar without RightTrim (rules and root), for every input and fuel:
   the log of a finished run is linear.  (Accumulators of Any and of the sequence are appended to once each; Optional appends
   once to a result it alone holds; everything that enters or leaves the cache is clamped.) *)
Theorem C07_engine_log_linear :
  forall (inp : input) (rules : list pexpr) (f : nat) (root : pexpr) (ho : option handle) (ns : list node)
         (cp : intset) (err : option perr) (c : ctx) (s : hst),
  forallb no_rtrim rules = true -> no_rtrim root = true ->
  runH true inp rules f root = Ok (ho, ns, cp, err, c, s) -> linear (the_log s).
Proof. exact EngineHProofs.engine_log_linear. Qed.
Print Assumptions C07_engine_log_linear.

(* Hence: every list header created during such a parse — returned by a sub-parser, accumulated, stored in or served from
   the cache — reads at the end of the parse the list it read at any earlier moment, for every growth function of append. *)
Theorem C07_immutable :
  forall (grow : nat -> nat) (inp : input) (rules : list pexpr) (f : nat) (root : pexpr) (ho : option handle)
         (ns : list node) (cp : intset) (err : option perr) (c : ctx) (s : hst),
  forallb no_rtrim rules = true -> no_rtrim root = true ->
  runH true inp rules f root = Ok (ho, ns, cp, err, c, s) ->
  stable grow (the_log s).
Proof. exact EngineHProofs.C07_immutable. Qed.
Print Assumptions C07_immutable.

(* The same in terms of VALUES (uses: the values the engine returns are the lists its handles denote according to the log, and
   HeapLogProofs.replay_reads_value: after a linear log every handle reads the list the log says it denotes).  After the whole
   parse, on the heap and for every growth function: every NodeList any sub-parser returned during the parse reads exactly the
   nodes that were returned; so does the root result; and every cached list reads the nodes stored in the cache entry. *)
Theorem C07_returned_lists_read_back :
  forall (grow : nat -> nat) (inp : input) (rules : list pexpr) (f : nat) (root : pexpr) (ho : option handle)
         (ns : list node) (cp : intset) (err : option perr) (c : ctx) (s : hst),
  forallb no_rtrim rules = true -> no_rtrim root = true ->
  runH true inp rules f root = Ok (ho, ns, cp, err, c, s) ->
  (forall h v, In (LRet (Some h) v) (the_log s) -> read (replay grow (the_log s)) h = Some v) /\
  (forall h, ho = Some h -> read (replay grow (the_log s)) h = Some ns) /\
  (forall k r h, cache_find k (cache c) = Some r -> hc_find k (h_cache s) = Some h ->
                 read (replay grow (the_log s)) h = Some (r_nodes r)).
Proof. exact EngineHProofs.C07_returned_lists_read_back. Qed.
Print Assumptions C07_returned_lists_read_back.

(* Engine.v: a request to Memoize that was not curtailed leaves an entry holding exactly what it returned; any later request
   at the same position — any fuel, stack and context passing the reuse test of that entry — returns the very same nodes,
   curtailing set and error and leaves the context unchanged. *)
Theorem C07_cache_same_answer :
  forall (inp : input) (rules : list pexpr) (f f' : nat) (idx : N) (p : pexpr) (c : ctx) (stk stk' : stack)
         (lrc lrc' : intmap) (pos : N) (nodes : list node) (cp : intset) (err : option perr) (c' : ctx),
  parse inp rules (S f) (PMemo idx p) c stk lrc pos = Ok (nodes, cp, err, c') ->
  (cache_get c idx pos lrc <> None \/ (remaining inp pos + 1 <? map_get idx lrc) = false) ->
  exists r, cache_find (idx, pos) (cache c') = Some r /\ r_nodes r = nodes /\ r_cp r = cp /\ r_err r = err /\
    (reusable (r_lrc r) lrc' = true ->
     parse inp rules (S f') (PMemo idx p) c' stk' lrc' pos = Ok (nodes, cp, err, c')).
Proof. exact EngineHProofs.C07_cache_same_answer. Qed.
Print Assumptions C07_cache_same_answer.

(* Known finding K1.  In a model whose nodes are cells with a mutable reader position, the history of
   Any(SeqOf(m, Rune(' '), y), SeqOf(RightTrim(m, WsSpaces), y)), m = Memoize(Rune('a')), on "a y" changes the node that Rune,
   m and the cache hit had returned (1..2 becomes 1..3); with a copying RightTrim nothing changes; and Engine.v's value
   semantics is the copying one (its RightTrim returns 1..3 and leaves the cache entry at 1..2).  The immutability theorems
   above therefore exclude RightTrim, and the check attributes violations on such grammars to K1. *)
Theorem C07_righttrim_refuted :
  kchanged (krun k1_input (k1_history KTrimInPlace)) =
    [(0%nat, mkcell 97 1 2, mkcell 97 1 3); (0%nat, mkcell 97 1 2, mkcell 97 1 3); (0%nat, mkcell 97 1 2, mkcell 97 1 3)] /\
  kchanged (krun k1_input (k1_history KTrimCopy)) = [] /\
  (exists c', parse k1_input [PMemo 50 (PTerm (TRune 97))] 10 (PRightTrim WsSpaces (PRef 0)) ctx0 [] [] 1
              = Ok ([NTerm [97] (VRune 97) 1 3], [], None, c') /\
              option_map r_nodes (cache_find (50, 1) (cache c')) = Some [NTerm [97] (VRune 97) 1 2]).
Proof. exact EngineHProofs.C07_righttrim_refuted. Qed.
Print Assumptions C07_righttrim_refuted.
