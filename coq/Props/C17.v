(* C17 — Work stays polynomial on unambiguous grammars, left-recursive or not (bounded domain, see DESIGN.md).
   Only statements: each theorem repeats the full statement of a lemma proved elsewhere and is closed by [exact]. *)
From Coq Require Import String List NArith ZArith Bool.
From Parsley Require Import Obs Base Grammar Engine Cost CostProofs.
Import ListNotations.
Open Scope N_scope.

(* PARTIAL with respect to "polynomial for all unambiguous grammars": this is the property's own bounded quantifier.  For each of
   the six families (direct, expr/term/factor, mutual, hidden left recursion, nested brackets, separated lists) and EVERY size n of
   the family's domain ({8,16,...,160}; arithmetic {8,...,80}): both parses succeed, calls(2n) <= 16 calls(n), calls(n) <= 4(n+1)^4,
   calls(2n) <= 4(2n+1)^4 — computed by the kernel (VM) on the engine model and lifted with forallb_forall. *)
Theorem C17_growth_bounded_partial :
  forall (f : family) (n : nat),
  In f families ->
  In n (fm_domain f) ->
  exists a b : N,
    calls_of f n = Some a /\
    calls_of f (2 * n) = Some b /\
    b <= 16 * a /\
    a <= COST_C * (N.of_nat n + 1) ^ 4 /\ b <= COST_C * (2 * N.of_nat n + 1) ^ 4.
Proof. exact @CostProofs.growth_bounded. Qed.
Print Assumptions C17_growth_bounded_partial.

(* The call count is a function of grammar and input. *)
Theorem C17_deterministic :
  forall (f : family) (n : nat) (a b : option N),
  calls_of f n = a -> calls_of f n = b -> a = b.
Proof. exact @CostProofs.calls_deterministic. Qed.
Print Assumptions C17_deterministic.

