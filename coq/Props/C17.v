(* C17 — Work stays polynomial on unambiguous grammars, left-recursive or not (bounded domain, see DESIGN.md).
   Only statements: each theorem repeats the full statement of a lemma proved elsewhere and is closed by [exact]. *)
From Coq Require Import String List NArith ZArith Bool.
From Parsley Require Import Obs Base Grammar Engine Cost CostProofs ClosedForm.
Import ListNotations.
Open Scope N_scope.

(* PARTIAL with respect to "polynomial for all unambiguous grammars": this is the property's own bounded quantifier.  For each of
   the six families (direct, expr/term/factor, mutual, hidden left recursion, nested brackets, separated lists) and EVERY size n of
   the family's domain ({8,16,...,160}; arithmetic {8,...,80}): both parses succeed, calls(2n) <= 16 calls(n), calls(n) <= 4(n+1)^4,
   calls(2n) <= 4(2n+1)^4 — computed by the kernel (VM) on the engine model and lifted with forallb_forall. *)
Theorem C17_growth_bounded_partial :
  forall (f : family) (n : nat),
  In f families ->
  In n (fm_domain f) ->
  exists a b : N,
    calls_of f n = Some a /\
    calls_of f (2 * n) = Some b /\
    b <= 16 * a /\
    a <= COST_C * (N.of_nat n + 1) ^ 4 /\ b <= COST_C * (2 * N.of_nat n + 1) ^ 4.
Proof. exact @CostProofs.growth_bounded. Qed.
Print Assumptions C17_growth_bounded_partial.

(* The call count is a function of grammar and input. *)
Theorem C17_deterministic :
  forall (f : family) (n : nat) (a b : option N),
  calls_of f n = a -> calls_of f n = b -> a = b.
Proof. exact @CostProofs.calls_deterministic. Qed.
Print Assumptions C17_deterministic.

(* UNBOUNDED, first family: for EVERY n >= 1 and any fuel >= 5n+14, parsing a b^(n-1) with P -> P b | a under Sentence succeeds,
   makes exactly (n^2 + 9n + 16)/2 parser calls (298 for n = 20, the number pinned in main_test.go), leaves exactly n+2 cache
   entries and n+2 nested body executions — proved symbolically by induction on the curtailment depth. *)
Theorem C17_direct_closed_form :
  forall n fuel : nat,
  (1 <= n)%nat ->
  (5 * n + 14 <= fuel)%nat ->
  exists c : ctx,
    parse_top (dinp n) (fm_rules fam_direct) fuel (sentence (fm_root fam_direct)) =
    Ok (TopNode [top_node n] c) /\
    calls c = closed_form n /\
    cache c = centries n (S (S n)) 0 /\ g_bodies c = glog (S (S n)) 0.
Proof. exact @ClosedForm.direct_run_closed_form. Qed.
Print Assumptions C17_direct_closed_form.

(* Hence for all n >= 1: calls(2n) <= 4 calls(n) and calls(n) <= 4 (n+1)^2 — quadratic for all input lengths. *)
Theorem C17_direct_growth_unbounded :
  forall n f1 f2 : nat,
  (1 <= n)%nat ->
  (5 * n + 14 <= f1)%nat ->
  (10 * n + 14 <= f2)%nat ->
  exists a b : N,
    direct_calls f1 n = Some a /\
    direct_calls f2 (2 * n) = Some b /\
    b <= 4 * a /\ a <= 4 * (N.of_nat n + 1) ^ 2 /\ b <= 4 * (2 * N.of_nat n + 1) ^ 2.
Proof. exact @ClosedForm.direct_growth_unbounded. Qed.
Print Assumptions C17_direct_growth_unbounded.

(* The closed form agrees with the function the bounded theorem computes with. *)
Theorem C17_direct_calls_of :
  forall n : nat,
  (1 <= n)%nat -> N.of_nat n <= 3997 -> calls_of fam_direct n = Some (closed_form n).
Proof. exact @ClosedForm.calls_of_closed_form. Qed.
Print Assumptions C17_direct_calls_of.

