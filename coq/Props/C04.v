(* C04 — Parse yields a node or an error, never neither; Sentence means whole input.
   Only statements: each theorem repeats the full statement of a lemma proved elsewhere and is closed by [exact]. *)
From Coq Require Import String List NArith ZArith Bool.
From Parsley Require Import Obs Base Grammar Engine Spec Sound Complete Pump Top ExactSpec Exact TopProofs.
Import ListNotations.
Open Scope N_scope.

(* parsley.Parse returns exactly one of a non-empty result or an error, for every grammar, input and fuel (the model's
   TopNode always carries a non-empty node list; TopErr an error). *)
Theorem C04_xor :
  forall (inp : input) (rules : list pexpr) (fuel : nat) (root : pexpr) (t : top),
  parse_top inp rules fuel root = Ok t ->
  match t with
  | TopNode ns _ => ns <> []
  | TopErr _ _ => True
  end.
Proof. exact @Top.parse_top_xor. Qed.
Print Assumptions C04_xor.

(* A successful Sentence-rooted parse returns exactly one tree, which starts at the first byte, ends at end of input, is
   span-well-formed, and is SEQ[t; EOF] for a valid derivation t of the root that consumes the whole input (C01 fragment). *)
Theorem C04_sentence_sound :
  forall (inp : input) (rules : list pexpr) (site : N -> option pexpr),
  frag_rules rules ->
  wf_rules rules site ->
  forall (fuel : nat) (root : pexpr) (ns : list node) (c : ctx),
  frag root = true ->
  wf rules site root ->
  parse_top inp rules fuel (sentence root) = Ok (TopNode ns c) ->
  exists n : node,
    ns = [n] /\
    node_pos n = i_offset inp /\
    node_rpos n = i_offset inp + i_len inp /\
    span_ok inp n /\
    (exists d : dtree,
       valid inp rules root (i_offset inp) d /\
       dend d = i_offset inp + i_len inp /\
       n =
       NNonTerm (seq_token SeqOf) (ISelect 0) [yield d; NEnd (i_offset inp + i_len inp)]
         (i_offset inp) (i_offset inp + i_len inp)).
Proof. exact @Sound.C04_sentence_sound. Qed.
Print Assumptions C04_sentence_sound.

(* Its leaves spell the whole file. *)
Theorem C04_sentence_spells :
  forall (inp : input) (rules : list pexpr) (site : N -> option pexpr),
  frag_rules rules ->
  wf_rules rules site ->
  forall (fuel : nat) (root : pexpr) (ns : list node) (c : ctx),
  frag root = true ->
  wf rules site root ->
  parse_top inp rules fuel (sentence root) = Ok (TopNode ns c) ->
  exists n : node, ns = [n] /\ leaves inp n = i_data inp.
Proof. exact @Sound.C04_sentence_spells. Qed.
Print Assumptions C04_sentence_spells.

(* The same for all combinators (with trimming the tree starts after a whitespace run from the first byte). *)
Theorem C04_sentence_sound_all :
  forall (inp : input) (rules : list pexpr) (site : N -> option pexpr)
    (fuel : nat) (root : pexpr) (ns : list node) (c : ctx),
  wf_rules rules site ->
  wf rules site root ->
  parse_top inp rules fuel (sentence root) = Ok (TopNode ns c) ->
  exists n : node,
    ns = [n] /\
    ws_run inp (i_offset inp) (node_pos n) /\
    node_rpos n = i_offset inp + i_len inp /\
    xspan_ok inp n /\
    (exists d : xtree,
       xvalid inp rules root (i_offset inp) d /\
       xdend inp d = i_offset inp + i_len inp /\
       n =
       NNonTerm (seq_token SeqOf) (ISelect 0) [xyield inp d; NEnd (i_offset inp + i_len inp)]
         (node_pos (xyield inp d)) (i_offset inp + i_len inp)).
Proof. exact @Sound.C04_sentence_sound_all. Qed.
Print Assumptions C04_sentence_sound_all.

(* Sentence never returns more than one tree (any grammar, any context). *)
Theorem C04_sentence_single :
  forall (inp : input) (rules : list pexpr) (fuel : nat) (root : pexpr)
    (c : ctx) (stk : stack) (lrc : intmap) (pos : N) (ns : list node) 
    (cp : intset) (err : option perr) (c' : ctx),
  parse inp rules fuel (sentence root) c stk lrc pos = Ok (ns, cp, err, c') ->
  ns = [] \/ (exists n : node, ns = [n]).
Proof. exact @Sound.sentence_single. Qed.
Print Assumptions C04_sentence_single.

(* PARTIAL (monotone fragment, see C01): if some derivation of the root consumes the entire input, the Sentence-rooted
   parse succeeds.  Together with C04_sentence_sound: it succeeds PRECISELY when some parse consumes the entire input. *)
Theorem C04_sentence_complete_partial :
  forall (inp : input) (rules : list pexpr) (site : N -> option pexpr),
  wf_rules rules site ->
  (forall (k : N) (body : pexpr), nth_N rules k = Some body -> mono body = true) ->
  (forall (k : N) (body : pexpr), nth_N rules k = Some body -> endfree body = true) ->
  forall root : pexpr,
  wf rules site root ->
  mono root = true ->
  endfree root = true ->
  forall (fuel : nat) (t : top) (d : dtree),
  parse_top inp rules fuel (sentence root) = Ok t ->
  valid inp rules root (i_offset inp) d ->
  dend d = i_offset inp + i_len inp ->
  exists (n0 : node) (c : ctx),
    is_eof inp (node_rpos n0) = true /\
    t = TopNode [handle_result (sq root) (i_offset inp) [n0; NEnd (node_rpos n0)]] c.
Proof. exact @Pump.C04_sentence_complete. Qed.
Print Assumptions C04_sentence_complete_partial.

(* EVALUATE CLAUSE (model: Top.evaluate = parsley.Evaluate on Engine.parse_top = parsley.Parse).  Evaluate returns exactly one of:
   the value of the single tree Parse returned; Parse's error; an evaluation error; a panic, which is either the parser's own or an
   interpreter's on the single tree; it runs out of fuel only if the parse does (EvaluateNode itself needs no fuel). *)
Theorem C04_evaluate_outcomes :
  forall (inp : input) (rules : list pexpr) (fuel : nat) (root : pexpr),
  match evaluate inp rules fuel root with
  | Ok (EvValue v) =>
      exists (n : node) (c : ctx),
        parse_top inp rules fuel root = Ok (TopNode [n] c) /\ eval_node n = Ok (inl v)
  | Ok (EvParseErr e) => exists c : ctx, parse_top inp rules fuel root = Ok (TopErr e c)
  | Ok (EvEvalErr e) =>
      exists (n : node) (ns : list node) (c : ctx),
        parse_top inp rules fuel root = Ok (TopNode (n :: ns) c) /\
        eval_result (n :: ns) = Ok (inr e)
  | Panic =>
      parse_top inp rules fuel root = Panic \/
      (exists (n : node) (c : ctx),
         parse_top inp rules fuel root = Ok (TopNode [n] c) /\ eval_node n = Panic)
  | OutOfFuel => parse_top inp rules fuel root = OutOfFuel
  end.
Proof. exact @TopProofs.evaluate_outcomes. Qed.
Print Assumptions C04_evaluate_outcomes.

(* Evaluate never evaluates a missing node (the nil dereference of the original code, defect D3): a panic of Evaluate is the
   parser's own panic or comes from an interpreter applied to the NON-EMPTY result of Parse (from C04_xor). *)
Theorem C04_evaluate_never_nil :
  forall (inp : input) (rules : list pexpr) (fuel : nat) (root : pexpr),
  evaluate inp rules fuel root = Panic ->
  parse_top inp rules fuel root = Panic \/
  (exists (n : node) (ns : list node) (c : ctx),
     parse_top inp rules fuel root = Ok (TopNode (n :: ns) c) /\ eval_result (n :: ns) = Panic).
Proof. exact @TopProofs.evaluate_never_nil. Qed.
Print Assumptions C04_evaluate_never_nil.

(* For a well-formed grammar (every reference points to a rule) the parser never panics, so a panic of Evaluate always comes from
   an interpreter applied to the single tree that Parse returned. *)
Theorem C04_evaluate_panic_is_interpreter :
  forall (inp : input) (rules : list pexpr) (site : N -> option pexpr)
    (fuel : nat) (root : pexpr),
  wf_rules rules site ->
  wf rules site root ->
  evaluate inp rules fuel root = Panic ->
  exists (n : node) (c : ctx),
    parse_top inp rules fuel root = Ok (TopNode [n] c) /\ eval_node n = Panic.
Proof. exact @TopProofs.evaluate_panic_is_interpreter. Qed.
Print Assumptions C04_evaluate_panic_is_interpreter.

(* parsley.Parse (the model) never panics on a well-formed grammar: the engine's only panic site is a dangling rule reference. *)
Theorem C04_parse_no_panic :
  forall (inp : input) (rules : list pexpr) (site : N -> option pexpr),
  wf_rules rules site ->
  forall (fuel : nat) (root : pexpr),
  wf rules site root -> parse_top inp rules fuel root <> Panic.
Proof. exact @TopProofs.parse_top_no_panic. Qed.
Print Assumptions C04_parse_no_panic.

(* A tree in which every non-terminal carries Nil, Array, a user interpreter (modelled as: evaluate all children in order, first
   error aborts, return the list of values) or Select(i) with i < its number of children evaluates to a value or an error: no panic. *)
Theorem C04_interp_total_evaluates :
  forall n : node, interp_total n = true -> exists r : value + perr, eval_node n = Ok r.
Proof. exact @TopProofs.eval_total. Qed.
Print Assumptions C04_interp_total_evaluates.

(* If every rule body and the expression pass the decidable check interp_ok_expr ("an interpreter for every non-terminal": Nil, Array,
   user, or Select(i) with i below the least number of children the sequence kind returns; a ReturnSingle SeqOf of one operand needs
   none), the yield of EVERY valid derivation (all combinators, Sound.xvalid) has such an interpreter at every non-terminal. *)
Theorem C04_grammar_interp_total :
  forall (inp : input) (rules : list pexpr),
  forallb interp_ok_expr rules = true ->
  forall (e : pexpr) (pos : N) (d : xtree),
  interp_ok_expr e = true -> xvalid inp rules e pos d -> interp_total (xyield inp d) = true.
Proof. exact @TopProofs.xvalid_interp_total. Qed.
Print Assumptions C04_grammar_interp_total.

(* The same for the derivations of Spec.valid (the C01 fragment). *)
Theorem C04_grammar_interp_total_frag :
  forall (inp : input) (rules : list pexpr),
  forallb interp_ok_expr rules = true ->
  forall (e : pexpr) (pos : N) (d : dtree),
  interp_ok_expr e = true -> valid inp rules e pos d -> interp_total (yield d) = true.
Proof. exact @TopProofs.valid_interp_total. Qed.
Print Assumptions C04_grammar_interp_total_frag.

(* THE EVALUATE CLAUSE: for a well-formed grammar (as in C01_sound_all) whose rules and root pass interp_ok_expr, for every input and
   every fuel, Evaluate returns a value, Parse's error or an evaluation error (or the parse itself ran out of fuel) - never a panic.
   The hypotheses are needed: TopProofs.needs_interpreter, select_on_many_panics, select_on_seqtry_panics. *)
Theorem C04_evaluate_total :
  forall (inp : input) (rules : list pexpr) (site : N -> option pexpr)
    (fuel : nat) (root : pexpr),
  wf_rules rules site ->
  wf rules site root ->
  forallb interp_ok_expr rules = true ->
  interp_ok_expr root = true ->
  (exists v : value, evaluate inp rules fuel root = Ok (EvValue v)) \/
  (exists e : perr, evaluate inp rules fuel root = Ok (EvParseErr e)) \/
  (exists e : perr, evaluate inp rules fuel root = Ok (EvEvalErr e)) \/
  evaluate inp rules fuel root = OutOfFuel /\ parse_top inp rules fuel root = OutOfFuel.
Proof. exact @TopProofs.C04_evaluate_total. Qed.
Print Assumptions C04_evaluate_total.

(* The same with the Sentence root (Sentence binds Select(0) to SeqOf(root, End), which passes the check by itself). *)
Theorem C04_evaluate_sentence_total :
  forall (inp : input) (rules : list pexpr) (site : N -> option pexpr)
    (fuel : nat) (root : pexpr),
  wf_rules rules site ->
  wf rules site root ->
  forallb interp_ok_expr rules = true ->
  interp_ok_expr root = true ->
  (exists v : value, evaluate inp rules fuel (sentence root) = Ok (EvValue v)) \/
  (exists e : perr, evaluate inp rules fuel (sentence root) = Ok (EvParseErr e)) \/
  (exists e : perr, evaluate inp rules fuel (sentence root) = Ok (EvEvalErr e)) \/
  evaluate inp rules fuel (sentence root) = OutOfFuel /\
  parse_top inp rules fuel (sentence root) = OutOfFuel.
Proof. exact @TopProofs.C04_evaluate_sentence_total. Qed.
Print Assumptions C04_evaluate_sentence_total.

(* Sentence over a stratified root: succeeds precisely when some exact derivation consumes the entire input. *)
Theorem C04_sentence_exact :
  forall (inp : input) (rules : list pexpr) (site : N -> option pexpr) (rl ml : N -> nat),
  wf_rules rules site ->
  (forall (k : N) (body : pexpr), nth_N rules k = Some body -> endfree body = true) ->
  rules_lev rl ml rules ->
  forall (L : nat) (root : pexpr),
  lev_ok rl ml L root = true ->
  wf rules site root ->
  endfree root = true ->
  forall (fuel : nat) (t : top) (d : dtree),
  parse_top inp rules fuel (sentence root) = Ok t ->
  exact inp rules L root (i_offset inp) d ->
  dend d = i_offset inp + i_len inp ->
  exists (d0 : dtree) (c : ctx),
    exact inp rules L root (i_offset inp) d0 /\
    is_eof inp (dend d0) = true /\
    t = TopNode [handle_result (sq root) (i_offset inp) [yield d0; NEnd (dend d0)]] c.
Proof. exact @Exact.C04_sentence_exact. Qed.
Print Assumptions C04_sentence_exact.

