(* C04 — statements are added when the engine proofs (see notes/) are closed. *)
From Parsley Require Import Engine Spec.
