(* C04 — Parse yields a node or an error, never neither; Sentence means whole input.
   Only statements: each theorem repeats the full statement of a lemma proved elsewhere and is closed by [exact]. *)
From Coq Require Import String List NArith ZArith Bool.
From Parsley Require Import Obs Base Grammar Engine Spec Sound Complete Pump Top.
Import ListNotations.
Open Scope N_scope.

(* parsley.Parse returns exactly one of a non-empty result or an error, for every grammar, input and fuel (the model's
   TopNode always carries a non-empty node list; TopErr an error). *)
Theorem C04_xor :
  forall (inp : input) (rules : list pexpr) (fuel : nat) (root : pexpr) (t : top),
  parse_top inp rules fuel root = Ok t ->
  match t with
  | TopNode ns _ => ns <> []
  | TopErr _ _ => True
  end.
Proof. exact @Top.parse_top_xor. Qed.
Print Assumptions C04_xor.

(* A successful Sentence-rooted parse returns exactly one tree, which starts at the first byte, ends at end of input, is
   span-well-formed, and is SEQ[t; EOF] for a valid derivation t of the root that consumes the whole input (C01 fragment). *)
Theorem C04_sentence_sound :
  forall (inp : input) (rules : list pexpr) (site : N -> option pexpr),
  frag_rules rules ->
  wf_rules rules site ->
  forall (fuel : nat) (root : pexpr) (ns : list node) (c : ctx),
  frag root = true ->
  wf rules site root ->
  parse_top inp rules fuel (sentence root) = Ok (TopNode ns c) ->
  exists n : node,
    ns = [n] /\
    node_pos n = i_offset inp /\
    node_rpos n = i_offset inp + i_len inp /\
    span_ok inp n /\
    (exists d : dtree,
       valid inp rules root (i_offset inp) d /\
       dend d = i_offset inp + i_len inp /\
       n =
       NNonTerm (seq_token SeqOf) (ISelect 0) [yield d; NEnd (i_offset inp + i_len inp)]
         (i_offset inp) (i_offset inp + i_len inp)).
Proof. exact @Sound.C04_sentence_sound. Qed.
Print Assumptions C04_sentence_sound.

(* Its leaves spell the whole file. *)
Theorem C04_sentence_spells :
  forall (inp : input) (rules : list pexpr) (site : N -> option pexpr),
  frag_rules rules ->
  wf_rules rules site ->
  forall (fuel : nat) (root : pexpr) (ns : list node) (c : ctx),
  frag root = true ->
  wf rules site root ->
  parse_top inp rules fuel (sentence root) = Ok (TopNode ns c) ->
  exists n : node, ns = [n] /\ leaves inp n = i_data inp.
Proof. exact @Sound.C04_sentence_spells. Qed.
Print Assumptions C04_sentence_spells.

(* The same for all combinators (with trimming the tree starts after a whitespace run from the first byte). *)
Theorem C04_sentence_sound_all :
  forall (inp : input) (rules : list pexpr) (site : N -> option pexpr)
    (fuel : nat) (root : pexpr) (ns : list node) (c : ctx),
  wf_rules rules site ->
  wf rules site root ->
  parse_top inp rules fuel (sentence root) = Ok (TopNode ns c) ->
  exists n : node,
    ns = [n] /\
    ws_run inp (i_offset inp) (node_pos n) /\
    node_rpos n = i_offset inp + i_len inp /\
    xspan_ok inp n /\
    (exists d : xtree,
       xvalid inp rules root (i_offset inp) d /\
       xdend inp d = i_offset inp + i_len inp /\
       n =
       NNonTerm (seq_token SeqOf) (ISelect 0) [xyield inp d; NEnd (i_offset inp + i_len inp)]
         (node_pos (xyield inp d)) (i_offset inp + i_len inp)).
Proof. exact @Sound.C04_sentence_sound_all. Qed.
Print Assumptions C04_sentence_sound_all.

(* Sentence never returns more than one tree (any grammar, any context). *)
Theorem C04_sentence_single :
  forall (inp : input) (rules : list pexpr) (fuel : nat) (root : pexpr)
    (c : ctx) (stk : stack) (lrc : intmap) (pos : N) (ns : list node) 
    (cp : intset) (err : option perr) (c' : ctx),
  parse inp rules fuel (sentence root) c stk lrc pos = Ok (ns, cp, err, c') ->
  ns = [] \/ (exists n : node, ns = [n]).
Proof. exact @Sound.sentence_single. Qed.
Print Assumptions C04_sentence_single.

(* PARTIAL (monotone fragment, see C01): if some derivation of the root consumes the entire input, the Sentence-rooted
   parse succeeds.  Together with C04_sentence_sound: it succeeds PRECISELY when some parse consumes the entire input. *)
Theorem C04_sentence_complete_partial :
  forall (inp : input) (rules : list pexpr) (site : N -> option pexpr),
  wf_rules rules site ->
  (forall (k : N) (body : pexpr), nth_N rules k = Some body -> mono body = true) ->
  (forall (k : N) (body : pexpr), nth_N rules k = Some body -> endfree body = true) ->
  forall root : pexpr,
  wf rules site root ->
  mono root = true ->
  endfree root = true ->
  forall (fuel : nat) (t : top) (d : dtree),
  parse_top inp rules fuel (sentence root) = Ok t ->
  valid inp rules root (i_offset inp) d ->
  dend d = i_offset inp + i_len inp ->
  exists (n0 : node) (c : ctx),
    is_eof inp (node_rpos n0) = true /\
    t = TopNode [handle_result (sq root) (i_offset inp) [n0; NEnd (node_rpos n0)]] c.
Proof. exact @Pump.C04_sentence_complete. Qed.
Print Assumptions C04_sentence_complete_partial.

