(* C02 — Every memoized grammar terminates with bounded re-entry per position.
   Only statements: each theorem repeats the full statement of a lemma proved elsewhere and is closed by [exact]. *)
From Coq Require Import String List NArith ZArith Bool.
From Parsley Require Import Obs Base Grammar Engine EngineFacts Activation Termination.
Import ListNotations.
Open Scope N_scope.

(* For EVERY grammar (no well-formedness), input, fuel and call: if the activation invariant holds at the call then every
   Memoize body execution logged during it has at most remaining+2 activations of that (parser, position) pair. *)
Theorem C02_activation_bound :
  forall (inp : input) (rules : list pexpr) (fuel : nat) (e : pexpr)
    (c : ctx) (stk : stack) (lrc : intmap) (pos : N) (ns : list node) 
    (cp : intset) (err : option perr) (c' : ctx),
  Inv stk lrc pos ->
  cache_ge c ->
  (forall i p a : N, In (i, p, a) (g_bodies c) -> a <= remaining inp p + 2) ->
  parse inp rules fuel e c stk lrc pos = Ok (ns, cp, err, c') ->
  forall i p a : N, In (i, p, a) (g_bodies c') -> a <= remaining inp p + 2.
Proof. exact @Activation.C02_activation_bound. Qed.
Print Assumptions C02_activation_bound.

(* No memoized parser is ever active more than (remaining input + 2) times at one position in a run from a fresh context. *)
Theorem C02_activation_bound_run :
  forall (inp : input) (rules : list pexpr) (fuel : nat) (root : pexpr)
    (ns : list node) (cp : intset) (err : option perr) (c' : ctx),
  run inp rules fuel root = Ok (ns, cp, err, c') ->
  forall i p a : N, In (i, p, a) (g_bodies c') -> a <= remaining inp p + 2.
Proof. exact @Activation.C02_activation_bound_run. Qed.
Print Assumptions C02_activation_bound_run.

(* The same for parsley.Parse. *)
Theorem C02_activation_bound_top :
  forall (inp : input) (rules : list pexpr) (fuel : nat) (root : pexpr) (t : Engine.top),
  parse_top inp rules fuel root = Ok t ->
  forall i p a : N, In (i, p, a) (g_bodies (top_ctx t)) -> a <= remaining inp p + 2.
Proof. exact @Activation.C02_activation_bound_top. Qed.
Print Assumptions C02_activation_bound_top.

(* Sensitivity: resetting the left-recursion context without a change of position (the defect repaired in seq.go) breaks the invariant. *)
Theorem C02_old_rule_breaks_inv :
  exists (stk : stack) (lrc : intmap) (pos : N), Inv stk lrc pos /\ ~ Inv stk [] pos.
Proof. exact @Activation.old_rule_breaks_inv. Qed.
Print Assumptions C02_old_rule_breaks_inv.

(* Results never end before they start, and every match of a syntactically consuming expression consumes input (a terminal is
   consuming when term_strict holds: every rune, every literal parser except a user regular expression that can match the empty string). *)
Theorem C02_consuming_progress :
  forall (inp : input) (rules : list pexpr) (site : N -> option pexpr) (K : list N),
  (forall (k : N) (body : pexpr), nth_N rules k = Some body -> wfe site K body) ->
  forall (fuel : nat) (e : pexpr) (c : ctx) (stk : stack) (lrc : intmap) 
    (pos : N) (ns : list node) (cp : intset) (err : option perr) (c' : ctx),
  wfe site K e ->
  cache_ge c ->
  cache_rng inp rules site c ->
  parse inp rules fuel e c stk lrc pos = Ok (ns, cp, err, c') ->
  cache_rng inp rules site c' /\
  (forall n : node, In n ns -> node_rpos n <= N.max pos (fend_of inp)) /\
  (consuming rules e -> forall n : node, In n ns -> pos < node_rpos n).
Proof. exact @Termination.consuming_progress. Qed.
Print Assumptions C02_consuming_progress.

(* TERMINATION: for every grammar whose recursive nonterminals are memoized (every rule body is a Memoize with one site per
   index) and whose repetition operands consume input, every expression of the grammar, every context (any cache satisfying
   the range invariants), stack, left-recursion context and position: some fuel suffices — direct, indirect and hidden left
   recursion, cyclic and nullable rules included. *)
Theorem C02_terminates :
  forall (inp : input) (rules : list pexpr) (site : N -> option pexpr) (K : list N) (Sz : nat),
  wf_grammar rules site K Sz ->
  forall (e : pexpr) (c : ctx) (stk : stack) (lrc : intmap) (pos : N),
  wfe site K e ->
  reps_ok rules e ->
  (size e <= Sz)%nat ->
  cache_ge c ->
  cache_rng inp rules site c ->
  exists fuel : nat, parse inp rules fuel e c stk lrc pos <> OutOfFuel.
Proof. exact @Termination.C02_terminates. Qed.
Print Assumptions C02_terminates.

(* EXPLICIT BOUND on the recursion depth: any fuel >= (len+1)*((|K|*(len+2)+1)*(Sz+1)) suffices (K the Memoize indexes,
   Sz the largest expression size), so the depth of the Go recursion is polynomially bounded and the stack cannot be exhausted. *)
Theorem C02_terminates_bound :
  forall (inp : input) (rules : list pexpr) (site : N -> option pexpr) (K : list N) (Sz : nat),
  wf_grammar rules site K Sz ->
  forall (fuel : nat) (e : pexpr) (c : ctx) (stk : stack) (lrc : intmap) (pos : N),
  wfe site K e ->
  reps_ok rules e ->
  (size e <= Sz)%nat ->
  cache_ge c ->
  cache_rng inp rules site c ->
  i_offset inp <= pos ->
  (fuel_bound inp K Sz <= fuel)%nat -> parse inp rules fuel e c stk lrc pos <> OutOfFuel.
Proof. exact @Termination.C02_terminates_bound. Qed.
Print Assumptions C02_terminates_bound.

(* The closed form of the bound. *)
Theorem C02_fuel_bound_eq :
  forall (inp : input) (K : list N) (Sz : nat),
  fuel_bound inp K Sz =
  ((N.to_nat (i_len inp) + 1) *
   ((Datatypes.length K * (N.to_nat (i_len inp) + 2) + 1) * (Sz + 1)))%nat.
Proof. exact @Termination.fuel_bound_eq. Qed.
Print Assumptions C02_fuel_bound_eq.

(* All sufficiently large fuels give the same answer. *)
Theorem C02_fuel_indep :
  forall (inp : input) (rules : list pexpr) (site : N -> option pexpr) (K : list N) (Sz : nat),
  wf_grammar rules site K Sz ->
  forall (fuel : nat) (e : pexpr) (c : ctx) (stk : stack) (lrc : intmap) (pos : N),
  wfe site K e ->
  reps_ok rules e ->
  (size e <= Sz)%nat ->
  cache_ge c ->
  cache_rng inp rules site c ->
  i_offset inp <= pos ->
  (fuel_bound inp K Sz <= fuel)%nat ->
  parse inp rules fuel e c stk lrc pos = parse inp rules (fuel_bound inp K Sz) e c stk lrc pos.
Proof. exact @Termination.C02_fuel_indep. Qed.
Print Assumptions C02_fuel_indep.

(* Termination of a run from a fresh context. *)
Theorem C02_terminates_run :
  forall (inp : input) (rules : list pexpr) (site : N -> option pexpr) (K : list N) (Sz : nat),
  wf_grammar rules site K Sz ->
  forall (fuel : nat) (root : pexpr),
  wfe site K root ->
  reps_ok rules root ->
  (size root <= Sz)%nat ->
  (fuel_bound inp K Sz <= fuel)%nat ->
  run inp rules fuel root <> OutOfFuel /\
  run inp rules fuel root = run inp rules (fuel_bound inp K Sz) root.
Proof. exact @Termination.C02_terminates_run. Qed.
Print Assumptions C02_terminates_run.

(* Termination of parsley.Parse. *)
Theorem C02_terminates_top :
  forall (inp : input) (rules : list pexpr) (site : N -> option pexpr) (K : list N) (Sz : nat),
  wf_grammar rules site K Sz ->
  forall (fuel : nat) (root : pexpr),
  wfe site K root ->
  reps_ok rules root ->
  (size root <= Sz)%nat ->
  (fuel_bound inp K Sz <= fuel)%nat -> parse_top inp rules fuel root <> OutOfFuel.
Proof. exact @Termination.C02_terminates_top. Qed.
Print Assumptions C02_terminates_top.

