(* C01 — Parse results equal the grammar's derivations, including left recursion.
   Only statements: each theorem repeats the full statement of a lemma proved elsewhere and is closed by [exact]. *)
From Coq Require Import String List NArith ZArith Bool.
From Parsley Require Import Obs Base Grammar Engine Spec Sound Complete Pump.
Import ListNotations.
Open Scope N_scope.

(* SOUNDNESS. For every grammar of the C01 fragment (Any, SeqOf, Optional, Empty, End, Choice, Many, SepBy, SeqTry,
   SeqFirstOrAll, memoized nonterminals, rune terminals AND the literal terminals of text/terminal (TLit, any parameters);
   one Memoize site per index), every input, offset and fuel:
   every tree returned by a run from a fresh context is the yield of a valid derivation of the root from the first
   byte, starts there, ends inside the file, and is span-well-formed (children contiguous, every rune leaf spells the byte
   it consumed, every literal leaf ends at or after its start); the final cache holds only such trees.  No hypothesis on fuel, ambiguity or recursion shape. *)
Theorem C01_sound :
  forall (inp : input) (rules : list pexpr) (site : N -> option pexpr),
  frag_rules rules ->
  wf_rules rules site ->
  forall (fuel : nat) (root : pexpr) (ns : list node) (cp : intset) 
    (err : option perr) (c : ctx),
  frag root = true ->
  wf rules site root ->
  run inp rules fuel root = Ok (ns, cp, err, c) ->
  cache_sound inp rules site c /\
  (forall n : node,
   In n ns ->
   (exists d : dtree, valid inp rules root (i_offset inp) d /\ yield d = n) /\
   node_pos n = i_offset inp /\
   i_offset inp <= node_rpos n /\ in_file inp (node_rpos n) /\ span_ok inp n).
Proof. exact @Sound.C01_sound. Qed.
Print Assumptions C01_sound.

(* The leaves of every returned tree (a rune leaf: its byte; a literal leaf: its lexeme, the bytes it spans) spell exactly the consumed slice of the file. *)
Theorem C01_sound_spells :
  forall (inp : input) (rules : list pexpr) (site : N -> option pexpr),
  frag_rules rules ->
  wf_rules rules site ->
  forall (fuel : nat) (root : pexpr) (ns : list node) (cp : intset) 
    (err : option perr) (c : ctx),
  frag root = true ->
  wf rules site root ->
  run inp rules fuel root = Ok (ns, cp, err, c) ->
  forall n : node, In n ns -> leaves inp n = slice inp (i_offset inp) (node_rpos n).
Proof. exact @Sound.C01_sound_spells. Qed.
Print Assumptions C01_sound_spells.

(* Pure: a valid derivation's yield starts at its position, ends at or after it inside the file, and is span-well-formed. *)
Theorem C01_valid_span :
  forall (inp : input) (rules : list pexpr) (e : pexpr) (pos : N) (d : dtree),
  in_file inp pos ->
  valid inp rules e pos d ->
  node_pos (yield d) = pos /\ pos <= dend d /\ in_file inp (dend d) /\ span_ok inp (yield d).
Proof. exact @Sound.valid_span. Qed.
Print Assumptions C01_valid_span.

(* Soundness for ALL combinators (Name, SuppressError, Single, LeftTrim, RightTrim, named sequences too), with the
   extended derivation relation xvalid of Sound.v (whitespace runs allowed between and behind children). *)
Theorem C01_sound_all :
  forall (inp : input) (rules : list pexpr) (site : N -> option pexpr),
  wf_rules rules site ->
  forall (fuel : nat) (root : pexpr) (ns : list node) (cp : intset) 
    (err : option perr) (c : ctx),
  wf rules site root ->
  run inp rules fuel root = Ok (ns, cp, err, c) ->
  xcache_sound inp rules site c /\
  (forall n : node,
   In n ns ->
   (exists d : xtree, xvalid inp rules root (i_offset inp) d /\ xyield inp d = n) /\
   ws_run inp (i_offset inp) (node_pos n) /\
   node_pos n <= node_rpos n /\ in_file inp (node_rpos n) /\ xspan_ok inp n).
Proof. exact @Sound.C01_sound_all. Qed.
Print Assumptions C01_sound_all.

(* PARTIAL with respect to the full property: completeness is proved for the monotone fragment; the full statement also
   covers Choice, Many, SepBy, SeqTry and SeqFirstOrAll with their first-match / longest-path rules under stratification,
   which is covered by the correspondence and the executable oracle only (soundness above does cover them).
   COMPLETENESS INVARIANT (Frost-Hafiz-Callaghan curtailment with context-sensitive cache reuse), monotone fragment
   (terminals, Empty, references, Memoize, Any, Optional, SeqOf; End-free, which for a literal terminal also means that its node's
   token is not "EOF" — seq.go recognises End by token, so terminal.Word("eof") counts as End): every valid derivation that is compatible
   with the empty left-recursion context (not cut by the curtailment bound) is in the result. *)
Theorem C01_complete_invariant_partial :
  forall (inp : input) (rules : list pexpr) (site : N -> option pexpr),
  wf_rules rules site ->
  (forall (k : N) (body : pexpr), nth_N rules k = Some body -> mono body = true) ->
  (forall (k : N) (body : pexpr), nth_N rules k = Some body -> endfree body = true) ->
  forall (fuel : nat) (root : pexpr) (ns : list node) (cp : intset) 
    (err : option perr) (c' : ctx),
  wf rules site root ->
  mono root = true ->
  endfree root = true ->
  run inp rules fuel root = Ok (ns, cp, err, c') ->
  forall d : dtree,
  valid inp rules root (i_offset inp) d -> compat inp [] (i_offset inp) d -> In (yield d) ns.
Proof. exact @Complete.complete_top. Qed.
Print Assumptions C01_complete_invariant_partial.

(* EVERY REACHABLE END POSITION IS RETURNED: for every valid derivation of the root there is a returned tree with the
   same end — under direct, indirect and hidden left recursion, ambiguity, empty alternatives (pumping argument). *)
Theorem C01_complete_ends_partial :
  forall (inp : input) (rules : list pexpr) (site : N -> option pexpr),
  wf_rules rules site ->
  (forall (k : N) (body : pexpr), nth_N rules k = Some body -> mono body = true) ->
  (forall (k : N) (body : pexpr), nth_N rules k = Some body -> endfree body = true) ->
  forall root : pexpr,
  wf rules site root ->
  mono root = true ->
  endfree root = true ->
  forall (fuel : nat) (ns : list node) (cp : intset) (err : option perr) (c : ctx),
  run inp rules fuel root = Ok (ns, cp, err, c) ->
  forall d : dtree,
  valid inp rules root (i_offset inp) d -> exists n : node, In n ns /\ node_rpos n = dend d.
Proof. exact @Pump.C01_complete_ends. Qed.
Print Assumptions C01_complete_ends_partial.

(* EVERY DISTINCT TREE IS RETURNED unless it contains a unit cycle (a Memoize node nested in itself at the same
   position with the same end); grammars with finitely many trees have no such derivations. *)
Theorem C01_complete_trees_partial :
  forall (inp : input) (rules : list pexpr) (site : N -> option pexpr),
  wf_rules rules site ->
  (forall (k : N) (body : pexpr), nth_N rules k = Some body -> mono body = true) ->
  (forall (k : N) (body : pexpr), nth_N rules k = Some body -> endfree body = true) ->
  forall root : pexpr,
  wf rules site root ->
  mono root = true ->
  endfree root = true ->
  forall (fuel : nat) (ns : list node) (cp : intset) (err : option perr) (c : ctx),
  run inp rules fuel root = Ok (ns, cp, err, c) ->
  forall d : dtree,
  valid inp rules root (i_offset inp) d -> nopump (i_offset inp) d -> In (yield d) ns.
Proof. exact @Pump.C01_complete_trees. Qed.
Print Assumptions C01_complete_trees_partial.

(* Pure: every valid derivation can be cut down to a valid derivation with the same end that the curtailment bound admits. *)
Theorem C01_pump_ends :
  forall (inp : input) (rules : list pexpr) (site : N -> option pexpr),
  wf_rules rules site ->
  forall (e : pexpr) (pos : N) (d : dtree),
  valid inp rules e pos d ->
  wf rules site e ->
  in_file inp pos ->
  exists d' : dtree, valid inp rules e pos d' /\ dend d' = dend d /\ compat inp [] pos d'.
Proof. exact @Pump.pump_ends. Qed.
Print Assumptions C01_pump_ends.

(* Pure: a derivation without unit cycles is admitted by the curtailment bound. *)
Theorem C01_nopump_compat :
  forall (inp : input) (rules : list pexpr) (e : pexpr) (pos : N) (d : dtree),
  valid inp rules e pos d -> in_file inp pos -> nopump pos d -> compat inp [] pos d.
Proof. exact @Pump.nopump_compat. Qed.
Print Assumptions C01_nopump_compat.

