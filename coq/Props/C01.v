(* C01 — Parse results equal the grammar's derivations, including left recursion.
   Only statements: each theorem repeats the full statement of a lemma proved elsewhere and is closed by [exact]. *)
From Coq Require Import String List NArith ZArith Bool.
From Parsley Require Import Obs Base Grammar Engine Spec Sound Complete Pump ExactSpec Exact.
Import ListNotations.
Open Scope N_scope.

(* SOUNDNESS. For every grammar of the C01 fragment (Any, SeqOf, Optional, Empty, End, Choice, Many, SepBy, SeqTry,
   SeqFirstOrAll, memoized nonterminals, rune terminals AND the literal terminals of text/terminal (TLit, any parameters);
   one Memoize site per index), every input, offset and fuel:
   every tree returned by a run from a fresh context is the yield of a valid derivation of the root from the first
   byte, starts there, ends inside the file, and is span-well-formed (children contiguous, every rune leaf spells the byte
   it consumed, every literal leaf ends at or after its start); the final cache holds only such trees.  No hypothesis on fuel, ambiguity or recursion shape. *)
Theorem C01_sound :
  forall (inp : input) (rules : list pexpr) (site : N -> option pexpr),
  frag_rules rules ->
  wf_rules rules site ->
  forall (fuel : nat) (root : pexpr) (ns : list node) (cp : intset) 
    (err : option perr) (c : ctx),
  frag root = true ->
  wf rules site root ->
  run inp rules fuel root = Ok (ns, cp, err, c) ->
  cache_sound inp rules site c /\
  (forall n : node,
   In n ns ->
   (exists d : dtree, valid inp rules root (i_offset inp) d /\ yield d = n) /\
   node_pos n = i_offset inp /\
   i_offset inp <= node_rpos n /\ in_file inp (node_rpos n) /\ span_ok inp n).
Proof. exact @Sound.C01_sound. Qed.
Print Assumptions C01_sound.

(* The leaves of every returned tree (a rune leaf: its byte; a literal leaf: its lexeme, the bytes it spans) spell exactly the consumed slice of the file. *)
Theorem C01_sound_spells :
  forall (inp : input) (rules : list pexpr) (site : N -> option pexpr),
  frag_rules rules ->
  wf_rules rules site ->
  forall (fuel : nat) (root : pexpr) (ns : list node) (cp : intset) 
    (err : option perr) (c : ctx),
  frag root = true ->
  wf rules site root ->
  run inp rules fuel root = Ok (ns, cp, err, c) ->
  forall n : node, In n ns -> leaves inp n = slice inp (i_offset inp) (node_rpos n).
Proof. exact @Sound.C01_sound_spells. Qed.
Print Assumptions C01_sound_spells.

(* Pure: a valid derivation's yield starts at its position, ends at or after it inside the file, and is span-well-formed. *)
Theorem C01_valid_span :
  forall (inp : input) (rules : list pexpr) (e : pexpr) (pos : N) (d : dtree),
  in_file inp pos ->
  valid inp rules e pos d ->
  node_pos (yield d) = pos /\ pos <= dend d /\ in_file inp (dend d) /\ span_ok inp (yield d).
Proof. exact @Sound.valid_span. Qed.
Print Assumptions C01_valid_span.

(* Soundness for ALL combinators (Name, SuppressError, Single, LeftTrim, RightTrim, named sequences too), with the
   extended derivation relation xvalid of Sound.v (whitespace runs allowed between and behind children). *)
Theorem C01_sound_all :
  forall (inp : input) (rules : list pexpr) (site : N -> option pexpr),
  wf_rules rules site ->
  forall (fuel : nat) (root : pexpr) (ns : list node) (cp : intset) 
    (err : option perr) (c : ctx),
  wf rules site root ->
  run inp rules fuel root = Ok (ns, cp, err, c) ->
  xcache_sound inp rules site c /\
  (forall n : node,
   In n ns ->
   (exists d : xtree, xvalid inp rules root (i_offset inp) d /\ xyield inp d = n) /\
   ws_run inp (i_offset inp) (node_pos n) /\
   node_pos n <= node_rpos n /\ in_file inp (node_rpos n) /\ xspan_ok inp n).
Proof. exact @Sound.C01_sound_all. Qed.
Print Assumptions C01_sound_all.

(* Completeness for the monotone fragment (the stratified operators are covered by the C01_exact_* theorems below).
   COMPLETENESS INVARIANT (Frost-Hafiz-Callaghan curtailment with context-sensitive cache reuse), monotone fragment
   (terminals, Empty, references, Memoize, Any, Optional, SeqOf; End-free, which for a literal terminal also means that its node's
   token is not "EOF" — seq.go recognises End by token, so terminal.Word("eof") counts as End): every valid derivation that is compatible
   with the empty left-recursion context (not cut by the curtailment bound) is in the result. *)
Theorem C01_complete_invariant :
  forall (inp : input) (rules : list pexpr) (site : N -> option pexpr),
  wf_rules rules site ->
  (forall (k : N) (body : pexpr), nth_N rules k = Some body -> mono body = true) ->
  (forall (k : N) (body : pexpr), nth_N rules k = Some body -> endfree body = true) ->
  forall (fuel : nat) (root : pexpr) (ns : list node) (cp : intset) 
    (err : option perr) (c' : ctx),
  wf rules site root ->
  mono root = true ->
  endfree root = true ->
  run inp rules fuel root = Ok (ns, cp, err, c') ->
  forall d : dtree,
  valid inp rules root (i_offset inp) d -> compat inp [] (i_offset inp) d -> In (yield d) ns.
Proof. exact @Complete.complete_top. Qed.
Print Assumptions C01_complete_invariant.

(* EVERY REACHABLE END POSITION IS RETURNED: for every valid derivation of the root there is a returned tree with the
   same end — under direct, indirect and hidden left recursion, ambiguity, empty alternatives (pumping argument). *)
Theorem C01_complete_ends :
  forall (inp : input) (rules : list pexpr) (site : N -> option pexpr),
  wf_rules rules site ->
  (forall (k : N) (body : pexpr), nth_N rules k = Some body -> mono body = true) ->
  (forall (k : N) (body : pexpr), nth_N rules k = Some body -> endfree body = true) ->
  forall root : pexpr,
  wf rules site root ->
  mono root = true ->
  endfree root = true ->
  forall (fuel : nat) (ns : list node) (cp : intset) (err : option perr) (c : ctx),
  run inp rules fuel root = Ok (ns, cp, err, c) ->
  forall d : dtree,
  valid inp rules root (i_offset inp) d -> exists n : node, In n ns /\ node_rpos n = dend d.
Proof. exact @Pump.C01_complete_ends. Qed.
Print Assumptions C01_complete_ends.

(* EVERY DISTINCT TREE IS RETURNED unless it contains a unit cycle (a Memoize node nested in itself at the same
   position with the same end); grammars with finitely many trees have no such derivations. *)
Theorem C01_complete_trees :
  forall (inp : input) (rules : list pexpr) (site : N -> option pexpr),
  wf_rules rules site ->
  (forall (k : N) (body : pexpr), nth_N rules k = Some body -> mono body = true) ->
  (forall (k : N) (body : pexpr), nth_N rules k = Some body -> endfree body = true) ->
  forall root : pexpr,
  wf rules site root ->
  mono root = true ->
  endfree root = true ->
  forall (fuel : nat) (ns : list node) (cp : intset) (err : option perr) (c : ctx),
  run inp rules fuel root = Ok (ns, cp, err, c) ->
  forall d : dtree,
  valid inp rules root (i_offset inp) d -> nopump (i_offset inp) d -> In (yield d) ns.
Proof. exact @Pump.C01_complete_trees. Qed.
Print Assumptions C01_complete_trees.

(* Pure: every valid derivation can be cut down to a valid derivation with the same end that the curtailment bound admits. *)
Theorem C01_pump_ends :
  forall (inp : input) (rules : list pexpr) (site : N -> option pexpr),
  wf_rules rules site ->
  forall (e : pexpr) (pos : N) (d : dtree),
  valid inp rules e pos d ->
  wf rules site e ->
  in_file inp pos ->
  exists d' : dtree, valid inp rules e pos d' /\ dend d' = dend d /\ compat inp [] pos d'.
Proof. exact @Pump.pump_ends. Qed.
Print Assumptions C01_pump_ends.

(* Pure: a derivation without unit cycles is admitted by the curtailment bound. *)
Theorem C01_nopump_compat :
  forall (inp : input) (rules : list pexpr) (e : pexpr) (pos : N) (d : dtree),
  valid inp rules e pos d -> in_file inp pos -> nopump pos d -> compat inp [] pos d.
Proof. exact @Pump.nopump_compat. Qed.
Print Assumptions C01_nopump_compat.

(* STRATIFIED GRAMMARS (Choice, Many, SepBy, SeqTry, SeqFirstOrAll anywhere, a level assignment exists - decidable check
   stratified_b - so that a least-fixpoint meaning exists; End-free, one Memoize site per index): every returned tree is the yield
   of an EXACT derivation: a valid derivation in which no earlier alternative of a Choice has a match and no sequence-family path
   can be extended (first-match / longest-path rules), by recursion on the stratum. *)
Theorem C01_exact_sound :
  forall (inp : input) (rules : list pexpr) (site : N -> option pexpr) (rl ml : N -> nat),
  wf_rules rules site ->
  (forall (k : N) (body : pexpr), nth_N rules k = Some body -> endfree body = true) ->
  rules_lev rl ml rules ->
  forall (L : nat) (root : pexpr),
  lev_ok rl ml L root = true ->
  wf rules site root ->
  endfree root = true ->
  forall (fuel : nat) (ns : list node) (cp : intset) (err : option perr) (c : ctx),
  run inp rules fuel root = Ok (ns, cp, err, c) ->
  forall n : node,
  In n ns ->
  exists d : dtree,
    exact inp rules L root (i_offset inp) d /\
    valid inp rules root (i_offset inp) d /\ yield d = n.
Proof. exact @Exact.C01_exact_sound. Qed.
Print Assumptions C01_exact_sound.

(* ... and every end position of an exact derivation is the end of a returned tree (left recursion above, below and around the
   non-monotone operators). *)
Theorem C01_exact_complete_ends :
  forall (inp : input) (rules : list pexpr) (site : N -> option pexpr) (rl ml : N -> nat),
  wf_rules rules site ->
  (forall (k : N) (body : pexpr), nth_N rules k = Some body -> endfree body = true) ->
  rules_lev rl ml rules ->
  forall (L : nat) (root : pexpr),
  lev_ok rl ml L root = true ->
  wf rules site root ->
  endfree root = true ->
  forall (fuel : nat) (ns : list node) (cp : intset) (err : option perr) (c : ctx),
  run inp rules fuel root = Ok (ns, cp, err, c) ->
  forall d : dtree,
  exact inp rules L root (i_offset inp) d -> exists n : node, In n ns /\ node_rpos n = dend d.
Proof. exact @Exact.C01_exact_complete_ends. Qed.
Print Assumptions C01_exact_complete_ends.

(* ... and every exact derivation without a unit cycle is returned. *)
Theorem C01_exact_complete_trees :
  forall (inp : input) (rules : list pexpr) (site : N -> option pexpr) (rl ml : N -> nat),
  wf_rules rules site ->
  (forall (k : N) (body : pexpr), nth_N rules k = Some body -> endfree body = true) ->
  rules_lev rl ml rules ->
  forall (L : nat) (root : pexpr),
  lev_ok rl ml L root = true ->
  wf rules site root ->
  endfree root = true ->
  forall (fuel : nat) (ns : list node) (cp : intset) (err : option perr) (c : ctx),
  run inp rules fuel root = Ok (ns, cp, err, c) ->
  forall d : dtree,
  exact inp rules L root (i_offset inp) d -> nopump (i_offset inp) d -> In (yield d) ns.
Proof. exact @Exact.C01_exact_complete_trees. Qed.
Print Assumptions C01_exact_complete_trees.

(* ... and nothing is returned iff no exact derivation exists. *)
Theorem C01_exact_empty :
  forall (inp : input) (rules : list pexpr) (site : N -> option pexpr) (rl ml : N -> nat),
  wf_rules rules site ->
  (forall (k : N) (body : pexpr), nth_N rules k = Some body -> endfree body = true) ->
  rules_lev rl ml rules ->
  forall (L : nat) (root : pexpr),
  lev_ok rl ml L root = true ->
  wf rules site root ->
  endfree root = true ->
  forall (fuel : nat) (ns : list node) (cp : intset) (err : option perr) (c : ctx),
  run inp rules fuel root = Ok (ns, cp, err, c) ->
  ns = [] <-> ~ (exists d : dtree, exact inp rules L root (i_offset inp) d).
Proof. exact @Exact.C01_exact_empty. Qed.
Print Assumptions C01_exact_empty.

(* One level, any context without counters for the operands' indexes: Choice returns exactly the result of the first alternative that has a derivation. *)
Theorem C01_choice_exact :
  forall (inp : input) (rules : list pexpr) (site : N -> option pexpr),
  wf_rules rules site ->
  (forall (k : N) (body : pexpr), nth_N rules k = Some body -> mono body = true) ->
  (forall (k : N) (body : pexpr), nth_N rules k = Some body -> endfree body = true) ->
  forall R M : N -> bool,
  closed_rules R M rules ->
  forall (f : nat) (ps : list pexpr) (c : ctx) (stk : stack) (l : intmap) 
    (pos : N) (ns : list node) (cp : intset) (err : option perr) (c' : ctx),
  (forall e : pexpr, In e ps -> opd rules site R M e) ->
  cinv inp rules site c ->
  in_file inp pos ->
  zero_on M l ->
  parse inp rules (S f) (PChoice ps) c stk l pos = Ok (ns, cp, err, c') ->
  cinv inp rules site c' /\
  (ns = [] /\ (forall e : pexpr, In e ps -> ~ (exists d : dtree, valid inp rules e pos d)) \/
   (exists (i : nat) (e : pexpr),
      nth_error ps i = Some e /\
      first_match inp rules ps pos i /\
      ns <> [] /\
      (exists (c0 : ctx) (cp0 : intset) (err0 : option perr) (c1 : ctx),
         cinv inp rules site c0 /\
         parse inp rules f e (reg_call c0) stk l pos = Ok (ns, cp0, err0, c1)) /\
      (forall n : node, In n ns -> exists d : dtree, valid inp rules e pos d /\ yield d = n) /\
      (forall d : dtree, valid inp rules e pos d -> compat inp l pos d -> In (yield d) ns) /\
      (forall d : dtree,
       valid inp rules e pos d -> exists n : node, In n ns /\ node_rpos n = dend d))).
Proof. exact @Exact.C01_choice_exact. Qed.
Print Assumptions C01_choice_exact.

(* One level: SeqTry / SeqFirstOrAll / Many / SepBy return exactly the maximal paths whose length passes the length check. *)
Theorem C01_seq_maximal_exact :
  forall (inp : input) (rules : list pexpr) (site : N -> option pexpr),
  wf_rules rules site ->
  (forall (k : N) (body : pexpr), nth_N rules k = Some body -> mono body = true) ->
  (forall (k : N) (body : pexpr), nth_N rules k = Some body -> endfree body = true) ->
  forall R M : N -> bool,
  closed_rules R M rules ->
  forall (f : nat) (k : seqkind) (ip : interp) (single : bool) (ps : list pexpr) 
    (c : ctx) (stk : stack) (l : intmap) (pos : N) (ns : list node) 
    (cp : intset) (err : option perr) (c' : ctx),
  (forall e : pexpr, In e ps -> opd rules site R M e) ->
  cinv inp rules site c ->
  in_file inp pos ->
  zero_on M l ->
  parse inp rules (S f) (PSeq k ip single None ps) c stk l pos = Ok (ns, cp, err, c') ->
  let q := {| q_kind := k; q_ip := ip; q_single := single; q_ps := ps |} in
  cinv inp rules site c' /\
  (forall n : node,
   In n ns ->
   exists ds : list dtree,
     valid inp rules (PSeq k ip single None ps) pos (DSeq q pos ds) /\
     seq_max inp rules k ps pos ds /\ yield (DSeq q pos ds) = n) /\
  (forall ds : list dtree,
   valid inp rules (PSeq k ip single None ps) pos (DSeq q pos ds) ->
   seq_max inp rules k ps pos ds ->
   (compat inp l pos (DSeq q pos ds) -> In (yield (DSeq q pos ds)) ns) /\
   (exists n : node, In n ns /\ node_rpos n = dend (DSeq q pos ds))).
Proof. exact @Exact.C01_seq_maximal_exact. Qed.
Print Assumptions C01_seq_maximal_exact.

(* The decidable stratification check is sound. *)
Theorem C01_stratified_check_sound :
  forall (rl ml : N -> nat) (rules : list pexpr),
  stratified_b rl ml rules = true -> rules_lev rl ml rules.
Proof. exact @ExactSpec.stratified_b_sound. Qed.
Print Assumptions C01_stratified_check_sound.

(* Necessity of the proviso (also true of the real code): P = Memoize(Choice(SeqOf(P, b), a)) has no level assignment, and first match fails for it. *)
Theorem C01_unstratified_choice_refuted :
  wf_rules v_rules v_site /\
  frag v_body = true /\
  (forall rl ml : N -> nat, ~ rules_lev rl ml v_rules) /\
  (exists (cp : intset) (err : option perr) (c : ctx),
     run (mk_input [97; 98; 98] 1) v_rules 100 (PRef 0) = Ok ([u_ab], cp, err, c)) /\
  valid (mk_input [97; 98; 98] 1) v_rules (PRef 0) 1 v_d2 /\ dend v_d2 = 4.
Proof. exact @Exact.unstratified_choice_left_recursion. Qed.
Print Assumptions C01_unstratified_choice_refuted.

