(* C14 — A parser graph can be shared by concurrent parses.
   Only statements here; each is closed by [exact] of a lemma of RaceProofs.v.

   These are the GENERIC theorems over any effect summary [p : Race.prog].  The summary of the code under
   verification is generated from the Go source on every run (work/C14/Effects.v); the generated
   obligation  effects_race_free : conflicts program = []  and the instantiations of the theorems below
   with [program] are compiled at run time (work/C14/EffectsCheck.v) by ./check C14.

   Partial: Go's memory model and runtime, the soundness of the extractor (tools/effects) and the
   classification table of Race.v are trusted, not proved. *)
From Coq Require Import String List NArith.
From Parsley Require Import Race RaceProofs.
Import ListNotations.

(* If the summary has no conflict — no two access sites reachable from the parse roots or from the
   constructors touch the same shared location, one of them writing, not both through sync/atomic —
   then no trace permitted by the summary contains a data race: for any number of threads, each a
   parse on the shared graph with its own context or a constructor, and any interleaving. *)
Theorem C14_no_data_race : forall p, conflicts p = [] ->
  forall kinds tr, permitted p kinds tr -> ~ has_race tr.
Proof. exact drf_generic. Qed.
Print Assumptions C14_no_data_race.

(* The same with explicit threads: for every family [ths] of per-thread access sequences, each permitted
   for its thread's kind, and every interleaving [tr] of them: no data race; every non-atomic read of
   every thread returns the value it returns when the thread runs alone from the same initial memory
   (its own earlier writes, else the initial value); and for a thread whose kind has no sync/atomic site
   the thread's sequence is by itself a sequentially consistent execution — what the others do is
   invisible to it. *)
Theorem C14_any_interleaving : forall p, conflicts p = [] ->
  forall kinds (ths : nat -> list event) tr,
  (forall t, Forall (permits p (kinds t)) (ths t)) -> interleaving_of ths tr ->
  ~ has_race tr /\
  (forall init, consistent init tr -> forall t, consistent_na init (ths t)) /\
  (forall init, consistent init tr -> forall t, atomic_sites p (kinds t) = [] -> consistent init (ths t)).
Proof. exact drf_interleavings. Qed.
Print Assumptions C14_any_interleaving.

(* "Each run returns the same result as when executed alone": a deterministic thread (its next access is a
   function [c] of the values it has read so far) of a kind without sync/atomic sites performs, inside any
   interleaving, exactly the first steps of its solo execution — same locations, same values read, same
   values written. *)
Theorem C14_same_as_alone : forall p, conflicts p = [] ->
  forall kinds tr init, permitted p kinds tr -> consistent init tr ->
  forall t c, atomic_sites p (kinds t) = [] -> follows c t [] (proj t tr) ->
  proj t tr = solo c t init [] (length (proj t tr)).
Proof. exact solo_deterministic. Qed.
Print Assumptions C14_same_as_alone.

(* For threads that do use sync/atomic (constructors: Memoize draws its parser index from an atomic
   counter) the values returned by the atomic operations depend on the interleaving; everything read
   non-atomically does not. *)
Theorem C14_reads_as_alone : forall p, conflicts p = [] ->
  forall kinds tr init, permitted p kinds tr -> consistent init tr ->
  forall t, consistent_na init (proj t tr).
Proof. exact solo_generic. Qed.
Print Assumptions C14_reads_as_alone.

(* Why [has_race] needs no happens-before relation: the model has no synchronisation, and a conflicting
   pair anywhere in a trace is adjacent in another interleaving of the very same per-thread sequences. *)
Theorem C14_race_is_adjacent : forall tr, has_race tr ->
  exists tr', (forall t, proj t tr' = proj t tr) /\ adjacent_race tr'.
Proof. exact race_adjacent. Qed.
Print Assumptions C14_race_is_adjacent.

(* The check is exact for the abstract semantics: every reported pair of sites is realised by a permitted
   two-thread trace with a data race. *)
Theorem C14_check_is_exact : forall p k1 f1 s1 k2 f2 s2,
  In (CRace k1 f1 s1 k2 f2 s2) (race_conflicts p) ->
  exists kinds tr, permitted p kinds tr /\ has_race tr.
Proof. exact conflict_realizable. Qed.
Print Assumptions C14_check_is_exact.
