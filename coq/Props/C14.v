(* C14 — A parser graph can be shared by concurrent parses.
   Only statements here; each is closed by [exact] of a lemma of RaceProofs.v.

   These are the GENERIC theorems over any effect summary [p : Race.prog].  The summary of the code under
   verification is generated from the Go source on every run (work/C14/Effects.v); the generated
   obligation  effects_race_free : conflicts program = []  and the instantiations of the theorems below
   with [program] are compiled at run time (work/C14/EffectsCheck.v) by ./check C14.

   Partial: Go's memory model and runtime, the soundness of the extractor (tools/effects) and the
   classification table of Race.v are trusted, not proved. *)
From Coq Require Import String List NArith.
From Parsley Require Import Race RaceProofs.
Import ListNotations.

(* If the summary has no conflict — no two access sites reachable from the parse roots or from the
   constructors touch the same shared location, one of them writing, not both through sync/atomic —
   then no trace permitted by the summary contains a data race: for any number of threads, each a
   parse on the shared graph with its own context or a constructor, and any interleaving. *)
Theorem C14_no_data_race : forall p, conflicts p = [] ->
  forall kinds tr, permitted p kinds tr -> ~ has_race tr.
Proof. exact drf_generic. Qed.
Print Assumptions C14_no_data_race.

(* The same with explicit threads: for every family [ths] of per-thread access sequences, each permitted
   for its thread's kind, and every interleaving [tr] of them: no data race; every non-atomic read of
   every thread returns the value it returns when the thread runs alone from the same initial memory
   (its own earlier writes, else the initial value); and for a thread whose kind has no sync/atomic site
   the thread's sequence is by itself a sequentially consistent execution — what the others do is
   invisible to it. *)
Theorem C14_any_interleaving : forall p, conflicts p = [] ->
  forall kinds (ths : nat -> list event) tr,
  (forall t, Forall (permits p (kinds t)) (ths t)) -> interleaving_of ths tr ->
  ~ has_race tr /\
  (forall init, consistent init tr -> forall t, consistent_na init (ths t)) /\
  (forall init, consistent init tr -> forall t, atomic_sites p (kinds t) = [] -> consistent init (ths t)).
Proof. exact drf_interleavings. Qed.
Print Assumptions C14_any_interleaving.

(* "Each run returns the same result as when executed alone": a deterministic thread (its next access is a
   function [c] of the values it has read so far) of a kind without sync/atomic sites performs, inside any
   interleaving, exactly the first steps of its solo execution — same locations, same values read, same
   values written. *)
Theorem C14_same_as_alone : forall p, conflicts p = [] ->
  forall kinds tr init, permitted p kinds tr -> consistent init tr ->
  forall t c, atomic_sites p (kinds t) = [] -> follows c t [] (proj t tr) ->
  proj t tr = solo c t init [] (length (proj t tr)).
Proof. exact solo_deterministic. Qed.
Print Assumptions C14_same_as_alone.

(* For threads that do use sync/atomic (constructors: Memoize draws its parser index from an atomic
   counter) the values returned by the atomic operations depend on the interleaving; everything read
   non-atomically does not. *)
Theorem C14_reads_as_alone : forall p, conflicts p = [] ->
  forall kinds tr init, permitted p kinds tr -> consistent init tr ->
  forall t, consistent_na init (proj t tr).
Proof. exact solo_generic. Qed.
Print Assumptions C14_reads_as_alone.

(* Why [has_race] needs no happens-before relation: the model has no synchronisation, and a conflicting
   pair anywhere in a trace is adjacent in another interleaving of the very same per-thread sequences. *)
Theorem C14_race_is_adjacent : forall tr, has_race tr ->
  exists tr', (forall t, proj t tr' = proj t tr) /\ adjacent_race tr'.
Proof. exact race_adjacent. Qed.
Print Assumptions C14_race_is_adjacent.

(* The check is exact for the abstract semantics: every reported pair of sites is realised by a permitted
   two-thread trace with a data race. *)
Theorem C14_check_is_exact : forall p k1 f1 s1 k2 f2 s2,
  In (CRace k1 f1 s1 k2 f2 s2) (race_conflicts p) ->
  exists kinds tr, permitted p kinds tr /\ has_race tr.
Proof. exact conflict_realizable. Qed.
Print Assumptions C14_check_is_exact.

(* Second obligation (separately named, generated as  effects_updates_atomic : atomic_update_defects program = []):
   "every update of a shared location is ONE atomic operation".  If the summary has no such defect then no call
   of an entry point of a kind of thread (for constructor threads: of any function) reaches both an atomic Load
   site and an atomic Store site of the same shared location.  Data-race freedom cannot see this: Load + Store is
   race free, yet two overlapping constructor calls can both load the old value (see ex_lost_update_is_silent). *)
Theorem C14_updates_are_atomic : forall p, atomic_update_defects p = [] ->
  forall k h, In h (roots p k) ->
  forall fl sl fs ss,
    In fl (p_funcs p) -> In sl (f_sites fl) -> reachable p [h] (f_name fl) ->
    In fs (p_funcs p) -> In ss (f_sites fs) -> reachable p [h] (f_name fs) ->
    sharedb k sl = true -> sharedb k ss = true ->
    s_aop sl = ALoad -> s_aop ss = AStore -> s_loc sl = s_loc ss -> False.
Proof. exact updates_atomic_generic. Qed.
Print Assumptions C14_updates_are_atomic.

(* What it buys: when every write to a counter is a single atomic increment of its current value (atomic.AddInt32,
   the only way combinator.Memoize touches nextParserIndex), the values drawn are pairwise distinct in every
   interleaving — concurrently constructed memoized parsers get distinct parser indices. *)
Theorem C14_atomic_draws_distinct : forall l m tr, increments l m tr -> NoDup (draws l tr).
Proof. exact draws_distinct. Qed.
Print Assumptions C14_atomic_draws_distinct.
