(* C06 — Parse errors point at the furthest failure and render a real line:column.
   Only statements: each theorem repeats the full statement of a lemma proved elsewhere and is closed by [exact]. *)
From Coq Require Import String List NArith ZArith Bool.
From Parsley Require Import Obs Base FileSet FileSetProofs Grammar Engine EngineHarness Errors.
Import ListNotations.
Open Scope N_scope.

(* For every trim-free grammar over single-byte (rune) terminals (notrim/ok4 include runes_only: a literal parser's error can lie beyond
   its start position, Errors.C06_not_beyond_needs_runes_only; all other combinators, memoized nonterminals, named or unnamed alternatives),
   every input and fuel:
   the error a failing Sentence-rooted parsley.Parse reports lies inside the file and is never beyond a logged failed attempt
   (a terminal or end-of-input that was tried there and did not match) — or is one of two explicitly listed origins with no
   attempt behind them: a Name applied to an operand that returned neither node nor error (only possible through pure
   left-recursion curtailment), or Parse's "a valid input" fallback. *)
Theorem C06_not_beyond :
  forall (inp : input) (rules : list pexpr) (fuel : nat) (root : pexpr) (e : perr) (c : ctx),
  notrim root = true ->
  forallb notrim rules = true ->
  parse_top inp rules fuel (sentence root) = Ok (TopErr e c) ->
  i_offset inp <= epos e /\
  epos e <= i_offset inp + i_len inp /\
  ((exists (p : N) (k : cause), In (p, k) (g_fails c) /\ epos e <= p) \/
   (exists nm : list N, ecause e = CNotFound nm /\ In nm (gnames (root :: rules))) \/
   e = mk_err (i_offset inp) (CNotFound name_valid_input)).
Proof. exact @Errors.C06_not_beyond. Qed.
Print Assumptions C06_not_beyond.

(* The reported expectation is that of a logged failed attempt AT the reported position, or a Name of the grammar, or the fallback. *)
Theorem C06_expectation_real :
  forall (inp : input) (rules : list pexpr) (fuel : nat) (root : pexpr) (e : perr) (c : ctx),
  notrim root = true ->
  forallb notrim rules = true ->
  parse_top inp rules fuel (sentence root) = Ok (TopErr e c) ->
  In (epos e, ecause e) (g_fails c) \/
  (exists nm : list N, ecause e = CNotFound nm /\ In nm (gnames (root :: rules))) \/
  e = mk_err (i_offset inp) (CNotFound name_valid_input).
Proof. exact @Errors.C06_expectation_real. Qed.
Print Assumptions C06_expectation_real.

(* Exception-free form: when no Name wraps an operand that can return empty-handed (decidable `guarded`) an attempt failed exactly at the reported position. *)
Theorem C06_guarded :
  forall (inp : input) (rules : list pexpr) (fuel : nat) (root : pexpr) (e : perr) (c : ctx),
  notrim root = true ->
  forallb notrim rules = true ->
  guarded root = true ->
  forallb guarded rules = true ->
  ne root = true ->
  parse_top inp rules fuel (sentence root) = Ok (TopErr e c) ->
  i_offset inp <= epos e /\
  epos e <= i_offset inp + i_len inp /\
  (In (epos e, ecause e) (g_fails c) \/
   (exists nm t : list N,
      ecause e = CNotFound nm /\
      In nm (gnames (root :: rules)) /\ In (epos e, CNotFound t) (g_fails c))).
Proof. exact @Errors.C06_guarded. Qed.
Print Assumptions C06_guarded.

(* For productive grammars (every Memoize derives something; decidable ranking) no logged failed attempt lies beyond the reported position. *)
Theorem C06_no_attempt_lost_productive :
  forall (inp : input) (rules : list pexpr) (rk : N -> nat) (fuel : nat)
    (root : pexpr) (e : perr) (c : ctx),
  ok4 rules root = true ->
  forallb (ok4 rules) rules = true ->
  ranked rules rk root = true ->
  forallb (ranked rules rk) rules = true ->
  parse_top inp rules fuel (sentence root) = Ok (TopErr e c) ->
  forall (q : N) (k : cause), In (q, k) (g_fails c) -> q <= epos e.
Proof. exact @Errors.C06_no_attempt_lost_productive. Qed.
Print Assumptions C06_no_attempt_lost_productive.

(* EQUALITY: under productivity and guardedness the reported position equals the furthest failed attempt (naming every
   Any/Choice is not even needed). *)
Theorem C06_furthest :
  forall (inp : input) (rules : list pexpr) (rk : N -> nat) (n fuel : nat)
    (root : pexpr) (e : perr) (c : ctx),
  ok4 rules root = true ->
  forallb (ok4 rules) rules = true ->
  ranked rules rk root = true ->
  forallb (ranked rules rk) rules = true ->
  prodn rules rk n root = true ->
  guarded root = true ->
  forallb guarded rules = true ->
  parse_top inp rules fuel (sentence root) = Ok (TopErr e c) ->
  (exists k : cause, In (epos e, k) (g_fails c)) /\
  (forall (q : N) (k : cause), In (q, k) (g_fails c) -> q <= epos e).
Proof. exact @Errors.C06_furthest. Qed.
Print Assumptions C06_furthest.

(* The same with the boolean productivity checker. *)
Theorem C06_furthest_decidable :
  forall (inp : input) (rules : list pexpr) (fuel : nat) (root : pexpr) (e : perr) (c : ctx),
  ok4 rules root = true ->
  forallb (ok4 rules) rules = true ->
  productive_b rules root = true ->
  guarded root = true ->
  forallb guarded rules = true ->
  parse_top inp rules fuel (sentence root) = Ok (TopErr e c) ->
  (exists k : cause, In (epos e, k) (g_fails c)) /\
  (forall (q : N) (k : cause), In (q, k) (g_fails c) -> q <= epos e).
Proof. exact @Errors.C06_furthest_decidable. Qed.
Print Assumptions C06_furthest_decidable.

(* The text is "failed to parse the input: <expectation> at <file>:<line>:<column>" with line and column of exactly that position (C11). *)
Theorem C06_render :
  forall (data : list N) (offset : N) (rules : list pexpr) (fuel : nat)
    (root : pexpr) (e : perr) (c : ctx),
  notrim root = true ->
  forallb notrim rules = true ->
  parse_top (eng_input data offset) rules fuel (sentence root) = Ok (TopErr e c) ->
  spec_position (eng_files data offset) (epos e) = Some (render_pos data offset (epos e)) /\
  top_text (new_fileset (eng_files data offset)) e =
  Ok
    (bytes "failed to parse the input: " ++
     cause_msg (ecause e) ++ bytes " at " ++ position_string (render_pos data offset (epos e))).
Proof. exact @Errors.C06_render. Qed.
Print Assumptions C06_render.

(* Every logged attempt lies inside the file. *)
Theorem C06_attempts_in_file :
  forall (inp : input) (rules : list pexpr) (fuel : nat) (root : pexpr) (e : perr) (c : ctx),
  notrim root = true ->
  forallb notrim rules = true ->
  parse_top inp rules fuel (sentence root) = Ok (TopErr e c) ->
  forall (q : N) (k : cause),
  In (q, k) (g_fails c) -> i_offset inp <= q <= i_offset inp + i_len inp.
Proof. exact @Errors.C06_attempts_in_file. Qed.
Print Assumptions C06_attempts_in_file.

(* FINDING K2 (by vm_compute on the model, reproduced on the real code): with an unproductive rule the reported position can be SHORT of the
   furthest failed attempt even though every alternative is named. *)
Theorem C06_furthest_refuted_without_productivity :
  exists (inp : input) (rules : list pexpr) (root : pexpr) (e : perr)
  (c : ctx),
    ok4 rules root = true /\
    forallb (ok4 rules) rules = true /\
    guarded root = true /\
    forallb guarded rules = true /\
    ne root = true /\
    named root = true /\
    forallb named rules = true /\
    parse_top inp rules 200 (sentence root) = Ok (TopErr e c) /\
    (exists (q : N) (k : cause), In (q, k) (g_fails c) /\ epos e < q) /\
    (exists (k : N * N) (r : result),
       In (k, r) (cache c) /\ reusable (r_lrc r) [] = true /\ r_nodes r = [] /\ r_err r = None).
Proof. exact @Errors.C06_furthest_refuted_without_productivity. Qed.
Print Assumptions C06_furthest_refuted_without_productivity.

(* FINDING K2b: Sentence(SeqOf(a, Name(n, &U))) with U -> U b on "abc" reports position 2 although no attempt failed anywhere. *)
Theorem C06_exception_iii_example :
  notrim (ex_seq [ex_a; PName [110] (PRef 0)]) = true /\
  top_view
    (parse_top (ex_inp [97; 98; 99]) [ex_U] 200
       (sentence (ex_seq [ex_a; PName [110] (PRef 0)]))) =
  Some (mk_err 2 (CNotFound [110]), []).
Proof. exact @Errors.C06_example_exception_iii. Qed.
Print Assumptions C06_exception_iii_example.

